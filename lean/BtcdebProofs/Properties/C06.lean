/-
  C06 — tap: the printed address and witnesses verify, whatever leaf is spent.

  Model: `Btcdeb/Model/Tap.lean` (tap.cpp: `TapLeaf`/`TapBranch` hashes, the loop that pairs consecutive leaves, the
         leftover leaf baked into the right-most pair, the `while`/`for` merge passes (literal `erase`+overwrite loop
         `mergeFor`, proved equal to the pairing recursion `mergePass`), `Prove`, TapTweak, `tweakAdd`, the parity bit
         of the control byte, the witness stack, the order of the argument checks: `Tap.run`, `Tap.mainArgs`).
  Spec:  `Btcdeb/Spec/Taproot.lean` (`bip341Valid`), `Btcdeb/Spec/TapTree.lean` (script tree, Merkle root, path table,
         `isOutputKey`, `controlBlock`).
  Debugger: `Btcdeb/Model/Session.lean` (`Tce.init`, `Tce.iterate`), run to its end by `Tap.tceRun`.

  Parameters (trusted shape, proved for the concrete instance): the tagged hash returns 32 bytes (`Hash32`; proved for
  SHA-256: `glue_hash32`), and a key made by `tweakAdd` passes the oracle's `tweakCheck` with the reported parity
  (`Agree`, `AgreeTce`; proved for `Crypto.xonlyTweakAdd` vs `Glue.tapOracle` / `Glue.tapCtx`: `glue_agree`, `glue_agreeTce`).
  `bech32m : hrp → witness version → program → Option String` is a parameter of `Tap.run` (`none` = the encoder's assertion on
  an upper-case prefix); the concrete one is `Tap.bech32mAddress` = `bech32::Encode(BECH32M, ..)` of Model/Encodings.lean, whose
  agreement with BIP350 is C14's `bech32_encode_spec`.  The address statements say `bech32m hrp 1 outputKey = some address`.
  Transaction part: `Tap.setWitness`, `Tap.txWitness`, `Tap.calcSighash` (= `configure_tx_txin` of Model/Spend.lean, then
  `Instance::calc_sighash` on top of Model/Sighash.lean), `Tap.runTx`; helper lemmas in Lemmas/TapSpend.lean.

  All statements are for ALL lists of scripts and ALL leaf indices.  Property theorems (section "Property theorems"):
    tap_tree_is_bip341_tree          any n ≥ 1: the loops end with ONE tree; its stored root hash is the BIP341 Merkle
                                     root of that tree; its leaves are exactly the scripts, in order, each once;
                                     height ≤ k whenever n ≤ 2^k  (so ⌈log2 n⌉; ≤ 10 for tap's limit of 1024 scripts)
    tap_control_verifies_any_count   any 1 ≤ n ≤ 2^128, any i < n: the emitted path has ≤ 128 entries, is the entry of
                                     leaf i in the BIP341 path table, and `bip341Valid` accepts (control, script i)
                                     for every key the tweak produces  (2^128 is BIP341's own limit: 128 path entries)
    tap_control_verifies             whenever `Tap.run` succeeds with leaf i selected: script = scripts[i], witness =
                                     args ++ [script, control], address = bech32m hrp 1 key, `bip341Valid` holds
    tap_accepted_by_debugger         ... and `TaprootCommitmentEnv` constructed on (control, key, script) and iterated
                                     to its end answers Done
    tap_address_independent_of_selection   for i < n the runs with and without a selected leaf (any arguments) succeed or
                                     fail alike and agree on address, output key, parity, root and tweak
    tap_address_is_bip341_output_key whenever `Tap.run` succeeds (either mode): the key is the BIP341 output key of the
                                     internal key and the root of a script tree with exactly the given leaves
    tap_run_ok                       totality on the intended domain (32-byte key that parses, 1..1024 valid scripts,
                                     index in range)
    tap_sighash_is_bip341            single-input spend of the P2TR output of the printed key: `configure_tx_txin` accepts the
                                     transaction tap builds and the reported signature hash is `Spec.bip341Digest sha256 tx' 0 0x00
                                     [spent] none ext` of the transaction it outputs (ext = none on the key path, TapLeaf hash of the
                                     printed script with code separator position 0xffffffff on the script path); `runTx` returns it
    tap_sighash_multi_input_refused  any other number of inputs: refused (by `configure_tx_txin` or by `calc_sighash`'s input-count check)
    tap_sighash_never_abnormal       P2TR spent output, empty scriptSig: no assertion is reached for any number of inputs and any witness
    mainArgs_never_addressAssert     the prefix check of `main` makes the encoder's upper-case assertion unreachable
                                     (`bech32mAddress_of_hrpOk`: a checked prefix always gives an address)
    tap_roundtrip_keypath            a 64-byte signature valid under the output key over the reported hash, passed back with --sig:
                                     the transaction tap outputs has witness [sig] and `Spec.verifyScript` accepts the input
    tap_roundtrip_scriptpath         the same for a leaf `<32-byte key> OP_CHECKSIG` spent without arguments: witness
                                     [sig, script, control], accepted by `Spec.verifyScript`
    *_concrete                       the same for the SHA-256 / secp256k1 instance, with no hypothesis left
  plus `example`s on five scripts (two equal, one empty, the leftover leaf spent; then the same with --tx and --txin) showing that
  the hypotheses are satisfiable together.
  Hypotheses worth noting: the spent output must BE `OP_1 <output key>` (tap itself only checks that the scriptPubKey ends with
  the key, tap.cpp:370-380); the witness limits of `configure_tx_txin` (items ≤ 520 bytes, < 1000 arguments); `toBool outputKey`
  in the round trip (a key is never all zero; stated because `Tap.Ctx` is abstract).
-/
import Btcdeb.Model.Tap
import Btcdeb.Spec.TapTree
import BtcdebProofs.Lemmas.TapTree
import BtcdebProofs.Lemmas.TapSpend
import BtcdebProofs.Properties.C05
import BtcdebProofs.Properties.C14
namespace Btcdeb.Proofs.C06
open Btcdeb Btcdeb.Model Btcdeb.Model.Tap Btcdeb.Spec Btcdeb.Proofs.TapTree

/-! ## Hypotheses on the parameters -/

/-- the hash function returns 32 bytes (`uint256`) -/
def Hash32 (cx : Tap.Ctx) : Prop := ∀ tag m, (cx.taggedHash tag m).length = 32

/-- tap's hashing / tweaking and the oracle BIP341 is stated over agree: same tagged hash, and a key produced
    by `tweakAdd` passes `tweakCheck` with the parity that was reported -/
structure Agree (cx : Tap.Ctx) (o : TapOracle) : Prop where
  hash : ∀ tag m, o.taggedHash tag m = cx.taggedHash tag m
  tweak : ∀ p t q odd, cx.tweakAdd p t = some (q, odd) → o.tweakCheck q p t odd = true

/-- the same for what `TaprootCommitmentEnv` calls (`CheckTapTweak` hashes the Merkle root itself) -/
structure AgreeTce (cx : Tap.Ctx) (tc : TapCtx) : Prop where
  hash : ∀ tag m, tc.taggedHash tag m = cx.taggedHash tag m
  tweak : ∀ p k q odd, cx.tweakAdd p (cx.taggedHash "TapTweak" (p ++ k)) = some (q, odd) →
    tc.checkTapTweak q p k odd = true

@[simp] theorem hash_leaf (i : Nat) (h : Bytes) : (Node.leaf i h).hash = h := rfl
@[simp] theorem hash_branch (l r : Node) (h : Bytes) : (Node.branch l r h).hash = h := rfl

/-! ## Well-formed nodes: every stored hash is what the constructor computes -/

def WF (cx : Tap.Ctx) (scripts : List Bytes) : Node → Prop
  | .leaf i h => ∃ s, scripts[i]? = some s ∧ h = leafHash cx s
  | .branch l r h => WF cx scripts l ∧ WF cx scripts r ∧ h = branchHash cx l.hash r.hash

theorem compactSize_eq_varint (n : Nat) : Model.compactSize n = varint n := rfl

theorem leafHash_eq {cx : Tap.Ctx} {o : TapOracle} (hag : Agree cx o) (s : Bytes) :
    leafHash cx s = tapLeafHash o 0xc0 s := by
  simp only [leafHash, tapLeafHash, hag.hash, compactSize_eq_varint]; rfl

theorem branchHash_eq {cx : Tap.Ctx} {o : TapOracle} (hag : Agree cx o) (a b : Bytes) :
    branchHash cx a b = tapBranchHash o a b := by
  rw [tapBranchHash_comm]
  simp only [branchHash, tapBranchHash, hag.hash, lexLt_eq_bytesLt]

theorem wf_hash_length {cx : Tap.Ctx} (h32 : Hash32 cx) {scripts : List Bytes} {t : Node} (h : WF cx scripts t) :
    t.hash.length = 32 := by
  cases t with
  | leaf i h' => obtain ⟨s, _, rfl⟩ := h; exact h32 _ _
  | branch l r h' =>
    obtain ⟨_, _, rfl⟩ := h
    simp only [hash_branch, branchHash]; split <;> exact h32 _ _

/-- the hash stored in a node is the BIP341 Merkle root of the tree it stands for -/
theorem wf_hash_eq_root {cx : Tap.Ctx} {o : TapOracle} (hag : Agree cx o) {scripts : List Bytes} :
    ∀ {t : Node}, WF cx scripts t → t.hash = (t.toTree scripts).root o
  | .leaf i h, hw => by
    obtain ⟨s, hs, rfl⟩ := hw
    simp [Node.toTree, TapTree.root, leafHash_eq hag, List.getD, hs]
  | .branch l r h, hw => by
    obtain ⟨hl, hr, rfl⟩ := hw
    simp [Node.toTree, TapTree.root, branchHash_eq hag, wf_hash_eq_root hag hl, wf_hash_eq_root hag hr]

/-! ## `Prove` -/

def chainEnd (o : TapOracle) (x : Bytes) (p : List Bytes) : Bytes := (merkleChain o x p).getLastD []

theorem chainEnd_nil (o : TapOracle) (x : Bytes) : chainEnd o x [] = x := merkleChain_last_nil o x
theorem chainEnd_cons (o : TapOracle) (x n : Bytes) (p : List Bytes) :
    chainEnd o x (n :: p) = chainEnd o (tapBranchHash o x n) p := merkleChain_last_cons o x n p
theorem chainEnd_snoc (o : TapOracle) (x s : Bytes) (p : List Bytes) :
    chainEnd o x (p ++ [s]) = tapBranchHash o (chainEnd o x p) s := merkleChain_last_snoc o x s p

/-- folding the branch hash over the emitted path, starting from the leaf hash of script `i`, gives the hash of the node -/
theorem prove_chain {cx : Tap.Ctx} {o : TapOracle} (hag : Agree cx o) {scripts : List Bytes} (i : Nat) :
    ∀ {t : Node} {p : List Bytes}, WF cx scripts t → t.prove i = some p →
      ∃ s, scripts[i]? = some s ∧ chainEnd o (tapLeafHash o 0xc0 s) p = t.hash
  | .leaf j h, p, hw, hp => by
    obtain ⟨s, hs, rfl⟩ := hw
    simp only [Node.prove] at hp
    split at hp
    · next hji => subst hji; simp at hp; subst hp; exact ⟨s, hs, by simp [chainEnd_nil, leafHash_eq hag]⟩
    · simp at hp
  | .branch l r h, p, hw, hp => by
    obtain ⟨hl, hr, rfl⟩ := hw
    simp only [Node.prove] at hp
    split at hp
    · next pl hpl =>
      simp at hp; subst hp
      obtain ⟨s, hs, hc⟩ := prove_chain hag i hl hpl
      exact ⟨s, hs, by simp [chainEnd_snoc, hc, branchHash_eq hag]⟩
    · split at hp
      · next pr hpr =>
        simp at hp; subst hp
        obtain ⟨s, hs, hc⟩ := prove_chain hag i hr hpr
        refine ⟨s, hs, ?_⟩
        simp only [chainEnd_snoc, hc, hash_branch, branchHash_eq hag]
        exact tapBranchHash_comm o _ _
      · simp at hp

theorem prove_length_le (i : Nat) : ∀ {t : Node} {p : List Bytes}, t.prove i = some p → p.length ≤ t.height
  | .leaf j h, p, hp => by
    simp only [Node.prove] at hp
    split at hp <;> simp at hp; subst hp; simp
  | .branch l r h, p, hp => by
    simp only [Node.prove] at hp
    split at hp
    · next pl hpl =>
      simp at hp; subst hp
      have := prove_length_le i hpl
      simp [Node.height]; omega
    · split at hp
      · next pr hpr =>
        simp at hp; subst hp
        have := prove_length_le i hpr
        simp [Node.height]; omega
      · simp at hp

theorem prove_all32 {cx : Tap.Ctx} (h32 : Hash32 cx) {scripts : List Bytes} (i : Nat) :
    ∀ {t : Node} {p : List Bytes}, WF cx scripts t → t.prove i = some p → ∀ x ∈ p, x.length = 32
  | .leaf j h, p, _, hp => by
    simp only [Node.prove] at hp
    split at hp <;> simp at hp; subst hp; simp
  | .branch l r h, p, hw, hp => by
    obtain ⟨hl, hr, rfl⟩ := hw
    simp only [Node.prove] at hp
    split at hp
    · next pl hpl =>
      simp at hp; subst hp
      intro x hx
      simp at hx
      rcases hx with hx | rfl
      · exact prove_all32 h32 i hl hpl x hx
      · exact wf_hash_length h32 hr
    · split at hp
      · next pr hpr =>
        simp at hp; subst hp
        intro x hx
        simp at hx
        rcases hx with hx | rfl
        · exact prove_all32 h32 i hr hpr x hx
        · exact wf_hash_length h32 hl
      · simp at hp

theorem prove_isSome_of_mem (i : Nat) : ∀ {t : Node}, i ∈ t.indices → ∃ p, t.prove i = some p
  | .leaf j h, hm => by
    simp [Node.indices] at hm; subst hm; exact ⟨[], by simp [Node.prove]⟩
  | .branch l r h, hm => by
    simp only [Node.indices, List.mem_append] at hm
    simp only [Node.prove]
    cases hl : l.prove i with
    | some p => exact ⟨_, rfl⟩
    | none =>
      rcases hm with hm | hm
      · obtain ⟨p, hp⟩ := prove_isSome_of_mem i hm; rw [hl] at hp; cases hp
      · obtain ⟨p, hp⟩ := prove_isSome_of_mem i hm; rw [hp]; exact ⟨_, rfl⟩

/-- the emitted (script, path) is an entry of the BIP341 path table of the tree -/
theorem prove_mem_paths {cx : Tap.Ctx} {o : TapOracle} (hag : Agree cx o) {scripts : List Bytes} (i : Nat) :
    ∀ {t : Node} {p : List Bytes}, WF cx scripts t → t.prove i = some p →
      (0xc0, scripts.getD i [], p) ∈ (t.toTree scripts).paths o
  | .leaf j h, p, _, hp => by
    simp only [Node.prove] at hp
    split at hp
    · next hji => subst hji; simp at hp; subst hp; simp [Node.toTree, TapTree.paths]
    · simp at hp
  | .branch l r h, p, hw, hp => by
    obtain ⟨hl, hr, rfl⟩ := hw
    simp only [Node.prove] at hp
    simp only [Node.toTree, TapTree.paths, List.mem_append, List.mem_map]
    split at hp
    · next pl hpl =>
      simp at hp; subst hp
      exact Or.inl ⟨_, prove_mem_paths hag i hl hpl, by simp [wf_hash_eq_root hag hr]⟩
    · split at hp
      · next pr hpr =>
        simp at hp; subst hp
        exact Or.inr ⟨_, prove_mem_paths hag i hr hpr, by simp [wf_hash_eq_root hag hl]⟩
      · simp at hp

/-! ## The construction: merge passes -/

def AllWF (cx : Tap.Ctx) (scripts : List Bytes) (l : List Node) : Prop := ∀ t ∈ l, WF cx scripts t
/-- the leaf indices of a list of nodes, left to right -/
def idx (l : List Node) : List Nat := l.flatMap Node.indices
def AllH (h : Nat) (l : List Node) : Prop := ∀ t ∈ l, t.height ≤ h

@[simp] theorem idx_nil : idx [] = [] := rfl
@[simp] theorem idx_cons (t : Node) (l : List Node) : idx (t :: l) = t.indices ++ idx l := by simp [idx]
@[simp] theorem idx_append (a b : List Node) : idx (a ++ b) = idx a ++ idx b := by simp [idx]
@[simp] theorem indices_mkBranch (cx : Tap.Ctx) (l r : Node) : (mkBranch cx l r).indices = l.indices ++ r.indices := rfl
@[simp] theorem indices_mkLeaf (cx : Tap.Ctx) (i : Nat) (s : Bytes) : (mkLeaf cx i s).indices = [i] := rfl
@[simp] theorem height_mkBranch (cx : Tap.Ctx) (l r : Node) : (mkBranch cx l r).height = max l.height r.height + 1 := rfl
@[simp] theorem height_mkLeaf (cx : Tap.Ctx) (i : Nat) (s : Bytes) : (mkLeaf cx i s).height = 0 := rfl

theorem wf_mkBranch {cx : Tap.Ctx} {scripts : List Bytes} {l r : Node} (hl : WF cx scripts l) (hr : WF cx scripts r) :
    WF cx scripts (mkBranch cx l r) := ⟨hl, hr, rfl⟩

theorem wf_mkLeaf {cx : Tap.Ctx} {scripts : List Bytes} {i : Nat} {s : Bytes} (h : scripts[i]? = some s) :
    WF cx scripts (mkLeaf cx i s) := ⟨s, h, rfl⟩

@[simp] theorem mergePass_nil (cx : Tap.Ctx) : mergePass cx [] = [] := rfl
@[simp] theorem mergePass_one (cx : Tap.Ctx) (x : Node) : mergePass cx [x] = [x] := rfl
@[simp] theorem mergePass_two (cx : Tap.Ctx) (x y : Node) (l : List Node) :
    mergePass cx (x :: y :: l) = mkBranch cx x y :: mergePass cx l := rfl

/-- the literal `for` loop (erase + overwrite while the index advances) is the pairing recursion -/
theorem mergeFor_eq (cx : Tap.Ctx) : ∀ (fuel : Nat) (pre rest : List Node), rest.length ≤ fuel →
    mergeFor cx fuel pre.length (pre ++ rest) = pre ++ mergePass cx rest
  | 0, pre, rest, h => by
    have : rest = [] := List.length_eq_zero_iff.mp (by omega)
    subst this; simp [mergeFor]
  | fuel + 1, pre, [], _ => by simp [mergeFor]
  | fuel + 1, pre, [x], _ => by simp [mergeFor]
  | fuel + 1, pre, x :: y :: rest, h => by
    have ih := mergeFor_eq cx fuel (pre ++ [mkBranch cx x y]) rest (by simp at h; omega)
    simp only [mergeFor, List.length_append, List.length_cons]
    rw [if_pos (by omega)]
    have h1 : (pre ++ x :: y :: rest)[pre.length]? = some x := by simp
    have h2 : (pre ++ x :: y :: rest)[pre.length + 1]? = some y := by
      rw [List.getElem?_append_right (by omega)]; simp
    rw [h1, h2]
    simp only
    have h3 : (pre ++ x :: y :: rest).eraseIdx pre.length = pre ++ y :: rest := by
      rw [List.eraseIdx_append_of_length_le (by omega)]; simp
    have h4 : (pre ++ y :: rest).set pre.length (mkBranch cx x y) = pre ++ mkBranch cx x y :: rest := by
      rw [List.set_append_right _ _ (by omega)]; simp
    rw [h3, h4]
    simpa using ih

theorem mergeLoop_succ (cx : Tap.Ctx) (fuel : Nat) (l : List Node) :
    mergeLoop cx (fuel + 1) l = if l.length > 1 then mergeLoop cx fuel (mergePass cx l) else l := by
  have := mergeFor_eq cx l.length [] l (Nat.le_refl _)
  simp only [List.length_nil, List.nil_append] at this
  simp only [mergeLoop, this]

theorem mergePass_wf {cx : Tap.Ctx} {scripts : List Bytes} : ∀ l : List Node, AllWF cx scripts l → AllWF cx scripts (mergePass cx l)
  | [], h => by simpa using h
  | [x], h => by simpa using h
  | x :: y :: rest, h => by
    intro t ht
    simp only [mergePass_two, List.mem_cons] at ht
    rcases ht with rfl | ht
    · exact wf_mkBranch (h _ (by simp)) (h _ (by simp))
    · exact mergePass_wf rest (fun t ht => h t (by simp [ht])) t ht

theorem mergePass_idx (cx : Tap.Ctx) : ∀ l : List Node, idx (mergePass cx l) = idx l
  | [] => rfl
  | [x] => rfl
  | x :: y :: rest => by simp [mergePass_idx cx rest]

theorem mergePass_length (cx : Tap.Ctx) : ∀ l : List Node, (mergePass cx l).length = (l.length + 1) / 2
  | [] => rfl
  | [x] => by simp
  | x :: y :: rest => by simp [mergePass_length cx rest]; omega

theorem mergePass_allH (cx : Tap.Ctx) (h : Nat) : ∀ l : List Node, AllH h l → AllH (h + 1) (mergePass cx l)
  | [], _ => by intro t ht; simp at ht
  | [x], hl => by intro t ht; simp at ht; subst ht; have := hl t (by simp); omega
  | x :: y :: rest, hl => by
    intro t ht
    simp only [mergePass_two, List.mem_cons] at ht
    rcases ht with rfl | ht
    · have h1 := hl x (by simp); have h2 := hl y (by simp); simp; omega
    · exact mergePass_allH cx h rest (fun t ht => hl t (by simp [ht])) t ht

theorem mergePass_append_even (cx : Tap.Ctx) : ∀ (a b : List Node), a.length % 2 = 0 →
    mergePass cx (a ++ b) = mergePass cx a ++ mergePass cx b
  | [], b, _ => by simp
  | [x], b, h => by simp at h
  | x :: y :: a, b, h => by
    have := mergePass_append_even cx a b (by simp at h; omega)
    simp [this]

theorem mergeLoop_wf {cx : Tap.Ctx} {scripts : List Bytes} : ∀ (fuel : Nat) (l : List Node),
    AllWF cx scripts l → AllWF cx scripts (mergeLoop cx fuel l)
  | 0, l, h => h
  | fuel + 1, l, h => by
    rw [mergeLoop_succ]; split
    · exact mergeLoop_wf fuel _ (mergePass_wf l h)
    · exact h

theorem mergeLoop_idx (cx : Tap.Ctx) : ∀ (fuel : Nat) (l : List Node), idx (mergeLoop cx fuel l) = idx l
  | 0, l => rfl
  | fuel + 1, l => by
    rw [mergeLoop_succ]; split
    · rw [mergeLoop_idx cx fuel, mergePass_idx]
    · rfl

/-- with as many passes as there are elements the loop ends with one element (none if there was none) -/
theorem mergeLoop_length (cx : Tap.Ctx) : ∀ (fuel : Nat) (l : List Node), l.length ≤ fuel + 1 →
    (mergeLoop cx fuel l).length = min l.length 1
  | 0, l, h => by simp [mergeLoop]; omega
  | fuel + 1, l, h => by
    rw [mergeLoop_succ]; split
    · next hl =>
      rw [mergeLoop_length cx fuel _ (by rw [mergePass_length]; omega), mergePass_length]; omega
    · omega

/-- heights: `2^k` elements of height at most `h` end as a tree of height at most `h + k` -/
theorem mergeLoop_height_A (cx : Tap.Ctx) : ∀ (fuel k h : Nat) (l : List Node), AllH h l → l.length ≤ 2 ^ k →
    AllH (h + k) (mergeLoop cx fuel l)
  | 0, k, h, l, hl, _ => fun t ht => by have := hl t ht; omega
  | fuel + 1, k, h, l, hl, hk => by
    rw [mergeLoop_succ]; split
    · next hlen =>
      cases k with
      | zero => simp at hk; omega
      | succ k =>
        have := mergeLoop_height_A cx fuel k (h + 1) _ (mergePass_allH cx h l hl)
          (by rw [mergePass_length]; rw [Nat.pow_succ] at hk; omega)
        intro t ht; have := this t ht; omega
    · intro t ht; have := hl t ht; omega

/-- heights when the last element is one level higher than the others: if there is room for one more element
    below `2^k`, the extra level is absorbed -/
theorem mergeLoop_height_B (cx : Tap.Ctx) : ∀ (fuel k h : Nat) (init : List Node) (last : Node), AllH h init →
    last.height ≤ h + 1 → init.length + 2 ≤ 2 ^ k → AllH (h + k) (mergeLoop cx fuel (init ++ [last]))
  | 0, k, h, init, last, hi, hlast, hk => by
    have hk1 : 1 ≤ k := by
      cases k with
      | zero => simp at hk
      | succ k => omega
    intro t ht
    simp only [mergeLoop, List.mem_append, List.mem_singleton] at ht
    rcases ht with ht | rfl
    · have := hi t ht; omega
    · omega
  | fuel + 1, k, h, init, last, hi, hlast, hk => by
    cases k with
    | zero => simp at hk
    | succ k =>
      rw [Nat.pow_succ] at hk
      rw [mergeLoop_succ]; split
      · next hlen =>
        by_cases hpar : init.length % 2 = 0
        · -- the last element is carried; afterwards all heights are at most h + 1
          rw [mergePass_append_even cx init [last] hpar, mergePass_one]
          have hall : AllH (h + 1) (mergePass cx init ++ [last]) := by
            intro t ht
            simp only [List.mem_append, List.mem_singleton] at ht
            rcases ht with ht | rfl
            · exact mergePass_allH cx h init hi t ht
            · exact hlast
          have := mergeLoop_height_A cx fuel k (h + 1) _ hall (by simp [mergePass_length]; omega)
          intro t ht; have := this t ht; omega
        · -- the last element is paired with its left neighbour
          have hne : init ≠ [] := by intro h0; subst h0; simp at hpar
          obtain ⟨init', x, rfl⟩ : ∃ init' x, init = init' ++ [x] :=
            ⟨init.dropLast, init.getLast hne, (List.dropLast_concat_getLast hne).symm⟩
          have hpar' : init'.length % 2 = 0 := by simp at hpar; omega
          have : init' ++ [x] ++ [last] = init' ++ [x, last] := by simp
          rw [this, mergePass_append_even cx init' [x, last] hpar', mergePass_two, mergePass_nil]
          have hx := hi x (by simp)
          have := mergeLoop_height_B cx fuel k (h + 1) (mergePass cx init') (mkBranch cx x last)
            (mergePass_allH cx h init' (fun t ht => hi t (by simp [ht])))
            (by simp; omega)
            (by simp only [List.length_append, List.length_cons, List.length_nil] at hk
                rw [mergePass_length]; omega)
          intro t ht; have := this t ht; omega
      · next hlen =>
        simp only [List.length_append, List.length_cons, List.length_nil] at hlen
        have : init = [] := List.length_eq_zero_iff.mp (by omega)
        subst this
        intro t ht; simp at ht; subst ht; omega

/-! ## The construction: the loop over the scripts, the leftover leaf, the whole tree -/

/-- invariant of the loop over the scripts when `i` scripts have been consumed -/
structure LoopInv (cx : Tap.Ctx) (scripts : List Bytes) (i : Nat) (br : List Node) (pend : Option Node) : Prop where
  wf : AllWF cx scripts (br ++ pend.toList)
  idx : idx (br ++ pend.toList) = List.range i
  hbr : AllH 1 br
  hpend : ∀ p, pend = some p → p.height = 0
  len : 2 * br.length + pend.toList.length = i

theorem leafLoop_inv {cx : Tap.Ctx} {scripts : List Bytes} : ∀ (rest : List Bytes) (i : Nat) (br : List Node) (pend : Option Node),
    scripts.drop i = rest → i ≤ scripts.length → LoopInv cx scripts i br pend →
    LoopInv cx scripts scripts.length (leafLoop cx i rest br pend).1 (leafLoop cx i rest br pend).2
  | [], i, br, pend, hd, hi, inv => by
    have : scripts.length ≤ i := List.drop_eq_nil_iff.mp hd
    have : i = scripts.length := by omega
    subst this; simpa [leafLoop] using inv
  | s :: rest, i, br, pend, hd, hi, inv => by
    have hs : scripts[i]? = some s := by
      have := congrArg (fun l => l[0]?) hd
      simpa [List.getElem?_drop] using this
    have hlt : i < scripts.length := by
      rcases Nat.lt_or_ge i scripts.length with h | h
      · exact h
      · rw [List.drop_eq_nil_iff.mpr h] at hd; cases hd
    have hd' : scripts.drop (i + 1) = rest := by
      have := congrArg (fun l => l.drop 1) hd
      simpa [List.drop_drop] using this
    have hleaf : WF cx scripts (mkLeaf cx i s) := wf_mkLeaf hs
    cases pend with
    | some p =>
      simp only [leafLoop]
      apply leafLoop_inv rest (i + 1) _ none hd' hlt
      have hp0 := inv.hpend p rfl
      refine ⟨?_, ?_, ?_, ?_, ?_⟩
      · intro t ht
        simp only [Option.toList_none, List.append_nil, List.mem_append, List.mem_singleton] at ht
        rcases ht with ht | rfl
        · exact inv.wf t (by simp [ht])
        · exact wf_mkBranch (inv.wf p (by simp)) hleaf
      · have := inv.idx
        simp only [Option.toList_some, idx_append, idx_cons, idx_nil, List.append_nil] at this
        simp only [Option.toList_none, List.append_nil, idx_append, idx_cons, idx_nil, indices_mkBranch, indices_mkLeaf]
        rw [List.range_succ, ← this]; simp
      · intro t ht
        simp only [List.mem_append, List.mem_singleton] at ht
        rcases ht with ht | rfl
        · exact inv.hbr t ht
        · simp [hp0]
      · intro p hp; cases hp
      · have := inv.len; simp at this ⊢; omega
    | none =>
      simp only [leafLoop]
      apply leafLoop_inv rest (i + 1) _ _ hd' hlt
      refine ⟨?_, ?_, inv.hbr, ?_, ?_⟩
      · intro t ht
        simp only [Option.toList_some, List.mem_append, List.mem_singleton] at ht
        rcases ht with ht | rfl
        · exact inv.wf t (by simp [ht])
        · exact hleaf
      · have := inv.idx
        simp only [Option.toList_none, List.append_nil] at this
        simp only [Option.toList_some, idx_append, idx_cons, idx_nil, indices_mkLeaf, List.append_nil]
        rw [List.range_succ, ← this]
      · intro p hp; cases hp; rfl
      · have := inv.len; simp at this ⊢; omega

/-- what `buildTree` returns: a well-formed tree whose leaves are the scripts in command line order, each once,
    of height at most `⌈log2 n⌉` -/
theorem buildTree_spec (cx : Tap.Ctx) (scripts : List Bytes) (hne : scripts ≠ []) :
    ∃ root, buildTree cx scripts = some root ∧ WF cx scripts root ∧ root.indices = List.range scripts.length ∧
      ∀ k, scripts.length ≤ 2 ^ k → root.height ≤ k := by
  have hn : 1 ≤ scripts.length := by
    cases scripts with
    | nil => exact absurd rfl hne
    | cons a l => simp
  have inv := leafLoop_inv (cx := cx) (scripts := scripts) scripts 0 [] none rfl (Nat.zero_le _)
    ⟨(by intro t ht; simp at ht), (by simp), (by intro t ht; simp at ht), (by intro p hp; cases hp), (by simp)⟩
  unfold buildTree
  generalize leafLoop cx 0 scripts [] none = st at inv
  obtain ⟨br, pend⟩ := st
  simp only at inv ⊢
  -- the list after the leftover leaf has been placed
  have key : AllWF cx scripts (bakeLeftover cx br pend) ∧ idx (bakeLeftover cx br pend) = List.range scripts.length ∧
      1 ≤ (bakeLeftover cx br pend).length ∧
      ∀ k fuel, scripts.length ≤ 2 ^ k → AllH k (mergeLoop cx fuel (bakeLeftover cx br pend)) := by
    cases pend with
    | none =>
      have hlen := inv.len
      simp only [Option.toList_none, List.length_nil, Nat.add_zero] at hlen
      refine ⟨by simpa [bakeLeftover] using inv.wf, by simpa [bakeLeftover] using inv.idx, by simp [bakeLeftover]; omega, ?_⟩
      intro k fuel hk
      cases k with
      | zero => simp at hk; omega
      | succ k =>
        have := mergeLoop_height_A cx fuel k 1 br inv.hbr (by rw [Nat.pow_succ] at hk; omega)
        simp only [bakeLeftover]
        intro t ht; have := this t ht; omega
    | some p =>
      have hlen := inv.len
      have hp0 := inv.hpend p rfl
      simp only [Option.toList_some, List.length_singleton] at hlen
      simp only [bakeLeftover]
      cases hbl : br.getLast? with
      | none =>
        have hb : br = [] := List.getLast?_eq_none_iff.mp hbl
        subst hb
        refine ⟨by simpa using inv.wf, by simpa using inv.idx, by simp, ?_⟩
        intro k fuel _
        cases fuel with
        | zero => intro t ht; simp [mergeLoop] at ht; subst ht; omega
        | succ fuel => rw [mergeLoop_succ]; intro t ht; simp at ht; subst ht; omega
      | some last =>
        have hb : br = br.dropLast ++ [last] := by
          have hne' : br ≠ [] := by intro h0; subst h0; simp at hbl
          have := List.dropLast_concat_getLast hne'
          rw [List.getLast?_eq_some_getLast hne'] at hbl
          cases hbl; exact this.symm
        generalize br.dropLast = init at hb
        subst hb
        refine ⟨?_, ?_, by simp, ?_⟩
        · intro t ht
          simp only [List.mem_append, List.mem_singleton] at ht
          rcases ht with ht | rfl
          · exact inv.wf t (by simp [ht])
          · exact wf_mkBranch (inv.wf last (by simp)) (inv.wf p (by simp))
        · have := inv.idx
          simpa using this
        · intro k fuel hk
          cases k with
          | zero => simp at hk hlen; omega
          | succ k =>
            have hlast := inv.hbr last (by simp)
            have := mergeLoop_height_B cx fuel k 1 init (mkBranch cx last p)
              (fun t ht => inv.hbr t (by simp [ht])) (by simp; omega)
              (by simp only [List.length_append, List.length_singleton] at hlen; rw [Nat.pow_succ] at hk; omega)
            intro t ht; have := this t ht; omega
  obtain ⟨hwf, hidx, hlen, hheight⟩ := key
  generalize bakeLeftover cx br pend = l at hwf hidx hlen hheight
  have h1 : (mergeLoop cx l.length l).length = 1 := by
    rw [mergeLoop_length cx l.length l (by omega)]; omega
  match hm : mergeLoop cx l.length l, h1 with
  | [root], _ =>
    refine ⟨root, rfl, ?_, ?_, ?_⟩
    · have := mergeLoop_wf l.length l hwf; rw [hm] at this; exact this root (by simp)
    · have := mergeLoop_idx cx l.length l; rw [hm, hidx] at this; simpa using this
    · intro k hk
      have := hheight k l.length hk; rw [hm] at this; exact this root (by simp)

/-! ## The control block verifies under BIP341 -/

theorem control_shape (c0 : UInt8) (internal : Bytes) (path : List Bytes) (hk : internal.length = 32)
    (h32 : ∀ x ∈ path, x.length = 32) :
    let c := c0 :: (internal ++ path.flatten)
    c.length = 33 + 32 * path.length ∧ c.headD 0 = c0 ∧ (c.drop 1).take 32 = internal ∧ c.drop 33 = path.flatten := by
  refine ⟨?_, rfl, ?_, ?_⟩
  · simp [hk, flatten_length32 path h32]; omega
  · simp only [List.drop_succ_cons, List.drop_zero]
    rw [List.take_append_of_le_length (by omega), ← hk, List.take_length]
  · have : (33 : Nat) = 32 + 1 := rfl
    rw [this, List.drop_succ_cons, List.drop_append_of_le_length (by omega), ← hk, List.drop_length, List.nil_append]

/-- BIP341 accepts (control block, script) for the key `q` whenever `q` is what `tweakAdd` made from the internal key
    and the hash of the node the path was emitted for, and the path is at most 128 long -/
theorem control_valid {cx : Tap.Ctx} {o : TapOracle} (hag : Agree cx o) (h32 : Hash32 cx) {scripts : List Bytes} {root : Node}
    (hw : WF cx scripts root) {i : Nat} {path : List Bytes} (hp : root.prove i = some path) (hh : path.length ≤ 128)
    {internal : Bytes} (hk : internal.length = 32) {q : Bytes} {odd : Bool}
    (ht : cx.tweakAdd internal (cx.taggedHash "TapTweak" (internal ++ root.hash)) = some (q, odd)) :
    ∃ s, scripts[i]? = some s ∧ bip341Valid o (controlByte odd :: (internal ++ path.flatten)) s q = true := by
  obtain ⟨s, hs, hc⟩ := prove_chain hag i hw hp
  refine ⟨s, hs, ?_⟩
  have hall := prove_all32 h32 i hw hp
  obtain ⟨hlen, hhead, hint, hdrop⟩ := control_shape (controlByte odd) internal path hk hall
  unfold bip341Valid
  rw [hlen, hhead, hint, hdrop]
  have e1 : (33 + 32 * path.length - 33) / 32 = path.length := by omega
  have e2 : (33 + 32 * path.length - 33) % 32 = 0 := by omega
  rw [e1, e2, pathNodes_flatten path hall]
  have hcb : ((controlByte odd).toNat - (controlByte odd).toNat % 2 = 0xc0) ∧ (((controlByte odd).toNat % 2 == 1) = odd) := by
    cases odd <;> decide
  simp only [hcb.1, hcb.2]
  have hroot : (merkleChain o (tapLeafHash o 0xc0 s) path).getLastD [] = root.hash := hc
  rw [hroot, hag.hash]
  have := hag.tweak _ _ _ _ ht
  simp [this]; omega

/-! ## The debugger's own commitment check accepts it -/

/-- the BIP341 oracle made of tap's own functions -/
def oracleOf (cx : Tap.Ctx) : TapOracle where
  taggedHash := cx.taggedHash
  tweakCheck := fun q p t odd => cx.tweakAdd p t == some (q, odd)

theorem agree_oracleOf (cx : Tap.Ctx) : Agree cx (oracleOf cx) :=
  ⟨fun _ _ => rfl, fun p t q odd h => by simp [oracleOf, h]⟩

/-- `Iterate()` called until it stops answering `Processing`, from a state that has consumed the nodes `pre` -/
theorem tceRun_from {cx : Tap.Ctx} {tc : TapCtx} (hh : ∀ tag m, tc.taggedHash tag m = cx.taggedHash tag m)
    (c0 : UInt8) (internal : Bytes) (hk : internal.length = 32) :
    ∀ (rest pre : List Bytes) (t : Tce) (fuel : Nat),
      t.control = c0 :: (internal ++ (pre ++ rest).flatten) → (∀ x ∈ pre ++ rest, x.length = 32) →
      t.i = pre.length → t.pathLen = (pre ++ rest).length → rest.length < fuel →
      tceRun tc fuel t =
        if tc.checkTapTweak t.q t.p (chainEnd (oracleOf cx) t.k rest) (c0.toNat % 2 == 1) then .done else .failed
  | [], pre, t, fuel, hc, _, hi, hl, hf => by
    obtain ⟨fuel, rfl⟩ : ∃ f, fuel = f + 1 := ⟨fuel - 1, by omega⟩
    have hnot : ¬ t.i < t.pathLen := by rw [hi, hl]; simp
    simp only [tceRun, Tce.iterate, if_neg hnot, chainEnd_nil]
    have hb : byteAt t.control 0 = c0.toNat := by rw [hc]; simp [byteAt]
    rw [hb]
    cases tc.checkTapTweak t.q t.p t.k (c0.toNat % 2 == 1) <;> rfl
  | a :: rest, pre, t, fuel, hc, h32, hi, hl, hf => by
    obtain ⟨fuel, rfl⟩ : ∃ f, fuel = f + 1 := ⟨fuel - 1, by simp at hf; omega⟩
    have hlt : t.i < t.pathLen := by rw [hi, hl]; simp
    have ha : a.length = 32 := h32 a (by simp)
    have hpre : ∀ x ∈ pre, x.length = 32 := fun x hx => h32 x (by simp [hx])
    have hnode : (t.control.drop (Gen.TAPROOT_CONTROL_BASE_SIZE + Gen.TAPROOT_CONTROL_NODE_SIZE * t.i)).take
        Gen.TAPROOT_CONTROL_NODE_SIZE = a := by
      have e : Gen.TAPROOT_CONTROL_BASE_SIZE + Gen.TAPROOT_CONTROL_NODE_SIZE * t.i = 32 * pre.length + 32 + 1 := by
        rw [hi]; simp [Gen.TAPROOT_CONTROL_BASE_SIZE, Gen.TAPROOT_CONTROL_NODE_SIZE]; omega
      rw [e, hc, List.drop_succ_cons, List.flatten_append, ← List.append_assoc]
      have hl2 : (internal ++ pre.flatten).length = 32 * pre.length + 32 := by
        simp [hk, flatten_length32 pre hpre]; omega
      rw [← hl2, List.drop_left, List.flatten_cons]
      show List.take 32 (a ++ rest.flatten) = a
      rw [List.take_append_of_le_length (by omega), ← ha, List.take_length]
    have hstep : t.iterate tc = (.processing, { t with k := tapBranchHash (oracleOf cx) t.k a, i := t.i + 1 }) := by
      simp only [Tce.iterate, if_pos hlt, hnode, tapBranchHash, lexLt_eq_bytesLt, hh, oracleOf]
    simp only [tceRun, hstep]
    have := tceRun_from hh c0 internal hk rest (pre ++ [a]) { t with k := tapBranchHash (oracleOf cx) t.k a, i := t.i + 1 } fuel
      (by simpa using hc) (by simpa using h32) (by simp [hi]) (by simpa using hl) (by simp at hf; omega)
    rw [this, chainEnd_cons]

/-- `TaprootCommitmentEnv(control, q, script)` iterated to its end answers `Done` -/
theorem tce_accepts {cx : Tap.Ctx} {tc : TapCtx} (hag : AgreeTce cx tc) (h32 : Hash32 cx) {scripts : List Bytes} {root : Node}
    (hw : WF cx scripts root) {i : Nat} {path : List Bytes} (hp : root.prove i = some path)
    {internal : Bytes} (hk : internal.length = 32) {q : Bytes} {odd : Bool}
    (ht : cx.tweakAdd internal (cx.taggedHash "TapTweak" (internal ++ root.hash)) = some (q, odd))
    (fuel : Nat) (hf : path.length < fuel) :
    ∃ s, scripts[i]? = some s ∧
      tceRun tc fuel (Tce.init tc (controlByte odd :: (internal ++ path.flatten)) q s) = .done := by
  obtain ⟨s, hs, hc⟩ := prove_chain (agree_oracleOf cx) i hw hp
  refine ⟨s, hs, ?_⟩
  have hall := prove_all32 h32 i hw hp
  obtain ⟨hlen, _, hint, _⟩ := control_shape (controlByte odd) internal path hk hall
  have hrun := tceRun_from hag.hash (controlByte odd) internal hk path []
    (Tce.init tc (controlByte odd :: (internal ++ path.flatten)) q s) fuel
    (by simp [Tce.init]) (by simpa using hall) (by simp [Tce.init])
    (by simp only [Tce.init, hlen, Gen.TAPROOT_CONTROL_BASE_SIZE, Gen.TAPROOT_CONTROL_NODE_SIZE, List.nil_append]; omega) hf
  rw [hrun]
  have hleaf : (Tce.init tc (controlByte odd :: (internal ++ path.flatten)) q s).k = tapLeafHash (oracleOf cx) 0xc0 s := by
    have hb : UInt8.ofNat (byteAt (controlByte odd :: (internal ++ path.flatten)) 0 &&& Gen.TAPROOT_LEAF_MASK) = 0xc0 := by
      simp only [byteAt, List.getElem?_cons_zero, Option.map_some, Option.getD_some]
      cases odd <;> decide
    simp only [Tce.init, hb, hag.hash, tapLeafHash, oracleOf, compactSize_eq_varint]; rfl
  have hp' : (Tce.init tc (controlByte odd :: (internal ++ path.flatten)) q s).p = internal := by
    simp only [Tce.init]; exact hint
  have hq : (Tce.init tc (controlByte odd :: (internal ++ path.flatten)) q s).q = q := rfl
  have hpar : ((controlByte odd).toNat % 2 == 1) = odd := by cases odd <;> decide
  rw [hleaf, hp', hq, hpar, hc, hag.tweak _ _ _ _ ht]
  rfl

/-! ## The tool as a whole (`Tap.run`) -/

/-- what a successful run went through -/
theorem run_inv {cx : Tap.Ctx} {bech : String → Nat → Bytes → Option String} {hrp : String} {spk : Option Bytes} {internal : Bytes}
    {scripts : List Bytes} {sel : Option (Nat × List Bytes)} {out : Output}
    (h : run cx bech hrp spk internal scripts sel = .ok out) :
    ∃ root ctl q odd address, internal.length = 32 ∧ 1 ≤ scripts.length ∧ scripts.length ≤ 1024 ∧
      indexOutOfRange sel scripts.length = false ∧
      firstInvalid 0 scripts = none ∧ buildTree cx scripts = some root ∧ controlTail internal root sel = .ok ctl ∧
      cx.xonlyParse internal = true ∧
      cx.tweakAdd internal (cx.taggedHash "TapTweak" (internal ++ root.hash)) = some (q, odd) ∧
      spkMismatch spk q = false ∧ bech hrp 1 q = some address ∧
      out = finish address scripts root.hash (cx.taggedHash "TapTweak" (internal ++ root.hash)) q odd ctl sel := by
  unfold run at h
  split at h; · cases h
  next hk =>
  split at h; · cases h
  next hc =>
  split at h; · cases h
  next hi =>
  split at h; · cases h
  next hv =>
  split at h; · cases h
  next root hb =>
  split at h; · cases h
  next ctl hctl =>
  simp only at h
  split at h; · cases h
  next hx =>
  split at h; · cases h
  next q odd ht =>
  split at h; · cases h
  next hm =>
  split at h; · cases h
  next address ha =>
  simp only [Except.ok.injEq] at h
  have hcount : 1 ≤ scripts.length ∧ scripts.length ≤ 1024 := by
    rcases Nat.lt_or_ge scripts.length 1 with h1 | h1
    · exact absurd (by simp [h1]) hc
    · rcases Nat.lt_or_ge 1024 scripts.length with h2 | h2
      · exact absurd (by simp [h2]) hc
      · exact ⟨h1, h2⟩
  exact ⟨root, ctl, q, odd, address, by simpa using hk, hcount.1, hcount.2, by simpa using hi, hv, hb, hctl, by simpa using hx, ht,
    by simpa using hm, ha, h.symm⟩

theorem controlTail_sel_inv {internal : Bytes} {root : Node} {i : Nat} {args : List Bytes} {ctl : Bytes}
    (h : controlTail internal root (some (i, args)) = .ok ctl) :
    ∃ path, root.prove i = some path ∧ ctl = internal ++ path.flatten := by
  simp only [controlTail] at h
  split at h
  · cases h
  · next path hp => cases h; exact ⟨path, hp, rfl⟩

theorem toTree_leaves (scripts : List Bytes) : ∀ t : Node,
    (t.toTree scripts).leaves = t.indices.map (fun i => (0xc0, scripts.getD i []))
  | .leaf i h => rfl
  | .branch l r h => by simp [Node.toTree, TapTree.leaves, Node.indices, toTree_leaves scripts l, toTree_leaves scripts r]

theorem toTree_height (scripts : List Bytes) : ∀ t : Node, (t.toTree scripts).height = t.height
  | .leaf i h => rfl
  | .branch l r h => by simp [Node.toTree, TapTree.height, Node.height, toTree_height scripts l, toTree_height scripts r]

theorem range_map_getD {α β : Type} (l : List α) (d : α) (f : α → β) :
    (List.range l.length).map (fun i => f (l.getD i d)) = l.map f := by
  apply List.ext_getElem
  · simp
  · intro i h1 h2
    simp at h1 h2
    simp [List.getD, h2]

/-! ## Property theorems -/

/-- **The tree.**  For every non-empty list of scripts the pairing loop ends with one tree; the hash it stores in the
    root is the BIP341 Merkle root of that tree; the leaves of the tree are exactly the given scripts (leaf version
    0xc0), in command line order, each once; its height is at most `k` whenever `n ≤ 2^k` (so `⌈log2 n⌉`). -/
theorem tap_tree_is_bip341_tree {cx : Tap.Ctx} {o : TapOracle} (hag : Agree cx o) (scripts : List Bytes) (hne : scripts ≠ []) :
    ∃ root, buildTree cx scripts = some root ∧
      root.hash = (root.toTree scripts).root o ∧
      (root.toTree scripts).leaves = scripts.map (fun s => (0xc0, s)) ∧
      ∀ k, scripts.length ≤ 2 ^ k → (root.toTree scripts).height ≤ k := by
  obtain ⟨root, hb, hw, hidx, hh⟩ := buildTree_spec cx scripts hne
  refine ⟨root, hb, wf_hash_eq_root hag hw, ?_, ?_⟩
  · rw [toTree_leaves, hidx]; exact range_map_getD scripts [] (fun s => (0xc0, s))
  · intro k hk; rw [toTree_height]; exact hh k hk

/-- **Control block, any number of scripts.**  For every non-empty list of at most `2^128` scripts (BIP341 cannot
    commit to more in any tree), every leaf index and every 32-byte internal key: the path `Prove` emits for the leaf
    is at most 128 long, is an entry of the BIP341 path table of the tree, and the control block
    `(0xc0 | parity) ‖ internal key ‖ path` with the script verifies under BIP341 against any key the tweak of
    the internal key by the root produces. -/
theorem tap_control_verifies_any_count {cx : Tap.Ctx} {o : TapOracle} (hag : Agree cx o) (h32 : Hash32 cx)
    (scripts : List Bytes) (hne : scripts ≠ []) (hn : scripts.length ≤ 2 ^ 128) (i : Nat) (hi : i < scripts.length)
    (internal : Bytes) (hk : internal.length = 32) :
    ∃ root path, buildTree cx scripts = some root ∧ root.prove i = some path ∧ path.length ≤ 128 ∧
      (0xc0, scripts.getD i [], path) ∈ (root.toTree scripts).paths o ∧
      ∀ q odd, cx.tweakAdd internal (cx.taggedHash "TapTweak" (internal ++ root.hash)) = some (q, odd) →
        bip341Valid o (controlByte odd :: (internal ++ path.flatten)) (scripts.getD i []) q = true := by
  obtain ⟨root, hb, hw, hidx, hh⟩ := buildTree_spec cx scripts hne
  obtain ⟨path, hp⟩ := prove_isSome_of_mem i (t := root) (by rw [hidx]; simpa using hi)
  have hlen : path.length ≤ 128 := Nat.le_trans (prove_length_le i hp) (hh 128 hn)
  refine ⟨root, path, hb, hp, hlen, prove_mem_paths hag i hw hp, ?_⟩
  intro q odd ht
  obtain ⟨s, hs, hv⟩ := control_valid hag h32 hw hp hlen hk ht
  simpa [List.getD, hs] using hv

/-- **Control block, the tool.**  Whenever `tap` succeeds in tapscript mode (script index `i`, any spend arguments),
    the script it prints is script `i`, the witness is the spend arguments followed by script and control block, and
    (control block, script) verify under BIP341 against the output key it prints (= the program of the address). -/
theorem tap_control_verifies {cx : Tap.Ctx} {o : TapOracle} (hag : Agree cx o) (h32 : Hash32 cx)
    {bech : String → Nat → Bytes → Option String} {hrp : String} {spk : Option Bytes} {internal : Bytes} {scripts : List Bytes} {i : Nat}
    {args : List Bytes} {out : Output} (h : run cx bech hrp spk internal scripts (some (i, args)) = .ok out) :
    ∃ control script, out.control = some control ∧ out.script = some script ∧ scripts[i]? = some script ∧
      out.witness = args ++ [script, control] ∧ bech hrp 1 out.outputKey = some out.address ∧
      bip341Valid o control script out.outputKey = true := by
  obtain ⟨root, ctl, q, odd, address, hk, hn1, hn2, _, _, hb, hctl, _, ht, _, haddr, rfl⟩ := run_inv h
  obtain ⟨path, hp, rfl⟩ := controlTail_sel_inv hctl
  have hne : scripts ≠ [] := by intro h0; subst h0; simp at hn1
  obtain ⟨root', hb', hw, _, hh⟩ := buildTree_spec cx scripts hne
  rw [hb] at hb'; cases hb'
  have hlen : path.length ≤ 128 :=
    Nat.le_trans (prove_length_le i hp) (Nat.le_trans (hh 10 (by simpa using hn2)) (by decide))
  obtain ⟨s, hs, hv⟩ := control_valid hag h32 hw hp hlen hk ht
  refine ⟨_, _, rfl, rfl, ?_, rfl, haddr, ?_⟩
  · simp [List.getD, hs]
  · simpa [finish, List.getD, hs] using hv

/-- **Debugger.**  Constructing the debugger's `TaprootCommitmentEnv` on what `tap` printed (control block, output key
    as the witness program, script) and calling `Iterate()` until it stops answering `Processing` ends in `Done`
    (for any bound on the number of calls above the path length). -/
theorem tap_accepted_by_debugger {cx : Tap.Ctx} {tc : TapCtx} (hag : AgreeTce cx tc) (h32 : Hash32 cx)
    {bech : String → Nat → Bytes → Option String} {hrp : String} {spk : Option Bytes} {internal : Bytes} {scripts : List Bytes} {i : Nat}
    {args : List Bytes} {out : Output} (h : run cx bech hrp spk internal scripts (some (i, args)) = .ok out) :
    ∃ control script, out.control = some control ∧ out.script = some script ∧
      ∀ fuel, (control.length - 33) / 32 < fuel →
        tceRun tc fuel (Tce.init tc control out.outputKey script) = .done := by
  obtain ⟨root, ctl, q, odd, address, hk, hn1, hn2, _, _, hb, hctl, _, ht, _, haddr, rfl⟩ := run_inv h
  obtain ⟨path, hp, rfl⟩ := controlTail_sel_inv hctl
  have hne : scripts ≠ [] := by intro h0; subst h0; simp at hn1
  obtain ⟨root', hb', hw, _, _⟩ := buildTree_spec cx scripts hne
  rw [hb] at hb'; cases hb'
  refine ⟨_, _, rfl, rfl, ?_⟩
  intro fuel hf
  have hall := prove_all32 h32 i hw hp
  obtain ⟨hlen, _, _, _⟩ := control_shape (controlByte odd) internal path hk hall
  obtain ⟨s, hs, hrun⟩ := tce_accepts hag h32 hw hp hk ht fuel (by rw [hlen] at hf; omega)
  simpa [finish, List.getD, hs] using hrun

/-- **Address.**  For a valid leaf index the address, the output key, its parity, the Merkle root and the tweak do
    not depend on whether a leaf is selected for spending, nor on which leaf or with which arguments: the runs
    succeed or fail alike and agree on all of these. -/
theorem tap_address_independent_of_selection (cx : Tap.Ctx) (bech : String → Nat → Bytes → Option String) (hrp : String)
    (spk : Option Bytes) (internal : Bytes) (scripts : List Bytes) (i : Nat) (args : List Bytes) (hi : i < scripts.length) :
    (run cx bech hrp spk internal scripts (some (i, args))).map (fun o => (o.address, o.outputKey, o.odd, o.root, o.tweak)) =
    (run cx bech hrp spk internal scripts none).map (fun o => (o.address, o.outputKey, o.odd, o.root, o.tweak)) := by
  unfold run
  split; · rfl
  split; · rfl
  next hc =>
  have h1 : indexOutOfRange (some (i, args)) scripts.length = false := by simp [indexOutOfRange]; omega
  have h2 : indexOutOfRange none scripts.length = false := rfl
  simp only [h1, h2, Bool.false_eq_true, if_false]
  split; · rfl
  split; · rfl
  next root hb =>
  have hne : scripts ≠ [] := by intro h0; subst h0; simp at hi
  obtain ⟨root', hb', _, hidx, _⟩ := buildTree_spec cx scripts hne
  rw [hb] at hb'; cases hb'
  obtain ⟨path, hp⟩ := prove_isSome_of_mem i (t := root) (by rw [hidx]; simpa using hi)
  simp only [controlTail, hp]
  split; · rfl
  split; · rfl
  split; · rfl
  split; · rfl
  rfl

/-- **Output key.**  Whenever `tap` succeeds (with or without a selected leaf), the address it prints is
    `bech32m(hrp, 1, q)` where `q` (with the reported parity) is the BIP341 output key of the internal key and of the
    Merkle root of a BIP341 script tree whose leaves are exactly the given scripts, in order. -/
theorem tap_address_is_bip341_output_key {cx : Tap.Ctx} {o : TapOracle} (hag : Agree cx o)
    {bech : String → Nat → Bytes → Option String} {hrp : String} {spk : Option Bytes} {internal : Bytes} {scripts : List Bytes}
    {sel : Option (Nat × List Bytes)} {out : Output} (h : run cx bech hrp spk internal scripts sel = .ok out) :
    ∃ tree : TapTree, tree.leaves = scripts.map (fun s => (0xc0, s)) ∧ tree.height ≤ 10 ∧ out.root = tree.root o ∧
      isOutputKey o internal (tree.root o) out.outputKey out.odd = true ∧ bech hrp 1 out.outputKey = some out.address := by
  obtain ⟨root, ctl, q, odd, address, hk, hn1, hn2, _, _, hb, _, _, ht, _, haddr, rfl⟩ := run_inv h
  have hne : scripts ≠ [] := by intro h0; subst h0; simp at hn1
  obtain ⟨root', hb', hroot, hleaves, hh⟩ := tap_tree_is_bip341_tree hag scripts hne
  rw [hb] at hb'; cases hb'
  refine ⟨root.toTree scripts, hleaves, hh 10 (by simpa using hn2), ?_, ?_, ?_⟩
  · cases sel with
    | none => exact hroot
    | some s => exact hroot
  · have := hag.tweak _ _ _ _ ht
    rw [← hag.hash, hroot] at this
    cases sel <;> simpa [isOutputKey, finish] using this
  · cases sel <;> exact haddr

/-- **Totality.**  With a 32-byte internal key that parses and can be tweaked, 1..1024 scripts that all pass
    `HasValidOps`, and a leaf index in range (or none), the tool succeeds. -/
theorem tap_run_ok (cx : Tap.Ctx) (bech : String → Nat → Bytes → Option String) (hrp : String) (internal : Bytes)
    (scripts : List Bytes) (sel : Option (Nat × List Bytes)) (hk : internal.length = 32)
    (hn1 : 1 ≤ scripts.length) (hn2 : scripts.length ≤ 1024) (hi : ∀ i a, sel = some (i, a) → i < scripts.length)
    (hv : firstInvalid 0 scripts = none) (hx : cx.xonlyParse internal = true)
    (ht : ∀ r, (cx.tweakAdd internal (cx.taggedHash "TapTweak" (internal ++ r))).isSome)
    (hb32 : ∀ q, (bech hrp 1 q).isSome) :
    ∃ out, run cx bech hrp none internal scripts sel = .ok out := by
  have hne : scripts ≠ [] := by intro h0; subst h0; simp at hn1
  obtain ⟨root, hb, _, hidx, _⟩ := buildTree_spec cx scripts hne
  have hctl : ∃ ctl, controlTail internal root sel = .ok ctl := by
    cases sel with
    | none => exact ⟨_, rfl⟩
    | some s =>
      obtain ⟨i, a⟩ := s
      obtain ⟨path, hp⟩ := prove_isSome_of_mem i (t := root) (by rw [hidx]; simpa using hi i a rfl)
      exact ⟨internal ++ path.flatten, by simp [controlTail, hp]⟩
  obtain ⟨ctl, hctl⟩ := hctl
  have hio : indexOutOfRange sel scripts.length = false := by
    cases sel with
    | none => rfl
    | some s => obtain ⟨i, a⟩ := s; have := hi i a rfl; simp [indexOutOfRange]; omega
  have htw := ht root.hash
  cases htq : cx.tweakAdd internal (cx.taggedHash "TapTweak" (internal ++ root.hash)) with
  | none => rw [htq] at htw; cases htw
  | some qo =>
    obtain ⟨q, odd⟩ := qo
    have hbq := hb32 q
    cases hba : bech hrp 1 q with
    | none => rw [hba] at hbq; cases hbq
    | some address =>
      refine ⟨finish address scripts root.hash (cx.taggedHash "TapTweak" (internal ++ root.hash)) q odd ctl sel, ?_⟩
      unfold run
      rw [if_neg (by simp [hk])]
      simp [hio, hv, hb, hctl, hx, htq, hba, spkMismatch]
      exact ⟨hne, hn2⟩

/-! ## The digest clause: the signature hash tap reports is the BIP341/342 digest of the transaction it outputs -/

open Btcdeb.Proofs.TapSpend in
theorem firstInvalid_none : ∀ (k : Nat) (scripts : List Bytes), firstInvalid k scripts = none → ∀ s ∈ scripts, hasValidOps s = true
  | _, [], _, s, hs => by simp at hs
  | k, a :: rest, h, s, hs => by
    simp only [firstInvalid] at h
    split at h
    · next hv =>
      simp only [List.mem_cons] at hs
      rcases hs with rfl | hs
      · exact hv
      · exact firstInvalid_none (k + 1) rest h s hs
    · cases h

/-- `setWitness` on the only input -/
theorem setWitness_single (tx : Tx) (inp : TxIn) (w : List Bytes) (hv : tx.vin = [inp]) (hw : w ≠ []) :
    (setWitness tx 0 w).vin = [{ inp with witness := w }] := by
  have : w.isEmpty = false := by cases w <;> simp_all
  simp [setWitness, hv, this]

/-- the BIP341 message does not contain witness data: replacing the witness of the only input leaves the digest unchanged -/
theorem bip341Digest_setWitness (sha : Bytes → Bytes) (tx : Tx) (inp : TxIn) (w : List Bytes) (hv : tx.vin = [inp]) (hw : w ≠ [])
    (nIn ht : Nat) (spent : List TxOut) (annex : Option Bytes) (ext : Option Spec.TapExt) :
    Spec.bip341Digest sha (setWitness tx 0 w) nIn ht spent annex ext = Spec.bip341Digest sha tx nIn ht spent annex ext := by
  have h1 := setWitness_single tx inp w hv hw
  have h2 : (setWitness tx 0 w).version = tx.version ∧ (setWitness tx 0 w).lockTime = tx.lockTime ∧ (setWitness tx 0 w).vout = tx.vout :=
    ⟨rfl, rfl, rfl⟩
  unfold Spec.bip341Digest Spec.bip341SigMsg
  rw [h1, h2.1, h2.2.1, h2.2.2, hv]
  cases nIn with
  | zero => simp only [List.getElem?_cons_zero]; cases spent[0]? <;> rfl
  | succ n => simp

/-- the first witness item tap writes: the `--sig` signature, else the placeholder -/
def firstItem (premadeSig : Bytes) : Bytes := if premadeSig.length ≠ 0 then premadeSig else placeholderSignature

theorem txWitness_eq (premadeSig : Bytes) (o : Output) : txWitness premadeSig o = firstItem premadeSig :: o.witness := rfl

/-- BIP342 extension of the message for the spent leaf (key version 0, no OP_CODESEPARATOR executed: tap forces the position
    to 0xffffffff), none for the key path -/
def extOf (o : TapOracle) (scripts : List Bytes) (sel : Option (Nat × List Bytes)) : Option Spec.TapExt :=
  match sel with
  | none => none
  | some (i, _) => some { leafHash := tapLeafHash o 0xc0 (scripts.getD i []), codesepPos := 0xFFFFFFFF }

/-- **Digest.**  Let `tap` succeed on (internal key, scripts, selection) with `--tx`/`--txin` given, where the spending
    transaction has ONE input (with an empty scriptSig) and the output it spends is the P2TR output `OP_1 <output key>` of
    the address tap prints; the `--sig` signature (if any) is at most 520 bytes and the spend arguments are fewer than 1000
    items of at most 520 bytes (the limits `configure_tx_txin` enforces on the witness).  Then `configure_tx_txin` accepts
    the transaction tap builds, and the signature hash tap reports is the BIP341 digest (hash type 0x00, no annex) of the
    transaction tap outputs, with all spent outputs = that one output: the key path message when no leaf is selected, the
    BIP342 script path message for the selected leaf (TapLeaf hash of the printed script, key version 0, code separator
    position 0xffffffff) otherwise.  `runTx` = the whole run: it returns exactly this digest and this transaction. -/
theorem tap_sighash_is_bip341 {cx : Tap.Ctx} (h32 : Hash32 cx) (hc : HashCtx) (tc : TapCtx) (o : TapOracle)
    (hag : Btcdeb.Proofs.C05.Agree tc o) (cr : SigCrypto)
    {bech : String → Nat → Bytes → Option String} {hrp : String} {internal : Bytes} {scripts : List Bytes}
    {sel : Option (Nat × List Bytes)} {out : Output}
    (tx txin : Tx) (inp : TxIn) (vout : Nat) (spent : TxOut) (premadeSig : Bytes)
    (hrun : run cx bech hrp (some spent.scriptPubKey) internal scripts sel = .ok out)
    (hvin : tx.vin = [inp]) (hss : inp.scriptSig = []) (hspent : txin.vout[vout]? = some spent)
    (hspk : spent.scriptPubKey = 0x51 :: 0x20 :: out.outputKey) (hkl : out.outputKey.length = 32)
    (hsig : premadeSig.length ≤ 520)
    (hargs : ∀ i a, sel = some (i, a) → a.length < 1000 ∧ ∀ x ∈ a, x.length ≤ 520) :
    calcSighash hc tc cr (setWitness tx 0 (txWitness premadeSig out)) txin 0 vout =
        .ok (Spec.bip341Digest cr.sha256 (setWitness tx 0 (txWitness premadeSig out)) 0 0x00 [spent] none (extOf o scripts sel)) ∧
    runTx cx hc tc cr bech hrp tx txin 0 vout premadeSig internal scripts sel =
        .ok { out := out,
              sighash := Spec.bip341Digest cr.sha256 (setWitness tx 0 (txWitness premadeSig out)) 0 0x00 [spent] none (extOf o scripts sel),
              tx := setWitness tx 0 (txWitness premadeSig out) } := by
  have hfl : (firstItem premadeSig).length ≤ 520 := by
    unfold firstItem; split
    · exact hsig
    · simp [placeholderSignature]
  have hwne : txWitness premadeSig out ≠ [] := by simp [txWitness_eq]
  have hv' := setWitness_single tx inp _ hvin hwne
  have hcalc : calcSighash hc tc cr (setWitness tx 0 (txWitness premadeSig out)) txin 0 vout =
      .ok (Spec.bip341Digest cr.sha256 (setWitness tx 0 (txWitness premadeSig out)) 0 0x00 [spent] none (extOf o scripts sel)) := by
    obtain ⟨root, ctl, q, odd, address, hk, hn1, hn2, _, hvalid, hb, hctl, _, ht, _, _, hout⟩ := run_inv hrun
    cases sel with
    | none =>
      have hw : out.witness = [] := by rw [hout]; rfl
      exact TapSpend.M.calcSighash_keypath hc tc cr _ txin { inp with witness := txWitness premadeSig out } vout spent
        out.outputKey (firstItem premadeSig) hv' hss (by simp [txWitness_eq, hw]) hspent hspk hkl
    | some s =>
      obtain ⟨i, args⟩ := s
      obtain ⟨path, hp, rfl⟩ := controlTail_sel_inv hctl
      have hne : scripts ≠ [] := by intro h0; subst h0; simp at hn1
      obtain ⟨root', hb', hw, _, hh⟩ := buildTree_spec cx scripts hne
      rw [hb] at hb'; cases hb'
      have hall := prove_all32 h32 i hw hp
      obtain ⟨hlen, _, _, _⟩ := control_shape (controlByte odd) internal path hk hall
      have hpl : path.length ≤ 128 :=
        Nat.le_trans (prove_length_le i hp) (Nat.le_trans (hh 10 (by simpa using hn2)) (by decide))
      obtain ⟨ha1, ha2⟩ := hargs i args rfl
      have hi : i < scripts.length := by
        obtain ⟨s, hs, _⟩ := prove_chain (agree_oracleOf cx) i hw hp
        exact (List.getElem?_eq_some_iff.mp hs).1
      have hvo : hasValidOps (scripts.getD i []) = true := by
        apply firstInvalid_none 0 scripts hvalid
        simp [List.getD, List.getElem?_eq_getElem hi]
      have hwit : out.witness = args ++ [scripts.getD i [], controlByte odd :: (internal ++ path.flatten)] := by rw [hout]; rfl
      have hq : out.outputKey = q := by rw [hout]; rfl
      have hleaf := (Btcdeb.Proofs.C05.C05_leaf_hash tc o hag (controlByte odd :: (internal ++ path.flatten)) out.outputKey (scripts.getD i [])).1
      have hcb : ((controlByte odd :: (internal ++ path.flatten)).headD 0).toNat - ((controlByte odd :: (internal ++ path.flatten)).headD 0).toNat % 2 = 0xc0 := by
        simp only [List.headD_cons]; cases odd <;> rfl
      simp only [hcb] at hleaf
      have := TapSpend.M.calcSighash_scriptpath hc tc cr _ txin { inp with witness := txWitness premadeSig out } vout spent
        out.outputKey (firstItem premadeSig :: args) (scripts.getD i []) (controlByte odd :: (internal ++ path.flatten))
        hv' hss (by simp [txWitness_eq, hwit]) hspent hspk hkl path.length hlen hpl
        (by cases odd <;> simp [byteAt, controlByte]) (by simp; omega)
        (by intro x hx; simp only [List.mem_cons] at hx; rcases hx with rfl | hx; exact hfl; exact ha2 x hx) hvo
      rw [this, hleaf]; rfl
  refine ⟨hcalc, ?_⟩
  unfold runTx
  rw [TapSpend.M.getD_of_getElem? _ _ _ hspent, hrun]
  simp only [hcalc]

/-- **More than one input (or none).**  Since the fix of `Instance::calc_sighash` tap refuses such a spending transaction
    with a diagnostic ("cannot compute the taproot signature hash of a transaction with N inputs", exit 1) — or
    `configure_tx_txin` has refused it before.  No assertion is reached. -/
theorem tap_sighash_multi_input_refused (hc : HashCtx) (tc : TapCtx) (cr : SigCrypto) (tx txin : Tx) (idx vout : Nat)
    (w : List Bytes) (hn : tx.vin.length ≠ 1) :
    calcSighash hc tc cr (setWitness tx idx w) txin idx vout = .error .configure ∨
    calcSighash hc tc cr (setWitness tx idx w) txin idx vout = .error .inputCount := by
  have hl : (setWitness tx idx w).vin.length ≠ 1 := by simpa [setWitness] using hn
  unfold calcSighash
  cases configureTxTxin hc tc (setWitness tx idx w) txin idx vout _ with
  | none => exact Or.inl rfl
  | some c => right; simp only; rw [if_pos hl]

/-- **Never abnormal, for every number of inputs and every witness.**  Whenever the input in question has an empty scriptSig
    and spends a P2TR output `OP_1 <32 bytes>` (what tap's own check of the scriptPubKey and the address it printed stand
    for), computing the signature hash ends in a digest, in `configure_tx_txin`'s refusal, in the input-count refusal or in
    "Failed to generate schnorr signature hash!" — never in an assertion of `Init` / `SignatureHashSchnorr`. -/
theorem tap_sighash_never_abnormal (hc : HashCtx) (tc : TapCtx) (cr : SigCrypto) (tx txin : Tx) (idx vout : Nat)
    (inp : TxIn) (spent : TxOut) (key : Bytes)
    (hi : tx.vin[idx]? = some inp) (hss : inp.scriptSig = []) (hs : txin.vout[vout]? = some spent)
    (hspk : spent.scriptPubKey = 0x51 :: 0x20 :: key) (hk : key.length = 32) (k : String) :
    calcSighash hc tc cr tx txin idx vout ≠ .error (.step (.abnormal k)) :=
  TapSpend.M.calcSighash_never_abnormal_p2tr hc tc cr tx txin idx vout inp spent key hi hss hs hspk hk k

/-! ## The address prefix: since tap validates `--addrprefix`, the encoder's assertion is unreachable -/

/-- a prefix that passes tap's check (1..83 characters in 33..126, no upper case) and a witness version below 32: the
    encoder returns an address (`bech32::Encode` neither asserts nor indexes outside its character set) -/
theorem bech32mAddress_of_hrpOk (hrp : String) (v : Nat) (prog : Bytes) (h : hrpOk hrp = true) (hv : v < 32) :
    bech32mAddress hrp v prog ≠ none := by
  have hup : ∀ c ∈ hrp.toUTF8.toList, ¬ (65 ≤ c.toNat ∧ c.toNat ≤ 90) := by
    simp only [hrpOk, Bool.and_eq_true, List.all_eq_true, decide_eq_true_eq, Bool.not_eq_true'] at h
    intro c hc hcc
    have := (h.2 c hc).2
    simp [hcc.1, hcc.2] at this
  have h85 := (Btcdeb.C14.convertBits_8_5 (prog.map UInt8.toNat) (by
    intro x hx; simp only [List.mem_map] at hx; obtain ⟨b, _, rfl⟩ := hx; exact b.toNat_lt)).1
  have hvals : ∀ x ∈ (UInt8.ofNat v :: ((convertBits 8 5 true (prog.map UInt8.toNat)).1.map UInt8.ofNat)), x.toNat < 32 := by
    intro x hx
    simp only [List.mem_cons, List.mem_map] at hx
    rcases hx with rfl | ⟨d, hd, rfl⟩
    · simp [UInt8.toNat_ofNat']; omega
    · have := h85 d hd; simp [UInt8.toNat_ofNat']; omega
  have := Btcdeb.C14.bech32_encode_spec .BECH32M (by decide) hrp.toUTF8.toList _ hup hvals
  unfold bech32mAddress
  simp only [this]
  simp

/-- `run` ends in the encoder's assertion only if the encoder can fail -/
theorem run_ne_addressAssert {cx : Tap.Ctx} {bech : String → Nat → Bytes → Option String} {hrp : String} {spk : Option Bytes}
    {internal : Bytes} {scripts : List Bytes} {sel : Option (Nat × List Bytes)} (hb : ∀ q, bech hrp 1 q ≠ none) :
    run cx bech hrp spk internal scripts sel ≠ .error .addressAssert := by
  intro h
  unfold run at h
  split at h; · cases h
  split at h; · cases h
  split at h; · cases h
  split at h; · cases h
  split at h; · cases h
  split at h
  · next e hctl =>
    cases h
    unfold controlTail at hctl
    split at hctl
    · cases hctl
    · split at hctl <;> cases hctl
  simp only at h
  split at h; · cases h
  split at h; · cases h
  split at h; · cases h
  split at h
  · next hq => exact hb _ hq
  · cases h

theorem readScripts_ne_addressAssert (vcx : VCtx) : ∀ (l : List Bytes) (i : Nat),
    mainArgs.readScripts vcx i l ≠ .error (.tap .addressAssert)
  | [], i => by simp [mainArgs.readScripts]
  | a :: rest, i => by
    intro h
    unfold mainArgs.readScripts at h
    split at h; · cases h
    split at h; · cases h
    split at h
    · next e he => cases h; exact readScripts_ne_addressAssert vcx rest (i + 1) he
    · cases h

/-- **`Err.addressAssert` is unreachable from `main`**: the prefix is checked before anything else -/
theorem mainArgs_never_addressAssert (cx : Tap.Ctx) (vcx : VCtx) (hrp : String) (l : List Bytes) :
    mainArgs cx vcx bech32mAddress hrp l ≠ .error (.tap .addressAssert) := by
  intro h
  unfold mainArgs at h
  split at h; · cases h
  split at h; · cases h
  next hok =>
  have hok' : hrpOk hrp = true := by simpa using hok
  have hb : ∀ q, bech32mAddress hrp 1 q ≠ none := fun q => bech32mAddress_of_hrpOk hrp 1 q hok' (by decide)
  split at h; · cases h
  split at h; · cases h
  dsimp only at h
  split at h; · cases h
  split at h; · cases h
  split at h
  · next e he =>
    cases h
    split at he
    · cases he
    · try dsimp only at he
      split at he; · cases he
      split at he <;> cases he
  · split at h
    · next e he => cases h; exact readScripts_ne_addressAssert vcx _ 0 he
    · split at h
      · next e he => cases h; exact run_ne_addressAssert hb he
      · cases h

/-! ## The round trip clause: a signature over the reported digest, passed back with --sig, gives a transaction that validates -/

/-- the signature primitives of the specification as the model's `SigCrypto` -/
def crOf (p : Spec.Prims) : SigCrypto := { sha256 := p.sha256, ecdsaVerify := p.ecdsaVerify, schnorrVerify := p.schnorrVerify }

/-- **Round trip, key path.**  Run tap without a selected leaf on a single-input transaction spending the P2TR output of
    the printed address (placeholder signature); take any 64-byte `sig` that verifies under the printed output key over the
    signature hash tap reported; run tap again with `--sig=sig`.  The transaction it then outputs carries the witness
    `[sig]`, and that input validates under Bitcoin's rules (`Spec.verifyScript` with the BIP341 signature oracle of this
    transaction and spent output) for every flag set containing WITNESS and TAPROOT.
    (`toBool outputKey`: the key is not all zero, which holds for every point of the curve; stated because `Tap.Ctx` is abstract.) -/
theorem tap_roundtrip_keypath {cx : Tap.Ctx} (h32 : Hash32 cx) (hc : HashCtx) (tc : TapCtx) (o : TapOracle)
    (hag : Btcdeb.Proofs.C05.Agree tc o) (p : Spec.Prims) (flags : Nat)
    {bech : String → Nat → Bytes → Option String} {hrp : String} {internal : Bytes} {scripts : List Bytes} {out : Output}
    (tx txin : Tx) (inp : TxIn) (vout : Nat) (spent : TxOut) (sig : Bytes)
    (hrun : run cx bech hrp (some spent.scriptPubKey) internal scripts none = .ok out)
    (hvin : tx.vin = [inp]) (hss : inp.scriptSig = []) (hspent : txin.vout[vout]? = some spent)
    (hspk : spent.scriptPubKey = 0x51 :: 0x20 :: out.outputKey) (hkl : out.outputKey.length = 32)
    (hnz : Spec.toBool out.outputKey = true)
    (hw : hasFlag flags Flag.WITNESS = true) (ht : hasFlag flags Flag.TAPROOT = true) (hsl : sig.length = 64) :
    ∃ r1, runTx cx hc tc (crOf p) bech hrp tx txin 0 vout [] internal scripts none = .ok r1 ∧
      (p.schnorrVerify out.outputKey r1.sighash sig = true →
        ∃ r2, runTx cx hc tc (crOf p) bech hrp tx txin 0 vout sig internal scripts none = .ok r2 ∧
          r2.tx.vin = [{ inp with witness := [sig] }] ∧
          Spec.verifyScript (Spec.spendCtx p r2.tx 0 spent.value [spent]) flags inp.scriptSig spent.scriptPubKey [sig] = .ok ()) := by
  have hno : ∀ i a, (none : Option (Nat × List Bytes)) = some (i, a) → a.length < 1000 ∧ ∀ x ∈ a, x.length ≤ 520 := by
    intro i a h; cases h
  obtain ⟨_, h1⟩ := tap_sighash_is_bip341 h32 hc tc o hag (crOf p) tx txin inp vout spent [] hrun hvin hss hspent hspk hkl (by simp) hno
  obtain ⟨_, h2⟩ := tap_sighash_is_bip341 h32 hc tc o hag (crOf p) tx txin inp vout spent sig hrun hvin hss hspent hspk hkl (by omega) hno
  refine ⟨_, h1, ?_⟩
  intro hver
  refine ⟨_, h2, ?_, ?_⟩
  · obtain ⟨root, ctl, q, odd, address, _, _, _, _, _, _, _, _, _, _, _, hout⟩ := run_inv hrun
    have hwit : out.witness = [] := by rw [hout]; rfl
    have : txWitness sig out = [sig] := by simp [txWitness, hwit, hsl]
    rw [this]
    exact setWitness_single tx inp [sig] hvin (by simp)
  · obtain ⟨root, ctl, q, odd, address, _, _, _, _, _, _, _, _, _, _, _, hout⟩ := run_inv hrun
    have hwit : out.witness = [] := by rw [hout]; rfl
    have hne1 : txWitness [] out ≠ [] := by simp [txWitness_eq]
    have hne2 : txWitness sig out ≠ [] := by simp [txWitness_eq]
    simp only [extOf] at hver
    rw [show (crOf p).sha256 = p.sha256 from rfl, bip341Digest_setWitness _ tx inp _ hvin hne1] at hver
    rw [hss, hspk]
    apply TapSpend.S.keypath_roundtrip p flags _ spent out.outputKey sig hw ht hkl hnz hsl
    rw [bip341Digest_setWitness _ tx inp _ hvin hne2]
    exact hver

/-- **Round trip, script path**, for a leaf of the form `<32-byte key k> OP_CHECKSIG` spent without further arguments: the
    same statement, with `sig` verifying under `k` over the reported (BIP342) signature hash; the transaction tap then
    outputs carries the witness `[sig, script, control block]` and validates. -/
theorem tap_roundtrip_scriptpath {cx : Tap.Ctx} (h32 : Hash32 cx) (hc : HashCtx) (tc : TapCtx) (p : Spec.Prims)
    (hagt : Btcdeb.Proofs.C05.Agree tc p.tap) (hagc : Agree cx p.tap) (flags : Nat)
    {bech : String → Nat → Bytes → Option String} {hrp : String} {internal : Bytes} {scripts : List Bytes} {out : Output}
    (tx txin : Tx) (inp : TxIn) (vout : Nat) (spent : TxOut) (i : Nat) (k sig : Bytes)
    (hrun : run cx bech hrp (some spent.scriptPubKey) internal scripts (some (i, [])) = .ok out)
    (hleaf : scripts[i]? = some (0x20 :: (k ++ [0xac]))) (hk : k.length = 32)
    (hvin : tx.vin = [inp]) (hss : inp.scriptSig = []) (hspent : txin.vout[vout]? = some spent)
    (hspk : spent.scriptPubKey = 0x51 :: 0x20 :: out.outputKey) (hkl : out.outputKey.length = 32)
    (hnz : Spec.toBool out.outputKey = true)
    (hw : hasFlag flags Flag.WITNESS = true) (ht : hasFlag flags Flag.TAPROOT = true) (hsl : sig.length = 64) :
    ∃ r1, runTx cx hc tc (crOf p) bech hrp tx txin 0 vout [] internal scripts (some (i, [])) = .ok r1 ∧
      (p.schnorrVerify k r1.sighash sig = true →
        ∃ r2 control, runTx cx hc tc (crOf p) bech hrp tx txin 0 vout sig internal scripts (some (i, [])) = .ok r2 ∧
          out.control = some control ∧
          r2.tx.vin = [{ inp with witness := [sig, 0x20 :: (k ++ [0xac]), control] }] ∧
          Spec.verifyScript (Spec.spendCtx p r2.tx 0 spent.value [spent]) flags inp.scriptSig spent.scriptPubKey
            [sig, 0x20 :: (k ++ [0xac]), control] = .ok ()) := by
  have hno : ∀ j a, (some (i, ([] : List Bytes)) : Option (Nat × List Bytes)) = some (j, a) → a.length < 1000 ∧ ∀ x ∈ a, x.length ≤ 520 := by
    intro j a h; cases h; simp
  obtain ⟨_, h1⟩ := tap_sighash_is_bip341 h32 hc tc p.tap hagt (crOf p) tx txin inp vout spent [] hrun hvin hss hspent hspk hkl (by simp) hno
  obtain ⟨_, h2⟩ := tap_sighash_is_bip341 h32 hc tc p.tap hagt (crOf p) tx txin inp vout spent sig hrun hvin hss hspent hspk hkl (by omega) hno
  obtain ⟨control, script, hctl, hscr, hsi, hwit, _, hvalid⟩ := tap_control_verifies hagc h32 hrun
  have hscript : script = 0x20 :: (k ++ [0xac]) := by rw [hleaf] at hsi; cases hsi; rfl
  subst hscript
  have hgd : scripts.getD i [] = 0x20 :: (k ++ [0xac]) := by simp [List.getD, hleaf]
  refine ⟨_, h1, ?_⟩
  intro hver
  have hwit' : txWitness sig out = [sig, 0x20 :: (k ++ [0xac]), control] := by simp [txWitness, hwit, hsl]
  refine ⟨_, control, h2, hctl, ?_, ?_⟩
  · rw [hwit']; exact setWitness_single tx inp _ hvin (by simp)
  · have hne1 : txWitness [] out ≠ [] := by simp [txWitness_eq]
    have hne2 : txWitness sig out ≠ [] := by simp [txWitness_eq]
    simp only [extOf, hgd] at hver
    rw [show (crOf p).sha256 = p.sha256 from rfl, bip341Digest_setWitness _ tx inp _ hvin hne1] at hver
    have hc0 : (control.headD 0).toNat = 0xc0 ∨ (control.headD 0).toNat = 0xc1 := by
      obtain ⟨root, ctl, q, odd, address, _, _, _, _, _, _, _, _, _, _, _, hout⟩ := run_inv hrun
      rw [hout] at hctl; simp only [finish, Option.some.injEq] at hctl
      rw [← hctl]; cases odd <;> simp [controlByte]
    rw [hss, hspk]
    apply TapSpend.S.scriptpath_roundtrip p flags _ spent out.outputKey k sig control hw ht hkl hnz hk hsl hc0 hvalid
    rw [bip341Digest_setWitness _ tx inp _ hvin hne2]
    exact hver

/-- the check against the input transaction does not change the result: a run without transactions that succeeds also
    succeeds, with the same output, when the spent scriptPubKey ends with the output key -/
theorem run_with_spk {cx : Tap.Ctx} {bech : String → Nat → Bytes → Option String} {hrp : String} {internal : Bytes}
    {scripts : List Bytes} {sel : Option (Nat × List Bytes)} {out : Output}
    (h : run cx bech hrp none internal scripts sel = .ok out) (s : Bytes) (hm : spkMatches s out.outputKey = true) :
    run cx bech hrp (some s) internal scripts sel = .ok out := by
  obtain ⟨root, ctl, q, odd, address, hk, hn1, hn2, hio, hv, hb, hctl, hx, htq, _, hba, hout⟩ := run_inv h
  have hq : out.outputKey = q := by rw [hout]; cases sel <;> rfl
  rw [hq] at hm
  have hne : scripts ≠ [] := by intro h0; subst h0; simp at hn1
  unfold run
  rw [if_neg (by simp [hk])]
  simp [hio, hv, hb, hctl, hx, htq, hba, spkMismatch, hm, hout]
  exact ⟨hne, hn2⟩

theorem spkMatches_p2tr (key : Bytes) (hk : key.length = 32) : spkMatches (0x51 :: 0x20 :: key) key = true := by
  simp [spkMatches, hk]

/-! ## The concrete instance: SHA-256 and secp256k1 as linked into `tap` and `btcdeb` -/

/-- SHA-256 returns 32 bytes -/
theorem glue_hash32 : Hash32 Tap.glueCtx := fun _ _ => taggedHash_length _ _

/-- a key made by `secp256k1_xonly_pubkey_tweak_add` passes `secp256k1_xonly_pubkey_tweak_add_check` with the parity of
    the serialised point: the oracle BIP341 is checked against (`Glue.tapOracle`) agrees with tap's functions -/
theorem glue_agree : Agree Tap.glueCtx Glue.tapOracle := by
  refine ⟨fun _ _ => rfl, ?_⟩
  intro p t q odd h
  simp only [Tap.glueCtx, Option.map_eq_some_iff, Prod.mk.injEq] at h
  obtain ⟨pt, hpt, rfl, rfl⟩ := h
  simp [Glue.tapOracle, Crypto.xonlyTweakAddCheck, hpt]

/-- the same for what `TaprootCommitmentEnv` calls (`XOnlyPubKey::CheckTapTweak`) -/
theorem glue_agreeTce : AgreeTce Tap.glueCtx Glue.tapCtx := by
  refine ⟨fun _ _ => rfl, ?_⟩
  intro p k q odd h
  simp only [Tap.glueCtx, Option.map_eq_some_iff, Prod.mk.injEq] at h
  obtain ⟨pt, hpt, rfl, rfl⟩ := h
  simp only [Glue.tapCtx, Crypto.checkTapTweak, Crypto.xonlyTweakAddCheck, Crypto.tapTweakHash, Option.getD_some]
  simp [hpt]

/-- C06 for the functions the tools are linked with: no hypothesis left but a successful run -/
theorem tap_control_verifies_concrete {bech : String → Nat → Bytes → Option String} {hrp : String} {spk : Option Bytes} {internal : Bytes}
    {scripts : List Bytes} {i : Nat} {args : List Bytes} {out : Output}
    (h : run Tap.glueCtx bech hrp spk internal scripts (some (i, args)) = .ok out) :
    ∃ control script, out.control = some control ∧ out.script = some script ∧ scripts[i]? = some script ∧
      out.witness = args ++ [script, control] ∧ bech hrp 1 out.outputKey = some out.address ∧
      bip341Valid Glue.tapOracle control script out.outputKey = true :=
  tap_control_verifies glue_agree glue_hash32 h

theorem tap_accepted_by_debugger_concrete {bech : String → Nat → Bytes → Option String} {hrp : String} {spk : Option Bytes} {internal : Bytes}
    {scripts : List Bytes} {i : Nat} {args : List Bytes} {out : Output}
    (h : run Tap.glueCtx bech hrp spk internal scripts (some (i, args)) = .ok out) :
    ∃ control script, out.control = some control ∧ out.script = some script ∧
      ∀ fuel, (control.length - 33) / 32 < fuel →
        tceRun Glue.tapCtx fuel (Tce.init Glue.tapCtx control out.outputKey script) = .done :=
  tap_accepted_by_debugger glue_agreeTce glue_hash32 h

theorem tap_address_is_bip341_output_key_concrete {bech : String → Nat → Bytes → Option String} {hrp : String} {spk : Option Bytes} {internal : Bytes}
    {scripts : List Bytes} {sel : Option (Nat × List Bytes)} {out : Output}
    (h : run Tap.glueCtx bech hrp spk internal scripts sel = .ok out) :
    ∃ tree : TapTree, tree.leaves = scripts.map (fun s => (0xc0, s)) ∧ tree.height ≤ 10 ∧ out.root = tree.root Glue.tapOracle ∧
      isOutputKey Glue.tapOracle internal (tree.root Glue.tapOracle) out.outputKey out.odd = true ∧
      bech hrp 1 out.outputKey = some out.address :=
  tap_address_is_bip341_output_key glue_agree h

theorem natToBytesBELoop_length : ∀ (len n : Nat) (acc : Bytes), (Crypto.natToBytesBELoop len n acc).length = len + acc.length
  | 0, _, _ => by simp [Crypto.natToBytesBELoop]
  | len + 1, n, acc => by simp [Crypto.natToBytesBELoop, natToBytesBELoop_length len]; omega

/-- the output key libsecp256k1 serialises is 32 bytes -/
theorem glue_outputKey_length {p t q : Bytes} {odd : Bool} (h : Tap.glueCtx.tweakAdd p t = some (q, odd)) : q.length = 32 := by
  simp only [Tap.glueCtx, Option.map_eq_some_iff, Prod.mk.injEq] at h
  obtain ⟨pt, hpt, rfl, _⟩ := h
  cases pt with
  | infinity =>
    exfalso
    unfold Crypto.xonlyTweakAdd at hpt
    cases hp : Crypto.parseXOnly p with
    | none => simp [hp] at hpt
    | some pk =>
      simp only [hp] at hpt
      split at hpt
      · cases hpt
      · cases hm : Crypto.pointMulAdd2 1 pk (Crypto.bytesToNatBE t) Crypto.G with
        | infinity => simp [hm] at hpt
        | affine x y => simp [hm] at hpt
  | affine x y => simp [Crypto.xonlyBytes, Crypto.natToBytesBE, natToBytesBELoop_length]

/-- the digest clause for the functions the tools are linked with (SHA-256, secp256k1, `Glue.tapCtx`) -/
theorem tap_sighash_is_bip341_concrete
    {bech : String → Nat → Bytes → Option String} {hrp : String} {internal : Bytes} {scripts : List Bytes}
    {sel : Option (Nat × List Bytes)} {out : Output}
    (tx txin : Tx) (inp : TxIn) (vout : Nat) (spent : TxOut) (premadeSig : Bytes)
    (hrun : run Tap.glueCtx bech hrp (some spent.scriptPubKey) internal scripts sel = .ok out)
    (hvin : tx.vin = [inp]) (hss : inp.scriptSig = []) (hspent : txin.vout[vout]? = some spent)
    (hspk : spent.scriptPubKey = 0x51 :: 0x20 :: out.outputKey)
    (hsig : premadeSig.length ≤ 520)
    (hargs : ∀ i a, sel = some (i, a) → a.length < 1000 ∧ ∀ x ∈ a, x.length ≤ 520) :
    runTx Tap.glueCtx Tap.glueHashCtx Glue.tapCtx stdCrypto bech hrp tx txin 0 vout premadeSig internal scripts sel =
        .ok { out := out,
              sighash := Spec.bip341Digest Crypto.sha256 (setWitness tx 0 (txWitness premadeSig out)) 0 0x00 [spent] none
                           (extOf Glue.tapOracle scripts sel),
              tx := setWitness tx 0 (txWitness premadeSig out) } := by
  have hkl : out.outputKey.length = 32 := by
    obtain ⟨root, ctl, q, odd, address, _, _, _, _, _, _, _, _, htq, _, _, hout⟩ := run_inv hrun
    have : out.outputKey = q := by rw [hout]; cases sel <;> rfl
    rw [this]; exact glue_outputKey_length htq
  exact (tap_sighash_is_bip341 glue_hash32 Tap.glueHashCtx Glue.tapCtx Glue.tapOracle Btcdeb.Proofs.C05.glue_agree stdCrypto
    tx txin inp vout spent premadeSig hrun hvin hss hspent hspk hkl hsig hargs).2

/-! ## The hypotheses are satisfiable together, non-trivially -/

/-- a toy instance (32-byte "hash", every key valid, the tweak is the new key) to run the statements on -/
def toyCtx : Tap.Ctx where
  taggedHash := fun _ m => List.replicate 31 0 ++ [UInt8.ofNat m.length]
  xonlyParse := fun _ => true
  tweakAdd := fun _ t => some (t, true)

theorem toy_hash32 : Hash32 toyCtx := fun _ _ => by simp [toyCtx]

/-- five scripts (two equal, one empty), the leftover one spent with one argument: the tool succeeds and its output
    verifies under BIP341 and in the debugger's check -/
example : ∃ out control script,
    run toyCtx (fun _ _ _ => some "") "bcrt" none (List.replicate 32 7) [[0x51], [], [0x52, 0x53], [0x51], [0x54]] (some (4, [[1]])) = .ok out ∧
    out.control = some control ∧ out.script = some script ∧ script = [0x54] ∧ out.witness = [[1], script, control] ∧
    bip341Valid (oracleOf toyCtx) control script out.outputKey = true ∧
    tceRun ⟨toyCtx.taggedHash, fun q p k odd => toyCtx.tweakAdd p (toyCtx.taggedHash "TapTweak" (p ++ k)) == some (q, odd)⟩ 4
      (Tce.init ⟨toyCtx.taggedHash, fun q p k odd => toyCtx.tweakAdd p (toyCtx.taggedHash "TapTweak" (p ++ k)) == some (q, odd)⟩
        control out.outputKey script) = .done := by
  have hv : firstInvalid 0 [[0x51], [], [0x52, 0x53], [0x51], [0x54]] = none := by
    have e1 : hasValidOps [] = true := by rw [hasValidOps]; simp [getOp]
    have e2 : ∀ b : UInt8, b.toNat = 0x51 ∨ b.toNat = 0x52 ∨ b.toNat = 0x53 ∨ b.toNat = 0x54 → ∀ r, hasValidOps r = true →
        hasValidOps (b :: r) = true := by
      intro b hb r hr
      rw [hasValidOps]
      have : getOp (b :: r) = some { opcode := b.toNat, data := [], rest := r } := by
        simp only [getOp, Op.OP_PUSHDATA4]
        rw [if_neg (by omega)]
      rw [this]
      simp only [List.length_nil]
      rw [if_neg (by simp [Gen.MAX_OPCODE, Gen.MAX_SCRIPT_ELEMENT_SIZE]; omega)]
      exact hr
    simp [firstInvalid, e1, e2]
  obtain ⟨out, hrun⟩ := tap_run_ok toyCtx (fun _ _ _ => some "") "bcrt" (List.replicate 32 7)
    [[0x51], [], [0x52, 0x53], [0x51], [0x54]] (some (4, [[1]])) (by simp) (by simp) (by simp)
    (by intro i a h; cases h; simp) hv rfl (fun _ => rfl) (fun _ => rfl)
  obtain ⟨control, script, hc, hs, hsi, hw, _, hvalid⟩ := tap_control_verifies (agree_oracleOf toyCtx) toy_hash32 hrun
  have hag : AgreeTce toyCtx ⟨toyCtx.taggedHash, fun q p k odd => toyCtx.tweakAdd p (toyCtx.taggedHash "TapTweak" (p ++ k)) == some (q, odd)⟩ :=
    ⟨fun _ _ => rfl, fun p k q odd h => by simp [h]⟩
  obtain ⟨control', script', hc', hs', hdone⟩ := tap_accepted_by_debugger hag toy_hash32 hrun
  rw [hc] at hc'; cases hc'
  rw [hs] at hs'; cases hs'
  have hscript : script = [0x54] := by simpa using hsi.symm
  refine ⟨out, control, script, hrun, hc, hs, hscript, by simpa using hw, hvalid, ?_⟩
  apply hdone
  -- the path of leaf 4 in ((0 1) ((2 3) 4)) has two entries
  obtain ⟨root, ctl, q, odd, address, hk, _, _, _, _, hb, hctl, _, _, _, _, hout⟩ := run_inv hrun
  obtain ⟨path, hp, rfl⟩ := controlTail_sel_inv hctl
  obtain ⟨root', hb', hwf, _, hh⟩ := buildTree_spec toyCtx [[0x51], [], [0x52, 0x53], [0x51], [0x54]] (by simp)
  rw [hb] at hb'; cases hb'
  have hl := Nat.le_trans (prove_length_le 4 hp) (hh 3 (by simp))
  have hall := prove_all32 toy_hash32 4 hwf hp
  obtain ⟨hlen, _, _, _⟩ := control_shape (controlByte odd) (List.replicate 32 7) path hk hall
  rw [hout] at hc; simp only [finish] at hc; cases hc
  rw [hlen]; omega


/-- the same five scripts with `--tx`/`--txin`: a one-input transaction spending the P2TR output of the printed key; the run
    succeeds and reports the BIP342 digest of the transaction it outputs -/
example : ∃ out tx txin r,
    run toyCtx (fun _ _ _ => some "") "bcrt" none (List.replicate 32 7) [[0x51], [], [0x52, 0x53], [0x51], [0x54]] (some (4, [[1]])) = .ok out ∧
    tx.vin.length = 1 ∧ (txin.vout.map (·.scriptPubKey)) = [0x51 :: 0x20 :: out.outputKey] ∧
    runTx toyCtx ⟨fun b => b, fun b => b, fun b => b⟩
      ⟨toyCtx.taggedHash, fun q p k odd => toyCtx.tweakAdd p (toyCtx.taggedHash "TapTweak" (p ++ k)) == some (q, odd)⟩
      ⟨fun b => b.take 32, fun _ _ _ => false, fun _ _ _ => false⟩ (fun _ _ _ => some "") "bcrt" tx txin 0 0 []
      (List.replicate 32 7) [[0x51], [], [0x52, 0x53], [0x51], [0x54]] (some (4, [[1]])) = .ok r ∧
    r.out = out ∧ (r.tx.vin.map (·.witness)) = [txWitness [] out] ∧
    r.sighash = Spec.bip341Digest (fun b => b.take 32) r.tx 0 0 txin.vout none
      (some { leafHash := tapLeafHash (oracleOf toyCtx) 0xc0 [0x54], codesepPos := 0xFFFFFFFF }) := by
  have hv : firstInvalid 0 [[0x51], [], [0x52, 0x53], [0x51], [0x54]] = none := by
    have e1 : hasValidOps [] = true := by rw [hasValidOps]; simp [getOp]
    have e2 : ∀ b : UInt8, b.toNat = 0x51 ∨ b.toNat = 0x52 ∨ b.toNat = 0x53 ∨ b.toNat = 0x54 → ∀ r, hasValidOps r = true →
        hasValidOps (b :: r) = true := by
      intro b hb r hr
      rw [hasValidOps]
      have : getOp (b :: r) = some { opcode := b.toNat, data := [], rest := r } := by
        simp only [getOp, Op.OP_PUSHDATA4]
        rw [if_neg (by omega)]
      rw [this]
      simp only [List.length_nil]
      rw [if_neg (by simp [Gen.MAX_OPCODE, Gen.MAX_SCRIPT_ELEMENT_SIZE]; omega)]
      exact hr
    simp [firstInvalid, e1, e2]
  obtain ⟨out, hrun⟩ := tap_run_ok toyCtx (fun _ _ _ => some "") "bcrt" (List.replicate 32 7)
    [[0x51], [], [0x52, 0x53], [0x51], [0x54]] (some (4, [[1]])) (by simp) (by simp) (by simp)
    (by intro i a h; cases h; simp) hv rfl (fun _ => rfl) (fun _ => rfl)
  have hkl : out.outputKey.length = 32 := by
    obtain ⟨root, ctl, q, odd, address, _, _, _, _, _, _, _, _, htq, _, _, hout⟩ := run_inv hrun
    have : out.outputKey = q := by rw [hout]; rfl
    rw [this]
    simp only [toyCtx, Option.some.injEq, Prod.mk.injEq] at htq
    rw [← htq.1]; simp
  let inp : TxIn := { prevout := ⟨List.replicate 32 1, 0⟩, scriptSig := [], sequence := 0xfffffffd, witness := [] }
  let tx : Tx := { version := 2, vin := [inp], vout := [⟨900, [0x51]⟩], lockTime := 0 }
  let spent : TxOut := ⟨1000, 0x51 :: 0x20 :: out.outputKey⟩
  let txin : Tx := { version := 2, vin := [], vout := [spent], lockTime := 0 }
  have hrun' := run_with_spk hrun spent.scriptPubKey (spkMatches_p2tr _ hkl)
  have hag : Btcdeb.Proofs.C05.Agree
      ⟨toyCtx.taggedHash, fun q p k odd => toyCtx.tweakAdd p (toyCtx.taggedHash "TapTweak" (p ++ k)) == some (q, odd)⟩ (oracleOf toyCtx) :=
    ⟨fun _ _ => rfl, fun _ _ _ _ => rfl⟩
  obtain ⟨_, h2⟩ := tap_sighash_is_bip341 toy_hash32 ⟨fun b => b, fun b => b, fun b => b⟩ _ (oracleOf toyCtx) hag
    ⟨fun b => b.take 32, fun _ _ _ => false, fun _ _ _ => false⟩ tx txin inp 0 spent [] hrun' rfl rfl rfl rfl hkl (by simp)
    (by intro i a h; cases h; simp)
  refine ⟨out, tx, txin, _, hrun, rfl, rfl, h2, rfl, ?_, rfl⟩
  simp [setWitness, tx, inp, txWitness]

end Btcdeb.Proofs.C06
