/-
  C17 (continued) — algebraic laws of the specified functions (`Spec.execExtended`), which by
  `C17_computes` are laws of what btcdeb computes under `--allow-disabled-opcodes`: bitwise NOT is an
  involution, XOR of an item with itself is all-zero, AND/OR are idempotent, and LEFT n / RIGHT (len−n)
  split an item into two pieces whose concatenation (OP_CAT) is the item.  They hold for every
  stack item of every length; they would fail for a "spec" that merely restated a defective opcode
  (e.g. the XOR no-op the tree once had).
  Property theorems only.
-/
import Btcdeb
import BtcdebProofs.Properties.C17
namespace Btcdeb.Proofs.C17
open Btcdeb Btcdeb.Model

theorem invert_involutive (rm : Bool) (st : Spec.St) (x : Bytes) (s : List Bytes) (h : st.stack = x :: s) :
    (Spec.execExtended rm .OP_INVERT st >>= Spec.execExtended rm .OP_INVERT) = .ok st := by
  cases st
  simp only at h
  subst h
  simp [Spec.execExtended, bind, Except.bind, List.map_map, Function.comp_def]

theorem xor_self (rm : Bool) (st : Spec.St) (x : Bytes) (s : List Bytes) (h : st.stack = x :: x :: s) :
    Spec.execExtended rm .OP_XOR st = .ok { st with stack := x.map (fun _ => 0) :: s } := by
  simp [Spec.execExtended, h]

theorem and_self (rm : Bool) (st : Spec.St) (x : Bytes) (s : List Bytes) (h : st.stack = x :: x :: s) :
    Spec.execExtended rm .OP_AND st = .ok { st with stack := x :: s } := by
  simp [Spec.execExtended, h]

theorem or_self (rm : Bool) (st : Spec.St) (x : Bytes) (s : List Bytes) (h : st.stack = x :: x :: s) :
    Spec.execExtended rm .OP_OR st = .ok { st with stack := x :: s } := by
  simp [Spec.execExtended, h]

/-- the pieces LEFT n and RIGHT (len − n) cut from an item concatenate back to the item -/
theorem left_right_cat (x : Bytes) (n : Nat) (hn : n ≤ x.length) :
    x.take n ++ x.drop (x.length - (x.length - n)) = x := by
  have : x.length - (x.length - n) = n := by omega
  rw [this, List.take_append_drop]

/-- concatenation never loses or reorders bytes: the result's length is the sum, its prefix the lower item -/
theorem cat_shape (rm : Bool) (st st' : Spec.St) (x1 x2 : Bytes) (s : List Bytes) (h : st.stack = x2 :: x1 :: s)
    (hr : Spec.execExtended rm .OP_CAT st = .ok st') :
    st'.stack = (x1 ++ x2) :: s ∧ x1.length + x2.length ≤ 520 := by
  simp only [Spec.execExtended, h] at hr
  split at hr
  · cases hr
  · cases hr; exact ⟨rfl, by omega⟩

end Btcdeb.Proofs.C17
