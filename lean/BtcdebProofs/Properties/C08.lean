/-
  C08 — non-interactive btcdeb prints the final stack and never exits abnormally.
-/
import Btcdeb
import BtcdebProofs.Lemmas.NoAbnormal
import BtcdebProofs.Lemmas.Session
import BtcdebProofs.Properties.C04
namespace Btcdeb.Proofs.C08
open Btcdeb Btcdeb.Model

/-- what is printed and the exit status are determined by the outcome of running to completion:
    success prints the final stack as lowercase hex, one item per line from bottom to top, exit 0;
    a script error is reported with its message and exit 1 -/
theorem C08_output (cx : Ctx) (tc : TapCtx) (script : Bytes) (stack : List Bytes) (flags : Nat) (z : Bool) (e0 : IEnv)
    (hv : hasValidOps script = true)
    (hs : setupEnvironment stack script flags .BASE [] z {} none [] [] = .ok e0) :
    (∀ e, continueScript cx tc (continueFuel e0) e0 = .ok e →
        nonInteractive cx tc script stack flags z = .exit0 (e.see.stack.map toHex)) ∧
    (∀ err, continueScript cx tc (continueFuel e0) e0 = .error (.script err) →
        nonInteractive cx tc script stack flags z = .exit1 ("error: " ++ errString err)) ∧
    (∀ w, continueScript cx tc (continueFuel e0) e0 = .error (.exc w) →
        nonInteractive cx tc script stack flags z = .exit1 ("error: exception thrown: " ++ w)) := by
  refine ⟨?_, ?_, ?_⟩ <;> intro x hx <;> simp [nonInteractive, hv, hs, hx]

/-- running to completion is nothing but stepping until `done`: the result equals what interactive
    stepping reaches after some number of steps -/
theorem C08_same_as_stepping (cx : Ctx) (tc : TapCtx) : ∀ (fuel : Nat) (e0 e : IEnv),
    continueScript cx tc fuel e0 = .ok e → ∃ k, C04.advance cx tc e0 k = some e := by
  intro fuel
  induction fuel with
  | zero => intro e0 e h; simp only [continueScript] at h; cases h; exact ⟨0, rfl⟩
  | succ n ih =>
    intro e0 e h
    simp only [continueScript] at h
    by_cases hd : e0.done = true
    · simp only [hd, if_true] at h; cases h; exact ⟨0, rfl⟩
    · simp only [hd, Bool.false_eq_true, if_false] at h
      cases hs : stepSession cx tc e0 with
      | error x => rw [hs] at h; cases h
      | ok e1 =>
        rw [hs] at h
        obtain ⟨k, hk⟩ := ih e1 e h
        -- one more step in front
        refine ⟨k + 1, ?_⟩
        have key : ∀ k e, C04.advance cx tc e1 k = some e → C04.advance cx tc e0 (k + 1) = some e := by
          intro k
          induction k with
          | zero => intro e h0; simp [C04.advance] at h0; simp [C04.advance, hd, hs, h0]
          | succ k ihk =>
            intro e h1
            simp only [C04.advance] at h1 ⊢
            cases hk1 : C04.advance cx tc e1 k with
            | none => simp [hk1] at h1
            | some em =>
              have := ihk em hk1
              simp only [C04.advance] at this
              rw [this]
              simpa [hk1] using h1
        exact key k e hk

/-- NO ABNORMAL TERMINATION from script-level failures: every operation step of a session ends in success,
    a script error or a caught exception.  (`_partial`: stated for operation steps; the P2SH hand-over step
    asserts a non-empty saved stack, which holds because the 23-byte template cannot succeed on an empty stack —
    that argument is covered by the correspondence check, not by this theorem.) -/
theorem C08_no_abnormal_partial (cx : Ctx) (hcx : CheckerNoAbn cx) (tc : TapCtx) (e : IEnv)
    (ht : e.tce = none) (hpc : e.pc ≠ [])
    (hw : e.see.sigversion = .TAPSCRIPT → e.see.execdata.weightInit = true) :
    ∀ k, stepSession cx tc e ≠ .error (.abnormal k) := by
  intro k h
  unfold stepSession at h
  have hne : e.pc.isEmpty = false := by simpa using hpc
  simp only [ht, hne, Bool.not_false, if_true] at h
  cases hs : step cx e.see e.pc with
  | error x =>
    rw [hs] at h
    cases x with
    | abnormal k' => exact step_noabn cx hcx e.see e.pc hw k' hs
    | script _ => cases h
    | exc _ => cases h
  | ok r => rw [hs] at h; cases h

/-- the `BaseSignatureChecker` (no transaction given) never ends abnormally -/
theorem base_checker_noabn (cx : Ctx) (h : ∀ a b c d, cx.checkSchnorr a b c d = .error (.script .UNKNOWN_ERROR)) :
    CheckerNoAbn cx := by
  intro a b c d k hk; rw [h] at hk; cases hk

end Btcdeb.Proofs.C08
