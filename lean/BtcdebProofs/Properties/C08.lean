import Btcdeb
namespace Btcdeb.Proofs.C08
end Btcdeb.Proofs.C08
