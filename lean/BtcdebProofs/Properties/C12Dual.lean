/-
  C12, the two-column display — `print_dualstack` shows exactly what executes next.

  Model: `Btcdeb/Model/Dual.lean` (`printDualstack`, `svPrintScripts`, the two static widths as `DualState`);
  specification: `Btcdeb/Spec/Dual.lean` (`remaining` = what is still to be executed, in execution order, by the
  specification's own decoder; `stackColumn`; `abbreviated`); helper lemmas: `BtcdebProofs/Lemmas/Dual.lean`.

  Results (all sessions — plain scripts, legacy spends with scriptPubKey and P2SH sections, P2WSH, taproot script paths
  of any length —, all histories of step / rewind commands including failed and refused ones, pushes of any length, any
  signature checker, any widths inherited from earlier displays):
  (a) LEFT COLUMN  `C12_dual_left` (one state) / `C12_dual_left_session` (every state of every session): the lines
      of the left column — the two title lines of the commitment section aside — are, in order, exactly
      `Spec.remaining`: the commitment steps still to be taken, the current script from the current position, the
      scriptPubKey and the P2SH redeem script under their hand-over lines; `C12_dual_first_is_pending`: the first of
      them is the operation the next `step` performs; `C12_dual_first_is_next_op`: it is the instruction `stepSession`
      consumes.  One hypothesis besides freshness (`hstack`): a P2SH hand-over is pending only with a saved stack that
      is not empty (with an empty one it cannot be performed, and no section is listed for it; the same hypothesis as in
      `C12.C12_listing_exact`).
  (b) NOTHING PENDING AT THE END  `C12_dual_nothing_pending_at_end`: in the ended state of every session the left
      column is empty.
  (c) RIGHT COLUMN  `C12_dual_right_stack`, `C12_dual_right_row`: outside the commitment phase the right column is the
      stack, top first, every item in full hex (`0x` for the empty item) when that has at most 66 characters, otherwise
      its first 63 characters followed by `...` (`C12_dual_cells`; the same holds for the left column, and the cut at
      1023 characters made by `buf[1024]` never shows).
  (d) LAYOUT  `C12_dual_widths_monotone`, `C12_dual_session_widths`: the widths only grow; `C12_dual_rows`: within one
      display every row has its separator `| ` at the same offset (left cell exactly `lcap + 1` characters, right cell
      empty or exactly `rcap` characters), the title rows included; `C12_dual_row_content`: row `i` is entry `i` of
      the left column beside entry `i` of the right column.
  `C12_dual_not_stale`: the undefined behaviour of svprintscripts (an iterator of one script used on the next) is
  not reachable in a session.
-/
import Btcdeb
import BtcdebProofs.Lemmas.Dual
import BtcdebProofs.Properties.C12
namespace Btcdeb.Proofs.C12Dual
open Btcdeb Btcdeb.Model Btcdeb.Proofs.C12

-- ---------------------------------------------------------------------------------------------
-- the left column in closed form

/-- the two title lines of the commitment section (`<<< taproot commitment >>>`, `<<< committed script >>>`) -/
def isDecor (l : Line) : Bool := l.sect == .commitment && l.kind == .header

/-- the operations the left column lists: everything but the two title lines -/
def leftOps (e : IEnv) : List Line := (dualLeft e).filter (fun l => !isDecor l)

/-- the sections that follow the current script -/
def dualTail (e : IEnv) : List Line := (dualScripts e).tail.flatMap sectLines

/-- the display is well defined: the current script lists something or is at its end, or nothing follows it -/
def Defined (e : IEnv) : Prop := startedAt e.pc = true ∨ (dualScripts e).tail = []

theorem dualScripts_cons (e : IEnv) : dualScripts e = (Sect.main, e.see.script, "") :: (dualScripts e).tail := rfl

theorem dualLeft_closed (e : IEnv) (h : Defined e) :
    dualLeft e = tceLines e.tce ++ opLinesFrom .main e.see.script.length e.pc ++ dualTail e ∧ dualStale e = false := by
  unfold dualLeft dualStale dualSv dualTail
  rw [dualScripts_cons]
  exact (svPrintScripts_spec _ _ e.pc e.tce).1 h

/-- when the display is not well defined the model says so -/
theorem dualStale_of_undefined (e : IEnv) (h : ¬ Defined e) : dualStale e = true := by
  unfold Defined at h
  unfold dualStale dualSv
  rw [dualScripts_cons]
  refine (svPrintScripts_spec _ _ e.pc e.tce).2.1 ?_ ?_
  · cases hs : startedAt e.pc with
    | true => exact absurd (Or.inl hs) h
    | false => rfl
  · intro hc; exact h (Or.inr hc)

theorem dualSv_ok (e : IEnv) : (dualSv e).Ok := by
  unfold dualSv
  rw [dualScripts_cons]
  exact (svPrintScripts_spec _ _ e.pc e.tce).2.2

-- ---------------------------------------------------------------------------------------------
-- the sections against the specification's plan

theorem opLinesFrom_plan (sect : Sect) (total : Nat) (it : Bytes) :
    (opLinesFrom sect total it).map Line.plan = Spec.planFrom total it.length it := by
  rw [planFrom_eq total it.length it (Nat.le_refl _), opLinesFrom, List.map_map]
  apply List.map_congr_left
  intro p _
  simp [Line.plan]

theorem opLinesFrom_self (sect : Sect) (s : Bytes) : opLinesFrom sect s.length s = opLines sect s := rfl

theorem opLinesFrom_notDecor (sect : Sect) (total : Nat) (it : Bytes) : ∀ l ∈ opLinesFrom sect total it, isDecor l = false := by
  intro l hl
  simp only [opLinesFrom, List.mem_map] at hl
  obtain ⟨p, _, rfl⟩ := hl
  simp [isDecor]

theorem spk_lines (s : Bytes) :
    sectLines (Sect.scriptPubKey, s, "<<< scriptPubKey >>>") = spkHeader :: opLines .scriptPubKey s := by
  have : (("<<< scriptPubKey >>>" : String) != "") = true := by decide
  simp [sectLines, this, spkHeader, opLinesFrom_self]

theorem p2sh_lines (s : Bytes) :
    sectLines (Sect.p2sh, s, "<<< P2SH script >>>") = p2shHeader :: opLines .p2sh s := by
  have : (("<<< P2SH script >>>" : String) != "") = true := by decide
  simp [sectLines, this, p2shHeader, opLinesFrom_self]

theorem opLines_notDecor (sect : Sect) (s : Bytes) : ∀ l ∈ opLines sect s, isDecor l = false :=
  opLinesFrom_notDecor sect s.length s

/-- the sections that follow the current script, as lines -/
theorem dualTail_eq (e : IEnv) :
    dualTail e =
      (if !e.successor.isEmpty then spkHeader :: opLines .scriptPubKey e.successor else []) ++
      (if viaStack e || viaSucc e then p2shHeader :: opLines .p2sh (dualRedeem e) else []) := by
  unfold dualTail dualScripts
  by_cases h1 : (!e.successor.isEmpty) = true <;> by_cases h2 : (viaStack e || viaSucc e) = true <;>
    simp [h1, h2, spk_lines, p2sh_lines]

theorem dualTail_notDecor (e : IEnv) : ∀ l ∈ dualTail e, isDecor l = false := by
  intro l hl
  rw [dualTail_eq] at hl
  rcases List.mem_append.mp hl with hl | hl
  · split at hl
    · rcases List.mem_cons.mp hl with rfl | hl
      · rfl
      · exact opLines_notDecor _ _ l hl
    · cases hl
  · split at hl
    · rcases List.mem_cons.mp hl with rfl | hl
      · rfl
      · exact opLines_notDecor _ _ l hl
    · cases hl

/-- THE SECTIONS AFTER THE CURRENT SCRIPT are the specification's plan of what follows it.
    `h1`: a P2SH hand-over is pending only with the redeem script saved and after the scriptPubKey has been entered;
    `h2`: the redeem script announced while the scriptSig is current is the one that will be handed over to. -/
theorem dualTail_plan (r : Bytes) (e : IEnv)
    (h1 : e.isP2sh = true → e.p2shStack ≠ [] ∧ e.successor = [])
    (h2 : e.successor ≠ [] → p2shPattern e.see.flags e.successor = true → lastPayload e.see.script = r) :
    (dualTail e).map Line.plan = Spec.tailFuture r e := by
  rw [dualTail_eq]
  unfold Spec.tailFuture
  by_cases hsu : e.successor = []
  · have hvs : viaSucc e = false := by simp [viaSucc, hsu]
    simp only [hsu, List.isEmpty_nil, Bool.not_true, Bool.false_eq_true, if_false, List.nil_append, if_true, List.append_nil, hvs,
      Bool.or_false]
    by_cases hp : e.isP2sh = true
    · have hne := (h1 hp).1
      have hst : e.p2shStack.isEmpty = false := by cases h : e.p2shStack with | nil => exact absurd h hne | cons a b => rfl
      have hv : viaStack e = true := by simp [viaStack, hp, hst]
      simp [hv, hp, dualRedeem, hvs, opLines_plan, Line.plan, p2shHeader, headerLine, Spec.handOverP2sh]
    · have hv : viaStack e = false := by simp [viaStack, hp]
      simp [hv, hp]
  · have hp : e.isP2sh = false := by
      cases hq : e.isP2sh with
      | false => rfl
      | true => exact absurd (h1 hq).2 hsu
    have hse : e.successor.isEmpty = false := by cases h : e.successor with | nil => exact absurd h hsu | cons a b => rfl
    have hv : viaStack e = false := by simp [viaStack, hp]
    have hvs : viaSucc e = p2shPattern e.see.flags e.successor := by
      rw [p2shPattern_eq]; simp [viaSucc, hse]
    simp only [hse, Bool.not_false, if_true, hv, Bool.false_or, hp, Bool.false_eq_true, if_false, List.nil_append, hvs]
    by_cases hpat : p2shPattern e.see.flags e.successor = true
    · have hr := h2 hsu hpat
      have hdr : dualRedeem e = r := by simp [dualRedeem, hvs, hpat, hr]
      simp [hpat, hdr, opLines_plan, Line.plan, p2shHeader, spkHeader, headerLine, Spec.handOverP2sh, Spec.handOverSpk]
    · simp [hpat, opLines_plan, Line.plan, spkHeader, headerLine, Spec.handOverSpk]

-- ---------------------------------------------------------------------------------------------
-- the commitment section

/-- the commitment environment is as `Iterate()` keeps it: at most `m_path_len` Merkle steps have been counted -/
def TceOk (e : IEnv) : Prop := ∀ t, e.tce = some t → t.i ≤ t.pathLen

theorem description_notDecor (t : Tce) : ∀ l ∈ t.description, isDecor l = false := by
  intro l hl
  simp only [Tce.description, List.mem_append, List.mem_map, List.mem_singleton] at hl
  rcases hl with ⟨i, _, rfl⟩ | rfl <;> rfl

/-- the lines of `Description()` from `m_i` on are the commitment steps still to be taken -/
theorem description_drop (t : Tce) (h : t.i ≤ t.pathLen) :
    (t.description.drop t.i).map Line.plan = Spec.commitFuture (some t) := by
  simp only [Tce.description, Spec.commitFuture, Spec.commitmentPlan]
  have hlen : ((List.range t.pathLen).map (branchLine t)).length = t.pathLen := by simp
  rw [List.drop_append_of_le_length (by rw [hlen]; exact h), List.map_append, ← List.map_drop, List.map_map]
  have hf : (Line.plan ∘ branchLine t) = Spec.merkleStep t.control := by funext i; rfl
  rw [hf]
  congr 2
  rw [List.range_eq_range', List.drop_range']
  simp

theorem tceLines_filter (tce : Option Tce) :
    (tceLines tce).filter (fun l => !isDecor l) = (match tce with | some t => t.description.drop t.i | none => []) := by
  cases tce with
  | none => rfl
  | some t =>
    simp only [tceLines, List.filter_cons, List.filter_append, List.filter_nil]
    have h1 : isDecor tapHeader = true := rfl
    have h2 : isDecor committedHeader = true := rfl
    simp only [h1, h2, Bool.not_true, Bool.false_eq_true, if_false, List.append_nil]
    exact List.filter_eq_self.mpr (fun l hl => by simp [description_notDecor t l (List.mem_of_mem_drop hl)])

/-- the operations listed, in closed form -/
theorem leftOps_closed (e : IEnv) (h : Defined e) :
    leftOps e = (match e.tce with | some t => t.description.drop t.i | none => []) ++
      opLinesFrom .main e.see.script.length e.pc ++ dualTail e := by
  unfold leftOps
  rw [(dualLeft_closed e h).1, List.filter_append, List.filter_append, tceLines_filter]
  congr 1
  · congr 1
    exact List.filter_eq_self.mpr (fun l hl => by simp [opLinesFrom_notDecor _ _ _ l hl])
  · exact List.filter_eq_self.mpr (fun l hl => by simp [dualTail_notDecor e l hl])

/-- a session that has ended has nothing left: what `StepScript` establishes when it sets `done`
    (an invariant of every session, `C12Dual.reach_facts`) -/
def EndOk (e : IEnv) : Prop := e.done = true → e.tce = none ∧ e.pc = [] ∧ e.isP2sh = false ∧ e.successor = []

/-- (a), ONE STATE: the operations listed in the left column are, in order, EXACTLY what remains to be executed.
    `hdef` (no undefined behaviour), `hend`, `htce`, `h1`, `h2`: see `Defined`, `EndOk`, `TceOk`, `dualTail_plan`; all are
    established for the states of a session by `session_hyps` (`h1` from `hstack`). -/
theorem C12_dual_left (r : Bytes) (e : IEnv) (hdef : Defined e) (hend : EndOk e) (htce : TceOk e)
    (h1 : e.isP2sh = true → e.p2shStack ≠ [] ∧ e.successor = [])
    (h2 : e.successor ≠ [] → p2shPattern e.see.flags e.successor = true → lastPayload e.see.script = r) :
    (leftOps e).map Line.plan = Spec.remaining r e := by
  rw [leftOps_closed e hdef, List.map_append, List.map_append, opLinesFrom_plan, dualTail_plan r e h1 h2]
  unfold Spec.remaining
  by_cases hd : e.done = true
  · obtain ⟨ht, hpc, hp, hsu⟩ := hend hd
    simp [hd, ht, hpc, hp, hsu, Spec.tailFuture, Spec.planFrom]
  · simp only [hd, Bool.false_eq_true, if_false]
    cases ht : e.tce with
    | none => simp [Spec.commitFuture]
    | some t => simp only []; rw [description_drop t (htce t ht)]

-- ---------------------------------------------------------------------------------------------
-- the first line is the pending operation

/-- the first thing that remains to be executed is the operation the next step performs.
    `hdec`: an instruction that does not decode is only met in the last script of a session (`reach_facts`) -/
theorem remaining_head (r : Bytes) (e : IEnv)
    (hdec : e.tce = none → e.pc ≠ [] → Spec.decodeOne e.pc = none → Spec.tailFuture r e = []) :
    (Spec.remaining r e).head? = Spec.pending e := by
  unfold Spec.remaining Spec.pending
  by_cases hd : e.done = true
  · simp [hd]
  · simp only [hd, Bool.false_eq_true, if_false]
    cases htce : e.tce with
    | some t =>
      simp only [Spec.commitFuture]
      by_cases hlt : t.i < t.pathLen
      · rw [commitmentPlan_lt _ _ _ _ hlt]; simp [hlt]
      · rw [commitmentPlan_ge _ _ _ _ hlt]; simp [hlt]
    | none =>
      simp only [Spec.commitFuture, List.nil_append]
      cases hpc : e.pc with
      | nil =>
        simp only [List.length_nil, Spec.planFrom, List.nil_append, List.isEmpty_nil, Bool.not_true, Bool.false_eq_true, if_false]
        unfold Spec.tailFuture
        by_cases hp : e.isP2sh = true
        · simp [hp]
        · by_cases hsu : e.successor.isEmpty = true
          · simp [hp, hsu]
          · simp [hp, hsu]
      | cons b rest =>
        simp only [List.length_cons, Spec.planFrom, List.isEmpty_cons, Bool.not_false, if_true]
        cases hdo : Spec.decodeOne (b :: rest) with
        | none =>
          have := hdec htce (by simp [hpc]) (by rw [hpc]; exact hdo)
          simp [this]
        | some q => obtain ⟨i, after⟩ := q; simp

-- ---------------------------------------------------------------------------------------------
-- every state of every session

/-- what holds at every point of every session: after any history of `step` and `rewind` commands as the debugger
    performs them (refused commands and failed steps included) -/
structure Facts (e0 e : IEnv) : Prop where
  endOk : EndOk e
  j : J e0.successor e
  k : K e0.see.script e
  pos : ∃ n, advanceOps n e.see.script = some e.pc
  tceOk : TceOk e

theorem tceOk_step (cx : Ctx) (tc : TapCtx) (ep e : IEnv) (h : TceOk ep) (hs : stepSession cx tc ep = .ok e) : TceOk e := by
  intro t ht
  have key : e.tce = none ∨ ∃ t0 t', ep.tce = some t0 ∧ e.tce = some t' ∧ t0.i < t0.pathLen ∧ t'.pathLen = t0.pathLen ∧ t'.i = t0.i + 1 := by
    cases stepSession_cases cx tc ep e hs with
    | merkle t0 t' h0 hlt _ _ hm hi hv =>
      simp only [view, Prod.mk.injEq] at hv
      exact Or.inr ⟨t0, t', h0, hv.2.2.2.1, hlt, hm, hi⟩
    | tweak t0 _ _ hv => simp only [view, Prod.mk.injEq] at hv; exact Or.inl hv.2.2.2.1
    | op g see' _ _ _ _ hv => simp only [view, Prod.mk.injEq] at hv; exact Or.inl hv.2.2.2.1
    | p2sh redeem _ _ _ _ _ hv => simp only [view, Prod.mk.injEq] at hv; exact Or.inl hv.2.2.2.1
    | succ _ _ _ _ hv => simp only [view, Prod.mk.injEq] at hv; exact Or.inl hv.2.2.2.1
    | finish _ _ _ _ hv => simp only [view, Prod.mk.injEq] at hv; exact Or.inl hv.2.2.2.1
  rcases key with hn | ⟨t0, t', _, h2, h3, h4, h5⟩
  · rw [hn] at ht; cases ht
  · rw [h2] at ht; cases ht; omega

theorem reach_facts (cx : Ctx) (tc : TapCtx) (e0 : IEnv) (hf : Fresh e0) (htap : TceOk e0) (cmds : List C04.Cmd) :
    Facts e0 (runCmds cx tc cmds e0) := by
  obtain ⟨cs, n, hc⟩ := reach_hist cx tc e0 _ (run_reach cx tc e0 cmds e0 .init)
  obtain ⟨hi0, hs0⟩ := fresh_inv e0 hf
  obtain ⟨_, hadv⟩ := C04.C04_rewind_exact cx tc e0 hi0 hs0 cs _ n hc
  have hinv := inv_advance cx tc (lastPayload e0.see.script) e0 hf (predOk_holds cx tc e0 hf) _ _ hadv
  have hj := j_advance cx tc e0 hf _ _ hadv
  have hk : K e0.see.script (runCmds cx tc cmds e0) :=
    advance_induction cx tc e0 (K e0.see.script) (fun h => ⟨rfl, (hf.succ0 h).2.2.2.2⟩)
      (fun j ep e hj' _ hp hs => k_step cx tc _ _ ep e hp (j_advance cx tc e0 hf j ep hj') hs) _ _ hadv
  have htc : TceOk (runCmds cx tc cmds e0) :=
    advance_induction cx tc e0 TceOk htap (fun j ep e _ _ hp hs => tceOk_step cx tc ep e hp hs) _ _ hadv
  obtain ⟨pre, k, _, _, hpos, _, hdone⟩ := hinv
  exact ⟨hdone, hj, hk, ⟨k, hpos⟩, htc⟩

theorem undecodable_last {e0 e : IEnv} (hfa : Facts e0 e) (hne : e.pc ≠ []) (hg : getOp e.pc = none) :
    e.isP2sh = false ∧ e.successor = [] := by
  obtain ⟨n, hn⟩ := hfa.pos
  have hnd : ¬ Decodable e.see.script := by
    intro hd
    have := hd n e.pc hn hne
    rw [hg] at this; cases this
  constructor
  · cases hp : e.isP2sh with
    | false => rfl
    | true => exact absurd (p2shPattern_decodable _ _ (hfa.j.1 hp)) hnd
  · cases hsu : e.successor with
    | nil => rfl
    | cons a b => exact absurd (hfa.j.2.1 (by simp [hsu])).1 hnd

/-- `C12_dual_not_stale`: the undefined behaviour of svprintscripts is not reachable in a session -/
theorem C12_dual_not_stale (cx : Ctx) (tc : TapCtx) (e0 : IEnv) (hf : Fresh e0) (htap : TceOk e0) (cmds : List C04.Cmd) :
    Defined (runCmds cx tc cmds e0) ∧ dualStale (runCmds cx tc cmds e0) = false := by
  have hfa := reach_facts cx tc e0 hf htap cmds
  generalize runCmds cx tc cmds e0 = e at hfa
  have hdef : Defined e := by
    unfold Defined
    by_cases hpc : e.pc = []
    · left; simp [startedAt, hpc, endPos_none (it := []) rfl, failPos]
    · cases hg : getOp e.pc with
      | some g => left; simp [startedAt, decodeFrom_some hg]
      | none =>
        right
        obtain ⟨hp, hsu⟩ := undecodable_last hfa hpc hg
        simp [dualScripts, hsu, viaStack, viaSucc, hp]
  exact ⟨hdef, (dualLeft_closed e hdef).2⟩

/-- the hypotheses of the one-state theorems at a point of a session -/
theorem session_hyps (cx : Ctx) (tc : TapCtx) (e0 : IEnv) (hf : Fresh e0) (htap : TceOk e0) (cmds : List C04.Cmd)
    (hstack : (runCmds cx tc cmds e0).isP2sh = true → (runCmds cx tc cmds e0).p2shStack ≠ []) :
    (fun e => Defined e ∧ EndOk e ∧ TceOk e ∧ (e.isP2sh = true → e.p2shStack ≠ [] ∧ e.successor = []) ∧
      (e.successor ≠ [] → p2shPattern e.see.flags e.successor = true → lastPayload e.see.script = lastPayload e0.see.script) ∧
      (e.tce = none → e.pc ≠ [] → Spec.decodeOne e.pc = none → Spec.tailFuture (lastPayload e0.see.script) e = []))
      (runCmds cx tc cmds e0) := by
  have hfa := reach_facts cx tc e0 hf htap cmds
  have hdef := (C12_dual_not_stale cx tc e0 hf htap cmds).1
  generalize runCmds cx tc cmds e0 = e at hfa hdef hstack
  refine ⟨hdef, hfa.endOk, hfa.tceOk, ?_, ?_, ?_⟩
  · intro hp
    refine ⟨hstack hp, ?_⟩
    cases hsu : e.successor with
    | nil => rfl
    | cons a b =>
      have := (hfa.j.2.1 (by simp [hsu])).2
      rw [hp] at this; cases this
  · intro hne _
    rw [(hfa.k hne).1]
  · intro _ hne hdo
    have hgo : getOp e.pc = none := by
      have := Refine.getOp_decodeOne e.pc
      rw [hdo] at this
      cases hg : getOp e.pc with
      | none => rfl
      | some g => rw [hg] at this; cases this
    obtain ⟨h1, h2⟩ := undecodable_last hfa hne hgo
    simp [Spec.tailFuture, h1, h2]

/-- (a) EVERY STATE OF EVERY SESSION.  For every fresh session (`htap`: a commitment environment as its constructor leaves
    it) and every history of `step` / `rewind` commands as the debugger performs them (failed steps and refused commands
    included): the display is well defined, the operations listed in the left column are, in order, EXACTLY what remains to
    be executed — commitment steps still to be taken, the current script from the current position, the scriptPubKey and
    redeem script sections —, and the first thing that remains is the operation the next step performs.
    `hstack`: a P2SH hand-over is pending only with a saved stack that is not empty (otherwise it cannot be performed and
    no section is listed for it).  The redeem script meant for a P2SH scriptPubKey is the item that will be on top of the
    stack when the scriptPubKey is entered: `C12.predOk_holds`. -/
theorem C12_dual_left_session (cx : Ctx) (tc : TapCtx) (e0 : IEnv) (hf : Fresh e0) (htap : TceOk e0) (cmds : List C04.Cmd)
    (hstack : (runCmds cx tc cmds e0).isP2sh = true → (runCmds cx tc cmds e0).p2shStack ≠ []) :
    dualStale (runCmds cx tc cmds e0) = false ∧
    (leftOps (runCmds cx tc cmds e0)).map Line.plan = Spec.remaining (lastPayload e0.see.script) (runCmds cx tc cmds e0) ∧
    (Spec.remaining (lastPayload e0.see.script) (runCmds cx tc cmds e0)).head? = Spec.pending (runCmds cx tc cmds e0) := by
  obtain ⟨hdef, hend, htc, h1, h2, hdec⟩ := session_hyps cx tc e0 hf htap cmds hstack
  exact ⟨(C12_dual_not_stale cx tc e0 hf htap cmds).2, C12_dual_left _ _ hdef hend htc h1 h2, remaining_head _ _ hdec⟩

/-- (a) in the form of the property: at every point of every session the FIRST operation listed in the left column is the
    operation the next step performs, and nothing is listed when nothing is pending -/
theorem C12_dual_first_is_pending (cx : Ctx) (tc : TapCtx) (e0 : IEnv) (hf : Fresh e0) (htap : TceOk e0) (cmds : List C04.Cmd)
    (hstack : (runCmds cx tc cmds e0).isP2sh = true → (runCmds cx tc cmds e0).p2shStack ≠ []) :
    ((leftOps (runCmds cx tc cmds e0)).head?).map Line.plan = Spec.pending (runCmds cx tc cmds e0) := by
  obtain ⟨_, h2, h3⟩ := C12_dual_left_session cx tc e0 hf htap cmds hstack
  rw [← h3, ← h2, List.head?_map]

/-- THE FIRST LINE IS THE INSTRUCTION THE NEXT STEP EXECUTES (any state, no hypothesis on how it was reached): outside
    the commitment phase, when a `step` executes an instruction, the first line of the left column is that instruction —
    the one `stepSession` decodes at the position and consumes (the new position is directly behind it), shown by its name
    or by the bytes it pushes -/
theorem C12_dual_first_is_next_op (cx : Ctx) (tc : TapCtx) (e e' : IEnv) (htce : e.tce = none) (hne : e.pc ≠ [])
    (hs : stepSession cx tc e = .ok e') :
    ∃ i after, Spec.decodeOne e.pc = some (i, after) ∧ e'.pc = after ∧
      (dualLeft e).head?.map (fun l => (l.kind, l.text)) = some (LineKind.op, Spec.instrText i) := by
  cases stepSession_cases cx tc e e' hs with
  | merkle t t' htce' _ _ _ _ _ _ => rw [htce] at htce'; cases htce'
  | tweak t htce' _ _ => rw [htce] at htce'; cases htce'
  | op g see' _ _ hg hst hv =>
    simp only [view, Prod.mk.injEq] at hv
    obtain ⟨_, _, hpc, _⟩ := hv
    have hdo := Refine.getOp_decodeOne e.pc
    rw [hg] at hdo; simp only [Option.map_some] at hdo
    have hdef : Defined e := Or.inl (by simp [startedAt, decodeFrom_some hg])
    refine ⟨⟨g.opcode, g.data⟩, g.rest, hdo.symm, hpc, ?_⟩
    rw [(dualLeft_closed e hdef).1, htce]
    simp [tceLines, opLinesFrom_some hg, opText_instrText]
  | p2sh redeem _ hpc0 _ _ _ _ => exact absurd hpc0 hne
  | succ _ hpc0 _ _ _ => exact absurd hpc0 hne
  | finish _ hpc0 _ _ _ => exact absurd hpc0 hne

/-- (b) NOTHING PENDING AT THE END: in the ended state of every session the left column is empty (every row of the
    display consists of a blank left cell beside the final stack) -/
theorem C12_dual_nothing_pending_at_end (cx : Ctx) (tc : TapCtx) (e0 : IEnv) (hf : Fresh e0) (htap : TceOk e0) (cmds : List C04.Cmd)
    (hd : (runCmds cx tc cmds e0).done = true) :
    dualLeft (runCmds cx tc cmds e0) = [] := by
  have hfa := reach_facts cx tc e0 hf htap cmds
  generalize runCmds cx tc cmds e0 = e at hfa hd
  obtain ⟨ht, hpc, hp, hsu⟩ := hfa.endOk hd
  have htail : (dualScripts e).tail = [] := by simp [dualScripts, hsu, viaStack, viaSucc, hp]
  rw [(dualLeft_closed e (Or.inr htail)).1, ht, hpc]
  simp [dualTail, htail, tceLines, opLinesFrom_none (it := []) rfl]

-- ---------------------------------------------------------------------------------------------
-- (c), (d): the right column and the layout.  For EVERY session state `e` and EVERY widths `st` inherited from the
-- displays printed before (no hypothesis on how either was reached).

/-- the widths as they are from process start on: never below 7 -/
def WidthsOk (st : DualState) : Prop := 7 ≤ st.glmax ∧ 7 ≤ st.grmax

theorem widthsOk_init : WidthsOk {} := ⟨Nat.le_refl _, Nat.le_refl _⟩

/-- (d) the widths only grow (and stay at least 7) -/
theorem C12_dual_widths_monotone (st : DualState) (e : IEnv) :
    st.glmax ≤ (printDualstack st e).2.glmax ∧ st.grmax ≤ (printDualstack st e).2.grmax ∧
    (WidthsOk st → WidthsOk (printDualstack st e).2) := by
  simp only [printDualstack, dualLayout, dualWidths, WidthsOk]
  refine ⟨by split <;> omega, by split <;> omega, fun h => ⟨by split <;> omega, by split <;> omega⟩⟩

/-- (d) … along a whole session: every command leaves the widths at least as large as it found them -/
theorem C12_dual_session_widths (cx : Ctx) (tc : TapCtx) (st : DualState) (e : IEnv) (c : DualCmd) :
    st.glmax ≤ (dualCmd cx tc st e c).2.2.glmax ∧ st.grmax ≤ (dualCmd cx tc st e c).2.2.grmax ∧
    (WidthsOk st → WidthsOk (dualCmd cx tc st e c).2.2) := by
  cases c with
  | step =>
    simp only [dualCmd]
    split
    · exact C12_dual_widths_monotone st _
    · exact ⟨Nat.le_refl _, Nat.le_refl _, id⟩
  | rewind =>
    simp only [dualCmd]
    split
    · exact C12_dual_widths_monotone st _
    · exact ⟨Nat.le_refl _, Nat.le_refl _, id⟩
  | «show» => exact C12_dual_widths_monotone st _

/-- the column widths of one display -/
def lcapOf (st : DualState) (e : IEnv) : Nat := capOf (printDualstack st e).2.glmax
def rcapOf (st : DualState) (e : IEnv) : Nat := capOf (printDualstack st e).2.grmax

theorem caps_bounds (st : DualState) (hw : WidthsOk st) (e : IEnv) :
    7 ≤ lcapOf st e ∧ lcapOf st e ≤ 66 ∧ 7 ≤ rcapOf st e ∧ rcapOf st e ≤ 66 := by
  obtain ⟨h1, h2⟩ := (C12_dual_widths_monotone st e).2.2 hw
  exact ⟨capOf_ge h1 (by omega), capOf_le66 _, capOf_ge h2 (by omega), capOf_le66 _⟩

/-- the display = two title rows, then the rows -/
theorem printDualstack_eq (st : DualState) (e : IEnv) :
    (printDualstack st e).1 =
      dualTitle (lcapOf st e) (rcapOf st e) ++
      dualRows (lcapOf st e) (rcapOf st e) ((dualLeft e).map Line.shown) (dualRight e) := rfl

/-- (d) ONE COLUMN OFFSET PER DISPLAY: every row of a display — the title row included — is a left cell of exactly
    `lcap + 1` characters, the separator `| `, and a right cell that is empty or has exactly `rcap` characters; the rule
    under the title has its `+` at the same offset -/
theorem C12_dual_rows (st : DualState) (hw : WidthsOk st) (e : IEnv) :
    (∀ row ∈ dualRows (lcapOf st e) (rcapOf st e) ((dualLeft e).map Line.shown) (dualRight e),
        RowShape (lcapOf st e) (rcapOf st e) row) ∧
    (∃ t1 t2, dualTitle (lcapOf st e) (rcapOf st e) = [t1, t2] ∧ RowShape (lcapOf st e) (rcapOf st e) t1 ∧
       t2 = List.replicate (lcapOf st e + 1) '-' ++ ['+', '-'] ++ List.replicate (rcapOf st e) '-') := by
  obtain ⟨h1, _, h3, _⟩ := caps_bounds st hw e
  refine ⟨dualRows_shape _ _ (by omega) (by omega) _ _, _, _, rfl, ?_, ?_⟩
  · refine ⟨_, _, rfl, padRight_length (by simp only [List.length_cons, List.length_nil]; omega),
      Or.inr (padLeft_length (by simp only [List.length_cons, List.length_nil]; omega))⟩
  · have : List.replicate (lcapOf st e + 1) '-' = List.replicate (lcapOf st e) '-' ++ ['-'] := by
      rw [List.replicate_succ']
    rw [this]; simp

/-- (d) row `i` shows entry `i` of the left column beside entry `i` of the right column (a column that has run out
    is blank) -/
theorem C12_dual_row_content (st : DualState) (e : IEnv) (i : Nat)
    (h : i < max (dualLeft e).length (dualRight e).length) :
    (dualRows (lcapOf st e) (rcapOf st e) ((dualLeft e).map Line.shown) (dualRight e))[i]? =
      some (dualRow (lcapOf st e) (rcapOf st e) ((dualLeft e)[i]?.map Line.shown) (dualRight e)[i]?) := by
  rw [dualRows_get _ _ _ _ i (by simpa using h), List.getElem?_map]

/-- (c) WHAT A CELL SHOWS: every text of the left column and every text of the right column is shown in full when it has
    at most 66 characters, otherwise as its first 63 characters followed by `...` — whatever the widths inherited from
    earlier displays; the cut at 1023 characters made by the `buf[1024]` of svprintscripts never shows -/
theorem C12_dual_cells (st : DualState) (e : IEnv) :
    (∀ l ∈ dualLeft e, fit (lcapOf st e) l.shown = Spec.abbreviated Spec.columnCap l.text.toList) ∧
    (∀ s ∈ dualRight e, fit (rcapOf st e) s = Spec.abbreviated Spec.columnCap s) := by
  constructor
  · intro l hl
    apply fit_shown
    have h1 := dualSv_ok e l hl
    have h2 : (dualSv e).lmax ≤ (printDualstack st e).2.glmax := by
      simp only [printDualstack, dualLayout, dualWidths]; split <;> omega
    omega
  · intro s hs
    apply fit_abbrev
    have h1 := maxLen_ge _ s hs
    have h2 : maxLen (dualRight e) ≤ (printDualstack st e).2.grmax := by
      simp only [printDualstack, dualLayout, dualWidths]; split <;> omega
    omega

/-- (c) THE RIGHT COLUMN IS THE STACK, TOP FIRST: outside the commitment phase its entries are the stack items from the
    top down, each in hex, the empty item as `0x` -/
theorem C12_dual_right_stack (e : IEnv) (h : e.tce = none) :
    dualRight e = (Spec.stackColumn e.see.stack).map String.toList := by
  simp only [dualRight, h, Spec.stackColumn, List.map_map]
  apply List.map_congr_left
  intro it _
  simp only [stackCell, Spec.itemText, Function.comp]
  split
  · rfl
  · simp [toHex]

/-- (c) spelled out for one row: outside the commitment phase row `i` of a display (below the title) ends in item `i`
    of the stack counted from the top, right-aligned to the column width, abbreviated if longer than 66 characters -/
theorem C12_dual_right_row (st : DualState) (e : IEnv) (h : e.tce = none) (i : Nat) (it : Bytes)
    (hit : e.see.stack.reverse[i]? = some it) :
    ∃ lc, (dualRows (lcapOf st e) (rcapOf st e) ((dualLeft e).map Line.shown) (dualRight e))[i]? =
      some (lc ++ ['|', ' '] ++ padLeft (rcapOf st e) (Spec.abbreviated Spec.columnCap (Spec.itemText it).toList)) := by
  have hr := C12_dual_right_stack e h
  have hget : (dualRight e)[i]? = some (Spec.itemText it).toList := by
    rw [hr]; simp only [Spec.stackColumn, List.getElem?_map, hit, Option.map_some]
  have hmem : (Spec.itemText it).toList ∈ dualRight e := List.mem_of_getElem? hget
  have hlt : i < (dualRight e).length := by
    cases hx : (dualRight e)[i]? with
    | none => rw [hx] at hget; cases hget
    | some v => exact (List.getElem?_eq_some_iff.mp hx).1
  rw [C12_dual_row_content st e i (by omega), hget]
  refine ⟨padRight (lcapOf st e + 1) (match (dualLeft e)[i]?.map Line.shown with | some s => fit (lcapOf st e) s | none => []), ?_⟩
  simp only [dualRow]
  rw [(C12_dual_cells st e).2 _ hmem]
  rfl

-- ---------------------------------------------------------------------------------------------
-- non-vacuity: concrete sessions (the toy hash functions of `C12.exCx` / `C12.exTc`)

/-- everything a session displays, from the start-up display on (`none`: the command displayed nothing) -/
def exShow (e0 : Except ScriptError IEnv) (cmds : List DualCmd) : Option (List (Option (List (List Char)))) :=
  match e0 with
  | .ok e => some (dualSession exCx exTc (.show :: cmds) {} e)
  | .error _ => none

def exText (l : List (Option (List String))) : Option (List (Option (List (List Char)))) :=
  some (l.map (fun o => o.map (fun rows => rows.map String.toList)))

/-- `OP_0 OP_VERIFY OP_5`: the empty item is shown as `0x`; the failing second step displays nothing and leaves the
    widths alone; after the rewind the first line is again the first instruction -/
example : exShow exFail [.step, .step, .rewind] = exText
    [some ["script    |  stack ", "----------+--------", "0         | ", "OP_VERIFY | ", "5         | "],
     some ["script    |  stack ", "----------+--------", "OP_VERIFY |      0x", "5         | "],
     none,
     some ["script    |  stack ", "----------+--------", "0         | ", "OP_VERIFY | ", "5         | "]] := by decide +kernel

/-- taproot script path with two path nodes, script `OP_1 OP_2`: the commitment section lists the steps STILL TO BE TAKEN
    (`i:` counts the ones taken), texts longer than 66 characters are cut to 63 and `...`, and the widths reached during
    the commitment phase stay for the rest of the process -/
example : exShow exTap [.step, .step, .step, .step] = exText
    [some ["script                                                             |      stack ",
           "-------------------------------------------------------------------+------------",
           "<<< taproot commitment >>>                                         |        i: 0",
           "Branch: 2222222222222222222222222222222222222222222222222222222... | k: c0025152",
           "Branch: 3333333333333333333333333333333333333333333333333333333... | ",
           "CheckTapTweak: 111111111111111111111111111111111111111111111111... | ",
           "<<< committed script >>>                                           | ",
           "1                                                                  | ",
           "2                                                                  | "],
     some ["script                                                             |                                                             stack ",
           "-------------------------------------------------------------------+-------------------------------------------------------------------",
           "<<< taproot commitment >>>                                         |                                                               i: 1",
           "Branch: 3333333333333333333333333333333333333333333333333333333... | k: 222222222222222222222222222222222222222222222222222222222222...",
           "CheckTapTweak: 111111111111111111111111111111111111111111111111... | ",
           "<<< committed script >>>                                           | ",
           "1                                                                  | ",
           "2                                                                  | "],
     some ["script                                                             |                                                             stack ",
           "-------------------------------------------------------------------+-------------------------------------------------------------------",
           "<<< taproot commitment >>>                                         |                                                               i: 2",
           "CheckTapTweak: 111111111111111111111111111111111111111111111111... | k: 222222222222222222222222222222222222222222222222222222222222...",
           "<<< committed script >>>                                           | ",
           "1                                                                  | ",
           "2                                                                  | "],
     some ["script                                                             |                                                             stack ",
           "-------------------------------------------------------------------+-------------------------------------------------------------------",
           "1                                                                  | ",
           "2                                                                  | "],
     some ["script                                                             |                                                             stack ",
           "-------------------------------------------------------------------+-------------------------------------------------------------------",
           "2                                                                  |                                                                 01"]] := by
  decide +kernel

/-- the conclusion of `C12_dual_left_session` and the hypothesis `hstack`, checked by evaluation at one point of a session -/
def exAgree (e0 : Except ScriptError IEnv) (cmds : List C04.Cmd) : Bool :=
  match e0 with
  | .ok e0 =>
    let e := runCmds exCx exTc cmds e0
    !dualStale e && decide ((leftOps e).map Line.plan = Spec.remaining (lastPayload e0.see.script) e) &&
      decide ((Spec.remaining (lastPayload e0.see.script) e).head? = Spec.pending e) && (!e.isP2sh || !e.p2shStack.isEmpty)
  | .error _ => false

/-- P2SH spend (`C12.exP2sh`): at the start, inside the scriptSig, at both hand-overs, inside the redeem script and at the
    end — with rewinds — the left column is what remains to be executed; at the start it has 27 lines, at the end none -/
example : ([[], [.step], [.step, .step], [.step, .step, .step, .step, .step], [.step, .step, .step, .step, .step, .step],
            [.step, .step, .step, .rewind, .step, .step, .step, .step, .rewind]].map (exAgree exP2sh)).all id = true := by
  decide +kernel

example : (match exP2sh with | .ok e0 => (dualLeft e0).length | .error _ => 0) = 27 := by decide +kernel

/-- … and along the taproot session, commitment phase included -/
example : ((List.range 7).map (fun k => exAgree exTap (List.replicate k .step))).all id = true := by decide +kernel

/-- the ended state: nothing is listed, the rows show the final stack only -/
example : (match exTap with
    | .ok e0 => let e := runCmds exCx exTc (List.replicate 6 .step) e0; (e.done, dualLeft e, dualRight e)
    | .error _ => (false, [], [])) = (true, [], [['0', '2'], ['0', '1']]) := by decide +kernel

/-- the scriptSig of a P2SH spend ends in `OP_1NEGATE` (redeem script `0x81` = `OP_RIGHT`): the section announced for the
    redeem script lists `OP_RIGHT` from the start (the case the display got wrong before 9bb9088) -/
def exNeg : Except ScriptError IEnv :=
  setupEnvironment [] [0x51, 0x4f] 1 .BASE ([0xa9, 0x14] ++ (0x81 :: List.replicate 19 0) ++ [0x87]) false {} none [] []
example : (match exNeg with | .ok e0 => (dualLeft e0).map (·.text) | .error _ => []) =
    ["1", "-1", "<<< scriptPubKey >>>", "OP_HASH160", "8100000000000000000000000000000000000000", "OP_EQUAL",
     "<<< P2SH script >>>", "OP_RIGHT"] := by decide +kernel
example : ([[], [.step], [.step, .step], [.step, .step, .step]].map (exAgree exNeg)).all id = true := by decide +kernel

/-- a push of 40 bytes: 80 hex characters are shown as 63 and `...` in a column of 66, in the script and — after the step —
    on the stack -/
def exLong : Except ScriptError IEnv :=
  setupEnvironment [] (0x28 :: List.replicate 40 0xab ++ [0x51]) 0 .BASE [] false {} none [] []
example : exShow exLong [.step] = exText
    [some ["script                                                             |  stack ",
           "-------------------------------------------------------------------+--------",
           "abababababababababababababababababababababababababababababababa... | ",
           "1                                                                  | "],
     some ["script                                                             |                                                             stack ",
           "-------------------------------------------------------------------+-------------------------------------------------------------------",
           "1                                                                  | abababababababababababababababababababababababababababababababa..."]] := by
  decide +kernel

end Btcdeb.Proofs.C12Dual
