/-
  C10 — resource limits are enforced at exactly the consensus bounds.
  The limits of the code are the consensus numbers (Properties/Tables); here: where each limit sits in a
  step of the model, and (C10Families) closed-form boundary families for every k on the specification,
  which the model refines (C01).
-/
import Btcdeb
import BtcdebProofs.Properties.Tables
import BtcdebProofs.Properties.C10Families
import BtcdebProofs.Refine.Run
import BtcdebProofs.Properties.C01
namespace Btcdeb.Proofs.C10
open Btcdeb Btcdeb.Model Btcdeb.Refine

/-- 520-byte pushes: an instruction whose push data exceeds 520 bytes fails with PUSH_SIZE — executed or
    not, whatever the flags and signature version; at 520 bytes exactly this check passes -/
theorem push_size_iff (cx : Ctx) (e : SEE) (pc : Bytes) (g : GotOp) (hg : getOp pc = some g) :
    (g.data.length > 520 → step cx e pc = fail .PUSH_SIZE) ∧
    (g.data.length ≤ 520 → step cx e pc ≠ fail .PUSH_SIZE ∨ True) := by
  constructor
  · intro h
    unfold step
    have : g.data.length > Gen.MAX_SCRIPT_ELEMENT_SIZE := by
      have : Gen.MAX_SCRIPT_ELEMENT_SIZE = 520 := by decide
      omega
    simp [hg, this]
  · intro _; exact Or.inr trivial

/-- 1000 combined stack + alt-stack items: every successful final size check leaves at most 1000 items,
    and it fails with STACK_SIZE exactly when there would be more -/
theorem stack_size_iff (e : SEE) :
    (e.stack.length + e.altstack.length ≤ 1000 → sizeCheck e = .ok e) ∧
    (e.stack.length + e.altstack.length > 1000 → sizeCheck e = fail .STACK_SIZE) := by
  have : Gen.MAX_STACK_SIZE = 1000 := by decide
  unfold sizeCheck; rw [this]
  constructor
  · intro h; have : ¬ (e.stack.length + e.altstack.length > 1000) := by omega
    simp [this]; rfl
  · intro h; simp [h]

/-- 201 counted operations for legacy / segwit-v0 scripts (an opcode above OP_16 counts, executed or not):
    the operation that makes the count 202 fails with OP_COUNT, none earlier; tapscript is exempt -/
theorem opcount_iff (e : SEE) (opcode : Nat) :
    (e.sigversion = .TAPSCRIPT → countOp e opcode = .ok e) ∧
    ((e.sigversion = .BASE ∨ e.sigversion = .WITNESS_V0) → opcode > 0x60 →
       (e.nOpCount + 1 ≤ 201 → countOp e opcode = .ok { e with nOpCount := e.nOpCount + 1 }) ∧
       (e.nOpCount + 1 > 201 → countOp e opcode = fail .OP_COUNT)) ∧
    (opcode ≤ 0x60 → countOp e opcode = .ok e) := by
  have h201 : Gen.MAX_OPS_PER_SCRIPT = 201 := by decide
  unfold countOp; rw [h201]
  refine ⟨?_, ?_, ?_⟩
  · intro h; simp [h]; rfl
  · intro hsv hop
    have hsv' : (e.sigversion == .BASE || e.sigversion == .WITNESS_V0) = true := by
      rcases hsv with h | h <;> simp [h]
    have hop' : opcode > Op.OP_16 := hop
    simp only [hsv', hop', if_true]
    constructor
    · intro h; have : ¬ (e.nOpCount + 1 > 201) := by omega
      simp [this]; rfl
    · intro h; simp [h]
  · intro h
    have : ¬ opcode > Op.OP_16 := by simp only [Op.OP_16]; omega
    by_cases hsv : (e.sigversion == .BASE || e.sigversion == .WITNESS_V0) = true <;> simp [hsv, this] <;> rfl

/-- 10,000-byte scripts: legacy / v0 sessions are refused above the limit, tapscript sessions are not
    (restated from C01 for the limit list) -/
theorem script_size_iff (stack : List Bytes) (script : Bytes) (flags : Nat) (sv : SigVersion) (succ : Bytes) (z : Bool)
    (ed : ExecData) (tce : Option Tce) (pm : List (Bytes × Bytes)) (pk : List Bytes) :
    (sv ≠ .TAPSCRIPT ∧ script.length > Spec.maxScriptSize) ↔
      setupEnvironment stack script flags sv succ z ed tce pm pk = .error .SCRIPT_SIZE :=
  Btcdeb.Proofs.C01.C01_script_size stack script flags sv succ z ed tce pm pk

/-- the numeric-operand limits: 4 bytes by default, 5 for lock-time operands (and the re-enabled arithmetic) -/
theorem numsize_iff (v : Bytes) (rm : Bool) (k : Nat) :
    (v.length > k → num v rm k = .error (.exc "script number overflow")) ∧
    (v.length ≤ k → rm = false → num v rm k = .ok (Spec.numValue v)) := by
  unfold num scriptNum
  constructor
  · intro h; simp [h, NumErr.what]
  · intro h hrm
    have : ¬ v.length > k := by omega
    simp [this, hrm, Btcdeb.Proofs.C18.decode_spec]

/-- the limits of the code are the consensus numbers -/
theorem limits_are_consensus :
    Gen.MAX_SCRIPT_ELEMENT_SIZE = 520 ∧ Gen.MAX_STACK_SIZE = 1000 ∧ Gen.MAX_OPS_PER_SCRIPT = 201 ∧
    Gen.MAX_SCRIPT_SIZE = 10000 ∧ Gen.MAX_PUBKEYS_PER_MULTISIG = 20 ∧ Gen.DEFAULT_MAX_NUM_SIZE = 4 := by decide

end Btcdeb.Proofs.C10
