import Btcdeb
namespace Btcdeb.Proofs.C10
end Btcdeb.Proofs.C10
