/-
  C03 — a `--tx`/`--txin` session reproduces consensus validation of that input.

  Model: `parseInputTransaction`, `configureTxTxin` (Model/Spend.lean), `setupEnvironment`, `stepSession`,
  `continueScript` (Model/Session.lean), verdict `sessionValid` (Model/Verdict.lean).
  Specification: `Spec.verifyScript` (Spec/Verify.lean), `Spec.spendingInput` (Spec/TxOracle.lean).
  HYPOTHESIS of every theorem: the session's signature checker and hash functions agree with the specification's
  oracle (`CheckerAgrees`, i.e. the refinement relation `CfgRel` for the script environments of the session; proved
  elsewhere for the transaction checker against `Spec.txOracle`), and `C05.Agree` for the taproot commitment functions.

  Contents
    §1  (a) legacy outputs: `C03_legacy`, `C03_legacy_iff`, refusals `C03_legacy_refused_configure/_setup`
    §2  sessions on one script (`single_script_session`): the phase lemma (Lemmas/Phases.lean) + final-stack checks
    §4  (c) P2WSH `C03_p2wsh`          §5  (c) P2WPKH `C03_p2wpkh`
    §6  (f) tapscript `C03_tapscript`   §7  (b) P2SH `C03_p2sh`
    §8  (e) taproot key path `C03_keypath`
    §9  (d) P2SH-wrapped P2WSH / P2WPKH `C03_p2sh_p2wsh`, `C03_p2sh_p2wpkh`
    §10 input selection `C03_select`, `C03_select_refused`, `C03_select_sound`
    §10b `C03_shape_complete`: every accepted spend is one of the cases; §10c `C03_witness_not_p2sh`
    §11 all cases together: `Shape`, `C03_verdict`
    §12 examples (the hypotheses are satisfiable; concrete valid and invalid spends)
  The tx-level theorems have the form `Agrees …`: a refusal (`configure_tx_txin` / `setup_environment` return false)
  only for an input validation rejects; otherwise `sessionValid … (continueScript … n e0) = true ↔ verifyScript … = .ok ()`
  for every fuel `n ≥ continueFuel e0` (`sessionFuel e0 = continueFuel e0 + 519` for P2SH, whose redeem script is
  not known at the start).

  Regions excluded by hypothesis, each a recorded finding (KNOWN_FINDINGS.txt):
    * `hnw` in (a)/(b) (`witnessProgram spk = none ∨ ¬WITNESS`, redeem script not a witness program) ↔ F-C03-empty-witness:
      a witness program spent with an EMPTY witness is run as a legacy script.
    * `NoUndefinedOpcode` (scriptSig / witness script / tapscript leaf) ↔ F-C03-undefined-opcode-refused: an undefined opcode
      (0xbb..0xff, in tapscript 0xff) in a branch that is NOT executed is refused by `HasValidOps`; validation accepts it.
      scriptSig 0063bb6851, scriptPubKey 5187, no witness, standard flags: REFUSED:configure vs VALID.
    * `spk ≠ []` in (a) ↔ F-C03-empty-scriptpubkey: with an empty scriptPubKey the scriptSig is not recognised as one and
      SIGPUSHONLY is not applied.  scriptSig 5161, scriptPubKey empty, flags STANDARD|SIGPUSHONLY: VALID vs SIG_PUSHONLY.
    * flags `hP` / `hW` / `hT` in (b)–(f) ↔ F-C03-witness-flag-off: the flags are not known to `configure_tx_txin`; with WITNESS
      (P2SH, TAPROOT) off validation ignores the witness, the debugger does not.  P2WSH output, witness script 00,
      witness [00], flags without WITNESS/CLEANSTACK/TAPROOT: INVALID vs VALID.
    * `hlv` (leaf version 0xc0) in (f), and everything outside `Shape` that `C03_shape_complete` does not exclude — a
      P2SH-wrapped `OP_1 <32 bytes>` (run as a taproot key path; BIP341 leaves it unencumbered), and what `configure_tx_txin`
      refuses: witness versions 2..16, `OP_1 <20 bytes>` — ↔ F-C03-future-witness-version.
    * `hns` (`hasOpSuccess = false`) in (f) ↔ F-C03-op-success-refused.
    * `CheckerAgrees` fails of the implementation's checker for taproot inputs of multi-input transactions
      ↔ F-C03-multi-input-taproot.
    * `hnz` (`Spec.toBool prog = true`): validation applies `CastToBool` to what the scriptPubKey / redeem script leaves, i.e.
      to the witness program itself; an all-zero program fails there and the debugger does not look.  Unreachable without a
      hash preimage / a curve point with x = 0; not a recorded finding.
  Two further disagreements found while proving were FIXED in the implementation and the model (the hypotheses that
  excluded them are gone): a scriptPubKey above 10,000 bytes was executed (now SCRIPT_SIZE at the hand-over, `end_succ_size`;
  `legacy_phases` covers it), and P2SH-wrapped detection read only the first two operations of the scriptPubKey (now
  `IsPayToScriptHash` is required: `C03_witness_not_p2sh` proves that a witness behind a scriptSig on any other output
  is refused by the debugger and rejected by validation).
  Observation for the checker agent: `CfgRel.schnorr` quantifies over every `ExecData`, while the specification's oracle
  receives annex and leaf hash as parameters (`oracleFor sv annex leaf`); for TAPROOT / TAPSCRIPT the relation can only
  hold of the real checker when restricted to execution data carrying that annex hash / leaf hash.  The theorems here
  use `CfgRel` as given; `step` never changes those fields, so a restricted variant would serve as well.
-/
import Btcdeb
import Btcdeb.Model.Verdict
import BtcdebProofs.Lemmas.Phases
import BtcdebProofs.Lemmas.SpendShapes
import BtcdebProofs.Lemmas.SpecEval
import BtcdebProofs.Properties.C05
namespace Btcdeb.Proofs.C03
open Btcdeb Btcdeb.Model Btcdeb.Refine Btcdeb.Proofs.Phases Btcdeb.Proofs.Shapes Btcdeb.Proofs.SpecCore
open Btcdeb.Proofs.SpecEval

/-! ### 0. vocabulary -/

/-- the configuration `Spec.runScript` evaluates a script under -/
def specCfg (sc : Spec.SpendCtx) (flags : Nat) (sv : SigVersion) (annex leaf : Option Bytes) : Spec.Cfg :=
  { flags := flags, sigversion := sv, oracle := sc.oracleFor sv annex leaf }

theorem runScript_eq (sc : Spec.SpendCtx) (flags : Nat) (sv : SigVersion) (annex leaf : Option Bytes) (script : Bytes)
    (st0 : Spec.St) :
    Spec.runScript sc flags sv annex leaf script st0 = (Spec.evalScript (specCfg sc flags sv annex leaf) script st0).result :=
  rfl

/-- HYPOTHESIS of the property theorems: the session's signature checker and hash functions (`cx`) agree with the
    specification's oracle for scripts run under `sv` with the given annex and leaf hash — the refinement relation
    `CfgRel` holds for every script environment of such a session (no mock signatures, no re-enabled opcodes). -/
def CheckerAgrees (cx : Ctx) (sc : Spec.SpendCtx) (flags : Nat) (sv : SigVersion) (annex leaf : Option Bytes) : Prop :=
  ∀ e : SEE, conf e = (flags, sv, hasFlag flags Flag.MINIMALDATA, false, [], []) →
    CfgRel cx e (specCfg sc flags sv annex leaf)

theorem rThrow_bind {α β} (x : ScriptError) (f : α → Spec.R β) : ((throw x : Spec.R α) >>= f) = .error x := rfl

/-- the verdict as a proposition about the specification's answer -/
def specOk (r : Spec.R Unit) : Bool :=
  match r with
  | .ok _ => true
  | .error _ => false

theorem specOk_iff (r : Spec.R Unit) : specOk r = true ↔ r = .ok () := by
  cases r with
  | error e => simp [specOk]
  | ok u => cases u; simp [specOk]

theorem setup_ok {stack : List Bytes} {script : Bytes} {flags : Nat} {sv : SigVersion} {succ : Bytes} {ed : ExecData}
    {tce : Option Tce} {e0 : IEnv}
    (h : setupEnvironment stack script flags sv succ false ed tce [] [] = .ok e0) :
    e0 = setupEnv stack script flags sv succ ed tce ∧
    (sv != .TAPSCRIPT && decide (script.length > Gen.MAX_SCRIPT_SIZE)) = false ∧
    (!succ.isEmpty && hasFlag flags Flag.SIGPUSHONLY && !isPushOnly script) = false ∧
    (sv == .TAPSCRIPT && scanOpSuccess false script) = false := by
  rw [setup_eq] at h
  split at h
  · cases h
  · split at h
    · cases h
    · split at h
      · cases h
      · cases h
        refine ⟨rfl, ?_, ?_, ?_⟩ <;> simp_all

theorem sessionValid_error (flags : Nat) (sv : SigVersion) (x : StepErr) : sessionValid flags sv (.error x) = false := rfl

/-- a session that stops with an error is invalid for every sufficient fuel -/
theorem invalid_of_ends_error {cx : Ctx} {tc : TapCtx} {e : IEnv} {N : Nat} {x : StepErr} (flags : Nat) (sv : SigVersion)
    (h : Ends cx tc e N (.error x)) (n : Nat) (hn : N ≤ n) :
    sessionValid flags sv (continueScript cx tc n e) = false := by
  rw [h.2 n hn]; rfl

/-! ### 1. legacy sessions: scriptSig, then scriptPubKey -/

/-- where a legacy session stands after scriptSig and scriptPubKey -/
inductive LegacyMid (cx : Ctx) (tc : TapCtx) (sc : Spec.SpendCtx) (flags : Nat) (sig spk : Bytes) (e0 : IEnv) : Prop
  | failSig (x : StepErr) (y : ScriptError) :
      Spec.runScript sc flags .BASE none none sig {} = .error y →
      Ends cx tc e0 (sig.length + spk.length + 2) (.error x) → LegacyMid cx tc sc flags sig spk e0
  | failSpk (x : StepErr) (y : ScriptError) (s1 : Spec.St) :
      Spec.runScript sc flags .BASE none none sig {} = .ok s1 →
      Spec.runScript sc flags .BASE none none spk { stack := s1.stack } = .error y →
      Ends cx tc e0 (sig.length + spk.length + 2) (.error x) → LegacyMid cx tc sc flags sig spk e0
  | mid (e2 : IEnv) (s1 s2 : Spec.St) :
      Spec.runScript sc flags .BASE none none sig {} = .ok s1 →
      Spec.runScript sc flags .BASE none none spk { stack := s1.stack } = .ok s2 →
      (∀ N r, Ends cx tc e2 N r → Ends cx tc e0 (N + sig.length + spk.length + 1) r) →
      e2.tce = none → e2.done = false → e2.pc = [] → e2.see.cond = {} → e2.successor = [] →
      e2.isP2sh = p2shPattern flags spk → (p2shPattern flags spk = true → e2.p2shStack = s1.stack.reverse) →
      e2.see.stack = s2.stack.reverse → e2.see.script = spk →
      e2.sigscriptExecuted = true → e2.sigscriptPushonly = isPushOnly sig →
      conf e2.see = (flags, .BASE, hasFlag flags Flag.MINIMALDATA, false, [], []) →
      LegacyMid cx tc sc flags sig spk e0

theorem legacy_phases (cx : Ctx) (tc : TapCtx) (sc : Spec.SpendCtx) (flags : Nat) (sig spk : Bytes) (e0 : IEnv)
    (hag : CheckerAgrees cx sc flags .BASE none none)
    (hsetup : setupEnvironment [] sig flags .BASE spk false {} none [] [] = .ok e0)
    (hspk : spk ≠ []) :
    LegacyMid cx tc sc flags sig spk e0 := by
  obtain ⟨he0, hsz, _, _⟩ := setup_ok hsetup
  have hsiglen : sig.length ≤ Spec.maxScriptSize := by
    have : Gen.MAX_SCRIPT_SIZE = Spec.maxScriptSize := by decide
    rw [this] at hsz
    simp at hsz
    exact hsz
  subst he0
  have hsvB : (specCfg sc flags .BASE none none).sigversion = .BASE ∨
      (specCfg sc flags .BASE none none).sigversion = .WITNESS_V0 := Or.inl rfl
  have hd0 : (setupEnv [] sig flags .BASE spk {} none).done = false := by
    have : spk.isEmpty = false := by simpa using hspk
    simp [setupEnv, this]
  -- phase 1: the scriptSig on the empty stack
  have h1 := phase_base cx tc (specCfg sc flags .BASE none none) (setupEnv [] sig flags .BASE spk {} none) []
    hsvB rfl (hag _ rfl) rfl rfl rfl rfl rfl hsiglen
  cases hm1 : phaseResult cx tc (setupEnv [] sig flags .BASE spk {} none) with
  | error x =>
    rw [hm1] at h1
    cases hr1 : (Spec.evalScript (specCfg sc flags .BASE none none) sig { stack := [] }).result with
    | ok s1 =>
      have hpc : (setupEnv [] sig flags .BASE spk {} none).pc = sig := rfl
      rw [hpc, hr1] at h1; exact h1.elim
    | error y =>
      refine .failSig x y hr1 (ends_weaken (phase_err rfl hd0 hm1) ?_)
      show sig.length + 1 ≤ _
      omega
  | ok e1 =>
    rw [hm1] at h1
    have hpc : (setupEnv [] sig flags .BASE spk {} none).pc = sig := rfl
    rw [hpc] at h1
    cases hr1 : (Spec.evalScript (specCfg sc flags .BASE none none) sig { stack := [] }).result with
    | error y => rw [hr1] at h1; exact h1.elim
    | ok s1 =>
      rw [hr1] at h1
      obtain ⟨hst1, hcond1⟩ := h1
      obtain ⟨hout1, hconf1, hpc1, hce1, hends1⟩ := phase_ok rfl hd0 hm1
      simp only [outer, Prod.mk.injEq] at hout1
      obtain ⟨o1, o2, o3, o4, o5, o6, o7, o8⟩ := hout1
      have hd1 : e1.done = false := by rw [o1]; exact hd0
      have ht1 : e1.tce = none := by rw [o7]; rfl
      have hsucc1 : e1.successor = spk := by rw [o4]; rfl
      have hflags1 : e1.see.flags = flags := by
        have := hconf1; simp only [conf, Prod.mk.injEq] at this; rw [this.1]; rfl
      -- the scriptSig is not of the P2SH form: such a script fails on the empty stack
      have hnp : e1.isP2sh = false := by
        rw [o2]
        show p2shPattern flags sig = false
        cases hp : p2shPattern flags sig with
        | false => rfl
        | true =>
          exfalso
          rw [p2shPattern_eq] at hp
          simp only [Bool.and_eq_true] at hp
          obtain ⟨rest, hrest⟩ := isP2SH_head sig hp.2
          subst hrest
          exact hash160_first_fails _ rest s1 hr1
      -- hand-over to the scriptPubKey: above 10,000 bytes both sides answer SCRIPT_SIZE
      have h10k : Gen.MAX_SCRIPT_SIZE = Spec.maxScriptSize := by decide
      by_cases hspklen' : spk.length > Spec.maxScriptSize
      · have hstepE := end_succ_size cx tc e1 ht1 hpc1 hce1 hnp (by rw [hsucc1, h10k]; exact hspklen')
        have hr2 : (Spec.evalScript (specCfg sc flags .BASE none none) spk { stack := s1.stack }).result =
            .error .SCRIPT_SIZE := by
          rw [evalScript_result]
          have : ((specCfg sc flags .BASE none none).sigversion == .BASE ||
              (specCfg sc flags .BASE none none).sigversion == .WITNESS_V0) = true := rfl
          simp only [this, hspklen', decide_true, Bool.and_self, if_true]
        refine .failSpk (.script .SCRIPT_SIZE) .SCRIPT_SIZE s1 hr1 hr2 ?_
        have e2 := hends1 _ _ (ends_step_err cx tc e1 _ hd1 hstepE)
        exact ends_weaken e2 (by show 1 + sig.length ≤ _; omega)
      have hspklen : spk.length ≤ Spec.maxScriptSize := by omega
      have hstep := end_succ cx tc e1 ht1 hpc1 hce1 hnp (by rw [hsucc1]; exact hspk) (by rw [hsucc1, h10k]; exact hspklen)
      rw [hsucc1, hflags1] at hstep
      generalize he1' : ({ e1 with
          sigscriptExecuted := true, sigscriptPushonly := isPushOnly e1.see.script,
          see := { e1.see with script := spk, pbegincodehash := spk, nOpCount := 0, altstack := [] },
          successor := [], pc := spk, currOpSeq := e1.currOpSeq + 1,
          isP2sh := p2shPattern flags spk,
          p2shStack := if p2shPattern flags spk then e1.see.stack else e1.p2shStack } : IEnv) = e1' at hstep
      have hconf1' : conf e1'.see = (flags, .BASE, hasFlag flags Flag.MINIMALDATA, false, [], []) := by
        rw [← he1']; exact hconf1
      have hd1' : e1'.done = false := by rw [← he1']; exact hd1
      have ht1' : e1'.tce = none := by rw [← he1']; exact ht1
      have hpc1' : e1'.pc = spk := by rw [← he1']
      -- phase 2: the scriptPubKey on the stack the scriptSig left
      have h2 := phase_base cx tc (specCfg sc flags .BASE none none) e1' s1.stack hsvB ht1' (hag _ hconf1')
        (by rw [← he1']; exact hst1) (by rw [← he1']) (by rw [← he1']; exact hcond1) (by rw [← he1'])
        (by rw [← he1']) (by rw [hpc1']; exact hspklen)
      rw [hpc1'] at h2
      cases hm2 : phaseResult cx tc e1' with
      | error x =>
        rw [hm2] at h2
        cases hr2 : (Spec.evalScript (specCfg sc flags .BASE none none) spk { stack := s1.stack }).result with
        | ok s2 => rw [hr2] at h2; exact h2.elim
        | error y =>
          refine .failSpk x y s1 hr1 hr2 ?_
          have e1 := phase_err ht1' hd1' hm2
          rw [hpc1'] at e1
          have e2 := hends1 _ _ (ends_step hd1 hstep e1)
          exact ends_weaken e2 (by show spk.length + 1 + 1 + sig.length ≤ _; omega)
      | ok e2 =>
        rw [hm2] at h2
        cases hr2 : (Spec.evalScript (specCfg sc flags .BASE none none) spk { stack := s1.stack }).result with
        | error y => rw [hr2] at h2; exact h2.elim
        | ok s2 =>
          rw [hr2] at h2
          obtain ⟨hst2, hcond2⟩ := h2
          obtain ⟨hout2, hconf2, hpc2, _, hends2⟩ := phase_ok ht1' hd1' hm2
          simp only [outer, Prod.mk.injEq] at hout2
          obtain ⟨p1, p2, p3, p4, p5, p6, p7, p8⟩ := hout2
          refine .mid e2 s1 s2 hr1 hr2 ?_ (by rw [p7]; exact ht1') (by rw [p1]; exact hd1') hpc2 hcond2
            (by rw [p4, ← he1']) (by rw [p2, ← he1']) ?_ hst2 (by rw [p8, ← he1']) (by rw [p5, ← he1'])
            (by rw [p6, ← he1', o8]; rfl) (hconf2.trans hconf1')
          · intro N r hE
            have a1 := hends2 N r hE
            rw [hpc1'] at a1
            have a2 := hends1 _ _ (ends_step hd1 hstep a1)
            exact ends_weaken a2 (by show N + spk.length + 1 + sig.length ≤ _; omega)
          · intro hp
            rw [p3, ← he1']
            simp only [hp, if_true]
            exact hst1


/-- the verdict read off a final main stack equals the specification's final checks (`evalTrue`, CLEANSTACK) -/
theorem verdict_of_stack (flags : Nat) (sv : SigVersion) (e : IEnv) (st : Spec.St) (h : e.see.stack = st.stack.reverse) :
    sessionValid flags sv (.ok e) =
      specOk (Spec.evalTrue st >>= fun _ =>
        if ((sv != .BASE || hasFlag flags Flag.CLEANSTACK) && st.stack.length != 1) = true then .error .CLEANSTACK else .ok ()) := by
  unfold sessionValid Spec.evalTrue
  simp only [h, List.getLast?_reverse, List.length_reverse]
  cases hs : st.stack with
  | nil => simp [specOk, rThrow_bind]
  | cons t rest =>
    simp only [List.head?_cons, castToBool_eq_toBool]
    cases ht : Spec.toBool t
    · simp [specOk, rThrow_bind]
    · simp only [Bool.true_and, if_true]
      cases hc : ((sv != .BASE || hasFlag flags Flag.CLEANSTACK) && (t :: rest).length != 1)
      · simp [specOk]
      · simp [specOk]

/-- `VerifyScript` for a legacy spend: no witness, the scriptPubKey neither P2SH (under the P2SH flag) nor a witness
    program (under the WITNESS flag) -/
theorem verify_legacy (sc : Spec.SpendCtx) (flags : Nat) (sig spk : Bytes)
    (hnw : Spec.witnessProgram spk = none ∨ hasFlag flags Flag.WITNESS = false)
    (hnp : (hasFlag flags Flag.P2SH && Spec.isP2SH spk) = false) :
    Spec.verifyScript sc flags sig spk [] =
      if (hasFlag flags Flag.SIGPUSHONLY && !Spec.isPushOnly sig) = true then .error .SIG_PUSHONLY
      else Spec.runScript sc flags .BASE none none sig {} >>= fun s1 =>
        Spec.runScript sc flags .BASE none none spk { stack := s1.stack } >>= fun s2 =>
        Spec.evalTrue s2 >>= fun _ =>
        if ((SigVersion.BASE != .BASE || hasFlag flags Flag.CLEANSTACK) && s2.stack.length != 1) = true then .error .CLEANSTACK
        else .ok () := by
  unfold Spec.verifyScript
  rcases hnw with hw | hw
  · simp only [hw, hnp, rThrow_bind, Bool.false_eq_true, if_false, List.isEmpty_nil, Bool.not_true, Bool.and_false]
    split
    · rfl
    · congr 1; funext s1; congr 1; funext s2; congr 1; funext _
      cases hasFlag flags Flag.WITNESS <;> cases hasFlag flags Flag.CLEANSTACK <;> simp <;> rfl
  · simp only [hw, hnp, rThrow_bind, Bool.false_eq_true, if_false, List.isEmpty_nil, Bool.not_true, Bool.and_false]
    split
    · rfl
    · congr 1; funext s1; congr 1; funext s2; congr 1; funext _
      cases hasFlag flags Flag.CLEANSTACK <;> simp <;> rfl


/-- the end of the last script: one more step and the session is `done` with the stack it has -/
theorem ends_finish {cx : Ctx} {tc : TapCtx} {e : IEnv} (ht : e.tce = none) (hd : e.done = false) (hpc : e.pc = [])
    (hc : e.see.cond.empty = true) (hp : e.isP2sh = false) (hs : e.successor = []) :
    Ends cx tc e 1 (.ok { e with done := true }) := by
  have hstep := end_finish cx tc e ht hpc hc hp hs
  exact ends_step hd hstep (ends_done cx tc _ rfl)

/-- **C03 (a), legacy outputs** (bare scripts, P2PK, P2PKH, multisig, anything that is not P2SH / a witness program),
    empty witness.  The session runs the scriptSig, then the scriptPubKey on the stack it left, and its verdict is
    `VerifyScript`'s — including SIGPUSHONLY and CLEANSTACK — for every fuel that lets it finish.
    A scriptPubKey above 10,000 bytes fails with SCRIPT_SIZE on both sides.
    Excluded by hypothesis (see the findings in the header): an empty scriptPubKey (F-C03-empty-scriptpubkey),
    a witness program under the WITNESS flag (F-C03-empty-witness). -/
theorem C03_legacy (cx : Ctx) (tc : TapCtx) (sc : Spec.SpendCtx) (flags : Nat) (sig spk : Bytes) (e0 : IEnv)
    (hag : CheckerAgrees cx sc flags .BASE none none)
    (hsetup : setupEnvironment [] sig flags .BASE spk false {} none [] [] = .ok e0)
    (hspk : spk ≠ [])
    (hnw : Spec.witnessProgram spk = none ∨ hasFlag flags Flag.WITNESS = false)
    (hnp : (hasFlag flags Flag.P2SH && Spec.isP2SH spk) = false)
    (n : Nat) (hn : sig.length + spk.length + 2 ≤ n) :
    sessionValid flags .BASE (continueScript cx tc n e0) = specOk (Spec.verifyScript sc flags sig spk []) := by
  rw [verify_legacy sc flags sig spk hnw hnp]
  obtain ⟨_, _, hpo, _⟩ := setup_ok hsetup
  have hpo' : (hasFlag flags Flag.SIGPUSHONLY && !Spec.isPushOnly sig) = false := by
    have : spk.isEmpty = false := by simpa using hspk
    rw [this, isPushOnly_eq] at hpo
    simpa using hpo
  simp only [hpo', Bool.false_eq_true, if_false]
  rcases legacy_phases cx tc sc flags sig spk e0 hag hsetup hspk with
    ⟨x, y, hr1, hE⟩ | ⟨x, y, s1, hr1, hr2, hE⟩ | ⟨e2, s1, s2, hr1, hr2, hE, ht2, hd2, hpc2, hc2, hs2, hp2, _, hst2, _, _, _, _⟩
  · rw [hr1, invalid_of_ends_error flags .BASE hE n hn]; rfl
  · rw [hr1, invalid_of_ends_error flags .BASE hE n hn]
    simp only [rOk_bind, hr2]; rfl
  · rw [p2shPattern_eq, hnp] at hp2
    have hfin := hE _ _ (ends_finish ht2 hd2 hpc2 (by rw [hc2]; rfl) hp2 hs2)
    rw [hfin.2 n (by omega), hr1]
    simp only [rOk_bind, hr2]
    exact verdict_of_stack flags .BASE _ s2 hst2

theorem C03_legacy_iff (cx : Ctx) (tc : TapCtx) (sc : Spec.SpendCtx) (flags : Nat) (sig spk : Bytes) (e0 : IEnv)
    (hag : CheckerAgrees cx sc flags .BASE none none)
    (hsetup : setupEnvironment [] sig flags .BASE spk false {} none [] [] = .ok e0)
    (hspk : spk ≠ [])
    (hnw : Spec.witnessProgram spk = none ∨ hasFlag flags Flag.WITNESS = false)
    (hnp : (hasFlag flags Flag.P2SH && Spec.isP2SH spk) = false) :
    sessionValid flags .BASE (continueScript cx tc (continueFuel e0) e0) = true ↔
      Spec.verifyScript sc flags sig spk [] = .ok () := by
  rw [← specOk_iff]
  have hfuel : sig.length + spk.length + 2 ≤ continueFuel e0 := by
    obtain ⟨he0, _⟩ := setup_ok hsetup
    subst he0
    simp only [continueFuel, setupEnv]
    omega
  rw [C03_legacy cx tc sc flags sig spk e0 hag hsetup hspk hnw hnp _ hfuel]


/-! ### 1b. legacy sessions: refusals -/

theorem verify_sig_fail (sc : Spec.SpendCtx) (flags : Nat) (sig spk : Bytes) (w : List Bytes) (y : ScriptError)
    (h : Spec.runScript sc flags .BASE none none sig {} = .error y) :
    specOk (Spec.verifyScript sc flags sig spk w) = false := by
  unfold Spec.verifyScript
  simp only [h, rThrow_bind, rErr_bind]
  split <;> rfl

theorem verify_pushonly_fail (sc : Spec.SpendCtx) (flags : Nat) (sig spk : Bytes) (w : List Bytes)
    (h : (hasFlag flags Flag.SIGPUSHONLY && !Spec.isPushOnly sig) = true) :
    specOk (Spec.verifyScript sc flags sig spk w) = false := by
  unfold Spec.verifyScript
  simp only [h, rThrow_bind, if_true]
  rfl

/-- a script every instruction of which is a defined opcode (what `HasValidOps` additionally insists on, beyond what
    evaluation needs, is `opcode ≤ MAX_OPCODE` for instructions in branches that are not executed) -/
def NoUndefinedOpcode (s : Bytes) : Prop :=
  ∀ p ∈ (Spec.decodePrefix s.length s).1, p.1.opcode ≤ Gen.MAX_OPCODE

theorem evalInstrs_ok_pushsize (cfg : Spec.Cfg) : ∀ (l : List (Spec.Instr × Bytes)) (pos : Nat) (st st' : Spec.St),
    (Spec.evalInstrs cfg l pos st).2 = .ok st' → ∀ p ∈ l, p.1.data.length ≤ Spec.maxElementSize
  | [], _, _, _, _, p, hp => by cases hp
  | (i, after) :: rest, pos, st, st', h, p, hp => by
    simp only [Spec.evalInstrs] at h
    cases hx : Spec.execInstr cfg i after pos st with
    | error e => rw [hx] at h; cases h
    | ok s1 =>
      rw [hx] at h
      simp only at h
      rcases List.mem_cons.1 hp with rfl | hp'
      · unfold Spec.execInstr at hx
        simp only at hx
        split at hx
        · cases hx
        · rename_i hle; simpa using hle
      · exact evalInstrs_ok_pushsize cfg rest (pos + 1) s1 st' h p hp'

/-- a script that validation evaluates without error decodes completely and has no push above 520 bytes: with
    defined opcodes only, it passes `HasValidOps` -/
theorem hasValidOps_of_eval_ok (cfg : Spec.Cfg) (s : Bytes) (st0 st' : Spec.St) (hdef : NoUndefinedOpcode s)
    (h : (Spec.evalScript cfg s st0).result = .ok st') : hasValidOps s = true := by
  rw [C01.gate_is_domain]
  rw [evalScript_result] at h
  split at h
  · cases h
  · unfold evalFrom at h
    simp only at h
    cases hx : (Spec.evalInstrs cfg (Spec.decodePrefix s.length s).1 0 { st0 with codeFrom := s }).2 with
    | error e => rw [hx] at h; cases h
    | ok s1 =>
      rw [hx] at h
      simp only at h
      have hps := evalInstrs_ok_pushsize cfg _ _ _ _ hx
      cases hd : (Spec.decodePrefix s.length s).2 with
      | false => rw [hd] at h; simp at h
      | true =>
        unfold Spec.inDomain Spec.decode Spec.decodeWithRest
        simp only [hd, if_true, Option.map_some, List.all_map, List.all_eq_true]
        intro p hp
        simp only [Function.comp, Bool.and_eq_true, decide_eq_true_eq]
        exact ⟨hdef p hp, hps p hp⟩

/-- `configure_tx_txin` for an input without witness data -/
theorem configure_legacy (h : HashCtx) (tc : TapCtx) (tx txin : Tx) (idx vout : Nat) (sv0 : SigVersion)
    (inp : TxIn) (spent : TxOut) (hinp : tx.vin[idx]? = some inp) (hspent : txin.vout[vout]? = some spent)
    (hw : inp.witness = []) :
    configureTxTxin h tc tx txin idx vout sv0 =
      if hasValidOps inp.scriptSig then
        some { sigver := .BASE, script := inp.scriptSig, successor := spent.scriptPubKey, amount := spent.value }
      else none := by
  unfold configureTxTxin
  simp only [hinp, hspent, hw, List.getLast?_nil]
  cases hasValidOps inp.scriptSig <;> rfl

/-- **C03 (a), refusal by `configure_tx_txin`.**  A legacy input is refused only for a scriptSig that fails `HasValidOps`;
    if all its opcodes are defined ones, validation rejects the input as well. -/
theorem C03_legacy_refused_configure (h : HashCtx) (tc : TapCtx) (tx txin : Tx) (idx vout : Nat) (sv0 : SigVersion)
    (inp : TxIn) (spent : TxOut) (hinp : tx.vin[idx]? = some inp) (hspent : txin.vout[vout]? = some spent)
    (hw : inp.witness = []) (hdef : NoUndefinedOpcode inp.scriptSig)
    (hnone : configureTxTxin h tc tx txin idx vout sv0 = none) (sc : Spec.SpendCtx) (flags : Nat) :
    specOk (Spec.verifyScript sc flags inp.scriptSig spent.scriptPubKey inp.witness) = false := by
  rw [configure_legacy h tc tx txin idx vout sv0 inp spent hinp hspent hw] at hnone
  cases hv : hasValidOps inp.scriptSig with
  | true => rw [hv] at hnone; cases hnone
  | false =>
    cases hr : Spec.runScript sc flags .BASE none none inp.scriptSig {} with
    | error y => exact verify_sig_fail sc flags _ _ _ y hr
    | ok s1 =>
      rw [runScript_eq] at hr
      rw [hasValidOps_of_eval_ok _ _ _ _ hdef hr] at hv
      cases hv

/-- **C03 (a), refusal by `setup_environment`.**  A legacy session that `setup_environment` refuses to start (scriptSig
    above 10,000 bytes; SIGPUSHONLY with a scriptSig that is not push-only) is an input validation rejects. -/
theorem C03_legacy_refused_setup (sc : Spec.SpendCtx) (flags : Nat) (sig spk : Bytes) (w : List Bytes) (err : ScriptError)
    (hsetup : setupEnvironment [] sig flags .BASE spk false {} none [] [] = .error err) :
    specOk (Spec.verifyScript sc flags sig spk w) = false := by
  rw [setup_eq] at hsetup
  split at hsetup
  · rename_i hsz
    -- script size
    cases hr : Spec.runScript sc flags .BASE none none sig {} with
    | error y => exact verify_sig_fail sc flags _ _ _ y hr
    | ok s1 =>
      exfalso
      rw [runScript_eq, evalScript_result] at hr
      have h10k : Gen.MAX_SCRIPT_SIZE = Spec.maxScriptSize := by decide
      rw [h10k] at hsz
      simp only [Bool.and_eq_true, decide_eq_true_eq] at hsz
      have : ((specCfg sc flags .BASE none none).sigversion == .BASE || (specCfg sc flags .BASE none none).sigversion == .WITNESS_V0) = true := rfl
      simp [this, hsz.2] at hr
  · split at hsetup
    · rename_i hpo
      apply verify_pushonly_fail
      simp only [Bool.and_eq_true] at hpo ⊢
      rw [← isPushOnly_eq]
      exact ⟨hpo.1.2, hpo.2⟩
    · split at hsetup
      · rename_i hx; simp at hx
      · cases hsetup


/-! ### 2. sessions on one script (witness script, implied P2PKH script, key-path script, tapscript leaf) -/

/-- the specification's reading of the final state of a script that must leave exactly one true element
    (`ExecuteWitnessScript`), and of a legacy script (`evalTrue` + CLEANSTACK) -/
def finalChecks (flags : Nat) (sv : SigVersion) (st : Spec.St) : Spec.R Unit :=
  Spec.evalTrue st >>= fun _ =>
    if ((sv != .BASE || hasFlag flags Flag.CLEANSTACK) && st.stack.length != 1) = true then .error .CLEANSTACK else .ok ()

/-- a session (or the rest of one) that consists of a single script: its verdict is the specification's evaluation of
    that script on the related state followed by the final-stack checks -/
theorem single_script_session (cx : Ctx) (tc : TapCtx) (cfg : Spec.Cfg) (e : IEnv) (st0 : Spec.St) (flags : Nat) (sv : SigVersion)
    (ht : e.tce = none) (hp : e.isP2sh = false) (hs : e.successor = []) (hdone : e.done = true → e.pc = [])
    (hc : CfgRel cx e.see cfg) (hrel : Rel e.see { st0 with codeFrom := e.pc }) (hcond0 : st0.cond = [])
    (hpos : e.see.opcodePos = 0)
    (hw : e.see.sigversion = .TAPSCRIPT → e.see.execdata.weightInit = true)
    (hlen : (cfg.sigversion = .BASE ∨ cfg.sigversion = .WITNESS_V0) → e.pc.length ≤ Spec.maxScriptSize) :
    ∃ r, Ends cx tc e (e.pc.length + 1) r ∧
      sessionValid flags sv r = specOk ((Spec.evalScript cfg e.pc st0).result >>= finalChecks flags sv) := by
  by_cases hd' : e.done = true
  · -- the empty script: the session is done before the first step
    have hemp := hdone hd'
    have hd := hd'
    refine ⟨.ok e, ends_weaken (ends_done cx tc e hd) (by omega), ?_⟩
    have hev : (Spec.evalScript cfg e.pc st0).result = .ok { st0 with codeFrom := e.pc } := by
      rw [evalScript_result, hemp]
      simp [evalFrom_nil, hcond0, Spec.maxScriptSize]
    rw [hev]
    simp only [rOk_bind]
    exact verdict_of_stack flags sv e _ hrel.stack
  · have hd : e.done = false := by simpa using hd'
    have h1 := phase_aligned cx tc cfg e st0 ht hc hrel hpos hw hlen
    cases hm : phaseResult cx tc e with
    | error x =>
      rw [hm] at h1
      refine ⟨.error x, phase_err ht hd hm, ?_⟩
      cases hr : (Spec.evalScript cfg e.pc st0).result with
      | ok st1 => rw [hr] at h1; exact h1.elim
      | error y => rfl
    | ok e1 =>
      rw [hm] at h1
      cases hr : (Spec.evalScript cfg e.pc st0).result with
      | error y => rw [hr] at h1; exact h1.elim
      | ok st1 =>
        rw [hr] at h1
        obtain ⟨hout, _, hpc1, hce1, hends⟩ := phase_ok ht hd hm
        simp only [outer, Prod.mk.injEq] at hout
        obtain ⟨o1, o2, _, o4, _, _, o7, _⟩ := hout
        have hfin := hends _ _ (ends_finish (by rw [o7]; exact ht) (by rw [o1]; exact hd) hpc1 hce1 (by rw [o2]; exact hp)
          (by rw [o4]; exact hs))
        refine ⟨_, ends_weaken hfin (by omega), ?_⟩
        simp only [rOk_bind]
        exact verdict_of_stack flags sv _ st1 h1.stack


/-! ### 3. shapes `configure_tx_txin` and `VerifyScript` recognise -/

theorem getOp_push_direct (b : UInt8) (data rest : Bytes) (h : b.toNat < 0x4c) (hl : data.length = b.toNat) :
    getOp (b :: (data ++ rest)) = some { opcode := b.toNat, data := data, rest := rest } := by
  have hgo := getOp_decodeOne (b :: (data ++ rest))
  rw [decodeOne_push b data rest h hl] at hgo
  cases hg : getOp (b :: (data ++ rest)) with
  | none => rw [hg] at hgo; cases hgo
  | some g =>
    rw [hg] at hgo
    simp only [Option.map_some, Option.some.injEq, Prod.mk.injEq, Spec.Instr.mk.injEq] at hgo
    obtain ⟨⟨h1, h2⟩, h3⟩ := hgo
    cases g; simp_all

theorem getOp_op (b : UInt8) (rest : Bytes) (h : 0x4e < b.toNat) :
    getOp (b :: rest) = some { opcode := b.toNat, data := [], rest := rest } := by
  have hgo := getOp_decodeOne (b :: rest)
  rw [decodeOne_op b rest h] at hgo
  cases hg : getOp (b :: rest) with
  | none => rw [hg] at hgo; cases hgo
  | some g =>
    rw [hg] at hgo
    simp only [Option.map_some, Option.some.injEq, Prod.mk.injEq, Spec.Instr.mk.injEq] at hgo
    obtain ⟨⟨h1, h2⟩, h3⟩ := hgo
    cases g; simp_all

theorem run_empty (sc : Spec.SpendCtx) (flags : Nat) (st0 : Spec.St) (hc : st0.cond = []) :
    Spec.runScript sc flags .BASE none none [] st0 = .ok { st0 with codeFrom := [] } := by
  rw [runScript_eq, evalScript_result]
  simp [evalFrom_nil, hc, Spec.maxScriptSize]

theorem isPushOnly_nil : Spec.isPushOnly [] = true := by decide

/-- `VerifyScript` for a native witness program (empty scriptSig): the scriptPubKey leaves a true value, then
    everything is `VerifyWitnessProgram` -/
theorem verify_native (sc : Spec.SpendCtx) (flags : Nat) (spk : Bytes) (witness : List Bytes) (ver : Nat) (prog : Bytes)
    (st2 : Spec.St)
    (hW : hasFlag flags Flag.WITNESS = true)
    (hwp : Spec.witnessProgram spk = some (ver, prog))
    (hnp : (hasFlag flags Flag.P2SH && Spec.isP2SH spk) = false)
    (hrun : Spec.runScript sc flags .BASE none none spk { stack := [] } = .ok st2)
    (htrue : Spec.evalTrue st2 = .ok ()) :
    Spec.verifyScript sc flags [] spk witness = Spec.verifyWitnessProgram sc flags witness ver prog false := by
  unfold Spec.verifyScript
  simp only [isPushOnly_nil, Bool.not_true, Bool.and_false, Bool.false_eq_true, if_false, run_empty sc flags {} rfl,
    hrun, htrue, hW, hwp, hnp, rThrow_bind, rOk_bind, List.isEmpty_nil, if_true, bne_self_eq_false]
  simp only [Bool.false_and, Bool.false_eq_true, if_false, ite_self]
  cases Spec.verifyWitnessProgram sc flags witness ver prog false with
  | error e => rfl
  | ok u => cases u; rfl

/-- the final checks of `ExecuteWitnessScript` -/
def ewsFinal (st : Spec.St) : Spec.R Unit :=
  if (st.stack.length != 1) = true then .error .CLEANSTACK
  else match st.stack with
    | [t] => if Spec.toBool t then .ok () else .error .EVAL_FALSE
    | _ => .error .CLEANSTACK

theorem ewsFinal_eq (flags : Nat) (sv : SigVersion) (hsv : sv ≠ .BASE) (r : Spec.R Spec.St) :
    specOk (r >>= ewsFinal) = specOk (r >>= finalChecks flags sv) := by
  cases r with
  | error e => rfl
  | ok st =>
    simp only [rOk_bind, ewsFinal, finalChecks, Spec.evalTrue]
    have hb : (sv != SigVersion.BASE) = true := by simpa using hsv
    simp only [hb, Bool.true_or, Bool.true_and]
    cases hs : st.stack with
    | nil => simp [specOk, rThrow_bind]
    | cons t rest =>
      cases rest with
      | nil =>
        cases ht : Spec.toBool t <;> simp [specOk, rThrow_bind, ht]
      | cons u rest2 =>
        cases ht : Spec.toBool t <;> simp [specOk, rThrow_bind, ht]

/-- `ExecuteWitnessScript` for a segwit-v0 script -/
theorem ews_v0 (sc : Spec.SpendCtx) (flags : Nat) (items : List Bytes) (script : Bytes) :
    Spec.executeWitnessScript sc flags .WITNESS_V0 none none items script 0 =
      if items.any (fun i => decide (i.length > Spec.maxElementSize)) = true then .error .PUSH_SIZE
      else Spec.runScript sc flags .WITNESS_V0 none none script { stack := items.reverse, weightLeft := 0, weightInit := false }
        >>= ewsFinal := by
  unfold Spec.executeWitnessScript
  simp only [show (SigVersion.WITNESS_V0 == SigVersion.TAPSCRIPT) = false from rfl, Bool.false_eq_true, if_false,
    rThrow_bind, pure_bind]
  split
  · rfl
  · congr 1


/-! ### 4. P2WSH (native) -/

/-- the debugger's answer for a spend agrees with validation: refusals (`configure_tx_txin` returns false, or
    `setup_environment` does) only for an input that validation rejects; otherwise the session, run to its end with
    any fuel of at least `N e0` steps, is valid exactly when validation accepts -/
def AgreesC (tc : TapCtx) (cx : Ctx) (flags : Nat) (conf : Option Configured) (N : IEnv → Nat) (spec : Spec.R Unit) : Prop :=
  match conf with
  | none => spec ≠ .ok ()
  | some c =>
    match setupEnvironment c.stack c.script flags c.sigver c.successor false c.execdata c.tce [] [] with
    | .error _ => spec ≠ .ok ()
    | .ok e0 => ∀ n, N e0 ≤ n → (sessionValid flags c.sigver (continueScript cx tc n e0) = true ↔ spec = .ok ())

def Agrees (h : HashCtx) (tc : TapCtx) (cx : Ctx) (flags : Nat) (tx txin : Tx) (idx vout : Nat) (sv0 : SigVersion)
    (N : IEnv → Nat) (spec : Spec.R Unit) : Prop :=
  AgreesC tc cx flags (configureTxTxin h tc tx txin idx vout sv0) N spec

theorem not_ok_of_specOk {r : Spec.R Unit} (h : specOk r = false) : r ≠ .ok () := by
  intro h'; rw [h'] at h; cases h

theorem configure_p2wsh (h : HashCtx) (tc : TapCtx) (tx txin : Tx) (idx vout : Nat) (sv0 : SigVersion)
    (inp : TxIn) (spent : TxOut) (prog wlast : Bytes)
    (hinp : tx.vin[idx]? = some inp) (hspent : txin.vout[vout]? = some spent)
    (hsig : inp.scriptSig = []) (hspk : spent.scriptPubKey = 0x00 :: 0x20 :: prog) (hp : prog.length = 32)
    (hw : inp.witness.getLast? = some wlast) :
    configureTxTxin h tc tx txin idx vout sv0 =
      if h.sha256 wlast != prog then none
      else if inp.witness.dropLast.any (fun i => i.length > Gen.MAX_SCRIPT_ELEMENT_SIZE) then none
      else if !hasValidOps wlast then none
      else some { sigver := .WITNESS_V0, script := wlast, stack := inp.witness.dropLast, amount := spent.value } := by
  have g1 : getOp (0x00 :: 0x20 :: prog) = some { opcode := 0, data := [], rest := 0x20 :: prog } :=
    getOp_push_direct 0 [] (0x20 :: prog) (by decide) rfl
  have g2 : getOp (0x20 :: prog) = some { opcode := 0x20, data := prog, rest := [] } := by
    have := getOp_push_direct 0x20 prog [] (by decide) (by rw [hp]; rfl)
    rw [List.append_nil] at this
    exact this
  unfold configureTxTxin
  simp only [hinp, hspent, hw, hsig, hspk, List.length_nil, Nat.lt_irrefl, gt_iff_lt, if_false]
  simp [g1, g2, hp, Op.OP_0, List.dropLast_eq_take]

/-- `VerifyScript` for a native P2WSH output -/
theorem verify_p2wsh (sc : Spec.SpendCtx) (flags : Nat) (prog wlast : Bytes) (witness : List Bytes)
    (hp : prog.length = 32) (hW : hasFlag flags Flag.WITNESS = true) (hnz : Spec.toBool prog = true)
    (hw : witness.getLast? = some wlast) :
    Spec.verifyScript sc flags [] (0x00 :: 0x20 :: prog) witness =
      if sc.sha256 wlast != prog then .error .WITNESS_PROGRAM_MISMATCH
      else Spec.executeWitnessScript sc flags .WITNESS_V0 none none witness.dropLast wlast 0 := by
  have hb : (0x20 : UInt8) = UInt8.ofNat prog.length := by rw [hp]; rfl
  obtain ⟨st2, hrun, hst⟩ := eval_witprog_v0 (specCfg sc flags .BASE none none) prog [] (by omega) (by omega) (by decide)
  rw [← hb, ← runScript_eq] at hrun
  have htrue : Spec.evalTrue st2 = .ok () := by simp [Spec.evalTrue, hst, hnz]; rfl
  have hwp : Spec.witnessProgram (0x00 :: 0x20 :: prog) = some (0, prog) := by
    simp [Spec.witnessProgram, hp]
  have hnp : (hasFlag flags Flag.P2SH && Spec.isP2SH (0x00 :: 0x20 :: prog)) = false := by
    simp [Spec.isP2SH, hp]
  rw [verify_native sc flags _ witness 0 prog st2 hW hwp hnp hrun htrue]
  unfold Spec.verifyWitnessProgram
  simp only [BEq.rfl, if_true, hp, hw, rThrow_bind, pure_bind]

/-- the P2WSH session against `VerifyWitnessProgram` (version 0, 32-byte program), whichever script carried the program -/
theorem p2wsh_core (tc : TapCtx) (cx : Ctx) (sc : Spec.SpendCtx) (flags : Nat) (prog wlast : Bytes) (witness : List Bytes)
    (amount : Int)
    (hag : CheckerAgrees cx sc flags .WITNESS_V0 none none) (hdef : NoUndefinedOpcode wlast) :
    AgreesC tc cx flags
      (if sc.sha256 wlast != prog then none
       else if witness.dropLast.any (fun i => i.length > Gen.MAX_SCRIPT_ELEMENT_SIZE) then none
       else if !hasValidOps wlast then none
       else some { sigver := .WITNESS_V0, script := wlast, stack := witness.dropLast, amount := amount })
      continueFuel
      (if sc.sha256 wlast != prog then .error .WITNESS_PROGRAM_MISMATCH
       else Spec.executeWitnessScript sc flags .WITNESS_V0 none none witness.dropLast wlast 0) := by
  unfold AgreesC
  by_cases h1 : (sc.sha256 wlast != prog) = true
  · simp only [h1, if_true]; intro hh; cases hh
  · simp only [h1, Bool.false_eq_true, if_false]
    rw [ews_v0]
    have h520 : Gen.MAX_SCRIPT_ELEMENT_SIZE = Spec.maxElementSize := by decide
    rw [h520]
    by_cases h2 : (witness.dropLast.any fun i => decide (i.length > Spec.maxElementSize)) = true
    · simp only [h2, if_true]; intro hh; cases hh
    · simp only [h2, Bool.false_eq_true, if_false]
      by_cases h3 : hasValidOps wlast = true
      · simp only [h3, Bool.not_true, Bool.false_eq_true, if_false]
        -- the session
        rw [setup_eq]
        have hne : (SigVersion.WITNESS_V0 != SigVersion.TAPSCRIPT) = true := rfl
        by_cases h4 : wlast.length > Gen.MAX_SCRIPT_SIZE
        · -- the witness script is too long: refused, and rejected
          simp only [hne, h4, decide_true, Bool.and_self, if_true]
          apply not_ok_of_specOk
          rw [runScript_eq, evalScript_result]
          have h10k : Gen.MAX_SCRIPT_SIZE = Spec.maxScriptSize := by decide
          rw [h10k] at h4
          have : ((specCfg sc flags .WITNESS_V0 none none).sigversion == .BASE ||
              (specCfg sc flags .WITNESS_V0 none none).sigversion == .WITNESS_V0) = true := rfl
          simp only [this, h4, decide_true, Bool.and_self, if_true]
          rfl
        · simp only [hne, h4, decide_false, Bool.and_false, Bool.false_eq_true, if_false, List.isEmpty_nil, Bool.not_true,
            Bool.false_and, show (SigVersion.WITNESS_V0 == SigVersion.TAPSCRIPT) = false from rfl]
          intro n hn
          have h10k : Gen.MAX_SCRIPT_SIZE = Spec.maxScriptSize := by decide
          rw [h10k] at h4
          obtain ⟨r, hE, hv⟩ := single_script_session cx tc (specCfg sc flags .WITNESS_V0 none none)
            (setupEnv witness.dropLast wlast flags .WITNESS_V0 [] {} none)
            { stack := witness.dropLast.reverse, weightLeft := 0, weightInit := false } flags .WITNESS_V0
            rfl rfl rfl (by simp [setupEnv]) (hag _ rfl)
            (by constructor <;> simp [setupEnv, condRel_empty]) rfl rfl (by intro hh; cases hh)
            (by intro _; show wlast.length ≤ _; omega)
          have hfuel : (setupEnv witness.dropLast wlast flags .WITNESS_V0 [] {} none).pc.length + 1 ≤ n := by
            have : continueFuel (setupEnv witness.dropLast wlast flags .WITNESS_V0 [] {} none) =
                wlast.length + 4 := by simp [continueFuel, setupEnv]
            show wlast.length + 1 ≤ n
            omega
          rw [hE.2 n hfuel, hv, ← ewsFinal_eq flags .WITNESS_V0 (by decide), specOk_iff]
          rfl
      · -- `HasValidOps` fails: the witness script does not evaluate
        simp only [h3, Bool.not_false, if_true]
        apply not_ok_of_specOk
        cases hr : Spec.runScript sc flags .WITNESS_V0 none none wlast
            { stack := witness.dropLast.reverse, weightLeft := 0, weightInit := false } with
        | error y => rfl
        | ok st =>
          rw [runScript_eq] at hr
          rw [hasValidOps_of_eval_ok _ _ _ _ hdef hr] at h3
          exact absurd rfl h3


/-- **C03 (c), native P2WSH.**  scriptSig empty, scriptPubKey `OP_0 <32 bytes>`, non-empty witness, WITNESS flag.
    `configure_tx_txin` checks the SHA-256 of the last witness item against the program (refusing = validation's
    WITNESS_PROGRAM_MISMATCH), enforces the 520-byte item limit (PUSH_SIZE), and the session runs the witness script on
    the remaining items; the verdict requires exactly one true element (the implicit CLEANSTACK of witness scripts).
    Hypotheses beyond the shape: the program is not a "false" value (an all-zero program fails validation's
    `CastToBool` on the scriptPubKey result; a SHA-256 preimage of it would be needed), and the witness script has no
    undefined opcode in a branch that is not executed (finding F-C03-undefined-opcode-refused). -/
theorem C03_p2wsh (h : HashCtx) (tc : TapCtx) (cx : Ctx) (sc : Spec.SpendCtx) (flags : Nat) (tx txin : Tx) (idx vout : Nat)
    (sv0 : SigVersion) (inp : TxIn) (spent : TxOut) (prog wlast : Bytes)
    (hinp : tx.vin[idx]? = some inp) (hspent : txin.vout[vout]? = some spent)
    (hsig : inp.scriptSig = []) (hspk : spent.scriptPubKey = 0x00 :: 0x20 :: prog) (hp : prog.length = 32)
    (hw : inp.witness.getLast? = some wlast)
    (hsha : ∀ b, h.sha256 b = sc.sha256 b)
    (hag : CheckerAgrees cx sc flags .WITNESS_V0 none none)
    (hW : hasFlag flags Flag.WITNESS = true) (hnz : Spec.toBool prog = true)
    (hdef : NoUndefinedOpcode wlast) :
    Agrees h tc cx flags tx txin idx vout sv0 continueFuel
      (Spec.verifyScript sc flags inp.scriptSig spent.scriptPubKey inp.witness) := by
  unfold Agrees
  rw [configure_p2wsh h tc tx txin idx vout sv0 inp spent prog wlast hinp hspent hsig hspk hp hw, hsig, hspk,
    verify_p2wsh sc flags prog wlast inp.witness hp hW hnz hw, hsha]
  exact p2wsh_core tc cx sc flags prog wlast inp.witness spent.value hag hdef

/-! ### 5. P2WPKH (native) -/

/-- the script `configure_tx_txin` generates for P2WPKH is validation's implied script -/
theorem p2pkh_model_eq (prog : Bytes) (hp : prog.length = 20) :
    (([Op.OP_DUP, Op.OP_HASH160].map UInt8.ofNat) ++ pushProgram prog ++ ([Op.OP_EQUALVERIFY, Op.OP_CHECKSIG].map UInt8.ofNat)) =
      Spec.p2pkhScript prog := by
  simp [pushProgram, Spec.p2pkhScript, hp, Op.OP_DUP, Op.OP_HASH160, Op.OP_EQUALVERIFY, Op.OP_CHECKSIG]

theorem hasValidOps_nil : hasValidOps [] = true := by
  rw [hasValidOps]; simp [getOp]

theorem hasValidOps_p2pkh (prog : Bytes) (hp : prog.length = 20) : hasValidOps (Spec.p2pkhScript prog) = true := by
  have hs : Spec.p2pkhScript prog = 0x76 :: 0xa9 :: 0x14 :: (prog ++ [0x88, 0xac]) := rfl
  rw [hs, hasValidOps, getOp_op 0x76 _ (by decide)]
  simp only [show ¬ ((0x76 : UInt8).toNat > Gen.MAX_OPCODE ∨ 0 > Gen.MAX_SCRIPT_ELEMENT_SIZE) by decide,
    List.length_nil, Bool.or_eq_true, decide_eq_true_eq, if_false]
  rw [hasValidOps, getOp_op 0xa9 _ (by decide)]
  simp only [show ¬ ((0xa9 : UInt8).toNat > Gen.MAX_OPCODE ∨ 0 > Gen.MAX_SCRIPT_ELEMENT_SIZE) by decide,
    List.length_nil, Bool.or_eq_true, decide_eq_true_eq, if_false]
  rw [hasValidOps, getOp_push_direct 0x14 prog [0x88, 0xac] (by decide) (by rw [hp]; rfl)]
  simp only [hp, show ¬ ((0x14 : UInt8).toNat > Gen.MAX_OPCODE ∨ 20 > Gen.MAX_SCRIPT_ELEMENT_SIZE) by decide,
    Bool.or_eq_true, decide_eq_true_eq, if_false]
  rw [hasValidOps, getOp_op 0x88 _ (by decide)]
  simp only [show ¬ ((0x88 : UInt8).toNat > Gen.MAX_OPCODE ∨ 0 > Gen.MAX_SCRIPT_ELEMENT_SIZE) by decide,
    List.length_nil, Bool.or_eq_true, decide_eq_true_eq, if_false]
  rw [hasValidOps, getOp_op 0xac _ (by decide)]
  simp only [show ¬ ((0xac : UInt8).toNat > Gen.MAX_OPCODE ∨ 0 > Gen.MAX_SCRIPT_ELEMENT_SIZE) by decide,
    List.length_nil, Bool.or_eq_true, decide_eq_true_eq, if_false]
  exact hasValidOps_nil

theorem configure_p2wpkh (h : HashCtx) (tc : TapCtx) (tx txin : Tx) (idx vout : Nat) (sv0 : SigVersion)
    (inp : TxIn) (spent : TxOut) (prog wlast : Bytes)
    (hinp : tx.vin[idx]? = some inp) (hspent : txin.vout[vout]? = some spent)
    (hsig : inp.scriptSig = []) (hspk : spent.scriptPubKey = 0x00 :: 0x14 :: prog) (hp : prog.length = 20)
    (hw : inp.witness.getLast? = some wlast) :
    configureTxTxin h tc tx txin idx vout sv0 =
      if h.hash160 wlast != prog then none
      else if inp.witness.any (fun i => i.length > Gen.MAX_SCRIPT_ELEMENT_SIZE) then none
      else some { sigver := .WITNESS_V0, script := Spec.p2pkhScript prog, stack := inp.witness, amount := spent.value,
                  hasPreamble := true } := by
  have g1 : getOp (0x00 :: 0x14 :: prog) = some { opcode := 0, data := [], rest := 0x14 :: prog } :=
    getOp_push_direct 0 [] (0x14 :: prog) (by decide) rfl
  have g2 : getOp (0x14 :: prog) = some { opcode := 0x14, data := prog, rest := [] } := by
    have := getOp_push_direct 0x14 prog [] (by decide) (by rw [hp]; rfl)
    rw [List.append_nil] at this
    exact this
  unfold configureTxTxin
  simp only [hinp, hspent, hw, hsig, hspk, List.length_nil, Nat.lt_irrefl, gt_iff_lt, if_false]
  have hm : UInt8.ofNat Op.OP_DUP :: UInt8.ofNat Op.OP_HASH160 ::
      (pushProgram prog ++ [UInt8.ofNat Op.OP_EQUALVERIFY, UInt8.ofNat Op.OP_CHECKSIG]) = Spec.p2pkhScript prog := by
    rw [← p2pkh_model_eq prog hp]; rfl
  simp [g1, g2, hp, Op.OP_0, hm, hasValidOps_p2pkh prog hp]

/-- `VerifyScript` for a native P2WPKH output -/
theorem verify_p2wpkh (sc : Spec.SpendCtx) (flags : Nat) (prog : Bytes) (witness : List Bytes)
    (hp : prog.length = 20) (hW : hasFlag flags Flag.WITNESS = true) (hnz : Spec.toBool prog = true) :
    Spec.verifyScript sc flags [] (0x00 :: 0x14 :: prog) witness =
      if witness.length != 2 then .error .WITNESS_PROGRAM_MISMATCH
      else Spec.executeWitnessScript sc flags .WITNESS_V0 none none witness (Spec.p2pkhScript prog) 0 := by
  have hb : (0x14 : UInt8) = UInt8.ofNat prog.length := by rw [hp]; rfl
  obtain ⟨st2, hrun, hst⟩ := eval_witprog_v0 (specCfg sc flags .BASE none none) prog [] (by omega) (by omega) (by decide)
  rw [← hb, ← runScript_eq] at hrun
  have htrue : Spec.evalTrue st2 = .ok () := by simp [Spec.evalTrue, hst, hnz]; rfl
  have hwp : Spec.witnessProgram (0x00 :: 0x14 :: prog) = some (0, prog) := by
    simp [Spec.witnessProgram, hp]
  have hnp : (hasFlag flags Flag.P2SH && Spec.isP2SH (0x00 :: 0x14 :: prog)) = false := by
    simp [Spec.isP2SH, hp]
  rw [verify_native sc flags _ witness 0 prog st2 hW hwp hnp hrun htrue]
  unfold Spec.verifyWitnessProgram
  simp only [BEq.rfl, if_true, hp, rThrow_bind, pure_bind, show (20 == 32) = false from rfl, Bool.false_eq_true, if_false]

theorem finalChecks_len (flags : Nat) (sv : SigVersion) (hsv : sv ≠ .BASE) (st : Spec.St) (h : st.stack.length ≠ 1) :
    specOk (finalChecks flags sv st) = false := by
  unfold finalChecks Spec.evalTrue
  have hb : (sv != SigVersion.BASE) = true := by simpa using hsv
  have hl : (st.stack.length != 1) = true := by simpa using h
  simp only [hb, Bool.true_or, Bool.true_and, hl, if_true]
  cases st.stack with
  | nil => rfl
  | cons t r => cases ht : Spec.toBool t <;> simp [specOk, rThrow_bind, ht]

/-- the P2WPKH session against `VerifyWitnessProgram` (version 0, 20-byte program), whichever script carried the program -/
theorem p2wpkh_core (tc : TapCtx) (cx : Ctx) (sc : Spec.SpendCtx) (flags : Nat) (prog wlast : Bytes) (witness : List Bytes)
    (amount : Int) (H : Bytes → Bytes) (hp : prog.length = 20) (hw : witness.getLast? = some wlast)
    (hh160 : ∀ b, H b =
      (sc.oracleFor .WITNESS_V0 none none).ripemd160 ((sc.oracleFor .WITNESS_V0 none none).sha256 b))
    (hag : CheckerAgrees cx sc flags .WITNESS_V0 none none) :
    AgreesC tc cx flags
      (if H wlast != prog then none
       else if witness.any (fun i => i.length > Gen.MAX_SCRIPT_ELEMENT_SIZE) then none
       else some { sigver := .WITNESS_V0, script := Spec.p2pkhScript prog, stack := witness, amount := amount,
                   hasPreamble := true })
      continueFuel
      (if witness.length != 2 then .error .WITNESS_PROGRAM_MISMATCH
       else Spec.executeWitnessScript sc flags .WITNESS_V0 none none witness (Spec.p2pkhScript prog) 0) := by
  unfold AgreesC
  have h520 : Gen.MAX_SCRIPT_ELEMENT_SIZE = Spec.maxElementSize := by decide
  rw [h520]
  -- what a successful run of the implied script on the witness entails
  have hrunok : ∀ st, Spec.runScript sc flags .WITNESS_V0 none none (Spec.p2pkhScript prog)
      { stack := witness.reverse, weightLeft := 0, weightInit := false } = .ok st →
      H wlast = prog ∧ st.stack.length + 1 = witness.length := by
    intro st hr
    rw [runScript_eq] at hr
    obtain ⟨key, sg, rest, e1, e2, e3⟩ := p2pkh_eval_ok _ prog hp _ st rfl hr
    simp only at e1
    have hk : wlast = key := by
      have : witness.reverse.head? = some wlast := by rw [List.head?_reverse]; exact hw
      rw [e1] at this
      simpa using this.symm
    have hl : witness.length = rest.length + 2 := by
      have := congrArg List.length e1
      simpa using this
    refine ⟨by rw [hh160, hk]; exact e2, by omega⟩
  by_cases h1 : (H wlast != prog) = true
  · -- refused: the key hash does not match
    simp only [h1, if_true]
    apply not_ok_of_specOk
    by_cases h2 : (witness.length != 2) = true
    · simp only [h2, if_true]; rfl
    · simp only [h2, Bool.false_eq_true, if_false]
      rw [ews_v0]
      split
      · rfl
      · cases hr : Spec.runScript sc flags .WITNESS_V0 none none (Spec.p2pkhScript prog)
            { stack := witness.reverse, weightLeft := 0, weightInit := false } with
        | error e => rfl
        | ok st =>
          exfalso
          have := (hrunok st hr).1
          simp [this] at h1
  · simp only [h1, Bool.false_eq_true, if_false]
    by_cases h3 : (witness.any fun i => decide (i.length > Spec.maxElementSize)) = true
    · -- refused: an item above 520 bytes
      simp only [h3, if_true]
      apply not_ok_of_specOk
      by_cases h2 : (witness.length != 2) = true
      · simp only [h2, if_true]; rfl
      · simp only [h2, Bool.false_eq_true, if_false]
        rw [ews_v0]
        simp only [h3, if_true]; rfl
    · simp only [h3, Bool.false_eq_true, if_false]
      rw [setup_eq]
      have hne : (SigVersion.WITNESS_V0 != SigVersion.TAPSCRIPT) = true := rfl
      have hlen25 : (Spec.p2pkhScript prog).length = 25 := by simp [Spec.p2pkhScript, hp]
      have h4 : ¬ (Spec.p2pkhScript prog).length > Gen.MAX_SCRIPT_SIZE := by rw [hlen25]; decide
      simp only [hne, h4, decide_false, Bool.and_false, Bool.false_eq_true, if_false, List.isEmpty_nil, Bool.not_true,
        Bool.false_and, show (SigVersion.WITNESS_V0 == SigVersion.TAPSCRIPT) = false from rfl]
      intro n hn
      obtain ⟨r, hE, hv⟩ := single_script_session cx tc (specCfg sc flags .WITNESS_V0 none none)
        (setupEnv witness (Spec.p2pkhScript prog) flags .WITNESS_V0 [] {} none)
        { stack := witness.reverse, weightLeft := 0, weightInit := false } flags .WITNESS_V0
        rfl rfl rfl (by simp [setupEnv]) (hag _ rfl)
        (by constructor <;> simp [setupEnv, condRel_empty]) rfl rfl (by intro hh; cases hh)
        (by intro _; show (Spec.p2pkhScript prog).length ≤ _; rw [hlen25]; decide)
      have hfuel : (setupEnv witness (Spec.p2pkhScript prog) flags .WITNESS_V0 [] {} none).pc.length + 1 ≤ n := by
        have : continueFuel (setupEnv witness (Spec.p2pkhScript prog) flags .WITNESS_V0 [] {} none) =
            (Spec.p2pkhScript prog).length + 4 := by simp [continueFuel, setupEnv]
        show (Spec.p2pkhScript prog).length + 1 ≤ n
        omega
      rw [hE.2 n hfuel, hv]
      show specOk (Spec.runScript sc flags .WITNESS_V0 none none (Spec.p2pkhScript prog)
            { stack := witness.reverse, weightLeft := 0, weightInit := false } >>= finalChecks flags .WITNESS_V0) = true ↔ _
      by_cases h2 : (witness.length != 2) = true
      · -- not exactly two items: validation says WITNESS_PROGRAM_MISMATCH; the session cannot end with one element
        simp only [h2, if_true]
        have hl2 : witness.length ≠ 2 := by simpa using h2
        constructor
        · intro hv'
          exfalso
          cases hr : Spec.runScript sc flags .WITNESS_V0 none none (Spec.p2pkhScript prog)
              { stack := witness.reverse, weightLeft := 0, weightInit := false } with
          | error e => rw [hr] at hv'; cases hv'
          | ok st =>
            rw [hr] at hv'
            simp only [rOk_bind] at hv'
            have := (hrunok st hr).2
            rw [finalChecks_len flags .WITNESS_V0 (by decide) st (by omega)] at hv'
            cases hv'
        · intro hh; cases hh
      · simp only [h2, Bool.false_eq_true, if_false]
        rw [ews_v0]
        simp only [h3, Bool.false_eq_true, if_false]
        rw [← ewsFinal_eq flags .WITNESS_V0 (by decide), specOk_iff]


/-- **C03 (c), native P2WPKH.**  scriptSig empty, scriptPubKey `OP_0 <20 bytes>`, non-empty witness, WITNESS flag.
    `configure_tx_txin` checks the HASH160 of the last witness item against the program (validation reaches the same
    verdict through EQUALVERIFY of the implied script, or WITNESS_PROGRAM_MISMATCH when the witness does not have
    exactly two items), enforces the item size limit, and the session runs validation's implied script
    `DUP HASH160 <program> EQUALVERIFY CHECKSIG` on the whole witness; exactly one true element must remain. -/
theorem C03_p2wpkh (h : HashCtx) (tc : TapCtx) (cx : Ctx) (sc : Spec.SpendCtx) (flags : Nat) (tx txin : Tx) (idx vout : Nat)
    (sv0 : SigVersion) (inp : TxIn) (spent : TxOut) (prog wlast : Bytes)
    (hinp : tx.vin[idx]? = some inp) (hspent : txin.vout[vout]? = some spent)
    (hsig : inp.scriptSig = []) (hspk : spent.scriptPubKey = 0x00 :: 0x14 :: prog) (hp : prog.length = 20)
    (hw : inp.witness.getLast? = some wlast)
    (hh160 : ∀ b, h.hash160 b =
      (sc.oracleFor .WITNESS_V0 none none).ripemd160 ((sc.oracleFor .WITNESS_V0 none none).sha256 b))
    (hag : CheckerAgrees cx sc flags .WITNESS_V0 none none)
    (hW : hasFlag flags Flag.WITNESS = true) (hnz : Spec.toBool prog = true) :
    Agrees h tc cx flags tx txin idx vout sv0 continueFuel
      (Spec.verifyScript sc flags inp.scriptSig spent.scriptPubKey inp.witness) := by
  unfold Agrees
  rw [configure_p2wpkh h tc tx txin idx vout sv0 inp spent prog wlast hinp hspent hsig hspk hp hw, hsig, hspk,
    verify_p2wpkh sc flags prog inp.witness hp hW hnz]
  exact p2wpkh_core tc cx sc flags prog wlast inp.witness spent.value h.hash160 hp hw hh160 hag

/-! ### 6. tapscript (script path) -/

/-- the annex test of `configure_tx_txin` -/
def hasAnnexM (w : List Bytes) (wlast : Bytes) : Bool :=
  w.length ≥ 2 && !wlast.isEmpty && byteAt wlast 0 == Gen.ANNEX_TAG

theorem configure_tapscript (h : HashCtx) (tc : TapCtx) (tx txin : Tx) (idx vout : Nat) (sv0 : SigVersion)
    (inp : TxIn) (spent : TxOut) (prog wlast control leafScript : Bytes) (stack : List Bytes)
    (hinp : tx.vin[idx]? = some inp) (hspent : txin.vout[vout]? = some spent)
    (hsig : inp.scriptSig = []) (hspk : spent.scriptPubKey = 0x51 :: 0x20 :: prog) (hp : prog.length = 32)
    (hw : inp.witness.getLast? = some wlast)
    (hstack : stack = if hasAnnexM inp.witness wlast then inp.witness.dropLast else inp.witness)
    (hctl : stack.getLast? = some control) (hleaf : stack.dropLast.getLast? = some leafScript) :
    configureTxTxin h tc tx txin idx vout sv0 =
      if (control.length < Gen.TAPROOT_CONTROL_BASE_SIZE || control.length > Gen.TAPROOT_CONTROL_MAX_SIZE ||
          (control.length - Gen.TAPROOT_CONTROL_BASE_SIZE) % Gen.TAPROOT_CONTROL_NODE_SIZE != 0) then none
      else if (byteAt control 0) &&& Gen.TAPROOT_LEAF_MASK != Gen.TAPROOT_LEAF_TAPSCRIPT then none
      else if stack.dropLast.dropLast.length > Gen.MAX_STACK_SIZE then none
      else if stack.dropLast.dropLast.any (fun i => i.length > Gen.MAX_SCRIPT_ELEMENT_SIZE) then none
      else if !hasValidOps leafScript then none
      else some { sigver := .TAPSCRIPT, script := leafScript, stack := stack.dropLast.dropLast, amount := spent.value,
                  execdata := { annexInit := true, annexPresent := hasAnnexM inp.witness wlast,
                                annexHash := if hasAnnexM inp.witness wlast then h.sha256 (compactSize wlast.length ++ wlast) else [],
                                tapleafHash := (Tce.init tc control prog leafScript).leaf, tapleafHashInit := true,
                                weightLeft := (witnessSerializeSize inp.witness + Gen.VALIDATION_WEIGHT_OFFSET : Nat),
                                weightInit := true },
                  tce := some (Tce.init tc control prog leafScript) } := by
  have g1 : getOp (0x51 :: 0x20 :: prog) = some { opcode := 0x51, data := [], rest := 0x20 :: prog } :=
    getOp_op 0x51 _ (by decide)
  have g2 : getOp (0x20 :: prog) = some { opcode := 0x20, data := prog, rest := [] } := by
    have := getOp_push_direct 0x20 prog [] (by decide) (by rw [hp]; rfl)
    rw [List.append_nil] at this
    exact this
  have hl2 : ¬ stack.length = 1 := by
    intro h1
    match stack, h1 with
    | [a], _ => simp at hleaf
  have htake : inp.witness.take stack.dropLast.dropLast.length = stack.dropLast.dropLast := by
    rw [hstack]
    split <;> simp [List.dropLast_eq_take, List.take_take] <;> omega
  unfold configureTxTxin
  simp only [hinp, hspent, hw, hsig, hspk, List.length_nil, Nat.lt_irrefl, gt_iff_lt, if_false]
  simp only [List.length_cons, hp, g1, g2]
  have hs' : (if (decide (inp.witness.length ≥ 2) && !List.isEmpty wlast && byteAt wlast 0 == Gen.ANNEX_TAG) = true
      then inp.witness.dropLast else inp.witness) = stack := by rw [hstack]; rfl
  simp only [hs']
  have hl2' : (stack.length == 1) = false := by simpa using hl2
  simp only [hl2', hctl, hleaf, htake]
  simp [Op.OP_0, Op.OP_1, hasAnnexM]

/-- the annex test of BIP341 -/
def hasAnnexS (w : List Bytes) (wlast : Bytes) : Bool := w.length ≥ 2 && wlast.head? == some 0x50

theorem two_of_dropLast_getLast {α} {l : List α} {x : α} (h : l.dropLast.getLast? = some x) : ∃ a b r, l = a :: b :: r := by
  match l, h with
  | [], h => simp at h
  | [a], h => simp at h
  | a :: b :: r, _ => exact ⟨a, b, r, rfl⟩

theorem verify_tapscript (sc : Spec.SpendCtx) (flags : Nat) (prog wlast control leafScript : Bytes) (witness stack : List Bytes)
    (hp : prog.length = 32) (hW : hasFlag flags Flag.WITNESS = true) (hT : hasFlag flags Flag.TAPROOT = true)
    (hnz : Spec.toBool prog = true) (hw : witness.getLast? = some wlast)
    (hstack : stack = if hasAnnexS witness wlast then witness.dropLast else witness)
    (hctl : stack.getLast? = some control) (hleaf : stack.dropLast.getLast? = some leafScript) :
    Spec.verifyScript sc flags [] (0x51 :: 0x20 :: prog) witness =
      if (control.length < 33 || control.length > 33 + 32 * 128 || (control.length - 33) % 32 != 0) = true then
        .error .TAPROOT_WRONG_CONTROL_SIZE
      else if (!Spec.bip341Valid sc.tap control leafScript prog) = true then .error .WITNESS_PROGRAM_MISMATCH
      else if ((control.headD 0).toNat - (control.headD 0).toNat % 2 == 0xc0) = true then
        Spec.executeWitnessScript sc flags .TAPSCRIPT (if hasAnnexS witness wlast then some wlast else none)
          (some (Spec.tapLeafHash sc.tap ((control.headD 0).toNat - (control.headD 0).toNat % 2) leafScript))
          stack.dropLast.dropLast leafScript ((Spec.witnessStackSize witness + 50 : Nat) : Int)
      else if hasFlag flags Flag.DISCOURAGE_UPGRADABLE_TAPROOT_VERSION = true then .error .DISCOURAGE_UPGRADABLE_TAPROOT_VERSION
      else .ok () := by
  have hb : (0x20 : UInt8) = UInt8.ofNat prog.length := by rw [hp]; rfl
  obtain ⟨st2, hrun, hst⟩ := eval_witprog_v1 (specCfg sc flags .BASE none none) prog [] (by omega) (by omega) (by decide)
  rw [← hb, ← runScript_eq] at hrun
  have htrue : Spec.evalTrue st2 = .ok () := by simp [Spec.evalTrue, hst, hnz]; rfl
  have hwp : Spec.witnessProgram (0x51 :: 0x20 :: prog) = some (1, prog) := by
    simp [Spec.witnessProgram, hp]
  have hnp : (hasFlag flags Flag.P2SH && Spec.isP2SH (0x51 :: 0x20 :: prog)) = false := by
    simp [Spec.isP2SH, hp]
  rw [verify_native sc flags _ witness 1 prog st2 hW hwp hnp hrun htrue]
  obtain ⟨a, b, r, hs3⟩ := two_of_dropLast_getLast hleaf
  unfold Spec.verifyWitnessProgram
  have ha : (decide (witness.length ≥ 2) && wlast.head? == some 80) = hasAnnexS witness wlast := rfl
  simp only [show ((1 : Nat) == 0) = false from rfl, Bool.false_eq_true, if_false, BEq.rfl, hp, Bool.true_and, Bool.not_false,
    if_true, hT, Bool.not_true, hw, ha, ← hstack]
  subst hs3
  simp only [hctl, hleaf, rThrow_bind]
  split
  · rfl
  · split
    · rfl
    · split
      · rfl
      · split <;> rfl

theorem annex_eq (w : List Bytes) (wlast : Bytes) : hasAnnexM w wlast = hasAnnexS w wlast := by
  unfold hasAnnexM hasAnnexS
  cases wlast with
  | nil => simp
  | cons b r =>
    have : (byteAt (b :: r) 0 == Gen.ANNEX_TAG) = (b == 0x50) := by
      rw [Bool.eq_iff_iff]; simp [byteAt, Gen.ANNEX_TAG, ← UInt8.toNat_inj]
    simp [this]

/-- the commitment phase of a tapscript session: `Iterate()` is called until it stops answering `processing` -/
theorem commit_phase (cx : Ctx) (tc : TapCtx) : ∀ (k : Nat) (e : IEnv) (t : Tce), e.tce = some t → e.done = false →
    match Tce.run tc k t with
    | (.failed, _) => Ends cx tc e k (.error (.script .WITNESS_PROGRAM_MISMATCH))
    | (.done, _) => ∃ e', (∀ N r, Ends cx tc e' N r → Ends cx tc e (N + k) r) ∧ e'.tce = none ∧ e'.done = false ∧
        e'.pc = e.pc ∧ e'.isP2sh = e.isP2sh ∧ e'.successor = e.successor ∧
        e'.see = { e.see with execdata := { e.see.execdata with tapleafHash := t.leaf, tapleafHashInit := true } }
    | (.processing, _) => True := by
  intro k
  induction k with
  | zero => intro e t _ _; simp [Tce.run]
  | succ k ih =>
    intro e t ht hd
    simp only [Tce.run]
    cases hit : t.iterate tc with
    | mk state t1 =>
      have hleaf : t1.leaf = t.leaf := by
        have := (Btcdeb.Proofs.Tce.iterate_frame tc t).2.2.2.2.2.2
        rw [hit] at this; exact this
      cases state with
      | failed =>
        simp only
        have hs : stepSession cx tc e = .error (.script .WITNESS_PROGRAM_MISMATCH) := by
          unfold stepSession; rw [ht]; simp only [hit]
        exact ends_weaken (ends_step_err cx tc e _ hd hs) (by omega)
      | done =>
        simp only
        have hs : stepSession cx tc e = .ok { e with
            tce := none, currOpSeq := e.currOpSeq + 1,
            see := { e.see with execdata := { e.see.execdata with tapleafHash := t1.leaf, tapleafHashInit := true } } } := by
          unfold stepSession; rw [ht]; simp only [hit]; rfl
        refine ⟨_, fun N r hE => ends_weaken (ends_step hd hs hE) (by omega), rfl, hd, rfl, rfl, rfl, ?_⟩
        rw [hleaf]
      | processing =>
        simp only
        have hs : stepSession cx tc e = .ok { e with tce := some t1, currOpSeq := e.currOpSeq + 1 } := by
          unfold stepSession; rw [ht]; simp only [hit]; rfl
        have := ih { e with tce := some t1, currOpSeq := e.currOpSeq + 1 } t1 rfl hd
        cases hr : Tce.run tc k t1 with
        | mk st2 t2 =>
          rw [hr] at this
          cases st2 with
          | failed =>
            simp only at this ⊢
            exact ends_weaken (ends_step hd hs this) (by omega)
          | done =>
            simp only at this ⊢
            obtain ⟨e', h1, h2, h3, h4, h5, h6, h7⟩ := this
            refine ⟨e', fun N r hE => ?_, h2, h3, h4, h5, h6, ?_⟩
            · exact ends_weaken (ends_step hd hs (h1 N r hE)) (by omega)
            · rw [h7, hleaf]
          | processing => trivial

/-- `ExecuteWitnessScript` for a tapscript without OP_SUCCESSx -/
theorem ews_tapscript (sc : Spec.SpendCtx) (flags : Nat) (annex leaf : Option Bytes) (items : List Bytes) (script : Bytes)
    (weight : Int) (hns : Spec.hasOpSuccess false script = false) :
    Spec.executeWitnessScript sc flags .TAPSCRIPT annex leaf items script weight =
      if (!(Spec.decodePrefix script.length script).2) = true then .error .BAD_OPCODE
      else if items.length > Spec.maxStackSize then .error .STACK_SIZE
      else if items.any (fun i => decide (i.length > Spec.maxElementSize)) = true then .error .PUSH_SIZE
      else Spec.runScript sc flags .TAPSCRIPT annex leaf script { stack := items.reverse, weightLeft := weight, weightInit := true }
        >>= ewsFinal := by
  have hfind : (Spec.decodePrefix script.length script).1.find? (fun p => Spec.isOpSuccess p.1.opcode) = none := by
    rw [List.find?_eq_none]
    intro p hp
    unfold Spec.hasOpSuccess at hns
    rw [List.any_eq_false] at hns
    have := hns p hp
    simpa using this
  unfold Spec.executeWitnessScript
  simp only [BEq.rfl, if_true, hfind, rThrow_bind, pure_bind]
  split
  · rfl
  · split
    · rfl
    · split
      · rfl
      · congr 1


theorem decodes_of_hasValidOps (s : Bytes) (h : hasValidOps s = true) : (Spec.decodePrefix s.length s).2 = true := by
  rw [C01.gate_is_domain] at h
  unfold Spec.inDomain Spec.decode Spec.decodeWithRest at h
  cases hd : (Spec.decodePrefix s.length s).2 with
  | true => rfl
  | false => simp [hd] at h

theorem witnessSize_eq (w : List Bytes) : witnessSerializeSize w = Spec.witnessStackSize w := rfl

/-- **C03 (f), tapscript (script path).**  scriptSig empty, scriptPubKey `OP_1 <32 bytes>`, witness with at least two
    items after the optional annex: `... <leaf script> <control block>`.  `configure_tx_txin` checks the control block size
    (TAPROOT_WRONG_CONTROL_SIZE), the item limits (STACK_SIZE / PUSH_SIZE), sets the signature budget to the serialized
    witness size + 50; the session first checks the commitment (the debugger's step-by-step Merkle path and tweak check is
    BIP341's rule, C05: a failed commitment fails the session = WITNESS_PROGRAM_MISMATCH) and then runs the leaf script
    as tapscript on the remaining items; exactly one true element must remain.
    Excluded by hypothesis: leaf versions other than 0xc0 (F-C03-future-witness-version), OP_SUCCESSx in the leaf
    (F-C03-op-success-refused), an undefined opcode in a branch that is not executed; for spends with several inputs the
    hypothesis `CheckerAgrees` does not hold of the implementation's checker (F-C03-multi-input-taproot). -/
theorem C03_tapscript (h : HashCtx) (tc : TapCtx) (cx : Ctx) (sc : Spec.SpendCtx) (flags : Nat) (tx txin : Tx) (idx vout : Nat)
    (sv0 : SigVersion) (inp : TxIn) (spent : TxOut) (prog wlast control leafScript : Bytes) (stack : List Bytes)
    (hinp : tx.vin[idx]? = some inp) (hspent : txin.vout[vout]? = some spent)
    (hsig : inp.scriptSig = []) (hspk : spent.scriptPubKey = 0x51 :: 0x20 :: prog) (hp : prog.length = 32)
    (hw : inp.witness.getLast? = some wlast)
    (hstack : stack = if hasAnnexS inp.witness wlast then inp.witness.dropLast else inp.witness)
    (hctl : stack.getLast? = some control) (hleaf : stack.dropLast.getLast? = some leafScript)
    (htap : C05.Agree tc sc.tap)
    (hag : CheckerAgrees cx sc flags .TAPSCRIPT (if hasAnnexS inp.witness wlast then some wlast else none)
      (some (Spec.tapLeafHash sc.tap 0xc0 leafScript)))
    (hW : hasFlag flags Flag.WITNESS = true) (hT : hasFlag flags Flag.TAPROOT = true) (hnz : Spec.toBool prog = true)
    (hlv : (control.headD 0).toNat - (control.headD 0).toNat % 2 = 0xc0)
    (hns : Spec.hasOpSuccess false leafScript = false) (hdef : NoUndefinedOpcode leafScript) :
    Agrees h tc cx flags tx txin idx vout sv0 continueFuel
      (Spec.verifyScript sc flags inp.scriptSig spent.scriptPubKey inp.witness) := by
  unfold Agrees AgreesC
  have hstackM : stack = if hasAnnexM inp.witness wlast then inp.witness.dropLast else inp.witness := by
    rw [annex_eq]; exact hstack
  rw [configure_tapscript h tc tx txin idx vout sv0 inp spent prog wlast control leafScript stack hinp hspent hsig hspk hp hw
    hstackM hctl hleaf, hsig, hspk,
    verify_tapscript sc flags prog wlast control leafScript inp.witness stack hp hW hT hnz hw hstack hctl hleaf]
  have hsz : (decide (control.length < Gen.TAPROOT_CONTROL_BASE_SIZE) || decide (control.length > Gen.TAPROOT_CONTROL_MAX_SIZE) ||
      (control.length - Gen.TAPROOT_CONTROL_BASE_SIZE) % Gen.TAPROOT_CONTROL_NODE_SIZE != 0) =
      (decide (control.length < 33) || decide (control.length > 33 + 32 * 128) || (control.length - 33) % 32 != 0) := rfl
  rw [hsz]
  by_cases h1 : (decide (control.length < 33) || decide (control.length > 33 + 32 * 128) || (control.length - 33) % 32 != 0) = true
  · simp only [h1, if_true]; intro hh; cases hh
  · simp only [h1, Bool.false_eq_true, if_false]
    obtain ⟨m, hm, hlen⟩ := (C05.C05_gate_bool control.length).1 (by rw [hsz]; simpa using h1)
    have hlvM : ((byteAt control 0) &&& Gen.TAPROOT_LEAF_MASK != Gen.TAPROOT_LEAF_TAPSCRIPT) = false := by
      rw [Btcdeb.Proofs.Tce.leafVersion_eq, hlv]; rfl
    simp only [hlvM, Bool.false_eq_true, if_false, hlv, BEq.rfl, if_true]
    rw [ews_tapscript sc flags _ _ _ _ _ hns]
    have h1000 : Gen.MAX_STACK_SIZE = Spec.maxStackSize := by decide
    have h520 : Gen.MAX_SCRIPT_ELEMENT_SIZE = Spec.maxElementSize := by decide
    rw [h1000, h520]
    -- the rejecting answers of the specification, whatever the commitment says
    have hrej : ∀ (x : Spec.R Unit), specOk x = false →
        (if (!Spec.bip341Valid sc.tap control leafScript prog) = true then Except.error ScriptError.WITNESS_PROGRAM_MISMATCH
          else x) ≠ .ok () := by
      intro x hx
      split
      · intro hh; cases hh
      · exact not_ok_of_specOk hx
    by_cases h2 : stack.dropLast.dropLast.length > Spec.maxStackSize
    · simp only [h2, decide_true, if_true]
      apply hrej
      split <;> rfl
    · simp only [h2, decide_false, Bool.false_eq_true, if_false]
      by_cases h3 : (stack.dropLast.dropLast.any fun i => decide (i.length > Spec.maxElementSize)) = true
      · simp only [h3, if_true]
        apply hrej
        split <;> rfl
      · simp only [h3, Bool.false_eq_true, if_false]
        by_cases h4 : hasValidOps leafScript = true
        · simp only [h4, Bool.not_true, Bool.false_eq_true, if_false, decodes_of_hasValidOps leafScript h4]
          -- the session
          rw [setup_eq]
          simp only [show (SigVersion.TAPSCRIPT != SigVersion.TAPSCRIPT) = false from rfl, Bool.false_and, Bool.false_eq_true,
            if_false, List.isEmpty_nil, Bool.not_true, BEq.rfl, Bool.true_and, scanOpSuccess_eq, hns]
          intro n hn
          generalize hed : ({
              annexInit := true, annexPresent := hasAnnexM inp.witness wlast,
              annexHash := if hasAnnexM inp.witness wlast then h.sha256 (compactSize wlast.length ++ wlast) else [],
              tapleafHash := (Tce.init tc control prog leafScript).leaf, tapleafHashInit := true,
              weightLeft := (witnessSerializeSize inp.witness + Gen.VALIDATION_WEIGHT_OFFSET : Nat),
              weightInit := true } : ExecData) = ed at hn ⊢
          have hedw : ed.weightLeft = ((Spec.witnessStackSize inp.witness + 50 : Nat) : Int) ∧ ed.weightInit = true ∧
              ed.codesepPos = 0xFFFFFFFF := by
            rw [← hed]; exact ⟨rfl, rfl, rfl⟩
          have hpl : (Tce.init tc control prog leafScript).pathLen = m := by
            simp only [Tce.init, Gen.TAPROOT_CONTROL_BASE_SIZE, Gen.TAPROOT_CONTROL_NODE_SIZE, hlen]
            omega
          have hfuel : continueFuel (setupEnv stack.dropLast.dropLast leafScript flags .TAPSCRIPT [] ed
              (some (Tce.init tc control prog leafScript))) = leafScript.length + (m + 1) + 4 := by
            simp [continueFuel, setupEnv, hpl]
          rw [hfuel] at hn
          have hd0 : (setupEnv stack.dropLast.dropLast leafScript flags .TAPSCRIPT [] ed
              (some (Tce.init tc control prog leafScript))).done = false := by simp [setupEnv]
          have hcp := commit_phase cx tc (m + 1) _ (Tce.init tc control prog leafScript) rfl hd0
          have hrun := C05.C05_run_eq tc sc.tap htap control prog leafScript m hlen hm
          cases hr : Tce.run tc (m + 1) (Tce.init tc control prog leafScript) with
          | mk state t' =>
            rw [hr] at hcp hrun
            simp only at hrun
            by_cases hb : Spec.bip341Valid sc.tap control leafScript prog = true
            · simp only [hb, if_true] at hrun
              subst hrun
              simp only [hb, Bool.not_true, Bool.false_eq_true, if_false]
              simp only at hcp
              obtain ⟨e', hE, ht', hd', hpc', hp2', hs', hsee'⟩ := hcp
              have hconf' : conf e'.see = (flags, .TAPSCRIPT, hasFlag flags Flag.MINIMALDATA, false, [], []) := by
                rw [hsee']; rfl
              obtain ⟨r, hEr, hv⟩ := single_script_session cx tc
                (specCfg sc flags .TAPSCRIPT (if hasAnnexS inp.witness wlast then some wlast else none)
                  (some (Spec.tapLeafHash sc.tap 0xc0 leafScript)))
                e' { stack := stack.dropLast.dropLast.reverse,
                     weightLeft := ((Spec.witnessStackSize inp.witness + 50 : Nat) : Int), weightInit := true }
                flags .TAPSCRIPT ht' (by rw [hp2']; rfl) (by rw [hs']; rfl) (by intro hh; rw [hd'] at hh; cases hh)
                (hag _ hconf')
                (by rw [hsee', hpc']
                    constructor <;> simp [setupEnv, condRel_empty, hedw.1, hedw.2.1, hedw.2.2])
                rfl (by rw [hsee']; rfl) (by intro _; rw [hsee']; exact hedw.2.1)
                (by intro hh; rcases hh with hh | hh <;> cases hh)
              have hpcl : e'.pc = leafScript := by rw [hpc']; rfl
              rw [hpcl] at hEr hv
              have hfin := hE _ _ hEr
              rw [hfin.2 n (by omega), hv, ← ewsFinal_eq flags .TAPSCRIPT (by decide), specOk_iff]
              rfl
            · have hb' : Spec.bip341Valid sc.tap control leafScript prog = false := by simpa using hb
              simp only [hb', Bool.false_eq_true, if_false] at hrun
              subst hrun
              simp only [hb', Bool.not_false, if_true]
              simp only at hcp
              rw [hcp.2 n (by omega)]
              constructor
              · intro hh; cases hh
              · intro hh; cases hh
        · -- `HasValidOps` fails on the leaf script
          simp only [h4, Bool.not_false, if_true]
          apply hrej
          split
          · rfl
          · cases hr : Spec.runScript sc flags .TAPSCRIPT (if hasAnnexS inp.witness wlast then some wlast else none)
                (some (Spec.tapLeafHash sc.tap 192 leafScript)) leafScript
                { stack := stack.dropLast.dropLast.reverse,
                  weightLeft := ((Spec.witnessStackSize inp.witness + 50 : Nat) : Int), weightInit := true } with
            | error y => rfl
            | ok st =>
              rw [runScript_eq] at hr
              rw [hasValidOps_of_eval_ok _ _ _ _ hdef hr] at h4
              exact absurd rfl h4


/-! ### 7. P2SH -/

theorem verify_spk_fail (sc : Spec.SpendCtx) (flags : Nat) (sig spk : Bytes) (w : List Bytes) (s1 : Spec.St) (y : ScriptError)
    (h1 : Spec.runScript sc flags .BASE none none sig {} = .ok s1)
    (h2 : Spec.runScript sc flags .BASE none none spk { stack := s1.stack } = .error y) :
    specOk (Spec.verifyScript sc flags sig spk w) = false := by
  unfold Spec.verifyScript
  simp only [h1, h2, rThrow_bind, rErr_bind, rOk_bind]
  split <;> rfl

theorem verify_evaltrue_fail (sc : Spec.SpendCtx) (flags : Nat) (sig spk : Bytes) (w : List Bytes) (s1 s2 : Spec.St) (y : ScriptError)
    (h1 : Spec.runScript sc flags .BASE none none sig {} = .ok s1)
    (h2 : Spec.runScript sc flags .BASE none none spk { stack := s1.stack } = .ok s2)
    (h3 : Spec.evalTrue s2 = .error y) :
    specOk (Spec.verifyScript sc flags sig spk w) = false := by
  unfold Spec.verifyScript
  simp only [h1, h2, h3, rThrow_bind, rErr_bind, rOk_bind]
  split <;> rfl

theorem verify_p2sh_notpush (sc : Spec.SpendCtx) (flags : Nat) (sig spk : Bytes) (s1 s2 : Spec.St)
    (hP : hasFlag flags Flag.P2SH = true) (hpat : Spec.isP2SH spk = true)
    (h1 : Spec.runScript sc flags .BASE none none sig {} = .ok s1)
    (h2 : Spec.runScript sc flags .BASE none none spk { stack := s1.stack } = .ok s2)
    (hws : Spec.witnessProgram spk = none)
    (hnp : Spec.isPushOnly sig = false) :
    specOk (Spec.verifyScript sc flags sig spk []) = false := by
  unfold Spec.verifyScript
  simp only [h1, h2, hP, hpat, hws, hnp, rThrow_bind, rErr_bind, rOk_bind, Bool.false_eq_true, if_false, Bool.and_self, if_true,
    List.isEmpty_nil, Bool.not_true, Bool.and_false, Bool.not_false, Bool.and_true]
  split
  · rfl
  · cases Spec.evalTrue s2 with
    | error e => rfl
    | ok u => simp only [rOk_bind]; split <;> rfl

theorem verify_p2sh_empty (sc : Spec.SpendCtx) (flags : Nat) (sig spk : Bytes) (s1 s2 : Spec.St)
    (hP : hasFlag flags Flag.P2SH = true) (hpat : Spec.isP2SH spk = true)
    (h1 : Spec.runScript sc flags .BASE none none sig {} = .ok s1)
    (h2 : Spec.runScript sc flags .BASE none none spk { stack := s1.stack } = .ok s2)
    (hws : Spec.witnessProgram spk = none)
    (hstk : s1.stack = []) :
    specOk (Spec.verifyScript sc flags sig spk []) = false := by
  rw [hstk] at h2
  unfold Spec.verifyScript
  simp only [h1, h2, hP, hpat, hws, hstk, rThrow_bind, rErr_bind, rOk_bind, Bool.false_eq_true, if_false, Bool.and_self, if_true,
    List.isEmpty_nil, Bool.not_true, Bool.and_false]
  split
  · rfl
  · cases Spec.evalTrue s2 with
    | error e => rfl
    | ok u =>
      simp only [rOk_bind]
      split
      · split <;> rfl
      · split <;> rfl

/-- `VerifyScript` for a P2SH spend with an empty witness, once scriptSig (push-only) and scriptPubKey have run:
    the redeem script on the rest of the scriptSig's stack, then the final checks -/
theorem verify_p2sh_tail (sc : Spec.SpendCtx) (flags : Nat) (sig spk redeem : Bytes) (rest : List Bytes) (s1 s2 : Spec.St)
    (hP : hasFlag flags Flag.P2SH = true) (hpat : Spec.isP2SH spk = true)
    (hpush : Spec.isPushOnly sig = true)
    (h1 : Spec.runScript sc flags .BASE none none sig {} = .ok s1)
    (h2 : Spec.runScript sc flags .BASE none none spk { stack := s1.stack } = .ok s2)
    (h3 : Spec.evalTrue s2 = .ok ())
    (hws : Spec.witnessProgram spk = none)
    (hstk : s1.stack = redeem :: rest)
    (hnw : hasFlag flags Flag.WITNESS = false ∨ Spec.witnessProgram redeem = none) :
    Spec.verifyScript sc flags sig spk [] =
      Spec.runScript sc flags .BASE none none redeem { stack := rest } >>= finalChecks flags .BASE := by
  rw [hstk] at h2
  unfold Spec.verifyScript
  rcases hnw with hw | hw
  · simp only [h1, h2, h3, hpush, hP, hpat, hws, hstk, hw, rThrow_bind, rErr_bind, rOk_bind, Bool.false_eq_true, if_false,
      Bool.and_self, if_true, List.isEmpty_nil, Bool.not_true, Bool.and_false]
    congr 1; funext s3
    unfold finalChecks
    congr 1; funext _
    cases hasFlag flags Flag.CLEANSTACK <;> simp <;> rfl
  · simp only [h1, h2, h3, hpush, hP, hpat, hws, hstk, hw, rThrow_bind, rErr_bind, rOk_bind, Bool.false_eq_true, if_false,
      Bool.and_self, if_true, List.isEmpty_nil, Bool.not_true, Bool.and_false]
    cases hasFlag flags Flag.WITNESS <;> simp only [Bool.false_eq_true, if_false, if_true] <;>
    (congr 1; funext s3
     unfold finalChecks
     congr 1; funext _
     cases hasFlag flags Flag.CLEANSTACK <;> simp <;> rfl)

theorem isP2SH_not_witprog (spk : Bytes) (h : Spec.isP2SH spk = true) : Spec.witnessProgram spk = none := by
  obtain ⟨rest, rfl⟩ := isP2SH_head spk h
  unfold Spec.witnessProgram
  cases rest with
  | nil => rfl
  | cons l prog =>
    simp only
    split
    · rfl
    · simp

theorem isP2SH_length (spk : Bytes) (h : Spec.isP2SH spk = true) : spk.length = 23 := by
  unfold Spec.isP2SH at h
  simp only [Bool.and_eq_true, beq_iff_eq] at h
  exact h.1.1.1

/-- **C03 (b), P2SH** (flag P2SH set, scriptPubKey `HASH160 <20 bytes> EQUAL`), empty witness, the redeem script not a
    witness program (or no WITNESS flag).  The session runs scriptSig and scriptPubKey, then — as validation does —
    requires a true result, a push-only scriptSig, takes the serialized redeem script from the top of the stack the
    scriptSig left, and runs it on the rest of that stack (fresh alt stack, conditional nesting and operation count).
    The verdict is `VerifyScript`'s for every fuel of at least `|scriptSig| + |scriptPubKey| + 523` steps
    (the redeem script has at most 520 bytes: it was pushed by a push-only scriptSig). -/
theorem C03_p2sh (cx : Ctx) (tc : TapCtx) (sc : Spec.SpendCtx) (flags : Nat) (sig spk : Bytes) (e0 : IEnv)
    (hag : CheckerAgrees cx sc flags .BASE none none)
    (hsetup : setupEnvironment [] sig flags .BASE spk false {} none [] [] = .ok e0)
    (hP : hasFlag flags Flag.P2SH = true) (hpat : Spec.isP2SH spk = true)
    (hnw : hasFlag flags Flag.WITNESS = false ∨
      ∀ s1 redeem rest, Spec.runScript sc flags .BASE none none sig {} = .ok s1 → s1.stack = redeem :: rest →
        Spec.witnessProgram redeem = none)
    (n : Nat) (hn : sig.length + spk.length + 523 ≤ n) :
    sessionValid flags .BASE (continueScript cx tc n e0) = specOk (Spec.verifyScript sc flags sig spk []) := by
  have hl23 := isP2SH_length spk hpat
  have hspk : spk ≠ [] := by intro h0; rw [h0] at hl23; simp at hl23
  have hws := isP2SH_not_witprog spk hpat
  obtain ⟨_, _, hpo, _⟩ := setup_ok hsetup
  have hpo' : (hasFlag flags Flag.SIGPUSHONLY && !Spec.isPushOnly sig) = false := by
    have : spk.isEmpty = false := by simpa using hspk
    rw [this, isPushOnly_eq] at hpo
    simpa using hpo
  rcases legacy_phases cx tc sc flags sig spk e0 hag hsetup hspk with
    ⟨x, y, hr1, hE⟩ | ⟨x, y, s1, hr1, hr2, hE⟩ |
    ⟨e2, s1, s2, hr1, hr2, hE, ht2, hd2, hpc2, hc2, hs2, hp2, hps2, hst2, hscr2, hse2, hsp2, hconf2⟩
  · rw [verify_sig_fail sc flags sig spk [] y hr1, invalid_of_ends_error flags .BASE hE n (by omega)]
  · rw [verify_spk_fail sc flags sig spk [] s1 y hr1 hr2, invalid_of_ends_error flags .BASE hE n (by omega)]
  · have hpp : p2shPattern flags spk = true := by rw [p2shPattern_eq, hP, hpat]; rfl
    rw [hpp] at hp2
    have hps2' := hps2 hpp
    have hstep := end_p2sh cx tc e2 ht2 hpc2 (by rw [hc2]; rfl) hp2
    rw [hst2, List.getLast?_reverse, hps2', List.getLast?_reverse, hscr2, isPayToScriptHash_eq, hpat, hse2, hsp2] at hstep
    -- the result of the scriptPubKey
    cases hs2s : s2.stack with
    | nil =>
      rw [hs2s] at hstep
      simp only [List.head?_nil] at hstep
      have hErr := hE _ _ (ends_step_err cx tc e2 _ hd2 hstep)
      rw [invalid_of_ends_error flags .BASE hErr n (by omega),
        verify_evaltrue_fail sc flags sig spk [] s1 s2 .EVAL_FALSE hr1 hr2 (by simp [Spec.evalTrue, hs2s]; rfl)]
    | cons t trest =>
      rw [hs2s] at hstep
      simp only [List.head?_cons, castToBool_eq_toBool] at hstep
      cases htb : Spec.toBool t with
      | false =>
        simp only [htb, Bool.not_false, if_true] at hstep
        have hErr := hE _ _ (ends_step_err cx tc e2 _ hd2 hstep)
        rw [invalid_of_ends_error flags .BASE hErr n (by omega),
          verify_evaltrue_fail sc flags sig spk [] s1 s2 .EVAL_FALSE hr1 hr2 (by simp [Spec.evalTrue, hs2s, htb]; rfl)]
      | true =>
        simp only [htb, Bool.not_true, Bool.false_eq_true, if_false, if_true, Bool.true_and] at hstep
        have h3 : Spec.evalTrue s2 = .ok () := by simp [Spec.evalTrue, hs2s, htb]; rfl
        rw [isPushOnly_eq] at hstep
        cases hpush : Spec.isPushOnly sig with
        | false =>
          simp only [hpush, Bool.not_false, if_true] at hstep
          have hErr := hE _ _ (ends_step_err cx tc e2 _ hd2 hstep)
          rw [invalid_of_ends_error flags .BASE hErr n (by omega),
            verify_p2sh_notpush sc flags sig spk s1 s2 hP hpat hr1 hr2 hws hpush]
        | true =>
          simp only [hpush, Bool.not_true, Bool.false_eq_true, if_false] at hstep
          cases hs1s : s1.stack with
          | nil =>
            rw [hs1s] at hstep
            simp only [List.head?_nil] at hstep
            have hErr := hE _ _ (ends_step_err cx tc e2 _ hd2 hstep)
            rw [invalid_of_ends_error flags .BASE hErr n (by omega),
              verify_p2sh_empty sc flags sig spk s1 s2 hP hpat hr1 hr2 hws hs1s]
          | cons redeem rest =>
            rw [hs1s] at hstep
            simp only [List.head?_cons] at hstep
            have hnw' : hasFlag flags Flag.WITNESS = false ∨ Spec.witnessProgram redeem = none := by
              rcases hnw with hh | hh
              · exact Or.inl hh
              · exact Or.inr (hh s1 redeem rest hr1 hs1s)
            rw [verify_p2sh_tail sc flags sig spk redeem rest s1 s2 hP hpat hpush hr1 hr2 h3 hws hs1s hnw']
            -- the redeem script was pushed by the push-only scriptSig: at most 520 bytes
            have hred : redeem.length ≤ Spec.maxElementSize := by
              rw [runScript_eq] at hr1
              exact pushonly_stack_bound _ sig s1 hpush hr1 redeem (by rw [hs1s]; exact List.mem_cons_self ..)
            obtain ⟨e3, hstep3, ht3, hd3, hpc3, hconf3, hstk3, halt3, hcond3, hops3, hpb3, hp3, hsu3⟩ :
                ∃ e3, stepSession cx tc e2 = .ok e3 ∧ e3.tce = none ∧ e3.done = false ∧ e3.pc = redeem ∧
                  conf e3.see = (flags, .BASE, hasFlag flags Flag.MINIMALDATA, false, [], []) ∧
                  e3.see.stack = rest.reverse ∧ e3.see.altstack = [] ∧ e3.see.cond = {} ∧ e3.see.nOpCount = 0 ∧
                  e3.see.pbegincodehash = e3.pc ∧ e3.isP2sh = false ∧ e3.successor = [] :=
              ⟨_, hstep, ht2, hd2, rfl, hconf2, by simp, rfl, hc2, rfl, rfl, rfl, hs2⟩
            have h3p := phase_base cx tc (specCfg sc flags .BASE none none) e3 rest (Or.inl rfl) ht3 (hag _ hconf3)
              hstk3 halt3 hcond3 hops3 hpb3
              (by rw [hpc3]; unfold Spec.maxElementSize at hred; unfold Spec.maxScriptSize; omega)
            rw [hpc3, ← runScript_eq] at h3p
            cases hm3 : phaseResult cx tc e3 with
            | error x =>
              rw [hm3] at h3p
              cases hr3 : Spec.runScript sc flags .BASE none none redeem { stack := rest } with
              | ok s3 => rw [hr3] at h3p; exact h3p.elim
              | error y =>
                have e1 := phase_err ht3 hd3 hm3
                rw [hpc3] at e1
                have hErr := hE _ _ (ends_step hd2 hstep3 e1)
                unfold Spec.maxElementSize at hred
                rw [invalid_of_ends_error flags .BASE hErr n (by omega)]
                rfl
            | ok e4 =>
              rw [hm3] at h3p
              cases hr3 : Spec.runScript sc flags .BASE none none redeem { stack := rest } with
              | error y => rw [hr3] at h3p; exact h3p.elim
              | ok s3 =>
                rw [hr3] at h3p
                obtain ⟨hout4, _, hpc4, hce4, hends4⟩ := phase_ok ht3 hd3 hm3
                simp only [outer, Prod.mk.injEq] at hout4
                obtain ⟨q1, q2, _, q4, _, _, q7, _⟩ := hout4
                have hfin := hends4 _ _ (ends_finish (by rw [q7]; exact ht3) (by rw [q1]; exact hd3) hpc4 hce4
                  (by rw [q2]; exact hp3) (by rw [q4]; exact hsu3))
                rw [hpc3] at hfin
                have hEnd := hE _ _ (ends_step hd2 hstep3 hfin)
                unfold Spec.maxElementSize at hred
                rw [hEnd.2 n (by omega)]
                simp only [rOk_bind]
                exact verdict_of_stack flags .BASE _ s3 h3p.1


/-! ### 8. taproot key path -/

theorem keypath_script_eq (prog : Bytes) (hp : prog.length = 32) :
    pushProgram prog ++ [UInt8.ofNat Op.OP_CHECKSIG] = 0x20 :: (prog ++ [0xac]) := by
  simp [pushProgram, hp, Op.OP_CHECKSIG]

theorem hasValidOps_keypath (prog : Bytes) (hp : prog.length = 32) : hasValidOps (0x20 :: (prog ++ [0xac])) = true := by
  rw [hasValidOps, getOp_push_direct 0x20 prog [0xac] (by decide) (by rw [hp]; rfl)]
  simp only [hp, show ¬ ((0x20 : UInt8).toNat > Gen.MAX_OPCODE ∨ 32 > Gen.MAX_SCRIPT_ELEMENT_SIZE) by decide,
    Bool.or_eq_true, decide_eq_true_eq, if_false]
  rw [hasValidOps, getOp_op 0xac _ (by decide)]
  simp only [show ¬ ((0xac : UInt8).toNat > Gen.MAX_OPCODE ∨ 0 > Gen.MAX_SCRIPT_ELEMENT_SIZE) by decide,
    List.length_nil, Bool.or_eq_true, decide_eq_true_eq, if_false]
  exact hasValidOps_nil

theorem configure_keypath (h : HashCtx) (tc : TapCtx) (tx txin : Tx) (idx vout : Nat) (sv0 : SigVersion)
    (inp : TxIn) (spent : TxOut) (prog wlast sg : Bytes)
    (hinp : tx.vin[idx]? = some inp) (hspent : txin.vout[vout]? = some spent)
    (hsig : inp.scriptSig = []) (hspk : spent.scriptPubKey = 0x51 :: 0x20 :: prog) (hp : prog.length = 32)
    (hw : inp.witness.getLast? = some wlast)
    (hstack : (if hasAnnexM inp.witness wlast then inp.witness.dropLast else inp.witness) = [sg]) :
    configureTxTxin h tc tx txin idx vout sv0 =
      some { sigver := .TAPROOT, script := 0x20 :: (prog ++ [0xac]), stack := [sg], amount := spent.value,
             execdata := { annexInit := true, annexPresent := hasAnnexM inp.witness wlast,
                           annexHash := if hasAnnexM inp.witness wlast then h.sha256 (compactSize wlast.length ++ wlast) else [] },
             hasPreamble := true } := by
  have g1 : getOp (0x51 :: 0x20 :: prog) = some { opcode := 0x51, data := [], rest := 0x20 :: prog } :=
    getOp_op 0x51 _ (by decide)
  have g2 : getOp (0x20 :: prog) = some { opcode := 0x20, data := prog, rest := [] } := by
    have := getOp_push_direct 0x20 prog [] (by decide) (by rw [hp]; rfl)
    rw [List.append_nil] at this
    exact this
  have htake : inp.witness.take 1 = [sg] := by
    split at hstack
    · have : inp.witness.dropLast = inp.witness.take (inp.witness.length - 1) := List.dropLast_eq_take ..
      rw [this] at hstack
      have hl : (inp.witness.take (inp.witness.length - 1)).length = 1 := by rw [hstack]; rfl
      simp only [List.length_take] at hl
      have : inp.witness.length - 1 = 1 := by omega
      rw [this] at hstack; exact hstack
    · rw [hstack]; rfl
  unfold configureTxTxin
  simp only [hinp, hspent, hw, hsig, hspk, List.length_nil, Nat.lt_irrefl, gt_iff_lt, if_false]
  simp only [List.length_cons, hp, g1, g2]
  have hs' : (if (decide (inp.witness.length ≥ 2) && !List.isEmpty wlast && byteAt wlast 0 == Gen.ANNEX_TAG) = true
      then inp.witness.dropLast else inp.witness) = [sg] := hstack
  simp only [hs']
  simp [Op.OP_0, Op.OP_1, hasAnnexM, keypath_script_eq prog hp, hasValidOps_keypath prog hp, htake]

/-- `VerifyScript` for a taproot key-path spend -/
theorem verify_keypath (sc : Spec.SpendCtx) (flags : Nat) (prog wlast sg : Bytes) (witness : List Bytes)
    (hp : prog.length = 32) (hW : hasFlag flags Flag.WITNESS = true) (hT : hasFlag flags Flag.TAPROOT = true)
    (hnz : Spec.toBool prog = true) (hw : witness.getLast? = some wlast)
    (hstack : (if hasAnnexS witness wlast then witness.dropLast else witness) = [sg]) :
    Spec.verifyScript sc flags [] (0x51 :: 0x20 :: prog) witness =
      match (sc.oracleFor .TAPROOT (if hasAnnexS witness wlast then some wlast else none) none).schnorr sg prog .TAPROOT 0xFFFFFFFF with
      | .ok () => .ok ()
      | .error e => .error e := by
  have hb : (0x20 : UInt8) = UInt8.ofNat prog.length := by rw [hp]; rfl
  obtain ⟨st2, hrun, hst⟩ := eval_witprog_v1 (specCfg sc flags .BASE none none) prog [] (by omega) (by omega) (by decide)
  rw [← hb, ← runScript_eq] at hrun
  have htrue : Spec.evalTrue st2 = .ok () := by simp [Spec.evalTrue, hst, hnz]; rfl
  have hwp : Spec.witnessProgram (0x51 :: 0x20 :: prog) = some (1, prog) := by
    simp [Spec.witnessProgram, hp]
  have hnp : (hasFlag flags Flag.P2SH && Spec.isP2SH (0x51 :: 0x20 :: prog)) = false := by
    simp [Spec.isP2SH, hp]
  rw [verify_native sc flags _ witness 1 prog st2 hW hwp hnp hrun htrue]
  unfold Spec.verifyWitnessProgram
  have ha : (decide (witness.length ≥ 2) && wlast.head? == some 80) = hasAnnexS witness wlast := rfl
  simp only [show ((1 : Nat) == 0) = false from rfl, Bool.false_eq_true, if_false, BEq.rfl, hp, Bool.true_and, Bool.not_false,
    if_true, hT, Bool.not_true, hw, ha, hstack]
  rfl

/-- **C03 (e), taproot key path.**  scriptSig empty, scriptPubKey `OP_1 <32 bytes>`, and the witness holds exactly one
    item once the optional annex (last item starting with 0x50, when there are at least two) is removed.
    `configure_tx_txin` generates the script `<program> OP_CHECKSIG` with signature version TAPROOT and puts the
    signature on the stack (the annex is not a stack item); the session is valid exactly when the specification's
    BIP340 check of the signature against the program (key-path digest, with the annex) succeeds. -/
theorem C03_keypath (h : HashCtx) (tc : TapCtx) (cx : Ctx) (sc : Spec.SpendCtx) (flags : Nat) (tx txin : Tx) (idx vout : Nat)
    (sv0 : SigVersion) (inp : TxIn) (spent : TxOut) (prog wlast sg : Bytes)
    (hinp : tx.vin[idx]? = some inp) (hspent : txin.vout[vout]? = some spent)
    (hsig : inp.scriptSig = []) (hspk : spent.scriptPubKey = 0x51 :: 0x20 :: prog) (hp : prog.length = 32)
    (hw : inp.witness.getLast? = some wlast)
    (hstack : (if hasAnnexS inp.witness wlast then inp.witness.dropLast else inp.witness) = [sg])
    (hag : CheckerAgrees cx sc flags .TAPROOT (if hasAnnexS inp.witness wlast then some wlast else none) none)
    (hW : hasFlag flags Flag.WITNESS = true) (hT : hasFlag flags Flag.TAPROOT = true) (hnz : Spec.toBool prog = true) :
    Agrees h tc cx flags tx txin idx vout sv0 continueFuel
      (Spec.verifyScript sc flags inp.scriptSig spent.scriptPubKey inp.witness) := by
  unfold Agrees AgreesC
  have hstackM : (if hasAnnexM inp.witness wlast then inp.witness.dropLast else inp.witness) = [sg] := by
    rw [annex_eq]; exact hstack
  rw [configure_keypath h tc tx txin idx vout sv0 inp spent prog wlast sg hinp hspent hsig hspk hp hw hstackM, hsig, hspk,
    verify_keypath sc flags prog wlast sg inp.witness hp hW hT hnz hw hstack]
  simp only
  rw [setup_eq]
  have hlen : (0x20 :: (prog ++ [0xac]) : Bytes).length = 34 := by simp [hp]
  have hnsz : ¬ (0x20 :: (prog ++ [0xac]) : Bytes).length > Gen.MAX_SCRIPT_SIZE := by rw [hlen]; decide
  simp only [hnsz, decide_false, Bool.and_false, Bool.false_eq_true, if_false, List.isEmpty_nil, Bool.not_true, Bool.false_and,
    show (SigVersion.TAPROOT == SigVersion.TAPSCRIPT) = false from rfl]
  intro n hn
  generalize hed : ({
      annexInit := true, annexPresent := hasAnnexM inp.witness wlast,
      annexHash := if hasAnnexM inp.witness wlast then h.sha256 (compactSize wlast.length ++ wlast) else [] } : ExecData) = ed at hn ⊢
  have hedw : ed.weightLeft = 0 ∧ ed.weightInit = false ∧ ed.codesepPos = 0xFFFFFFFF := by
    rw [← hed]; exact ⟨rfl, rfl, rfl⟩
  obtain ⟨r, hE, hv⟩ := single_script_session cx tc
    (specCfg sc flags .TAPROOT (if hasAnnexS inp.witness wlast then some wlast else none) none)
    (setupEnv [sg] (0x20 :: (prog ++ [0xac])) flags .TAPROOT [] ed none)
    { stack := [sg] } flags .TAPROOT
    rfl rfl rfl (by simp [setupEnv]) (hag _ rfl)
    (by constructor <;> simp [setupEnv, condRel_empty, hedw.1, hedw.2.1, hedw.2.2]) rfl rfl (by intro hh; cases hh)
    (by intro hh; rcases hh with hh | hh <;> cases hh)
  have hfuel : (setupEnv [sg] (0x20 :: (prog ++ [0xac])) flags .TAPROOT [] ed none).pc.length + 1 ≤ n := by
    have : continueFuel (setupEnv [sg] (0x20 :: (prog ++ [0xac])) flags .TAPROOT [] ed none) = 34 + 4 := by
      simp [continueFuel, setupEnv, hp]
    show (0x20 :: (prog ++ [0xac]) : Bytes).length + 1 ≤ n
    rw [hlen]; omega
  rw [hE.2 n hfuel, hv]
  show specOk ((Spec.evalScript _ (0x20 :: (prog ++ [0xac])) { stack := [sg] }).result >>= finalChecks flags .TAPROOT) = true ↔ _
  rw [keypath_eval _ rfl rfl prog sg hp]
  show specOk ((match (sc.oracleFor .TAPROOT (if hasAnnexS inp.witness wlast then some wlast else none) none).schnorr sg prog .TAPROOT 0xFFFFFFFF with
      | .ok () => .ok { ({ stack := [[1]] } : Spec.St) with codeFrom := 0x20 :: (prog ++ [0xac]) }
      | .error x => .error x) >>= finalChecks flags .TAPROOT) = true ↔ _
  cases (sc.oracleFor .TAPROOT (if hasAnnexS inp.witness wlast then some wlast else none) none).schnorr sg prog .TAPROOT 0xFFFFFFFF with
  | error e => simp [specOk]
  | ok u =>
    cases u
    simp [specOk, finalChecks, Spec.evalTrue, Spec.toBool]


/-! ### 9. P2SH-wrapped P2WSH / P2WPKH -/

/-- `VerifyScript` for a P2SH-wrapped witness program, once the three legacy evaluations are known -/
theorem verify_p2sh_witness (sc : Spec.SpendCtx) (flags : Nat) (sig spk redeem : Bytes) (witness : List Bytes)
    (ver : Nat) (prog : Bytes) (s1 s2 s3 : Spec.St)
    (hP : hasFlag flags Flag.P2SH = true) (hW : hasFlag flags Flag.WITNESS = true)
    (hpat : Spec.isP2SH spk = true) (hpush : Spec.isPushOnly sig = true)
    (h1 : Spec.runScript sc flags .BASE none none sig {} = .ok s1) (hs1 : s1.stack = [redeem])
    (h2 : Spec.runScript sc flags .BASE none none spk { stack := [redeem] } = .ok s2)
    (h3 : Spec.runScript sc flags .BASE none none redeem { stack := [] } = .ok s3)
    (ht3 : Spec.evalTrue s3 = .ok ())
    (hwp : Spec.witnessProgram redeem = some (ver, prog))
    (hsig : sig = Spec.pushOf redeem) :
    Spec.verifyScript sc flags sig spk witness =
      Spec.evalTrue s2 >>= fun _ => Spec.verifyWitnessProgram sc flags witness ver prog true := by
  have hws := isP2SH_not_witprog spk hpat
  have hne : (sig != Spec.pushOf redeem) = false := by rw [hsig]; simp
  unfold Spec.verifyScript
  simp only [hpush, Bool.not_true, Bool.and_false, Bool.false_eq_true, if_false, h1, hs1, h2, h3, ht3, hP, hW, hpat, hws, hwp, hne,
    rThrow_bind, rOk_bind, if_true, Bool.and_self, bne_self_eq_false]
  cases Spec.evalTrue s2 with
  | error e => rfl
  | ok u =>
    simp only [rOk_bind]
    cases Spec.verifyWitnessProgram sc flags witness ver prog true with
    | error e => rfl
    | ok u => cases u; simp

theorem vwp_v0_32 (sc : Spec.SpendCtx) (flags : Nat) (witness : List Bytes) (prog wlast : Bytes) (b : Bool)
    (hp : prog.length = 32) (hw : witness.getLast? = some wlast) :
    Spec.verifyWitnessProgram sc flags witness 0 prog b =
      if sc.sha256 wlast != prog then .error .WITNESS_PROGRAM_MISMATCH
      else Spec.executeWitnessScript sc flags .WITNESS_V0 none none witness.dropLast wlast 0 := by
  unfold Spec.verifyWitnessProgram
  simp only [BEq.rfl, if_true, hp, hw, rThrow_bind, pure_bind]

theorem vwp_v0_20 (sc : Spec.SpendCtx) (flags : Nat) (witness : List Bytes) (prog : Bytes) (b : Bool)
    (hp : prog.length = 20) :
    Spec.verifyWitnessProgram sc flags witness 0 prog b =
      if witness.length != 2 then .error .WITNESS_PROGRAM_MISMATCH
      else Spec.executeWitnessScript sc flags .WITNESS_V0 none none witness (Spec.p2pkhScript prog) 0 := by
  unfold Spec.verifyWitnessProgram
  simp only [BEq.rfl, if_true, hp, rThrow_bind, pure_bind, show (20 == 32) = false from rfl, Bool.false_eq_true, if_false]

theorem isPushOnly_push (data : Bytes) (h75 : data.length ≤ 75) :
    Spec.isPushOnly (UInt8.ofNat data.length :: data) = true := by
  rw [← isPushOnly_eq]
  have hb : (UInt8.ofNat data.length).toNat = data.length := by
    simp [UInt8.toNat_ofNat']; omega
  have g := getOp_push_direct (UInt8.ofNat data.length) data [] (by rw [hb]; omega) hb.symm
  rw [List.append_nil, hb] at g
  rw [Model.isPushOnly, g]
  have : ¬ data.length > Op.OP_16 := by simp [Op.OP_16]; omega
  simp only [this, if_false]
  rw [Model.isPushOnly]; simp [getOp]

theorem pushOf_short (data : Bytes) (h75 : data.length ≤ 75) : Spec.pushOf data = UInt8.ofNat data.length :: data := by
  unfold Spec.pushOf
  have : data.length < 0x4c := by omega
  simp [this]

theorem isP2SH_shape (hh : Bytes) (hl : hh.length = 20) : Spec.isP2SH (0xa9 :: 0x14 :: (hh ++ [0x87])) = true := by
  unfold Spec.isP2SH
  have h22 : (0xa9 :: 0x14 :: (hh ++ [0x87]) : Bytes)[22]? = some 0x87 := by
    simp only [List.getElem?_cons_succ]
    rw [List.getElem?_append_right (by omega)]
    simp [hl]
  simp [hl, h22]

/-- `VerifyScript` for a P2SH-wrapped version-0 witness program: the scriptSig is exactly the push of the redeem script
    `OP_0 <program>`; the three legacy evaluations amount to the HASH160 comparison; then `VerifyWitnessProgram` -/
theorem verify_wrapped_v0 (sc : Spec.SpendCtx) (flags : Nat) (hh prog : Bytes) (witness : List Bytes)
    (hP : hasFlag flags Flag.P2SH = true) (hW : hasFlag flags Flag.WITNESS = true)
    (hl : hh.length = 20) (hp : prog.length = 20 ∨ prog.length = 32) (hnz : Spec.toBool prog = true) :
    Spec.verifyScript sc flags (Spec.pushOf (0x00 :: UInt8.ofNat prog.length :: prog)) (0xa9 :: 0x14 :: (hh ++ [0x87])) witness =
      if ((sc.oracleFor .BASE none none).ripemd160 ((sc.oracleFor .BASE none none).sha256 (0x00 :: UInt8.ofNat prog.length :: prog)) == hh) = true
      then Spec.verifyWitnessProgram sc flags witness 0 prog true
      else .error .EVAL_FALSE := by
  have hrl : (0x00 :: UInt8.ofNat prog.length :: prog : Bytes).length ≤ 75 := by
    simp only [List.length_cons]; rcases hp with h | h <;> omega
  have hrl2 : 2 ≤ (0x00 :: UInt8.ofNat prog.length :: prog : Bytes).length := by simp
  rw [pushOf_short _ hrl]
  obtain ⟨s1, h1, hs1⟩ := push_script_eval (specCfg sc flags .BASE none none) _ hrl2 hrl
  obtain ⟨s2, h2, hs2⟩ := p2sh_spk_eval (specCfg sc flags .BASE none none) rfl hh (0x00 :: UInt8.ofNat prog.length :: prog) hl
  obtain ⟨s3, h3, hs3⟩ := eval_witprog_v0 (specCfg sc flags .BASE none none) prog [] (by rcases hp with h | h <;> omega)
    (by rcases hp with h | h <;> omega) (by decide)
  have hwp : Spec.witnessProgram (0x00 :: UInt8.ofNat prog.length :: prog) = some (0, prog) := by
    rcases hp with h | h <;> simp [Spec.witnessProgram, h]
  rw [verify_p2sh_witness sc flags _ _ (0x00 :: UInt8.ofNat prog.length :: prog) witness 0 prog s1 s2 s3 hP hW
    (isP2SH_shape hh hl) (isPushOnly_push _ hrl) h1 hs1 h2 h3 (by simp [Spec.evalTrue, hs3, hnz]; rfl) hwp
    (pushOf_short _ hrl).symm]
  simp only [Spec.evalTrue, hs2, toBool_ofBool]
  show (if ((sc.oracleFor .BASE none none).ripemd160 ((sc.oracleFor .BASE none none).sha256 (0x00 :: UInt8.ofNat prog.length :: prog)) == hh) = true
      then (pure () : Spec.R Unit) else throw .EVAL_FALSE) >>= _ = _
  split <;> rfl

theorem pushData_short (data : Bytes) (h75 : data.length ≤ 75) : pushData data = UInt8.ofNat data.length :: data := by
  rw [pushData_eq, pushOf_short data h75]

/-- the part of `configure_tx_txin` that extracts the redeem script of a P2SH-wrapped witness spend -/
theorem configure_wrapped_p2wsh (h : HashCtx) (tc : TapCtx) (tx txin : Tx) (idx vout : Nat) (sv0 : SigVersion)
    (inp : TxIn) (spent : TxOut) (prog hh wlast : Bytes)
    (hinp : tx.vin[idx]? = some inp) (hspent : txin.vout[vout]? = some spent)
    (hsig : inp.scriptSig = Spec.pushOf (0x00 :: 0x20 :: prog)) (hspk : spent.scriptPubKey = 0xa9 :: 0x14 :: (hh ++ [0x87]))
    (hp : prog.length = 32) (hl : hh.length = 20) (hw : inp.witness.getLast? = some wlast) :
    configureTxTxin h tc tx txin idx vout sv0 =
      if h.hash160 (0x00 :: 0x20 :: prog) != hh then none
      else if h.sha256 wlast != prog then none
      else if inp.witness.dropLast.any (fun i => i.length > Gen.MAX_SCRIPT_ELEMENT_SIZE) then none
      else if !hasValidOps wlast then none
      else some { sigver := .WITNESS_V0, script := wlast, stack := inp.witness.dropLast, amount := spent.value } := by
  have hrl : (0x00 :: 0x20 :: prog : Bytes).length = 34 := by simp [hp]
  have hps : Spec.pushOf (0x00 :: 0x20 :: prog) = 0x22 :: 0x00 :: 0x20 :: prog := by
    rw [pushOf_short _ (by omega), hrl]; rfl
  have g0 : getOp (0x22 :: 0x00 :: 0x20 :: prog) = some { opcode := 0x22, data := 0x00 :: 0x20 :: prog, rest := [] } := by
    have := getOp_push_direct 0x22 (0x00 :: 0x20 :: prog) [] (by decide) (by rw [hrl]; rfl)
    rw [List.append_nil] at this
    exact this
  have hpd : pushData (0x00 :: 0x20 :: prog) = 0x22 :: 0x00 :: 0x20 :: prog := by
    rw [pushData_short _ (by omega), hrl]; rfl
  have gs1 : getOp (0xa9 :: 0x14 :: (hh ++ [0x87])) = some { opcode := 0xa9, data := [], rest := 0x14 :: (hh ++ [0x87]) } :=
    getOp_op 0xa9 _ (by decide)
  have gs2 : getOp (0x14 :: (hh ++ [0x87])) = some { opcode := 0x14, data := hh, rest := [0x87] } :=
    getOp_push_direct 0x14 hh [0x87] (by decide) (by rw [hl]; rfl)
  have g1 : getOp (0x00 :: 0x20 :: prog) = some { opcode := 0, data := [], rest := 0x20 :: prog } :=
    getOp_push_direct 0 [] (0x20 :: prog) (by decide) rfl
  have g2 : getOp (0x20 :: prog) = some { opcode := 0x20, data := prog, rest := [] } := by
    have := getOp_push_direct 0x20 prog [] (by decide) (by rw [hp]; rfl)
    rw [List.append_nil] at this
    exact this
  have hpat : isPayToScriptHash (0xa9 :: 0x14 :: (hh ++ [0x87])) = true := by
    rw [isPayToScriptHash_eq]; exact isP2SH_shape hh hl
  unfold configureTxTxin
  simp only [hinp, hspent, hw, hsig, hspk, hps]
  by_cases hq : h.hash160 (0x00 :: 0x20 :: prog) = hh
  · simp [hq, g0, hpd, gs1, gs2, g1, g2, hp, hl, hpat, Op.OP_0, Op.OP_HASH160, List.dropLast_eq_take]
  · simp [hq, g0, hpd, gs1, gs2, g1, g2, hp, hl, hpat, Op.OP_0, Op.OP_HASH160, List.dropLast_eq_take]

theorem configure_wrapped_p2wpkh (h : HashCtx) (tc : TapCtx) (tx txin : Tx) (idx vout : Nat) (sv0 : SigVersion)
    (inp : TxIn) (spent : TxOut) (prog hh wlast : Bytes)
    (hinp : tx.vin[idx]? = some inp) (hspent : txin.vout[vout]? = some spent)
    (hsig : inp.scriptSig = Spec.pushOf (0x00 :: 0x14 :: prog)) (hspk : spent.scriptPubKey = 0xa9 :: 0x14 :: (hh ++ [0x87]))
    (hp : prog.length = 20) (hl : hh.length = 20) (hw : inp.witness.getLast? = some wlast) :
    configureTxTxin h tc tx txin idx vout sv0 =
      if h.hash160 (0x00 :: 0x14 :: prog) != hh then none
      else if h.hash160 wlast != prog then none
      else if inp.witness.any (fun i => i.length > Gen.MAX_SCRIPT_ELEMENT_SIZE) then none
      else some { sigver := .WITNESS_V0, script := Spec.p2pkhScript prog, stack := inp.witness, amount := spent.value,
                  hasPreamble := true } := by
  have hrl : (0x00 :: 0x14 :: prog : Bytes).length = 22 := by simp [hp]
  have hps : Spec.pushOf (0x00 :: 0x14 :: prog) = 0x16 :: 0x00 :: 0x14 :: prog := by
    rw [pushOf_short _ (by omega), hrl]; rfl
  have g0 : getOp (0x16 :: 0x00 :: 0x14 :: prog) = some { opcode := 0x16, data := 0x00 :: 0x14 :: prog, rest := [] } := by
    have := getOp_push_direct 0x16 (0x00 :: 0x14 :: prog) [] (by decide) (by rw [hrl]; rfl)
    rw [List.append_nil] at this
    exact this
  have hpd : pushData (0x00 :: 0x14 :: prog) = 0x16 :: 0x00 :: 0x14 :: prog := by
    rw [pushData_short _ (by omega), hrl]; rfl
  have gs1 : getOp (0xa9 :: 0x14 :: (hh ++ [0x87])) = some { opcode := 0xa9, data := [], rest := 0x14 :: (hh ++ [0x87]) } :=
    getOp_op 0xa9 _ (by decide)
  have gs2 : getOp (0x14 :: (hh ++ [0x87])) = some { opcode := 0x14, data := hh, rest := [0x87] } :=
    getOp_push_direct 0x14 hh [0x87] (by decide) (by rw [hl]; rfl)
  have g1 : getOp (0x00 :: 0x14 :: prog) = some { opcode := 0, data := [], rest := 0x14 :: prog } :=
    getOp_push_direct 0 [] (0x14 :: prog) (by decide) rfl
  have g2 : getOp (0x14 :: prog) = some { opcode := 0x14, data := prog, rest := [] } := by
    have := getOp_push_direct 0x14 prog [] (by decide) (by rw [hp]; rfl)
    rw [List.append_nil] at this
    exact this
  have hm : UInt8.ofNat Op.OP_DUP :: UInt8.ofNat Op.OP_HASH160 ::
      (pushProgram prog ++ [UInt8.ofNat Op.OP_EQUALVERIFY, UInt8.ofNat Op.OP_CHECKSIG]) = Spec.p2pkhScript prog := by
    rw [← p2pkh_model_eq prog hp]; rfl
  unfold configureTxTxin
  simp only [hinp, hspent, hw, hsig, hspk, hps]
  have hm' : UInt8.ofNat Op.OP_DUP :: 169 ::
      (pushProgram prog ++ [UInt8.ofNat Op.OP_EQUALVERIFY, UInt8.ofNat Op.OP_CHECKSIG]) = Spec.p2pkhScript prog := hm
  have hpat : isPayToScriptHash (0xa9 :: 0x14 :: (hh ++ [0x87])) = true := by
    rw [isPayToScriptHash_eq]; exact isP2SH_shape hh hl
  by_cases hq : h.hash160 (0x00 :: 0x14 :: prog) = hh
  · simp [hq, g0, hpd, gs1, gs2, g1, g2, hp, hl, hpat, Op.OP_0, Op.OP_HASH160, hm', hasValidOps_p2pkh prog hp]
  · simp [hq, g0, hpd, gs1, gs2, g1, g2, hp, hl, hpat, Op.OP_0, Op.OP_HASH160, hm', hasValidOps_p2pkh prog hp]

/-- **C03 (d), P2SH-wrapped P2WSH.**  Flags P2SH and WITNESS; scriptPubKey `HASH160 <20 bytes> EQUAL`; scriptSig exactly the
    push of the redeem script `OP_0 <32 bytes>`.  The debugger does not execute the P2SH layer: it compares the HASH160
    of the redeem script with the committed hash (a mismatch is refused; validation's scriptPubKey run ends with a false
    top element), and then proceeds as for native P2WSH. -/
theorem C03_p2sh_p2wsh (h : HashCtx) (tc : TapCtx) (cx : Ctx) (sc : Spec.SpendCtx) (flags : Nat) (tx txin : Tx) (idx vout : Nat)
    (sv0 : SigVersion) (inp : TxIn) (spent : TxOut) (prog hh wlast : Bytes)
    (hinp : tx.vin[idx]? = some inp) (hspent : txin.vout[vout]? = some spent)
    (hsig : inp.scriptSig = Spec.pushOf (0x00 :: 0x20 :: prog)) (hspk : spent.scriptPubKey = 0xa9 :: 0x14 :: (hh ++ [0x87]))
    (hp : prog.length = 32) (hl : hh.length = 20) (hw : inp.witness.getLast? = some wlast)
    (hsha : ∀ b, h.sha256 b = sc.sha256 b)
    (hh160 : ∀ b, h.hash160 b = (sc.oracleFor .BASE none none).ripemd160 ((sc.oracleFor .BASE none none).sha256 b))
    (hag : CheckerAgrees cx sc flags .WITNESS_V0 none none)
    (hP : hasFlag flags Flag.P2SH = true) (hW : hasFlag flags Flag.WITNESS = true) (hnz : Spec.toBool prog = true)
    (hdef : NoUndefinedOpcode wlast) :
    Agrees h tc cx flags tx txin idx vout sv0 continueFuel
      (Spec.verifyScript sc flags inp.scriptSig spent.scriptPubKey inp.witness) := by
  unfold Agrees
  have hb : (0x20 : UInt8) = UInt8.ofNat prog.length := by rw [hp]; rfl
  rw [configure_wrapped_p2wsh h tc tx txin idx vout sv0 inp spent prog hh wlast hinp hspent hsig hspk hp hl hw, hsig, hspk]
  have hv := verify_wrapped_v0 sc flags hh prog inp.witness hP hW hl (Or.inr hp) hnz
  rw [← hb] at hv
  rw [hv, hh160, vwp_v0_32 sc flags inp.witness prog wlast true hp hw, hsha]
  by_cases hq : ((sc.oracleFor .BASE none none).ripemd160 ((sc.oracleFor .BASE none none).sha256 (0x00 :: 0x20 :: prog)) == hh) = true
  · have hq' : ((sc.oracleFor .BASE none none).ripemd160 ((sc.oracleFor .BASE none none).sha256 (0x00 :: 0x20 :: prog)) != hh) = false := by
      simp only [bne, hq, Bool.not_true]
    simp only [hq, hq', if_true, Bool.false_eq_true, if_false]
    exact p2wsh_core tc cx sc flags prog wlast inp.witness spent.value hag hdef
  · have hq' : ((sc.oracleFor .BASE none none).ripemd160 ((sc.oracleFor .BASE none none).sha256 (0x00 :: 0x20 :: prog)) != hh) = true := by
      simp only [bne]; simpa using hq
    simp only [hq, hq', if_true, Bool.false_eq_true, if_false]
    unfold AgreesC
    intro hx; cases hx

/-- **C03 (d), P2SH-wrapped P2WPKH.**  As `C03_p2sh_p2wsh`, with the redeem script `OP_0 <20 bytes>`. -/
theorem C03_p2sh_p2wpkh (h : HashCtx) (tc : TapCtx) (cx : Ctx) (sc : Spec.SpendCtx) (flags : Nat) (tx txin : Tx) (idx vout : Nat)
    (sv0 : SigVersion) (inp : TxIn) (spent : TxOut) (prog hh wlast : Bytes)
    (hinp : tx.vin[idx]? = some inp) (hspent : txin.vout[vout]? = some spent)
    (hsig : inp.scriptSig = Spec.pushOf (0x00 :: 0x14 :: prog)) (hspk : spent.scriptPubKey = 0xa9 :: 0x14 :: (hh ++ [0x87]))
    (hp : prog.length = 20) (hl : hh.length = 20) (hw : inp.witness.getLast? = some wlast)
    (hh160 : ∀ b, h.hash160 b = (sc.oracleFor .BASE none none).ripemd160 ((sc.oracleFor .BASE none none).sha256 b))
    (hh160w : ∀ b, h.hash160 b =
      (sc.oracleFor .WITNESS_V0 none none).ripemd160 ((sc.oracleFor .WITNESS_V0 none none).sha256 b))
    (hag : CheckerAgrees cx sc flags .WITNESS_V0 none none)
    (hP : hasFlag flags Flag.P2SH = true) (hW : hasFlag flags Flag.WITNESS = true) (hnz : Spec.toBool prog = true) :
    Agrees h tc cx flags tx txin idx vout sv0 continueFuel
      (Spec.verifyScript sc flags inp.scriptSig spent.scriptPubKey inp.witness) := by
  unfold Agrees
  have hb : (0x14 : UInt8) = UInt8.ofNat prog.length := by rw [hp]; rfl
  rw [configure_wrapped_p2wpkh h tc tx txin idx vout sv0 inp spent prog hh wlast hinp hspent hsig hspk hp hl hw, hsig, hspk]
  have hv := verify_wrapped_v0 sc flags hh prog inp.witness hP hW hl (Or.inl hp) hnz
  rw [← hb] at hv
  rw [hv, hh160 (0x00 :: 0x14 :: prog), vwp_v0_20 sc flags inp.witness prog true hp]
  by_cases hq : ((sc.oracleFor .BASE none none).ripemd160 ((sc.oracleFor .BASE none none).sha256 (0x00 :: 0x14 :: prog)) == hh) = true
  · have hq' : ((sc.oracleFor .BASE none none).ripemd160 ((sc.oracleFor .BASE none none).sha256 (0x00 :: 0x14 :: prog)) != hh) = false := by
      simp only [bne, hq, Bool.not_true]
    simp only [hq, hq', if_true, Bool.false_eq_true, if_false]
    exact p2wpkh_core tc cx sc flags prog wlast inp.witness spent.value h.hash160 hp hw hh160w hag
  · have hq' : ((sc.oracleFor .BASE none none).ripemd160 ((sc.oracleFor .BASE none none).sha256 (0x00 :: 0x14 :: prog)) != hh) = true := by
      simp only [bne]; simpa using hq
    simp only [hq, hq', if_true, Bool.false_eq_true, if_false]
    unfold AgreesC
    intro hx; cases hx

/-! ### 10. input selection -/

/-- how `--select` reaches `parse_input_transaction`: `-1` (the default) = not given -/
def selectOpt (select : Int) : Option Nat := if select > -1 then some select.toNat else none

/-- **C03, input selection.**  `Instance::parse_input_transaction` picks the input the specification names: the selected
    one if a selection is given — refusing when it does not reference the funding transaction or is out of range —, the
    first input referencing the funding transaction otherwise; and the referenced output must exist. -/
theorem C03_select (h : HashCtx) (tx txin : Tx) (select : Int) :
    parseInputTransaction h tx txin select = Spec.spendingInput (txHash h.hash256) tx txin (selectOpt select) := by
  unfold parseInputTransaction Spec.spendingInput selectOpt
  by_cases hs : select > -1
  · simp only [hs, if_true]
    cases hv : tx.vin[select.toNat]? with
    | none => simp
    | some i =>
      simp only [Option.bind_some]
      by_cases hh : i.prevout.hash = txHash h.hash256 txin
      · simp only [hh, bne_self_eq_false, Bool.false_eq_true, if_false, BEq.rfl, if_true, Option.bind_some]
        by_cases hn : i.prevout.n ≥ txin.vout.length
        · have : ¬ i.prevout.n < txin.vout.length := by omega
          simp [hn, this]
        · have : i.prevout.n < txin.vout.length := by omega
          simp [hn, this]
      · have h1 : (i.prevout.hash != txHash h.hash256 txin) = true := by simpa using hh
        have h2 : (i.prevout.hash == txHash h.hash256 txin) = false := by simpa using hh
        simp [h1, h2]
  · simp only [hs, if_false]
    cases hf : tx.vin.findIdx? (fun i => i.prevout.hash == txHash h.hash256 txin) with
    | none => simp
    | some k =>
      simp only [Option.bind_some]
      cases hv : tx.vin[k]? with
      | none => simp
      | some i =>
        simp only [Option.map_some, Option.bind_some]
        by_cases hn : i.prevout.n ≥ txin.vout.length
        · have : ¬ i.prevout.n < txin.vout.length := by omega
          simp [hn, this]
        · have : i.prevout.n < txin.vout.length := by omega
          simp [hn, this]

/-- a selection that does not reference the funding transaction is refused -/
theorem C03_select_refused (h : HashCtx) (tx txin : Tx) (select : Int) (i : TxIn) (hs : select > -1)
    (hv : tx.vin[select.toNat]? = some i) (hne : i.prevout.hash ≠ txHash h.hash256 txin) :
    parseInputTransaction h tx txin select = none := by
  unfold parseInputTransaction
  have h1 : (i.prevout.hash != txHash h.hash256 txin) = true := by simpa using hne
  simp [hs, hv, h1]

/-- what is selected references the funding transaction, and amount and locking script are those of the referenced
    output: the indices `configure_tx_txin` is called with are in range -/
theorem C03_select_sound (h : HashCtx) (tx txin : Tx) (select : Int) (k n : Nat)
    (hp : parseInputTransaction h tx txin select = some (k, n)) :
    ∃ inp spent, tx.vin[k]? = some inp ∧ txin.vout[n]? = some spent ∧ inp.prevout.hash = txHash h.hash256 txin ∧
      inp.prevout.n = n := by
  unfold parseInputTransaction at hp
  simp only at hp
  split at hp
  · cases hp
  · rename_i k' n' hfound
    split at hp
    · cases hp
    · rename_i hlt
      cases hp
      have hlt' : n < txin.vout.length := by omega
      split at hfound
      · split at hfound
        · cases hfound
        · rename_i i hv
          split at hfound
          · cases hfound
          · rename_i hh
            cases hfound
            exact ⟨i, txin.vout[i.prevout.n], hv, by simp [hlt'], by simpa using hh, rfl⟩
      · split at hfound
        · cases hfound
        · rename_i k2 hf
          cases hv : tx.vin[k2]? with
          | none => rw [hv] at hfound; cases hfound
          | some i =>
            rw [hv] at hfound
            simp only [Option.map_some, Option.some.injEq, Prod.mk.injEq] at hfound
            obtain ⟨rfl, rfl⟩ := hfound
            have := List.findIdx?_eq_some_iff_getElem.mp hf
            obtain ⟨hk, hpk, _⟩ := this
            have hi : tx.vin[k2] = i := by
              have := List.getElem?_eq_getElem hk
              rw [this] at hv; exact Option.some.inj hv
            rw [hi] at hpk
            exact ⟨i, txin.vout[i.prevout.n], hv, by simp [hlt'], by simpa using hpk, rfl⟩


/-! ### 10b. the case list is complete -/

/-- `Spec.decodeOne` on a push opcode, in closed form -/
theorem decodeOne_push_form (b : UInt8) (rest : Bytes) (hle : b.toNat ≤ 0x4e) (i : Spec.Instr) (after : Bytes)
    (h : Spec.decodeOne (b :: rest) = some (i, after)) :
    let lb := Spec.pushLenBytes b.toNat
    let n := if lb = 0 then b.toNat else leValue (rest.take lb)
    lb ≤ rest.length ∧ n ≤ (rest.drop lb).length ∧ i = ⟨b.toNat, (rest.drop lb).take n⟩ ∧ after = (rest.drop lb).drop n := by
  simp only [Spec.decodeOne, hle, if_true] at h
  by_cases h1 : rest.length < Spec.pushLenBytes b.toNat
  · simp only [h1, if_true] at h
    cases h
  · simp only [h1, if_false] at h
    by_cases h2 : (rest.drop (Spec.pushLenBytes b.toNat)).length <
        (if Spec.pushLenBytes b.toNat = 0 then b.toNat else leValue (rest.take (Spec.pushLenBytes b.toNat)))
    · simp only [h2, if_true] at h
      cases h
    · simp only [h2, if_false, Option.some.injEq, Prod.mk.injEq] at h
      exact ⟨by omega, by omega, h.1.symm, h.2.symm⟩

/-- what `GetScriptOp` returns determines the first byte; for OP_0 and for non-push opcodes the rest is what follows it -/
theorem getOp_head {b : UInt8} {rest : Bytes} {g : GotOp} (h : getOp (b :: rest) = some g) :
    g.opcode = b.toNat ∧ ((b.toNat = 0 ∨ 0x4e < b.toNat) → g.rest = rest ∧ g.data = []) := by
  have hgo := getOp_decodeOne (b :: rest)
  rw [h] at hgo
  simp only [Option.map_some] at hgo
  by_cases hb : 0x4e < b.toNat
  · rw [decodeOne_op b rest hb] at hgo
    simp only [Option.some.injEq, Prod.mk.injEq, Spec.Instr.mk.injEq] at hgo
    exact ⟨hgo.1.1, fun _ => ⟨hgo.2, hgo.1.2⟩⟩
  · by_cases h0 : b.toNat = 0
    · have := decodeOne_push b [] rest (by omega) (by simp [h0])
      rw [List.nil_append] at this
      rw [this] at hgo
      simp only [Option.some.injEq, Prod.mk.injEq, Spec.Instr.mk.injEq] at hgo
      exact ⟨hgo.1.1, fun _ => ⟨hgo.2, hgo.1.2⟩⟩
    · refine ⟨?_, fun hh => by omega⟩
      have := decodeOne_push_form b rest (by omega) _ _ hgo.symm
      simp only at this
      have h3 := this.2.2.1
      simp only [Spec.Instr.mk.injEq] at h3
      exact h3.1

/-- a `GetScriptOp` result whose data is everything after the first byte: a direct push -/
theorem getOp_push_inv {s : Bytes} {g : GotOp} {n : Nat} (h : getOp s = some g) (hd : g.data.length = n)
    (hs : s.length = n + 1) (hn : 0 < n) :
    s = UInt8.ofNat n :: g.data ∧ g.rest = [] ∧ n < 0x4c := by
  cases s with
  | nil => simp at hs
  | cons b rest =>
    have hrl : rest.length = n := by simpa using hs
    have hgo := getOp_decodeOne (b :: rest)
    rw [h] at hgo
    simp only [Option.map_some] at hgo
    by_cases hle : b.toNat ≤ 0x4e
    · have hf := decodeOne_push_form b rest hle _ _ hgo.symm
      simp only at hf
      obtain ⟨f1, f2, f3, f4⟩ := hf
      simp only [Spec.Instr.mk.injEq] at f3
      obtain ⟨ho, hdat⟩ := f3
      have hlb : Spec.pushLenBytes b.toNat = 0 := by
        by_cases hz : Spec.pushLenBytes b.toNat = 0
        · exact hz
        · exfalso
          have : g.data.length ≤ rest.length - Spec.pushLenBytes b.toNat := by
            rw [hdat]; simp only [List.length_take, List.length_drop]; omega
          omega
      simp only [hlb, if_true, List.drop_zero] at hdat f4 f2
      have hbn : b.toNat = n := by
        have : g.data.length = min b.toNat rest.length := by rw [hdat]; simp
        omega
      have hlt : n < 0x4c := by
        unfold Spec.pushLenBytes at hlb
        split at hlb
        · omega
        · split at hlb
          · cases hlb
          · split at hlb <;> cases hlb
      refine ⟨?_, ?_, hlt⟩
      · have hb' : b = UInt8.ofNat n := by rw [← hbn]; exact (u8_ofNat_toNat b).symm
        rw [hb', hdat, hbn, ← hrl, List.take_length]
      · rw [f4, hbn, ← hrl, List.drop_length]
    · rw [decodeOne_op b rest (by omega)] at hgo
      simp only [Option.some.injEq, Prod.mk.injEq, Spec.Instr.mk.injEq] at hgo
      rw [hgo.1.2] at hd
      simp at hd
      omega

/-- where `configure_tx_txin` takes the witness program from -/
def ProgramSource (h : HashCtx) (sig spk validation : Bytes) : Prop :=
  (sig = [] ∧ validation = spk) ∨
  (sig ≠ [] ∧ sig = Spec.pushOf validation ∧ validation ≠ [] ∧
    ∃ hh, spk = 0xa9 :: 0x14 :: (hh ++ [0x87]) ∧ hh.length = 20 ∧ h.hash160 validation = hh)

/-- the bytes of a pay-to-script-hash scriptPubKey -/
theorem isP2SH_form (spk : Bytes) (h : Spec.isP2SH spk = true) :
    ∃ hh, spk = 0xa9 :: 0x14 :: (hh ++ [0x87]) ∧ hh.length = 20 := by
  unfold Spec.isP2SH at h
  simp only [Bool.and_eq_true, beq_iff_eq] at h
  obtain ⟨⟨⟨hl, h0⟩, h1⟩, h22⟩ := h
  match spk, hl, h0, h1, h22 with
  | a :: b :: rest, hl, h0, h1, h22 =>
    simp only [List.getElem?_cons_zero, Option.some.injEq] at h0
    simp only [List.getElem?_cons_succ, List.getElem?_cons_zero, Option.some.injEq] at h1
    simp only [List.getElem?_cons_succ] at h22
    simp only [List.length_cons] at hl
    have hrl : rest.length = 21 := by omega
    have hne : rest ≠ [] := by intro h'; rw [h'] at hrl; simp at hrl
    have hlast : rest.getLast hne = 0x87 := by
      have : rest.getLast? = some 0x87 := by rw [List.getLast?_eq_getElem?, hrl]; exact h22
      rw [List.getLast?_eq_getLast hne] at this
      exact Option.some.inj this
    refine ⟨rest.dropLast, ?_, by simp [hrl]⟩
    rw [h0, h1]
    congr 2
    rw [← hlast]
    exact (List.dropLast_concat_getLast hne).symm

/-- **C03, completeness of the case list.**  Whenever `configure_tx_txin` accepts a spend (a session is started at all),
    the input either has no witness (cases (a), (b)) or its witness program — the scriptPubKey for an empty scriptSig,
    else the single push of the scriptSig whose HASH160 the pay-to-script-hash scriptPubKey commits to — is one of
    `OP_0 <20 bytes>`, `OP_0 <32 bytes>`, `OP_1 <32 bytes>` (cases (c)–(f)). -/
theorem C03_shape_complete (h : HashCtx) (tc : TapCtx) (tx txin : Tx) (idx vout : Nat) (sv0 : SigVersion) (c : Configured)
    (hc : configureTxTxin h tc tx txin idx vout sv0 = some c) :
    ∃ inp spent, tx.vin[idx]? = some inp ∧ txin.vout[vout]? = some spent ∧
      (inp.witness = [] ∨
       ∃ wlast validation prog, inp.witness.getLast? = some wlast ∧
         ProgramSource h inp.scriptSig spent.scriptPubKey validation ∧
         ((validation = 0x00 :: 0x14 :: prog ∧ prog.length = 20) ∨ (validation = 0x00 :: 0x20 :: prog ∧ prog.length = 32) ∨
          (validation = 0x51 :: 0x20 :: prog ∧ prog.length = 32))) := by
  unfold configureTxTxin at hc
  split at hc
  next inp spent hinp hspent =>
    refine ⟨inp, spent, hinp, hspent, ?_⟩
    extract_lets wstack scriptSig scriptPubKey amount validationQ at hc
    split at hc
    next hwl => exact Or.inl (List.getLast?_eq_none_iff.1 hwl)
    next wlast hwl =>
      right
      extract_lets hasAnnex stack ed rest at hc
      generalize hvdef : validationQ = vq at hc
      split at hc
      · cases hc
      next validation =>
        -- where the program came from
        have hsrc : ProgramSource h inp.scriptSig spent.scriptPubKey validation := by
          have hvq : (if inp.scriptSig.length > 0 then
              (match getOp inp.scriptSig with
              | none => none
              | some g1 =>
                if g1.data.length == 0 then none
                else if !g1.rest.isEmpty || inp.scriptSig != pushData g1.data then none
                else
                  match getOp spent.scriptPubKey with
                  | none => none
                  | some s1 =>
                    if s1.opcode != Op.OP_HASH160 || !isPayToScriptHash spent.scriptPubKey then none
                    else
                      match getOp s1.rest with
                      | none => none
                      | some s2 =>
                        if s2.data.length != 20 then none
                        else if h.hash160 g1.data != s2.data then none
                        else some g1.data)
              else some spent.scriptPubKey) = some validation := hvdef
          by_cases hlen : inp.scriptSig.length > 0
          · rw [if_pos hlen] at hvq
            right
            have hne : inp.scriptSig ≠ [] := by intro h0; rw [h0] at hlen; simp at hlen
            split at hvq
            · cases hvq
            next g1 hg1 =>
              split at hvq
              · cases hvq
              next hd0 =>
                split at hvq
                · cases hvq
                next hpush =>
                  split at hvq
                  · cases hvq
                  next s1 hs1 =>
                    split at hvq
                    · cases hvq
                    next hop =>
                      split at hvq
                      · cases hvq
                      next s2 hs2 =>
                        split at hvq
                        · cases hvq
                        next h20 =>
                          split at hvq
                          · cases hvq
                          next hhash =>
                            cases hvq
                            have hpd : inp.scriptSig = pushData g1.data := by
                              simp only [Bool.or_eq_true, Bool.not_eq_true', bne_iff_ne, ne_eq, not_or, Decidable.not_not] at hpush
                              exact hpush.2
                            have hdne : g1.data ≠ [] := by
                              intro h0; rw [h0] at hd0; simp at hd0
                            have hpat : Spec.isP2SH spent.scriptPubKey = true := by
                              simp only [Bool.or_eq_true, Bool.not_eq_true', not_or, Bool.not_eq_false] at hop
                              rw [← isPayToScriptHash_eq]; exact hop.2
                            obtain ⟨hh, hform, hhl⟩ := isP2SH_form _ hpat
                            rw [hform, getOp_op 0xa9 _ (by decide)] at hs1
                            cases hs1
                            rw [getOp_push_direct 0x14 hh [0x87] (by decide) (by rw [hhl]; rfl)] at hs2
                            cases hs2
                            refine ⟨hne, by rw [hpd, pushData_eq], hdne, hh, hform, hhl, ?_⟩
                            simpa using hhash
          · rw [if_neg hlen] at hvq
            left
            refine ⟨List.length_eq_zero_iff.mp (by omega), (Option.some.inj hvq).symm⟩
        by_cases hvlen : (validation.length != 22 && validation.length != 34) = true
        · rw [if_pos hvlen] at hc; cases hc
        · rw [if_neg hvlen] at hc
          extract_lets wsh at hc
          split at hc
          · cases hc
          next v1 hv1 =>
            split at hc
            · cases hc
            next hop =>
              extract_lets witprogver at hc
              split at hc
              · cases hc
              next v2 hv2 =>
                extract_lets program hashOk validation' at hc
                by_cases hpl : (List.length program != if wsh = true then 32 else 20) = true
                · rw [if_pos hpl] at hc; cases hc
                · rw [if_neg hpl] at hc
                  -- the bytes of the program script
                  have hlen2 : validation.length = 22 ∨ validation.length = 34 := by
                    simp only [Bool.and_eq_true, bne_iff_ne, ne_eq, not_and, Decidable.not_not] at hvlen
                    by_cases h22 : validation.length = 22
                    · exact Or.inl h22
                    · exact Or.inr (hvlen h22)
                  have hprog : v2.data.length = if validation.length = 34 then 32 else 20 := by
                    have : ¬ (v2.data.length != if (validation.length == 34) = true then 32 else 20) = true := hpl
                    simp only [bne_iff_ne, ne_eq, Decidable.not_not, beq_iff_eq] at this
                    exact this
                  cases hval : validation with
                  | nil => rw [hval] at hlen2; simp at hlen2
                  | cons b vrest =>
                    rw [hval] at hv1
                    obtain ⟨ho1, hr1⟩ := getOp_head hv1
                    have hb01 : b.toNat = 0 ∨ b.toNat = 0x51 := by
                      simp only [Bool.and_eq_true, bne_iff_ne, ne_eq, not_and, Decidable.not_not] at hop
                      rw [← ho1]
                      by_cases h0 : v1.opcode = Op.OP_0
                      · exact Or.inl h0
                      · exact Or.inr (hop h0)
                    have hrest1 : v1.rest = vrest := (hr1 (by rcases hb01 with hh | hh <;> omega)).1
                    rw [hrest1] at hv2
                    have hvl : vrest.length = v2.data.length + 1 := by
                      rw [hval] at hlen2 hprog
                      simp only [List.length_cons] at hlen2 hprog
                      rcases hlen2 with hh | hh
                      · have : ¬ vrest.length + 1 = 34 := by omega
                        rw [if_neg this] at hprog; omega
                      · rw [if_pos hh] at hprog; omega
                    obtain ⟨hvr, _, _⟩ := getOp_push_inv hv2 rfl hvl (by
                      rw [hval] at hprog; split at hprog <;> omega)
                    refine ⟨wlast, validation, v2.data, hwl, hsrc, ?_⟩
                    rw [hval, hvr]
                    rw [hval] at hlen2 hprog
                    simp only [List.length_cons] at hlen2 hprog
                    have hb0 : b.toNat = 0 → b = 0x00 := fun hh => by rw [← u8_ofNat_toNat b, hh]; rfl
                    have hb1 : b.toNat = 0x51 → b = 0x51 := fun hh => by rw [← u8_ofNat_toNat b, hh]; rfl
                    rcases hlen2 with hh | hh
                    · -- 22 bytes: the program has 20; version 1 is refused for 20-byte programs
                      have h34 : ¬ vrest.length + 1 = 34 := by omega
                      rw [if_neg h34] at hprog
                      rcases hb01 with h0 | h1
                      · left; rw [hb0 h0, hprog]; exact ⟨rfl, rfl⟩
                      · exfalso
                        -- witprogver = 1 and a 20-byte program: `program.length != 32` refuses
                        have hw1 : (witprogver == 0) = false := by
                          show ((if (v1.opcode == Op.OP_0) = true then 0 else 1) == 0) = false
                          rw [ho1, h1]; rfl
                        rw [if_neg (by simp [hw1])] at hc
                        have h32 : (List.length program != 32) = true := by
                          show (v2.data.length != 32) = true
                          rw [hprog]; rfl
                        rw [if_pos h32] at hc
                        cases hc
                    · rw [if_pos hh] at hprog
                      rcases hb01 with h0 | h1
                      · right; left; rw [hb0 h0, hprog]; exact ⟨rfl, rfl⟩
                      · right; right; rw [hb1 h1, hprog]; exact ⟨rfl, rfl⟩
  · cases hc


/-! ### 10c. witness data behind a scriptSig on an output that is not pay-to-script-hash -/

/-- with the WITNESS flag, a non-empty witness and a non-empty scriptSig are acceptable only for pay-to-script-hash -/
theorem verify_witness_needs_p2sh (sc : Spec.SpendCtx) (flags : Nat) (sig spk : Bytes) (witness : List Bytes)
    (hW : hasFlag flags Flag.WITNESS = true) (hsig : sig ≠ []) (hw : witness ≠ [])
    (hnp : (hasFlag flags Flag.P2SH && Spec.isP2SH spk) = false) :
    specOk (Spec.verifyScript sc flags sig spk witness) = false := by
  have hse : sig.isEmpty = false := by simpa using hsig
  have hwe : witness.isEmpty = false := by simpa using hw
  unfold Spec.verifyScript
  simp only [hW, hnp, hse, hwe, rThrow_bind, Bool.false_eq_true, if_false, if_true, Bool.not_false]
  split
  · rfl
  · cases Spec.runScript sc flags .BASE none none sig {} with
    | error e => rfl
    | ok s1 =>
      simp only [rOk_bind]
      cases Spec.runScript sc flags .BASE none none spk { stack := s1.stack } with
      | error e => rfl
      | ok s2 =>
        simp only [rOk_bind]
        cases Spec.evalTrue s2 with
        | error e => rfl
        | ok u =>
          simp only [rOk_bind]
          cases Spec.witnessProgram spk with
          | some p => rfl
          | none =>
            simp only [Bool.not_false, Bool.and_self, if_true, rThrow_bind]
            split
            · split <;> rfl
            · rfl

/-- `configure_tx_txin` refuses a spend with witness data and a non-empty scriptSig whose scriptPubKey is not
    pay-to-script-hash -/
theorem configure_not_p2sh (h : HashCtx) (tc : TapCtx) (tx txin : Tx) (idx vout : Nat) (sv0 : SigVersion)
    (inp : TxIn) (spent : TxOut) (hinp : tx.vin[idx]? = some inp) (hspent : txin.vout[vout]? = some spent)
    (hsig : inp.scriptSig ≠ []) (hw : inp.witness ≠ []) (hnp : Spec.isP2SH spent.scriptPubKey = false) :
    configureTxTxin h tc tx txin idx vout sv0 = none := by
  cases hc : configureTxTxin h tc tx txin idx vout sv0 with
  | none => rfl
  | some c =>
    exfalso
    obtain ⟨inp', spent', h1, h2, hcases⟩ := C03_shape_complete h tc tx txin idx vout sv0 c hc
    rw [hinp] at h1; rw [hspent] at h2
    cases h1; cases h2
    rcases hcases with h0 | ⟨wlast, validation, prog, _, hsrc, _⟩
    · exact hw h0
    · rcases hsrc with ⟨h0, _⟩ | ⟨_, _, _, hh, hform, hhl, _⟩
      · exact hsig h0
      · rw [hform, isP2SH_shape hh hhl] at hnp
        cases hnp

/-- **C03 (d'), a witness behind a scriptSig on an output that is not pay-to-script-hash.**  The debugger refuses the
    spend, and validation rejects it (WITNESS_MALLEATED / WITNESS_UNEXPECTED, or an earlier script failure). -/
theorem C03_witness_not_p2sh (h : HashCtx) (tc : TapCtx) (cx : Ctx) (sc : Spec.SpendCtx) (flags : Nat) (tx txin : Tx)
    (idx vout : Nat) (sv0 : SigVersion) (inp : TxIn) (spent : TxOut) (N : IEnv → Nat)
    (hinp : tx.vin[idx]? = some inp) (hspent : txin.vout[vout]? = some spent)
    (hsig : inp.scriptSig ≠ []) (hw : inp.witness ≠ []) (hnp : Spec.isP2SH spent.scriptPubKey = false)
    (hW : hasFlag flags Flag.WITNESS = true) :
    Agrees h tc cx flags tx txin idx vout sv0 N
      (Spec.verifyScript sc flags inp.scriptSig spent.scriptPubKey inp.witness) := by
  unfold Agrees AgreesC
  rw [configure_not_p2sh h tc tx txin idx vout sv0 inp spent hinp hspent hsig hw hnp]
  exact not_ok_of_specOk (verify_witness_needs_p2sh sc flags _ _ _ hW hsig hw (by rw [hnp]; simp))

/-! ### 11. the cases together -/

theorem agreesC_mono {tc : TapCtx} {cx : Ctx} {flags : Nat} {conf : Option Configured} {N N' : IEnv → Nat} {spec : Spec.R Unit}
    (hN : ∀ e, N e ≤ N' e) (h : AgreesC tc cx flags conf N spec) : AgreesC tc cx flags conf N' spec := by
  unfold AgreesC at h ⊢
  split
  · simpa using h
  · rename_i c
    simp only at h
    split
    · rename_i e he; rw [he] at h; exact h
    · rename_i e0 he
      rw [he] at h
      intro n hn
      exact h n (Nat.le_trans (hN e0) hn)

/-- the fuel that suffices for every case: `continueFuel` of the start state, plus the largest redeem script a
    push-only scriptSig can leave (the start state of a legacy session does not know the redeem script yet) -/
def sessionFuel (e0 : IEnv) : Nat := continueFuel e0 + 519

/-- (a) in the form of `Agrees` -/
theorem legacy_agrees (h : HashCtx) (tc : TapCtx) (cx : Ctx) (sc : Spec.SpendCtx) (flags : Nat) (tx txin : Tx) (idx vout : Nat)
    (sv0 : SigVersion) (inp : TxIn) (spent : TxOut)
    (hinp : tx.vin[idx]? = some inp) (hspent : txin.vout[vout]? = some spent) (hw : inp.witness = [])
    (hag : CheckerAgrees cx sc flags .BASE none none)
    (hspk : spent.scriptPubKey ≠ [])
    (hnw : Spec.witnessProgram spent.scriptPubKey = none ∨ hasFlag flags Flag.WITNESS = false)
    (hnp : (hasFlag flags Flag.P2SH && Spec.isP2SH spent.scriptPubKey) = false)
    (hdef : NoUndefinedOpcode inp.scriptSig) :
    Agrees h tc cx flags tx txin idx vout sv0 sessionFuel
      (Spec.verifyScript sc flags inp.scriptSig spent.scriptPubKey inp.witness) := by
  unfold Agrees AgreesC
  cases hc : configureTxTxin h tc tx txin idx vout sv0 with
  | none =>
    exact not_ok_of_specOk (C03_legacy_refused_configure h tc tx txin idx vout sv0 inp spent hinp hspent hw hdef hc sc flags)
  | some c =>
    rw [configure_legacy h tc tx txin idx vout sv0 inp spent hinp hspent hw] at hc
    split at hc
    · cases hc
      simp only
      cases hs : setupEnvironment [] inp.scriptSig flags .BASE spent.scriptPubKey false {} none [] [] with
      | error e => exact not_ok_of_specOk (C03_legacy_refused_setup sc flags _ _ _ e hs)
      | ok e0 =>
        simp only
        intro n hn
        rw [hw, ← specOk_iff]
        have hfuel : inp.scriptSig.length + spent.scriptPubKey.length + 2 ≤ n := by
          obtain ⟨he0, _⟩ := setup_ok hs
          subst he0
          simp only [sessionFuel, continueFuel, setupEnv] at hn
          omega
        rw [C03_legacy cx tc sc flags _ _ e0 hag hs hspk hnw hnp n hfuel]
    · cases hc

/-- (b) in the form of `Agrees` -/
theorem p2sh_agrees (h : HashCtx) (tc : TapCtx) (cx : Ctx) (sc : Spec.SpendCtx) (flags : Nat) (tx txin : Tx) (idx vout : Nat)
    (sv0 : SigVersion) (inp : TxIn) (spent : TxOut)
    (hinp : tx.vin[idx]? = some inp) (hspent : txin.vout[vout]? = some spent) (hw : inp.witness = [])
    (hag : CheckerAgrees cx sc flags .BASE none none)
    (hP : hasFlag flags Flag.P2SH = true) (hpat : Spec.isP2SH spent.scriptPubKey = true)
    (hnw : hasFlag flags Flag.WITNESS = false ∨
      ∀ s1 redeem rest, Spec.runScript sc flags .BASE none none inp.scriptSig {} = .ok s1 → s1.stack = redeem :: rest →
        Spec.witnessProgram redeem = none)
    (hdef : NoUndefinedOpcode inp.scriptSig) :
    Agrees h tc cx flags tx txin idx vout sv0 sessionFuel
      (Spec.verifyScript sc flags inp.scriptSig spent.scriptPubKey inp.witness) := by
  unfold Agrees AgreesC
  cases hc : configureTxTxin h tc tx txin idx vout sv0 with
  | none =>
    exact not_ok_of_specOk (C03_legacy_refused_configure h tc tx txin idx vout sv0 inp spent hinp hspent hw hdef hc sc flags)
  | some c =>
    rw [configure_legacy h tc tx txin idx vout sv0 inp spent hinp hspent hw] at hc
    split at hc
    · cases hc
      simp only
      cases hs : setupEnvironment [] inp.scriptSig flags .BASE spent.scriptPubKey false {} none [] [] with
      | error e => exact not_ok_of_specOk (C03_legacy_refused_setup sc flags _ _ _ e hs)
      | ok e0 =>
        simp only
        intro n hn
        rw [hw, ← specOk_iff]
        have hfuel : inp.scriptSig.length + spent.scriptPubKey.length + 523 ≤ n := by
          obtain ⟨he0, _⟩ := setup_ok hs
          subst he0
          simp only [sessionFuel, continueFuel, setupEnv] at hn
          omega
        rw [C03_p2sh cx tc sc flags _ _ e0 hag hs hP hpat hnw n hfuel]
    · cases hc

/-- the output types of the property as shapes of (scriptSig, scriptPubKey, witness); the side conditions are the
    regions where the debugger is known to differ from validation (see the findings listed in the header) -/
inductive Shape (sc : Spec.SpendCtx) (flags : Nat) (sig spk : Bytes) (witness : List Bytes) : Prop
  | legacy : witness = [] → spk ≠ [] → Spec.witnessProgram spk = none →
      (hasFlag flags Flag.P2SH && Spec.isP2SH spk) = false → NoUndefinedOpcode sig → Shape sc flags sig spk witness
  | p2sh : witness = [] → Spec.isP2SH spk = true →
      (∀ s1 redeem rest, Spec.runScript sc flags .BASE none none sig {} = .ok s1 → s1.stack = redeem :: rest →
        Spec.witnessProgram redeem = none) → NoUndefinedOpcode sig → Shape sc flags sig spk witness
  | witness_not_p2sh : sig ≠ [] → witness ≠ [] → Spec.isP2SH spk = false → Shape sc flags sig spk witness
  | p2wpkh (prog wlast : Bytes) : sig = [] → spk = 0x00 :: 0x14 :: prog → prog.length = 20 →
      witness.getLast? = some wlast → Spec.toBool prog = true → Shape sc flags sig spk witness
  | p2wsh (prog wlast : Bytes) : sig = [] → spk = 0x00 :: 0x20 :: prog → prog.length = 32 →
      witness.getLast? = some wlast → Spec.toBool prog = true → NoUndefinedOpcode wlast → Shape sc flags sig spk witness
  | p2sh_p2wpkh (prog hh wlast : Bytes) : sig = Spec.pushOf (0x00 :: 0x14 :: prog) → spk = 0xa9 :: 0x14 :: (hh ++ [0x87]) →
      prog.length = 20 → hh.length = 20 → witness.getLast? = some wlast → Spec.toBool prog = true →
      Shape sc flags sig spk witness
  | p2sh_p2wsh (prog hh wlast : Bytes) : sig = Spec.pushOf (0x00 :: 0x20 :: prog) → spk = 0xa9 :: 0x14 :: (hh ++ [0x87]) →
      prog.length = 32 → hh.length = 20 → witness.getLast? = some wlast → Spec.toBool prog = true →
      NoUndefinedOpcode wlast → Shape sc flags sig spk witness
  | keypath (prog wlast sg : Bytes) : sig = [] → spk = 0x51 :: 0x20 :: prog → prog.length = 32 →
      witness.getLast? = some wlast → (if hasAnnexS witness wlast then witness.dropLast else witness) = [sg] →
      Spec.toBool prog = true → Shape sc flags sig spk witness
  | tapscript (prog wlast control leafScript : Bytes) (stack : List Bytes) : sig = [] → spk = 0x51 :: 0x20 :: prog →
      prog.length = 32 → witness.getLast? = some wlast →
      stack = (if hasAnnexS witness wlast then witness.dropLast else witness) →
      stack.getLast? = some control → stack.dropLast.getLast? = some leafScript → Spec.toBool prog = true →
      (control.headD 0).toNat - (control.headD 0).toNat % 2 = 0xc0 → Spec.hasOpSuccess false leafScript = false →
      NoUndefinedOpcode leafScript → Shape sc flags sig spk witness

/-- **C03, verdict.**  For every spend of one of the output types of the property (`Shape`), under the standard segwit /
    taproot flags, with hash functions and signature checker that agree with the specification's: the debugger refuses
    the spend (`configure_tx_txin` or `setup_environment` returns false) only if validation rejects the input, and
    otherwise the session run to its end (`sessionFuel` steps suffice) finishes without error with exactly the final
    stack validation requires iff `VerifyScript` accepts the input. -/
theorem C03_verdict (h : HashCtx) (tc : TapCtx) (cx : Ctx) (sc : Spec.SpendCtx) (flags : Nat) (tx txin : Tx) (idx vout : Nat)
    (sv0 : SigVersion) (inp : TxIn) (spent : TxOut)
    (hinp : tx.vin[idx]? = some inp) (hspent : txin.vout[vout]? = some spent)
    (hshape : Shape sc flags inp.scriptSig spent.scriptPubKey inp.witness)
    (hP : hasFlag flags Flag.P2SH = true) (hW : hasFlag flags Flag.WITNESS = true) (hT : hasFlag flags Flag.TAPROOT = true)
    (hsha : ∀ b, h.sha256 b = sc.sha256 b)
    (hh160 : ∀ sv b, h.hash160 b = (sc.oracleFor sv none none).ripemd160 ((sc.oracleFor sv none none).sha256 b))
    (htap : C05.Agree tc sc.tap)
    (hag : ∀ sv annex leaf, CheckerAgrees cx sc flags sv annex leaf) :
    Agrees h tc cx flags tx txin idx vout sv0 sessionFuel
      (Spec.verifyScript sc flags inp.scriptSig spent.scriptPubKey inp.witness) := by
  have hmono : ∀ e, continueFuel e ≤ sessionFuel e := fun e => by unfold sessionFuel; omega
  cases hshape with
  | legacy a1 a2 a4 a5 a6 =>
    exact legacy_agrees h tc cx sc flags tx txin idx vout sv0 inp spent hinp hspent a1 (hag _ _ _) a2 (Or.inl a4) a5 a6
  | p2sh a1 a2 a3 a4 =>
    exact p2sh_agrees h tc cx sc flags tx txin idx vout sv0 inp spent hinp hspent a1 (hag _ _ _) hP a2 (Or.inr a3) a4
  | witness_not_p2sh a1 a2 a3 =>
    exact C03_witness_not_p2sh h tc cx sc flags tx txin idx vout sv0 inp spent sessionFuel hinp hspent a1 a2 a3 hW
  | p2wpkh prog wlast a1 a2 a3 a4 a5 =>
    exact agreesC_mono hmono (C03_p2wpkh h tc cx sc flags tx txin idx vout sv0 inp spent prog wlast hinp hspent a1 a2 a3 a4
      (hh160 _) (hag _ _ _) hW a5)
  | p2wsh prog wlast a1 a2 a3 a4 a5 a6 =>
    exact agreesC_mono hmono (C03_p2wsh h tc cx sc flags tx txin idx vout sv0 inp spent prog wlast hinp hspent a1 a2 a3 a4
      hsha (hag _ _ _) hW a5 a6)
  | p2sh_p2wpkh prog hh wlast a1 a2 a3 a4 a5 a6 =>
    exact agreesC_mono hmono (C03_p2sh_p2wpkh h tc cx sc flags tx txin idx vout sv0 inp spent prog hh wlast hinp hspent
      a1 a2 a3 a4 a5 (hh160 _) (hh160 _) (hag _ _ _) hP hW a6)
  | p2sh_p2wsh prog hh wlast a1 a2 a3 a4 a5 a6 a7 =>
    exact agreesC_mono hmono (C03_p2sh_p2wsh h tc cx sc flags tx txin idx vout sv0 inp spent prog hh wlast hinp hspent
      a1 a2 a3 a4 a5 hsha (hh160 _) (hag _ _ _) hP hW a6 a7)
  | keypath prog wlast sg a1 a2 a3 a4 a5 a6 =>
    exact agreesC_mono hmono (C03_keypath h tc cx sc flags tx txin idx vout sv0 inp spent prog wlast sg hinp hspent
      a1 a2 a3 a4 a5 (hag _ _ _) hW hT a6)
  | tapscript prog wlast control leafScript stack a1 a2 a3 a4 a5 a6 a7 a8 a9 a10 a11 =>
    exact agreesC_mono hmono (C03_tapscript h tc cx sc flags tx txin idx vout sv0 inp spent prog wlast control leafScript stack
      hinp hspent a1 a2 a3 a4 a5 a6 a7 htap (hag _ _ _) hW hT a8 a9 a10 a11)


/-! ### 12. the hypotheses are satisfiable -/

section Examples

/-- toy hash: pad / cut to the digest length (cheap enough for the kernel) -/
def toyHash (n : Nat) (b : Bytes) : Bytes := (b ++ List.replicate n 0).take n

/-- a checker that accepts no signature -/
def toyCx : Ctx where
  sha256 := toyHash 32
  ripemd160 := toyHash 20
  sha1 := toyHash 20
  checkLowS := fun _ => true
  checkLockTime := fun _ => false
  checkSequence := fun _ => false
  checkECDSA := fun _ _ _ _ => false
  checkSchnorr := fun _ _ _ _ => .error (.script .SCHNORR_SIG)

def toyOracle : Spec.SigOracle where
  checkLowS := fun _ => true
  checkLockTime := fun _ => false
  checkSequence := fun _ => false
  ecdsa := fun _ _ _ _ => false
  schnorr := fun _ _ _ _ => .error .SCHNORR_SIG
  sha256 := toyHash 32
  ripemd160 := toyHash 20
  sha1 := toyHash 20

def toySc : Spec.SpendCtx where
  oracleFor := fun _ _ _ => toyOracle
  sha256 := toyHash 32
  hash160 := fun b => toyHash 20 (toyHash 32 b)
  tap := { taggedHash := fun _ m => m, tweakCheck := fun _ _ _ _ => false }

theorem toy_agrees (flags : Nat) (sv : SigVersion) (annex leaf : Option Bytes) :
    CheckerAgrees toyCx toySc flags sv annex leaf := by
  intro e he
  simp only [conf, Prod.mk.injEq] at he
  obtain ⟨h1, h2, h3, h4, h5, h6⟩ := he
  exact { flags := h1.symm, sv := h2.symm, z := h4.symm, rm := by rw [h3, h1], sha256 := rfl, ripemd160 := rfl, sha1 := rfl,
          checkLowS := rfl, checkLockTime := rfl, checkSequence := rfl, ecdsa := rfl,
          schnorr := fun _ _ _ _ => ⟨rfl, rfl⟩,
          pretendKeys := fun key => by rw [h6]; rfl,
          pretendPair := fun sig key hk => by rw [h6] at hk; cases hk }

example : specOk (Spec.verifyScript toySc 0 [0x01, 0x07] [0x01, 0x07, 0x87] []) = true := by decide


def toyTc : TapCtx := { taggedHash := fun _ m => m, checkTapTweak := fun _ _ _ _ => false }

/-- (a): scriptSig `<07>`, scriptPubKey `<07> OP_EQUAL`: validation accepts, so the session is valid -/
example : sessionValid 0 .BASE (continueScript toyCx toyTc
      (continueFuel (setupEnv [] [0x01, 0x07] 0 .BASE [0x01, 0x07, 0x87] {} none))
      (setupEnv [] [0x01, 0x07] 0 .BASE [0x01, 0x07, 0x87] {} none)) = true := by
  have hs : setupEnvironment [] [0x01, 0x07] 0 .BASE [0x01, 0x07, 0x87] false {} none [] [] =
      .ok (setupEnv [] [0x01, 0x07] 0 .BASE [0x01, 0x07, 0x87] {} none) := by
    rw [setup_eq]; rfl
  exact (C03_legacy_iff toyCx toyTc toySc 0 _ _ _ (toy_agrees _ _ _ _) hs (by decide) (Or.inl (by decide))
    (by decide)).2 ((specOk_iff _).1 (by decide))

/-- the same by evaluating the model -/
example : sessionValid 0 .BASE (continueScript toyCx toyTc 9
      (setupEnv [] [0x01, 0x07] 0 .BASE [0x01, 0x07, 0x87] {} none)) = true := by decide

/-- (a): a wrong satisfaction: scriptSig `<08>` -/
example : sessionValid 0 .BASE (continueScript toyCx toyTc
      (continueFuel (setupEnv [] [0x01, 0x08] 0 .BASE [0x01, 0x07, 0x87] {} none))
      (setupEnv [] [0x01, 0x08] 0 .BASE [0x01, 0x07, 0x87] {} none)) = false := by
  have hs : setupEnvironment [] [0x01, 0x08] 0 .BASE [0x01, 0x07, 0x87] false {} none [] [] =
      .ok (setupEnv [] [0x01, 0x08] 0 .BASE [0x01, 0x07, 0x87] {} none) := by
    rw [setup_eq]; rfl
  have := C03_legacy_iff toyCx toyTc toySc 0 _ _ _ (toy_agrees _ _ _ _) hs (by decide) (Or.inl (by decide))
    (by decide)
  cases hv : sessionValid 0 .BASE (continueScript toyCx toyTc
      (continueFuel (setupEnv [] [0x01, 0x08] 0 .BASE [0x01, 0x07, 0x87] {} none))
      (setupEnv [] [0x01, 0x08] 0 .BASE [0x01, 0x07, 0x87] {} none)) with
  | false => rfl
  | true =>
    have h2 := (specOk_iff _).2 (this.1 hv)
    revert h2; decide


def toyH : HashCtx := { sha256 := toyHash 32, hash160 := fun b => toyHash 20 (toyHash 32 b), hash256 := toyHash 32 }

/-- the funding transaction of the examples: one output with the given locking script -/
def fundTx (spk : Bytes) : Tx := { version := 2, lockTime := 0, vin := [], vout := [{ value := 1000, scriptPubKey := spk }] }
def spendIn (fund : Tx) (sig : Bytes) (wit : List Bytes) : TxIn :=
  { prevout := { hash := txHash toyH.hash256 fund, n := 0 }, scriptSig := sig, sequence := 0, witness := wit }
/-- the spending transaction: one input -/
def spendTx (fund : Tx) (sig : Bytes) (wit : List Bytes) : Tx :=
  { version := 2, lockTime := 0, vout := [], vin := [spendIn fund sig wit] }

/-- input selection on a concrete pair: the only input references the funding transaction -/
example : parseInputTransaction toyH (spendTx (fundTx [0x51]) [] []) (fundTx [0x51]) (-1) = some (0, 0) := by
  rw [C03_select]; decide
/-- a selection that is out of range is refused -/
example : parseInputTransaction toyH (spendTx (fundTx [0x51]) [] []) (fundTx [0x51]) 3 = none := by
  rw [C03_select]; decide

/-- (c): the hypotheses of `C03_p2wsh` hold for a concrete spend: witness script `<07> OP_EQUAL`, witness `[07, script]` -/
example : Agrees toyH toyTc toyCx 2048
    (spendTx (fundTx (0x00 :: 0x20 :: toyHash 32 [0x01, 0x07, 0x87])) [] [[0x07], [0x01, 0x07, 0x87]])
    (fundTx (0x00 :: 0x20 :: toyHash 32 [0x01, 0x07, 0x87])) 0 0 .WITNESS_V0 continueFuel
    (Spec.verifyScript toySc 2048 [] (0x00 :: 0x20 :: toyHash 32 [0x01, 0x07, 0x87]) [[0x07], [0x01, 0x07, 0x87]]) :=
  C03_p2wsh toyH toyTc toyCx toySc 2048 _ _ 0 0 .WITNESS_V0
    (spendIn (fundTx (0x00 :: 0x20 :: toyHash 32 [0x01, 0x07, 0x87])) [] [[0x07], [0x01, 0x07, 0x87]])
    { value := 1000, scriptPubKey := 0x00 :: 0x20 :: toyHash 32 [0x01, 0x07, 0x87] }
    (toyHash 32 [0x01, 0x07, 0x87]) [0x01, 0x07, 0x87]
    rfl rfl rfl rfl (by decide) rfl (fun _ => rfl) (toy_agrees _ _ _ _) (by decide) (by decide)
    (by unfold NoUndefinedOpcode; decide)
/-- ... and validation accepts that spend -/
example : specOk (Spec.verifyScript toySc 2048 [] (0x00 :: 0x20 :: toyHash 32 [0x01, 0x07, 0x87]) [[0x07], [0x01, 0x07, 0x87]]) = true := by
  decide

/-- (f): the hypotheses of `C03_tapscript` hold for a concrete spend (33-byte control block, leaf script `<07> OP_EQUAL`) -/
example : Agrees toyH toyTc toyCx (2048 + 131072)
    (spendTx (fundTx (0x51 :: 0x20 :: List.replicate 32 9)) [] [[0x07], [0x01, 0x07, 0x87], 0xc0 :: List.replicate 32 1])
    (fundTx (0x51 :: 0x20 :: List.replicate 32 9)) 0 0 .WITNESS_V0 continueFuel
    (Spec.verifyScript toySc (2048 + 131072) [] (0x51 :: 0x20 :: List.replicate 32 9)
      [[0x07], [0x01, 0x07, 0x87], 0xc0 :: List.replicate 32 1]) :=
  C03_tapscript toyH toyTc toyCx toySc (2048 + 131072) _ _ 0 0 .WITNESS_V0
    (spendIn (fundTx (0x51 :: 0x20 :: List.replicate 32 9)) [] [[0x07], [0x01, 0x07, 0x87], 0xc0 :: List.replicate 32 1])
    { value := 1000, scriptPubKey := 0x51 :: 0x20 :: List.replicate 32 9 }
    (List.replicate 32 9) (0xc0 :: List.replicate 32 1)
    (0xc0 :: List.replicate 32 1) [0x01, 0x07, 0x87] [[0x07], [0x01, 0x07, 0x87], 0xc0 :: List.replicate 32 1]
    rfl rfl rfl rfl (by decide) rfl (by decide) rfl rfl ⟨fun _ _ => rfl, fun _ _ _ _ => rfl⟩ (toy_agrees _ _ _ _)
    (by decide) (by decide) (by decide) (by decide) (by decide) (by unfold NoUndefinedOpcode; decide)

end Examples

end Btcdeb.Proofs.C03
