/-
  The transaction signature digests and the transaction signature checker of btcdeb compute what the original Bitcoin
  algorithm, BIP143 and BIP341/BIP342 define.

  Model: `Btcdeb/Model/Sighash.lean` (mirror of `SignatureHash`, `CTransactionSignatureSerializer`,
         `PrecomputedTransactionData::Init`, `SignatureHashSchnorr`, `GenericTransactionSignatureChecker`).
  Spec:  `Btcdeb/Spec/Sighash.lean`.

  All theorems hold for EVERY transaction (any number of inputs / outputs, any scripts), every hash type, every
  SHA-256 / ECDSA / Schnorr instance (`SigCrypto` is a parameter).

  Main results
    legacySighash_eq_spec_partial   legacy digest = original algorithm, for script codes that decode (see FINDING below)
    serScriptCode_eq                the two-pass code separator removal = FindAndDelete(OP_CODESEPARATOR), same hypothesis
    bip143Sighash_eq_spec           BIP143 digest, for a coherent cache (in particular: no cache, or the one made by Init)
    precomputeInit_ok / _flags / _coherent / uses341_iff / uses143_iff   what `Init` computes and when it is ready
    precomputeInit_single_input_ready, instanceTxData_single_ready, instanceTxData_multi_input_not_ready
    schnorrSighashM_eq_spec, schnorrSighash_eq_spec, schnorrSighash_none_iff, schnorrSighash_not_ready
    checkECDSA_eq_spec, checkSchnorr_eq_spec, txChecker_* (the fields of the `Ctx`), checkLockTime_eq_spec, checkSequence_eq_spec

  FINDING (inherited from Bitcoin Core, not observable in consensus): `SerializeScriptCode` writes the length
  `scriptCode.size() - nCodeSeparators` but, when the script code ends in an instruction that does not decode (push
  running past the end), it writes only up to where the failed `GetOp` stopped, so fewer bytes than announced.  The
  original algorithm (`FindAndDelete`) keeps that tail.  E.g. script code `ac 05 01 02`: the C++ hashes `04 ac 05`
  in place of `04 ac 05 01 02`.  Hence the hypothesis `Spec.decode scriptCode ≠ none` (`_partial`).
-/
import Btcdeb.Model.Sighash
import Btcdeb.Spec.Sighash
import BtcdebProofs.Refine.FindAndDelete
import BtcdebProofs.Refine.Step
import BtcdebProofs.Properties.C13
namespace Btcdeb.Proofs.Sighash
open Btcdeb Btcdeb.Model Btcdeb.Refine Btcdeb.Proofs.C13

/-! ## hash type bits -/

private theorem and_two_pow' (n k : Nat) : n &&& 2 ^ k = if n.testBit k then 2 ^ k else 0 := by
  apply Nat.eq_of_testBit_eq
  intro i
  rw [Nat.testBit_and, Nat.testBit_two_pow]
  by_cases hk : n.testBit k
  · simp only [hk, if_true, Nat.testBit_two_pow]
    by_cases hi : k = i
    · subst hi; simp [hk]
    · simp [hi]
  · simp only [hk]
    by_cases hi : k = i
    · subst hi; simp [hk]
    · simp [hi]

theorem htAnyoneCanPay_iff (ht : Nat) : htAnyoneCanPay ht = true ↔ Spec.anyoneCanPay ht := by
  unfold htAnyoneCanPay Spec.anyoneCanPay Gen.SIGHASH_ANYONECANPAY
  have h := and_two_pow' ht 7
  simp only [Nat.reducePow] at h
  rw [h, Nat.testBit_eq_decide_div_mod_eq]
  simp only [Nat.reducePow]
  by_cases h1 : ht / 128 % 2 = 1 <;> simp [h1]

theorem htSingle_iff (ht : Nat) : htSingle ht = true ↔ Spec.isSingle ht := by
  unfold htSingle Spec.isSingle Gen.SIGHASH_SINGLE
  have h := Nat.and_two_pow_sub_one_eq_mod ht 5
  simp only [Nat.reducePow, Nat.add_one_sub_one] at h
  rw [show (0x1f : Nat) = 31 by rfl, h]; simp

theorem htNone_iff (ht : Nat) : htNone ht = true ↔ Spec.isNone ht := by
  unfold htNone Spec.isNone Gen.SIGHASH_NONE
  have h := Nat.and_two_pow_sub_one_eq_mod ht 5
  simp only [Nat.reducePow, Nat.add_one_sub_one] at h
  rw [show (0x1f : Nat) = 31 by rfl, h]; simp

theorem htAnyoneCanPay_eq (ht : Nat) : htAnyoneCanPay ht = decide (Spec.anyoneCanPay ht) := by
  cases h : htAnyoneCanPay ht
  · have : ¬ _ := fun hp => by have := (htAnyoneCanPay_iff ht).mpr hp; simp [h] at this
    simp [this]
  · simp [(htAnyoneCanPay_iff ht).mp h]

theorem htSingle_eq (ht : Nat) : htSingle ht = decide (Spec.isSingle ht) := by
  cases h : htSingle ht
  · have : ¬ _ := fun hp => by have := (htSingle_iff ht).mpr hp; simp [h] at this
    simp [this]
  · simp [(htSingle_iff ht).mp h]

theorem htNone_eq (ht : Nat) : htNone ht = decide (Spec.isNone ht) := by
  cases h : htNone ht
  · have : ¬ _ := fun hp => by have := (htNone_iff ht).mpr hp; simp [h] at this
    simp [this]
  · simp [(htNone_iff ht).mp h]

/-! ## script codes that decode -/

/-- the script is a sequence of complete instructions -/
inductive Parses : Bytes → Prop
  | nil : Parses []
  | step {s : Bytes} {t : Nat} : instrLen s = some t → Parses (s.drop t) → Parses s

theorem getOp_opcode {b : UInt8} {r : Bytes} {g : GotOp} (h : getOp (b :: r) = some g) : g.opcode = b.toNat := by
  simp only [getOp] at h
  repeat' split at h
  all_goals first | (simp at h; done) | (simp at h; rw [← h])

private theorem decodePrefix_parses (fuel : Nat) (s : Bytes) (h : (Spec.decodePrefix fuel s).2 = true) : Parses s := by
  induction fuel generalizing s with
  | zero =>
    cases s with
    | nil => exact .nil
    | cons b r => simp [Spec.decodePrefix] at h
  | succ f ih =>
    cases s with
    | nil => exact .nil
    | cons b r =>
      simp only [Spec.decodePrefix] at h
      have hd := getOp_decodeOne (b :: r)
      cases hdo : Spec.decodeOne (b :: r) with
      | none => simp [hdo] at h
      | some p =>
        obtain ⟨i, after⟩ := p
        simp only [hdo] at h
        rw [hdo] at hd
        cases hg : getOp (b :: r) with
        | none => simp [hg] at hd
        | some g =>
          simp only [hg, Option.map_some, Option.some.injEq, Prod.mk.injEq] at hd
          obtain ⟨t, ht, _, _, hrest⟩ := getOp_some hg
          have : after = (b :: r).drop t := by rw [← hd.2, hrest]
          exact .step ht (this ▸ ih after h)

/-- a script code that the specification's decoder accepts is a sequence of complete instructions -/
theorem parses_of_decode {s : Bytes} (h : Spec.decode s ≠ none) : Parses s := by
  unfold Spec.decode Spec.decodeWithRest at h
  by_cases h2 : (Spec.decodePrefix s.length s).2 = true
  · exact decodePrefix_parses _ _ h2
  · simp [h2] at h

/-! ## `SerializeScriptCode` = FindAndDelete(OP_CODESEPARATOR) -/

/-- the specification's removal of code separators, with explicit fuel -/
private def strip (fuel : Nat) (s : Bytes) : Bytes := (Spec.deleteAt fuel [0xab] s).1

private theorem strip_nil (f : Nat) : strip (f + 1) [] = [] := by
  simp [strip, Spec.deleteAt]

private theorem strip_sep (f : Nat) (r : Bytes) : strip (f + 1) (0xab :: r) = strip f r := by
  unfold strip
  rw [deleteAt_succ_prefix f [0xab] (0xab :: r) (by simp) (by simp)]
  simp

private theorem strip_other (f : Nat) (b : UInt8) (r : Bytes) (t : Nat) (hb : b ≠ 0xab) (ht : instrLen (b :: r) = some t) :
    strip (f + 1) (b :: r) = (b :: r).take t ++ strip f ((b :: r).drop t) := by
  unfold strip
  rw [deleteAt_succ_noprefix f [0xab] (b :: r) (by simp) (by simp [List.isPrefixOf]; exact fun h => hb h.symm), ht]

private theorem instrLen_sep (r : Bytes) : instrLen (0xab :: r) = some 1 := by
  simp [instrLen]

/-- lengths: every removed code separator is one byte -/
private theorem count_strip (s : Bytes) (hp : Parses s) : ∀ (f n : Nat), s.length < f →
    countCodeSeparators s n + (strip f s).length = n + s.length := by
  induction hp with
  | nil =>
    intro f n hf
    obtain ⟨f', rfl⟩ : ∃ f', f = f' + 1 := ⟨f - 1, by simp at hf; omega⟩
    rw [countCodeSeparators]; simp [getOp, strip_nil]
  | @step s t ht _ ih =>
    intro f n hf
    obtain ⟨f', rfl⟩ : ∃ f', f = f' + 1 := ⟨f - 1, by omega⟩
    have hb := instrLen_bounds ht
    cases s with
    | nil => simp [instrLen] at ht
    | cons b r =>
      rw [countCodeSeparators]
      cases hg : getOp (b :: r) with
      | none => rw [(getOp_none_iff _).mp hg] at ht; simp at ht
      | some g =>
        obtain ⟨t', ht', _, _, hrest⟩ := getOp_some hg
        rw [ht] at ht'; simp only [Option.some.injEq] at ht'; subst ht'
        have hop := getOp_opcode hg
        have hlen : ((b :: r).drop t).length < f' := by simp only [List.length_drop]; omega
        split
        · rename_i hnone; simp at hnone
        · rename_i g' hg'
          simp only [Option.some.injEq] at hg'; subst hg'
          rw [hrest]
          by_cases hsep : b = 0xab
          · subst hsep
            rw [instrLen_sep] at ht; simp only [Option.some.injEq] at ht; subst ht
            have : g.opcode = Op.OP_CODESEPARATOR := by rw [hop]; rfl
            simp only [this, if_true]
            rw [strip_sep]
            have := ih f' (n + 1) hlen
            simp only [List.drop_succ_cons, List.drop_zero] at this ⊢
            simp only [List.length_cons]; omega
          · have hne : g.opcode ≠ Op.OP_CODESEPARATOR := by
              rw [hop]; intro h; apply hsep; apply u8_ext; rw [h]; rfl
            simp only [hne, if_false]
            rw [strip_other f' b r t hsep ht]
            have := ih f' n hlen
            simp only [List.length_append, List.length_take, List.length_drop] at this ⊢
            omega

/-- the segment writer: with `itBegin = pre ++ it`, the result is what was written, then `pre`, then `it` without its
    code separators -/
private theorem go_strip (it : Bytes) (hp : Parses it) : ∀ (f : Nat) (pre acc : Bytes), it.length < f →
    serScriptCodeGo (pre ++ it) it acc = acc ++ pre ++ strip f it := by
  induction hp with
  | nil =>
    intro f pre acc hf
    obtain ⟨f', rfl⟩ : ∃ f', f = f' + 1 := ⟨f - 1, by simp at hf; omega⟩
    rw [serScriptCodeGo]
    simp only [getOp, getOpFailRest, strip_nil, List.append_nil, List.length_nil, Nat.sub_zero]
    split
    · simp
    · rename_i h; simp at h; simp [h]
  | @step s t ht _ ih =>
    intro f pre acc hf
    obtain ⟨f', rfl⟩ : ∃ f', f = f' + 1 := ⟨f - 1, by omega⟩
    have hb := instrLen_bounds ht
    cases s with
    | nil => simp [instrLen] at ht
    | cons b r =>
      rw [serScriptCodeGo]
      cases hg : getOp (b :: r) with
      | none => rw [(getOp_none_iff _).mp hg] at ht; simp at ht
      | some g =>
        obtain ⟨t', ht', _, _, hrest⟩ := getOp_some hg
        rw [ht] at ht'; simp only [Option.some.injEq] at ht'; subst ht'
        have hop := getOp_opcode hg
        have hlen : ((b :: r).drop t).length < f' := by simp only [List.length_drop]; omega
        split
        · rename_i hnone; simp at hnone
        · rename_i g' hg'
          simp only [Option.some.injEq] at hg'; subst hg'
          by_cases hsep : b = 0xab
          · subst hsep
            rw [instrLen_sep] at ht; simp only [Option.some.injEq] at ht; subst ht
            have : g.opcode = Op.OP_CODESEPARATOR := by rw [hop]; rfl
            simp only [this, if_true]
            rw [strip_sep, hrest]
            have h1 := ih f' [] (acc ++ (pre ++ 0xab :: r).take ((pre ++ 0xab :: r).length - ((0xab :: r).drop 1).length - 1)) hlen
            simp only [List.nil_append] at h1
            rw [h1]
            simp only [List.drop_succ_cons, List.drop_zero, List.length_append, List.length_cons, List.append_nil]
            have : pre.length + (r.length + 1) - r.length - 1 = pre.length := by omega
            rw [this, List.take_left']; rfl
          · have hne : g.opcode ≠ Op.OP_CODESEPARATOR := by
              rw [hop]; intro h; apply hsep; apply u8_ext; rw [h]; rfl
            simp only [hne, if_false]
            rw [strip_other f' b r t hsep ht, hrest]
            have h1 := ih f' (pre ++ (b :: r).take t) acc hlen
            simp only [List.append_assoc, List.take_append_drop] at h1
            rw [h1]; simp [List.append_assoc]

/-- `SerializeScriptCode` writes the script code without its OP_CODESEPARATOR instructions, with its length in front -/
theorem serScriptCode_eq (sc : Bytes) (h : Spec.decode sc ≠ none) :
    serScriptCode sc = serVarBytes (Spec.withoutCodeSeparators sc) := by
  have hp := parses_of_decode h
  unfold serScriptCode serVarBytes Spec.withoutCodeSeparators Spec.findAndDelete
  have h1 := count_strip sc hp (sc.length + 1) 0 (by omega)
  have h2 := go_strip sc hp (sc.length + 1) [] [] (by omega)
  simp only [List.nil_append] at h2
  unfold strip at h1 h2
  rw [h2]
  congr 2
  omega

/-! ## the legacy digest -/

private theorem range_map_getD {α β : Type} (l : List α) (d : α) (f : Nat → α → β) :
    (List.range l.length).map (fun k => f k (l.getD k d)) = l.mapIdx f := by
  apply List.ext_getElem
  · simp
  · intro i h1 h2
    simp only [List.length_map, List.length_range] at h1
    simp [List.getD_eq_getElem?_getD, List.getElem?_eq_getElem h1]

private theorem range_flatMap_getD {α : Type} (l : List α) (d : α) (f : Nat → α → Bytes) :
    (List.range l.length).flatMap (fun k => f k (l.getD k d)) = (l.mapIdx f).flatten := by
  rw [List.flatMap_def, range_map_getD]

theorem uint256One_eq : uint256One = Spec.one32 := by decide

/-- the copy of the transaction that the specification encodes, input by input -/
private def blank (sc : Bytes) (nIn ht : Nat) (k : Nat) (i : TxIn) : TxIn :=
  { prevout := i.prevout
    scriptSig := if k = nIn then Spec.withoutCodeSeparators sc else []
    sequence := if k ≠ nIn ∧ (Spec.isNone ht ∨ Spec.isSingle ht) then 0 else i.sequence
    witness := [] }

private theorem serSigInput_eq (tx : Tx) (sc : Bytes) (nIn ht k : Nat) (hd : Spec.decode sc ≠ none)
    (hacp : ¬ Spec.anyoneCanPay ht) :
    serSigInput tx sc nIn ht k = serTxIn (blank sc nIn ht k (tx.vin.getD k default)) := by
  have h1 : htAnyoneCanPay ht = false := by
    cases h : htAnyoneCanPay ht
    · rfl
    · exact absurd ((htAnyoneCanPay_iff ht).mp h) hacp
  unfold serSigInput blank serTxIn
  simp only [h1, Bool.false_eq_true, if_false]
  have hs : (htSingle ht || htNone ht) = true ↔ (Spec.isNone ht ∨ Spec.isSingle ht) := by
    rw [Bool.or_eq_true, htSingle_iff, htNone_iff]; exact Or.comm
  by_cases hk : k = nIn
  · subst hk; simp [serScriptCode_eq sc hd]
  · by_cases h2 : Spec.isNone ht ∨ Spec.isSingle ht
    · simp [hk, h2, hs.mpr h2]
    · have : ¬ ((htSingle ht || htNone ht) = true) := fun h => h2 (hs.mp h)
      simp [hk, h2, this]

private theorem serSigInput_acp (tx : Tx) (sc : Bytes) (nIn ht k : Nat) (hd : Spec.decode sc ≠ none)
    (hacp : Spec.anyoneCanPay ht) :
    serSigInput tx sc nIn ht k = serTxIn (blank sc nIn ht nIn (tx.vin.getD nIn default)) := by
  have h1 : htAnyoneCanPay ht = true := (htAnyoneCanPay_iff ht).mpr hacp
  unfold serSigInput blank serTxIn
  simp [h1, serScriptCode_eq sc hd]

private theorem map_mapIdx' {α β γ : Type} (l : List α) (g : Nat → α → β) (f : β → γ) :
    (l.mapIdx g).map f = l.mapIdx (fun k a => f (g k a)) := by
  apply List.ext_getElem <;> simp

private theorem mapIdx_const {α β : Type} (l : List α) (f : α → β) : l.mapIdx (fun _ a => f a) = l.map f := by
  apply List.ext_getElem <;> simp

private theorem legacyTxCopy_eq (tx : Tx) (sc : Bytes) (nIn ht : Nat) : Spec.legacyTxCopy tx nIn sc ht =
    { version := tx.version,
      vin := if Spec.anyoneCanPay ht then (tx.vin.mapIdx (blank sc nIn ht))[nIn]?.toList else tx.vin.mapIdx (blank sc nIn ht),
      vout := if Spec.isNone ht then []
        else if Spec.isSingle ht then
          (tx.vout.take (nIn + 1)).mapIdx (fun k o => if k = nIn then o else { value := -1, scriptPubKey := [] })
        else tx.vout,
      lockTime := tx.lockTime } := rfl

private theorem sigInputs_eq (tx : Tx) (sc : Bytes) (nIn ht : Nat) (hd : Spec.decode sc ≠ none) (hin : nIn < tx.vin.length) :
    compactSize (if htAnyoneCanPay ht = true then 1 else tx.vin.length)
        ++ (List.range (if htAnyoneCanPay ht = true then 1 else tx.vin.length)).flatMap (serSigInput tx sc nIn ht)
      = serVector serTxIn (if Spec.anyoneCanPay ht then (tx.vin.mapIdx (blank sc nIn ht))[nIn]?.toList else tx.vin.mapIdx (blank sc nIn ht)) := by
  by_cases hacp : Spec.anyoneCanPay ht
  · have h1 : htAnyoneCanPay ht = true := (htAnyoneCanPay_iff ht).mpr hacp
    simp only [h1, if_true, hacp, List.range_one, List.flatMap_cons, List.flatMap_nil, List.append_nil]
    rw [serSigInput_acp tx sc nIn ht 0 hd hacp]
    simp [serVector, List.getElem?_mapIdx, List.getElem?_eq_getElem hin, List.getD_eq_getElem?_getD]
  · have h1 : htAnyoneCanPay ht = false := by
      cases h : htAnyoneCanPay ht
      · rfl
      · exact absurd ((htAnyoneCanPay_iff ht).mp h) hacp
    simp only [h1, Bool.false_eq_true, if_false, hacp]
    have h2 : (List.range tx.vin.length).flatMap (serSigInput tx sc nIn ht)
        = (List.range tx.vin.length).flatMap (fun k => serTxIn (blank sc nIn ht k (tx.vin.getD k default))) := by
      congr 1; funext k; exact serSigInput_eq tx sc nIn ht k hd hacp
    have h3 := range_flatMap_getD tx.vin default (fun k i => serTxIn (blank sc nIn ht k i))
    rw [h2, h3]
    simp [serVector, List.flatMap_def, map_mapIdx']

private theorem sigOutputs_eq (tx : Tx) (nIn ht : Nat) (hs : Spec.isSingle ht → nIn < tx.vout.length) :
    compactSize (if htNone ht = true then 0 else if htSingle ht = true then nIn + 1 else tx.vout.length)
        ++ (List.range (if htNone ht = true then 0 else if htSingle ht = true then nIn + 1 else tx.vout.length)).flatMap (serSigOutput tx nIn ht)
      = serVector serTxOut (if Spec.isNone ht then []
          else if Spec.isSingle ht then (tx.vout.take (nIn + 1)).mapIdx (fun k o => if k = nIn then o else { value := -1, scriptPubKey := [] })
          else tx.vout) := by
  by_cases hn : Spec.isNone ht
  · have h1 : htNone ht = true := (htNone_iff ht).mpr hn
    simp [h1, hn, serVector]
  · have h1 : htNone ht = false := by
      cases h : htNone ht
      · rfl
      · exact absurd ((htNone_iff ht).mp h) hn
    by_cases hsg : Spec.isSingle ht
    · have h2 : htSingle ht = true := (htSingle_iff ht).mpr hsg
      have hlt := hs hsg
      simp only [h1, h2, hn, hsg, Bool.false_eq_true, if_false, if_true]
      have hl : (tx.vout.take (nIn + 1)).length = nIn + 1 := by simp only [List.length_take]; omega
      have h3 : (List.range (nIn + 1)).flatMap (serSigOutput tx nIn ht)
          = (List.range (tx.vout.take (nIn + 1)).length).flatMap
              (fun k => serTxOut (if k = nIn then (tx.vout.take (nIn + 1)).getD k default else { value := -1, scriptPubKey := [] })) := by
        rw [hl]
        congr 1; funext k
        unfold serSigOutput
        by_cases hkn : k = nIn
        · subst hkn
          simp [List.getD_eq_getElem?_getD]
        · simp [h2, hkn]
      have h4 := range_flatMap_getD (tx.vout.take (nIn + 1)) default
        (fun k o => serTxOut (if k = nIn then o else { value := -1, scriptPubKey := [] }))
      rw [h3, h4]
      simp [serVector, hl, List.flatMap_def, map_mapIdx']
    · have h2 : htSingle ht = false := by
        cases h : htSingle ht
        · rfl
        · exact absurd ((htSingle_iff ht).mp h) hsg
      simp only [h1, h2, hn, hsg, Bool.false_eq_true, if_false]
      have h3 : (List.range tx.vout.length).flatMap (serSigOutput tx nIn ht)
          = (List.range tx.vout.length).flatMap (fun k => serTxOut (tx.vout.getD k default)) := by
        congr 1; funext k; simp [serSigOutput, h2]
      have h4 := range_flatMap_getD tx.vout default (fun _ o => serTxOut o)
      rw [h3, h4, mapIdx_const]
      simp [serVector, List.flatMap_def]

/-- `CTransactionSignatureSerializer::Serialize` writes the encoding (without witness) of the specification's
    transaction copy -/
theorem serSigTx_eq (tx : Tx) (sc : Bytes) (nIn ht : Nat) (hd : Spec.decode sc ≠ none) (hin : nIn < tx.vin.length)
    (hs : Spec.isSingle ht → nIn < tx.vout.length) :
    serSigTx tx sc nIn ht = Spec.encodeTx (Spec.legacyTxCopy tx nIn sc ht) false := by
  rw [← serTx_eq_encodeTx, legacyTxCopy_eq]
  unfold serSigTx serTx
  have hins := sigInputs_eq tx sc nIn ht hd hin
  have houts := sigOutputs_eq tx nIn ht hs
  simp only [Bool.false_and, Bool.false_eq_true, if_false, List.append_nil, ne_eq, not_true_eq_false]
  simp only [List.append_assoc] at hins houts ⊢
  rw [← hins, ← houts]
  simp [List.append_assoc]

/-- **Legacy digest.**  For every transaction, every existing input, every hash type (all 2^32 and beyond) and every
    script code that decodes, the digest computed by `SignatureHash` (non-witness branch) is the digest of the original
    Bitcoin algorithm, including the SIGHASH_SINGLE "one" digest.  (`_partial`: see the FINDING in the file header for
    script codes that do not decode.) -/
theorem legacySighash_eq_spec_partial (cr : SigCrypto) (sc : Bytes) (tx : Tx) (nIn ht : Nat)
    (hin : nIn < tx.vin.length) (hd : Spec.decode sc ≠ none) :
    legacySighash cr sc tx nIn ht = Spec.legacyDigest cr.sha256 sc tx nIn ht := by
  unfold legacySighash Spec.legacyDigest
  by_cases h : Spec.isSingle ht ∧ tx.vout.length ≤ nIn
  · have h2 : htSingle ht = true := (htSingle_iff ht).mpr h.1
    simp [h, h2, uint256One_eq]
  · have hs : Spec.isSingle ht → nIn < tx.vout.length := fun h1 => by
      by_cases h3 : nIn < tx.vout.length
      · exact h3
      · exact absurd ⟨h1, by omega⟩ h
    have : (htSingle ht && decide (nIn ≥ tx.vout.length)) = false := by
      cases h2 : htSingle ht
      · simp
      · have := hs ((htSingle_iff ht).mp h2); simp; omega
    simp only [this, Bool.false_eq_true, if_false, h, SigCrypto.hash256]
    rw [serSigTx_eq tx sc nIn ht hd hin hs]

/-- the same for the dispatching function `SignatureHash` with a non-witness signature version -/
theorem signatureHash_legacy (cr : SigCrypto) (sc : Bytes) (tx : Tx) (nIn ht : Nat) (amount : Int) (sv : SigVersion)
    (cache : PrecomputedTxData) (hin : nIn < tx.vin.length) (hd : Spec.decode sc ≠ none) (hsv : sv ≠ .WITNESS_V0) :
    signatureHash cr sc tx nIn ht amount sv cache = .ok (Spec.legacyDigest cr.sha256 sc tx nIn ht) := by
  unfold signatureHash
  have : ¬ (nIn ≥ tx.vin.length) := by omega
  have h2 : (sv == SigVersion.WITNESS_V0) = false := by cases sv <;> simp_all
  simp [this, h2, legacySighash_eq_spec_partial cr sc tx nIn ht hin hd]

/-! ## the cached hashes -/

theorem prevoutsBytes_eq (tx : Tx) : prevoutsBytes tx = (tx.vin.map (fun i => Spec.encodeOutPoint i.prevout)).flatten := by
  simp [prevoutsBytes, List.flatMap_def, serOutPoint, Spec.encodeOutPoint]

theorem sequencesBytes_eq (tx : Tx) : sequencesBytes tx = (tx.vin.map (fun i => leFixed 4 i.sequence)).flatten := by
  simp [sequencesBytes, List.flatMap_def]

theorem outputsBytes_eq (tx : Tx) : outputsBytes tx = (tx.vout.map Spec.encodeOut).flatten := by
  simp [outputsBytes, List.flatMap_def, encodeOut_eq]

theorem spentAmountsBytes_eq (spent : List TxOut) :
    spentAmountsBytes spent = (spent.map (fun o => leFixed 8 (Spec.twos 64 o.value))).flatten := by
  simp [spentAmountsBytes, List.flatMap_def, twos_eq]

theorem spentScriptsBytes_eq (spent : List TxOut) :
    spentScriptsBytes spent = (spent.map (fun o => Spec.encodeBytes o.scriptPubKey)).flatten := by
  simp [spentScriptsBytes, List.flatMap_def, encodeBytes_eq]

/-- A `PrecomputedTransactionData` is coherent with a transaction when every field whose ready flag is set holds the
    hash it is documented to hold.  `PrecomputedTransactionData()` is coherent with every transaction, and so is the
    result of `Init` (`precomputeInit_coherent`). -/
structure Coherent (cr : SigCrypto) (tx : Tx) (d : PrecomputedTxData) : Prop where
  h143 : d.bip143SegwitReady = true →
    d.hashPrevouts = cr.sha256 (cr.sha256 (prevoutsBytes tx)) ∧ d.hashSequence = cr.sha256 (cr.sha256 (sequencesBytes tx))
      ∧ d.hashOutputs = cr.sha256 (cr.sha256 (outputsBytes tx))
  h341 : d.bip341TaprootReady = true →
    d.prevoutsSingleHash = cr.sha256 (prevoutsBytes tx) ∧ d.sequencesSingleHash = cr.sha256 (sequencesBytes tx)
      ∧ d.outputsSingleHash = cr.sha256 (outputsBytes tx)
      ∧ d.spentAmountsSingleHash = cr.sha256 (spentAmountsBytes d.spentOutputs)
      ∧ d.spentScriptsSingleHash = cr.sha256 (spentScriptsBytes d.spentOutputs)
  hspent : d.spentOutputsReady = true → d.spentOutputs.length = tx.vin.length

theorem coherent_default (cr : SigCrypto) (tx : Tx) : Coherent cr tx {} :=
  ⟨by simp, by simp, by simp⟩

/-! ## BIP143 -/

/-- **BIP143 digest.**  For every transaction, every existing input, every script code, amount and hash type, and every
    coherent cache (none, or the one `Init` made: the cached and the uncached path agree), the digest computed by
    `SignatureHash` for `SigVersion::WITNESS_V0` is the BIP143 digest. -/
theorem bip143Sighash_eq_spec (cr : SigCrypto) (sc : Bytes) (tx : Tx) (nIn ht : Nat) (amount : Int) (cache : PrecomputedTxData)
    (hin : nIn < tx.vin.length) (hc : Coherent cr tx cache) :
    bip143Sighash cr sc tx nIn ht amount cache = Spec.bip143Digest cr.sha256 sc tx nIn ht amount := by
  unfold bip143Sighash Spec.bip143Digest
  have hP : (if cache.bip143SegwitReady = true then cache.hashPrevouts else cr.sha256 (cr.sha256 (prevoutsBytes tx)))
      = cr.sha256 (cr.sha256 (prevoutsBytes tx)) := by
    by_cases h : cache.bip143SegwitReady = true
    · simp [h, (hc.h143 h).1]
    · simp [h]
  have hS : (if cache.bip143SegwitReady = true then cache.hashSequence else cr.sha256 (cr.sha256 (sequencesBytes tx)))
      = cr.sha256 (cr.sha256 (sequencesBytes tx)) := by
    by_cases h : cache.bip143SegwitReady = true
    · simp [h, (hc.h143 h).2.1]
    · simp [h]
  have hO : (if cache.bip143SegwitReady = true then cache.hashOutputs else cr.sha256 (cr.sha256 (outputsBytes tx)))
      = cr.sha256 (cr.sha256 (outputsBytes tx)) := by
    by_cases h : cache.bip143SegwitReady = true
    · simp [h, (hc.h143 h).2.2]
    · simp [h]
  simp only [hP, hS, hO]
  simp only [List.getElem?_eq_getElem hin, List.getD_eq_getElem?_getD, Option.getD_some,
    prevoutsBytes_eq, sequencesBytes_eq, outputsBytes_eq, SigCrypto.hash256, twos_eq, encodeBytes_eq,
    htAnyoneCanPay_eq, htSingle_eq, htNone_eq]
  have e1 : serOutPoint tx.vin[nIn].prevout = Spec.encodeOutPoint tx.vin[nIn].prevout := rfl
  have ez : zero32 = Spec.zeros32 := rfl
  rw [e1, ez]
  by_cases hlt : nIn < tx.vout.length
  · by_cases ha : Spec.anyoneCanPay ht <;> by_cases hs : Spec.isSingle ht <;> by_cases hn : Spec.isNone ht <;>
      simp [ha, hs, hn, hlt, encodeOut_eq]
  · by_cases ha : Spec.anyoneCanPay ht <;> by_cases hs : Spec.isSingle ht <;> by_cases hn : Spec.isNone ht <;>
      simp [ha, hs, hn, hlt]

/-- the dispatching function `SignatureHash` with `SigVersion::WITNESS_V0` -/
theorem signatureHash_v0 (cr : SigCrypto) (sc : Bytes) (tx : Tx) (nIn ht : Nat) (amount : Int)
    (cache : PrecomputedTxData) (hin : nIn < tx.vin.length) (hc : Coherent cr tx cache) :
    signatureHash cr sc tx nIn ht amount .WITNESS_V0 cache = .ok (Spec.bip143Digest cr.sha256 sc tx nIn ht amount) := by
  unfold signatureHash
  have : ¬ (nIn ≥ tx.vin.length) := by omega
  simp [this, bip143Sighash_eq_spec cr sc tx nIn ht amount cache hin hc]

/-! ## `PrecomputedTransactionData::Init`: what becomes ready, and when -/

/-- the spent output paired with the input at the head of the remaining lists looks like taproot -/
def headTap : List TxOut → Bool
  | o :: _ => looksTaproot o
  | [] => false

/-- some input carries a witness and is not recognised as a taproot spend (closed form of `uses_bip143_segwit`) -/
def uses143 (spentReady : Bool) : List TxIn → List TxOut → Bool
  | [], _ => false
  | i :: is, sp => (!i.witness.isEmpty && !(spentReady && headTap sp)) || uses143 spentReady is sp.tail

/-- some input carries a witness and its spent output is a 34-byte script starting with OP_1, the spent outputs
    being known (closed form of `uses_bip341_taproot`) -/
def uses341 (spentReady : Bool) : List TxIn → List TxOut → Bool
  | [], _ => false
  | i :: is, sp => (!i.witness.isEmpty && (spentReady && headTap sp)) || uses341 spentReady is sp.tail

theorem scanUses_eq (ready : Bool) (vin : List TxIn) : ∀ (sp : List TxOut) (a b : Bool),
    scanUses ready vin sp a b = (a || uses143 ready vin sp, b || uses341 ready vin sp) := by
  induction vin with
  | nil => intro sp a b; simp [scanUses, uses143, uses341]
  | cons i is ih =>
    intro sp a b
    unfold scanUses
    by_cases hab : (a && b) = true
    · simp only [hab, if_true]
      simp only [Bool.and_eq_true] at hab
      simp [hab.1, hab.2]
    · simp only [hab, Bool.false_eq_true, if_false]
      rw [ih]
      cases sp with
      | nil =>
        simp only [uses143, uses341, headTap]
        cases hw : i.witness.isEmpty <;> cases hr : ready <;> cases a <;> cases b <;> simp
      | cons o sp' =>
        simp only [uses143, uses341, headTap]
        cases hw : i.witness.isEmpty <;> cases hr : ready <;> cases a <;> cases b <;>
          rcases Bool.eq_false_or_eq_true (looksTaproot o) with ht | ht <;> simp [ht]

/-- in words: `uses341` holds iff the spent outputs are known and some input `k` has a non-empty witness and a
    taproot-looking spent output -/
theorem uses341_iff (ready : Bool) (vin : List TxIn) : ∀ (sp : List TxOut),
    uses341 ready vin sp = true ↔
      ready = true ∧ ∃ (k : Nat) (i : TxIn) (o : TxOut), vin[k]? = some i ∧ sp[k]? = some o ∧ i.witness ≠ [] ∧ looksTaproot o = true := by
  induction vin with
  | nil => intro sp; simp [uses341]
  | cons i is ih =>
    intro sp
    simp only [uses341, Bool.or_eq_true, Bool.and_eq_true, Bool.not_eq_true', ih]
    constructor
    · rintro (⟨hw, hr, ht⟩ | ⟨hr, k, i', o, h1, h2, h3, h4⟩)
      · cases sp with
        | nil => simp [headTap] at ht
        | cons o sp' =>
          refine ⟨hr, 0, i, o, by simp, by simp, ?_, by simpa [headTap] using ht⟩
          intro h; simp [h] at hw
      · refine ⟨hr, k + 1, i', o, by simpa using h1, ?_, h3, h4⟩
        cases sp with
        | nil => simp at h2
        | cons o' sp' => simpa using h2
    · rintro ⟨hr, k, i', o, h1, h2, h3, h4⟩
      cases k with
      | zero =>
        left
        simp only [List.getElem?_cons_zero, Option.some.injEq] at h1
        subst h1
        cases sp with
        | nil => simp at h2
        | cons o' sp' =>
          simp only [List.getElem?_cons_zero, Option.some.injEq] at h2
          subst h2
          refine ⟨?_, hr, by simpa [headTap] using h4⟩
          cases hw : i.witness with
          | nil => exact absurd hw h3
          | cons _ _ => rfl
      | succ k =>
        right
        refine ⟨hr, k, i', o, by simpa using h1, ?_, h3, h4⟩
        cases sp with
        | nil => simp at h2
        | cons o' sp' => simpa using h2

/-- in words: `uses143` holds iff some input `k` has a non-empty witness and is not recognised as a taproot spend
    (spent outputs unknown, or no spent output at that position, or not taproot-looking) -/
theorem uses143_iff (ready : Bool) (vin : List TxIn) : ∀ (sp : List TxOut),
    uses143 ready vin sp = true ↔
      ∃ (k : Nat) (i : TxIn), vin[k]? = some i ∧ i.witness ≠ [] ∧ ¬ (ready = true ∧ ∃ (o : TxOut), sp[k]? = some o ∧ looksTaproot o = true) := by
  induction vin with
  | nil => intro sp; simp [uses143]
  | cons i is ih =>
    intro sp
    simp only [uses143, Bool.or_eq_true, Bool.and_eq_true, Bool.not_eq_true', ih]
    constructor
    · rintro (⟨hw, hn⟩ | ⟨k, i', h1, h3, h4⟩)
      · refine ⟨0, i, by simp, ?_, ?_⟩
        · intro h; simp [h] at hw
        · rintro ⟨hr, o, h2, h5⟩
          cases sp with
          | nil => simp at h2
          | cons o' sp' =>
            simp only [List.getElem?_cons_zero, Option.some.injEq] at h2
            subst h2
            simp [hr, headTap, h5] at hn
      · refine ⟨k + 1, i', by simpa using h1, h3, ?_⟩
        rintro ⟨hr, o, h2, h5⟩
        apply h4
        refine ⟨hr, o, ?_, h5⟩
        cases sp with
        | nil => simp at h2
        | cons o' sp' => simpa using h2
    · rintro ⟨k, i', h1, h3, h4⟩
      cases k with
      | zero =>
        left
        simp only [List.getElem?_cons_zero, Option.some.injEq] at h1
        subst h1
        constructor
        · cases hw : i.witness with
          | nil => exact absurd hw h3
          | cons _ _ => rfl
        · cases hr : ready
          · simp
          · cases sp with
            | nil => simp [headTap]
            | cons o' sp' =>
              cases ht : looksTaproot o'
              · simp [headTap, ht]
              · exact absurd ⟨hr, o', by simp, ht⟩ h4
      | succ k =>
        right
        refine ⟨k, i', by simpa using h1, h3, ?_⟩
        rintro ⟨hr, o, h2, h5⟩
        apply h4
        refine ⟨hr, o, ?_, h5⟩
        cases sp with
        | nil => simp at h2
        | cons o' sp' => simpa using h2

/-- `Init` does not abort exactly when no spent outputs are given or one per input -/
theorem precomputeInit_ok (cr : SigCrypto) (tx : Tx) (spent : List TxOut) (force : Bool) :
    (∃ d, precomputeInit cr tx spent force = .ok d) ↔ (spent = [] ∨ spent.length = tx.vin.length) := by
  unfold precomputeInit
  by_cases h : spent = []
  · simp [h]
  · by_cases h2 : spent.length = tx.vin.length
    · simp [h, h2]
    · simp [h, h2]

/-- **Readiness after `Init`.**  `m_spent_outputs_ready` iff spent outputs were given; `m_bip143_segwit_ready` iff `force`
    or some witness-bearing input is not recognised as taproot; `m_bip341_taproot_ready` iff `force` or some witness-bearing
    input spends a taproot-looking output (which needs the spent outputs). -/
theorem precomputeInit_flags (cr : SigCrypto) (tx : Tx) (spent : List TxOut) (force : Bool) (d : PrecomputedTxData)
    (h : precomputeInit cr tx spent force = .ok d) :
    d.spentOutputs = spent ∧ d.spentOutputsReady = !spent.isEmpty
      ∧ d.bip143SegwitReady = (force || uses143 (!spent.isEmpty) tx.vin spent)
      ∧ d.bip341TaprootReady = (force || uses341 (!spent.isEmpty) tx.vin spent) := by
  unfold precomputeInit at h
  split at h
  · simp at h
  · simp only [scanUses_eq, Except.ok.injEq] at h
    subst h
    cases h1 : (force || uses143 (!spent.isEmpty) tx.vin spent) <;>
      cases h2 : (force || uses341 (!spent.isEmpty) tx.vin spent) <;> simp

/-- **Coherence after `Init`**: every field whose flag is set holds the hash it should -/
theorem precomputeInit_coherent (cr : SigCrypto) (tx : Tx) (spent : List TxOut) (force : Bool) (d : PrecomputedTxData)
    (h : precomputeInit cr tx spent force = .ok d) : Coherent cr tx d := by
  unfold precomputeInit at h
  split at h
  · simp at h
  · rename_i hne
    simp only [scanUses_eq, Except.ok.injEq] at h
    subst h
    have hlen : spent.isEmpty = false → spent.length = tx.vin.length := by
      intro he
      simp only [he, Bool.not_false, Bool.true_and, ne_eq, decide_not, Bool.not_eq_true', decide_eq_false_iff_not] at hne
      omega
    cases h1 : (force || uses143 (!spent.isEmpty) tx.vin spent) <;>
      cases h2 : (force || uses341 (!spent.isEmpty) tx.vin spent) <;>
      refine ⟨?_, ?_, ?_⟩ <;> simp <;> intro he <;> exact hlen (by simpa using he)

/-- **Single input (what btcdeb supports).**  For a transaction with one input whose spent output is supplied, `Init`
    succeeds and the BIP341 data is ready as soon as `force` is set (btcdeb: `has_preamble`, i.e. key path spends) or the
    input has a witness and the spent output looks like taproot (script path spends). -/
theorem precomputeInit_single_input_ready (cr : SigCrypto) (tx : Tx) (i : TxIn) (o : TxOut) (force : Bool)
    (hv : tx.vin = [i]) (hr : force = true ∨ (i.witness ≠ [] ∧ looksTaproot o = true)) :
    ∃ d, precomputeInit cr tx [o] force = .ok d ∧ d.bip341TaprootReady = true ∧ d.spentOutputsReady = true
      ∧ d.spentOutputs = [o] ∧ Coherent cr tx d := by
  obtain ⟨d, hd⟩ := (precomputeInit_ok cr tx [o] force).mpr (Or.inr (by simp [hv]))
  obtain ⟨h1, h2, _, h4⟩ := precomputeInit_flags cr tx [o] force d hd
  refine ⟨d, hd, ?_, by simp [h2], h1, precomputeInit_coherent cr tx [o] force d hd⟩
  rw [h4, hv]
  rcases hr with hf | ⟨hw, ht⟩
  · simp [hf]
  · have : i.witness.isEmpty = false := by cases hw' : i.witness <;> simp_all
    simp [uses341, headTap, ht, this]

/-- `Instance::setup_environment` for a single-input transaction: the same conclusion for `Instance::txdata` -/
theorem instanceTxData_single_ready (cr : SigCrypto) (tx : Tx) (i : TxIn) (o : TxOut) (hasPreamble : Bool)
    (hv : tx.vin = [i]) (hr : hasPreamble = true ∨ (i.witness ≠ [] ∧ looksTaproot o = true)) :
    ∃ d, instanceTxData cr tx o hasPreamble = .ok d ∧ d.bip341TaprootReady = true ∧ d.spentOutputsReady = true
      ∧ d.spentOutputs = [o] ∧ Coherent cr tx d := by
  unfold instanceTxData
  simp only [hv, List.length_singleton, if_true]
  exact precomputeInit_single_input_ready cr tx i o hasPreamble hv hr

/-- **btcdeb's deviation.**  For a transaction with any other number of inputs `Instance::setup_environment` leaves
    `txdata` default-constructed: nothing is ready, whatever the inputs are. -/
theorem instanceTxData_multi_input_not_ready (cr : SigCrypto) (tx : Tx) (o : TxOut) (hasPreamble : Bool)
    (hv : tx.vin.length ≠ 1) :
    instanceTxData cr tx o hasPreamble = .ok {} ∧ ({} : PrecomputedTxData).bip341TaprootReady = false
      ∧ ({} : PrecomputedTxData).bip143SegwitReady = false ∧ ({} : PrecomputedTxData).spentOutputsReady = false := by
  unfold instanceTxData
  simp [hv]

/-- `Instance::calc_sighash` calls `Init` unguarded: with more than one input it dies on the assertion -/
theorem calcSighashTxData_multi_input_aborts (cr : SigCrypto) (tx : Tx) (o : TxOut) (hasPreamble : Bool)
    (hv : tx.vin.length ≠ 1) :
    calcSighashTxData cr tx o hasPreamble = .error (.abnormal "assert(m_spent_outputs.size() == txTo.vin.size())") := by
  unfold calcSighashTxData precomputeInit
  have : ¬ (1 = tx.vin.length) := fun h => hv h.symm
  simp [this]

/-! ## BIP341 / BIP342 -/

/-- what `SignatureHashSchnorr` expects of the `ScriptExecutionData` it is given, in terms of the specification's
    inputs: the annex fields describe `annex`, the tapscript fields describe `ext` (and the signature version says which
    of the two messages is wanted), and a cached single-output hash, if any, is the hash of the output at this index. -/
structure SchnorrPre (cr : SigCrypto) (ed : ExecData) (tx : Tx) (nIn : Nat) (annex : Option Bytes) (ext : Option Spec.TapExt)
    (sv : SigVersion) : Prop where
  annexInit : ed.annexInit = true
  annexPresent : ed.annexPresent = annex.isSome
  annexHash : ∀ a, annex = some a → ed.annexHash = cr.sha256 (serVarBytes a)
  extOk : match ext with
    | none => sv = .TAPROOT
    | some e => sv = .TAPSCRIPT ∧ ed.tapleafHashInit = true ∧ ed.tapleafHash = e.leafHash
        ∧ ed.codesepPosInit = true ∧ ed.codesepPos = e.codesepPos
  outCache : ed.outputHash = none ∨ ∃ o, tx.vout[nIn]? = some o ∧ ed.outputHash = some (cr.sha256 (serTxOut o))

private theorem tapTypes (ht : Nat) (hv : Spec.tapHashTypeValid ht) :
    ((ht &&& Gen.SIGHASH_INPUT_MASK ≠ Gen.SIGHASH_ANYONECANPAY) ↔ ¬ Spec.anyoneCanPay ht)
    ∧ ((if ht = Gen.SIGHASH_DEFAULT then Gen.SIGHASH_ALL else ht &&& Gen.SIGHASH_OUTPUT_MASK) = Gen.SIGHASH_ALL ↔ ¬ (ht % 4 = 2 ∨ ht % 4 = 3))
    ∧ ((if ht = Gen.SIGHASH_DEFAULT then Gen.SIGHASH_ALL else ht &&& Gen.SIGHASH_OUTPUT_MASK) = Gen.SIGHASH_SINGLE ↔ ht % 4 = 3)
    ∧ (!(decide (ht ≤ 3) || (decide (ht ≥ 0x81) && decide (ht ≤ 0x83)))) = false := by
  unfold Spec.anyoneCanPay
  rcases hv with rfl | rfl | rfl | rfl | rfl | rfl | rfl <;> decide

private theorem tapInvalid (ht : Nat) (hv : ¬ Spec.tapHashTypeValid ht) :
    (!(decide (ht ≤ 3) || (decide (ht ≥ 0x81) && decide (ht ≤ 0x83)))) = true := by
  unfold Spec.tapHashTypeValid at hv
  have : ¬ (ht ≤ 3) ∧ ¬ (ht ≥ 0x81 ∧ ht ≤ 0x83) := by omega
  simp [this.1]
  omega

theorem tapSighashTag_eq : tapSighashTag = Spec.tapSighashTag := by decide

/-- the facts about `sv` and the execution data that `SchnorrPre.extOk` / the annex fields give, per case -/
private theorem pre_ext_none {cr : SigCrypto} {ed : ExecData} {tx : Tx} {nIn : Nat} {annex : Option Bytes} {sv : SigVersion}
    (hp : SchnorrPre cr ed tx nIn annex none sv) : sv = .TAPROOT := hp.extOk

private theorem pre_ext_some {cr : SigCrypto} {ed : ExecData} {tx : Tx} {nIn : Nat} {annex : Option Bytes} {sv : SigVersion}
    {e : Spec.TapExt} (hp : SchnorrPre cr ed tx nIn annex (some e) sv) :
    sv = .TAPSCRIPT ∧ ed.tapleafHashInit = true ∧ ed.tapleafHash = e.leafHash ∧ ed.codesepPosInit = true
      ∧ ed.codesepPos = e.codesepPos := hp.extOk

/-- **BIP341/BIP342 digest.**  With the BIP341 data and the spent outputs ready and coherent, for every transaction, every
    existing input, every hash type byte, annex, and (for tapscript) leaf hash and code separator position,
    `SignatureHashSchnorr` returns true with the BIP341 digest exactly when BIP341 defines a message, and false otherwise
    (undefined hash type; SIGHASH_SINGLE without a corresponding output).  It never asserts.  The single-output hash
    cache it leaves behind is again coherent. -/
theorem schnorrSighashM_eq_spec (cr : SigCrypto) (ed : ExecData) (tx : Tx) (nIn ht : Nat) (sv : SigVersion)
    (cache : PrecomputedTxData) (mdb : MissingDataBehavior) (annex : Option Bytes) (ext : Option Spec.TapExt)
    (hin : nIn < tx.vin.length) (hc : Coherent cr tx cache)
    (hr1 : cache.bip341TaprootReady = true) (hr2 : cache.spentOutputsReady = true)
    (hp : SchnorrPre cr ed tx nIn annex ext sv) :
    ∃ oh, schnorrSighashM cr ed tx nIn ht sv cache mdb =
        .ok (if Spec.bip341Defined tx nIn ht
              then some (Spec.bip341Digest cr.sha256 tx nIn ht cache.spentOutputs annex ext) else none, oh)
      ∧ (oh = none ∨ ∃ o, tx.vout[nIn]? = some o ∧ oh = some (cr.sha256 (serTxOut o))) := by
  obtain ⟨c1, c2, c3, c4, c5⟩ := hc.h341 hr1
  have hsl := hc.hspent hr2
  have hnot : ¬ (nIn ≥ tx.vin.length) := by omega
  have hsvOk : ¬ (sv ≠ SigVersion.TAPROOT ∧ sv ≠ SigVersion.TAPSCRIPT) := by
    cases ext with
    | none => simp [pre_ext_none hp]
    | some e => simp [(pre_ext_some hp).1]
  unfold schnorrSighashM
  simp only [hsvOk, if_false, hnot, hr1, hr2, Bool.and_self, Bool.not_true, Bool.false_eq_true, hp.annexInit]
  by_cases hv : Spec.tapHashTypeValid ht
  · obtain ⟨t1, t2, t3, t4⟩ := tapTypes ht hv
    simp only [t4, Bool.false_eq_true, if_false]
    have hacp : (ht &&& Gen.SIGHASH_INPUT_MASK = Gen.SIGHASH_ANYONECANPAY) ↔ Spec.anyoneCanPay ht := by
      constructor
      · intro h; exact Decidable.not_not.mp (fun hn => (t1.mpr hn) h)
      · intro h; exact Decidable.not_not.mp (fun hn => (t1.mp hn) h)
    have hin' : tx.vin[nIn]? = some tx.vin[nIn] := List.getElem?_eq_getElem hin
    have hsp' : cache.spentOutputs[nIn]? = some (cache.spentOutputs[nIn]'(by omega)) := List.getElem?_eq_getElem (by omega)
    by_cases hsingle : ht % 4 = 3
    · have o3 : (if ht = Gen.SIGHASH_DEFAULT then Gen.SIGHASH_ALL else ht &&& Gen.SIGHASH_OUTPUT_MASK) = Gen.SIGHASH_SINGLE := t3.mpr hsingle
      have o1 : ¬ ((if ht = Gen.SIGHASH_DEFAULT then Gen.SIGHASH_ALL else ht &&& Gen.SIGHASH_OUTPUT_MASK) = Gen.SIGHASH_ALL) := by rw [o3]; decide
      by_cases hlt : nIn < tx.vout.length
      · -- SINGLE with a corresponding output
        have hdef : Spec.bip341Defined tx nIn ht := ⟨hv, fun _ => hlt⟩
        have hge : ¬ (nIn ≥ tx.vout.length) := by omega
        have hout' : tx.vout[nIn]? = some tx.vout[nIn] := List.getElem?_eq_getElem hlt
        have hoh : ed.outputHash.getD (cr.sha256 (serTxOut (tx.vout.getD nIn default)))
            = cr.sha256 (serTxOut tx.vout[nIn]) := by
          rcases hp.outCache with h | ⟨o, ho1, ho2⟩
          · simp [h, List.getD_eq_getElem?_getD, hout']
          · rw [hout'] at ho1; simp only [Option.some.injEq] at ho1; subst ho1; simp [ho2]
        refine ⟨some (cr.sha256 (serTxOut tx.vout[nIn])), ?_, Or.inr ⟨tx.vout[nIn], hout', rfl⟩⟩
        simp only [o3, show ¬ (Gen.SIGHASH_SINGLE = Gen.SIGHASH_ALL) by decide, hge, and_false, if_false, if_true, hdef, hoh]
        cases ext with
        | none =>
          have hsv := pre_ext_none hp
          subst hsv
          cases annex with
          | none =>
            have ha : ed.annexPresent = false := by simpa using hp.annexPresent
            simp only [ha, Spec.bip341Digest, Spec.bip341SigMsg, Spec.tagged, tapSighashOf, tapSighashTag_eq, c1, c2, c3, c4, c5,
              prevoutsBytes_eq, sequencesBytes_eq, outputsBytes_eq, spentAmountsBytes_eq, spentScriptsBytes_eq,
              List.getD_eq_getElem?_getD, hin', hsp', hout', Option.getD_some, ne_eq, hacp, hsingle, twos_eq]
            by_cases ha2 : Spec.anyoneCanPay ht <;>
              simp [ha2, hsingle, serOutPoint, Spec.encodeOutPoint, encodeOut_eq]
          | some a =>
            have ha : ed.annexPresent = true := by simpa using hp.annexPresent
            have hah := hp.annexHash a rfl
            simp only [ha, hah, Spec.bip341Digest, Spec.bip341SigMsg, Spec.tagged, tapSighashOf, tapSighashTag_eq, c1, c2, c3, c4, c5,
              prevoutsBytes_eq, sequencesBytes_eq, outputsBytes_eq, spentAmountsBytes_eq, spentScriptsBytes_eq,
              List.getD_eq_getElem?_getD, hin', hsp', hout', Option.getD_some, ne_eq, hacp, hsingle, twos_eq]
            by_cases ha2 : Spec.anyoneCanPay ht <;>
              simp [ha2, hsingle, serOutPoint, Spec.encodeOutPoint, encodeOut_eq, encodeBytes_eq]
        | some e =>
          obtain ⟨hsv, e1, e2, e3, e4⟩ := pre_ext_some hp
          subst hsv
          cases annex with
          | none =>
            have ha : ed.annexPresent = false := by simpa using hp.annexPresent
            simp only [ha, e1, e2, e3, e4, Spec.bip341Digest, Spec.bip341SigMsg, Spec.tagged, tapSighashOf, tapSighashTag_eq, c1, c2, c3, c4, c5,
              prevoutsBytes_eq, sequencesBytes_eq, outputsBytes_eq, spentAmountsBytes_eq, spentScriptsBytes_eq,
              List.getD_eq_getElem?_getD, hin', hsp', hout', Option.getD_some, ne_eq, hacp, hsingle, twos_eq]
            by_cases ha2 : Spec.anyoneCanPay ht <;>
              simp [ha2, hsingle, serOutPoint, Spec.encodeOutPoint, encodeOut_eq]
          | some a =>
            have ha : ed.annexPresent = true := by simpa using hp.annexPresent
            have hah := hp.annexHash a rfl
            simp only [ha, hah, e1, e2, e3, e4, Spec.bip341Digest, Spec.bip341SigMsg, Spec.tagged, tapSighashOf, tapSighashTag_eq, c1, c2, c3, c4, c5,
              prevoutsBytes_eq, sequencesBytes_eq, outputsBytes_eq, spentAmountsBytes_eq, spentScriptsBytes_eq,
              List.getD_eq_getElem?_getD, hin', hsp', hout', Option.getD_some, ne_eq, hacp, hsingle, twos_eq]
            by_cases ha2 : Spec.anyoneCanPay ht <;>
              simp [ha2, hsingle, serOutPoint, Spec.encodeOutPoint, encodeOut_eq, encodeBytes_eq]
      · -- SINGLE without a corresponding output
        have hndef : ¬ Spec.bip341Defined tx nIn ht := fun h => hlt (h.2 hsingle)
        have hge : nIn ≥ tx.vout.length := by omega
        refine ⟨ed.outputHash, ?_, hp.outCache⟩
        simp only [o3, hge, and_self, if_true, hndef, if_false]
    · have hdef : Spec.bip341Defined tx nIn ht := ⟨hv, fun h => absurd h hsingle⟩
      have o3 : ¬ ((if ht = Gen.SIGHASH_DEFAULT then Gen.SIGHASH_ALL else ht &&& Gen.SIGHASH_OUTPUT_MASK) = Gen.SIGHASH_SINGLE) := fun h => hsingle (t3.mp h)
      refine ⟨ed.outputHash, ?_, hp.outCache⟩
      simp only [o3, false_and, if_false, hdef, if_true]
      cases ext with
      | none =>
        have hsv := pre_ext_none hp
        subst hsv
        cases annex with
        | none =>
          have ha : ed.annexPresent = false := by simpa using hp.annexPresent
          simp only [ha, Spec.bip341Digest, Spec.bip341SigMsg, Spec.tagged, tapSighashOf, tapSighashTag_eq, c1, c2, c3, c4, c5,
            prevoutsBytes_eq, sequencesBytes_eq, outputsBytes_eq, spentAmountsBytes_eq, spentScriptsBytes_eq,
            List.getD_eq_getElem?_getD, hin', hsp', Option.getD_some, ne_eq, hacp, t2, hsingle, twos_eq]
          by_cases ha2 : Spec.anyoneCanPay ht <;> by_cases ho : ht % 4 = 2 <;>
            simp [ha2, ho, hsingle, serOutPoint, Spec.encodeOutPoint, encodeOut_eq]
        | some a =>
          have ha : ed.annexPresent = true := by simpa using hp.annexPresent
          have hah := hp.annexHash a rfl
          simp only [ha, hah, Spec.bip341Digest, Spec.bip341SigMsg, Spec.tagged, tapSighashOf, tapSighashTag_eq, c1, c2, c3, c4, c5,
            prevoutsBytes_eq, sequencesBytes_eq, outputsBytes_eq, spentAmountsBytes_eq, spentScriptsBytes_eq,
            List.getD_eq_getElem?_getD, hin', hsp', Option.getD_some, ne_eq, hacp, t2, hsingle, twos_eq]
          by_cases ha2 : Spec.anyoneCanPay ht <;> by_cases ho : ht % 4 = 2 <;>
            simp [ha2, ho, hsingle, serOutPoint, Spec.encodeOutPoint, encodeOut_eq, encodeBytes_eq]
      | some e =>
        obtain ⟨hsv, e1, e2, e3, e4⟩ := pre_ext_some hp
        subst hsv
        cases annex with
        | none =>
          have ha : ed.annexPresent = false := by simpa using hp.annexPresent
          simp only [ha, e1, e2, e3, e4, Spec.bip341Digest, Spec.bip341SigMsg, Spec.tagged, tapSighashOf, tapSighashTag_eq, c1, c2, c3, c4, c5,
            prevoutsBytes_eq, sequencesBytes_eq, outputsBytes_eq, spentAmountsBytes_eq, spentScriptsBytes_eq,
            List.getD_eq_getElem?_getD, hin', hsp', Option.getD_some, ne_eq, hacp, t2, hsingle, twos_eq]
          by_cases ha2 : Spec.anyoneCanPay ht <;> by_cases ho : ht % 4 = 2 <;>
            simp [ha2, ho, hsingle, serOutPoint, Spec.encodeOutPoint, encodeOut_eq]
        | some a =>
          have ha : ed.annexPresent = true := by simpa using hp.annexPresent
          have hah := hp.annexHash a rfl
          simp only [ha, hah, e1, e2, e3, e4, Spec.bip341Digest, Spec.bip341SigMsg, Spec.tagged, tapSighashOf, tapSighashTag_eq, c1, c2, c3, c4, c5,
            prevoutsBytes_eq, sequencesBytes_eq, outputsBytes_eq, spentAmountsBytes_eq, spentScriptsBytes_eq,
            List.getD_eq_getElem?_getD, hin', hsp', Option.getD_some, ne_eq, hacp, t2, hsingle, twos_eq]
          by_cases ha2 : Spec.anyoneCanPay ht <;> by_cases ho : ht % 4 = 2 <;>
            simp [ha2, ho, hsingle, serOutPoint, Spec.encodeOutPoint, encodeOut_eq, encodeBytes_eq]
  · have hndef : ¬ Spec.bip341Defined tx nIn ht := fun h => hv h.1
    refine ⟨ed.outputHash, ?_, hp.outCache⟩
    simp [tapInvalid ht hv, hndef]

/-- the projection `schnorrSighash` (`MissingDataBehavior::FAIL`, as btcdeb uses it): `some digest` exactly when BIP341
    defines a message -/
theorem schnorrSighash_eq_spec (cr : SigCrypto) (ed : ExecData) (tx : Tx) (nIn ht : Nat) (sv : SigVersion)
    (cache : PrecomputedTxData) (annex : Option Bytes) (ext : Option Spec.TapExt)
    (hin : nIn < tx.vin.length) (hc : Coherent cr tx cache)
    (hr1 : cache.bip341TaprootReady = true) (hr2 : cache.spentOutputsReady = true)
    (hp : SchnorrPre cr ed tx nIn annex ext sv) :
    schnorrSighash cr ed tx nIn ht sv cache =
      if Spec.bip341Defined tx nIn ht then some (Spec.bip341Digest cr.sha256 tx nIn ht cache.spentOutputs annex ext) else none := by
  obtain ⟨oh, h, _⟩ := schnorrSighashM_eq_spec cr ed tx nIn ht sv cache .fail annex ext hin hc hr1 hr2 hp
  simp [schnorrSighash, h]

/-- **Missing data.**  If the BIP341 data or the spent outputs are not ready, `SignatureHashSchnorr` (with
    `MissingDataBehavior::FAIL`) yields no digest, whatever the other arguments are. -/
theorem schnorrSighash_not_ready (cr : SigCrypto) (ed : ExecData) (tx : Tx) (nIn ht : Nat) (sv : SigVersion)
    (cache : PrecomputedTxData) (h : ¬ (cache.bip341TaprootReady = true ∧ cache.spentOutputsReady = true)) :
    schnorrSighash cr ed tx nIn ht sv cache = none := by
  unfold schnorrSighash schnorrSighashM
  have : (!(cache.bip341TaprootReady && cache.spentOutputsReady)) = true := by
    cases h1 : cache.bip341TaprootReady <;> cases h2 : cache.spentOutputsReady <;> simp_all
  by_cases h1 : sv ≠ SigVersion.TAPROOT ∧ sv ≠ SigVersion.TAPSCRIPT
  · simp [h1]
  · by_cases h2 : nIn ≥ tx.vin.length
    · simp [h1, h2]
    · simp [h1, h2, this, handleMissingData]

/-- **Exactly the documented failure cases.**  For an existing input, a coherent cache and well-formed execution data,
    `SignatureHashSchnorr` fails iff data is missing, or the hash type is undefined, or the hash type is SIGHASH_SINGLE and
    there is no output at the input's index. -/
theorem schnorrSighash_none_iff (cr : SigCrypto) (ed : ExecData) (tx : Tx) (nIn ht : Nat) (sv : SigVersion)
    (cache : PrecomputedTxData) (annex : Option Bytes) (ext : Option Spec.TapExt)
    (hin : nIn < tx.vin.length) (hc : Coherent cr tx cache) (hp : SchnorrPre cr ed tx nIn annex ext sv) :
    schnorrSighash cr ed tx nIn ht sv cache = none ↔
      (¬ (cache.bip341TaprootReady = true ∧ cache.spentOutputsReady = true) ∨ ¬ Spec.tapHashTypeValid ht
        ∨ (ht % 4 = 3 ∧ tx.vout.length ≤ nIn)) := by
  by_cases hr : cache.bip341TaprootReady = true ∧ cache.spentOutputsReady = true
  · rw [schnorrSighash_eq_spec cr ed tx nIn ht sv cache annex ext hin hc hr.1 hr.2 hp]
    unfold Spec.bip341Defined
    by_cases hv : Spec.tapHashTypeValid ht
    · by_cases hs : ht % 4 = 3
      · by_cases hl : nIn < tx.vout.length
        · simp [hr, hv, hs, hl]
        · simp [hr, hv, hs, hl]; omega
      · simp [hr, hv, hs]
    · simp [hr, hv]
  · simp [schnorrSighash_not_ready cr ed tx nIn ht sv cache hr, hr]

/-- consequence for a btcdeb session on a transaction with several inputs: no taproot digest can be computed -/
theorem schnorrSighash_multi_input_instance (cr : SigCrypto) (ed : ExecData) (tx : Tx) (nIn ht : Nat) (sv : SigVersion)
    (o : TxOut) (hasPreamble : Bool) (hv : tx.vin.length ≠ 1) :
    ∃ d, instanceTxData cr tx o hasPreamble = .ok d ∧ schnorrSighash cr ed tx nIn ht sv d = none := by
  refine ⟨{}, (instanceTxData_multi_input_not_ready cr tx o hasPreamble hv).1, ?_⟩
  exact schnorrSighash_not_ready cr ed tx nIn ht sv {} (by simp)

/-! ## the signature checker -/

private theorem nat_beq_dec (a b : Nat) : (a == b) = decide (a = b) := by
  by_cases h : a = b <;> simp [h]

theorem cpubkeyIsValid_eq (k : Bytes) : cpubkeyIsValid k = decide (Spec.secShape k) := by
  cases k with
  | nil => simp [cpubkeyIsValid, Spec.secShape]
  | cons h r =>
    simp only [cpubkeyIsValid, Spec.secShape, List.length_cons, List.headD_cons]
    by_cases h2 : h.toNat = 2
    · simp [h2, nat_beq_dec]
    · by_cases h3 : h.toNat = 3
      · simp [h3, nat_beq_dec]
      · by_cases h4 : h.toNat = 4
        · simp [h4, nat_beq_dec]
        · by_cases h6 : h.toNat = 6
          · simp [h6, nat_beq_dec]
          · by_cases h7 : h.toNat = 7
            · simp [h7, nat_beq_dec]
            · simp [h2, h3, h4, h6, h7]

/-- **ECDSA signatures.**  `CheckECDSASignature` accepts exactly the signatures that are valid ECDSA signatures by a key
    of SEC shape over the BIP-defined digest for the signature's hash type byte: BIP143 for witness v0 (which needs a
    non-negative amount), the original digest otherwise.  It never asserts for an existing input. -/
theorem checkECDSA_eq_spec (cr : SigCrypto) (tx : Tx) (nIn : Nat) (amount : Int) (txdata : PrecomputedTxData)
    (sig key sc : Bytes) (sv : SigVersion) (hin : nIn < tx.vin.length) (hc : Coherent cr tx txdata)
    (hd : sv ≠ .WITNESS_V0 → Spec.decode sc ≠ none) :
    checkECDSASignatureM cr tx nIn amount txdata .fail sig key sc sv =
      .ok (Spec.ecdsaSigValid cr.sha256 cr.ecdsaVerify tx nIn amount sig key sc sv) := by
  unfold checkECDSASignatureM Spec.ecdsaSigValid
  rw [cpubkeyIsValid_eq]
  by_cases hk : Spec.secShape key
  · cases hl : sig.getLast? with
    | none =>
      have : sig = [] := by simpa using hl
      simp [hk, this]
    | some htb =>
      have hne : sig.isEmpty = false := by
        cases sig with
        | nil => simp at hl
        | cons _ _ => rfl
      simp only [hk, decide_true, Bool.not_true, Bool.false_eq_true, if_false, hne, Option.getD_some, Bool.true_and]
      by_cases hsv : sv = .WITNESS_V0
      · subst hsv
        by_cases ha : amount < 0
        · have : ¬ (0 ≤ amount) := by omega
          simp [ha, this, handleMissingData]
        · have : 0 ≤ amount := by omega
          simp [ha, this, signatureHash_v0 cr sc tx nIn htb.toNat amount txdata hin hc]
      · have h2 : (sv == SigVersion.WITNESS_V0) = false := by cases sv <;> simp_all
        simp [h2, hsv, signatureHash_legacy cr sc tx nIn htb.toNat amount sv txdata hin (hd hsv) hsv]
  · cases hl : sig.getLast? <;> simp [hk]

/-- **Schnorr signatures.**  With the BIP341 data ready, `CheckSchnorrSignature` (32-byte key) applies exactly the BIP341
    signature validation rules and reports their error codes: size (44), hash type incl. undefined message (45), invalid
    signature (46). -/
theorem checkSchnorr_eq_spec (cr : SigCrypto) (tx : Tx) (nIn : Nat) (txdata : PrecomputedTxData) (mdb : MissingDataBehavior)
    (sig key : Bytes) (sv : SigVersion) (ed : ExecData) (annex : Option Bytes) (ext : Option Spec.TapExt)
    (hin : nIn < tx.vin.length) (hc : Coherent cr tx txdata)
    (hr1 : txdata.bip341TaprootReady = true) (hr2 : txdata.spentOutputsReady = true)
    (hp : SchnorrPre cr ed tx nIn annex ext sv) (hk : key.length = 32) :
    checkSchnorrSignatureM cr tx nIn txdata mdb sig key sv ed =
      (match Spec.schnorrSigValid cr.sha256 cr.schnorrVerify tx nIn txdata.spentOutputs annex ext sig key with
       | .ok () => .ok ()
       | .error e => .error (.script e)) := by
  have hsvOk : ¬ (sv ≠ SigVersion.TAPROOT ∧ sv ≠ SigVersion.TAPSCRIPT) := by
    cases ext with
    | none => simp [pre_ext_none hp]
    | some e => simp [(pre_ext_some hp).1]
  unfold checkSchnorrSignatureM Spec.schnorrSigValid
  simp only [hsvOk, if_false, hk, ne_eq, not_true_eq_false, Gen.SIGHASH_DEFAULT]
  by_cases h64 : sig.length = 64
  · have h65 : ¬ sig.length = 65 := by omega
    obtain ⟨oh, h, _⟩ := schnorrSighashM_eq_spec cr ed tx nIn 0 sv txdata mdb annex ext hin hc hr1 hr2 hp
    simp only [h64, (by decide : ¬ (64 : Nat) = 65), not_true_eq_false, false_and, if_false, if_true]
    rw [h]
    by_cases hdef : Spec.bip341Defined tx nIn 0
    · simp only [hdef, if_true, not_true_eq_false, if_false]
      cases cr.schnorrVerify key (Spec.bip341Digest cr.sha256 tx nIn 0 txdata.spentOutputs annex ext) sig <;> simp [fail]
    · simp [hdef, fail]
  · by_cases h65 : sig.length = 65
    · simp only [h65, (by decide : ¬ (65 : Nat) = 64), not_false_eq_true, not_true_eq_false, and_false, if_false, if_true, true_and]
      by_cases hz : (sig.getLast?.getD 0).toNat = 0
      · simp [hz, fail]
      · obtain ⟨oh, h, _⟩ := schnorrSighashM_eq_spec cr ed tx nIn (sig.getLast?.getD 0).toNat sv txdata mdb annex ext hin hc hr1 hr2 hp
        simp only [hz, if_false]
        rw [h]
        by_cases hdef : Spec.bip341Defined tx nIn (sig.getLast?.getD 0).toNat
        · simp only [hdef, if_true, not_true_eq_false, if_false]
          cases cr.schnorrVerify key (Spec.bip341Digest cr.sha256 tx nIn (sig.getLast?.getD 0).toNat txdata.spentOutputs annex ext) sig.dropLast <;>
            simp [fail]
        · simp [hdef, fail]
    · simp [h64, h65, fail]

/-- the `Ctx` built for a session: its ECDSA field is the specification's validity predicate -/
theorem txChecker_checkECDSA (cr : SigCrypto) (base : Ctx) (tx : Tx) (nIn : Nat) (amount : Int) (txdata : PrecomputedTxData)
    (sig key sc : Bytes) (sv : SigVersion) (hin : nIn < tx.vin.length) (hc : Coherent cr tx txdata)
    (hd : sv ≠ .WITNESS_V0 → Spec.decode sc ≠ none) :
    (txCheckerWith cr base tx nIn amount txdata).checkECDSA sig key sc sv =
      Spec.ecdsaSigValid cr.sha256 cr.ecdsaVerify tx nIn amount sig key sc sv := by
  simp [txCheckerWith, checkECDSA_eq_spec cr tx nIn amount txdata sig key sc sv hin hc hd]

/-- ... its Schnorr field is the BIP341 validation rule -/
theorem txChecker_checkSchnorr (cr : SigCrypto) (base : Ctx) (tx : Tx) (nIn : Nat) (amount : Int) (txdata : PrecomputedTxData)
    (sig key : Bytes) (sv : SigVersion) (ed : ExecData) (annex : Option Bytes) (ext : Option Spec.TapExt)
    (hin : nIn < tx.vin.length) (hc : Coherent cr tx txdata)
    (hr1 : txdata.bip341TaprootReady = true) (hr2 : txdata.spentOutputsReady = true)
    (hp : SchnorrPre cr ed tx nIn annex ext sv) (hk : key.length = 32) :
    (txCheckerWith cr base tx nIn amount txdata).checkSchnorr sig key sv ed =
      (match Spec.schnorrSigValid cr.sha256 cr.schnorrVerify tx nIn txdata.spentOutputs annex ext sig key with
       | .ok () => .ok ()
       | .error e => .error (.script e)) := by
  simp only [txCheckerWith]
  exact checkSchnorr_eq_spec cr tx nIn txdata .fail sig key sv ed annex ext hin hc hr1 hr2 hp hk

/-- ... without ready data (btcdeb with a multi-input transaction) every Schnorr signature of admissible size and hash
    type byte is refused with SCRIPT_ERR_SCHNORR_SIG_HASHTYPE -/
theorem txChecker_checkSchnorr_not_ready (cr : SigCrypto) (base : Ctx) (tx : Tx) (nIn : Nat) (amount : Int)
    (txdata : PrecomputedTxData) (sig key : Bytes) (sv : SigVersion) (ed : ExecData)
    (hin : nIn < tx.vin.length) (hsv : sv = .TAPROOT ∨ sv = .TAPSCRIPT) (hk : key.length = 32)
    (hs : sig.length = 64 ∨ (sig.length = 65 ∧ (sig.getLast?.getD 0).toNat ≠ 0))
    (h : ¬ (txdata.bip341TaprootReady = true ∧ txdata.spentOutputsReady = true)) :
    (txCheckerWith cr base tx nIn amount txdata).checkSchnorr sig key sv ed = .error (.script .SCHNORR_SIG_HASHTYPE) := by
  have hsvOk : ¬ (sv ≠ SigVersion.TAPROOT ∧ sv ≠ SigVersion.TAPSCRIPT) := by
    rcases hsv with h | h <;> simp [h]
  have hnr : (!(txdata.bip341TaprootReady && txdata.spentOutputsReady)) = true := by
    cases h1 : txdata.bip341TaprootReady <;> cases h2 : txdata.spentOutputsReady <;> simp_all
  have hnot : ¬ (nIn ≥ tx.vin.length) := by omega
  have hM : ∀ ht, schnorrSighashM cr ed tx nIn ht sv txdata .fail = .ok (none, ed.outputHash) := by
    intro ht
    unfold schnorrSighashM
    simp [hsvOk, hnot, hnr, handleMissingData]
  simp only [txCheckerWith, checkSchnorrSignatureM, hsvOk, if_false, hk, ne_eq, not_true_eq_false, hM, Gen.SIGHASH_DEFAULT]
  rcases hs with h64 | ⟨h65, hz⟩
  · have : ¬ sig.length = 65 := by omega
    simp [h64, fail]
  · have : ¬ sig.length = 64 := by omega
    simp [h65, hz, fail]

/-- ... the other fields are those of the base context -/
theorem txChecker_base_fields (cr : SigCrypto) (base : Ctx) (tx : Tx) (nIn : Nat) (amount : Int) (txdata : PrecomputedTxData) :
    (txCheckerWith cr base tx nIn amount txdata).sha256 = base.sha256
      ∧ (txCheckerWith cr base tx nIn amount txdata).ripemd160 = base.ripemd160
      ∧ (txCheckerWith cr base tx nIn amount txdata).sha1 = base.sha1
      ∧ (txCheckerWith cr base tx nIn amount txdata).checkLowS = base.checkLowS := by
  unfold txCheckerWith
  exact ⟨rfl, rfl, rfl, rfl⟩

/-! ## lock times -/

private theorem lockTime_core (L n T : Int) (s F : Nat) :
    (if (!((decide (L < T) && decide (n < T)) || (decide (L ≥ T) && decide (n ≥ T)))) = true then false
      else if n > L then false else if F = s then false else true)
      = decide ((L < T ↔ n < T) ∧ n ≤ L ∧ s ≠ F) := by
  by_cases h1 : L < T <;> by_cases h2 : n < T <;> by_cases h3 : n > L <;> by_cases h4 : F = s <;>
    simp [h1, h2, h3, h4] <;> omega

/-- `CheckLockTime` is BIP65 -/
theorem checkLockTime_eq_spec (tx : Tx) (nIn : Nat) (n : Int) (hin : nIn < tx.vin.length) :
    checkLockTimeTx tx nIn n = Spec.bip65Satisfied tx nIn n := by
  unfold checkLockTimeTx Spec.bip65Satisfied
  simp only [List.getD_eq_getElem?_getD, List.getElem?_eq_getElem hin, Option.getD_some]
  exact lockTime_core (tx.lockTime : Int) n (Gen.LOCKTIME_THRESHOLD : Nat) tx.vin[nIn].sequence Gen.SEQUENCE_FINAL

private theorem mask_eq (x : Nat) : x &&& (4194304 ||| 65535) = (x / 4194304 % 2) * 4194304 + x % 65536 := by
  rw [Nat.and_or_distrib_left]
  have a := and_two_pow' x 22
  have b := Nat.and_two_pow_sub_one_eq_mod x 16
  simp only [Nat.reducePow, Nat.add_one_sub_one] at a b
  rw [a, b, Nat.testBit_eq_decide_div_mod_eq]
  simp only [Nat.reducePow]
  have hlt : x % 65536 < 2 ^ 22 := by omega
  by_cases h : x / 4194304 % 2 = 1
  · have := Nat.two_pow_add_eq_or_of_lt hlt 1
    simp only [Nat.reducePow, Nat.mul_one] at this
    simp [h, ← this]
  · have h0 : x / 4194304 % 2 = 0 := by omega
    simp [h0]

private theorem bit31 (x : Nat) : (x &&& 2147483648 != 0) = decide (x / 2147483648 % 2 = 1) := by
  have a := and_two_pow' x 31
  simp only [Nat.reducePow] at a
  rw [a, Nat.testBit_eq_decide_div_mod_eq]
  simp only [Nat.reducePow]
  by_cases h : x / 2147483648 % 2 = 1 <;> simp [h]

private theorem seq_core (v m1 m2 b1 b2 r1 r2 : Nat) (d : Bool) (h1 : m1 = b1 * 4194304 + r1) (h2 : m2 = b2 * 4194304 + r2)
    (hb1 : b1 < 2) (hb2 : b2 < 2) (hr1 : r1 < 65536) (hr2 : r2 < 65536) :
    (if v < 2 then false else if d = true then false
      else if (!((decide (m1 < 4194304) && decide (m2 < 4194304)) || (decide (m1 ≥ 4194304) && decide (m2 ≥ 4194304)))) = true then false
      else if m2 > m1 then false else true)
      = decide (2 ≤ v ∧ d = false ∧ b1 = b2 ∧ r2 ≤ r1) := by
  subst h1 h2
  by_cases hv : v < 2 <;> cases d <;> simp [hv] <;> (try omega)
  have : b1 = 0 ∨ b1 = 1 := by omega
  have : b2 = 0 ∨ b2 = 1 := by omega
  have hv2 : 2 ≤ v := by omega
  have f1 : ¬ 4194304 ≤ r1 := by omega
  have f2 : ¬ 4194304 ≤ r2 := by omega
  have f3 : r1 < 4194304 := by omega
  have f4 : r2 < 4194304 := by omega
  have f5 : ¬ 4194304 + r1 < 4194304 := by omega
  have f6 : ¬ 4194304 + r2 < 4194304 := by omega
  rcases ‹b1 = 0 ∨ b1 = 1› with rfl | rfl <;> rcases ‹b2 = 0 ∨ b2 = 1› with rfl | rfl
  · by_cases h : r1 < r2
    · have : ¬ r2 ≤ r1 := by omega
      simp [hv2, f1, f2, f3, f4, h, this]
    · have : r2 ≤ r1 := by omega
      simp [hv2, f1, f2, f3, f4, h, this]
  · simp; omega
  · simp; omega
  · by_cases h : r1 < r2
    · have : ¬ r2 ≤ r1 := by omega
      simp [hv2, f5, f6, h, this]
    · have : r2 ≤ r1 := by omega
      simp [hv2, f5, f6, h, this]

/-- `CheckSequence` is BIP112 (for the non-negative operands that OP_CHECKSEQUENCEVERIFY passes) -/
theorem checkSequence_eq_spec (tx : Tx) (nIn : Nat) (n : Nat) (hin : nIn < tx.vin.length) :
    checkSequenceTx tx nIn (n : Int) = Spec.bip112Satisfied tx nIn n := by
  unfold checkSequenceTx Spec.bip112Satisfied
  simp only [List.getD_eq_getElem?_getD, List.getElem?_eq_getElem hin, Option.getD_some,
    Gen.SEQUENCE_LOCKTIME_DISABLE_FLAG, Gen.SEQUENCE_LOCKTIME_TYPE_FLAG, Gen.SEQUENCE_LOCKTIME_MASK, bit31, mask_eq, twos_eq]
  have hn : ofSigned 64 (n : Int) = n % 18446744073709551616 := by
    simp only [ofSigned, Nat.reducePow]
    omega
  rw [hn]
  have key := seq_core (ofSigned 32 tx.version)
    (tx.vin[nIn].sequence / 4194304 % 2 * 4194304 + tx.vin[nIn].sequence % 65536)
    (n % 18446744073709551616 / 4194304 % 2 * 4194304 + n % 18446744073709551616 % 65536)
    (tx.vin[nIn].sequence / 4194304 % 2) (n % 18446744073709551616 / 4194304 % 2)
    (tx.vin[nIn].sequence % 65536) (n % 18446744073709551616 % 65536)
    (decide (tx.vin[nIn].sequence / 2147483648 % 2 = 1)) rfl rfl (by omega) (by omega) (by omega) (by omega)
  rw [key]
  simp only [Nat.reducePow, decide_eq_false_iff_not]
  congr 1
  have e1 : n % 18446744073709551616 / 4194304 % 2 = n / 4194304 % 2 := by omega
  have e2 : n % 18446744073709551616 % 65536 = n % 65536 := by omega
  rw [e1, e2]
  apply propext
  constructor
  · rintro ⟨a, b, c, d⟩; exact ⟨a, by omega, c, d⟩
  · rintro ⟨a, b, c, d⟩; exact ⟨a, by omega, c, d⟩

/-! ## the hypotheses are satisfiable -/

/-- a script code with OP_CODESEPARATOR as an instruction and inside push data decodes; so `legacySighash_eq_spec_partial`
    applies to it, for a two-input transaction, SIGHASH_SINGLE|ANYONECANPAY, second input -/
example (cr : SigCrypto) :
    let tx : Tx := { version := 1,
                     vin := [⟨⟨List.replicate 32 1, 0⟩, [], 0xffffffff, []⟩, ⟨⟨List.replicate 32 2, 5⟩, [0x51], 7, []⟩],
                     vout := [⟨1000, [0x51]⟩, ⟨-1, []⟩], lockTime := 500000000 }
    legacySighash cr [0xab, 0x76, 0x02, 0xab, 0xab, 0xab, 0xac] tx 1 0x83
      = Spec.legacyDigest cr.sha256 [0xab, 0x76, 0x02, 0xab, 0xab, 0xab, 0xac] tx 1 0x83 :=
  legacySighash_eq_spec_partial cr _ _ 1 0x83 (by decide) (by decide)

/-- a one-input taproot script path spend with annex: `Init` makes the data ready and the tapscript digest with
    SIGHASH_SINGLE is the BIP341/342 digest -/
example (cr : SigCrypto) (leaf : Bytes) :
    let i : TxIn := ⟨⟨List.replicate 32 7, 1⟩, [], 0xfffffffd, [[1, 2, 3], [0x51], 0xc0 :: List.replicate 32 4, [0x50, 9]]⟩
    let o : TxOut := ⟨1000, 0x51 :: 0x20 :: List.replicate 32 9⟩
    let tx : Tx := { version := 2, vin := [i], vout := [⟨900, [0x51]⟩], lockTime := 0 }
    let ed : ExecData := { annexInit := true, annexPresent := true, annexHash := cr.sha256 (serVarBytes [0x50, 9]),
                           tapleafHashInit := true, tapleafHash := leaf, codesepPosInit := true, codesepPos := 3 }
    ∃ d, precomputeInit cr tx [o] false = .ok d ∧
      schnorrSighash cr ed tx 0 3 .TAPSCRIPT d = some (Spec.bip341Digest cr.sha256 tx 0 3 [o] (some [0x50, 9]) (some ⟨leaf, 3⟩)) := by
  intro i o tx ed
  obtain ⟨d, hd, h1, h2, h3, hc⟩ := precomputeInit_single_input_ready cr tx i o false rfl (Or.inr ⟨by decide, by decide⟩)
  refine ⟨d, hd, ?_⟩
  have hp : SchnorrPre cr ed tx 0 (some [0x50, 9]) (some ⟨leaf, 3⟩) .TAPSCRIPT :=
    ⟨rfl, rfl, fun a ha => by cases ha; rfl, ⟨rfl, rfl, rfl, rfl, rfl⟩, Or.inl rfl⟩
  rw [schnorrSighash_eq_spec cr ed tx 0 3 .TAPSCRIPT d _ _ (by decide) hc h1 h2 hp, h3]
  have : Spec.bip341Defined tx 0 3 := by decide
  simp [this]

end Btcdeb.Proofs.Sighash
