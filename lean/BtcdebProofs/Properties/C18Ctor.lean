/-
  C18 (continued) — consequences for the code paths that *use* the codec: the constructor
  `CScriptNum(vch, fRequireMinimal, nMaxNumSize)` applied to what `serialize` produced, the
  sign symmetry of the encoding length (so `OP_NEGATE` never pushes a number out of, or
  into, the operand range), and the order/idempotence laws of `getint()`.
  Property theorems only; every statement is over unbounded `Int`.
-/
import Btcdeb
import BtcdebProofs.Properties.C18
namespace Btcdeb.Proofs.C18
open Btcdeb Btcdeb.Model

/-- the constructor, with minimality required, reads back every integer whose encoding fits:
    `CScriptNum(CScriptNum(n).getvch(), true, mx) == n`. -/
theorem ctor_serialize (n : Int) (mx : Nat) (h : (serialize n).length ≤ mx) (rm : Bool) :
    scriptNum (serialize n) rm mx = .ok n := by
  rw [ctor_accepts_iff]
  refine ⟨h, fun _ => encode_minimal n, ?_⟩
  rw [← decode_spec, decode_encode]

/-- … and rejects it with "script number overflow" exactly when it does not fit. -/
theorem ctor_serialize_overflow (n : Int) (mx : Nat) (h : mx < (serialize n).length) (rm : Bool) :
    scriptNum (serialize n) rm mx = .error .overflow := by
  unfold scriptNum
  simp [h]

/-- the encoding length does not depend on the sign -/
theorem encode_length_neg (n : Int) : (serialize (-n)).length = (serialize n).length := by
  by_cases hn : n = 0
  · subst hn; rfl
  have hpos : ∀ m : Int, m ≠ 0 → 1 ≤ (serialize m).length := by
    intro m hm
    rcases Nat.eq_zero_or_pos (serialize m).length with h0 | h0
    · have hnil : serialize m = [] := List.eq_nil_of_length_eq_zero h0
      have := decode_encode m
      rw [hnil] at this
      exact absurd this.symm hm
    · exact h0
  have h1 := hpos n hn
  have h2 := hpos (-n) (by omega)
  have hle : ∀ a b : Int, a.natAbs = b.natAbs → 1 ≤ (serialize a).length →
      (serialize b).length ≤ (serialize a).length := by
    intro a b hab ha
    rw [encode_length_le_iff b _ ha, ← hab, ← encode_length_le_iff a _ ha]
    exact Nat.le_refl _
  exact Nat.le_antisymm (hle n (-n) (by simp) h1) (hle (-n) n (by simp) h2)

/-- so negation maps the 4-byte operand range onto itself (`OP_NEGATE`, `OP_ABS`) -/
theorem operand_range_neg (n : Int) :
    (serialize (-n)).length ≤ 4 ↔ (serialize n).length ≤ 4 := by
  rw [encode_length_neg]

/-- `getint()` lands in the `int` range, is monotone, idempotent, and the identity on the range -/
theorem getint_range (v : Int) : intMin ≤ getint v ∧ getint v ≤ intMax := by
  unfold getint intMax intMin; omega

theorem getint_mono (a b : Int) (h : a ≤ b) : getint a ≤ getint b := by
  unfold getint intMax intMin; omega

theorem getint_idem (v : Int) : getint (getint v) = getint v := by
  unfold getint intMax intMin; omega

theorem getint_id_iff (v : Int) : getint v = v ↔ intMin ≤ v ∧ v ≤ intMax := by
  unfold getint intMax intMin; omega

/-- every 4-byte operand survives `getint()` unchanged except `-2^31`… which does not exist:
    the operand range is symmetric, `|n| < 2^31`, strictly inside `int`. -/
theorem getint_operand (b : Bytes) (hb : b.length ≤ 4) : getint (setVch b) = setVch b := by
  rw [getint_id_iff]
  have := decode_bound b 4 (by omega) hb
  unfold intMin intMax
  omega

-- premises are satisfiable / statements not vacuous (the extreme operands)
example : scriptNum (serialize (-2147483647)) true 4 = .ok (-2147483647) :=
  ctor_serialize _ 4 ((encode_length_le_4_iff _).mpr (by decide)) true
example : scriptNum (serialize 2147483648) true 4 = .error .overflow :=
  ctor_serialize_overflow _ 4 (by
    have h : ¬ (serialize 2147483648).length ≤ 4 := fun hl =>
      absurd ((encode_length_le_4_iff 2147483648).mp hl) (by decide)
    omega) true

end Btcdeb.Proofs.C18
