/-
  C18 — script-number encoding is a bijection on minimal encodings.
  Property theorems only; helper lemmas live in BtcdebProofs/Lemmas.
  All statements are over unbounded `Int` / arbitrary byte strings.
-/
import Btcdeb
import BtcdebProofs.Lemmas.ScriptNum
namespace Btcdeb.Proofs.C18
open Btcdeb Btcdeb.Model

/-- shape of `serialize n` in terms of the magnitude's little-endian bytes -/
private theorem serialize_shape (n : Int) (hn : n ≠ 0) :
    ∃ ys a, leBytes n.natAbs = ys ++ [a] ∧ a.toNat ≠ 0 ∧
      serialize n =
        if hi a then ys ++ [a] ++ [if n < 0 then 0x80 else 0]
        else if n < 0 then ys ++ [UInt8.ofNat (a.toNat + 128)]
        else ys ++ [a] := by
  have hne : leBytes n.natAbs ≠ [] := by
    intro h; have := (leBytes_eq_nil_iff _).mp h; omega
  obtain ⟨ys, a, hya⟩ := exists_snoc_of_ne_nil _ hne
  refine ⟨ys, a, hya, leBytes_last_ne_zero _ _ _ hya, ?_⟩
  unfold serialize
  simp only [hn, if_false, hya, getLast?_snoc, List.dropLast_concat]
  by_cases h1 : hi a = true <;> by_cases h2 : n < 0 <;> simp [h1, h2]

/-- decoding the encoding of any integer returns the integer -/
theorem decode_encode (n : Int) : setVch (serialize n) = n := by
  by_cases hn : n = 0
  · subst hn; simp [serialize, setVch]
  obtain ⟨ys, a, hya, ha, hs⟩ := serialize_shape n hn
  have hm : leValue ys + 256 ^ ys.length * a.toNat = n.natAbs := by
    rw [← leValue_snoc, ← hya, leValue_leBytes]
  rw [hs]
  by_cases h1 : hi a = true
  · simp only [h1, if_true]
    rw [List.append_assoc, ← List.append_assoc ys, setVch_snoc]
    by_cases h2 : n < 0
    · have : hi (0x80 : UInt8) = true := by decide
      simp only [h2, if_true, this, leValue_snoc, List.length_append, List.length_cons, List.length_nil]
      have : (0x80 : UInt8).toNat - 128 = 0 := by decide
      rw [this, hm]; simp; omega
    · have : hi (0 : UInt8) = false := by decide
      simp only [h2, if_false, this, leValue_snoc]
      have : (0 : UInt8).toNat = 0 := by decide
      rw [this, hm]; simp; omega
  · have h1' : hi a = false := by simpa using h1
    have halt := (hi_false_iff a).mp h1'
    simp only [h1', Bool.false_eq_true, if_false]
    by_cases h2 : n < 0
    · simp only [h2, if_true]
      rw [setVch_snoc]
      have hh : hi (UInt8.ofNat (a.toNat + 128)) = true := by
        rw [hi_iff, toNat_ofNat_add128 halt]; omega
      simp only [hh, if_true, toNat_ofNat_add128 halt, Nat.add_sub_cancel]
      rw [hm]; omega
    · simp only [h2, if_false]
      rw [setVch_snoc]; simp only [h1', Bool.false_eq_true, if_false]
      rw [hm]; omega

/-- the encoder only produces strings the minimal-encoding test accepts -/
theorem encode_minimal (n : Int) : minimalOk (serialize n) = true := by
  by_cases hn : n = 0
  · subst hn; simp [serialize, minimalOk]
  obtain ⟨ys, a, hya, ha, hs⟩ := serialize_shape n hn
  rw [hs]
  by_cases h1 : hi a = true
  · simp only [h1, if_true]
    rw [List.append_assoc, ← List.append_assoc ys, minimalOk_snoc]
    simp [h1]
  · have h1' : hi a = false := by simpa using h1
    have halt := (hi_false_iff a).mp h1'
    simp only [h1', Bool.false_eq_true, if_false]
    by_cases h2 : n < 0
    · simp only [h2, if_true]; rw [minimalOk_snoc]
      have : (lo7 (UInt8.ofNat (a.toNat + 128)) == 0) = false := by
        unfold lo7; rw [toNat_ofNat_add128 halt]; simp; omega
      rw [this]; rfl
    · simp only [h2, if_false]; rw [minimalOk_snoc]
      have : (lo7 a == 0) = false := by unfold lo7; simp; omega
      rw [this]; rfl

/-- the encoder is injective: distinct integers have distinct encodings -/
theorem encode_injective (a b : Int) (h : serialize a = serialize b) : a = b := by
  rw [← decode_encode a, ← decode_encode b, h]

/-- the C++ decoder computes Bitcoin's sign-magnitude value of *every* byte string -/
theorem decode_spec (b : Bytes) : setVch b = Spec.numValue b := by
  by_cases hb : b = []
  · subst hb; rfl
  obtain ⟨ys, a, rfl⟩ := exists_snoc_of_ne_nil b hb
  rw [setVch_snoc, numValue_snoc]
  by_cases h : hi a = true
  · simp [h, lo7_of_hi h]
  · have h' : hi a = false := by simpa using h
    simp [h', lo7_of_not_hi h']

private theorem serialize_of_mag (ys : Bytes) (c : UInt8) (hc : c.toNat ≠ 0) (neg : Bool) :
    serialize (if neg then -((leValue (ys ++ [c]) : Nat) : Int) else ((leValue (ys ++ [c]) : Nat) : Int)) =
      if hi c then ys ++ [c] ++ [if neg then 0x80 else 0]
      else if neg then ys ++ [UInt8.ofNat (c.toNat + 128)]
      else ys ++ [c] := by
  have hpos : 0 < leValue (ys ++ [c]) := by
    rw [leValue_snoc]
    have : 0 < 256 ^ ys.length * c.toNat := Nat.mul_pos (Nat.pow_pos (by omega)) (by omega)
    omega
  generalize hn : (if neg then -((leValue (ys ++ [c]) : Nat) : Int) else ((leValue (ys ++ [c]) : Nat) : Int)) = n
  have hn0 : n ≠ 0 := by cases neg <;> simp at hn <;> omega
  have habs : n.natAbs = leValue (ys ++ [c]) := by cases neg <;> simp at hn <;> omega
  have hneg : (n < 0) ↔ neg = true := by cases neg <;> simp at hn <;> simp <;> omega
  obtain ⟨ys', a', hya, _, hs⟩ := serialize_shape n hn0
  rw [habs, leBytes_leValue_snoc ys c hc] at hya
  have := List.append_inj' hya rfl
  obtain ⟨rfl, h2⟩ := this
  simp at h2; subst h2
  rw [hs]
  by_cases hneg' : neg = true
  · have : n < 0 := hneg.mpr hneg'
    simp [this, hneg']
  · have : ¬ n < 0 := fun h => hneg' (hneg.mp h)
    simp [this, hneg']

/-- re-encoding the value of a string the minimality test accepts gives the string back:
    together with `decode_encode` and `encode_minimal`, encode/decode are mutually inverse
    bijections between the integers and the minimal encodings -/
theorem encode_decode (b : Bytes) (h : minimalOk b = true) : serialize (setVch b) = b := by
  by_cases hb : b = []
  · subst hb; simp [setVch, serialize]
  obtain ⟨ys, a, rfl⟩ := exists_snoc_of_ne_nil b hb
  rw [minimalOk_snoc] at h
  have halt := u8_lt a
  by_cases hl : lo7 a = 0
  · -- sign byte only: the previous byte must carry the top bit
    simp only [hl, beq_self_eq_true, if_true] at h
    by_cases hy : ys = []
    · subst hy; simp at h
    obtain ⟨zs, p, rfl⟩ := exists_snoc_of_ne_nil ys hy
    simp only [getLast?_snoc] at h
    have hp : p.toNat ≠ 0 := by have := (hi_iff p).mp h; omega
    rw [setVch_snoc]
    by_cases ha : hi a = true
    · have ha' : a.toNat = 128 := by have := (hi_iff a).mp ha; unfold lo7 at hl; omega
      have : a = 0x80 := u8_ext (by rw [ha']; decide)
      subst this
      simp only [ha, if_true]
      have := serialize_of_mag zs p hp true
      simp only [if_true, h] at this
      simpa using this
    · have ha'' : hi a = false := by simpa using ha
      have ha' : a.toNat = 0 := by have := (hi_false_iff a).mp ha''; unfold lo7 at hl; omega
      have : a = 0 := u8_ext (by rw [ha']; decide)
      subst this
      simp only [ha'', Bool.false_eq_true, if_false]
      have := serialize_of_mag zs p hp false
      simp only [Bool.false_eq_true, if_false, h, if_true] at this
      simpa using this
  · rw [setVch_snoc]
    by_cases ha : hi a = true
    · have h128 := (hi_iff a).mp ha
      have hlo : lo7 a = a.toNat - 128 := lo7_of_hi ha
      simp only [ha, if_true]
      let c : UInt8 := UInt8.ofNat (a.toNat - 128)
      have hc : c.toNat = a.toNat - 128 := by
        show (UInt8.ofNat (a.toNat - 128)).toNat = _
        rw [UInt8.toNat_ofNat']; omega
      have hc0 : c.toNat ≠ 0 := by rw [hc, ← hlo]; exact hl
      have hch : hi c = false := by rw [hi_false_iff, hc]; omega
      have := serialize_of_mag ys c hc0 true
      simp only [if_true, hch, Bool.false_eq_true, if_false, leValue_snoc, hc] at this
      rw [this]
      have hb : UInt8.ofNat (a.toNat - 128 + 128) = a := by
        apply u8_ext
        rw [UInt8.toNat_ofNat']; omega
      rw [hb]
    · have ha'' : hi a = false := by simpa using ha
      have hlo : lo7 a = a.toNat := lo7_of_not_hi ha''
      simp only [ha'', Bool.false_eq_true, if_false]
      have ha0 : a.toNat ≠ 0 := by rw [← hlo]; exact hl
      have := serialize_of_mag ys a ha0 false
      simp only [Bool.false_eq_true, if_false, ha'', leValue_snoc] at this
      exact this

/-- length of the encoding: at most `k` bytes exactly when |n| < 2^(8k-1) -/
theorem encode_length_le_iff (n : Int) (k : Nat) (hk : 1 ≤ k) :
    (serialize n).length ≤ k ↔ n.natAbs < 128 * 256 ^ (k - 1) := by
  by_cases hn : n = 0
  · subst hn
    have : 0 < 128 * 256 ^ (k - 1) := Nat.mul_pos (by omega) (Nat.pow_pos (by omega))
    simp [serialize]; omega
  obtain ⟨ys, a, hya, ha, hs⟩ := serialize_shape n hn
  have hm : leValue ys + 256 ^ ys.length * a.toNat = n.natAbs := by
    rw [← leValue_snoc, ← hya, leValue_leBytes]
  have hL := leValue_lt ys
  have halt := u8_lt a
  rw [hs, ← hm]
  obtain ⟨j, rfl⟩ : ∃ j, k = j + 1 := ⟨k - 1, by omega⟩
  simp only [Nat.add_sub_cancel]
  by_cases h1 : hi a = true
  · have h128 := (hi_iff a).mp h1
    simp only [h1, if_true, List.length_append, List.length_cons, List.length_nil]
    constructor
    · intro hle
      have : 256 ^ (ys.length + 1) ≤ 256 ^ j := Nat.pow_le_pow_right (by omega) (by omega)
      rw [Nat.pow_succ] at this
      have h3 : 256 ^ ys.length * a.toNat ≤ 256 ^ ys.length * 255 := Nat.mul_le_mul_left _ (by omega)
      omega
    · intro hlt
      have h3 : 256 ^ ys.length * 128 ≤ 256 ^ ys.length * a.toNat := Nat.mul_le_mul_left _ h128
      have h4 : 256 ^ ys.length < 256 ^ j := by omega
      have := (Nat.pow_lt_pow_iff_right (by omega : 1 < 256)).mp h4
      omega
  · have h1' : hi a = false := by simpa using h1
    have h128 := (hi_false_iff a).mp h1'
    have hlen : (if hi a = true then ys ++ [a] ++ [if n < 0 then (0x80 : UInt8) else 0]
        else if n < 0 then ys ++ [UInt8.ofNat (a.toNat + 128)] else ys ++ [a]).length = ys.length + 1 := by
      simp only [h1', Bool.false_eq_true, if_false]; split <;> simp
    rw [hlen]
    constructor
    · intro hle
      have : 256 ^ ys.length ≤ 256 ^ j := Nat.pow_le_pow_right (by omega) (by omega)
      have h3 : 256 ^ ys.length * a.toNat ≤ 256 ^ ys.length * 127 := Nat.mul_le_mul_left _ (by omega)
      omega
    · intro hlt
      have h3 : 256 ^ ys.length * 1 ≤ 256 ^ ys.length * a.toNat := Nat.mul_le_mul_left _ (by omega)
      have h4 : 256 ^ ys.length < 256 ^ (j + 1) := by rw [Nat.pow_succ]; omega
      have := (Nat.pow_lt_pow_iff_right (by omega : 1 < 256)).mp h4
      omega

/-- numeric operands: the encoding fits the default 4-byte limit exactly when |n| < 2^31 -/
theorem encode_length_le_4_iff (n : Int) : (serialize n).length ≤ 4 ↔ n.natAbs < 2 ^ 31 := by
  rw [encode_length_le_iff n 4 (by omega)]

/-- lock-time operands: the encoding fits 5 bytes exactly when |n| < 2^39 -/
theorem encode_length_le_5_iff (n : Int) : (serialize n).length ≤ 5 ↔ n.natAbs < 2 ^ 39 := by
  rw [encode_length_le_iff n 5 (by omega)]

/-- every string of at most `k` bytes decodes to a value of magnitude below 2^(8k-1);
    in particular everything the constructor admits (k ≤ 5, and even k = 8) fits the C++ `int64_t` -/
theorem decode_bound (b : Bytes) (k : Nat) (hk : 1 ≤ k) (hb : b.length ≤ k) :
    (setVch b).natAbs < 128 * 256 ^ (k - 1) := by
  have hpos : 0 < 128 * 256 ^ (k - 1) := Nat.mul_pos (by omega) (Nat.pow_pos (by omega))
  by_cases hnil : b = []
  · subst hnil; simpa [setVch] using hpos
  obtain ⟨ys, a, rfl⟩ := exists_snoc_of_ne_nil b hnil
  simp only [List.length_append, List.length_cons, List.length_nil] at hb
  have hL := leValue_lt ys
  have halt := u8_lt a
  have hmono : 256 ^ ys.length ≤ 256 ^ (k - 1) := Nat.pow_le_pow_right (by omega) (by omega)
  rw [setVch_snoc]
  by_cases h1 : hi a = true
  · simp only [h1, if_true, Int.natAbs_neg, Int.natAbs_natCast]
    have h3 : 256 ^ ys.length * (a.toNat - 128) ≤ 256 ^ ys.length * 127 := Nat.mul_le_mul_left _ (by omega)
    omega
  · have h1' : hi a = false := by simpa using h1
    have h128 := (hi_false_iff a).mp h1'
    simp only [h1', Bool.false_eq_true, if_false, Int.natAbs_natCast]
    have h3 : 256 ^ ys.length * a.toNat ≤ 256 ^ ys.length * 127 := Nat.mul_le_mul_left _ (by omega)
    omega

theorem decode_fits_int64 (b : Bytes) (hb : b.length ≤ 8) : (setVch b).natAbs < 2 ^ 63 := by
  have h := decode_bound b 8 (by omega) hb
  have : 128 * 256 ^ (8 - 1) = 2 ^ 63 := by decide
  rw [this] at h; exact h

/-- what the constructor `CScriptNum(vch, fRequireMinimal, nMaxNumSize)` accepts, and with which value -/
theorem ctor_accepts_iff (b : Bytes) (rm : Bool) (mx : Nat) (v : Int) :
    scriptNum b rm mx = .ok v ↔
      b.length ≤ mx ∧ (rm = true → minimalOk b = true) ∧ v = Spec.numValue b := by
  unfold scriptNum
  by_cases h1 : b.length > mx
  · simp [h1]; omega
  · by_cases h2 : (rm && !minimalOk b) = true
    · simp [h1, h2]
      simp at h2
      intro _ h; simp [h2.1, h2.2] at h
    · simp [h1, h2, decode_spec]
      simp at h2
      constructor
      · rintro rfl; exact ⟨by omega, by intro hr; exact h2 hr, rfl⟩
      · rintro ⟨_, _, rfl⟩; rfl

/-- `getint` saturates at the `int` range -/
theorem getint_spec (v : Int) :
    getint v = max (-2147483648) (min 2147483647 v) := by
  unfold getint intMax intMin; omega

end Btcdeb.Proofs.C18
