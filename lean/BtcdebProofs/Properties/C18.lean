import Btcdeb
namespace Btcdeb.Proofs.C18
end Btcdeb.Proofs.C18
