/-
  C15, the interactive command-line layer — `kerl` never touches memory it does not own.

  Model: `Btcdeb/Model/Kerl.lean` (every buffer of /repo/kerl/kerl.c with its allocation size, every index computation;
  an access outside an allocation, an unterminated C string and an `int` that overflows are the outcome `.abnormal`);
  helper lemmas: `BtcdebProofs/Lemmas/Kerl.lean`.

  Results (lines of ANY content without NUL — a C string has none — and of any length the `int` indices of kerl.c can hold;
  the size hypotheses say nothing else: `2·(longest line) + Σ(2·|line| + 1) + 2 ≤ INT_MAX`, i.e. inputs below about 500 MB —
  a size bound, not an excluded region):
  (a) WHOLE SESSIONS  `C15_kerl_run_safe`: for every command table and every setting of kerl (comment character, repeat on
      empty line, fallback, sensitivity, history file — writable or not), every sequence of lines typed — commands, unknown
      words, unterminated quotes, continuation lines, end of input in the middle of a continuation — `kerl_run` has no
      abnormal outcome: `stripwhite`, `execute_line`, `kerl_make_argcv` (capacity doubling of `buf` and `argv`, the newline
      of a continuation behind its own capacity check, the terminator), `_more_final_init/_append`, `escape` all stay inside
      their allocations.  The invariant that is carried ACROSS the lines of a continued command: the fill level `j` of `buf`
      is strictly below `bufcap` (`Lemmas.Kerl.Room`, `contNewline_rep`, `argLoop_rep_gen`).
      `C15_kerl_run_raw_safe`: the same for the configuration without readline (the `btcdeb` of the build directory), from
      the raw bytes on stdin (NUL bytes included) through kerl's own `fgets` reader.
      `C15_kerl_history_unwritable`: a history file that cannot be opened (a directory of that name, a read-only working
      directory) — recording a command is safe and changes nothing but readline's own history (repaired: /repo 05ba26e;
      before, the first command killed the process with `fprintf(NULL, …)`).
  (b) THE FUNCTIONS ONE BY ONE  `C15_kerl_makeArgcv_safe` (any escape character, both configurations, any continuation),
      `C15_kerl_stripwhite_safe`, `C15_kerl_executeLine_safe`, `C15_kerl_escape_safe`, `C15_kerl_unescape_inplace_safe`,
      `C15_kerl_fallback_reader` (kerl's `fgets` reader delivers NUL-free lines of at most 10239 bytes),
      `C15_kerl_historyLoad`: `kerl_set_history_file` (readline configuration) on a history file of ANY content, NUL bytes
      included, stays inside `char buf[1024]` (repaired: /repo 21c8642; before, a line starting with NUL wrote `buf[-1]`).
  (c) LATENT DEFECTS in functions no tool calls (each an `example` the kernel evaluates, and a stream of checks/c15kerl.py on
      the sanitizer build): `kerl_more` appends the newline of every line without a capacity check and runs `strlen` on the
      buffer before terminating it; `unescape(s, 0)` allocates `len - escapes + 1` bytes and writes `len + 1` for an unknown
      escape or a trailing backslash.
-/
import Btcdeb
import BtcdebProofs.Lemmas.Kerl
namespace Btcdeb.Proofs.C15Kerl
open Btcdeb Btcdeb.Model.Kerl Btcdeb.Proofs.Kerl

/-- (a) no sequence of interactive lines makes the kerl layer leave its buffers -/
theorem C15_kerl_run_safe (cfg : Config) (lines : List Bytes) (B : Nat)
    (hnul : ∀ l ∈ lines, (0 : UInt8) ∉ l) (hlen : ∀ l ∈ lines, l.length ≤ B)
    (hsize : 2 * B + (lines.map (fun l => 2 * l.length + 1)).sum + 2 ≤ intMax) :
    ∃ st, kerlRun cfg lines = .ok st := by
  unfold kerlRun
  exact runLoop_safe B cfg _ {} lines ⟨Or.inl ⟨rfl, rfl⟩, fun p h => by cases h⟩ (fun l hl => ⟨hnul l hl, hlen l hl⟩)
    (by unfold weight; omega)

/-- (a) the configuration without readline: every byte string on stdin (up to about 700 MB) -/
theorem C15_kerl_run_raw_safe (cfg : Config) (stdin : Bytes)
    (hsize : 3 * stdin.length + 20480 ≤ intMax) :
    ∃ st, kerlRunRaw cfg stdin = .ok st := by
  unfold kerlRunRaw
  obtain ⟨h1, h2⟩ := fallbackLines_props stdin
  exact C15_kerl_run_safe cfg _ 10239 (fun l hl => (h1 l hl).1) (fun l hl => (h1 l hl).2)
    (by unfold weight at h2; omega)

/-- (a) a history file that cannot be opened: recording a command is safe; the command goes to readline's own history
    (readline configuration) and nothing else changes -/
theorem C15_kerl_history_unwritable (cfg : Config) (st : RunSt) (s : Bytes) (hopen : cfg.historyOpenFails = true)
    (hn : (0 : UInt8) ∉ s) (hint : s.length ≤ intMax) :
    addHistory cfg st s = .ok (if cfg.rl then { st with events := .addHistory s :: st.events } else st) :=
  addHistory_unwritable cfg st s hopen hn hint

def isAbnormal {α : Type} : KM α → Bool
  | .error _ => true
  | .ok _ => false

/-- a btcdeb session in a directory where `.btcdeb_history` cannot be written: `stack`, `stack` -/
example : (kerlRun { btcdebConfig false with historyOpenFails := true } [tok "stack", tok "stack"]).toOption.map (fun st => (st.events, st.hist)) =
    some ([.call (tok "stack") [], .call (tok "stack") []], []) := by decide
example : (kerlRun (btcdebConfig false) [tok "stack"]).toOption.map (·.hist) = some (tok "stack\n") := by decide

/-- (b) `kerl_make_argcv_escape`: any argument text, any escape character, any continuation lines, both configurations -/
theorem C15_kerl_makeArgcv_safe (rl : Bool) (escape : UInt8) (mf : MoreFinal) (arg : Bytes) (more : List Bytes) (hmf : MfWf mf)
    (hsize : 2 * arg.length + 1 + (more.map (fun l => 2 * l.length + 1)).sum + 1 ≤ intMax) :
    ∃ o, makeArgcvEscape rl escape mf arg more = .ok o := by
  obtain ⟨o, h, _⟩ := makeArgcvEscape_rep rl escape mf arg more hmf hsize
  exact ⟨o, h⟩

/-- the precondition on `more_final` holds initially and after every call -/
theorem C15_kerl_makeArgcv_keeps_more_final (rl : Bool) (escape : UInt8) (mf : MoreFinal) (arg : Bytes) (more : List Bytes)
    (hmf : MfWf mf) (hsize : 2 * arg.length + 1 + (more.map (fun l => 2 * l.length + 1)).sum + 1 ≤ intMax) :
    MfWf {} ∧ ∀ o, makeArgcvEscape rl escape mf arg more = .ok o → MfWf o.mf := by
  refine ⟨trivial, fun o ho => ?_⟩
  obtain ⟨o', h, _, w, _⟩ := makeArgcvEscape_rep rl escape mf arg more hmf hsize
  rw [h] at ho; cases ho; exact w

/-- (b) `stripwhite` on any string, whatever follows its terminator in the allocation -/
theorem C15_kerl_stripwhite_safe (s tail : Bytes) (hn : (0 : UInt8) ∉ s) : ∃ r, stripwhite (s ++ 0 :: tail) = .ok r := by
  obtain ⟨t, h, _⟩ := stripwhite_spec s tail hn
  exact ⟨_, h⟩

/-- (b) `execute_line` on any line -/
theorem C15_kerl_executeLine_safe (cfg : Config) (line tail : Bytes) (hn : (0 : UInt8) ∉ line) (hint : line.length + 1 ≤ intMax) :
    ∃ r, executeLine cfg (line ++ 0 :: tail) = .ok r := by
  obtain ⟨m, h⟩ := executeLine_spec cfg line tail hn hint
  exact ⟨_, h⟩

/-- (b) `escape` -/
theorem C15_kerl_escape_safe (s : Bytes) (hn : (0 : UInt8) ∉ s) (hint : s.length ≤ intMax) : ∃ r, escape s = .ok r :=
  ⟨_, escape_spec s hn hint⟩

/-- (b) `unescape(buf, 1)` as `kerl_set_history_file` calls it: in place -/
theorem C15_kerl_unescape_inplace_safe (s tail : Bytes) (hn : (0 : UInt8) ∉ s) (hint : s.length ≤ intMax) :
    ∃ r, unescape (s ++ 0 :: tail) true = .ok r := by
  obtain ⟨m, h⟩ := unescape_reuse_spec s tail hn hint
  exact ⟨_, h⟩

/-- (b) `kerl_set_history_file` (readline configuration): a history file of any content, NUL bytes included -/
theorem C15_kerl_historyLoad (file : Bytes) : ∃ r, historyLoad file [] = .ok r :=
  historyLoadAux_ok _ file []

/-- (b) kerl's own line reader -/
theorem C15_kerl_fallback_reader (stdin : Bytes) : ∀ l ∈ fallbackLines stdin, (0 : UInt8) ∉ l ∧ l.length ≤ 10239 :=
  (fallbackLines_props stdin).1

-- ---------------------------------------------------------------------------------------------
-- defects

-- a history file whose first line begins with a NUL byte ("\0\n", then "st\n"): an empty entry, then `st`
set_option maxRecDepth 8192 in
example : (historyLoad [0, 10, 115, 116, 10] []).toOption = some [[], [115, 116]] := by decide
-- a well-formed history file is read back: the lines `st` and `a\n` (escaped newline)
set_option maxRecDepth 8192 in
example : (historyLoad [115, 116, 10, 97, 92, 110, 10] []).toOption = some [[115, 116], [97, 10]] := by decide

/-- `kerl_more` (no caller in btcdeb): three empty lines overrun a 4-byte buffer that holds 2 bytes … -/
example : isAbnormal (kerlMore true {} 4 2 [97, 98, 0, 0] 59 [[], [], [], [59]]) = true := by decide
/-- … and the buffer is read unterminated (`_more_final_init(buf)` before `buf[j] = 0`) when nothing behind `j` is NUL -/
example : isAbnormal (kerlMore true {} 2 0 [65, 65] 59 [[59]]) = true := by decide
/-- with room to spare (and a zeroed buffer) it works: "a" + ";" -/
example : (kerlMore true {} 8 1 [97, 0, 0, 0, 0, 0, 0, 0] 59 [[59]]).toOption.map (·.res) = some (.ok 8 3 [97, 10, 59]) := by decide

/-- `unescape(s, 0)` (no caller): an unknown escape (`\x`) or a trailing backslash (`abc\`) writes one byte behind
    `malloc(len - escapes + 1)` -/
example : isAbnormal (unescape (ofStr [92, 120]) false) = true := by decide
example : isAbnormal (unescape (ofStr [97, 98, 99, 92]) false) = true := by decide
example : (unescape (ofStr [97, 92, 110, 98]) false).toOption.map (·.1) = some (some [97, 10, 98]) := by decide

end Btcdeb.Proofs.C15Kerl
