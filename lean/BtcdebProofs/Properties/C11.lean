/-
  C11 — mock signatures (`--pretend-valid=S:P,...`) affect exactly the listed signature/key pairs.

  Model side (`Model.evalChecksig`, `Model.multisigLoop`, `Model.execOpcode`):
    * a listed pair is accepted by every signature opcode, for every checker, flag set and signature version;
    * another signature offered for a listed key is never accepted on the strength of the option;
    * a key that is not listed is checked exactly as without the option.
  Specification side (`Spec.execOp`, `Spec.evalInstrs`, `Spec.evalScript`): a run in which every executed
  signature opcode examines only unlisted keys is identical with and without the option.
  Parsing (`Model.parsePretendValidExpr` vs `Spec.pretendPairs`): malformed lists are rejected identically and
  the tables built for EVERY well-formed list satisfy the two `CfgRel` clauses: the key table holds exactly the
  listed keys, the pair table (a `std::set` of (signature, key) pairs) exactly the listed pairs — also when one
  signature is listed for several keys, one key with several signatures, or a pair several times.
  Section 7 joins the two: from the option TEXT to the behaviour of the signature opcodes.
-/
import Btcdeb
import BtcdebProofs.Refine.Basic
import BtcdebProofs.Lemmas.Pretend
set_option linter.unusedSimpArgs false
set_option linter.unusedVariables false
namespace Btcdeb.Proofs.C11
open Btcdeb Btcdeb.Model Btcdeb.Refine

/-- the environment with the option switched off -/
def noPretend (e : SEE) : SEE := { e with pretendMap := [], pretendKeys := [] }

-- =============================================================================================
-- 1. a listed pair is accepted: CHECKSIG / CHECKSIGVERIFY / CHECKSIGADD

/-- `EvalChecksig` on a listed pair succeeds at once and leaves the execution data alone — whatever the
    checker `cx` (transaction context), the flags and the signature version of `e` are; neither the encoding
    checks nor the checker are consulted (the right-hand side mentions none of them) -/
theorem C11_listed_accepted_checksig (cx : Ctx) (e : SEE) (sig key : Bytes)
    (hk : e.pretendKeys.contains key = true) (hp : pretendHas e.pretendMap sig key = true) :
    evalChecksig cx e sig key = pure (true, e.execdata) := by
  unfold evalChecksig
  rw [hk, hp]
  simp

@[simp] private theorem top1_2 (xs : List Bytes) (a b : Bytes) : top (xs ++ [a, b]) 1 = .ok b := by
  simp [top]
@[simp] private theorem top2_2 (xs : List Bytes) (a b : Bytes) : top (xs ++ [a, b]) 2 = .ok a := by
  simp [top]
@[simp] private theorem pop_2 (xs : List Bytes) (a b : Bytes) : pop (xs ++ [a, b]) = .ok (xs ++ [a]) := by
  simp [pop]
@[simp] private theorem top1_3 (xs : List Bytes) (a b c : Bytes) : top (xs ++ [a, b, c]) 1 = .ok c := by
  simp [top]
@[simp] private theorem top2_3 (xs : List Bytes) (a b c : Bytes) : top (xs ++ [a, b, c]) 2 = .ok b := by
  simp [top]
@[simp] private theorem top3_3 (xs : List Bytes) (a b c : Bytes) : top (xs ++ [a, b, c]) 3 = .ok a := by
  simp [top]
@[simp] private theorem pop_3 (xs : List Bytes) (a b c : Bytes) : pop (xs ++ [a, b, c]) = .ok (xs ++ [a, b]) := by
  simp [pop]

/-- OP_CHECKSIG with a listed pair on top of the stack pushes `true` (then the generic stack-size check) -/
theorem C11_listed_OP_CHECKSIG (cx : Ctx) (e : SEE) (s : List Bytes) (sig key : Bytes) (fExec : Bool) (pc : Bytes)
    (hs : e.stack = s ++ [sig, key])
    (hk : e.pretendKeys.contains key = true) (hp : pretendHas e.pretendMap sig key = true) :
    execOpcode cx e .OP_CHECKSIG fExec pc = sizeCheck { e with stack := s ++ [vchTrue] } := by
  unfold execOpcode
  have hlen : ¬ (s.length + 2 < 2) := by omega
  simp [hs, hlen, C11_listed_accepted_checksig cx e sig key hk hp]

/-- OP_CHECKSIGVERIFY with a listed pair on top of the stack continues with both items removed -/
theorem C11_listed_OP_CHECKSIGVERIFY (cx : Ctx) (e : SEE) (s : List Bytes) (sig key : Bytes) (fExec : Bool) (pc : Bytes)
    (hs : e.stack = s ++ [sig, key])
    (hk : e.pretendKeys.contains key = true) (hp : pretendHas e.pretendMap sig key = true) :
    execOpcode cx e .OP_CHECKSIGVERIFY fExec pc = sizeCheck { e with stack := s } := by
  unfold execOpcode
  have hlen : ¬ (s.length + 2 < 2) := by omega
  simp [hs, hlen, C11_listed_accepted_checksig cx e sig key hk hp]

/-- OP_CHECKSIGADD (tapscript) with a listed pair: the counter `n` is replaced by `n + 1` -/
theorem C11_listed_OP_CHECKSIGADD (cx : Ctx) (e : SEE) (s : List Bytes) (sig nb key : Bytes) (n : Int)
    (fExec : Bool) (pc : Bytes)
    (hsv : e.sigversion ≠ .BASE ∧ e.sigversion ≠ .WITNESS_V0)
    (hs : e.stack = s ++ [sig, nb, key]) (hn : num nb e.requireMinimal = .ok n)
    (hk : e.pretendKeys.contains key = true) (hp : pretendHas e.pretendMap sig key = true) :
    execOpcode cx e .OP_CHECKSIGADD fExec pc = sizeCheck { e with stack := s ++ [serialize (n + 1)] } := by
  unfold execOpcode
  have hlen : ¬ (s.length + 3 < 3) := by omega
  simp [hs, hlen, hsv.1, hsv.2, hn, C11_listed_accepted_checksig cx e sig key hk hp, boolNum]

-- =============================================================================================
-- 2. a listed pair is accepted: CHECKMULTISIG

/-- one turn of the CHECKMULTISIG loop whose current pair is listed: the pair is consumed — signature index and
    key index both advance, one signature fewer remains — and nothing else happens: the right-hand side contains
    no encoding check and no call of the checker for this pair -/
theorem C11_listed_multisig_step (cx : Ctx) (e : SEE) (code : Bytes) (st : List Bytes)
    (nSigs nKeys isig ikey : Nat) (sig key : Bytes)
    (hsig : top st isig = .ok sig) (hkey : top st ikey = .ok key)
    (hk : e.pretendKeys.contains key = true) (hp : pretendHas e.pretendMap sig key = true) :
    multisigLoop cx e code st (nSigs + 1) (nKeys + 1) isig ikey =
      if nSigs > nKeys then pure false
      else multisigLoop cx e code st nSigs nKeys (isig + 1) (ikey + 1) := by
  rw [multisigLoop]
  simp only [hsig, hkey, hk, hp, ok_bind, if_true]
  rfl

/-- positions `isig, isig+1, …` hold signatures and positions `ikey, ikey+1, …` keys such that the loop started
    with `nSigs` signatures and `nKeys` keys meets, at every turn, a pair that the option decides
    (a listed key): either a signature listed for it (consumed), or a signature not listed for it (the key is skipped) -/
inductive MockRun (e : SEE) (st : List Bytes) : (nSigs nKeys isig ikey : Nat) → Prop
  | done (nKeys isig ikey : Nat) : MockRun e st 0 nKeys isig ikey
  | hit {nSigs nKeys isig ikey : Nat} {sig key : Bytes} :
      top st isig = .ok sig → top st ikey = .ok key →
      e.pretendKeys.contains key = true → pretendHas e.pretendMap sig key = true →
      MockRun e st nSigs nKeys (isig + 1) (ikey + 1) →
      MockRun e st (nSigs + 1) (nKeys + 1) isig ikey
  | skip {nSigs nKeys isig ikey : Nat} {sig key : Bytes} :
      top st isig = .ok sig → top st ikey = .ok key →
      e.pretendKeys.contains key = true → pretendHas e.pretendMap sig key = false →
      MockRun e st (nSigs + 1) nKeys isig (ikey + 1) →
      MockRun e st (nSigs + 1) (nKeys + 1) isig ikey

/-- such a run never has more signatures than keys left -/
theorem MockRun.le {e : SEE} {st : List Bytes} {nSigs nKeys isig ikey : Nat}
    (h : MockRun e st nSigs nKeys isig ikey) : nSigs ≤ nKeys := by
  induction h with
  | done => omega
  | hit _ _ _ _ _ ih => omega
  | skip _ _ _ _ _ ih => omega

/-- m-of-n, general form: if the signatures on the stack are, in order, signatures listed for a subsequence of
    the (listed) keys, the loop returns `true` — for every checker, flag set and signature version -/
theorem C11_listed_accepted_multisig_run (cx : Ctx) (e : SEE) (code : Bytes) (st : List Bytes)
    {nSigs nKeys isig ikey : Nat} (h : MockRun e st nSigs nKeys isig ikey) :
    multisigLoop cx e code st nSigs nKeys isig ikey = pure true := by
  induction h with
  | done nKeys isig ikey => rw [multisigLoop]
  | @hit nSigs nKeys isig ikey sig key hsig hkey hk hp hrest ih =>
    rw [C11_listed_multisig_step cx e code st nSigs nKeys isig ikey sig key hsig hkey hk hp]
    have := hrest.le
    have : ¬ nSigs > nKeys := by omega
    rw [if_neg this]
    exact ih
  | @skip nSigs nKeys isig ikey sig key hsig hkey hk hp hrest ih =>
    have hfit := hrest.le
    cases nKeys with
    | zero => omega
    | succ k =>
      rw [multisigLoop]
      simp only [hsig, hkey, hk, hp, ok_bind, if_true]
      show (if (if false = true then nSigs else nSigs + 1) > k + 1 then pure false
            else multisigLoop cx e code st (if false = true then nSigs else nSigs + 1) (k + 1)
              (if false = true then isig + 1 else isig) (ikey + 1)) = pure true
      simp only [Bool.false_eq_true, if_false]
      have : ¬ nSigs + 1 > k + 1 := by omega
      rw [if_neg this]
      exact ih

/-- m-of-n, plain form (m = n): positions `isig + j` / `ikey + j` (j < n) hold the j-th signature and the j-th
    key, every key is listed and every signature is listed for its key: the loop returns `true` -/
theorem C11_listed_accepted_multisig (cx : Ctx) (e : SEE) (code : Bytes) (st : List Bytes) (n isig ikey : Nat)
    (h : ∀ j, j < n → ∃ sig key, top st (isig + j) = .ok sig ∧ top st (ikey + j) = .ok key ∧
          e.pretendKeys.contains key = true ∧ pretendHas e.pretendMap sig key = true) :
    multisigLoop cx e code st n n isig ikey = pure true := by
  apply C11_listed_accepted_multisig_run cx e code st
  induction n generalizing isig ikey with
  | zero => exact .done _ _ _
  | succ n ih =>
    obtain ⟨sig, key, h1, h2, h3, h4⟩ := h 0 (by omega)
    refine .hit (sig := sig) (key := key) (by simpa using h1) (by simpa using h2) h3 h4 (ih _ _ ?_)
    intro j hj
    obtain ⟨sig', key', k1, k2, k3, k4⟩ := h (j + 1) (by omega)
    refine ⟨sig', key', ?_, ?_, k3, k4⟩
    · rw [← k1]; congr 1; omega
    · rw [← k2]; congr 1; omega

-- =============================================================================================
-- 3. another signature for a listed key is not accepted on the strength of the option

private theorem evalChecksig_noPretend_eq (cx : Ctx) (e : SEE) (sig key : Bytes)
    (h : (e.pretendKeys.contains key && pretendHas e.pretendMap sig key) = false) :
    evalChecksig cx e sig key = evalChecksig cx (noPretend e) sig key := by
  unfold evalChecksig
  rw [h]
  simp only [noPretend, List.contains_nil, Bool.false_and, Bool.false_eq_true, if_false]
  rfl

/-- (a) `EvalChecksig` for a listed key and a signature that is not listed for it: the option contributes
    nothing — the result is whatever the real verification says (the same call with empty tables) -/
theorem C11_other_signature_not_accepted (cx : Ctx) (e : SEE) (sig key : Bytes)
    (_hk : e.pretendKeys.contains key = true) (hp : pretendHas e.pretendMap sig key = false) :
    evalChecksig cx e sig key = evalChecksig cx { e with pretendMap := [], pretendKeys := [] } sig key := by
  apply evalChecksig_noPretend_eq
  rw [hp, Bool.and_false]

/-- (b) in the CHECKMULTISIG loop such a pair counts as a failed match (`ok = false`): the key is used up, the
    signature stays; in particular the real verification is NOT consulted for a listed key -/
theorem C11_other_signature_multisig_step (cx : Ctx) (e : SEE) (code : Bytes) (st : List Bytes)
    (nSigs nKeys isig ikey : Nat) (sig key : Bytes)
    (hsig : top st isig = .ok sig) (hkey : top st ikey = .ok key)
    (hk : e.pretendKeys.contains key = true) (hp : pretendHas e.pretendMap sig key = false) :
    multisigLoop cx e code st (nSigs + 1) (nKeys + 1) isig ikey =
      if nSigs + 1 > nKeys then pure false
      else multisigLoop cx e code st (nSigs + 1) nKeys isig (ikey + 1) := by
  rw [multisigLoop]
  simp only [hsig, hkey, hk, hp, ok_bind, if_true]
  rfl

-- =============================================================================================
-- 4. keys that are not listed are checked exactly as without the option

/-- `EvalChecksig` for an unlisted key is the same call with empty tables -/
theorem C11_unlisted_unaffected (cx : Ctx) (e : SEE) (sig key : Bytes)
    (hk : e.pretendKeys.contains key = false) :
    evalChecksig cx e sig key = evalChecksig cx { e with pretendMap := [], pretendKeys := [] } sig key := by
  apply evalChecksig_noPretend_eq
  rw [hk, Bool.false_and]

/-- one turn of the CHECKMULTISIG loop whose current key is unlisted: the real checks decide, exactly as in the
    loop without the option -/
theorem C11_unlisted_multisig_step (cx : Ctx) (e : SEE) (code : Bytes) (st : List Bytes)
    (nSigs nKeys isig ikey : Nat) (sig key : Bytes)
    (hsig : top st isig = .ok sig) (hkey : top st ikey = .ok key)
    (hk : e.pretendKeys.contains key = false) :
    multisigLoop cx e code st (nSigs + 1) (nKeys + 1) isig ikey =
      (do checkSignatureEncoding cx sig e.flags
          checkPubKeyEncoding key e.flags e.sigversion
          let ok := cx.checkECDSA sig key code e.sigversion
          if (if ok then nSigs else nSigs + 1) > nKeys then pure false
          else multisigLoop cx e code st (if ok then nSigs else nSigs + 1) nKeys
                 (if ok then isig + 1 else isig) (ikey + 1)) := by
  rw [multisigLoop]
  simp only [hsig, hkey, hk, ok_bind, Bool.false_eq_true, if_false, bind_assoc, pure_bind]

/-- the whole CHECKMULTISIG loop when none of the keys it can reach is listed: identical to the loop without
    the option -/
theorem C11_unlisted_unaffected_multisig (cx : Ctx) (e : SEE) (code : Bytes) (st : List Bytes)
    (nSigs nKeys isig ikey : Nat)
    (h : ∀ j, j < nKeys → ∀ key, top st (ikey + j) = .ok key → e.pretendKeys.contains key = false) :
    multisigLoop cx e code st nSigs nKeys isig ikey =
      multisigLoop cx { e with pretendMap := [], pretendKeys := [] } code st nSigs nKeys isig ikey := by
  induction nKeys generalizing nSigs isig ikey with
  | zero => cases nSigs <;> simp [multisigLoop]
  | succ nKeys ih =>
    cases nSigs with
    | zero => simp [multisigLoop]
    | succ nSigs =>
      rw [multisigLoop, multisigLoop]
      cases hsig : top st isig with
      | error x => rfl
      | ok sig =>
        cases hkey : top st ikey with
        | error x => rfl
        | ok key =>
          have hk := h 0 (by omega) key (by simpa using hkey)
          simp only [hk, ok_bind, List.contains_nil, Bool.false_eq_true, if_false]
          have ih' : ∀ a b, multisigLoop cx e code st a nKeys b (ikey + 1) =
              multisigLoop cx { e with pretendMap := [], pretendKeys := [] } code st a nKeys b (ikey + 1) := by
            intro a b
            apply ih
            intro j hj key' hk'
            exact h (j + 1) (by omega) key' (by rw [← hk']; congr 1; omega)
          simp only [ih']

-- =============================================================================================
-- 5. whole scripts (specification side): a script that does not involve a listed key runs as without the option

/-- the configuration with the option switched off -/
def noPretendCfg (cfg : Spec.Cfg) : Spec.Cfg := { cfg with pretend := [] }

/-- the key operand(s) a signature opcode looks at in state `st` (stack top first): the top item for
    CHECKSIG / CHECKSIGVERIFY / CHECKSIGADD, the `n` items below the key count `n` for CHECKMULTISIG(VERIFY)
    (all of them: which ones are actually reached depends on the signatures), nothing for other opcodes -/
def examinedKeys (op : Opcode) (st : Spec.St) : List Bytes :=
  match op with
  | .OP_CHECKSIG | .OP_CHECKSIGVERIFY | .OP_CHECKSIGADD => st.stack.take 1
  | .OP_CHECKMULTISIG | .OP_CHECKMULTISIGVERIFY =>
    match st.stack with
    | [] => []
    | nk :: s1 => s1.take (getint (Spec.numValue nk)).toNat
  | _ => []

@[simp] theorem noPretendCfg_flags (cfg : Spec.Cfg) : (noPretendCfg cfg).flags = cfg.flags := rfl
@[simp] theorem noPretendCfg_sigversion (cfg : Spec.Cfg) : (noPretendCfg cfg).sigversion = cfg.sigversion := rfl
@[simp] theorem noPretendCfg_allowDisabled (cfg : Spec.Cfg) : (noPretendCfg cfg).allowDisabled = cfg.allowDisabled := rfl
@[simp] theorem noPretendCfg_oracle (cfg : Spec.Cfg) : (noPretendCfg cfg).oracle = cfg.oracle := rfl
@[simp] theorem noPretendCfg_pretend (cfg : Spec.Cfg) : (noPretendCfg cfg).pretend = [] := rfl

private theorem pairListed_false_of_key (cfg : Spec.Cfg) (sig key : Bytes) (h : Spec.keyListed cfg key = false) :
    Spec.pairListed cfg sig key = false := by
  cases hp : Spec.pairListed cfg sig key with
  | false => rfl
  | true =>
    have : Spec.keyListed cfg key = true := by
      unfold Spec.keyListed
      rw [List.any_eq_true]
      exact ⟨(sig, key), List.contains_iff_mem.mp hp, by simp⟩
    rw [h] at this; cases this

/-- one signature check for an unlisted key -/
theorem checkSig_unlisted (cfg : Spec.Cfg) (st : Spec.St) (sig key : Bytes) (h : Spec.keyListed cfg key = false) :
    Spec.checkSig cfg st sig key = Spec.checkSig (noPretendCfg cfg) st sig key := by
  unfold Spec.checkSig Spec.mockHit
  rw [pairListed_false_of_key cfg sig key h]
  have : Spec.pairListed (noPretendCfg cfg) sig key = false := rfl
  rw [this]
  rfl

private theorem deleteAll_noPretend (cfg : Spec.Cfg) (sigs : List Bytes) (code : Bytes) :
    Spec.deleteAll cfg sigs code = Spec.deleteAll (noPretendCfg cfg) sigs code := by
  induction sigs generalizing code with
  | nil => rfl
  | cons sig sigs ih =>
    unfold Spec.deleteAll
    simp only [ih]
    rfl

/-- CHECKMULTISIG matching when no key is listed -/
theorem matchSigs_unlisted (cfg : Spec.Cfg) (code : Bytes) (sigs keys : List Bytes)
    (h : ∀ k ∈ keys, Spec.keyListed cfg k = false) :
    Spec.matchSigs cfg code sigs keys = Spec.matchSigs (noPretendCfg cfg) code sigs keys := by
  induction keys generalizing sigs with
  | nil => cases sigs <;> rfl
  | cons key keys ih =>
    cases sigs with
    | nil => rfl
    | cons sig sigs =>
      unfold Spec.matchSigs
      have hk := h key (by simp)
      have hk0 : Spec.keyListed (noPretendCfg cfg) key = false := rfl
      have ih' : ∀ s, Spec.matchSigs cfg code s keys = Spec.matchSigs (noPretendCfg cfg) code s keys :=
        fun s => ih s (fun k hk => h k (by simp [hk]))
      simp only [hk, hk0, ih']
      rfl

private theorem numOf_ok_eq {rm : Bool} {k : Nat} {b : Bytes} {v : Int} (h : Spec.numOf rm k b = .ok v) :
    v = Spec.numValue b := by
  unfold Spec.numOf at h
  split at h
  · cases h
  · split at h
    · cases h
    · cases h; rfl

private theorem execMultisig_unlisted (cfg : Spec.Cfg) (rm verify : Bool) (st : Spec.St)
    (h : ∀ k ∈ examinedKeys .OP_CHECKMULTISIG st, Spec.keyListed cfg k = false) :
    Spec.execMultisig cfg rm verify st = Spec.execMultisig (noPretendCfg cfg) rm verify st := by
  unfold Spec.execMultisig
  rcases hst : st.stack with _ | ⟨nk, s1⟩
  · rfl
  · simp only [examinedKeys, hst] at h
    simp only []
    cases hn : Spec.numOf rm 4 nk with
    | error x => rfl
    | ok v =>
      have hv := numOf_ok_eq hn
      subst hv
      have hm : ∀ sigs code, Spec.matchSigs cfg code sigs (s1.take (getint (Spec.numValue nk)).toNat) =
          Spec.matchSigs (noPretendCfg cfg) code sigs (s1.take (getint (Spec.numValue nk)).toNat) :=
        fun sigs code => matchSigs_unlisted cfg code sigs _ h
      simp only [specOk_bind, hm, deleteAll_noPretend cfg]
      rfl

/-- one executed opcode: if none of the keys it examines is listed, it does what it does without the option -/
theorem C11_execOp_unlisted (cfg : Spec.Cfg) (op : Opcode) (executing : Bool) (after : Bytes) (pos : Nat) (st : Spec.St)
    (h : ∀ k ∈ examinedKeys op st, Spec.keyListed cfg k = false) :
    Spec.execOp cfg op executing after pos st = Spec.execOp { cfg with pretend := [] } op executing after pos st := by
  show _ = Spec.execOp (noPretendCfg cfg) op executing after pos st
  cases op <;> first
    | rfl
    | skip
  case OP_CHECKSIG =>
    rcases hst : st.stack with _ | ⟨key, _ | ⟨sig, s⟩⟩
    all_goals (unfold Spec.execOp; simp [Spec.disabled, Spec.smallInt, Spec.isNopN, Spec.isUnary, Spec.isBinary, hst])
    rw [checkSig_unlisted cfg st sig key (h key (by simp [examinedKeys, hst]))]
  case OP_CHECKSIGVERIFY =>
    rcases hst : st.stack with _ | ⟨key, _ | ⟨sig, s⟩⟩
    all_goals (unfold Spec.execOp; simp [Spec.disabled, Spec.smallInt, Spec.isNopN, Spec.isUnary, Spec.isBinary, hst])
    rw [checkSig_unlisted cfg st sig key (h key (by simp [examinedKeys, hst]))]
  case OP_CHECKSIGADD =>
    rcases hst : st.stack with _ | ⟨key, _ | ⟨nb, _ | ⟨sig, s⟩⟩⟩
    all_goals (unfold Spec.execOp; simp [Spec.disabled, Spec.smallInt, Spec.isNopN, Spec.isUnary, Spec.isBinary, hst])
    rw [checkSig_unlisted cfg st sig key (h key (by simp [examinedKeys, hst]))]
  case OP_CHECKMULTISIG =>
    unfold Spec.execOp
    simp [Spec.disabled, Spec.smallInt, Spec.isNopN, Spec.isUnary, Spec.isBinary]
    exact execMultisig_unlisted cfg _ false st h
  case OP_CHECKMULTISIGVERIFY =>
    unfold Spec.execOp
    simp [Spec.disabled, Spec.smallInt, Spec.isNopN, Spec.isUnary, Spec.isBinary]
    exact execMultisig_unlisted cfg _ true st h

/-- the keys instruction `i` examines in state `st`: those of its opcode, if it is executed at all -/
def instrKeys (i : Spec.Instr) (st : Spec.St) : List Bytes :=
  if st.cond.all id then examinedKeys (Opcode.ofNat i.opcode) st else []

private theorem examinedKeys_congr (op : Opcode) {st st' : Spec.St} (h : st'.stack = st.stack) :
    examinedKeys op st' = examinedKeys op st := by
  unfold examinedKeys
  rw [h]

private theorem countOp_stack {cfg : Spec.Cfg} {n : Nat} {st st' : Spec.St} (h : Spec.countOp cfg n st = .ok st') :
    st'.stack = st.stack := by
  unfold Spec.countOp at h
  split at h
  · split at h
    · cases h
    · cases h; rfl
  · cases h; rfl

private theorem examinedKeys_condOp (n : Nat) (st : Spec.St) (h1 : 0x63 ≤ n) (h2 : n ≤ 0x68) :
    examinedKeys (Opcode.ofNat n) st = [] := by
  have : n = 0x63 ∨ n = 0x64 ∨ n = 0x65 ∨ n = 0x66 ∨ n = 0x67 ∨ n = 0x68 := by omega
  rcases this with h | h | h | h | h | h <;> subst h <;> rfl

private theorem execInstr_unlisted' (cfg : Spec.Cfg) (i : Spec.Instr) (after : Bytes) (pos : Nat) (st : Spec.St)
    (h : ∀ k ∈ instrKeys i st, Spec.keyListed cfg k = false) :
    Spec.execInstr cfg i after pos st = Spec.execInstr (noPretendCfg cfg) i after pos st := by
  unfold Spec.execInstr
  simp only [noPretendCfg_flags, noPretendCfg_sigversion, noPretendCfg_allowDisabled]
  have hc : Spec.countOp (noPretendCfg cfg) i.opcode st = Spec.countOp cfg i.opcode st := rfl
  rw [hc]
  split
  · rfl
  · cases hco : Spec.countOp cfg i.opcode st with
    | error x => rfl
    | ok st1 =>
      simp only [specOk_bind]
      have hst1 := countOp_stack hco
      have hop : Spec.execOp cfg (Opcode.ofNat i.opcode) (st.cond.all id) after pos st1 =
          Spec.execOp (noPretendCfg cfg) (Opcode.ofNat i.opcode) (st.cond.all id) after pos st1 ∨
          ((st.cond.all id) = false ∧ ¬ (0x63 ≤ i.opcode ∧ i.opcode ≤ 0x68)) := by
        cases hex : st.cond.all id with
        | true =>
          left
          apply C11_execOp_unlisted
          intro k hk
          rw [examinedKeys_congr _ hst1] at hk
          exact h k (by simp only [instrKeys, hex, if_true]; exact hk)
        | false =>
          by_cases hr : 0x63 ≤ i.opcode ∧ i.opcode ≤ 0x68
          · left
            apply C11_execOp_unlisted
            intro k hk
            rw [examinedKeys_condOp _ _ hr.1 hr.2] at hk
            cases hk
          · right; exact ⟨rfl, hr⟩
      rcases hop with hop | ⟨hex, hr⟩
      · rw [hop]
        rfl
      · have hr' : (decide (0x63 ≤ i.opcode) && decide (i.opcode ≤ 0x68)) = false := by
          rw [Bool.and_eq_false_iff]
          by_cases h1 : 0x63 ≤ i.opcode
          · right; simp; omega
          · left; simp; omega
        simp only [hex, hr', Bool.false_and, Bool.or_false, Bool.false_eq_true, if_false]

/-- one instruction: if it examines no listed key, it does what it does without the option -/
theorem C11_execInstr_unlisted (cfg : Spec.Cfg) (i : Spec.Instr) (after : Bytes) (pos : Nat) (st : Spec.St)
    (h : ∀ k ∈ instrKeys i st, Spec.keyListed cfg k = false) :
    Spec.execInstr cfg i after pos st = Spec.execInstr { cfg with pretend := [] } i after pos st :=
  execInstr_unlisted' cfg i after pos st h

/-- "along the run WITHOUT the option every executed signature opcode examines only unlisted keys":
    the instruction list `is` is run from position `pos` in state `st` with the option switched off; at every
    instruction reached, the keys it examines are not listed in `cfg` -/
inductive UnlistedRun (cfg : Spec.Cfg) : List (Spec.Instr × Bytes) → Nat → Spec.St → Prop
  | nil (pos : Nat) (st : Spec.St) : UnlistedRun cfg [] pos st
  | halt {i : Spec.Instr} {after : Bytes} {rest : List (Spec.Instr × Bytes)} {pos : Nat} {st : Spec.St} {err : ScriptError} :
      (∀ k ∈ instrKeys i st, Spec.keyListed cfg k = false) →
      Spec.execInstr (noPretendCfg cfg) i after pos st = .error err →
      UnlistedRun cfg ((i, after) :: rest) pos st
  | step {i : Spec.Instr} {after : Bytes} {rest : List (Spec.Instr × Bytes)} {pos : Nat} {st st' : Spec.St} :
      (∀ k ∈ instrKeys i st, Spec.keyListed cfg k = false) →
      Spec.execInstr (noPretendCfg cfg) i after pos st = .ok st' →
      UnlistedRun cfg rest (pos + 1) st' →
      UnlistedRun cfg ((i, after) :: rest) pos st

/-- a run that does not involve a listed key visits the same states and ends with the same result with and
    without the option -/
theorem C11_evalInstrs_unlisted (cfg : Spec.Cfg) (is : List (Spec.Instr × Bytes)) (pos : Nat) (st : Spec.St)
    (h : UnlistedRun cfg is pos st) :
    Spec.evalInstrs cfg is pos st = Spec.evalInstrs { cfg with pretend := [] } is pos st := by
  show _ = Spec.evalInstrs (noPretendCfg cfg) is pos st
  induction h with
  | nil pos st => rfl
  | @halt i after rest pos st err hk hex =>
    simp only [Spec.evalInstrs, execInstr_unlisted' cfg i after pos st hk, hex]
  | @step i after rest pos st st' hk hex _ ih =>
    simp only [Spec.evalInstrs, execInstr_unlisted' cfg i after pos st hk, hex, ih]

/-- whole script: the trace (every intermediate state) and the outcome are those of the run without the option -/
theorem C11_script_unlisted (cfg : Spec.Cfg) (script : Bytes) (st0 : Spec.St)
    (h : UnlistedRun cfg (Spec.decodePrefix script.length script).1 0 { st0 with codeFrom := script }) :
    Spec.evalScript cfg script st0 = Spec.evalScript { cfg with pretend := [] } script st0 := by
  show _ = Spec.evalScript (noPretendCfg cfg) script st0
  unfold Spec.evalScript
  simp only [noPretendCfg_sigversion]
  have := C11_evalInstrs_unlisted cfg _ 0 _ h
  rw [this]
  rfl

/-- the same condition as a computation (so that it can be checked on a given script) -/
def unlistedRunB (cfg : Spec.Cfg) : List (Spec.Instr × Bytes) → Nat → Spec.St → Bool
  | [], _, _ => true
  | (i, after) :: rest, pos, st =>
    (instrKeys i st).all (fun k => !Spec.keyListed cfg k) &&
    match Spec.execInstr (noPretendCfg cfg) i after pos st with
    | .ok st' => unlistedRunB cfg rest (pos + 1) st'
    | .error _ => true

theorem unlistedRun_of_check (cfg : Spec.Cfg) (is : List (Spec.Instr × Bytes)) (pos : Nat) (st : Spec.St)
    (h : unlistedRunB cfg is pos st = true) : UnlistedRun cfg is pos st := by
  induction is generalizing pos st with
  | nil => exact .nil pos st
  | cons ia rest ih =>
    obtain ⟨i, after⟩ := ia
    unfold unlistedRunB at h
    rw [Bool.and_eq_true] at h
    obtain ⟨h1, h2⟩ := h
    have hk : ∀ k ∈ instrKeys i st, Spec.keyListed cfg k = false := by
      intro k hk
      have := List.all_eq_true.mp h1 k hk
      simpa using this
    cases hex : Spec.execInstr (noPretendCfg cfg) i after pos st with
    | error err => exact .halt hk hex
    | ok st' =>
      rw [hex] at h2
      exact .step hk hex (ih _ _ h2)

-- =============================================================================================
-- 6. parsing the option

open Btcdeb.Proofs.Pretend

/-- the text as the C code sees it (a C string ends at the first NUL; a command-line argument contains none) -/
abbrev cText (text : Bytes) : Bytes := parsePretendValidExpr.cstr text

theorem cText_eq (text : Bytes) (hz : ∀ c ∈ text, c ≠ 0) : cText text = text := by
  unfold cText parsePretendValidExpr.cstr
  induction text with
  | nil => rfl
  | cons c t ih =>
    have hc : (c != 0) = true := by simpa using hz c (by simp)
    rw [List.takeWhile_cons, hc, if_pos rfl, ih (fun x hx => hz x (by simp [hx]))]

/-- how `parsePretendValidExpr` finishes after the loop -/
private theorem parse_eq (vcx : VCtx) (text : Bytes) :
    parsePretendValidExpr vcx text =
      (match pretendLoop vcx ((cText text).length + 1) (cText text) {} with
       | .error x => .error x
       | .ok none => .ok none
       | .ok (some st) => if st.gotSig then .ok none else .ok (some (st.map, st.keys))) := by
  unfold parsePretendValidExpr
  show (pretendLoop vcx ((cText text).length + 1) (cText text) {} >>= _) = _
  cases pretendLoop vcx ((cText text).length + 1) (cText text) {} with
  | error x => rfl
  | ok o =>
    cases o with
    | none => rfl
    | some st =>
      show (if st.gotSig = true then (pure none : VM _) else pure (some (st.map, st.keys))) =
        (if st.gotSig = true then Except.ok none else Except.ok (some (st.map, st.keys)))
      cases st.gotSig <;> rfl

/-- a well-formed list is accepted, and the tables are those of the listed pairs (inserted in order) -/
theorem parse_accepts (vcx : VCtx) (text : Bytes) (ps : List (Bytes × Bytes))
    (h : Spec.pretendPairs (fun t => (valueData vcx t).toOption) (cText text) = some ps) :
    parsePretendValidExpr vcx text = .ok (some (tablesOf ps)) := by
  have hl := (loop_spec vcx ((cText text).length + 1) (cText text) {} (by omega)).1 rfl
  have h' : specA (ev vcx) (cText text) = some ps := h
  rw [h'] at hl
  obtain ⟨st', h1, h2, h3, h4⟩ := hl
  rw [parse_eq, h1]
  simp only [h2, Bool.false_eq_true, if_false, h3, h4]
  rfl

/-- a malformed list is never accepted: the parser reports an error, or the evaluation of a value expression
    aborts the program (`VErr`: `exit(1)` / uncaught exception inside `Value`) -/
theorem parse_rejects (vcx : VCtx) (text : Bytes)
    (h : Spec.pretendPairs (fun t => (valueData vcx t).toOption) (cText text) = none) :
    parsePretendValidExpr vcx text = .ok none ∨ ∃ x, parsePretendValidExpr vcx text = .error x := by
  have hl := (loop_spec vcx ((cText text).length + 1) (cText text) {} (by omega)).1 rfl
  have h' : specA (ev vcx) (cText text) = none := h
  rw [h'] at hl
  rw [parse_eq]
  rcases hl with h1 | ⟨x, h1⟩ | ⟨st', h1, h2⟩
  · rw [h1]; exact Or.inl rfl
  · rw [h1]; exact Or.inr ⟨x, rfl⟩
  · rw [h1]; simp [h2]

/-- the three possible results of the parser, each read on the specification -/
theorem parse_agree (vcx : VCtx) (text : Bytes) :
    match parsePretendValidExpr vcx text with
    | .ok (some r) => ∃ ps, Spec.pretendPairs (fun t => (valueData vcx t).toOption) (cText text) = some ps ∧ r = tablesOf ps
    | .ok none => Spec.pretendPairs (fun t => (valueData vcx t).toOption) (cText text) = none
    | .error _ => Spec.pretendPairs (fun t => (valueData vcx t).toOption) (cText text) = none := by
  cases hs : Spec.pretendPairs (fun t => (valueData vcx t).toOption) (cText text) with
  | some ps =>
    rw [parse_accepts vcx text ps hs]
    exact ⟨ps, rfl, rfl⟩
  | none =>
    rcases parse_rejects vcx text hs with h | ⟨x, h⟩ <;> rw [h]

/-- malformed lists are rejected, identically: the specification denotes no list exactly when the parser does not
    produce tables (it says "parse error", or aborts inside a value expression) -/
theorem parse_agree_rejected (vcx : VCtx) (text : Bytes) (hz : ∀ c ∈ text, c ≠ 0) :
    Spec.pretendPairs (fun t => (valueData vcx t).toOption) text = none ↔
      (parsePretendValidExpr vcx text = .ok none ∨ ∃ x, parsePretendValidExpr vcx text = .error x) := by
  have hag := parse_agree vcx text
  rw [cText_eq text hz] at hag
  constructor
  · intro h
    apply parse_rejects
    rw [cText_eq text hz]; exact h
  · intro h
    rcases h with h | ⟨x, h⟩ <;> rw [h] at hag <;> exact hag

/-- why "∨ error" cannot be dropped: when the value expression of the first signature field aborts (e.g. the field
    `reverse(OP_DUP)`: `exit(1)` with "irreversible value type"), the specification denotes no list and the parser
    does not answer at all -/
theorem parse_first_field_aborts (vcx : VCtx) (f rest : Bytes) (x : VErr)
    (hf : NoSep f) (hne : f ≠ []) (hz : ∀ c ∈ f ++ 58 :: rest, c ≠ 0) (hv : valueData vcx f = .error x) :
    parsePretendValidExpr vcx (f ++ 58 :: rest) = .error x ∧
    Spec.pretendPairs (fun t => (valueData vcx t).toOption) (f ++ 58 :: rest) = none := by
  have hfe : f.isEmpty = false := by cases f; exact absurd rfl hne; rfl
  constructor
  · rw [parse_eq, cText_eq _ hz]
    have hpf := pretendField_noSep_sep f rest [] 58 hf (Or.inr rfl)
    simp only [List.reverse_nil, List.nil_append] at hpf
    rw [pretendLoop_step vcx _ _ {} f (some 58) rest (by simp) hpf (Or.inr (Or.inr rfl))]
    simp only [hfe, Bool.false_eq_true, if_false, hv]
  · show specA (ev vcx) (f ++ 58 :: rest) = none
    rw [specA_colon _ f rest hf, ev_error hv]
    simp [hfe]

/-- …and when no value expression aborts (e.g. every field is plain hexadecimal), rejection is the answer `.ok none` -/
theorem parse_agree_rejected_total (vcx : VCtx) (text : Bytes) (hz : ∀ c ∈ text, c ≠ 0)
    (hnoabort : ∀ x, parsePretendValidExpr vcx text ≠ .error x) :
    Spec.pretendPairs (fun t => (valueData vcx t).toOption) text = none ↔ parsePretendValidExpr vcx text = .ok none := by
  rw [parse_agree_rejected vcx text hz]
  constructor
  · intro h
    rcases h with h | ⟨x, h⟩
    · exact h
    · exact absurd h (hnoabort x)
  · intro h; exact Or.inl h

/-- a well-formed list — ANY well-formed list: the parser yields tables `(m, k)`; `k` is the set of listed keys and
    `m` the set of listed pairs (no pair stored twice).  These are the two mock-signature clauses of the refinement
    relation `CfgRel` (there the pair clause is only needed for listed keys). -/
theorem parse_agree_tables (vcx : VCtx) (text : Bytes) (hz : ∀ c ∈ text, c ≠ 0) (ps : List (Bytes × Bytes))
    (h : Spec.pretendPairs (fun t => (valueData vcx t).toOption) text = some ps) :
    ∃ m k, parsePretendValidExpr vcx text = .ok (some (m, k)) ∧
      (∀ key, k.contains key = ps.any (fun p => p.2 == key)) ∧
      (∀ sig key, pretendHas m sig key = ps.contains (sig, key)) ∧
      m.Nodup := by
  refine ⟨(tablesOf ps).1, (tablesOf ps).2, ?_, tablesOf_keys ps, tablesOf_pair ps, tablesOf_nodup ps⟩
  apply parse_accepts
  rw [cText_eq text hz]; exact h

/-- the same, phrased on an environment and a configuration: what the parser builds for a well-formed list
    satisfies `CfgRel.pretendKeys` and `CfgRel.pretendPair` — no side condition on the list -/
theorem parse_gives_CfgRel_clauses (vcx : VCtx) (text : Bytes) (hz : ∀ c ∈ text, c ≠ 0)
    (cfg : Spec.Cfg) (e : SEE)
    (hspec : Spec.pretendPairs (fun t => (valueData vcx t).toOption) text = some cfg.pretend)
    (hmodel : parsePretendValidExpr vcx text = .ok (some (e.pretendMap, e.pretendKeys))) :
    (∀ key, e.pretendKeys.contains key = Spec.keyListed cfg key) ∧
    (∀ sig key, e.pretendKeys.contains key = true →
      pretendHas e.pretendMap sig key = Spec.pairListed cfg sig key) := by
  obtain ⟨m, k, h1, h2, h3, _⟩ := parse_agree_tables vcx text hz cfg.pretend hspec
  rw [hmodel] at h1
  cases h1
  exact ⟨h2, fun sig key _ => h3 sig key⟩

/-- the mock short-circuit of the model is the specification's `mockHit`, for the tables of every well-formed list:
    "the key is a mock key and the pair is in the pair set" ⇔ "the pair is listed" -/
theorem parse_gives_mockHit (vcx : VCtx) (text : Bytes) (hz : ∀ c ∈ text, c ≠ 0)
    (cfg : Spec.Cfg) (e : SEE)
    (hspec : Spec.pretendPairs (fun t => (valueData vcx t).toOption) text = some cfg.pretend)
    (hmodel : parsePretendValidExpr vcx text = .ok (some (e.pretendMap, e.pretendKeys))) (sig key : Bytes) :
    (e.pretendKeys.contains key && pretendHas e.pretendMap sig key) = Spec.mockHit cfg sig key := by
  obtain ⟨m, k, h1, h2, h3, _⟩ := parse_agree_tables vcx text hz cfg.pretend hspec
  rw [hmodel] at h1
  cases h1
  unfold Spec.mockHit Spec.pairListed
  rw [h2, h3]
  cases hp : cfg.pretend.contains (sig, key) with
  | false => rw [Bool.and_false]
  | true =>
    have : (cfg.pretend.any fun p => p.2 == key) = true := by
      rw [List.any_eq_true]
      exact ⟨(sig, key), List.contains_iff_mem.mp hp, by simp⟩
    rw [this]; rfl

/-- the former finding F-C11-dup-sig, now a theorem in the other direction: for the list `S:P1,S:P2` BOTH pairs are
    in the pair table (with the `std::map` keyed by the signature the first one was lost), both keys are mock keys,
    and the crossed pairs of an unrelated signature are not -/
theorem same_sig_two_keys_tables :
    let S : Bytes := [0xAA]; let P1 : Bytes := [0x01]; let P2 : Bytes := [0x02]
    let ps := [(S, P1), (S, P2)]
    (tablesOf ps).2.contains P1 = true ∧ (tablesOf ps).2.contains P2 = true ∧
    pretendHas (tablesOf ps).1 S P1 = true ∧ pretendHas (tablesOf ps).1 S P2 = true ∧
    pretendHas (tablesOf ps).1 [0xBB] P1 = false := by
  refine ⟨by decide, by decide, by decide, by decide, by decide⟩

/-- …and its effect: with those tables model and specification both accept `(S, P1)` and `(S, P2)` on the strength
    of the option, whatever the checker says -/
theorem same_sig_two_keys_effect (cx : Ctx) (e : SEE) (cfg : Spec.Cfg) (st : Spec.St)
    (hm : e.pretendMap = (tablesOf [([0xAA], [0x01]), ([0xAA], [0x02])]).1)
    (hk : e.pretendKeys = (tablesOf [([0xAA], [0x01]), ([0xAA], [0x02])]).2)
    (hc : cfg.pretend = [([0xAA], [0x01]), ([0xAA], [0x02])]) :
    evalChecksig cx e [0xAA] [0x01] = pure (true, e.execdata) ∧
    evalChecksig cx e [0xAA] [0x02] = pure (true, e.execdata) ∧
    Spec.checkSig cfg st [0xAA] [0x01] = .ok (true, st) ∧
    Spec.checkSig cfg st [0xAA] [0x02] = .ok (true, st) := by
  refine ⟨?_, ?_, ?_, ?_⟩
  · apply C11_listed_accepted_checksig
    · rw [hk]; decide
    · rw [hm]; decide
  · apply C11_listed_accepted_checksig
    · rw [hk]; decide
    · rw [hm]; decide
  · unfold Spec.checkSig Spec.mockHit Spec.pairListed
    rw [hc]
    rfl
  · unfold Spec.checkSig Spec.mockHit Spec.pairListed
    rw [hc]
    rfl

-- =============================================================================================
-- 7. from the option text to the opcodes: every well-formed list, no side condition

/-- the session was started with `--pretend-valid=text`: its environment carries the tables the parser built -/
def StartedWith (vcx : VCtx) (text : Bytes) (e : SEE) : Prop :=
  parsePretendValidExpr vcx text = .ok (some (e.pretendMap, e.pretendKeys))

/-- the list of pairs the option text denotes (the specification's reading) -/
def Denotes (vcx : VCtx) (text : Bytes) (ps : List (Bytes × Bytes)) : Prop :=
  (∀ c ∈ text, c ≠ 0) ∧ Spec.pretendPairs (fun t => (valueData vcx t).toOption) text = some ps

/-- the tables of a session started with a well-formed list -/
theorem started_tables {vcx : VCtx} {text : Bytes} {ps : List (Bytes × Bytes)} {e : SEE}
    (hd : Denotes vcx text ps) (hs : StartedWith vcx text e) :
    (∀ key, e.pretendKeys.contains key = ps.any (fun p => p.2 == key)) ∧
    (∀ sig key, pretendHas e.pretendMap sig key = ps.contains (sig, key)) := by
  obtain ⟨m, k, h1, h2, h3, _⟩ := parse_agree_tables vcx text hd.1 ps hd.2
  unfold StartedWith at hs
  rw [hs] at h1
  cases h1
  exact ⟨h2, h3⟩

private theorem started_listed {vcx : VCtx} {text : Bytes} {ps : List (Bytes × Bytes)} {e : SEE}
    (hd : Denotes vcx text ps) (hs : StartedWith vcx text e) {sig key : Bytes} (hl : (sig, key) ∈ ps) :
    e.pretendKeys.contains key = true ∧ pretendHas e.pretendMap sig key = true := by
  obtain ⟨h2, h3⟩ := started_tables hd hs
  constructor
  · rw [h2, List.any_eq_true]; exact ⟨(sig, key), hl, by simp⟩
  · rw [h3]; exact List.contains_iff_mem.mpr hl

private theorem started_unlisted {vcx : VCtx} {text : Bytes} {ps : List (Bytes × Bytes)} {e : SEE}
    (hd : Denotes vcx text ps) (hs : StartedWith vcx text e) {sig key : Bytes} (hl : (sig, key) ∉ ps) :
    pretendHas e.pretendMap sig key = false := by
  rw [(started_tables hd hs).2]
  cases hc : ps.contains (sig, key) with
  | false => rfl
  | true => exact absurd (List.contains_iff_mem.mp hc) hl

/-- a listed pair is accepted by `EvalChecksig` (OP_CHECKSIG / OP_CHECKSIGVERIFY / OP_CHECKSIGADD), for every
    well-formed list — in particular when the signature is also listed for other keys -/
theorem C11_text_listed_checksig (vcx : VCtx) (text : Bytes) (ps : List (Bytes × Bytes)) (cx : Ctx) (e : SEE)
    (hd : Denotes vcx text ps) (hs : StartedWith vcx text e) (sig key : Bytes) (hl : (sig, key) ∈ ps) :
    evalChecksig cx e sig key = pure (true, e.execdata) :=
  C11_listed_accepted_checksig cx e sig key (started_listed hd hs hl).1 (started_listed hd hs hl).2

theorem C11_text_listed_OP_CHECKSIG (vcx : VCtx) (text : Bytes) (ps : List (Bytes × Bytes)) (cx : Ctx) (e : SEE)
    (hd : Denotes vcx text ps) (hs : StartedWith vcx text e) (s : List Bytes) (sig key : Bytes) (fExec : Bool) (pc : Bytes)
    (hst : e.stack = s ++ [sig, key]) (hl : (sig, key) ∈ ps) :
    execOpcode cx e .OP_CHECKSIG fExec pc = sizeCheck { e with stack := s ++ [vchTrue] } :=
  C11_listed_OP_CHECKSIG cx e s sig key fExec pc hst (started_listed hd hs hl).1 (started_listed hd hs hl).2

theorem C11_text_listed_OP_CHECKSIGVERIFY (vcx : VCtx) (text : Bytes) (ps : List (Bytes × Bytes)) (cx : Ctx) (e : SEE)
    (hd : Denotes vcx text ps) (hs : StartedWith vcx text e) (s : List Bytes) (sig key : Bytes) (fExec : Bool) (pc : Bytes)
    (hst : e.stack = s ++ [sig, key]) (hl : (sig, key) ∈ ps) :
    execOpcode cx e .OP_CHECKSIGVERIFY fExec pc = sizeCheck { e with stack := s } :=
  C11_listed_OP_CHECKSIGVERIFY cx e s sig key fExec pc hst (started_listed hd hs hl).1 (started_listed hd hs hl).2

theorem C11_text_listed_OP_CHECKSIGADD (vcx : VCtx) (text : Bytes) (ps : List (Bytes × Bytes)) (cx : Ctx) (e : SEE)
    (hd : Denotes vcx text ps) (hs : StartedWith vcx text e) (s : List Bytes) (sig nb key : Bytes) (n : Int)
    (fExec : Bool) (pc : Bytes) (hsv : e.sigversion ≠ .BASE ∧ e.sigversion ≠ .WITNESS_V0)
    (hst : e.stack = s ++ [sig, nb, key]) (hn : num nb e.requireMinimal = .ok n) (hl : (sig, key) ∈ ps) :
    execOpcode cx e .OP_CHECKSIGADD fExec pc = sizeCheck { e with stack := s ++ [serialize (n + 1)] } :=
  C11_listed_OP_CHECKSIGADD cx e s sig nb key n fExec pc hsv hst hn (started_listed hd hs hl).1 (started_listed hd hs hl).2

/-- CHECKMULTISIG matching, n-of-n: every (j-th signature, j-th key) is a listed pair → the loop returns `true`
    (the same signature may stand for several keys) -/
theorem C11_text_listed_multisig (vcx : VCtx) (text : Bytes) (ps : List (Bytes × Bytes)) (cx : Ctx) (e : SEE)
    (hd : Denotes vcx text ps) (hs : StartedWith vcx text e) (code : Bytes) (st : List Bytes) (n isig ikey : Nat)
    (h : ∀ j, j < n → ∃ sig key, top st (isig + j) = .ok sig ∧ top st (ikey + j) = .ok key ∧ (sig, key) ∈ ps) :
    multisigLoop cx e code st n n isig ikey = pure true := by
  apply C11_listed_accepted_multisig
  intro j hj
  obtain ⟨sig, key, h1, h2, h3⟩ := h j hj
  exact ⟨sig, key, h1, h2, (started_listed hd hs h3).1, (started_listed hd hs h3).2⟩

/-- CHECKMULTISIG matching, one turn on a listed pair: consumed, no check and no checker call -/
theorem C11_text_listed_multisig_step (vcx : VCtx) (text : Bytes) (ps : List (Bytes × Bytes)) (cx : Ctx) (e : SEE)
    (hd : Denotes vcx text ps) (hs : StartedWith vcx text e) (code : Bytes) (st : List Bytes)
    (nSigs nKeys isig ikey : Nat) (sig key : Bytes)
    (hsig : top st isig = .ok sig) (hkey : top st ikey = .ok key) (hl : (sig, key) ∈ ps) :
    multisigLoop cx e code st (nSigs + 1) (nKeys + 1) isig ikey =
      if nSigs > nKeys then pure false
      else multisigLoop cx e code st nSigs nKeys (isig + 1) (ikey + 1) :=
  C11_listed_multisig_step cx e code st nSigs nKeys isig ikey sig key hsig hkey
    (started_listed hd hs hl).1 (started_listed hd hs hl).2

/-- a pair that is NOT listed gets nothing from the option in `EvalChecksig`, whether or not its key (or its
    signature) occurs in other listed pairs: the result is that of the real verification -/
theorem C11_text_unlisted_pair_checksig (vcx : VCtx) (text : Bytes) (ps : List (Bytes × Bytes)) (cx : Ctx) (e : SEE)
    (hd : Denotes vcx text ps) (hs : StartedWith vcx text e) (sig key : Bytes) (hl : (sig, key) ∉ ps) :
    evalChecksig cx e sig key = evalChecksig cx { e with pretendMap := [], pretendKeys := [] } sig key := by
  apply evalChecksig_noPretend_eq
  rw [started_unlisted hd hs hl, Bool.and_false]

/-- a pair that is not listed but whose key is a mock key (listed with some signature) is REJECTED by the
    CHECKMULTISIG matching: failed match, the key is used up, the real verification is not consulted -/
theorem C11_text_unlisted_pair_multisig_step (vcx : VCtx) (text : Bytes) (ps : List (Bytes × Bytes)) (cx : Ctx) (e : SEE)
    (hd : Denotes vcx text ps) (hs : StartedWith vcx text e) (code : Bytes) (st : List Bytes)
    (nSigs nKeys isig ikey : Nat) (sig key other : Bytes)
    (hsig : top st isig = .ok sig) (hkey : top st ikey = .ok key)
    (hmock : (other, key) ∈ ps) (hl : (sig, key) ∉ ps) :
    multisigLoop cx e code st (nSigs + 1) (nKeys + 1) isig ikey =
      if nSigs + 1 > nKeys then pure false
      else multisigLoop cx e code st (nSigs + 1) nKeys isig (ikey + 1) :=
  C11_other_signature_multisig_step cx e code st nSigs nKeys isig ikey sig key hsig hkey
    (started_listed hd hs hmock).1 (started_unlisted hd hs hl)

/-- keys that are not listed: the whole CHECKMULTISIG loop runs as without the option -/
theorem C11_text_unlisted_keys_multisig (vcx : VCtx) (text : Bytes) (ps : List (Bytes × Bytes)) (cx : Ctx) (e : SEE)
    (hd : Denotes vcx text ps) (hs : StartedWith vcx text e) (code : Bytes) (st : List Bytes)
    (nSigs nKeys isig ikey : Nat)
    (h : ∀ j, j < nKeys → ∀ key, top st (ikey + j) = .ok key → ∀ p ∈ ps, p.2 ≠ key) :
    multisigLoop cx e code st nSigs nKeys isig ikey =
      multisigLoop cx { e with pretendMap := [], pretendKeys := [] } code st nSigs nKeys isig ikey := by
  apply C11_unlisted_unaffected_multisig
  intro j hj key hk
  rw [(started_tables hd hs).1]
  cases hc : ps.any (fun p => p.2 == key) with
  | false => rfl
  | true =>
    obtain ⟨p, hp, hpk⟩ := List.any_eq_true.mp hc
    exact absurd (by simpa using hpk) (h j hj key hk p hp)

/-- the tables of a session started with a well-formed list satisfy the mock-signature clauses of `CfgRel` for the
    configuration whose `pretend` list is the denoted one; hence (Refine/*, C01, C02) the whole session refines the
    specification's run with that list -/
theorem C11_text_CfgRel_clauses (vcx : VCtx) (text : Bytes) (cfg : Spec.Cfg) (e : SEE)
    (hd : Denotes vcx text cfg.pretend) (hs : StartedWith vcx text e) :
    (∀ key, e.pretendKeys.contains key = Spec.keyListed cfg key) ∧
    (∀ sig key, e.pretendKeys.contains key = true → pretendHas e.pretendMap sig key = Spec.pairListed cfg sig key) :=
  parse_gives_CfgRel_clauses vcx text hd.1 cfg e hd.2 hs

-- =============================================================================================
-- 8. the hypotheses are satisfiable

namespace Examples

/-- `--pretend-valid=b1:01,b2:02` in a legacy script, with a checker that rejects every real signature -/
def env (stack : List Bytes) : SEE :=
  { script := [], pbegincodehash := [], flags := 0, sigversion := .BASE, requireMinimal := false, stack := stack,
    pretendMap := [([0xB1], [0x01]), ([0xB2], [0x02])], pretendKeys := [[0x01], [0x02]] }

def rejectAll : Ctx :=
  { sha256 := id, ripemd160 := id, sha1 := id, checkLowS := fun _ => false, checkLockTime := fun _ => false,
    checkSequence := fun _ => false, checkECDSA := fun _ _ _ _ => false,
    checkSchnorr := fun _ _ _ _ => .error (.script .UNKNOWN_ERROR) }

-- 1: listed pair, CHECKSIG / CHECKSIGVERIFY
example : evalChecksig rejectAll (env []) [0xB1] [0x01] = pure (true, (env []).execdata) :=
  C11_listed_accepted_checksig _ _ _ _ (by decide) (by decide)

example : execOpcode rejectAll (env [[7], [0xB1], [0x01]]) .OP_CHECKSIG true [] =
    sizeCheck { env [[7], [0xB1], [0x01]] with stack := [[7]] ++ [vchTrue] } :=
  C11_listed_OP_CHECKSIG _ _ [[7]] [0xB1] [0x01] _ _ rfl (by decide) (by decide)

example : execOpcode rejectAll (env [[7], [0xB1], [0x01]]) .OP_CHECKSIGVERIFY true [] =
    sizeCheck { env [[7], [0xB1], [0x01]] with stack := [[7]] } :=
  C11_listed_OP_CHECKSIGVERIFY _ _ [[7]] [0xB1] [0x01] _ _ rfl (by decide) (by decide)

-- 1: listed pair, CHECKSIGADD (tapscript)
example : execOpcode rejectAll { env [[0xB1], [5], [0x01]] with sigversion := .TAPSCRIPT } .OP_CHECKSIGADD true [] =
    sizeCheck { env [[0xB1], [5], [0x01]] with sigversion := .TAPSCRIPT, stack := [] ++ [serialize (5 + 1)] } :=
  C11_listed_OP_CHECKSIGADD _ _ [] [0xB1] [5] [0x01] 5 _ _ (by decide) rfl (by rfl) (by decide) (by decide)

-- 2: 2-of-2 with both pairs listed: stack = dummy S1 S2 2 P1 P2 2 (signatures at 5,6; keys at 2,3 from the top)
example : multisigLoop rejectAll (env []) [] [[], [0xB1], [0xB2], [2], [0x01], [0x02], [2]] 2 2 5 2 = pure true := by
  apply C11_listed_accepted_multisig
  intro j hj
  have : j = 0 ∨ j = 1 := by omega
  rcases this with rfl | rfl
  · exact ⟨[0xB2], [0x02], by rfl, by rfl, by decide, by decide⟩
  · exact ⟨[0xB1], [0x01], by rfl, by rfl, by decide, by decide⟩

-- 2: 1-of-2, the signature of the second key: the first key examined (P2) is listed with another signature → skipped
example : MockRun (env []) [[], [0xB1], [1], [0x01], [0x02], [2]] 1 2 5 2 :=
  .skip (sig := [0xB1]) (key := [0x02]) (by rfl) (by rfl) (by decide) (by decide)
    (.hit (sig := [0xB1]) (key := [0x01]) (by rfl) (by rfl) (by decide) (by decide) (.done _ _ _))

-- 3: a different signature for the listed key 01 / 4: the unlisted key 09
example : (env []).pretendKeys.contains [0x01] = true ∧ pretendHas (env []).pretendMap [0xCC] [0x01] = false := by decide
example : (env []).pretendKeys.contains [0x09] = false := by decide

-- 5: the script `<cc> <09> CHECKSIG` (key 09 unlisted) under `--pretend-valid=b1:01`
def oracle : Spec.SigOracle :=
  { checkLowS := fun _ => false, checkLockTime := fun _ => false, checkSequence := fun _ => false,
    ecdsa := fun _ _ _ _ => false, schnorr := fun _ _ _ _ => .error .UNKNOWN_ERROR, sha256 := id, ripemd160 := id, sha1 := id }

def cfg : Spec.Cfg := { flags := 0, sigversion := .BASE, oracle := oracle, pretend := [([0xB1], [0x01])] }

example : UnlistedRun cfg (Spec.decodePrefix 5 [1, 0xCC, 1, 0x09, 0xac]).1 0 { codeFrom := [1, 0xCC, 1, 0x09, 0xac] } :=
  unlistedRun_of_check _ _ _ _ (by rfl)

-- …whereas `<b1> <01> CHECKSIG` does involve a listed key (and indeed runs differently)
example : unlistedRunB cfg (Spec.decodePrefix 5 [1, 0xB1, 1, 0x01, 0xac]).1 0 { codeFrom := [1, 0xB1, 1, 0x01, 0xac] } = false := by rfl

-- 6: `aa:bb,cc:dd` is well formed and parsed identically; `aa:bb,,` is rejected identically
def vcx : VCtx := { sha256 := id, ripemd160 := id }
def text : Bytes := [97, 97, 58, 98, 98, 44, 99, 99, 58, 100, 100]

example : Spec.pretendPairs (fun t => (valueData vcx t).toOption) text = some [([0xaa], [0xbb]), ([0xcc], [0xdd])] := by rfl
example : ∀ c ∈ text, c ≠ 0 := by decide
example : parsePretendValidExpr vcx text = .ok (some ([([0xaa], [0xbb]), ([0xcc], [0xdd])], [[0xbb], [0xdd]])) := by rfl
example : Spec.pretendPairs (fun t => (valueData vcx t).toOption) [97, 97, 58, 98, 98, 44, 44] = none := by rfl
example : parsePretendValidExpr vcx [97, 97, 58, 98, 98, 44, 44] = .ok none := by rfl

-- 6/7: the same signature under two keys, `aa:bb,aa:cc` (and the first pair once more: `…,aa:bb`): well formed; both
-- pairs are in the tables, the repeated pair is stored once; a session started with it accepts `aa` for `bb` and for `cc`
-- (also as the two signatures of a 2-of-2 CHECKMULTISIG) and gives nothing to the unlisted pair `cc:bb`
def text2 : Bytes := [97, 97, 58, 98, 98, 44, 97, 97, 58, 99, 99, 44, 97, 97, 58, 98, 98]
def ps2 : List (Bytes × Bytes) := [([0xaa], [0xbb]), ([0xaa], [0xcc]), ([0xaa], [0xbb])]
def env2 (stack : List Bytes) : SEE :=
  { script := [], pbegincodehash := [], flags := 0, sigversion := .BASE, requireMinimal := false, stack := stack,
    pretendMap := [([0xaa], [0xbb]), ([0xaa], [0xcc])], pretendKeys := [[0xbb], [0xcc]] }

theorem denotes2 : Denotes vcx text2 ps2 := ⟨by decide, by rfl⟩
theorem started2 (stack : List Bytes) : StartedWith vcx text2 (env2 stack) := by
  show parsePretendValidExpr vcx text2 = _
  rfl

example : evalChecksig rejectAll (env2 []) [0xaa] [0xbb] = pure (true, (env2 []).execdata) :=
  C11_text_listed_checksig vcx text2 ps2 _ _ denotes2 (started2 []) _ _ (by decide)
example : evalChecksig rejectAll (env2 []) [0xaa] [0xcc] = pure (true, (env2 []).execdata) :=
  C11_text_listed_checksig vcx text2 ps2 _ _ denotes2 (started2 []) _ _ (by decide)
example : evalChecksig rejectAll (env2 []) [0xcc] [0xbb] =
    evalChecksig rejectAll { env2 [] with pretendMap := [], pretendKeys := [] } [0xcc] [0xbb] :=
  C11_text_unlisted_pair_checksig vcx text2 ps2 _ _ denotes2 (started2 []) _ _ (by decide)
-- stack = dummy S S 2 P1 P2 2 with S = aa, P1 = bb, P2 = cc
example : multisigLoop rejectAll (env2 []) [] [[], [0xaa], [0xaa], [2], [0xbb], [0xcc], [2]] 2 2 5 2 = pure true := by
  apply C11_text_listed_multisig vcx text2 ps2 _ _ denotes2 (started2 [])
  intro j hj
  have : j = 0 ∨ j = 1 := by omega
  rcases this with rfl | rfl
  · exact ⟨[0xaa], [0xcc], by rfl, by rfl, by decide⟩
  · exact ⟨[0xaa], [0xbb], by rfl, by rfl, by decide⟩

end Examples

end Btcdeb.Proofs.C11
