/-
  C16 — exec applies operations exactly as the script would.
-/
import Btcdeb
import BtcdebProofs.Refine.Step
import BtcdebProofs.Lemmas.Frame
namespace Btcdeb.Proofs.C16
open Btcdeb Btcdeb.Model Btcdeb.Refine

/-- running operations with `exec` never touches the script, the flags, the signature version or the
    opcode position of the environment -/
theorem evalRun_frame (cx : Ctx) (mainPc : Bytes) : ∀ (n : Nat) (e : SEE) (it : Bytes),
    (evalRun cx mainPc n e it).1.frame = e.frame := by
  intro n
  induction n with
  | zero => intro e it; rfl
  | succ n ih =>
    intro e it
    simp only [evalRun]
    split
    · rfl
    · split
      · rename_i e' it' hs
        have hf := step_frame cx e e' it it' hs
        rw [ih]
        have hite : ∀ (c : Bool) (p : Bytes), (if c = true then { e' with pbegincodehash := p } else e').frame = e'.frame := by
          intro c p; cases c <;> rfl
        rw [hite, hf]
      · rfl

/-- `exec` leaves the position, the remaining script, the history and the step counter untouched:
    only stack, alt stack, conditional state and the bookkeeping the operations themselves change can differ -/
theorem C16_position_untouched (cx : Ctx) (e e' : IEnv) (args : List Bytes) (err : Option StepErr)
    (h : instEval cx e args = some (e', err)) :
    e'.pc = e.pc ∧ e'.see.script = e.see.script ∧ e'.history = e.history ∧ e'.currOpSeq = e.currOpSeq ∧
    e'.done = e.done ∧ e'.successor = e.successor ∧ e'.see.flags = e.see.flags ∧ e'.see.sigversion = e.see.sigversion := by
  unfold instEval at h
  split at h
  · cases h
  · split at h
    · cases h
    · rename_i s hs
      simp only [Option.some.injEq, Prod.mk.injEq] at h
      obtain ⟨rfl, _⟩ := h
      have hf := evalRun_frame cx e.pc (s.length + 1) e.see s
      simp only [SEE.frame, Prod.mk.injEq] at hf
      exact ⟨rfl, hf.1, rfl, rfl, rfl, rfl, hf.2.1, hf.2.2.1⟩

/-- each operation `exec` applies is one `StepScript` of the model, hence (C01, `step_refines`) exactly
    the specification's execution of that instruction under the same flags and signature version:
    the first operation of an `exec` -/
theorem C16_first_op (cx : Ctx) (cfg : Spec.Cfg) (e : IEnv) (st : Spec.St) (s : Bytes) (i : Spec.Instr) (after : Bytes)
    (hc : CfgRel cx e.see cfg) (hrel : Rel e.see st)
    (hw : e.see.sigversion = .TAPSCRIPT → e.see.execdata.weightInit = true)
    (hdec : Spec.decodeOne s = some (i, after)) :
    RelStep (step cx e.see s) (Spec.execInstr cfg i after e.see.opcodePos st) after :=
  step_refines cx cfg e.see st s i after hc hrel hw hdec

/-- an argument list that contains an unknown word is refused before anything is executed -/
theorem C16_refused (cx : Ctx) (e : IEnv) (args : List Bytes) (h : evalScriptOf args = none) :
    instEval cx e args = none := by
  unfold instEval; split <;> simp [h]

/-! ### opcode-name tokens: the escape `OP_xNN` (since /repo a4419d3 `exec` reads names with `ParseOpCode`) -/

/-- `exec`'s reading of the escape, for EVERY byte: the tokens `OP_xNN` and `xNN` (two hex digits of either case, values
    `h` and `l`) assemble to the one-byte script NN — the opcode byte itself, not a push — ff included -/
theorem C16_token_opx (a b : UInt8) (h l : Nat) (ha : hexDigitVal a = some h) (hb : hexDigitVal b = some l) :
    evalToken [79, 80, 95, 120, a, b] = some [UInt8.ofNat (h * 16 + l)] ∧
    evalToken [120, a, b] = some [UInt8.ofNat (h * 16 + l)] := by
  have hp1 : parseOpCode [79, 80, 95, 120, a, b] = some (h * 16 + l) := by
    simp [parseOpCode, ha, hb]
  have hp2 : parseOpCode [120, a, b] = some (h * 16 + l) := by
    simp [parseOpCode, ha, hb]
  have hn1 : cAtoi 64 [79, 80, 95, 120, a, b] = 0 := rfl
  have hn2 : cAtoi 64 [120, a, b] = 0 := rfl
  have hx1 : tryHex [79, 80, 95, 120, a, b] = none := rfl
  constructor
  · simp [evalToken, hn1, hp1, hx1]
  · simp [evalToken, hn2, hp2]

/-- `exec OP_xNN` (and `exec xNN`) executes opcode NN: it is one `StepScript` on the one-byte script NN in the session's
    environment (`C16_first_op` relates that step to the specification), for every byte NN -/
theorem C16_exec_opx (cx : Ctx) (e : IEnv) (a b : UInt8) (h l : Nat) (ha : hexDigitVal a = some h) (hb : hexDigitVal b = some l) :
    instEval cx e [[79, 80, 95, 120, a, b]] =
      some ({ e with see := (evalRun cx e.pc 2 e.see [UInt8.ofNat (h * 16 + l)]).1 },
            (evalRun cx e.pc 2 e.see [UInt8.ofNat (h * 16 + l)]).2) ∧
    instEval cx e [[120, a, b]] = instEval cx e [[79, 80, 95, 120, a, b]] := by
  obtain ⟨h1, h2⟩ := C16_token_opx a b h l ha hb
  have e1 : evalScriptOf [[79, 80, 95, 120, a, b]] = some [UInt8.ofNat (h * 16 + l)] := by
    simp [evalScriptOf, h1]
  have e2 : evalScriptOf [[120, a, b]] = some [UInt8.ofNat (h * 16 + l)] := by
    simp [evalScriptOf, h2]
  constructor
  · unfold instEval
    simp only [e1]
    rfl
  · unfold instEval
    simp only [e1, e2]
    rfl

/-- byte ff is no operation: executed (no enclosing false branch) within the operation limit, `StepScript` answers
    BAD_OPCODE, as for every undefined opcode -/
theorem step_xff (cx : Ctx) (e : SEE) (hexec : e.cond.allTrue = true)
    (hcount : e.nOpCount + 1 ≤ Gen.MAX_OPS_PER_SCRIPT ∨ (e.sigversion ≠ .BASE ∧ e.sigversion ≠ .WITNESS_V0)) :
    step cx e [255] = fail .BAD_OPCODE := by
  have hg : getOp [255] = some { opcode := 255, data := [], rest := [] } := by decide
  have hop : Opcode.ofNat 255 = .UNKNOWN 255 := by decide
  have hco : ∃ e', countOp e 255 = .ok e' ∧ e'.cond = e.cond := by
    unfold countOp
    split
    · rcases hcount with hc | ⟨h1, h2⟩
      · have : ¬ (e.nOpCount + 1 > Gen.MAX_OPS_PER_SCRIPT) := by omega
        rw [if_pos (by decide), if_neg this]
        exact ⟨_, rfl, rfl⟩
      · rename_i hsv
        simp only [Bool.or_eq_true, beq_iff_eq] at hsv
        rcases hsv with h | h
        · exact absurd h h1
        · exact absurd h h2
    · exact ⟨_, rfl, rfl⟩
  obtain ⟨e', he', _⟩ := hco
  unfold step
  simp only [hg, hexec, he', hop]
  have hdis : isDisabledOpcode (Opcode.UNKNOWN 255) = false := rfl
  have hsep : (Opcode.UNKNOWN 255 == Opcode.OP_CODESEPARATOR) = false := rfl
  have hpush : decide (255 ≤ Op.OP_PUSHDATA4) = false := by decide
  have hsz : ¬ (([] : Bytes).length > Gen.MAX_SCRIPT_ELEMENT_SIZE) := by decide
  rw [if_neg hsz]
  simp only [bind, Except.bind, hdis, hsep, hpush, Bool.and_false, Bool.false_and, Bool.false_eq_true, if_false,
    Bool.true_or, if_true]
  rfl

/-- `exec OP_xff` / `exec xff` where operations are executed: the operation is attempted and fails with BAD_OPCODE (as
    `exec` of any undefined opcode does), nothing of the session changes — it is no longer refused as "invalid opcode"
    before execution (finding F-C07-opxff, repaired in /repo a4419d3) -/
theorem C16_exec_xff (cx : Ctx) (e : IEnv) (hexec : e.see.cond.allTrue = true)
    (hcount : e.see.nOpCount + 1 ≤ Gen.MAX_OPS_PER_SCRIPT ∨ (e.see.sigversion ≠ .BASE ∧ e.see.sigversion ≠ .WITNESS_V0)) :
    instEval cx e [[79, 80, 95, 120, 102, 102]] = some (e, some (.script .BAD_OPCODE)) ∧
    instEval cx e [[120, 102, 102]] = some (e, some (.script .BAD_OPCODE)) := by
  obtain ⟨h1, h2⟩ := C16_exec_opx cx e 102 102 15 15 rfl rfl
  have hs := step_xff cx e.see hexec hcount
  have hr : evalRun cx e.pc 2 e.see [UInt8.ofNat (15 * 16 + 15)] = (e.see, some (.script .BAD_OPCODE)) := by
    show evalRun cx e.pc 2 e.see [255] = _
    simp only [evalRun, hs, fail]
    rfl
  rw [h2, h1, hr]
  exact ⟨rfl, rfl⟩

/-- the escape and the name are the same token for `exec`: `OP_x76`, `x76`, `OP_DUP`, `DUP` all assemble to 76; `OP_xff`,
    `xff`, `OP_xFF` to ff; a malformed escape (`OP_xf`, `OP_xfff`) and the enumerator name `INVALIDOPCODE` are refused -/
example : evalToken [79, 80, 95, 120, 55, 54] = some [0x76] ∧ evalToken [120, 55, 54] = some [0x76] ∧
    evalToken [79, 80, 95, 68, 85, 80] = some [0x76] ∧ evalToken [68, 85, 80] = some [0x76] ∧
    evalToken [79, 80, 95, 120, 102, 102] = some [0xff] ∧ evalToken [120, 102, 102] = some [0xff] ∧
    evalToken [79, 80, 95, 120, 70, 70] = some [0xff] ∧
    evalToken [79, 80, 95, 120, 102] = none ∧ evalToken [79, 80, 95, 120, 102, 102, 102] = none ∧
    evalToken [73, 78, 86, 65, 76, 73, 68, 79, 80, 67, 79, 68, 69] = none := by decide +kernel

/-- the hypotheses of `C16_exec_xff` hold in an ordinary session state (here: the script `OP_1 OP_1` under no flags, nothing
    executed yet), and there `exec OP_xff` answers BAD_OPCODE and leaves the session as it was -/
example (cx : Ctx) :
    let e : IEnv := { see := { script := [0x51, 0x51], pbegincodehash := [0x51, 0x51], flags := 0, sigversion := .BASE, requireMinimal := false },
                      pc := [0x51, 0x51] }
    e.see.cond.allTrue = true ∧ e.see.nOpCount + 1 ≤ Gen.MAX_OPS_PER_SCRIPT ∧
    instEval cx e [[79, 80, 95, 120, 102, 102]] = some (e, some (.script .BAD_OPCODE)) := by
  intro e
  have h1 : e.see.cond.allTrue = true := rfl
  have h2 : e.see.nOpCount + 1 ≤ Gen.MAX_OPS_PER_SCRIPT := by decide
  exact ⟨h1, h2, (C16_exec_xff cx e h1 (Or.inl h2)).1⟩

end Btcdeb.Proofs.C16
