import Btcdeb
namespace Btcdeb.Proofs.C16
end Btcdeb.Proofs.C16
