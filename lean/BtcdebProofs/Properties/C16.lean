/-
  C16 — exec applies operations exactly as the script would.
-/
import Btcdeb
import BtcdebProofs.Refine.Step
import BtcdebProofs.Lemmas.Frame
namespace Btcdeb.Proofs.C16
open Btcdeb Btcdeb.Model Btcdeb.Refine

/-- running operations with `exec` never touches the script, the flags, the signature version or the
    opcode position of the environment -/
theorem evalRun_frame (cx : Ctx) (mainPc : Bytes) : ∀ (n : Nat) (e : SEE) (it : Bytes),
    (evalRun cx mainPc n e it).1.frame = e.frame := by
  intro n
  induction n with
  | zero => intro e it; rfl
  | succ n ih =>
    intro e it
    simp only [evalRun]
    split
    · rfl
    · split
      · rename_i e' it' hs
        have hf := step_frame cx e e' it it' hs
        rw [ih]
        have hite : ∀ (c : Bool) (p : Bytes), (if c = true then { e' with pbegincodehash := p } else e').frame = e'.frame := by
          intro c p; cases c <;> rfl
        rw [hite, hf]
      · rfl

/-- `exec` leaves the position, the remaining script, the history and the step counter untouched:
    only stack, alt stack, conditional state and the bookkeeping the operations themselves change can differ -/
theorem C16_position_untouched (cx : Ctx) (e e' : IEnv) (args : List Bytes) (err : Option StepErr)
    (h : instEval cx e args = some (e', err)) :
    e'.pc = e.pc ∧ e'.see.script = e.see.script ∧ e'.history = e.history ∧ e'.currOpSeq = e.currOpSeq ∧
    e'.done = e.done ∧ e'.successor = e.successor ∧ e'.see.flags = e.see.flags ∧ e'.see.sigversion = e.see.sigversion := by
  unfold instEval at h
  split at h
  · cases h
  · split at h
    · cases h
    · rename_i s hs
      simp only [Option.some.injEq, Prod.mk.injEq] at h
      obtain ⟨rfl, _⟩ := h
      have hf := evalRun_frame cx e.pc (s.length + 1) e.see s
      simp only [SEE.frame, Prod.mk.injEq] at hf
      exact ⟨rfl, hf.1, rfl, rfl, rfl, rfl, hf.2.1, hf.2.2.1⟩

/-- each operation `exec` applies is one `StepScript` of the model, hence (C01, `step_refines`) exactly
    the specification's execution of that instruction under the same flags and signature version:
    the first operation of an `exec` -/
theorem C16_first_op (cx : Ctx) (cfg : Spec.Cfg) (e : IEnv) (st : Spec.St) (s : Bytes) (i : Spec.Instr) (after : Bytes)
    (hc : CfgRel cx e.see cfg) (hrel : Rel e.see st)
    (hw : e.see.sigversion = .TAPSCRIPT → e.see.execdata.weightInit = true)
    (hdec : Spec.decodeOne s = some (i, after)) :
    RelStep (step cx e.see s) (Spec.execInstr cfg i after e.see.opcodePos st) after :=
  step_refines cx cfg e.see st s i after hc hrel hw hdec

/-- an argument list that contains an unknown word is refused before anything is executed -/
theorem C16_refused (cx : Ctx) (e : IEnv) (args : List Bytes) (h : evalScriptOf args = none) :
    instEval cx e args = none := by
  unfold instEval; split <;> simp [h]

end Btcdeb.Proofs.C16
