/-
  C04 — rewind exactly undoes steps.
  Property theorems only.  For every script, signature checker and history over {step, rewind} in which
  no step fails (unbounded length), the state reached is EXACTLY — as a whole record: stack, alt stack,
  condition stack, code-separator position and script code start, execution data (signature budget),
  operation count, opcode position, position, sequence number, done flag, the history vectors
  themselves — the state of a fresh session advanced by the net number of accepted steps.
-/
import Btcdeb
import BtcdebProofs.Lemmas.Session
namespace Btcdeb.Proofs.C04
open Btcdeb Btcdeb.Model

inductive Cmd where
  | step | rewind
deriving Repr, DecidableEq

/-- one debugger command (`fn_step` / `fn_rewind`): new state and change of the net step count;
    `none` = the step failed (such histories are outside the property) -/
def execCmd (cx : Ctx) (tc : TapCtx) (e : IEnv) : Cmd → Option (IEnv × Int)
  | .step =>
    if e.done then some (e, 0)                    -- "at end of script": refused, nothing changes
    else match stepSession cx tc e with
      | .ok e' => some (e', 1)
      | .error _ => none
  | .rewind =>
    match instRewind e with
    | some e' => some (e', -1)
    | none => some (e, 0)                         -- refused, nothing changes

def execHist (cx : Ctx) (tc : TapCtx) : List Cmd → IEnv × Int → Option (IEnv × Int)
  | [], s => some s
  | c :: cs, (e, n) =>
    match execCmd cx tc e c with
    | some (e', d) => execHist cx tc cs (e', n + d)
    | none => none

/-- a fresh session advanced by `k` steps, all of which succeed -/
def advance (cx : Ctx) (tc : TapCtx) (e0 : IEnv) : Nat → Option IEnv
  | 0 => some e0
  | k + 1 => match advance cx tc e0 k with
    | some e => if e.done then none else
        match stepSession cx tc e with
        | .ok e' => some e'
        | .error _ => none
    | none => none

/-- a rewind that cannot be performed is refused and changes nothing -/
theorem rewind_refused_id (cx : Ctx) (tc : TapCtx) (e : IEnv) (h : instRewind e = none) :
    execCmd cx tc e .rewind = some (e, 0) := by
  simp [execCmd, h]

/-- every state reachable from a fresh session by `k` successful steps satisfies the session invariant,
    and a rewind issued there is refused exactly when the position is at the start of the current
    script, and otherwise returns exactly the state after `k - 1` steps -/
theorem rewind_reachable (cx : Ctx) (tc : TapCtx) (e0 : IEnv) (hinv : e0.Inv) (hstart : atStart e0 = true) :
    ∀ k e, advance cx tc e0 k = some e →
      e.Inv ∧
      ((atStart e = true ∧ instRewind e = none) ∨
       (∃ j ep, k = j + 1 ∧ advance cx tc e0 j = some ep ∧ instRewind e = some ep)) := by
  intro k
  induction k with
  | zero =>
    intro e h
    simp [advance] at h; subst h
    exact ⟨hinv, Or.inl ⟨hstart, instRewind_of_atStart hstart⟩⟩
  | succ k ih =>
    intro e h
    simp only [advance] at h
    cases hk : advance cx tc e0 k with
    | none => simp [hk] at h
    | some ep =>
      simp only [hk] at h
      by_cases hd : ep.done = true
      · simp [hd] at h
      · simp only [hd, Bool.false_eq_true, if_false] at h
        cases hs : stepSession cx tc ep with
        | error x => simp [hs] at h
        | ok e' =>
          simp [hs] at h; subst h
          have := stepSession_rewind cx tc ep e' (ih ep hk).1 (by simpa using hd) hs
          refine ⟨this.1, ?_⟩
          rcases this.2 with h1 | h2
          · exact Or.inl h1
          · exact Or.inr ⟨k, ep, rfl, hk, h2⟩

/-- an accepted rewind happens exactly when at least one operation of the current script phase has
    been executed and not yet undone (so the main theorem cannot be satisfied by refusing everything) -/
theorem rewind_accepted_iff (cx : Ctx) (tc : TapCtx) (e0 : IEnv) (hinv : e0.Inv) (hstart : atStart e0 = true)
    (k : Nat) (e : IEnv) (h : advance cx tc e0 k = some e) :
    (instRewind e).isSome = true ↔ atStart e = false := by
  rcases (rewind_reachable cx tc e0 hinv hstart k e h).2 with ⟨h1, h2⟩ | ⟨j, ep, _, _, h3⟩
  · simp [h1, h2]
  · simp only [h3, Option.isSome_some, true_iff]
    cases hat : atStart e
    · rfl
    · rw [instRewind_of_atStart hat] at h3; cases h3

/-- MAIN THEOREM.  For every history in which no step fails, the state reached equals the state of a
    fresh session advanced by the net number of accepted steps (and that number is never negative). -/
theorem C04_rewind_exact (cx : Ctx) (tc : TapCtx) (e0 : IEnv) (hinv : e0.Inv) (hstart : atStart e0 = true)
    (cmds : List Cmd) (e : IEnv) (n : Int) (h : execHist cx tc cmds (e0, 0) = some (e, n)) :
    0 ≤ n ∧ advance cx tc e0 n.toNat = some e := by
  -- generalise to an arbitrary reachable starting point of the fold
  suffices H : ∀ (cmds : List Cmd) (e1 : IEnv) (n1 : Int), 0 ≤ n1 → advance cx tc e0 n1.toNat = some e1 →
      ∀ e n, execHist cx tc cmds (e1, n1) = some (e, n) → 0 ≤ n ∧ advance cx tc e0 n.toNat = some e by
    exact H cmds e0 0 (by omega) (by simp [advance]) e n h
  intro cmds
  induction cmds with
  | nil =>
    intro e1 n1 h0 ha e n hh
    simp [execHist] at hh
    obtain ⟨rfl, rfl⟩ := hh
    exact ⟨h0, ha⟩
  | cons c cs ih =>
    intro e1 n1 h0 ha e n hh
    simp only [execHist] at hh
    cases c with
    | step =>
      simp only [execCmd] at hh
      by_cases hd : e1.done = true
      · simp only [hd, if_true] at hh
        exact ih e1 (n1 + 0) (by omega) (by simpa using ha) e n hh
      · simp only [hd, Bool.false_eq_true, if_false] at hh
        cases hs : stepSession cx tc e1 with
        | error x => simp [hs] at hh
        | ok e' =>
          simp only [hs] at hh
          refine ih e' (n1 + 1) (by omega) ?_ e n hh
          have : (n1 + 1).toNat = n1.toNat + 1 := by omega
          rw [this]
          simp [advance, ha, hd, hs]
    | rewind =>
      simp only [execCmd] at hh
      cases hr : instRewind e1 with
      | none =>
        simp only [hr] at hh
        exact ih e1 (n1 + 0) (by omega) (by simpa using ha) e n hh
      | some e' =>
        simp only [hr] at hh
        rcases (rewind_reachable cx tc e0 hinv hstart n1.toNat e1 ha).2 with ⟨_, h2⟩ | ⟨j, ep, hj, hadv, h3⟩
        · rw [h2] at hr; cases hr
        · have hep : ep = e' := by rw [h3] at hr; exact Option.some.inj hr
          subst hep
          refine ih ep (n1 + -1) (by omega) ?_ e n hh
          have : (n1 + -1).toNat = j := by omega
          rw [this]; exact hadv

/-- hence every observable of the session — and the outcome of continuing to the end — equal those of
    the fresh session advanced by the net number of steps -/
theorem C04_continue_equal (cx : Ctx) (tc : TapCtx) (e0 : IEnv) (hinv : e0.Inv) (hstart : atStart e0 = true)
    (cmds : List Cmd) (e : IEnv) (n : Int) (h : execHist cx tc cmds (e0, 0) = some (e, n)) (fuel : Nat) :
    ∃ e', advance cx tc e0 n.toNat = some e' ∧ continueScript cx tc fuel e = continueScript cx tc fuel e' := by
  obtain ⟨_, ha⟩ := C04_rewind_exact cx tc e0 hinv hstart cmds e n h
  exact ⟨e, ha, rfl⟩

/-- sessions produced by `setup_environment` start at the beginning of their script and satisfy the invariant -/
theorem setup_starts_fresh (stack : List Bytes) (script : Bytes) (flags : Nat) (sv : SigVersion) (succ : Bytes)
    (z : Bool) (ed : ExecData) (tce : Option Tce) (pm : List (Bytes × Bytes)) (pk : List Bytes) (e0 : IEnv)
    (h : setupEnvironment stack script flags sv succ z ed tce pm pk = .ok e0) :
    e0.Inv ∧ atStart e0 = true := by
  unfold setupEnvironment IEnv.init at h
  split at h
  · cases h
  · rename_i e hinit
    split at hinit
    · cases hinit
    · cases hinit
      split at h
      · cases h
      · split at h
        · cases h
        · cases h
          exact ⟨⟨by simp, fun _ => by simp [atStart]⟩, by simp [atStart]⟩

def exCx : Ctx :=
  { sha256 := id, ripemd160 := id, sha1 := id, checkLowS := fun _ => true, checkLockTime := fun _ => false,
    checkSequence := fun _ => false, checkECDSA := fun _ _ _ _ => false, checkSchnorr := fun _ _ _ _ => .ok () }
def exTc : TapCtx := { taggedHash := fun _ b => b, checkTapTweak := fun _ _ _ _ => false }

/-- the example session `[OP_1 OP_IF OP_2 OP_ENDIF]` and what a history leaves: (net, conditional depth, stack) -/
def exRun (cmds : List Cmd) : Option (Int × Nat × List Bytes) :=
  match setupEnvironment [] [0x51, 0x63, 0x52, 0x68] 0 .BASE [] false {} none [] [] with
  | .ok e0 => (execHist exCx exTc cmds (e0, 0)).map (fun r => (r.2, r.1.see.cond.size, r.1.see.stack))
  | .error _ => none

/-- non-vacuity: step·step·rewind ends in the state after one step, with the conditional closed again
    (the configuration that went wrong before the fix), and the hypotheses of the main theorem are met -/
example : exRun [.step, .step, .rewind] = some (1, 0, [[1]]) ∧ exRun [.step, .step] = some (2, 1, []) ∧
    exRun [.step, .step, .step, .step, .step, .rewind, .rewind] = some (3, 1, [[2]]) := by
  decide +kernel

end Btcdeb.Proofs.C04
