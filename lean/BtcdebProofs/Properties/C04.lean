import Btcdeb
namespace Btcdeb.Proofs.C04
end Btcdeb.Proofs.C04
