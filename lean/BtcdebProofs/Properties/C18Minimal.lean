/-
  C18 (continued) — the C++ minimal-encoding test characterised declaratively:
  `minimalOk b` holds exactly when `b` is the unique shortest byte string with its value
  (`Spec.Minimal`).  Property theorems only; everything is over arbitrary byte strings.
-/
import BtcdebProofs.Properties.C18
namespace Btcdeb.Proofs.C18
open Btcdeb Btcdeb.Model

/-- magnitude of the decoded value of a string split at its last byte -/
private theorem natAbs_setVch_snoc (ys : Bytes) (a : UInt8) :
    (setVch (ys ++ [a])).natAbs = leValue ys + 256 ^ ys.length * lo7 a := by
  rw [decode_spec, numValue_snoc]
  split
  · rw [Int.natAbs_neg, Int.natAbs_natCast]
  · rw [Int.natAbs_natCast]

/-- the magnitude of an (n+1)-byte string is below 2^(8n+7) -/
private theorem natAbs_setVch_snoc_lt (ys : Bytes) (a : UInt8) :
    (setVch (ys ++ [a])).natAbs < 128 * 256 ^ ys.length := by
  rw [natAbs_setVch_snoc]
  have hL := leValue_lt ys
  have h7 : lo7 a ≤ 127 := by unfold lo7; omega
  have h3 : 256 ^ ys.length * lo7 a ≤ 256 ^ ys.length * 127 := Nat.mul_le_mul_left _ h7
  omega

/-- a string the minimality test rejects re-encodes to a strictly shorter string -/
private theorem reencode_lt_of_not_minimal (b : Bytes) (h : minimalOk b = false) :
    (serialize (setVch b)).length < b.length := by
  by_cases hb : b = []
  · subst hb; simp [minimalOk] at h
  obtain ⟨ys, a, rfl⟩ := exists_snoc_of_ne_nil b hb
  rw [minimalOk_snoc] at h
  by_cases hl : lo7 a = 0
  · simp only [hl, beq_self_eq_true, if_true] at h
    have habs := natAbs_setVch_snoc ys a
    rw [hl, Nat.mul_zero, Nat.add_zero] at habs
    by_cases hy : ys = []
    · subst hy
      have h0 : setVch ([] ++ [a]) = 0 := by
        have : (setVch ([] ++ [a])).natAbs = 0 := by rw [habs]; rfl
        omega
      rw [h0]; simp [serialize]
    · obtain ⟨zs, p, rfl⟩ := exists_snoc_of_ne_nil ys hy
      simp only [getLast?_snoc] at h
      have hp := (hi_false_iff p).mp h
      have hL := leValue_lt zs
      have hlt : (setVch (zs ++ [p] ++ [a])).natAbs < 128 * 256 ^ (zs.length + 1 - 1) := by
        rw [habs, leValue_snoc, Nat.add_sub_cancel]
        have h3 : 256 ^ zs.length * p.toNat ≤ 256 ^ zs.length * 127 := Nat.mul_le_mul_left _ (by omega)
        omega
      have := (encode_length_le_iff _ (zs.length + 1) (by omega)).mpr hlt
      simp only [List.length_append, List.length_cons, List.length_nil]
      omega
  · have : (lo7 a == 0) = false := by simpa using hl
    rw [this] at h; simp at h

/-- re-encoding the value of ANY byte string never gives a longer string, and gives a string of the
    same length only if it is that string -/
theorem reencode_le (b : Bytes) :
    (serialize (setVch b)).length ≤ b.length ∧
      ((serialize (setVch b)).length = b.length → serialize (setVch b) = b) := by
  by_cases hm : minimalOk b = true
  · rw [encode_decode b hm]; exact ⟨Nat.le_refl _, fun _ => rfl⟩
  · have hm' : minimalOk b = false := by simpa using hm
    have := reencode_lt_of_not_minimal b hm'
    exact ⟨by omega, fun h => by omega⟩

/-- two strings accepted by the minimality test with the same value are equal -/
theorem minimal_unique (a b : Bytes) (ha : minimalOk a = true) (hb : minimalOk b = true)
    (h : setVch a = setVch b) : a = b := by
  rw [← encode_decode a ha, ← encode_decode b hb, h]

/-- the C++ minimality test accepts exactly the strings that are the unique shortest encoding of
    their value -/
theorem minimal_iff (b : Bytes) : minimalOk b = true ↔ Spec.Minimal b := by
  constructor
  · intro hm b' hv hne
    have hv' : setVch b' = setVch b := by rw [decode_spec, decode_spec, hv]
    have hb : serialize (setVch b') = b := by rw [hv', encode_decode b hm]
    obtain ⟨hle, heq⟩ := reencode_le b'
    rw [hb] at hle heq
    have : b.length ≠ b'.length := fun h => hne (heq h).symm
    omega
  · intro hmin
    by_cases hm : minimalOk b = true
    · exact hm
    · have hm' : minimalOk b = false := by simpa using hm
      exfalso
      have hlt := reencode_lt_of_not_minimal b hm'
      have hne : serialize (setVch b) ≠ b := by
        intro h; rw [h] at hlt; omega
      have hv : Spec.numValue (serialize (setVch b)) = Spec.numValue b := by
        rw [← decode_spec, ← decode_spec, decode_encode]
      have := hmin _ hv hne
      omega

/-- consequently the specification's `minimalNum` (re-encoding gives the string back), the C++ test and
    the declarative `Spec.Minimal` all coincide -/
theorem minimalNum_iff (b : Bytes) : Spec.minimalNum b = true ↔ Spec.Minimal b := by
  rw [← minimal_iff]
  unfold Spec.minimalNum
  rw [← decode_spec]
  constructor
  · intro h
    have h' : serialize (setVch b) = b := by simpa using h
    rw [← h']; exact encode_minimal _
  · intro h; simp [encode_decode b h]

end Btcdeb.Proofs.C18
