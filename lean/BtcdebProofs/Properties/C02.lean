/-
  C02 — signature opcodes accept exactly the signatures valid for the BIP-defined digest.

  How the pieces compose
  ----------------------
  * `Spec.txOracle p tx nIn amount spent sv annex leaf` is the specification's signature oracle for one input of a
    transaction: ECDSA over the original / BIP143 digest, BIP340 over the BIP341/342 digest, BIP65, BIP112
    (Spec/TxOracle.lean, Spec/Sighash.lean).
  * `oracleCtx o` presents an oracle as a checker (`Ctx`); `cfgRel_oracle` : `CfgRel (oracleCtx cfg.oracle) e cfg`
    holds outright, so C01 (`C01_trace`, `execOpcode_refines`) applies to a session that uses the oracle itself.
  * `sameOn_tx` : the transaction checker of the model (`txCheckerWith`, the model of
    `GenericTransactionSignatureChecker`) and `oracleCtx (txOracle ..)` agree on every query a session makes
    (Properties/Sighash.lean), and `runOps_congr` / `execOpcode_congr` (Lemmas/SigOps.lean): a session depends on its
    checker only through those queries.  The full equality `CfgRel (txCheckerWith ..) e cfg` does NOT hold, for three
    reasons, each a hypothesis below:
      - ECDSA, legacy digest, script code that does not decode: Core's serializer writes a short tail
        (`legacySighash_eq_spec_partial`).  Sessions only see scripts that passed `HasValidOps`, whose script codes
        decode, also after FindAndDelete (`decode_findAndDelete`) and after OP_CODESEPARATOR.
      - Schnorr with arbitrary execution data / key size: the C++ asserts.  Sessions only ask with 32-byte keys and
        the execution data they were set up with (up to budget and code-separator position).
      - `CheckSequence` on negative operands (two's complement vs. BIP112 on naturals): OP_CHECKSEQUENCEVERIFY
        refuses negative operands first.
  * `C02_trace` = `C01_trace` ∘ `runOps_congr`; `C02_opcode` = `execOpcode_refines` ∘ `execOpcode_congr`.
  * The opcode-level statements are theorems about `Spec.checkSig` / `Spec.execOp` / `Spec.execMultisig` with
    `cfg.oracle = Spec.txOracle ..`; `C02_opcode` carries each of them over to the model.
-/
import Btcdeb
import BtcdebProofs.Lemmas.SigOps
import BtcdebProofs.Properties.C01
import BtcdebProofs.Properties.Sighash
namespace Btcdeb.Proofs.C02
open Btcdeb Btcdeb.Model Btcdeb.Refine Btcdeb.Proofs.Sighash Btcdeb.Proofs.SigOps

set_option linter.unusedSimpArgs false
set_option linter.unusedVariables false

/-! ## 1. the oracle as a checker -/

/-- the specification's oracle presented as a checker -/
def oracleCtx (o : Spec.SigOracle) : Ctx where
  sha256 := o.sha256
  ripemd160 := o.ripemd160
  sha1 := o.sha1
  checkLowS := o.checkLowS
  checkLockTime := o.checkLockTime
  checkSequence := o.checkSequence
  checkECDSA := o.ecdsa
  checkSchnorr := fun sig key sv ed =>
    match o.schnorr sig key sv ed.codesepPos with
    | .ok () => .ok ()
    | .error x => .error (.script x)

/-- the part of `CfgRel` that does not concern the checker: flags, signature version, `--allow-disabled-opcodes`,
    MINIMALDATA, and the mock-signature tables (C11) -/
structure CfgFrame (e : SEE) (cfg : Spec.Cfg) : Prop where
  flags : cfg.flags = e.flags
  sv : cfg.sigversion = e.sigversion
  z : cfg.allowDisabled = e.allowDisabled
  rm : e.requireMinimal = hasFlag e.flags Flag.MINIMALDATA
  pretendKeys : ∀ key, e.pretendKeys.contains key = Spec.keyListed cfg key
  pretendPair : ∀ sig key, e.pretendKeys.contains key = true →
    pretendHas e.pretendMap sig key = Spec.pairListed cfg sig key

/-- a session whose checker is the specification's oracle is in the configuration relation of C01 -/
theorem cfgRel_oracle (e : SEE) (cfg : Spec.Cfg) (hf : CfgFrame e cfg) : CfgRel (oracleCtx cfg.oracle) e cfg where
  flags := hf.flags
  sv := hf.sv
  z := hf.z
  rm := hf.rm
  sha256 := rfl
  ripemd160 := rfl
  sha1 := rfl
  checkLowS := rfl
  checkLockTime := rfl
  checkSequence := rfl
  ecdsa := rfl
  schnorr := by
    intro sig key sv ed
    simp only [oracleCtx]
    cases h : cfg.oracle.schnorr sig key sv ed.codesepPos with
    | ok u => cases u; simp [RelUnit]
    | error x => simp [RelUnit, errAbs, isAbnormal]
  pretendKeys := hf.pretendKeys
  pretendPair := hf.pretendPair

/-! ## 2. the transaction checker agrees with the BIP oracle on every query of a session -/

/-- the primitives of the specification are those the model's checker is built from -/
structure PrimsMatch (p : Spec.Prims) (cr : SigCrypto) (base : Ctx) : Prop where
  sha256 : p.sha256 = cr.sha256
  sha256Op : p.sha256 = base.sha256
  ripemd160 : p.ripemd160 = base.ripemd160
  sha1 : p.sha1 = base.sha1
  ecdsaVerify : p.ecdsaVerify = cr.ecdsaVerify
  schnorrVerify : p.schnorrVerify = cr.schnorrVerify
  checkLowS : p.checkLowS = base.checkLowS

/-- the primitives read off a crypto instance and a base checker -/
def primsOf (cr : SigCrypto) (base : Ctx) (tap : Spec.TapOracle) : Spec.Prims where
  sha256 := cr.sha256
  ripemd160 := base.ripemd160
  sha1 := base.sha1
  ecdsaVerify := cr.ecdsaVerify
  schnorrVerify := cr.schnorrVerify
  checkLowS := base.checkLowS
  tap := tap

theorem primsMatch_primsOf (cr : SigCrypto) (base : Ctx) (tap : Spec.TapOracle) (h : base.sha256 = cr.sha256) :
    PrimsMatch (primsOf cr base tap) cr base :=
  ⟨rfl, h.symm, rfl, rfl, rfl, rfl, rfl⟩

/-- what a tapscript session needs: the BIP341 data of the checker are ready, the leaf hash is known, and the execution
    data the session starts with describe the annex and the leaf (`SchnorrPre`) -/
structure TapReady (cr : SigCrypto) (tx : Tx) (nIn : Nat) (txdata : PrecomputedTxData) (annex leaf : Option Bytes)
    (ed0 : ExecData) : Prop where
  ready341 : txdata.bip341TaprootReady = true
  readySpent : txdata.spentOutputsReady = true
  pre : ∃ l, leaf = some l ∧ SchnorrPre cr ed0 tx nIn annex (some ⟨l, ed0.codesepPos⟩) .TAPSCRIPT

/-- `SchnorrPre` only reads the static part of the execution data and the code-separator position -/
theorem schnorrPre_of_static {cr : SigCrypto} {ed0 ed : ExecData} {tx : Tx} {nIn : Nat} {annex : Option Bytes} {l : Bytes}
    (h0 : SchnorrPre cr ed0 tx nIn annex (some ⟨l, ed0.codesepPos⟩) .TAPSCRIPT) (hs : edStatic ed = edStatic ed0) :
    SchnorrPre cr ed tx nIn annex (some ⟨l, ed.codesepPos⟩) .TAPSCRIPT := by
  simp only [edStatic, Prod.mk.injEq] at hs
  obtain ⟨s1, s2, s3, s4, s5, s6, s7, s8⟩ := hs
  obtain ⟨a1, a2, a3, a4, a5⟩ := h0
  simp only at a4
  exact ⟨by rw [s4]; exact a1, by rw [s5]; exact a2, by rw [s6]; exact a3,
    ⟨rfl, by rw [s1]; exact a4.2.1, by rw [s2]; exact a4.2.2.1, by rw [s3]; exact a4.2.2.2.1, rfl⟩,
    by rw [s8]; exact a5⟩

private theorem txc_lock (cr : SigCrypto) (base : Ctx) (tx : Tx) (nIn : Nat) (amount : Int) (txdata : PrecomputedTxData) :
    (txCheckerWith cr base tx nIn amount txdata).checkLockTime = checkLockTimeTx tx nIn := by
  simp only [txCheckerWith]

private theorem txc_seq (cr : SigCrypto) (base : Ctx) (tx : Tx) (nIn : Nat) (amount : Int) (txdata : PrecomputedTxData) :
    (txCheckerWith cr base tx nIn amount txdata).checkSequence = checkSequenceTx tx nIn := by
  simp only [txCheckerWith]

/-- **The model's transaction checker and the BIP oracle agree on every query of a session.**
    `txCheckerWith cr base tx nIn amount txdata` is the model of `TransactionSignatureChecker(tx, nIn, amount, txdata, FAIL)`;
    `Spec.txOracle` is built from the original digest / BIP143 / BIP341+342, ECDSA / BIP340 verification, BIP65, BIP112.
    Needs: the input exists, the cache is coherent with the transaction (true for `PrecomputedTransactionData()` and for
    the result of `Init`), and for tapscript `TapReady`. -/
theorem sameOn_tx (cr : SigCrypto) (base : Ctx) (p : Spec.Prims) (hp : PrimsMatch p cr base)
    (tx : Tx) (nIn : Nat) (amount : Int) (txdata : PrecomputedTxData) (sv : SigVersion) (annex leaf : Option Bytes)
    (ed0 : ExecData) (hin : nIn < tx.vin.length) (hcoh : Coherent cr tx txdata)
    (htap : sv = .TAPSCRIPT → TapReady cr tx nIn txdata annex leaf ed0) :
    SameOn (txCheckerWith cr base tx nIn amount txdata)
      (oracleCtx (Spec.txOracle p tx nIn amount txdata.spentOutputs sv annex leaf)) sv (edStatic ed0) := by
  refine ⟨?_, ?_, ?_, ?_, ?_, ?_, ?_, ?_⟩
  · rw [(txChecker_base_fields cr base tx nIn amount txdata).1]; exact hp.sha256Op.symm
  · rw [(txChecker_base_fields cr base tx nIn amount txdata).2.1]; exact hp.ripemd160.symm
  · rw [(txChecker_base_fields cr base tx nIn amount txdata).2.2.1]; exact hp.sha1.symm
  · rw [(txChecker_base_fields cr base tx nIn amount txdata).2.2.2]; exact hp.checkLowS.symm
  · rw [txc_lock]
    simp only [oracleCtx, Spec.txOracle]
    funext n
    exact checkLockTime_eq_spec tx nIn n hin
  · intro n hn
    rw [txc_seq]
    simp only [oracleCtx, Spec.txOracle]
    have : n = ((n.toNat : Nat) : Int) := by omega
    rw [this, checkSequence_eq_spec tx nIn n.toNat hin, ← this]
  · intro sig key code hc
    rw [txChecker_checkECDSA cr base tx nIn amount txdata sig key code sv hin hcoh]
    · simp only [oracleCtx, Spec.txOracle]
      rw [hp.sha256, hp.ecdsaVerify]
    · intro hne
      rcases hc with ⟨_, hd⟩ | hw
      · exact hd
      · exact absurd hw hne
  · intro sig key ed hsv hk hs
    obtain ⟨h1, h2, l, hl, hpre⟩ := htap hsv
    subst hsv
    rw [txChecker_checkSchnorr cr base tx nIn amount txdata sig key .TAPSCRIPT ed annex (some ⟨l, ed.codesepPos⟩) hin hcoh h1 h2
      (schnorrPre_of_static hpre hs) hk]
    simp only [oracleCtx, Spec.txOracle, hl, beq_self_eq_true, if_true, Option.map_some, hp.sha256, hp.schnorrVerify]
    cases Spec.schnorrSigValid cr.sha256 cr.schnorrVerify tx nIn txdata.spentOutputs annex (some ⟨l, ed.codesepPos⟩) sig key <;> rfl

/-- Why C02 is not stated as `CfgRel (txCheckerWith ..) e cfg`: that relation asks for agreement on ALL queries, and the
    C++ checker asserts on queries no session makes (here: a Schnorr check under `SigVersion::BASE`), so the relation
    holds for NO environment and NO configuration.  `SameOn` is the relation restricted to the queries sessions make. -/
theorem no_cfgRel_tx (cr : SigCrypto) (base : Ctx) (tx : Tx) (nIn : Nat) (amount : Int) (txdata : PrecomputedTxData)
    (e : SEE) (cfg : Spec.Cfg) : ¬ CfgRel (txCheckerWith cr base tx nIn amount txdata) e cfg := by
  intro h
  have h1 := h.schnorr [] [] .BASE {}
  have h2 : (txCheckerWith cr base tx nIn amount txdata).checkSchnorr [] [] .BASE {} =
      .error (.abnormal "assert(sigversion == TAPROOT || sigversion == TAPSCRIPT)") := by
    simp only [txCheckerWith]
    simp [checkSchnorrSignatureM]
  rw [h2] at h1
  cases hs : cfg.oracle.schnorr [] [] SigVersion.BASE ({} : ExecData).codesepPos with
  | ok u => rw [hs] at h1; cases u; simp [RelUnit] at h1
  | error y => rw [hs] at h1; simp [RelUnit, isAbnormal] at h1

/-- a second obstacle, on the lock-time side: `CheckSequence` works on the 64-bit two's complement of its operand while
    BIP112 is stated for the non-negative operands the opcode lets through; on -1 they differ -/
example :
    let tx : Tx := { version := 2, vin := [⟨⟨List.replicate 32 7, 0⟩, [], 0, []⟩], vout := [], lockTime := 0 }
    checkSequenceTx tx 0 (-1) = false ∧ Spec.bip112Satisfied tx 0 ((-1 : Int).toNat) = true := by decide

/-! ## 3. stepping a session whose checker is the transaction checker -/

/-- the configuration of the specification for one input of a transaction: the oracle is built from the BIP digests -/
def txCfg (p : Spec.Prims) (tx : Tx) (nIn : Nat) (amount : Int) (spent : List TxOut) (annex leaf : Option Bytes)
    (flags : Nat) (sv : SigVersion) (z : Bool) (pretend : List (Bytes × Bytes)) : Spec.Cfg :=
  { flags := flags, sigversion := sv, allowDisabled := z,
    oracle := Spec.txOracle p tx nIn amount spent sv annex leaf, pretend := pretend }

/-- every script that went through `Instance::parse_script` (`HasValidOps`) decodes -/
theorem decode_of_hasValidOps (s : Bytes) (h : hasValidOps s = true) : Spec.decode s ≠ none := by
  rw [C01.gate_is_domain] at h
  unfold Spec.inDomain at h
  intro hn
  rw [hn] at h
  cases h

/-- what `Instance::setup_environment` produces for a single script (as unfolded in `C01_trace`) -/
theorem setup_shape (stack : List Bytes) (script : Bytes) (flags : Nat) (sv : SigVersion) (z : Bool) (ed : ExecData)
    (pm : List (Bytes × Bytes)) (pk : List Bytes) (e0 : IEnv)
    (hsetup : setupEnvironment stack script flags sv [] z ed none pm pk = .ok e0) :
    e0.see = { script := script, pbegincodehash := script, stack := stack, flags := flags, sigversion := sv,
               requireMinimal := hasFlag flags Flag.MINIMALDATA, allowDisabled := z, execdata := ed,
               pretendMap := pm, pretendKeys := pk }
      ∧ e0.pc = script ∧ e0.tce = none ∧ (sv ≠ .TAPSCRIPT → script.length ≤ Gen.MAX_SCRIPT_SIZE) := by
  unfold setupEnvironment IEnv.init at hsetup
  split at hsetup
  · cases hsetup
  · rename_i e hinit
    split at hinit
    · cases hinit
    · rename_i hsz
      cases hinit
      simp only [List.isEmpty_nil, Bool.not_true, Bool.false_and, Bool.false_eq_true, if_false] at hsetup
      split at hsetup
      · cases hsetup
      · cases hsetup
        refine ⟨rfl, rfl, rfl, ?_⟩
        intro hne
        have : (sv != SigVersion.TAPSCRIPT) = true := by cases sv <;> simp_all
        simp only [this, Bool.true_and, decide_eq_true_eq] at hsz
        omega

/-- **C02, stepping.**  A session on one script whose checker is the transaction signature checker
    (`TransactionSignatureChecker(tx, nIn, amount, txdata, FAIL)`, what `Instance::setup_environment` installs) visits,
    operation by operation, exactly the states that Bitcoin's script rules prescribe when signatures are judged by the
    BIP oracle `Spec.txOracle` — ECDSA over the original digest (legacy) or the BIP143 digest (segwit v0) of the script
    code from the last executed OP_CODESEPARATOR with the signature pushes removed, BIP340 over the BIP341/342 digest
    with annex, leaf hash and code-separator position (tapscript), BIP65 and BIP112 for the lock-time opcodes — and
    stops with the same outcome: the same error at the same operation, never abnormally.

    Hypotheses: the script decodes (`decode_of_hasValidOps`: every script of a session does), the input exists, the
    cache is coherent (`coherent_default`, `precomputeInit_coherent`), the two mock-signature clauses of C11, and for
    tapscript the budget is initialised and `TapReady`.  The key-path context `SigVersion::TAPROOT` executes no script. -/
theorem C02_trace (cr : SigCrypto) (base : Ctx) (p : Spec.Prims) (hp : PrimsMatch p cr base)
    (tx : Tx) (nIn : Nat) (amount : Int) (txdata : PrecomputedTxData) (annex leaf : Option Bytes) (tc : TapCtx)
    (stack : List Bytes) (script : Bytes) (flags : Nat) (sv : SigVersion) (z : Bool) (ed : ExecData)
    (pm pretend : List (Bytes × Bytes)) (e0 : IEnv)
    (hsetup : setupEnvironment stack script flags sv [] z ed none pm (pm.map (·.2)) = .ok e0)
    (hdec : Spec.decode script ≠ none) (hin : nIn < tx.vin.length) (hcoh : Coherent cr tx txdata)
    (hsv : sv ≠ .TAPROOT)
    (htap : sv = .TAPSCRIPT → ed.weightInit = true ∧ TapReady cr tx nIn txdata annex leaf ed)
    (hpk : ∀ key, (pm.map (·.2)).contains key = pretend.any (fun q => q.2 == key))
    (hpp : ∀ sig key, (pm.map (·.2)).contains key = true →
      pretendHas pm sig key = pretend.contains (sig, key)) :
    RelRun (runOps (txCheckerWith cr base tx nIn amount txdata) tc script.length e0)
      (Spec.evalInstrs (txCfg p tx nIn amount txdata.spentOutputs annex leaf flags sv z pretend)
        (Spec.decodePrefix script.length script).1 0 (C01.initSt stack script ed))
      true := by
  obtain ⟨hsee, hpc, htce, hlen⟩ := setup_shape stack script flags sv z ed pm _ e0 hsetup
  let cfg := txCfg p tx nIn amount txdata.spentOutputs annex leaf flags sv z pretend
  have hframe : CfgFrame e0.see cfg := by
    rw [hsee]
    exact ⟨rfl, rfl, rfl, rfl, hpk, hpp⟩
  -- C01 for the session that uses the oracle itself
  have h1 := C01.C01_trace (oracleCtx cfg.oracle) tc cfg stack script flags sv z ed pm e0 hsetup
    (cfgRel_oracle e0.see cfg hframe) (fun h => (htap h).1)
  -- the two sessions coincide
  have hsame : SameOn (txCheckerWith cr base tx nIn amount txdata) (oracleCtx cfg.oracle) e0.see.sigversion (edStatic ed) := by
    rw [hsee]
    exact sameOn_tx cr base p hp tx nIn amount txdata sv annex leaf ed hin hcoh (fun h => (htap h).2)
  have hinv : RunInv e0 (edStatic ed) := by
    refine ⟨⟨by rw [hsee]; exact hsv, ?_, by rw [hsee]⟩, by rw [hpc]; exact parses_of_decode hdec, ?_⟩
    · rw [hsee]
      intro hb
      have hb' : sv = .BASE := hb
      have := hlen (by rw [hb']; decide)
      have h10k : Gen.MAX_SCRIPT_SIZE = 10000 := by decide
      exact ⟨hdec, by show script.length < _; omega⟩
    · rw [hsee, hpc]
      intro hb
      have hb' : sv = .BASE := hb
      have := hlen (by rw [hb']; decide)
      have h10k : Gen.MAX_SCRIPT_SIZE = 10000 := by decide
      omega
  rw [runOps_congr _ _ tc (edStatic ed) script.length e0 htce hsame hinv]
  have hcomplete : (Spec.decodePrefix script.length script).2 = true := by
    unfold Spec.decode Spec.decodeWithRest at hdec
    by_cases h2 : (Spec.decodePrefix script.length script).2 = true
    · exact h2
    · simp [h2] at hdec
  rw [hcomplete] at h1
  exact h1

/-! ## 4. one opcode -/

/-- **C02, one opcode.**  For every opcode: the `switch` of `StepScript` with the transaction checker refines the
    specification's `execOp` with the BIP oracle (same resulting state, or the same script error).  All opcode-level
    statements of section 5 (which are about `Spec.execOp` / `Spec.checkSig` / `Spec.execMultisig`) carry over to the
    model through this theorem. -/
theorem C02_opcode (cr : SigCrypto) (base : Ctx) (p : Spec.Prims) (hp : PrimsMatch p cr base)
    (tx : Tx) (nIn : Nat) (amount : Int) (txdata : PrecomputedTxData) (annex leaf : Option Bytes)
    (pretend : List (Bytes × Bytes)) (e : SEE) (st : Spec.St)
    (hin : nIn < tx.vin.length) (hcoh : Coherent cr tx txdata)
    (hsv : e.sigversion ≠ .TAPROOT)
    (hcode : e.sigversion = .BASE → Spec.decode e.pbegincodehash ≠ none ∧ e.pbegincodehash.length < 2 ^ 32)
    (htap : e.sigversion = .TAPSCRIPT → e.execdata.weightInit = true ∧ TapReady cr tx nIn txdata annex leaf e.execdata)
    (hframe : CfgFrame e (txCfg p tx nIn amount txdata.spentOutputs annex leaf e.flags e.sigversion e.allowDisabled pretend))
    (hrel : Rel e st) (op : Opcode) (fExec : Bool) (pc : Bytes) :
    RelOut (execOpcode (txCheckerWith cr base tx nIn amount txdata) e op fExec pc)
      (Spec.execOp (txCfg p tx nIn amount txdata.spentOutputs annex leaf e.flags e.sigversion e.allowDisabled pretend)
        op fExec pc e.opcodePos st) := by
  have hsame := sameOn_tx cr base p hp tx nIn amount txdata e.sigversion annex leaf e.execdata hin hcoh (fun h => (htap h).2)
  rw [execOpcode_congr hsame ⟨hsv, hcode, rfl⟩ op fExec pc]
  exact execOpcode_refines op _ _ e st fExec pc (cfgRel_oracle e _ hframe) hrel (fun h => (htap h).1)

/-! ## 5. what the signature opcodes decide (specification side, oracle = `Spec.txOracle`) -/

section SpecSide
open Spec

/-- the oracle of `txCfg`: ECDSA validity over the original / BIP143 digest -/
theorem txCfg_ecdsa (p : Prims) (tx : Tx) (nIn : Nat) (amount : Int) (spent : List TxOut) (annex leaf : Option Bytes)
    (flags : Nat) (sv : SigVersion) (z : Bool) (pretend : List (Bytes × Bytes)) (sig key code : Bytes) (sv' : SigVersion) :
    (txCfg p tx nIn amount spent annex leaf flags sv z pretend).oracle.ecdsa sig key code sv' =
      ecdsaSigValid p.sha256 p.ecdsaVerify tx nIn amount sig key code sv' := rfl

/-- the oracle of `txCfg` in a tapscript session with leaf hash `l`: BIP340 validity over the BIP341 digest extended (BIP342)
    with the leaf hash and the position of the last executed OP_CODESEPARATOR -/
theorem txCfg_schnorr (p : Prims) (tx : Tx) (nIn : Nat) (amount : Int) (spent : List TxOut) (annex : Option Bytes) (l : Bytes)
    (flags : Nat) (z : Bool) (pretend : List (Bytes × Bytes)) (sig key : Bytes) (csp : Nat) :
    (txCfg p tx nIn amount spent annex (some l) flags .TAPSCRIPT z pretend).oracle.schnorr sig key .TAPSCRIPT csp =
      schnorrSigValid p.sha256 p.schnorrVerify tx nIn spent annex (some ⟨l, csp⟩) sig key := rfl

-- the three opcodes in terms of one signature check ---------------------------------------------

theorem execOp_CHECKSIG (cfg : Cfg) (st : St) (key sig : Bytes) (s : List Bytes) (hst : st.stack = key :: sig :: s)
    (exec : Bool) (after : Bytes) (pos : Nat) :
    execOp cfg .OP_CHECKSIG exec after pos st =
      (checkSig cfg st sig key >>= fun r => checkSize { r.2 with stack := ofBool r.1 :: s }) := by
  unfold execOp
  simp [disabled, smallInt, isNopN, isUnary, isBinary, hst]

theorem execOp_CHECKSIGVERIFY (cfg : Cfg) (st : St) (key sig : Bytes) (s : List Bytes) (hst : st.stack = key :: sig :: s)
    (exec : Bool) (after : Bytes) (pos : Nat) :
    execOp cfg .OP_CHECKSIGVERIFY exec after pos st =
      (checkSig cfg st sig key >>= fun r => if r.1 then checkSize { r.2 with stack := s } else .error .CHECKSIGVERIFY) := by
  unfold execOp
  simp [disabled, smallInt, isNopN, isUnary, isBinary, hst]

/-- OP_CHECKSIGADD exists in tapscript only; it adds 1 to the number exactly when the signature check says `true` -/
theorem execOp_CHECKSIGADD (cfg : Cfg) (st : St) (key nb sig : Bytes) (s : List Bytes) (hst : st.stack = key :: nb :: sig :: s)
    (hsv : cfg.sigversion = .TAPSCRIPT) (exec : Bool) (after : Bytes) (pos : Nat) :
    execOp cfg .OP_CHECKSIGADD exec after pos st =
      (numOf (hasFlag cfg.flags Flag.MINIMALDATA) 4 nb >>= fun n =>
        checkSig cfg st sig key >>= fun r => checkSize { r.2 with stack := encodeNum (n + (if r.1 then 1 else 0)) :: s }) := by
  unfold execOp
  simp [disabled, smallInt, isNopN, isUnary, isBinary, hst, hsv]

theorem execOp_CHECKSIGADD_pretapscript (cfg : Cfg) (st : St) (hsv : cfg.sigversion = .BASE ∨ cfg.sigversion = .WITNESS_V0)
    (exec : Bool) (after : Bytes) (pos : Nat) :
    execOp cfg .OP_CHECKSIGADD exec after pos st = .error .BAD_OPCODE := by
  unfold execOp
  rcases hsv with h | h <;> simp [disabled, smallInt, isNopN, isUnary, isBinary, h]

-- legacy and segwit v0: ECDSA -------------------------------------------------------------------

/-- the script code that a legacy / segwit-v0 check of `sig` signs: the script from the last executed OP_CODESEPARATOR on
    (`codeFrom`), for legacy scripts with every push of `sig` removed (FindAndDelete) -/
def signedCode (cfg : Cfg) (st : St) (sig : Bytes) : Bytes :=
  if cfg.sigversion == .BASE then (Spec.findAndDelete st.codeFrom (pushOf sig)).1 else st.codeFrom

/-- legacy only: the signature occurs in the script code and CONST_SCRIPTCODE forbids removing it -/
def fadRefused (cfg : Cfg) (st : St) (sig : Bytes) : Bool :=
  cfg.sigversion == .BASE && decide ((Spec.findAndDelete st.codeFrom (pushOf sig)).2 > 0) && hasFlag cfg.flags Flag.CONST_SCRIPTCODE

/-- **The decision table of one legacy / segwit-v0 signature check**, in the order of the checks:
    FindAndDelete under CONST_SCRIPTCODE, signature encoding, key encoding, the oracle, NULLFAIL. -/
theorem checkSig_pretapscript (cfg : Cfg) (st : St) (sig key : Bytes)
    (hsv : cfg.sigversion = .BASE ∨ cfg.sigversion = .WITNESS_V0) (hmock : mockHit cfg sig key = false) :
    checkSig cfg st sig key =
      if fadRefused cfg st sig then .error .SIG_FINDANDDELETE
      else match sigEncodingOk cfg sig with
        | .error x => .error x
        | .ok () =>
          match keyEncodingOk cfg key with
          | .error x => .error x
          | .ok () =>
            if !cfg.oracle.ecdsa sig key (signedCode cfg st sig) cfg.sigversion && hasFlag cfg.flags Flag.NULLFAIL && !sig.isEmpty
            then .error .SIG_NULLFAIL
            else .ok (cfg.oracle.ecdsa sig key (signedCode cfg st sig) cfg.sigversion, st) := by
  unfold checkSig fadRefused signedCode
  simp only [hmock, Bool.false_eq_true, if_false]
  rcases hsv with h | h
  · simp only [h, beq_self_eq_true, if_true, Bool.true_and]
    by_cases hf : (decide ((Spec.findAndDelete st.codeFrom (pushOf sig)).2 > 0) && hasFlag cfg.flags Flag.CONST_SCRIPTCODE) = true
    · simp only [hf, if_true]; rfl
    · simp only [hf, Bool.false_eq_true, if_false]
      cases sigEncodingOk cfg sig with
      | error x => rfl
      | ok u =>
        cases keyEncodingOk cfg key with
        | error x => rfl
        | ok u' =>
          simp only [pure_bind, specOk_bind]
          split <;> rfl
  · have hb : (SigVersion.WITNESS_V0 == SigVersion.BASE) = false := by decide
    simp only [h, hb, Bool.false_and, Bool.false_eq_true, if_false]
    cases sigEncodingOk cfg sig with
    | error x => rfl
    | ok u =>
      cases keyEncodingOk cfg key with
      | error x => rfl
      | ok u' =>
        simp only [pure_bind, specOk_bind]
        split <;> rfl

/-- the stack-size check after a signature opcode cannot fail when the stack does not grow -/
private theorem checkSize_ok (st : St) (h : st.stack.length + st.alt.length ≤ maxStackSize) : checkSize st = .ok st := by
  unfold checkSize
  simp [show ¬ (st.stack.length + st.alt.length > maxStackSize) by omega]

/-- the hypotheses under which the outcome of OP_CHECKSIG(VERIFY) is decided by the signature alone: the pair is not a
    mock pair, FindAndDelete is not refused, signature and key are well encoded for the active flags -/
structure WellFormedCheck (cfg : Cfg) (st : St) (sig key : Bytes) : Prop where
  mock : mockHit cfg sig key = false
  fad : fadRefused cfg st sig = false
  sigEnc : sigEncodingOk cfg sig = .ok ()
  keyEnc : keyEncodingOk cfg key = .ok ()

/-- **OP_CHECKSIG, legacy / segwit v0.**  With a well-encoded signature and key on the stack, OP_CHECKSIG replaces them
    by `true` exactly when the signature is a valid ECDSA signature by the key over the BIP-defined digest (original
    algorithm for legacy, BIP143 for segwit v0) of the signed script code; otherwise it pushes `false` — or fails with
    SIG_NULLFAIL when NULLFAIL is active and the signature is not empty. -/
theorem C02_checksig_ecdsa (p : Prims) (tx : Tx) (nIn : Nat) (amount : Int) (spent : List TxOut) (annex leaf : Option Bytes)
    (flags : Nat) (sv : SigVersion) (z : Bool) (pretend : List (Bytes × Bytes)) (hsv : sv = .BASE ∨ sv = .WITNESS_V0)
    (st : St) (key sig : Bytes) (s : List Bytes) (hst : st.stack = key :: sig :: s)
    (hw : WellFormedCheck (txCfg p tx nIn amount spent annex leaf flags sv z pretend) st sig key)
    (exec : Bool) (after : Bytes) (pos : Nat) :
    execOp (txCfg p tx nIn amount spent annex leaf flags sv z pretend) .OP_CHECKSIG exec after pos st =
      let valid := ecdsaSigValid p.sha256 p.ecdsaVerify tx nIn amount sig key
        (signedCode (txCfg p tx nIn amount spent annex leaf flags sv z pretend) st sig) sv
      if !valid && hasFlag flags Flag.NULLFAIL && !sig.isEmpty then .error .SIG_NULLFAIL
      else checkSize { st with stack := ofBool valid :: s } := by
  rw [execOp_CHECKSIG _ st key sig s hst, checkSig_pretapscript _ st sig key hsv hw.mock, hw.fad, hw.sigEnc, hw.keyEnc]
  simp only [Bool.false_eq_true, if_false, txCfg_ecdsa]
  show (if (!ecdsaSigValid p.sha256 p.ecdsaVerify tx nIn amount sig key _ sv && hasFlag flags Flag.NULLFAIL && !sig.isEmpty) = true
      then _ else _) >>= _ = _
  split <;> rfl

/-- **OP_CHECKSIGVERIFY, legacy / segwit v0**: succeeds (removing signature and key) exactly when the signature is valid;
    otherwise SIG_NULLFAIL (flag active, signature not empty) or CHECKSIGVERIFY. -/
theorem C02_checksigverify_ecdsa (p : Prims) (tx : Tx) (nIn : Nat) (amount : Int) (spent : List TxOut) (annex leaf : Option Bytes)
    (flags : Nat) (sv : SigVersion) (z : Bool) (pretend : List (Bytes × Bytes)) (hsv : sv = .BASE ∨ sv = .WITNESS_V0)
    (st : St) (key sig : Bytes) (s : List Bytes) (hst : st.stack = key :: sig :: s)
    (hw : WellFormedCheck (txCfg p tx nIn amount spent annex leaf flags sv z pretend) st sig key)
    (exec : Bool) (after : Bytes) (pos : Nat) :
    execOp (txCfg p tx nIn amount spent annex leaf flags sv z pretend) .OP_CHECKSIGVERIFY exec after pos st =
      let valid := ecdsaSigValid p.sha256 p.ecdsaVerify tx nIn amount sig key
        (signedCode (txCfg p tx nIn amount spent annex leaf flags sv z pretend) st sig) sv
      if !valid && hasFlag flags Flag.NULLFAIL && !sig.isEmpty then .error .SIG_NULLFAIL
      else if valid then checkSize { st with stack := s } else .error .CHECKSIGVERIFY := by
  rw [execOp_CHECKSIGVERIFY _ st key sig s hst, checkSig_pretapscript _ st sig key hsv hw.mock, hw.fad, hw.sigEnc, hw.keyEnc]
  simp only [Bool.false_eq_true, if_false, txCfg_ecdsa]
  show (if (!ecdsaSigValid p.sha256 p.ecdsaVerify tx nIn amount sig key _ sv && hasFlag flags Flag.NULLFAIL && !sig.isEmpty) = true
      then _ else _) >>= _ = _
  split <;> rfl

/-- **"exactly when".**  OP_CHECKSIG leaves `true` (the byte string 01) on top exactly when the signature is valid. -/
theorem C02_checksig_true_iff (p : Prims) (tx : Tx) (nIn : Nat) (amount : Int) (spent : List TxOut) (annex leaf : Option Bytes)
    (flags : Nat) (sv : SigVersion) (z : Bool) (pretend : List (Bytes × Bytes)) (hsv : sv = .BASE ∨ sv = .WITNESS_V0)
    (st : St) (key sig : Bytes) (s : List Bytes) (hst : st.stack = key :: sig :: s)
    (hw : WellFormedCheck (txCfg p tx nIn amount spent annex leaf flags sv z pretend) st sig key)
    (exec : Bool) (after : Bytes) (pos : Nat) :
    (∃ st', execOp (txCfg p tx nIn amount spent annex leaf flags sv z pretend) .OP_CHECKSIG exec after pos st = .ok st'
        ∧ st'.stack = [1] :: s) ↔
      (ecdsaSigValid p.sha256 p.ecdsaVerify tx nIn amount sig key
        (signedCode (txCfg p tx nIn amount spent annex leaf flags sv z pretend) st sig) sv = true
       ∧ s.length + 1 + st.alt.length ≤ maxStackSize) := by
  rw [C02_checksig_ecdsa p tx nIn amount spent annex leaf flags sv z pretend hsv st key sig s hst hw]
  simp only
  cases hv : ecdsaSigValid p.sha256 p.ecdsaVerify tx nIn amount sig key
      (signedCode (txCfg p tx nIn amount spent annex leaf flags sv z pretend) st sig) sv
  · simp only [Bool.not_false, Bool.true_and, ofBool, Bool.false_eq_true, if_false, false_and, iff_false]
    rintro ⟨st', h1, h2⟩
    split at h1
    · cases h1
    · unfold checkSize at h1
      split at h1
      · cases h1
      · cases h1; simp at h2
  · simp only [Bool.not_true, Bool.false_and, Bool.false_eq_true, if_false, ofBool, if_true, true_and]
    unfold checkSize
    simp only [List.length_cons]
    constructor
    · rintro ⟨st', h1, _⟩
      split at h1
      · cases h1
      · omega
    · intro h
      have : ¬ (s.length + 1 + st.alt.length > maxStackSize) := by omega
      exact ⟨_, by rw [if_neg this], rfl⟩

-- which encoding error the flags select ---------------------------------------------------------

/-- a malformed signature / key makes OP_CHECKSIG(VERIFY) fail with the encoding error, before any digest is computed
    (signature first, then key) -/
theorem checkSig_encoding_error (cfg : Cfg) (st : St) (sig key : Bytes)
    (hsv : cfg.sigversion = .BASE ∨ cfg.sigversion = .WITNESS_V0) (hmock : mockHit cfg sig key = false)
    (hfad : fadRefused cfg st sig = false) (x : ScriptError)
    (h : sigEncodingOk cfg sig = .error x ∨ (sigEncodingOk cfg sig = .ok () ∧ keyEncodingOk cfg key = .error x)) :
    checkSig cfg st sig key = .error x := by
  rw [checkSig_pretapscript cfg st sig key hsv hmock, hfad]
  rcases h with h | ⟨h1, h2⟩
  · simp [h]
  · simp [h1, h2]

/-- SIG_DER: a non-empty signature that is not strict DER (BIP66) under any of DERSIG, LOW_S, STRICTENC -/
theorem sigEncoding_der_iff (cfg : Cfg) (sig : Bytes) :
    sigEncodingOk cfg sig = .error .SIG_DER ↔
      sig ≠ [] ∧ (hasFlag cfg.flags Flag.DERSIG = true ∨ hasFlag cfg.flags Flag.LOW_S = true ∨ hasFlag cfg.flags Flag.STRICTENC = true)
        ∧ strictDer sig = false := by
  unfold sigEncodingOk
  cases sig with
  | nil => simp
  | cons b r =>
    cases hasFlag cfg.flags Flag.DERSIG <;> cases hasFlag cfg.flags Flag.LOW_S <;> cases hasFlag cfg.flags Flag.STRICTENC <;>
      cases strictDer (b :: r) <;> cases cfg.oracle.checkLowS (b :: r).dropLast <;> cases definedHashtype (b :: r) <;> simp

/-- SIG_HIGH_S: strict DER, LOW_S active, and the S value is above half the group order -/
theorem sigEncoding_high_s_iff (cfg : Cfg) (sig : Bytes) :
    sigEncodingOk cfg sig = .error .SIG_HIGH_S ↔
      sig ≠ [] ∧ hasFlag cfg.flags Flag.LOW_S = true ∧ strictDer sig = true ∧ cfg.oracle.checkLowS sig.dropLast = false := by
  unfold sigEncodingOk
  cases sig with
  | nil => simp
  | cons b r =>
    cases hasFlag cfg.flags Flag.DERSIG <;> cases hasFlag cfg.flags Flag.LOW_S <;> cases hasFlag cfg.flags Flag.STRICTENC <;>
      cases strictDer (b :: r) <;> cases cfg.oracle.checkLowS (b :: r).dropLast <;> cases definedHashtype (b :: r) <;> simp

/-- SIG_HASHTYPE: strict DER (and low S if required), STRICTENC active, and the hash type byte is not one of
    ALL, NONE, SINGLE, each optionally with ANYONECANPAY -/
theorem sigEncoding_hashtype_iff (cfg : Cfg) (sig : Bytes) :
    sigEncodingOk cfg sig = .error .SIG_HASHTYPE ↔
      sig ≠ [] ∧ hasFlag cfg.flags Flag.STRICTENC = true ∧ strictDer sig = true
        ∧ (hasFlag cfg.flags Flag.LOW_S = true → cfg.oracle.checkLowS sig.dropLast = true) ∧ definedHashtype sig = false := by
  unfold sigEncodingOk
  cases sig with
  | nil => simp
  | cons b r =>
    cases hasFlag cfg.flags Flag.DERSIG <;> cases hasFlag cfg.flags Flag.LOW_S <;> cases hasFlag cfg.flags Flag.STRICTENC <;>
      cases strictDer (b :: r) <;> cases cfg.oracle.checkLowS (b :: r).dropLast <;> cases definedHashtype (b :: r) <;> simp

/-- these are the only signature encoding errors -/
theorem sigEncoding_errors (cfg : Cfg) (sig : Bytes) (x : ScriptError) (h : sigEncodingOk cfg sig = .error x) :
    x = .SIG_DER ∨ x = .SIG_HIGH_S ∨ x = .SIG_HASHTYPE := by
  unfold sigEncodingOk at h
  repeat' split at h
  all_goals first | (cases h; done) | (cases h; simp)

/-- the empty signature is always well encoded -/
theorem sigEncoding_empty (cfg : Cfg) : sigEncodingOk cfg [] = .ok () := by simp [sigEncodingOk]

/-- PUBKEYTYPE: STRICTENC active and the key is neither compressed (33 bytes, 02/03) nor uncompressed (65 bytes, 04) -/
theorem keyEncoding_pubkeytype_iff (cfg : Cfg) (key : Bytes) :
    keyEncodingOk cfg key = .error .PUBKEYTYPE ↔
      hasFlag cfg.flags Flag.STRICTENC = true ∧ isCompressedOrUncompressed key = false := by
  unfold keyEncodingOk
  cases hasFlag cfg.flags Flag.STRICTENC <;> cases isCompressedOrUncompressed key <;>
    cases hasFlag cfg.flags Flag.WITNESS_PUBKEYTYPE <;> cases (cfg.sigversion == SigVersion.WITNESS_V0) <;>
    cases isCompressed key <;> simp

/-- WITNESS_PUBKEYTYPE: segwit v0, the flag is active, the key passed the STRICTENC test (if any) and is not compressed -/
theorem keyEncoding_witness_pubkeytype_iff (cfg : Cfg) (key : Bytes) :
    keyEncodingOk cfg key = .error .WITNESS_PUBKEYTYPE ↔
      (hasFlag cfg.flags Flag.STRICTENC = true → isCompressedOrUncompressed key = true)
        ∧ hasFlag cfg.flags Flag.WITNESS_PUBKEYTYPE = true ∧ cfg.sigversion = .WITNESS_V0 ∧ isCompressed key = false := by
  unfold keyEncodingOk
  cases hsv : cfg.sigversion <;>
  cases hasFlag cfg.flags Flag.STRICTENC <;> cases isCompressedOrUncompressed key <;>
    cases hasFlag cfg.flags Flag.WITNESS_PUBKEYTYPE <;>
    cases isCompressed key <;> simp

-- tapscript: BIP340 over the BIP341/342 digest, and the validation weight ----------------------------

/-- **The decision table of one tapscript signature check** (BIP342):
    * an empty signature is `false`, costs nothing, and is never an error for a non-empty key;
    * every non-empty signature first pays 50 from the validation weight budget (TAPSCRIPT_VALIDATION_WEIGHT when that
      goes below zero);
    * the empty key is PUBKEYTYPE; a 32-byte key makes the oracle decide, and an invalid signature is a script ERROR
      (not `false`); any other key size is an unknown key type: the check succeeds, unless
      DISCOURAGE_UPGRADABLE_PUBKEYTYPE is active. -/
theorem checkSig_tapscript (cfg : Cfg) (st : St) (sig key : Bytes) (hsv : cfg.sigversion = .TAPSCRIPT)
    (hmock : mockHit cfg sig key = false) :
    checkSig cfg st sig key =
      if sig.isEmpty then
        (if key.isEmpty then .error .PUBKEYTYPE
         else if key.length = 32 then .ok (false, st)
         else if hasFlag cfg.flags Flag.DISCOURAGE_UPGRADABLE_PUBKEYTYPE then .error .DISCOURAGE_UPGRADABLE_PUBKEYTYPE
         else .ok (false, st))
      else if st.weightLeft - 50 < 0 then .error .TAPSCRIPT_VALIDATION_WEIGHT
      else if key.isEmpty then .error .PUBKEYTYPE
      else if key.length = 32 then
        (match cfg.oracle.schnorr sig key .TAPSCRIPT st.codesepPos with
         | .ok () => .ok (true, { st with weightLeft := st.weightLeft - 50 })
         | .error x => .error x)
      else if hasFlag cfg.flags Flag.DISCOURAGE_UPGRADABLE_PUBKEYTYPE then .error .DISCOURAGE_UPGRADABLE_PUBKEYTYPE
      else .ok (true, { st with weightLeft := st.weightLeft - 50 }) := by
  unfold checkSig
  simp only [hmock, Bool.false_eq_true, if_false, hsv]
  cases hs : sig.isEmpty
  · simp only [Bool.not_false, if_true, Bool.false_eq_true, if_false]
    by_cases hlt : st.weightLeft - 50 < 0
    · simp only [hlt, if_true]; rfl
    · simp only [hlt, if_false, pure_bind]
      cases hk : key.isEmpty
      · simp only [Bool.false_eq_true, if_false]
        by_cases h32 : key.length = 32
        · simp only [h32, if_true]
          cases cfg.oracle.schnorr sig key SigVersion.TAPSCRIPT st.codesepPos with
          | error x => rfl
          | ok u => cases u; rfl
        · simp only [h32, if_false]
      · simp only [if_true]
  · simp only [Bool.not_true, Bool.false_eq_true, if_false, if_true, pure_bind]

/-- **OP_CHECKSIG in tapscript, 32-byte key, non-empty signature, budget available**: the BIP341/342 rules decide —
    a valid signature gives `true` and costs 50; anything else is the script error BIP341 selects (SCHNORR_SIG_SIZE,
    SCHNORR_SIG_HASHTYPE, SCHNORR_SIG).  The digest commits to the annex, the leaf hash and the position of the last
    executed OP_CODESEPARATOR (`st.codesepPos`). -/
theorem C02_checksig_tapscript (p : Prims) (tx : Tx) (nIn : Nat) (amount : Int) (spent : List TxOut) (annex : Option Bytes) (l : Bytes)
    (flags : Nat) (z : Bool) (pretend : List (Bytes × Bytes))
    (st : St) (key sig : Bytes) (s : List Bytes) (hst : st.stack = key :: sig :: s)
    (hmock : mockHit (txCfg p tx nIn amount spent annex (some l) flags .TAPSCRIPT z pretend) sig key = false)
    (hsig : sig ≠ []) (hk : key.length = 32) (hbudget : 50 ≤ st.weightLeft)
    (exec : Bool) (after : Bytes) (pos : Nat) :
    execOp (txCfg p tx nIn amount spent annex (some l) flags .TAPSCRIPT z pretend) .OP_CHECKSIG exec after pos st =
      match schnorrSigValid p.sha256 p.schnorrVerify tx nIn spent annex (some ⟨l, st.codesepPos⟩) sig key with
      | .ok () => checkSize { st with stack := [1] :: s, weightLeft := st.weightLeft - 50 }
      | .error x => .error x := by
  rw [execOp_CHECKSIG _ st key sig s hst, checkSig_tapscript _ st sig key rfl hmock, txCfg_schnorr]
  have h1 : sig.isEmpty = false := by cases sig <;> simp_all
  have h2 : key.isEmpty = false := by cases key <;> simp_all
  have h3 : ¬ (st.weightLeft - 50 < 0) := by omega
  simp only [h1, h2, h3, hk, Bool.false_eq_true, if_false, if_true]
  cases schnorrSigValid p.sha256 p.schnorrVerify tx nIn spent annex (some ⟨l, st.codesepPos⟩) sig key with
  | error x => rfl
  | ok u => cases u; rfl

/-- **OP_CHECKSIGADD in tapscript**, same situation: the number grows by one and the budget shrinks by 50 exactly when the
    signature is valid; an invalid signature is a script error -/
theorem C02_checksigadd_tapscript (p : Prims) (tx : Tx) (nIn : Nat) (amount : Int) (spent : List TxOut) (annex : Option Bytes) (l : Bytes)
    (flags : Nat) (z : Bool) (pretend : List (Bytes × Bytes))
    (st : St) (key nb sig : Bytes) (s : List Bytes) (n : Int) (hst : st.stack = key :: nb :: sig :: s)
    (hn : numOf (hasFlag flags Flag.MINIMALDATA) 4 nb = .ok n)
    (hmock : mockHit (txCfg p tx nIn amount spent annex (some l) flags .TAPSCRIPT z pretend) sig key = false)
    (hsig : sig ≠ []) (hk : key.length = 32) (hbudget : 50 ≤ st.weightLeft)
    (exec : Bool) (after : Bytes) (pos : Nat) :
    execOp (txCfg p tx nIn amount spent annex (some l) flags .TAPSCRIPT z pretend) .OP_CHECKSIGADD exec after pos st =
      match schnorrSigValid p.sha256 p.schnorrVerify tx nIn spent annex (some ⟨l, st.codesepPos⟩) sig key with
      | .ok () => checkSize { st with stack := encodeNum (n + 1) :: s, weightLeft := st.weightLeft - 50 }
      | .error x => .error x := by
  rw [execOp_CHECKSIGADD _ st key nb sig s hst rfl]
  show (numOf (hasFlag flags Flag.MINIMALDATA) 4 nb >>= _) = _
  rw [hn, checkSig_tapscript _ st sig key rfl hmock, txCfg_schnorr]
  have h1 : sig.isEmpty = false := by cases sig <;> simp_all
  have h2 : key.isEmpty = false := by cases key <;> simp_all
  have h3 : ¬ (st.weightLeft - 50 < 0) := by omega
  simp only [h1, h2, h3, hk, Bool.false_eq_true, if_false, if_true, specOk_bind]
  cases schnorrSigValid p.sha256 p.schnorrVerify tx nIn spent annex (some ⟨l, st.codesepPos⟩) sig key with
  | error x => rfl
  | ok u => cases u; rfl

/-- the empty signature in tapscript: OP_CHECKSIG pushes `false`, OP_CHECKSIGADD leaves the number, nothing is charged and
    no signature is verified — for every non-empty key of a known (32 bytes) type -/
theorem C02_tapscript_empty_sig (cfg : Cfg) (st : St) (key : Bytes) (hsv : cfg.sigversion = .TAPSCRIPT)
    (hmock : mockHit cfg [] key = false) (hk : key.length = 32) :
    checkSig cfg st [] key = .ok (false, st) := by
  rw [checkSig_tapscript cfg st [] key hsv hmock]
  have h2 : key.isEmpty = false := by cases key <;> simp_all
  simp [h2, hk]

/-- the validation weight: a non-empty signature with less than 50 left fails, whatever the key -/
theorem C02_tapscript_weight (cfg : Cfg) (st : St) (sig key : Bytes) (hsv : cfg.sigversion = .TAPSCRIPT)
    (hmock : mockHit cfg sig key = false) (hsig : sig ≠ []) (hw : st.weightLeft < 50) :
    checkSig cfg st sig key = .error .TAPSCRIPT_VALIDATION_WEIGHT := by
  rw [checkSig_tapscript cfg st sig key hsv hmock]
  have h1 : sig.isEmpty = false := by cases sig <;> simp_all
  have h3 : st.weightLeft - 50 < 0 := by omega
  simp [h1, h3]

/-- unknown public key type (not 0, not 32 bytes): the check succeeds without any verification (`true` for a non-empty
    signature, still charged), unless DISCOURAGE_UPGRADABLE_PUBKEYTYPE is active -/
theorem C02_tapscript_unknown_key (cfg : Cfg) (st : St) (sig key : Bytes) (hsv : cfg.sigversion = .TAPSCRIPT)
    (hmock : mockHit cfg sig key = false) (hsig : sig ≠ []) (hw : 50 ≤ st.weightLeft) (hk0 : key ≠ []) (hk : key.length ≠ 32) :
    checkSig cfg st sig key =
      if hasFlag cfg.flags Flag.DISCOURAGE_UPGRADABLE_PUBKEYTYPE then .error .DISCOURAGE_UPGRADABLE_PUBKEYTYPE
      else .ok (true, { st with weightLeft := st.weightLeft - 50 }) := by
  rw [checkSig_tapscript cfg st sig key hsv hmock]
  have h1 : sig.isEmpty = false := by cases sig <;> simp_all
  have h2 : key.isEmpty = false := by cases key <;> simp_all
  have h3 : ¬ (st.weightLeft - 50 < 0) := by omega
  simp [h1, h2, h3, hk]

-- OP_CHECKMULTISIG: in-order matching, NULLFAIL, NULLDUMMY ------------------------------------------

/-- `sigs` can be matched to `keys` IN ORDER: each signature is valid for a key of its own, and the keys used appear in
    the same order as the signatures (both lists in the order in which the opcode examines them, i.e. top of stack first).
    `take`: the first signature uses the first key; `skip`: the first key is used by nobody. -/
inductive Matchable (valid : Bytes → Bytes → Bool) : List Bytes → List Bytes → Prop
  | nil (keys : List Bytes) : Matchable valid [] keys
  | take {sig key : Bytes} {sigs keys : List Bytes} :
      valid sig key = true → Matchable valid sigs keys → Matchable valid (sig :: sigs) (key :: keys)
  | skip {sig key : Bytes} {sigs keys : List Bytes} :
      Matchable valid (sig :: sigs) keys → Matchable valid (sig :: sigs) (key :: keys)

theorem Matchable.length_le {valid : Bytes → Bytes → Bool} {sigs keys : List Bytes} (h : Matchable valid sigs keys) :
    sigs.length ≤ keys.length := by
  induction h with
  | nil keys => simp
  | take _ _ ih => simp only [List.length_cons]; omega
  | skip _ ih => simp only [List.length_cons] at ih ⊢; omega

theorem Matchable.weaken {valid : Bytes → Bytes → Bool} {sigs keys : List Bytes} (key : Bytes)
    (h : Matchable valid sigs keys) : Matchable valid sigs (key :: keys) := by
  cases sigs with
  | nil => exact .nil _
  | cons s ss => exact .skip h

theorem Matchable.tail {valid : Bytes → Bytes → Bool} {sig : Bytes} {sigs keys : List Bytes}
    (h : Matchable valid (sig :: sigs) keys) : Matchable valid sigs keys := by
  generalize hx : sig :: sigs = x at h
  induction h generalizing sig sigs with
  | nil keys => cases hx
  | @take s k ss ks hv hm ih => cases hx; exact hm.weaken k
  | @skip s k ss ks hm ih => cases hx; exact (ih rfl).weaken k

/-- **OP_CHECKMULTISIG matches signatures to keys in order.**  When no key is a mock key and all signatures and keys are
    well encoded for the active flags, the matching loop never fails and answers `true` exactly when the signatures can
    be matched in order to keys for which they are valid (greedy matching finds an in-order matching whenever one exists). -/
theorem matchSigs_inorder (cfg : Cfg) (code : Bytes) : ∀ (keys sigs : List Bytes),
    (∀ key ∈ keys, keyListed cfg key = false) →
    (∀ sig ∈ sigs, sigEncodingOk cfg sig = .ok ()) → (∀ key ∈ keys, keyEncodingOk cfg key = .ok ()) →
    ∃ b, matchSigs cfg code sigs keys = .ok b ∧
      (b = true ↔ Matchable (fun s k => cfg.oracle.ecdsa s k code cfg.sigversion) sigs keys) := by
  intro keys
  induction keys with
  | nil =>
    intro sigs _ _ _
    cases sigs with
    | nil => exact ⟨true, rfl, by simp [Matchable.nil]⟩
    | cons s ss =>
      refine ⟨false, rfl, ?_⟩
      simp only [Bool.false_eq_true, false_iff]
      intro h; cases h
  | cons key keys ih =>
    intro sigs hl hse hke
    cases sigs with
    | nil => exact ⟨true, rfl, by simp [Matchable.nil]⟩
    | cons sig sigs =>
      have h1 : keyListed cfg key = false := hl key (by simp)
      have h2 : sigEncodingOk cfg sig = .ok () := hse sig (by simp)
      have h3 : keyEncodingOk cfg key = .ok () := hke key (by simp)
      simp only [matchSigs, h1, Bool.false_eq_true, if_false, h2, h3, specOk_bind, pure_bind]
      have hl' : ∀ k ∈ keys, keyListed cfg k = false := fun k hk => hl k (by simp [hk])
      have hke' : ∀ k ∈ keys, keyEncodingOk cfg k = .ok () := fun k hk => hke k (by simp [hk])
      cases hv : cfg.oracle.ecdsa sig key code cfg.sigversion
      · simp only [Bool.false_eq_true, if_false, List.length_cons]
        by_cases hgt : sigs.length + 1 > keys.length
        · refine ⟨false, by rw [if_pos hgt], ?_⟩
          simp only [Bool.false_eq_true, false_iff]
          intro h
          cases h with
          | take hv' _ =>
            have hv'' : cfg.oracle.ecdsa sig key code cfg.sigversion = true := hv'
            rw [hv] at hv''; cases hv''
          | skip hm => have := hm.length_le; simp only [List.length_cons] at this; omega
        · obtain ⟨b, hb, hiff⟩ := ih (sig :: sigs) hl' hse hke'
          refine ⟨b, by rw [if_neg hgt]; exact hb, hiff.trans ⟨Matchable.skip, ?_⟩⟩
          intro h
          cases h with
          | take hv' _ =>
            have hv'' : cfg.oracle.ecdsa sig key code cfg.sigversion = true := hv'
            rw [hv] at hv''; cases hv''
          | skip hm => exact hm
      · simp only [if_true]
        have hse' : ∀ s ∈ sigs, sigEncodingOk cfg s = .ok () := fun s hs => hse s (by simp [hs])
        by_cases hgt : sigs.length > keys.length
        · refine ⟨false, by rw [if_pos hgt], ?_⟩
          simp only [Bool.false_eq_true, false_iff]
          intro h
          have := h.length_le
          simp only [List.length_cons] at this; omega
        · obtain ⟨b, hb, hiff⟩ := ih sigs hl' hse' hke'
          refine ⟨b, by rw [if_neg hgt]; exact hb, hiff.trans ⟨Matchable.take hv, ?_⟩⟩
          intro h
          cases h with
          | take _ hm => exact hm
          | skip hm => exact hm.tail

/-- the stack layout OP_CHECKMULTISIG expects, top first: key count, keys, signature count, signatures, dummy element -/
theorem execMultisig_shape (cfg : Cfg) (verify : Bool) (st : St) (nkB nsB dummy : Bytes) (keys sigs s4 : List Bytes)
    (hst : st.stack = nkB :: (keys ++ nsB :: (sigs ++ dummy :: s4)))
    (hsv : cfg.sigversion ≠ .TAPSCRIPT)
    (hnk : numOf (hasFlag cfg.flags Flag.MINIMALDATA) 4 nkB = .ok (keys.length : Int))
    (hns : numOf (hasFlag cfg.flags Flag.MINIMALDATA) 4 nsB = .ok (sigs.length : Int))
    (hk20 : keys.length ≤ maxPubkeysPerMultisig) (hsk : sigs.length ≤ keys.length)
    (hops : st.opCount + keys.length ≤ maxOpsPerScript) :
    execMultisig cfg (hasFlag cfg.flags Flag.MINIMALDATA) verify st =
      (deleteAll cfg sigs st.codeFrom >>= fun code =>
       matchSigs cfg code sigs keys >>= fun ok =>
        if !ok && hasFlag cfg.flags Flag.NULLFAIL && sigs.any (fun s => !s.isEmpty) then .error .SIG_NULLFAIL
        else if hasFlag cfg.flags Flag.NULLDUMMY && !dummy.isEmpty then .error .SIG_NULLDUMMY
        else if verify then
          (if ok then checkSize { st with stack := s4, opCount := st.opCount + keys.length } else .error .CHECKMULTISIGVERIFY)
        else checkSize { st with stack := ofBool ok :: s4, opCount := st.opCount + keys.length }) := by
  unfold execMultisig
  have hsv' : (cfg.sigversion == SigVersion.TAPSCRIPT) = false := by cases h : cfg.sigversion <;> simp_all
  have hgi : ∀ n : Nat, n ≤ 20 → Model.getint (n : Int) = (n : Int) := by
    intro n hn
    unfold Model.getint Model.intMax Model.intMin
    have h1 : ¬ ((n : Int) > 2147483647) := by omega
    have h2 : ¬ ((n : Int) < -2147483648) := by omega
    simp [h1, h2]
  have h20 : maxPubkeysPerMultisig = 20 := rfl
  have hk : Model.getint (keys.length : Int) = keys.length := hgi _ (by omega)
  have hs : Model.getint (sigs.length : Int) = sigs.length := hgi _ (by omega)
  simp only [hsv', Bool.false_eq_true, if_false, hst, hnk, specOk_bind, pure_bind, hk, Int.toNat_natCast]
  have c1 : ¬ ((decide ((keys.length : Int) < 0) || decide ((keys.length : Int) > (maxPubkeysPerMultisig : Int))) = true) := by
    simp <;> omega
  have c2 : ¬ (st.opCount + keys.length > maxOpsPerScript) := by omega
  have c3 : ¬ ((keys ++ nsB :: (sigs ++ dummy :: s4)).length < keys.length + 1) := by simp <;> omega
  rw [if_neg c1, if_neg c2, if_neg c3]
  simp only [List.drop_left, List.take_left, hns, specOk_bind, hs, Int.toNat_natCast]
  have c4 : ¬ ((decide ((sigs.length : Int) < 0) || decide ((sigs.length : Int) > (keys.length : Int))) = true) := by
    simp <;> omega
  have c5 : ¬ ((sigs ++ dummy :: s4).length < sigs.length + 1) := by simp
  rw [if_neg c4, if_neg c5]
  try simp only [List.drop_left, List.take_left]
  cases deleteAll cfg sigs st.codeFrom with
  | error x => rfl
  | ok code =>
    simp only [specOk_bind]
    cases matchSigs cfg code sigs keys with
    | error x => rfl
    | ok ok =>
      simp only [specOk_bind]
      by_cases d1 : (!ok && hasFlag cfg.flags Flag.NULLFAIL && sigs.any (fun s => !s.isEmpty)) = true
      · simp only [d1, if_true]; rfl
      · simp only [d1, Bool.false_eq_true, if_false, pure_bind]
        by_cases d2 : (hasFlag cfg.flags Flag.NULLDUMMY && !dummy.isEmpty) = true
        · simp only [d2, if_true]; rfl
        · simp only [d2, Bool.false_eq_true, if_false]

/-- **NULLDUMMY**: with the flag active a non-empty dummy element fails the opcode — after the signatures were checked
    (so a NULLFAIL violation is reported first), whatever the matching said -/
theorem C02_multisig_nulldummy (cfg : Cfg) (verify : Bool) (st : St) (nkB nsB dummy : Bytes) (keys sigs s4 : List Bytes)
    (hst : st.stack = nkB :: (keys ++ nsB :: (sigs ++ dummy :: s4)))
    (hsv : cfg.sigversion ≠ .TAPSCRIPT)
    (hnk : numOf (hasFlag cfg.flags Flag.MINIMALDATA) 4 nkB = .ok (keys.length : Int))
    (hns : numOf (hasFlag cfg.flags Flag.MINIMALDATA) 4 nsB = .ok (sigs.length : Int))
    (hk20 : keys.length ≤ maxPubkeysPerMultisig) (hsk : sigs.length ≤ keys.length)
    (hops : st.opCount + keys.length ≤ maxOpsPerScript)
    (code : Bytes) (ok : Bool) (hcode : deleteAll cfg sigs st.codeFrom = .ok code) (hm : matchSigs cfg code sigs keys = .ok ok)
    (hnf : (!ok && hasFlag cfg.flags Flag.NULLFAIL && sigs.any (fun s => !s.isEmpty)) = false)
    (hflag : hasFlag cfg.flags Flag.NULLDUMMY = true) (hd : dummy ≠ []) :
    execMultisig cfg (hasFlag cfg.flags Flag.MINIMALDATA) verify st = .error .SIG_NULLDUMMY := by
  rw [execMultisig_shape cfg verify st nkB nsB dummy keys sigs s4 hst hsv hnk hns hk20 hsk hops]
  have : dummy.isEmpty = false := by cases dummy <;> simp_all
  simp only [hcode, specOk_bind, hm]
  simp [hnf, hflag, this]

/-- the script code OP_CHECKMULTISIG signs: legacy scripts have the pushes of ALL the signatures removed -/
theorem deleteAll_segwit (cfg : Cfg) (hsv : cfg.sigversion ≠ .BASE) : ∀ (sigs : List Bytes) (code : Bytes), deleteAll cfg sigs code = .ok code := by
  intro sigs
  have : (cfg.sigversion == SigVersion.BASE) = false := by cases h : cfg.sigversion <;> simp_all
  induction sigs with
  | nil => intro code; rfl
  | cons s ss ih => intro code; simp only [deleteAll, this, Bool.false_eq_true, if_false]; exact ih code

/-- **OP_CHECKMULTISIG, full statement** (legacy / segwit v0; keys not mock keys, everything well encoded, stack as the
    opcode expects): with `code` the script code after FindAndDelete of all signatures, the opcode pushes `true` exactly
    when the signatures match keys IN ORDER as valid ECDSA signatures over the BIP-defined digest of `code`; a failed match
    with a non-empty signature is SIG_NULLFAIL under NULLFAIL; a non-empty dummy is SIG_NULLDUMMY under NULLDUMMY. -/
theorem C02_checkmultisig (p : Prims) (tx : Tx) (nIn : Nat) (amount : Int) (spent : List TxOut) (annex leaf : Option Bytes)
    (flags : Nat) (sv : SigVersion) (z : Bool) (pretend : List (Bytes × Bytes)) (hsv : sv ≠ .TAPSCRIPT)
    (verify : Bool) (st : St) (nkB nsB dummy : Bytes) (keys sigs s4 : List Bytes)
    (hst : st.stack = nkB :: (keys ++ nsB :: (sigs ++ dummy :: s4)))
    (hnk : numOf (hasFlag flags Flag.MINIMALDATA) 4 nkB = .ok (keys.length : Int))
    (hns : numOf (hasFlag flags Flag.MINIMALDATA) 4 nsB = .ok (sigs.length : Int))
    (hk20 : keys.length ≤ maxPubkeysPerMultisig) (hsk : sigs.length ≤ keys.length)
    (hops : st.opCount + keys.length ≤ maxOpsPerScript)
    (code : Bytes) (hcode : deleteAll (txCfg p tx nIn amount spent annex leaf flags sv z pretend) sigs st.codeFrom = .ok code)
    (hl : ∀ key ∈ keys, keyListed (txCfg p tx nIn amount spent annex leaf flags sv z pretend) key = false)
    (hse : ∀ sig ∈ sigs, sigEncodingOk (txCfg p tx nIn amount spent annex leaf flags sv z pretend) sig = .ok ())
    (hke : ∀ key ∈ keys, keyEncodingOk (txCfg p tx nIn amount spent annex leaf flags sv z pretend) key = .ok ()) :
    ∃ ok : Bool,
      (ok = true ↔ Matchable (fun s k => ecdsaSigValid p.sha256 p.ecdsaVerify tx nIn amount s k code sv) sigs keys) ∧
      execMultisig (txCfg p tx nIn amount spent annex leaf flags sv z pretend) (hasFlag flags Flag.MINIMALDATA) verify st =
        (if !ok && hasFlag flags Flag.NULLFAIL && sigs.any (fun s => !s.isEmpty) then .error .SIG_NULLFAIL
         else if hasFlag flags Flag.NULLDUMMY && !dummy.isEmpty then .error .SIG_NULLDUMMY
         else if verify then
           (if ok then checkSize { st with stack := s4, opCount := st.opCount + keys.length } else .error .CHECKMULTISIGVERIFY)
         else checkSize { st with stack := ofBool ok :: s4, opCount := st.opCount + keys.length }) := by
  obtain ⟨ok, hm, hiff⟩ := matchSigs_inorder (txCfg p tx nIn amount spent annex leaf flags sv z pretend) code keys sigs hl hse hke
  refine ⟨ok, hiff, ?_⟩
  have := execMultisig_shape (txCfg p tx nIn amount spent annex leaf flags sv z pretend) verify st nkB nsB dummy keys sigs s4 hst hsv hnk hns hk20 hsk hops
  simp only [hcode, specOk_bind, hm] at this
  exact this

end SpecSide

/-! ## 6. the same statements for the model (transaction checker), through `C02_opcode` -/

theorem relOut_ok_inv {m : M SEE} {st' : Spec.St} (h : RelOut m (.ok st')) : ∃ e', m = .ok e' ∧ Rel e' st' := by
  cases m with
  | error x => simp [RelOut] at h
  | ok e' => exact ⟨e', rfl, h⟩

theorem relOut_ok_of_model {m : M SEE} {s : Spec.R Spec.St} {e' : SEE} (h : RelOut m s) (hm : m = .ok e') :
    ∃ st', s = .ok st' ∧ Rel e' st' := by
  subst hm
  cases s with
  | error y => simp [RelOut] at h
  | ok st' => exact ⟨st', rfl, h⟩

theorem relOut_err_inv {m : M SEE} {y : ScriptError} (h : RelOut m (.error y)) :
    ∃ x, m = .error x ∧ errAbs x = y ∧ isAbnormal x = false := by
  cases m with
  | error x => exact ⟨x, rfl, h.1, h.2⟩
  | ok e' => simp [RelOut] at h

section ModelSide
variable (cr : SigCrypto) (base : Ctx) (p : Spec.Prims) (hp : PrimsMatch p cr base)
  (tx : Tx) (nIn : Nat) (amount : Int) (txdata : PrecomputedTxData) (annex leaf : Option Bytes)
  (pretend : List (Bytes × Bytes)) (e : SEE) (st : Spec.St)
  (hin : nIn < tx.vin.length) (hcoh : Coherent cr tx txdata)

include hp hin hcoh in
/-- **OP_CHECKSIG of the debugger, legacy / segwit v0** (the model with the transaction checker): related to the
    specification's outcome, which is decided by `Spec.ecdsaSigValid` over the BIP-defined digest. -/
theorem C02_model_checksig_ecdsa
    (hsv : e.sigversion = .BASE ∨ e.sigversion = .WITNESS_V0)
    (hcode : e.sigversion = .BASE → Spec.decode e.pbegincodehash ≠ none ∧ e.pbegincodehash.length < 2 ^ 32)
    (hframe : CfgFrame e (txCfg p tx nIn amount txdata.spentOutputs annex leaf e.flags e.sigversion e.allowDisabled pretend))
    (hrel : Rel e st) (key sig : Bytes) (s : List Bytes) (hst : st.stack = key :: sig :: s)
    (hw : WellFormedCheck (txCfg p tx nIn amount txdata.spentOutputs annex leaf e.flags e.sigversion e.allowDisabled pretend) st sig key)
    (fExec : Bool) (pc : Bytes) :
    RelOut (execOpcode (txCheckerWith cr base tx nIn amount txdata) e .OP_CHECKSIG fExec pc)
      (let valid := Spec.ecdsaSigValid p.sha256 p.ecdsaVerify tx nIn amount sig key
          (signedCode (txCfg p tx nIn amount txdata.spentOutputs annex leaf e.flags e.sigversion e.allowDisabled pretend) st sig) e.sigversion
       if !valid && hasFlag e.flags Flag.NULLFAIL && !sig.isEmpty then .error .SIG_NULLFAIL
       else Spec.checkSize { st with stack := Spec.ofBool valid :: s }) := by
  have hnt : e.sigversion ≠ .TAPROOT := by rcases hsv with h | h <;> rw [h] <;> decide
  have hts : e.sigversion = .TAPSCRIPT → e.execdata.weightInit = true ∧ TapReady cr tx nIn txdata annex leaf e.execdata := by
    intro h; rcases hsv with h' | h' <;> rw [h'] at h <;> cases h
  have := C02_opcode cr base p hp tx nIn amount txdata annex leaf pretend e st hin hcoh hnt hcode hts hframe hrel .OP_CHECKSIG fExec pc
  rw [C02_checksig_ecdsa p tx nIn amount txdata.spentOutputs annex leaf e.flags e.sigversion e.allowDisabled pretend hsv st key sig s hst hw] at this
  exact this

include hp hin hcoh in
/-- **"exactly when", for the debugger.**  With a well-encoded signature and key on top of the stack, the debugger's
    OP_CHECKSIG succeeds leaving `01` in their place exactly when the signature is a valid ECDSA signature by that key over
    the BIP-defined digest (and the stack limit is respected). -/
theorem C02_model_checksig_accepts_iff
    (hsv : e.sigversion = .BASE ∨ e.sigversion = .WITNESS_V0)
    (hcode : e.sigversion = .BASE → Spec.decode e.pbegincodehash ≠ none ∧ e.pbegincodehash.length < 2 ^ 32)
    (hframe : CfgFrame e (txCfg p tx nIn amount txdata.spentOutputs annex leaf e.flags e.sigversion e.allowDisabled pretend))
    (hrel : Rel e st) (key sig : Bytes) (s : List Bytes) (hst : st.stack = key :: sig :: s)
    (hw : WellFormedCheck (txCfg p tx nIn amount txdata.spentOutputs annex leaf e.flags e.sigversion e.allowDisabled pretend) st sig key)
    (fExec : Bool) (pc : Bytes) :
    (∃ e', execOpcode (txCheckerWith cr base tx nIn amount txdata) e .OP_CHECKSIG fExec pc = .ok e' ∧ e'.stack = s.reverse ++ [[1]]) ↔
      (Spec.ecdsaSigValid p.sha256 p.ecdsaVerify tx nIn amount sig key
          (signedCode (txCfg p tx nIn amount txdata.spentOutputs annex leaf e.flags e.sigversion e.allowDisabled pretend) st sig) e.sigversion = true
        ∧ s.length + 1 + st.alt.length ≤ Spec.maxStackSize) := by
  have hnt : e.sigversion ≠ .TAPROOT := by rcases hsv with h | h <;> rw [h] <;> decide
  have hts : e.sigversion = .TAPSCRIPT → e.execdata.weightInit = true ∧ TapReady cr tx nIn txdata annex leaf e.execdata := by
    intro h; rcases hsv with h' | h' <;> rw [h'] at h <;> cases h
  have hop := C02_opcode cr base p hp tx nIn amount txdata annex leaf pretend e st hin hcoh hnt hcode hts hframe hrel .OP_CHECKSIG fExec pc
  rw [← C02_checksig_true_iff p tx nIn amount txdata.spentOutputs annex leaf e.flags e.sigversion e.allowDisabled pretend hsv st key sig s hst hw
    fExec pc e.opcodePos]
  constructor
  · rintro ⟨e', h1, h2⟩
    obtain ⟨st', hs, hr⟩ := relOut_ok_of_model hop h1
    refine ⟨st', hs, ?_⟩
    have := hr.stack
    rw [h2] at this
    have h3 := congrArg List.reverse this
    simp only [List.reverse_append, List.reverse_reverse, List.reverse_cons, List.reverse_nil, List.nil_append,
      List.singleton_append] at h3
    exact h3.symm
  · rintro ⟨st', h1, h2⟩
    rw [h1] at hop
    obtain ⟨e', he, hr⟩ := relOut_ok_inv hop
    refine ⟨e', he, ?_⟩
    rw [hr.stack, h2]; simp

include hp hin hcoh in
/-- **OP_CHECKSIG of the debugger in tapscript**, 32-byte key, non-empty signature, budget available: a valid BIP340
    signature over the BIP341/342 digest gives `true` and costs 50; otherwise the script error that BIP341 selects. -/
theorem C02_model_checksig_tapscript (l : Bytes)
    (hsv : e.sigversion = .TAPSCRIPT) (hwi : e.execdata.weightInit = true)
    (hready : TapReady cr tx nIn txdata annex (some l) e.execdata)
    (hframe : CfgFrame e (txCfg p tx nIn amount txdata.spentOutputs annex (some l) e.flags .TAPSCRIPT e.allowDisabled pretend))
    (hrel : Rel e st) (key sig : Bytes) (s : List Bytes) (hst : st.stack = key :: sig :: s)
    (hmock : Spec.mockHit (txCfg p tx nIn amount txdata.spentOutputs annex (some l) e.flags .TAPSCRIPT e.allowDisabled pretend) sig key = false)
    (hsig : sig ≠ []) (hk : key.length = 32) (hbudget : 50 ≤ st.weightLeft) (fExec : Bool) (pc : Bytes) :
    RelOut (execOpcode (txCheckerWith cr base tx nIn amount txdata) e .OP_CHECKSIG fExec pc)
      (match Spec.schnorrSigValid p.sha256 p.schnorrVerify tx nIn txdata.spentOutputs annex (some ⟨l, st.codesepPos⟩) sig key with
       | .ok () => Spec.checkSize { st with stack := [1] :: s, weightLeft := st.weightLeft - 50 }
       | .error x => .error x) := by
  have hnt : e.sigversion ≠ .TAPROOT := by rw [hsv]; decide
  have hcode : e.sigversion = .BASE → Spec.decode e.pbegincodehash ≠ none ∧ e.pbegincodehash.length < 2 ^ 32 := by
    intro h; rw [hsv] at h; cases h
  have hframe' : CfgFrame e (txCfg p tx nIn amount txdata.spentOutputs annex (some l) e.flags e.sigversion e.allowDisabled pretend) := by
    rw [hsv]; exact hframe
  have := C02_opcode cr base p hp tx nIn amount txdata annex (some l) pretend e st hin hcoh hnt hcode (fun _ => ⟨hwi, hready⟩) hframe' hrel
    .OP_CHECKSIG fExec pc
  rw [hsv, C02_checksig_tapscript p tx nIn amount txdata.spentOutputs annex l e.flags e.allowDisabled pretend st key sig s hst hmock hsig hk hbudget] at this
  exact this

include hp hin hcoh in
/-- **OP_CHECKMULTISIG(VERIFY) of the debugger** (legacy / segwit v0): in-order matching over the BIP-defined digest,
    NULLFAIL, NULLDUMMY, exactly as `C02_checkmultisig` states for the specification. -/
theorem C02_model_checkmultisig
    (hsv : e.sigversion = .BASE ∨ e.sigversion = .WITNESS_V0)
    (hcode : e.sigversion = .BASE → Spec.decode e.pbegincodehash ≠ none ∧ e.pbegincodehash.length < 2 ^ 32)
    (hframe : CfgFrame e (txCfg p tx nIn amount txdata.spentOutputs annex leaf e.flags e.sigversion e.allowDisabled pretend))
    (hrel : Rel e st) (verify : Bool) (nkB nsB dummy : Bytes) (keys sigs s4 : List Bytes)
    (hst : st.stack = nkB :: (keys ++ nsB :: (sigs ++ dummy :: s4)))
    (hnk : Spec.numOf (hasFlag e.flags Flag.MINIMALDATA) 4 nkB = .ok (keys.length : Int))
    (hns : Spec.numOf (hasFlag e.flags Flag.MINIMALDATA) 4 nsB = .ok (sigs.length : Int))
    (hk20 : keys.length ≤ Spec.maxPubkeysPerMultisig) (hsk : sigs.length ≤ keys.length)
    (hops : st.opCount + keys.length ≤ Spec.maxOpsPerScript)
    (code : Bytes)
    (hcodeOk : Spec.deleteAll (txCfg p tx nIn amount txdata.spentOutputs annex leaf e.flags e.sigversion e.allowDisabled pretend) sigs st.codeFrom = .ok code)
    (hl : ∀ key ∈ keys, Spec.keyListed (txCfg p tx nIn amount txdata.spentOutputs annex leaf e.flags e.sigversion e.allowDisabled pretend) key = false)
    (hse : ∀ sig ∈ sigs, Spec.sigEncodingOk (txCfg p tx nIn amount txdata.spentOutputs annex leaf e.flags e.sigversion e.allowDisabled pretend) sig = .ok ())
    (hke : ∀ key ∈ keys, Spec.keyEncodingOk (txCfg p tx nIn amount txdata.spentOutputs annex leaf e.flags e.sigversion e.allowDisabled pretend) key = .ok ())
    (fExec : Bool) (pc : Bytes) :
    ∃ ok : Bool,
      (ok = true ↔ Matchable (fun s k => Spec.ecdsaSigValid p.sha256 p.ecdsaVerify tx nIn amount s k code e.sigversion) sigs keys) ∧
      RelOut (execOpcode (txCheckerWith cr base tx nIn amount txdata) e
                (if verify then .OP_CHECKMULTISIGVERIFY else .OP_CHECKMULTISIG) fExec pc)
        (if !ok && hasFlag e.flags Flag.NULLFAIL && sigs.any (fun s => !s.isEmpty) then .error .SIG_NULLFAIL
         else if hasFlag e.flags Flag.NULLDUMMY && !dummy.isEmpty then .error .SIG_NULLDUMMY
         else if verify then
           (if ok then Spec.checkSize { st with stack := s4, opCount := st.opCount + keys.length } else .error .CHECKMULTISIGVERIFY)
         else Spec.checkSize { st with stack := Spec.ofBool ok :: s4, opCount := st.opCount + keys.length }) := by
  have hnt : e.sigversion ≠ .TAPROOT := by rcases hsv with h | h <;> rw [h] <;> decide
  have hnts : e.sigversion ≠ .TAPSCRIPT := by rcases hsv with h | h <;> rw [h] <;> decide
  have hts : e.sigversion = .TAPSCRIPT → e.execdata.weightInit = true ∧ TapReady cr tx nIn txdata annex leaf e.execdata :=
    fun h => absurd h hnts
  obtain ⟨ok, hiff, hex⟩ := C02_checkmultisig p tx nIn amount txdata.spentOutputs annex leaf e.flags e.sigversion e.allowDisabled pretend hnts
    verify st nkB nsB dummy keys sigs s4 hst hnk hns hk20 hsk hops code hcodeOk hl hse hke
  refine ⟨ok, hiff, ?_⟩
  have hop := C02_opcode cr base p hp tx nIn amount txdata annex leaf pretend e st hin hcoh hnt hcode hts hframe hrel
    (if verify then .OP_CHECKMULTISIGVERIFY else .OP_CHECKMULTISIG) fExec pc
  have hexec : Spec.execOp (txCfg p tx nIn amount txdata.spentOutputs annex leaf e.flags e.sigversion e.allowDisabled pretend)
      (if verify then .OP_CHECKMULTISIGVERIFY else .OP_CHECKMULTISIG) fExec pc e.opcodePos st =
      Spec.execMultisig (txCfg p tx nIn amount txdata.spentOutputs annex leaf e.flags e.sigversion e.allowDisabled pretend)
        (hasFlag e.flags Flag.MINIMALDATA) verify st := by
    cases verify <;> (unfold Spec.execOp; simp [Spec.disabled, Spec.smallInt, Spec.isNopN, Spec.isUnary, Spec.isBinary, txCfg])
  rw [hexec, hex] at hop
  exact hop

end ModelSide

/-! ## 7. the checker of a real session -/

/-- the checker `Instance::setup_environment` installs (`Glue.checkerBuilder`) is the transaction checker of this file,
    with a coherent cache: either `PrecomputedTransactionData()` or the result of `Init` -/
theorem checkerBuilder_is_txChecker (tx : Tx) (nIn : Nat) (amount : Int) (init : Option (List TxOut × Bool)) :
    ∃ d, Glue.checkerBuilder.build tx nIn amount init = txCheckerWith stdCrypto stdBaseCtx tx nIn amount d
      ∧ Coherent stdCrypto tx d := by
  cases init with
  | none => exact ⟨{}, rfl, coherent_default _ _⟩
  | some sf =>
    obtain ⟨spent, force⟩ := sf
    cases h : precomputeInit stdCrypto tx spent force with
    | error x =>
      refine ⟨{}, ?_, coherent_default _ _⟩
      simp only [Glue.checkerBuilder, h]; rfl
    | ok d =>
      refine ⟨d, ?_, precomputeInit_coherent stdCrypto tx spent force d h⟩
      simp only [Glue.checkerBuilder, h]; rfl

/-- the primitives of the real session: SHA-256, RIPEMD-160, SHA-1, `CPubKey::Verify`, `XOnlyPubKey::VerifySchnorr`, `CheckLowS` -/
def stdPrims : Spec.Prims := primsOf stdCrypto stdBaseCtx Glue.tapOracle

theorem stdPrims_match : PrimsMatch stdPrims stdCrypto stdBaseCtx := primsMatch_primsOf _ _ _ rfl

/-! ## 8. the hypotheses are satisfiable -/

namespace Examples

/-- a crypto instance whose verification functions accept everything (the theorems hold for every instance) -/
def crT : SigCrypto := { sha256 := id, ecdsaVerify := fun _ _ _ => true, schnorrVerify := fun _ _ _ => true }

def baseT : Ctx :=
  { sha256 := id, ripemd160 := id, sha1 := id, checkLowS := fun _ => true, checkLockTime := fun _ => false,
    checkSequence := fun _ => false, checkECDSA := fun _ _ _ _ => false,
    checkSchnorr := fun _ _ _ _ => .error (.script .UNKNOWN_ERROR) }

def tapT : Spec.TapOracle := Glue.tapOracle
def pT : Spec.Prims := primsOf crT baseT tapT
theorem pT_match : PrimsMatch pT crT baseT := primsMatch_primsOf _ _ _ rfl

def key33 : Bytes := 0x02 :: List.replicate 32 1
def sigL : Bytes := [0x30, 0x01]                                   -- non-empty, hash type byte SIGHASH_ALL
def txL : Tx := { version := 1, vin := [⟨⟨List.replicate 32 7, 0⟩, [], 0xffffffff, []⟩], vout := [⟨900, [0x51]⟩], lockTime := 0 }
/-- `<key> OP_CODESEPARATOR OP_CHECKSIG` -/
def scriptL : Bytes := [0x21] ++ key33 ++ [0xab, 0xac]

/-- legacy session, a code separator before OP_CHECKSIG, default cache: `C02_trace` applies -/
example (tc : TapCtx) : ∃ e0, setupEnvironment [sigL] scriptL 0 .BASE [] false {} none [] [] = .ok e0 ∧
    RelRun (runOps (txCheckerWith crT baseT txL 0 1000 {}) tc scriptL.length e0)
      (Spec.evalInstrs (txCfg pT txL 0 1000 [] none none 0 .BASE false [])
        (Spec.decodePrefix scriptL.length scriptL).1 0 (C01.initSt [sigL] scriptL {})) true :=
  ⟨_, rfl, C02_trace crT baseT pT pT_match txL 0 1000 {} none none tc [sigL] scriptL 0 .BASE false {} [] [] _ rfl
    (by decide) (by decide) (coherent_default _ _) (by decide) (fun h => by cases h) (fun _ => rfl) (fun _ _ h => by cases h)⟩

/-- … and on the specification side that run ends with `true` on the stack, the script code signed being what follows
    the OP_CODESEPARATOR -/
example : ((Spec.evalInstrs (txCfg pT txL 0 1000 [] none none 0 .BASE false [])
    (Spec.decodePrefix scriptL.length scriptL).1 0 (C01.initSt [sigL] scriptL {})).2.map (fun st => (st.stack, st.codeFrom)))
      = .ok ([[1]], [0xac]) := by rfl

/-- a well-formed check in the sense of `C02_checksig_ecdsa` -/
example : WellFormedCheck (txCfg pT txL 0 1000 [] none none 0 .BASE false []) { stack := [key33, sigL], codeFrom := [0xac] } sigL key33 :=
  ⟨by decide, by decide, by rfl, by rfl⟩

def iT : TxIn := ⟨⟨List.replicate 32 7, 1⟩, [], 0xfffffffd, [[1, 2, 3], [0x51], 0xc0 :: List.replicate 32 4]⟩
def oT : TxOut := ⟨1000, 0x51 :: 0x20 :: List.replicate 32 9⟩
def txT : Tx := { version := 2, vin := [iT], vout := [⟨900, [0x51]⟩], lockTime := 0 }
def edT (leafH : Bytes) : ExecData :=
  { annexInit := true, annexPresent := false, tapleafHashInit := true, tapleafHash := leafH,
    codesepPosInit := true, weightInit := true, weightLeft := 100 }
/-- `<key32> OP_CHECKSIG` -/
def scriptT : Bytes := [0x20] ++ List.replicate 32 5 ++ [0xac]

private theorem scanT : scanOpSuccess false scriptT = false := by
  have hg1 : getOp scriptT = some ⟨0x20, List.replicate 32 5, [0xac]⟩ := by rfl
  have hg2 : getOp [0xac] = some ⟨0xac, [], []⟩ := by rfl
  have hg3 : getOp [] = none := by rfl
  rw [scanOpSuccess]
  split
  · rfl
  · rename_i g h
    rw [hg1] at h; cases h
    have h1 : (Gen.opSuccess.getD 0x20 false && !(false && isDisabledOpcode (Opcode.ofNat 0x20))) = false := by decide
    simp only [h1, Bool.false_eq_true, if_false]
    rw [scanOpSuccess]
    split
    · rfl
    · rename_i g h
      rw [hg2] at h; cases h
      have h2 : (Gen.opSuccess.getD 0xac false && !(false && isDisabledOpcode (Opcode.ofNat 0xac))) = false := by decide
      simp only [h2, Bool.false_eq_true, if_false]
      rw [scanOpSuccess]
      split
      · rfl
      · rename_i g h; rw [hg3] at h; cases h

/-- tapscript: a one-input script-path spend; `Init` makes the BIP341 data ready (`precomputeInit_single_input_ready`), the
    execution data carry the leaf hash, no annex, a budget: the session exists and `C02_trace` applies to `<key32> OP_CHECKSIG` -/
example (tc : TapCtx) (leafH : Bytes) (sig64 : Bytes) :
    ∃ d, precomputeInit crT txT [oT] false = .ok d ∧
      ∃ e0, setupEnvironment [sig64] scriptT 0 .TAPSCRIPT [] false (edT leafH) none [] [] = .ok e0 ∧
      RelRun (runOps (txCheckerWith crT baseT txT 0 1000 d) tc scriptT.length e0)
        (Spec.evalInstrs (txCfg pT txT 0 1000 [oT] none (some leafH) 0 .TAPSCRIPT false [])
          (Spec.decodePrefix scriptT.length scriptT).1 0 (C01.initSt [sig64] scriptT (edT leafH))) true := by
  obtain ⟨d, hd, h1, h2, h3, hc⟩ := precomputeInit_single_input_ready crT txT iT oT false rfl (Or.inr ⟨by decide, by decide⟩)
  refine ⟨d, hd, ?_⟩
  have hs : ∃ e0, setupEnvironment [sig64] scriptT 0 .TAPSCRIPT [] false (edT leafH) none [] [] = .ok e0 := by
    unfold setupEnvironment IEnv.init
    simp [scanT]
  obtain ⟨e0, he0⟩ := hs
  refine ⟨e0, he0, ?_⟩
  have hpre : SchnorrPre crT (edT leafH) txT 0 none (some ⟨leafH, (edT leafH).codesepPos⟩) .TAPSCRIPT :=
    ⟨rfl, rfl, (fun a ha => by cases ha), ⟨rfl, rfl, rfl, rfl, rfl⟩, Or.inl rfl⟩
  have := C02_trace crT baseT pT pT_match txT 0 1000 d none (some leafH) tc [sig64] scriptT 0 .TAPSCRIPT false (edT leafH) [] [] e0 he0
    (by decide) (by decide) hc (by decide) (fun _ => ⟨rfl, h1, h2, leafH, rfl, hpre⟩) (fun _ => rfl) (fun _ _ h => by cases h)
  rw [h3] at this
  exact this

/-- in-order matching: with a validity relation that only accepts (a, A) and (b, B), the signatures [a, b] match the keys
    [A, X, B], the signatures [b, a] do not -/
example : Matchable (fun s k => (s, k) == (([1] : Bytes), ([10] : Bytes)) || (s, k) == (([2] : Bytes), ([20] : Bytes)))
    [[1], [2]] [[10], [99], [20]] :=
  .take (by decide) (.skip (.take (by decide) (.nil _)))

example : ¬ Matchable (fun s k => (s, k) == (([1] : Bytes), ([10] : Bytes)) || (s, k) == (([2] : Bytes), ([20] : Bytes)))
    [[2], [1]] [[10], [99], [20]] := by
  intro h
  cases h with
  | take hv _ => exact absurd hv (by decide)
  | skip h =>
    cases h with
    | take hv _ => exact absurd hv (by decide)
    | skip h =>
      cases h with
      | take _ h => cases h
      | skip h => cases h

end Examples

end Btcdeb.Proofs.C02
