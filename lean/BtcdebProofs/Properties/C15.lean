/-
  C15 — no input makes the tools crash: the PROOF side.

  The models represent every place where the C++ can die (assertion, arithmetic trap, out-of-bounds access, uncaught
  exception) as an explicit outcome `.abnormal kind` (`StepErr.abnormal` in the interpreter / session monad `M`,
  `VErr.abnormal` in the value-parser monad `VM`).  The theorems here say these outcomes are UNREACHABLE from the
  tools' entry points — and name the one that is reachable.

  1. Sessions.  Every state reachable from `setup_environment` by `step`, `rewind` and `exec` satisfies: a step,
     a run to completion and an `exec` never end abnormally (`C15_session_never_abnormal`, `C15_run_never_abnormal`,
     `C15_noninteractive_never_abnormal`).  Needed: the execution data is initialised as the signature version
     requires (`EdReady`: what `configure_tx_txin` sets; an invariant of stepping, rewinding and `exec`), and the
     signature checker does not die on calls that satisfy its own assertions (`CheckerNoAbnOn`).
  2. The transaction checker of a `--tx` session satisfies `CheckerNoAbnOn` when its input index exists
     (`C15_txChecker_noabn`); its assertions are real (`C15_txChecker_asserts`), they are just never violated.
  3. Start-up (`spendSetup`): never ends abnormally (`C15_spendSetup_noabn`; the only candidate was the
     value-expression evaluator on `--pretend-valid`, `C15_spendSetup_abnormal_only_pretend`); a session it starts has `EdReady` and an existing input index, hence
     never ends abnormally (`C15_spend_session_never_abnormal`).
  4. Value parser (`btcc argv`, `Value(text)`): the two abnormal sites of Model/Value.lean — read past the end of the
     string, `args_string[-1]` — are unreachable (`C15_btcc_noabn`, `C15_valueData_noabn`, `C15_valueOf_noabn`).
     What used to be reachable is gone from the tree: the `scriptnum_error` of `Value::int_value` (inline function
     `int(…)` on data longer than 4 bytes; `btcc 'int(0x0102030405)'` was SIGABRT) is a C++ exception that every
     `main` now catches (`C15_value_exception_reported`), and unbounded nesting is the parse error of
     `Value::DepthGuard` (more than 200 levels: `exit(1)`).
  5. The P2SH hand-over: `assert(!stack.empty())` (now a `SCRIPT_ERR_INVALID_STACK_OPERATION` guard) can be reached
     only with the help of `exec`: in sessions driven by `step`/`rewind` alone the saved stack is never empty at the
     hand-over (`C15_p2sh_saved_stack_nonempty`), because `OP_HASH160` fails on the empty stack it was saved from.
-/
import Btcdeb
import BtcdebProofs.Lemmas.NoAbnormalOn
import BtcdebProofs.Lemmas.CheckerNoAbn
import BtcdebProofs.Lemmas.SessionSafe
import BtcdebProofs.Lemmas.SpendSafe
import BtcdebProofs.Lemmas.ValueNoAbn
import BtcdebProofs.Properties.C04
namespace Btcdeb.Proofs.C15
open Btcdeb Btcdeb.Model

/-! ## 1. sessions -/

/-- BASE sessions need no execution data -/
theorem edReady_base (ed : ExecData) : EdReady .BASE ed :=
  ⟨(fun h => by cases h), (fun h => by cases h)⟩

/-- WITNESS_V0 sessions need no execution data -/
theorem edReady_witness_v0 (ed : ExecData) : EdReady .WITNESS_V0 ed :=
  ⟨(fun h => by cases h), (fun h => by cases h)⟩

/-- the states a debugging session can be in: the fresh environment, and whatever accepted `step`, `rewind` and
    `exec` commands lead to (a refused command changes nothing; a failed step changes nothing) -/
inductive Reach (cx : Ctx) (tc : TapCtx) (e0 : IEnv) : IEnv → Prop
  | start : Reach cx tc e0 e0
  | step {e e' : IEnv} : Reach cx tc e0 e → instStep cx tc e = .ok e' → Reach cx tc e0 e'
  | rewind {e e' : IEnv} : Reach cx tc e0 e → instRewind e = some e' → Reach cx tc e0 e'
  | exec {e e' : IEnv} {args : List Bytes} {err : Option StepErr} :
      Reach cx tc e0 e → instEval cx e args = some (e', err) → Reach cx tc e0 e'

/-- the same without `exec` -/
inductive ReachSR (cx : Ctx) (tc : TapCtx) (e0 : IEnv) : IEnv → Prop
  | start : ReachSR cx tc e0 e0
  | step {e e' : IEnv} : ReachSR cx tc e0 e → instStep cx tc e = .ok e' → ReachSR cx tc e0 e'
  | rewind {e e' : IEnv} : ReachSR cx tc e0 e → instRewind e = some e' → ReachSR cx tc e0 e'

theorem ReachSR.reach {cx : Ctx} {tc : TapCtx} {e0 e : IEnv} (h : ReachSR cx tc e0 e) : Reach cx tc e0 e := by
  induction h with
  | start => exact .start
  | step _ hs ih => exact .step ih hs
  | rewind _ hs ih => exact .rewind ih hs

/-- the histories of C04 (`execHist` over `step` / `rewind` commands) stay inside `ReachSR` -/
theorem reachSR_of_execHist (cx : Ctx) (tc : TapCtx) (e0 : IEnv) : ∀ (cmds : List C04.Cmd) (e1 : IEnv) (n : Int) (e : IEnv) (m : Int),
    ReachSR cx tc e0 e1 → C04.execHist cx tc cmds (e1, n) = some (e, m) → ReachSR cx tc e0 e := by
  intro cmds
  induction cmds with
  | nil => intro e1 n e m hr h; simp only [C04.execHist, Option.some.injEq, Prod.mk.injEq] at h; rw [← h.1]; exact hr
  | cons c cs ih =>
    intro e1 n e m hr h
    simp only [C04.execHist] at h
    cases hc : C04.execCmd cx tc e1 c with
    | none => simp [hc] at h
    | some r =>
      obtain ⟨e2, d⟩ := r
      simp only [hc] at h
      refine ih e2 (n + d) e m ?_ h
      cases c with
      | step =>
        simp only [C04.execCmd] at hc
        split at hc
        · simp only [Option.some.injEq, Prod.mk.injEq] at hc; rw [← hc.1]; exact hr
        · rename_i hd
          split at hc
          · rename_i e' hs
            simp only [Option.some.injEq, Prod.mk.injEq] at hc
            rw [← hc.1]
            exact .step hr (by simp [instStep, hd, hs])
          · cases hc
      | rewind =>
        simp only [C04.execCmd] at hc
        split at hc
        · rename_i e' hrw
          simp only [Option.some.injEq, Prod.mk.injEq] at hc
          rw [← hc.1]
          exact .rewind hr hrw
        · simp only [Option.some.injEq, Prod.mk.injEq] at hc; rw [← hc.1]; exact hr

theorem instStep_ok {cx : Ctx} {tc : TapCtx} {e e' : IEnv} (h : instStep cx tc e = .ok e') :
    stepSession cx tc e = .ok e' := by
  unfold instStep at h
  split at h
  · cases h
  · exact h

/-- `Ready` (execution data initialised now and in every history entry; condition stack well-formed) holds in every
    reachable state -/
theorem reach_ready (cx : Ctx) (hcx : CheckerNoAbnOn cx) (tc : TapCtx) (e0 e : IEnv) (h0 : e0.Ready)
    (h : Reach cx tc e0 e) : e.Ready := by
  induction h with
  | start => exact h0
  | step _ hs ih => exact stepSession_ready cx tc _ _ ih (instStep_ok hs)
  | rewind _ hs ih => exact instRewind_ready _ _ ih hs
  | exec _ hs ih => exact (instEval_ready cx hcx _ _ _ _ ih hs).1

/-- the full invariant (with the P2SH clause) holds in every state reachable without `exec` -/
theorem reachSR_safe (cx : Ctx) (tc : TapCtx) (e0 e : IEnv) (h0 : e0.Safe) (h : ReachSR cx tc e0 e) : e.Safe := by
  induction h with
  | start => exact h0
  | step _ hs ih => exact stepSession_safe cx tc _ _ ih (instStep_ok hs)
  | rewind _ hs ih => exact instRewind_safe _ _ ih hs

/-- **C15, sessions.**  In every state `e` a session can reach from `setup_environment` — by any sequence of `step`,
    `rewind` and `exec` commands, for every script, stack, flag set, signature version, successor script, taproot
    commitment environment and mock-signature table — neither `StepScript(InterpreterEnv&)`, nor `Instance::step`,
    nor an `exec` ends abnormally (assertion failure, trap, undefined behaviour): each returns, reports a script error,
    or throws a C++ exception that its caller catches.
    Hypotheses: the execution data handed to `setup_environment` is initialised as the signature version requires
    (`EdReady`; trivially true for BASE / WITNESS_V0, established by `configure_tx_txin` for TAPROOT / TAPSCRIPT:
    `configureTxTxin_edReady`), and the signature checker does not die on calls that satisfy its own assertions
    (`CheckerNoAbnOn`; true of `BaseSignatureChecker` and, by `C15_txChecker_noabn`, of the transaction checker). -/
theorem C15_session_never_abnormal (cx : Ctx) (hcx : CheckerNoAbnOn cx) (tc : TapCtx)
    (stack : List Bytes) (script : Bytes) (flags : Nat) (sv : SigVersion) (successor : Bytes) (allowDisabled : Bool)
    (execdata : ExecData) (tce : Option Tce) (pm : List (Bytes × Bytes)) (pk : List Bytes) (e0 e : IEnv)
    (hsetup : setupEnvironment stack script flags sv successor allowDisabled execdata tce pm pk = .ok e0)
    (hed : EdReady sv execdata) (hreach : Reach cx tc e0 e) :
    (∀ k, stepSession cx tc e ≠ .error (.abnormal k)) ∧
    (∀ k, instStep cx tc e ≠ .error (.abnormal k)) ∧
    (∀ args e' err, instEval cx e args = some (e', err) → ∀ k, err ≠ some (.abnormal k)) := by
  have hr := reach_ready cx hcx tc e0 e (setupEnvironment_safe hsetup hed).ready hreach
  have hstep := stepSession_noabn cx hcx tc e hr.see.ed
  refine ⟨hstep, ?_, ?_⟩
  · intro k h
    unfold instStep at h
    split at h
    · cases h
    · exact hstep k h
  · intro args e' err h
    exact (instEval_ready cx hcx e e' args err hr h).2

/-- `ContinueScript` from a ready state never ends abnormally, whatever the iteration bound -/
theorem continueScript_noabn (cx : Ctx) (hcx : CheckerNoAbnOn cx) (tc : TapCtx) :
    ∀ (fuel : Nat) (e : IEnv), e.Ready → NoAbn (continueScript cx tc fuel e) := by
  intro fuel
  induction fuel with
  | zero => intro e _ k h; simp [continueScript, pure, Except.pure] at h
  | succ n ih =>
    intro e hr k h
    simp only [continueScript] at h
    split at h
    · simp [pure, Except.pure] at h
    · cases hs : stepSession cx tc e with
      | error x =>
        simp only [hs, bind, Except.bind] at h
        cases h
        exact stepSession_noabn cx hcx tc e hr.see.ed k hs
      | ok e1 =>
        simp only [hs, bind, Except.bind] at h
        exact ih e1 (stepSession_ready cx tc e e1 hr hs) k h

/-- **C15, run to completion** (upgrades `C08_no_abnormal_partial`, which covered operation steps only): from every
    reachable state of a session, `ContinueScript` never ends abnormally -/
theorem C15_run_never_abnormal (cx : Ctx) (hcx : CheckerNoAbnOn cx) (tc : TapCtx)
    (stack : List Bytes) (script : Bytes) (flags : Nat) (sv : SigVersion) (successor : Bytes) (allowDisabled : Bool)
    (execdata : ExecData) (tce : Option Tce) (pm : List (Bytes × Bytes)) (pk : List Bytes) (e0 e : IEnv)
    (hsetup : setupEnvironment stack script flags sv successor allowDisabled execdata tce pm pk = .ok e0)
    (hed : EdReady sv execdata) (hreach : Reach cx tc e0 e) (fuel : Nat) :
    ∀ k, continueScript cx tc fuel e ≠ .error (.abnormal k) :=
  continueScript_noabn cx hcx tc fuel e
    (reach_ready cx hcx tc e0 e (setupEnvironment_safe hsetup hed).ready hreach)

/-- **C15 / C08, non-interactive btcdeb** (`btcdeb <script> <stack…>` with pipes): the process never dies, for every
    script, stack, flag set and checker that satisfies `CheckerNoAbnOn` -/
theorem C15_noninteractive_never_abnormal (cx : Ctx) (hcx : CheckerNoAbnOn cx) (tc : TapCtx) (script : Bytes)
    (stack : List Bytes) (flags : Nat) (z : Bool) (k : String) :
    nonInteractive cx tc script stack flags z ≠ .abnormal k := by
  intro h
  unfold nonInteractive at h
  split at h
  · cases h
  · split at h
    · cases h
    · rename_i e0 hs
      have hed : EdReady .BASE ({} : ExecData) := edReady_base _
      have hr := (setupEnvironment_safe hs hed).ready
      split at h
      · cases h
      · cases h
      · cases h
      · rename_i k' hk
        exact continueScript_noabn cx hcx tc _ e0 hr k' hk

/-- the checker of a session without `--tx` (`BaseSignatureChecker`) satisfies the hypothesis -/
theorem C15_base_checker (cx : Ctx) (h : ∀ a b c d, cx.checkSchnorr a b c d = .error (.script .UNKNOWN_ERROR)) :
    CheckerNoAbnOn cx := by
  intro a b c d _ k hk; rw [h] at hk; cases hk

/-- **C15, the P2SH hand-over.**  In a session driven by `step` and `rewind` alone, whenever the end of a
    P2SH-pattern script is reached (`pc = []`, `is_p2sh`), the stack saved for the redeem script is not empty: the
    `assert(!stack.empty())` of the original code (since 614eed0 a `SCRIPT_ERR_INVALID_STACK_OPERATION` guard) is
    never reached.  With `exec` it is (the command can put the hashed item on the stack after the empty stack
    was saved): that was a genuine crash. -/
theorem C15_p2sh_saved_stack_nonempty (cx : Ctx) (tc : TapCtx)
    (stack : List Bytes) (script : Bytes) (flags : Nat) (sv : SigVersion) (successor : Bytes) (allowDisabled : Bool)
    (execdata : ExecData) (tce : Option Tce) (pm : List (Bytes × Bytes)) (pk : List Bytes) (e0 e : IEnv)
    (hsetup : setupEnvironment stack script flags sv successor allowDisabled execdata tce pm pk = .ok e0)
    (hed : EdReady sv execdata) (hreach : ReachSR cx tc e0 e) (hpc : e.pc = []) (hp : e.isP2sh = true) :
    e.p2shStack ≠ [] :=
  (reachSR_safe cx tc e0 e (setupEnvironment_safe hsetup hed) hreach).saved_nonempty hpc hp

/-! ## 2. the transaction checker -/

/-- **C15, transaction checker.**  `TransactionSignatureChecker(tx, nIn, amount, txdata, FAIL)` as a `Ctx`: on every
    `CheckSchnorrSignature` call whose arguments satisfy the assertions of `SignatureHashSchnorr` (`SchnorrReady`:
    signature version TAPROOT or TAPSCRIPT, `m_annex_init`, and for tapscript `m_tapleaf_hash_init`,
    `m_codeseparator_pos_init`) it returns true/false or throws — provided the input index exists.
    Sessions only make such calls: `evalChecksig` passes `.TAPROOT` or the session's TAPSCRIPT version together with
    the session's execution data, which is `EdReady` (see `step_noabn_on`). -/
theorem C15_txChecker_noabn (cr : SigCrypto) (base : Ctx) (tx : Tx) (nIn : Nat) (amount : Int) (txdata : PrecomputedTxData)
    (hin : nIn < tx.vin.length) : CheckerNoAbnOn (txCheckerWith cr base tx nIn amount txdata) :=
  txCheckerWith_noabn cr base tx nIn amount txdata hin

/-- the same for the concrete checker the driver runs, whatever `txdata.Init` was given -/
theorem C15_glue_checker_noabn (tx : Tx) (nIn : Nat) (amount : Int) (init : Option (List TxOut × Bool))
    (hin : nIn < tx.vin.length) : CheckerNoAbnOn (Glue.checkerBuilder.build tx nIn amount init) := by
  unfold Glue.checkerBuilder
  simp only [txChecker]
  exact txCheckerWith_noabn _ _ tx nIn amount _ hin

/-- the assertions are real: outside `SchnorrReady` the checker dies (here: a BASE signature version).  No session
    makes such a call: under BASE / WITNESS_V0 `evalChecksig` takes the ECDSA path and `OP_CHECKSIGADD` is a
    `BAD_OPCODE`. -/
theorem C15_txChecker_asserts (cr : SigCrypto) (base : Ctx) (tx : Tx) (nIn : Nat) (amount : Int)
    (txdata : PrecomputedTxData) (sig key : Bytes) (ed : ExecData) :
    (txCheckerWith cr base tx nIn amount txdata).checkSchnorr sig key .BASE ed =
      .error (.abnormal "assert(sigversion == TAPROOT || sigversion == TAPSCRIPT)") :=
  txCheckerWith_asserts_sigversion cr base tx nIn amount txdata sig key ed

/-- the ECDSA side, unabridged (`Ctx.checkECDSA` is its Boolean answer): `SignatureHash` asserts `nIn < vin.size()`
    and nothing else; `HandleMissingData(FAIL)` returns false -/
theorem C15_txChecker_ecdsa_noabn (cr : SigCrypto) (tx : Tx) (nIn : Nat) (amount : Int) (txdata : PrecomputedTxData)
    (sig key code : Bytes) (sv : SigVersion) (hin : nIn < tx.vin.length) (k : String) :
    checkECDSASignatureM cr tx nIn amount txdata .fail sig key code sv ≠ .error (.abnormal k) :=
  checkECDSASignatureM_noabn cr tx nIn amount txdata sig key code sv hin k

/-! ## 3. start-up of a `--tx` session -/

/-- **C15, start-up.**  `spendSetup` (`parse_transaction` … `setup_environment`) ends abnormally ONLY if the
    value-expression evaluator does so on the `--pretend-valid` text -/
theorem C15_spendSetup_abnormal_only_pretend (h : HashCtx) (tc : TapCtx) (vcx : VCtx) (cb : CheckerBuilder)
    (a : SpendArgs) (k : String) (hk : spendSetup h tc vcx cb a = .error (.abnormal k)) :
    ∃ p, a.pretend = some p ∧ parsePretendValidExpr vcx p = .error (.abnormal k) :=
  spendSetup_abnormal_only_pretend h tc vcx cb a k hk

/-- …which it never does (see section 4): start-up never ends abnormally -/
theorem C15_spendSetup_noabn (h : HashCtx) (tc : TapCtx) (vcx : VCtx) (cb : CheckerBuilder) (a : SpendArgs)
    (k : String) : spendSetup h tc vcx cb a ≠ .error (.abnormal k) :=
  spendSetup_noabn h tc vcx cb a k

/-- what `configure_tx_txin` leaves is initialised as its signature version requires -/
theorem C15_configure_edReady (h : HashCtx) (tc : TapCtx) (tx txin : Tx) (idx vout : Nat) (sv : SigVersion)
    (c : Configured) (hc : configureTxTxin h tc tx txin idx vout sv = some c) : EdReady c.sigver c.execdata :=
  configureTxTxin_edReady h tc tx txin idx vout sv c hc

/-- a session that `spendSetup` starts: invariants hold, the checker's input index exists, and `txdata.Init` got one
    spent output per input (its own assertion holds) -/
theorem C15_spendSetup_good (h : HashCtx) (tc : TapCtx) (vcx : VCtx) (cb : CheckerBuilder) (a : SpendArgs)
    (s : SpendSession) (hk : spendSetup h tc vcx cb a = .ok (.ok s)) : s.Good cb :=
  spendSetup_good h tc vcx cb a s hk

/-- `PrecomputedTransactionData::Init` as `setup_environment` calls it never asserts -/
theorem C15_spend_init_never_asserts (cr : SigCrypto) (h : HashCtx) (tc : TapCtx) (vcx : VCtx) (cb : CheckerBuilder)
    (a : SpendArgs) (s : SpendSession) (hk : spendSetup h tc vcx cb a = .ok (.ok s)) :
    ∃ (tx : Tx) (nIn : Nat) (amount : Int) (init : Option (List TxOut × Bool)),
      s.cx = cb.build tx nIn amount init ∧
      ∀ spent force, init = some (spent, force) → ∃ d, precomputeInit cr tx spent force = .ok d := by
  obtain ⟨tx, nIn, amount, init, hcx, _, hinit⟩ := (spendSetup_good h tc vcx cb a s hk).checker
  refine ⟨tx, nIn, amount, init, hcx, ?_⟩
  intro spent force hi
  have hl := hinit spent force hi
  unfold precomputeInit
  simp [hl]

/-- **C15, `--tx` sessions end to end.**  A session started by `spendSetup` — any transaction text, `--txin`,
    `--select`, flags, `--pretend-valid`, explicit script and stack — with a checker builder whose checkers satisfy
    `CheckerNoAbnOn` for existing input indices (true of the real one: `C15_glue_checker_noabn`) never ends
    abnormally in any state reachable by `step`, `rewind`, `exec`, nor when run to completion. -/
theorem C15_spend_session_never_abnormal (h : HashCtx) (tc : TapCtx) (vcx : VCtx) (cb : CheckerBuilder)
    (hcb : ∀ tx nIn amount init, nIn < tx.vin.length → CheckerNoAbnOn (cb.build tx nIn amount init))
    (a : SpendArgs) (s : SpendSession) (hk : spendSetup h tc vcx cb a = .ok (.ok s)) (e : IEnv)
    (hreach : Reach s.cx tc s.env e) :
    (∀ k, stepSession s.cx tc e ≠ .error (.abnormal k)) ∧
    (∀ args e' err, instEval s.cx e args = some (e', err) → ∀ k, err ≠ some (.abnormal k)) ∧
    (∀ fuel k, continueScript s.cx tc fuel e ≠ .error (.abnormal k)) := by
  have hg := spendSetup_good h tc vcx cb a s hk
  obtain ⟨tx, nIn, amount, init, hcxeq, hin, _⟩ := hg.checker
  have hcx : CheckerNoAbnOn s.cx := by rw [hcxeq]; exact hcb tx nIn amount init hin
  have hr := reach_ready s.cx hcx tc s.env e hg.safe.ready hreach
  refine ⟨stepSession_noabn s.cx hcx tc e hr.see.ed, ?_, ?_⟩
  · intro args e' err he
    exact (instEval_ready s.cx hcx e e' args err hr he).2
  · intro fuel
    exact continueScript_noabn s.cx hcx tc fuel e hr

/-- the same for the concrete instance the driver runs against the C++ -/
theorem C15_glue_spend_session_never_abnormal (h : HashCtx) (tc : TapCtx) (vcx : VCtx) (a : SpendArgs) (s : SpendSession)
    (hk : spendSetup h tc vcx Glue.checkerBuilder a = .ok (.ok s)) (e : IEnv) (hreach : Reach s.cx tc s.env e) :
    (∀ k, stepSession s.cx tc e ≠ .error (.abnormal k)) ∧
    (∀ args e' err, instEval s.cx e args = some (e', err) → ∀ k, err ≠ some (.abnormal k)) ∧
    (∀ fuel k, continueScript s.cx tc fuel e ≠ .error (.abnormal k)) :=
  C15_spend_session_never_abnormal h tc vcx Glue.checkerBuilder
    (fun tx nIn amount init hin => C15_glue_checker_noabn tx nIn amount init hin) a s hk e hreach

/-! ## 4. the value parser -/

/-- **C15, `btcc argv`.**  Whatever the arguments: no abnormal outcome — the read past the end of the string and
    `args_string[-1]` are unreachable; a script number overflow in `int(…)` is caught by `main` (exit status 1);
    nesting beyond 200 levels is a parse error (exit status 1). -/
theorem C15_btcc_noabn (cx : VCtx) (argv : List Bytes) (k : String) : btcc cx argv ≠ .error (.abnormal k) :=
  btcc_noabn cx argv k

/-- **C15, `Value(text)`** (how btcdeb and tap read script and stack arguments, `--pretend-valid` fields, …) -/
theorem C15_valueData_noabn (cx : VCtx) (text : Bytes) (k : String) : valueData cx text ≠ .error (.abnormal k) :=
  valueData_noabn cx text k

/-- the constructor in general: whatever nesting budget and whatever length argument is passed -/
theorem C15_valueOf_noabn (cx : VCtx) (fuel : Nat) (full : Bytes) (vlen : Nat) (k : String) :
    valueOf cx fuel full vlen ≠ .error (.abnormal k) :=
  valueOf_noabn cx fuel full vlen k

/-- appending values to a script (`operator>>`) never dies: `int_value()` is only consulted for data shorter than 5 bytes -/
theorem C15_appendAll_noabn (vs : List Value) (s : Bytes) (k : String) : appendAll vs s ≠ .error (.abnormal k) :=
  appendAll_noabn vs s k

/-- what used to be the reachable abnormal outcome (`btcc 'int(0x0102030405)'`: uncaught `scriptnum_error`, SIGABRT)
    is an exception the tools report: `error: script number overflow`, exit status 1 (f7842e6 / 3d7351f / 5c2ae96);
    `Value(text)` itself raises it, the callers' `main`s catch it -/
theorem C15_value_exception_reported (cx : VCtx) :
    btcc cx [[105, 110, 116, 40, 48, 120, 48, 49, 48, 50, 48, 51, 48, 52, 48, 53, 41]]
      = .error (.exit1 "error: script number overflow") ∧
    valueData cx [105, 110, 116, 40, 48, 120, 48, 49, 48, 50, 48, 51, 48, 52, 48, 53, 41]
      = .error (.exc "script number overflow") := ⟨by rfl, by rfl⟩

/-! ## 5. non-vacuity -/

/-- the literal above is the text `int(0x0102030405)` -/
example : "int(0x0102030405)".toList.map (fun c => UInt8.ofNat c.toNat)
    = [105, 110, 116, 40, 48, 120, 48, 49, 48, 50, 48, 51, 48, 52, 48, 53, 41] := by decide

/-- a toy context (hash functions are irrelevant to the examples) -/
def toyCtx : Ctx where
  sha256 := fun b => b
  ripemd160 := fun b => b
  sha1 := fun b => b
  checkLowS := fun _ => true
  checkLockTime := fun _ => false
  checkSequence := fun _ => false
  checkECDSA := fun _ _ _ _ => false
  checkSchnorr := fun _ _ _ _ => .error (.script .UNKNOWN_ERROR)

def toyTap : TapCtx where
  taggedHash := fun _ b => b
  checkTapTweak := fun _ _ _ _ => true

theorem toyCtx_ok : CheckerNoAbnOn toyCtx := C15_base_checker toyCtx (fun _ _ _ _ => rfl)

/-- `EdReady` is satisfiable for a tapscript session (the shape `configure_tx_txin` produces) … -/
example : EdReady .TAPSCRIPT { annexInit := true, tapleafHashInit := true, weightInit := true, weightLeft := 100 } :=
  ⟨(fun h => by cases h), (fun _ => ⟨rfl, rfl, rfl, rfl⟩)⟩

/-- … and is NOT implied by nothing: default-constructed execution data is not ready for tapscript (the model's
    `assert(execdata.m_validation_weight_left_init)` would fire on the first signature check) -/
example : ¬ EdReady .TAPSCRIPT ({} : ExecData) := by
  intro h; have := (h.2 rfl).1; cases this

/-- `SchnorrReady` is satisfiable -/
example : SchnorrReady .TAPROOT { annexInit := true } := ⟨Or.inl rfl, rfl, fun h => by cases h⟩

def toyTce : Tce :=
  { control := [], program := [], script := [0x51], pathLen := 1, p := [], q := [], k := [], leaf := [7] }

/-- a session exists and steps (here: the first Merkle step of a commitment phase), so `Reach` has more than the
    start state in it -/
example : ∃ e0 e1 : IEnv,
    setupEnvironment [] [0x51] 0 .BASE [] false {} (some toyTce) [] [] = .ok e0 ∧
    instStep toyCtx toyTap e0 = .ok e1 ∧ e1.currOpSeq = 1 ∧ Reach toyCtx toyTap e0 e1 := by
  refine ⟨_, _, rfl, rfl, rfl, .step .start rfl⟩

/-- the hypotheses of `C15_session_never_abnormal` are satisfiable together: every state of the session
    `btcdeb '[OP_DUP OP_ADD]' 1` is covered -/
example : ∃ e0 : IEnv, setupEnvironment [[1]] [0x76, 0x93] 0 .BASE [] false {} none [] [] = .ok e0 ∧
    ∀ e, Reach toyCtx toyTap e0 e → ∀ k, stepSession toyCtx toyTap e ≠ .error (.abnormal k) := by
  refine ⟨_, rfl, ?_⟩
  intro e hr
  have hs : setupEnvironment [[1]] [0x76, 0x93] 0 .BASE [] false {} none [] [] = .ok _ := rfl
  exact (C15_session_never_abnormal toyCtx toyCtx_ok toyTap _ _ _ _ _ _ _ _ _ _ _ e hs (edReady_base _) hr).1

/-- …and for the transaction checker with an input index that exists -/
example (cr : SigCrypto) (tx : Tx) (i : TxIn) (h : tx.vin = [i]) :
    CheckerNoAbnOn (txCheckerWith cr toyCtx tx 0 0 {}) :=
  C15_txChecker_noabn cr toyCtx tx 0 0 {} (by simp [h])

end Btcdeb.Proofs.C15
