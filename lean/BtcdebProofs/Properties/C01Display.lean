/-
  C01, the part about what the user SEES — the commands `stack`, `altstack`, `vfexec` of an interactive session
  (`fn_stack`, `fn_altstack`, `fn_vfexec` → `print_stack`, `print_bool_stack`, functions.cpp:197-234; model:
  Btcdeb/Model/Display.lean; specification of the texts: Btcdeb/Spec/Display.lean).
  Property theorems only; helper lemmas are in BtcdebProofs/Lemmas/Display.lean.  All statements are for every stack
  (any number of items, items of any length and any bytes, the empty item included), every condition stack and every
  session state; no size bound anywhere.

  (a) EXACT TEXT.  `C01_stack_text`, `C01_raw_text`, `C01_vfexec_text`: what is printed, as a function of the state
      (= the specification's rendering).  `C01_stack_lines`, `C01_line_number`, `C01_number_width`: line k from the
      top carries the number k, two digits up to 99 and all its digits from 100 on; `C01_top_marker`.
  (b) FAITHFULNESS.  `C01_readStack`, `C01_readRaw`, `C01_readCond`: the state is read back from its display; hence
      `C01_printStack_injective`, `C01_display_determines_state`, `C01_display_determines_spec`.  For the conditional nesting the display shows — and
      the compressed `ConditionStack` stores — the depth and the position of the first false level:
      `C01_showCond_eq_iff` says that this is exactly what can be recovered of the specification's list of levels;
      every level inside the first false one is displayed `00` whatever it is (`C01_vfexec_entries`).
  (c) COMPOSED WITH THE REFINEMENT (`C01_trace`).  `C01_display_of_rel`, `C01_display_initial`, `C01_display_trace`:
      at the start and after every operation of a session the three displays are the renderings of the state
      Bitcoin's rules prescribe; `C01_display_history`: the same after every history over {step, rewind}.
-/
import Btcdeb
import BtcdebProofs.Lemmas.Display
import BtcdebProofs.Lemmas.DisplayRun
import BtcdebProofs.Properties.C01
import BtcdebProofs.Properties.C04
namespace Btcdeb.Proofs.C01Display
open Btcdeb Btcdeb.Model Btcdeb.Refine Btcdeb.Display

-- (a) exact text ------------------------------------------------------------------------------------------------------

/-- `stack` / `altstack`: the text printed for a stack (vector order, bottom first) is the specification's rendering of
    it read from the top: `- empty stack -`, or one line per item from the top down, numbered from 1, the first marked -/
theorem C01_stack_text (stack : List Bytes) : printStack stack false = Spec.showStack stack.reverse :=
  printStack_eq_showStack stack

/-- raw mode (the last output of a piped run): one hex line per item, bottom first; nothing for an empty stack -/
theorem C01_raw_text (stack : List Bytes) : printStack stack true = Spec.showRaw stack.reverse :=
  printStack_raw_eq_showRaw stack

/-- `vfexec`: the text printed for a condition stack that represents the nesting `l` (innermost level first) is the
    specification's rendering of `l` -/
theorem C01_vfexec_text (c : CondStack) (l : List Bool) (h : CondRel c l) : printBoolStack c = Spec.showCond l :=
  printBoolStack_eq_showCond h

/-- the lines of the numbered display: the empty-stack line, or line `k` (counted from 0) = number `k + 1`, TAB, the hex
    of the item `k` below the top, and the marker on the first line (`linesFrom`, `stackLine`) -/
theorem C01_stack_lines (stack : List Bytes) :
    splitLines (printStack stack false) = if stack = [] then [emptyStackLine] else linesFrom 0 stack.reverse := by
  rw [printStack_numbered]
  split
  · exact splitLines_unlines _ (by intro l hl; simp at hl; subst hl; exact emptyStackLine_no_newline)
  · exact splitLines_unlines _ (linesFrom_no_newline _ _)

/-- line `k` of a stack display shows the item `k` below the top under the number `k + 1` -/
theorem C01_stack_line (stack : List Bytes) (k : Nat) (hk : k < stack.length) :
    (splitLines (printStack stack false))[k]? = some (stackLine (k + 1) (stack.reverse.getD k [])) := by
  have hne : stack ≠ [] := by intro h; subst h; simp at hk
  rw [C01_stack_lines, if_neg hne]
  have key : ∀ (items : List Bytes) (i k : Nat), k < items.length →
      (linesFrom i items)[k]? = some (stackLine (i + k + 1) (items.getD k [])) := by
    intro items
    induction items with
    | nil => intro i k hk; simp at hk
    | cons it rest ih =>
      intro i k hk
      cases k with
      | zero => simp [linesFrom]
      | succ k =>
        simp only [linesFrom, List.getElem?_cons_succ]
        rw [ih (i + 1) k (by simpa using hk)]
        have : i + 1 + k + 1 = i + (k + 1) + 1 := by omega
        simp [this]
  have := key stack.reverse 0 k (by simpa using hk)
  simpa using this

/-- the number on a line is read back as the position of the line: numbering starts at 1 at the top and never repeats -/
theorem C01_line_number (i : Nat) (it : Bytes) : readNumber (stackLine i it) = i := readNumber_stackLine i it

/-- `%02d`: two digits below 100 (a leading `0` below 10); from 100 on the field widens — no digit is lost -/
theorem C01_number_width (n : Nat) :
    (n < 10 → dec02 n = ['0', Nat.digitChar n]) ∧ (n < 100 → (dec02 n).length = 2) ∧
    (10 ≤ n → dec02 n = Nat.toDigits 10 n) ∧ (100 ≤ n → 3 ≤ (dec02 n).length) := by
  have hle1 : (Nat.toDigits 10 n).length ≤ 1 ↔ n < 10 := by
    rw [Nat.length_toDigits_le_iff (by decide) (by decide)]
  have hle2 : (Nat.toDigits 10 n).length ≤ 2 ↔ n < 100 := by
    rw [Nat.length_toDigits_le_iff (by decide) (by decide)]
  have hpos : 0 < (Nat.toDigits 10 n).length := Nat.length_toDigits_pos
  refine ⟨?_, ?_, ?_, ?_⟩
  · intro h; simp [dec02, Nat.toDigits_of_lt_base h]
  · intro h
    have := hle2.mpr h
    simp only [dec02, List.length_append, List.length_replicate]; omega
  · intro h
    have : ¬ (Nat.toDigits 10 n).length ≤ 1 := fun h' => by have := hle1.mp h'; omega
    have : 2 - (Nat.toDigits 10 n).length = 0 := by omega
    simp [dec02, this]
  · intro h
    have : ¬ (Nat.toDigits 10 n).length ≤ 2 := fun h' => by have := hle2.mp h'; omega
    simp only [dec02, List.length_append, List.length_replicate]; omega

/-- the marker `(top)` stands on line 1 and on no other -/
theorem C01_top_marker (i : Nat) (it : Bytes) :
    stackLine i it = ['<'] ++ dec02 i ++ ['>', '\t'] ++ hexStr it ++ (if i = 1 then topMark else []) := by
  unfold stackLine; by_cases h : i = 1 <;> simp [h]

-- (b) faithfulness ----------------------------------------------------------------------------------------------------

/-- THE DISPLAY DETERMINES THE STACK: reading the numbered display back gives exactly the stack that was printed —
    every item, in order; the empty item, items of any length, any number of items (the field of the number widening
    from 100 on does not disturb it) -/
theorem C01_readStack (stack : List Bytes) : readStack (printStack stack false) = some stack := by
  unfold readStack
  rw [C01_stack_lines]
  by_cases h : stack = []
  · subst h; simp
  · have hne : (linesFrom 0 stack.reverse == [emptyStackLine]) = false := by
      cases hr : stack.reverse with
      | nil => exact absurd (List.reverse_eq_nil_iff.mp hr) h
      | cons it rest =>
        simp only [linesFrom, stackLine, emptyStackLine]
        cases rest <;> simp [linesFrom]
    simp only [if_neg h, hne, Bool.false_eq_true, if_false, mapM_readItem_linesFrom]
    simp

/-- the raw display determines the stack as well -/
theorem C01_readRaw (stack : List Bytes) : readRaw (printStack stack true) = some stack := by
  unfold readRaw printStack
  simp only [if_true]
  rw [splitLines_unlines]
  · induction stack with
    | nil => rfl
    | cons it rest ih => simp [List.mapM_cons, ofHexChars_hexStr, ih]
  · intro l hl c hc
    simp only [List.mem_map] at hl
    obtain ⟨it, _, rfl⟩ := hl
    exact (plain_hexStr it c hc).2.1

/-- two stacks with the same display (either mode) are the same stack: no item is lost, merged or reordered -/
theorem C01_printStack_injective (raw : Bool) (a b : List Bytes) (h : printStack a raw = printStack b raw) : a = b := by
  cases raw
  · have := C01_readStack a; rw [h, C01_readStack b] at this; exact (Option.some.inj this).symm
  · have := C01_readRaw a; rw [h, C01_readRaw b] at this; exact (Option.some.inj this).symm

/-- a condition stack without the unreachable junk: a first-false position outside the stack is no position -/
def normCond (c : CondStack) : CondStack :=
  { c with firstFalse := match c.firstFalse with
      | none => none
      | some p => if p < c.size then some p else none }

theorem normCond_wf (c : CondStack) (hw : c.Wf) : normCond c = c := by
  unfold normCond
  cases hf : c.firstFalse with
  | none => cases c; simp_all
  | some p => have := hw p hf; cases c; simp_all

/-- what `vfexec` displays is read back as the condition stack itself — size and first false position — for EVERY
    value of the two fields (a position outside the stack, which no operation produces, is displayed like "none") -/
theorem C01_readCond_all (c : CondStack) : readCond (printBoolStack c) = some (normCond c) := by
  unfold readCond
  rw [printBoolStack_eq]
  by_cases hz : c.size = 0
  · rw [if_pos hz, splitLines_unlines _ (by intro l hl; simp at hl; subst hl; exact emptyStackLine_no_newline)]
    simp only [BEq.rfl, if_true, normCond, hz]
    cases c with
    | mk sz ff => cases ff <;> simp_all
  · rw [if_neg hz, splitLines_unlines _ (boolLinesFrom_no_newline _ _)]
    have hlen : c.toList.length = c.size := by simp [CondStack.toList]
    have hne : (boolLinesFrom 0 c.toList.reverse == [emptyStackLine]) = false := by
      cases hr : c.toList.reverse with
      | nil =>
        have : c.toList.length = 0 := by rw [← List.length_reverse, hr]; rfl
        omega
      | cons b rest =>
        simp only [boolLinesFrom, boolLine, emptyStackLine]
        cases rest <;> simp [boolLinesFrom]
    simp only [hne, Bool.false_eq_true, if_false, mapM_readBool_boolLinesFrom, Option.map_some, List.reverse_reverse,
      List.length_reverse, hlen, findIdx_toList, normCond]
    rfl

/-- THE DISPLAY DETERMINES THE CONDITION STACK (well-formed, as every reachable one is: Lemmas/CondWf.lean) -/
theorem C01_readCond (c : CondStack) (hw : c.Wf) : readCond (printBoolStack c) = some c := by
  rw [C01_readCond_all, normCond_wf c hw]

/-- two session states whose three displays agree have the same main stack, alt stack and condition stack -/
theorem C01_display_determines_state (e1 e2 : IEnv) (hw1 : e1.see.cond.Wf) (hw2 : e2.see.cond.Wf)
    (h : shown e1 = shown e2) :
    e1.see.stack = e2.see.stack ∧ e1.see.altstack = e2.see.altstack ∧ e1.see.cond = e2.see.cond := by
  simp only [shown, fnStack, fnAltstack, fnVfexec, Prod.mk.injEq] at h
  refine ⟨C01_printStack_injective false _ _ h.1, C01_printStack_injective false _ _ h.2.1, ?_⟩
  have := C01_readCond _ hw1
  rw [h.2.2, C01_readCond _ hw2] at this
  exact (Option.some.inj this).symm

/-- the compressed condition stack of a nesting `l` (innermost first) -/
def condOf (l : List Bool) : CondStack := { size := l.length, firstFalse := firstFalseOuter l }

theorem condRel_condOf (l : List Bool) : CondRel (condOf l) l :=
  ⟨rfl, rfl, fun _ hp => firstFalseOuter_lt hp⟩

/-- WHAT IS AND IS NOT RECOVERABLE of the specification's nesting from the `vfexec` display: its depth and the
    position of its first false level counted from the outside — exactly that, nothing more, nothing less.  Levels
    inside the first false one cannot be told apart (Bitcoin's rules never look at them). -/
theorem C01_showCond_eq_iff (l1 l2 : List Bool) :
    Spec.showCond l1 = Spec.showCond l2 ↔ l1.length = l2.length ∧ firstFalseOuter l1 = firstFalseOuter l2 := by
  rw [← C01_vfexec_text _ _ (condRel_condOf l1), ← C01_vfexec_text _ _ (condRel_condOf l2)]
  have hw : ∀ l, (condOf l).Wf := fun l p hp => firstFalseOuter_lt hp
  constructor
  · intro h
    have := C01_readCond _ (hw l1)
    rw [h, C01_readCond _ (hw l2)] at this
    have := Option.some.inj this
    simp only [condOf, CondStack.mk.injEq] at this
    exact ⟨this.1.symm, this.2.symm⟩
  · rintro ⟨h1, h2⟩
    simp [condOf, h1, h2]

/-- the entries `vfexec` lists, innermost first: a level reads `01` exactly when it and every level around it is
    true — every level from the first false one inwards reads `00`, whatever the specification's list holds there -/
theorem C01_vfexec_entries (c : CondStack) (l : List Bool) (h : CondRel c l) (hne : l ≠ []) :
    (splitLines (printBoolStack c)).mapM readBool = some ((List.range l.length).map (fun k => (l.drop k).all id)) := by
  have hz : ¬ c.size = 0 := by
    rw [h.1]; intro h0; exact hne (List.length_eq_zero_iff.mp h0)
  rw [printBoolStack_eq, if_neg hz, splitLines_unlines _ (boolLinesFrom_no_newline _ _), mapM_readBool_boolLinesFrom,
    toList_reverse_of_condRel h]

-- (c) composed with the refinement -----------------------------------------------------------------------------------

/-- a session state that represents the specification state `st` DISPLAYS `st`: the three commands print the
    renderings of the specification's main stack, alt stack and conditional nesting -/
theorem C01_display_of_rel (e : IEnv) (st : Spec.St) (h : Rel e.see st) : shown e = Spec.shownOf st := by
  simp only [shown, Spec.shownOf, fnStack, fnAltstack, fnVfexec, Prod.mk.injEq]
  refine ⟨?_, ?_, C01_vfexec_text _ _ h.cond⟩
  · rw [C01_stack_text, h.stack, List.reverse_reverse]
  · rw [C01_stack_text, h.alt, List.reverse_reverse]

/-- FAITHFULNESS AT THE LEVEL OF THE SPECIFICATION.  Two session states that represent specification states (as every
    state a session reaches does, `C01_trace`) and print the same three texts represent specification states with
    the same main stack, the same alt stack, and nestings of the same depth with the same first false level. -/
theorem C01_display_determines_spec (e1 e2 : IEnv) (st1 st2 : Spec.St) (h1 : Rel e1.see st1) (h2 : Rel e2.see st2)
    (h : shown e1 = shown e2) :
    st1.stack = st2.stack ∧ st1.alt = st2.alt ∧ st1.cond.length = st2.cond.length ∧
      firstFalseOuter st1.cond = firstFalseOuter st2.cond := by
  obtain ⟨hs, ha, hcnd⟩ := C01_display_determines_state e1 e2 h1.cond.2.2 h2.cond.2.2 h
  refine ⟨?_, ?_, ?_, ?_⟩
  · have := h1.stack.symm.trans (hs.trans h2.stack); exact List.reverse_inj.mp this
  · have := h1.alt.symm.trans (ha.trans h2.alt); exact List.reverse_inj.mp this
  · rw [← h1.cond.1, ← h2.cond.1, hcnd]
  · rw [← h1.cond.2.1, ← h2.cond.2.1, hcnd]

/-- and the piped run's last output is the specification's stack, bottom first -/
theorem C01_pipe_of_rel (e : IEnv) (st : Spec.St) (h : Rel e.see st) : pipeResult e = Spec.showRaw st.stack := by
  rw [pipeResult, C01_raw_text, h.stack, List.reverse_reverse]

/-- before the first step the displays show the initial stack, an empty alt stack and no nesting -/
theorem C01_display_initial (stack : List Bytes) (script : Bytes) (flags : Nat) (sv : SigVersion) (z : Bool)
    (ed : ExecData) (pm : List (Bytes × Bytes)) (pk : List Bytes) (e0 : IEnv)
    (hsetup : setupEnvironment stack script flags sv [] z ed none pm pk = .ok e0) :
    shown e0 = Spec.shownOf (C01.initSt stack script ed) :=
  C01_display_of_rel e0 _ (setup_rel stack script flags sv z ed pm pk e0 hsetup).1

/-- MAIN THEOREM (what the user sees).  Under the hypotheses of `C01_trace` — a session set up on one script, any
    script, initial stack, flags, signature version, checker — after EVERY operation the debugger executes, the
    commands `stack`, `altstack` and `vfexec` print exactly the renderings of the main stack, the alt stack and the
    conditional nesting of the state Bitcoin's rules prescribe after that operation (state `k` of the session with
    state `k` of `Spec.evalInstrs`, as many of them on both sides), and when the script has been run to its end, of
    the final state. -/
theorem C01_display_trace (cx : Ctx) (tc : TapCtx) (cfg : Spec.Cfg)
    (stack : List Bytes) (script : Bytes) (flags : Nat) (sv : SigVersion) (z : Bool) (ed : ExecData)
    (pm : List (Bytes × Bytes)) (e0 : IEnv)
    (hsetup : setupEnvironment stack script flags sv [] z ed none pm (pm.map (·.2)) = .ok e0)
    (hc : CfgRel cx e0.see cfg)
    (hw : sv = .TAPSCRIPT → ed.weightInit = true) :
    Forall2 (fun (e : IEnv) (st : Spec.St) => shown e = Spec.shownOf st)
      (runOps cx tc script.length e0).1
      (Spec.evalInstrs cfg (Spec.decodePrefix script.length script).1 0 (C01.initSt stack script ed)).1 ∧
    (∀ e st, (runOps cx tc script.length e0).2 = .ok e →
       (Spec.evalInstrs cfg (Spec.decodePrefix script.length script).1 0 (C01.initSt stack script ed)).2 = .ok st →
       shown e = Spec.shownOf st ∧ pipeResult e = Spec.showRaw st.stack) := by
  have h := C01.C01_trace cx tc cfg stack script flags sv z ed pm e0 hsetup hc hw
  obtain ⟨hf, hout⟩ := h
  refine ⟨forall2_imp (fun e st hr => C01_display_of_rel e st hr) hf, ?_⟩
  intro e st he hs
  rw [he, hs] at hout
  exact ⟨C01_display_of_rel e st hout.2.1, C01_pipe_of_rel e st hout.2.1⟩


/-- the specification's state at position `k` of a session on one script: the initial state, the state after each
    operation, and — the end-of-script step — the final state once more -/
def specAt (tr : List Spec.St × Spec.R Spec.St) (init : Spec.St) (k : Nat) : Option Spec.St :=
  if k ≤ tr.1.length then (init :: tr.1)[k]?
  else if k = tr.1.length + 1 then (match tr.2 with | .ok st => some st | .error _ => none)
  else none

/-- EVERY REACHABLE STATE OF EVERY SESSION.  Take a session set up on one script (hypotheses of `C01_trace`; the
    script not of the pay-to-script-hash shape, which would start a second script) and ANY history of `step` and
    `rewind` commands in which no step fails (refused commands included, unbounded length).  With `n` the net number
    of steps performed, the state reached is position `n` of the specification's evaluation — it exists — and
    `stack`, `altstack`, `vfexec` print the renderings of that state's main stack, alt stack and nesting. -/
theorem C01_display_history (cx : Ctx) (tc : TapCtx) (cfg : Spec.Cfg)
    (stack : List Bytes) (script : Bytes) (flags : Nat) (sv : SigVersion) (z : Bool) (ed : ExecData)
    (pm : List (Bytes × Bytes)) (e0 : IEnv)
    (hsetup : setupEnvironment stack script flags sv [] z ed none pm (pm.map (·.2)) = .ok e0)
    (hc : CfgRel cx e0.see cfg)
    (hw : sv = .TAPSCRIPT → ed.weightInit = true)
    (hp : e0.isP2sh = false)
    (cmds : List C04.Cmd) (e : IEnv) (n : Int)
    (hh : C04.execHist cx tc cmds (e0, 0) = some (e, n)) :
    ∃ st, specAt (Spec.evalInstrs cfg (Spec.decodePrefix script.length script).1 0 (C01.initSt stack script ed))
            (C01.initSt stack script ed) n.toNat = some st ∧
          shown e = Spec.shownOf st := by
  obtain ⟨hinv, hstart⟩ := C04.setup_starts_fresh stack script flags sv [] z ed none pm (pm.map (·.2)) e0 hsetup
  obtain ⟨_, hadv⟩ := C04.C04_rewind_exact cx tc e0 hinv hstart cmds e n hh
  obtain ⟨hrel0, _, ht0, hsu0⟩ := setup_rel stack script flags sv z ed pm (pm.map (·.2)) e0 hsetup
  obtain ⟨hf, hout⟩ := C01.C01_trace cx tc cfg stack script flags sv z ed pm e0 hsetup hc hw
  generalize hr : runOps cx tc script.length e0 = r at hf hout
  generalize htr : Spec.evalInstrs cfg (Spec.decodePrefix script.length script).1 0 (C01.initSt stack script ed) = tr at hf hout
  have hfin : ∀ e', (runOps cx tc script.length e0).2 = .ok e' → e'.pc = [] := by
    intro e' he'
    rw [hr] at he'
    rw [he'] at hout
    cases hs : tr.2 with
    | ok st => rw [hs] at hout; exact hout.2.2.1
    | error y => rw [hs] at hout; exact hout.elim
  have hcons : Forall2 (fun (e' : IEnv) (st' : Spec.St) => Rel e'.see st') (e0 :: r.1)
      (C01.initSt stack script ed :: tr.1) := Forall2.cons hrel0 hf
  obtain ⟨hlen, hget⟩ := forall2_getElem? hcons
  simp only [List.length_cons, Nat.add_right_cancel_iff] at hlen
  rcases advance_runOps cx tc script.length e0 ht0 hp hsu0 hfin n.toNat e hadv with ⟨hle, hk⟩ | ⟨hk, e', he', heq⟩
  · rw [hr] at hle hk
    obtain ⟨st, hst, hrel⟩ := hget n.toNat e hk
    refine ⟨st, ?_, C01_display_of_rel e st hrel⟩
    simp only [specAt, ← hlen, hle, if_true, hst]
  · rw [hr] at hk he'
    rw [he'] at hout
    cases hs : tr.2 with
    | error y => rw [hs] at hout; exact hout.elim
    | ok st =>
      rw [hs] at hout
      refine ⟨st, ?_, ?_⟩
      · have h1 : ¬ n.toNat ≤ tr.1.length := by omega
        have h2 : n.toNat = tr.1.length + 1 := by omega
        unfold specAt
        rw [if_neg h1, if_pos h2, hs]
      · subst heq
        exact C01_display_of_rel { e' with done := true } st hout.2.1

-- non-vacuity ----------------------------------------------------------------------------------------------------------

/-- a stack with an empty item in the middle: the exact text, and the stack read back from it -/
example : printStack [[1], [], [2, 3]] false = ['<', '0', '1', '>', '\t', '0', '2', '0', '3', '\t', '(', 't', 'o', 'p', ')', '\n', '<', '0', '2', '>', '\t', '\n', '<', '0', '3', '>', '\t', '0', '1', '\n'] ∧
    readStack (printStack [[1], [], [2, 3]] false) = some [[1], [], [2, 3]] ∧
    printStack [[1], [], [2, 3]] true = ['0', '1', '\n', '\n', '0', '2', '0', '3', '\n'] ∧ printStack [] false = ['-', ' ', 'e', 'm', 'p', 't', 'y', ' ', 's', 't', 'a', 'c', 'k', ' ', '-', '\n'] ∧ printStack [] true = [] := by
  decide

/-- 101 items: line 99 is `<99>`, line 100 is `<100>` (the field widens), line 101 `<101>`; all 101 items are read back -/
example : (splitLines (printStack (List.replicate 101 [0xab]) false))[98]? = some ['<', '9', '9', '>', '\t', 'a', 'b'] ∧
    (splitLines (printStack (List.replicate 101 [0xab]) false))[99]? = some ['<', '1', '0', '0', '>', '\t', 'a', 'b'] ∧
    (splitLines (printStack (List.replicate 101 [0xab]) false))[100]? = some ['<', '1', '0', '1', '>', '\t', 'a', 'b'] ∧
    readStack (printStack ([] :: List.replicate 100 [0xab]) false) = some ([] :: List.replicate 100 [0xab]) := by
  decide +kernel

/-- `vfexec` for a false level inside a false level, and for a TRUE level inside a false one (`0 IF 0 IF ELSE`):
    the same text — the inner level reads `00` both times; the condition stack is read back from it -/
example : printBoolStack { size := 2, firstFalse := some 0 } = ['<', '0', '1', '>', '\t', '0', '0', '\n', '<', '0', '2', '>', '\t', '0', '0', '\n'] ∧
    Spec.showCond [false, false] = ['<', '0', '1', '>', '\t', '0', '0', '\n', '<', '0', '2', '>', '\t', '0', '0', '\n'] ∧ Spec.showCond [true, false] = ['<', '0', '1', '>', '\t', '0', '0', '\n', '<', '0', '2', '>', '\t', '0', '0', '\n'] ∧
    Spec.showCond [false, true] = ['<', '0', '1', '>', '\t', '0', '0', '\n', '<', '0', '2', '>', '\t', '0', '1', '\n'] ∧
    readCond (printBoolStack { size := 2, firstFalse := some 0 }) = some { size := 2, firstFalse := some 0 } ∧
    readCond (printBoolStack {}) = some {} := by
  decide

/-- the session `OP_1 OP_TOALTSTACK OP_0 OP_IF OP_0 OP_IF OP_ELSE` on the initial stack `[07]`: the hypotheses of the main
    theorems are met (the session is set up, it is not of the P2SH shape), and after the seven operations the three
    commands print: the stack `07`, the alt stack `01`, two nesting levels both `00` -/
example : ∃ e0, setupEnvironment [[7]] [0x51, 0x6b, 0x00, 0x63, 0x00, 0x63, 0x67] 0 .BASE [] false {} none [] [] = .ok e0 ∧
    e0.isP2sh = false ∧
    ((runOps C04.exCx C04.exTc 7 e0).1.getLast?.map shown) =
      some (['<', '0', '1', '>', '\t', '0', '7', '\t', '(', 't', 'o', 'p', ')', '\n'], ['<', '0', '1', '>', '\t', '0', '1', '\t', '(', 't', 'o', 'p', ')', '\n'], ['<', '0', '1', '>', '\t', '0', '0', '\n', '<', '0', '2', '>', '\t', '0', '0', '\n']) := by
  refine ⟨_, rfl, ?_⟩
  decide +kernel

end Btcdeb.Proofs.C01Display
