import Btcdeb
namespace Btcdeb.Proofs.C17
end Btcdeb.Proofs.C17
