/-
  C17 — re-enabled opcodes compute the functions their names denote.
  `Spec.execExtended` states those functions (concatenation, substring, left/right, bitwise NOT/AND/OR/XOR
  on equal lengths, doubling, halving and product/quotient/remainder with C truncation, shifts as
  multiplication / floor division by 2^b, all on script numbers with explicit failure on invalid operands).
-/
import Btcdeb
import BtcdebProofs.Refine.All
import BtcdebProofs.Lemmas.NoAbnormal
namespace Btcdeb.Proofs.C17
open Btcdeb Btcdeb.Model Btcdeb.Refine

/-- the fifteen opcodes of the property -/
def reenabled : List Opcode :=
  [.OP_CAT, .OP_SUBSTR, .OP_LEFT, .OP_RIGHT, .OP_INVERT, .OP_AND, .OP_OR, .OP_XOR,
   .OP_2MUL, .OP_2DIV, .OP_MUL, .OP_DIV, .OP_MOD, .OP_LSHIFT, .OP_RSHIFT]

theorem reenabled_iff (op : Opcode) : op ∈ reenabled ↔ isDisabledOpcode op = true := by
  cases op <;> simp [reenabled, isDisabledOpcode]

/-- with the option, each of the fifteen opcodes computes exactly the specified function on every stack,
    and fails with the specified script error on invalid operands — never abnormally -/
theorem C17_computes (op : Opcode) (_h : op ∈ reenabled) : OpRefines op := execOpcode_refines op

/-- …in particular no operand makes them crash: division by zero, negative or huge shift counts,
    out-of-range offsets and results outside the 64-bit range are script errors -/
theorem C17_total (e : SEE) (op : Opcode) (h : op ∈ reenabled) : NoAbn (stepExtended e op) :=
  stepExtended_noabn e op ((reenabled_iff op).mp h)

/-- without the option each of them fails as a disabled opcode — executed or not — unless the
    operation-count limit is hit first (the count is checked before, as in Bitcoin Core) -/
theorem C17_disabled_gate (cx : Ctx) (e : SEE) (pc : Bytes) (g : GotOp)
    (hg : getOp pc = some g) (hop : Opcode.ofNat g.opcode ∈ reenabled) (hz : e.allowDisabled = false) :
    step cx e pc = fail .DISABLED_OPCODE ∨ step cx e pc = fail .OP_COUNT := by
  have hdis : isDisabledOpcode (Opcode.ofNat g.opcode) = true := (reenabled_iff _).mp hop
  -- a disabled opcode carries no push data
  have hdata : g.data = [] ∧ g.opcode > Op.OP_PUSHDATA4 := by
    have : ¬ g.opcode ≤ 78 := by
      intro hle
      have : ∀ n, n ≤ 78 → isDisabledOpcode (Opcode.ofNat n) = false := by decide
      rw [this g.opcode hle] at hdis; cases hdis
    unfold getOp at hg
    cases pc with
    | nil => cases hg
    | cons b rest =>
      simp only at hg
      split at hg
      · rename_i hle
        exfalso
        split at hg
        · cases hg
        · split at hg
          · cases hg
          · cases hg; exact this hle
      · rename_i hgt
        cases hg; exact ⟨rfl, by simp only [Op.OP_PUSHDATA4] at hgt ⊢; omega⟩
  unfold step
  simp only [hg, hdata.1, List.length_nil]
  have h520 : ¬ (0 > Gen.MAX_SCRIPT_ELEMENT_SIZE) := by decide
  simp only [h520, if_false]
  unfold countOp
  by_cases hsv : (e.sigversion == .BASE || e.sigversion == .WITNESS_V0) = true
  · have h16 : g.opcode > Op.OP_16 := by
      -- every re-enabled opcode is above OP_16
      have : ∀ n, n ≤ 0x60 → isDisabledOpcode (Opcode.ofNat n) = false := by decide
      have hgt : ¬ g.opcode ≤ 0x60 := by intro hle; rw [this g.opcode hle] at hdis; cases hdis
      simp only [Op.OP_16]; omega
    simp only [hsv, h16, if_true]
    by_cases hcnt : e.nOpCount + 1 > Gen.MAX_OPS_PER_SCRIPT
    · right; simp [hcnt]
    · left; simp [hcnt, hz, hdis]
  · left; simp [hsv, hz, hdis]

end Btcdeb.Proofs.C17
