/-
  C09 — flag modification is exact and verification flags only ever restrict.
  Monotonicity is proved on the specification (C09Mono, for every instruction, script, state and pair of
  flag sets A ⊆ B) and transferred to the debugger model through the refinement of C01.
-/
import Btcdeb
import BtcdebProofs.Properties.C09Mono
import BtcdebProofs.Properties.C01
import BtcdebProofs.Properties.Tables
namespace Btcdeb.Proofs.C09
open Btcdeb Btcdeb.Model Btcdeb.Refine

/-- MONOTONICITY FOR THE DEBUGGER: two sessions on the same script, stack and signature version whose
    flag sets satisfy A ⊆ B — if stepping through the script succeeds under B, it succeeds under A, and
    the final stack, alt stack and conditional state are the same. -/
theorem C09_mono_session (cx : Ctx) (tc : TapCtx) (cfgA cfgB : Spec.Cfg)
    (stack : List Bytes) (script : Bytes) (flagsA flagsB : Nat) (sv : SigVersion) (z : Bool) (ed : ExecData)
    (pm : List (Bytes × Bytes)) (eA eB : IEnv)
    (hA : setupEnvironment stack script flagsA sv [] z ed none pm (pm.map (·.2)) = .ok eA)
    (hB : setupEnvironment stack script flagsB sv [] z ed none pm (pm.map (·.2)) = .ok eB)
    (hcA : CfgRel cx eA.see cfgA) (hcB : CfgRel cx eB.see cfgB)
    (hsame : SameBut cfgA cfgB) (hle : FlagsLe cfgA.flags cfgB.flags)
    (hw : sv = .TAPSCRIPT → ed.weightInit = true)
    (fB : IEnv) (hrunB : (runOps cx tc script.length eB).2 = .ok fB) :
    ∃ fA, (runOps cx tc script.length eA).2 = .ok fA ∧
      fA.see.stack = fB.see.stack ∧ fA.see.altstack = fB.see.altstack := by
  have tA := C01.C01_trace cx tc cfgA stack script flagsA sv z ed pm eA hA hcA hw
  have tB := C01.C01_trace cx tc cfgB stack script flagsB sv z ed pm eB hB hcB hw
  obtain ⟨_, houtB⟩ := tB
  obtain ⟨_, houtA⟩ := tA
  rw [hrunB] at houtB
  -- the specification succeeds under B …
  cases hsB : (Spec.evalInstrs cfgB (Spec.decodePrefix script.length script).1 0 (C01.initSt stack script ed)).2 with
  | error y => rw [hsB] at houtB; exact houtB.elim
  | ok st' =>
    rw [hsB] at houtB
    obtain ⟨hcomplete, hrelB, _, _⟩ := houtB
    -- … hence, with the same trace, under A …
    have hmono := evalInstrs_mono cfgA cfgB hsame hle _ 0 _ st' hsB
    rw [hmono, hsB] at houtA
    -- … and the debugger under A cannot fail
    cases hrA : (runOps cx tc script.length eA).2 with
    | error x =>
      rw [hrA] at houtA
      obtain ⟨hc, _⟩ := houtA
      rw [hcomplete] at hc; cases hc
    | ok fA =>
      rw [hrA] at houtA
      obtain ⟨_, hrelA, _, _⟩ := houtA
      exact ⟨fA, rfl, by rw [hrelA.stack, hrelB.stack], by rw [hrelA.alt, hrelB.alt]⟩

/-- the standard flag set btcdeb starts from and lists with --default-flags is every flag but SIGPUSHONLY,
    and the svf table names each of the 21 flags with its own bit (restated from the table theorems) -/
theorem C09_standard_set :
    Gen.STANDARD_SCRIPT_VERIFY_FLAGS = 2 ^ 21 - 1 - 2 ^ Flag.SIGPUSHONLY ∧ Gen.svf.length = 21 := by
  refine ⟨Tables.standard_flags, ?_⟩
  rw [Tables.svf_table.1]; decide

end Btcdeb.Proofs.C09
