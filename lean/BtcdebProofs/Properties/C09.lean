import Btcdeb
namespace Btcdeb.Proofs.C09
end Btcdeb.Proofs.C09
