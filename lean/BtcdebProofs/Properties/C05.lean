/-
  C05 — the step-by-step taproot commitment check of the debugger (`TaprootCommitmentEnv`, modelled by `Tce`)
  equals the BIP341 rule (`Spec.bip341Valid`).
-/
import Btcdeb
import BtcdebProofs.Lemmas.Tce
namespace Btcdeb.Proofs.C05
open Btcdeb Btcdeb.Model Btcdeb.Proofs.Tce

/-- the model's context and the specification's oracle are the same functions: the same tagged hash, and
    `CheckTapTweak(p, k, parity)` is the BIP341 tweak check with the scalar `hash_TapTweak(p ‖ k)` -/
def Agree (tc : TapCtx) (o : Spec.TapOracle) : Prop :=
  (∀ tag m, tc.taggedHash tag m = o.taggedHash tag m) ∧
  (∀ q p k par, tc.checkTapTweak q p k par = o.tweakCheck q p (o.taggedHash "TapTweak" (p ++ k)) par)

/-- the concrete instances the correspondence check runs agree -/
theorem glue_agree : Agree Glue.tapCtx Glue.tapOracle :=
  ⟨fun _ _ => rfl, fun _ _ _ _ => rfl⟩

/-! ### 1. running the check to its end -/

private theorem run_fuel_aux (tc : TapCtx) : ∀ (d : Nat) (t : Tce), t.pathLen - t.i = d →
    (Tce.run tc (d + 1) t).1 ≠ .processing
  | 0, t, hd => by
    have hge : ¬ t.i < t.pathLen := by omega
    rw [run_one_final tc t hge]
    split <;> simp
  | d + 1, t, hd => by
    have hlt : t.i < t.pathLen := by omega
    obtain ⟨h1, h2, _⟩ := iterate_processing tc t hlt
    have hpl := (iterate_frame tc t).2.2.2.1
    have ih := run_fuel_aux tc d (t.iterate tc).2 (by omega)
    simp only [Tce.run]
    generalize t.iterate tc = r at h1 ih ⊢
    obtain ⟨s, t'⟩ := r
    simp only at h1
    subst h1
    exact ih

/-- `pathLen - i + 1` calls of `Iterate()` always reach a verdict -/
theorem C05_run_fuel (tc : TapCtx) (t : Tce) :
    (Tce.run tc (t.pathLen - t.i + 1) t).1 ≠ .processing :=
  run_fuel_aux tc _ t rfl

/-- once a verdict is reached more fuel changes nothing -/
theorem C05_run_fuel_mono (tc : TapCtx) : ∀ (n f : Nat) (t : Tce),
    (Tce.run tc n t).1 ≠ .processing → Tce.run tc (n + f) t = Tce.run tc n t
  | 0, _, t, h => by simp [Tce.run] at h
  | n + 1, f, t, h => by
    have : n + 1 + f = (n + f) + 1 := by omega
    rw [this]
    simp only [Tce.run] at h ⊢
    generalize t.iterate tc = r at h ⊢
    obtain ⟨s, t'⟩ := r
    cases s
    · exact C05_run_fuel_mono tc n f t' h
    · rfl
    · rfl

/-! ### 3. every intermediate hash is the BIP341 value -/

private theorem init_fields (tc : TapCtx) (control program script : Bytes) (m : Nat)
    (hlen : control.length = 33 + 32 * m) :
    (Tce.init tc control program script).control = control ∧
    (Tce.init tc control program script).pathLen = m ∧
    (Tce.init tc control program script).i = 0 ∧
    (Tce.init tc control program script).q = program ∧
    (Tce.init tc control program script).p = (control.drop 1).take 32 ∧
    (Tce.init tc control program script).k = (Tce.init tc control program script).leaf := by
  refine ⟨rfl, ?_, rfl, rfl, rfl, rfl⟩
  simp only [Tce.init, Gen.TAPROOT_CONTROL_BASE_SIZE, Gen.TAPROOT_CONTROL_NODE_SIZE, hlen]
  rw [Nat.add_sub_cancel_left, Nat.mul_div_cancel_left _ (by decide : 0 < 32)]

private theorem init_leaf (tc : TapCtx) (o : Spec.TapOracle) (hag : Agree tc o) (control program script : Bytes) :
    (Tce.init tc control program script).leaf =
      Spec.tapLeafHash o ((control.headD 0).toNat - (control.headD 0).toNat % 2) script := by
  simp only [Tce.init, Spec.tapLeafHash, hag.1, leafVersion_eq, compactSize_eq_varint]

private theorem intermediate_aux (tc : TapCtx) (o : Spec.TapOracle) (hag : Agree tc o)
    (control program script : Bytes) (m : Nat) (hlen : control.length = 33 + 32 * m) :
    ∀ i, i ≤ m →
    (∀ j, j < i → ((Tce.iterN tc j (Tce.init tc control program script)).iterate tc).1 = .processing) ∧
    (Tce.iterN tc i (Tce.init tc control program script)).i = i ∧
    (Spec.merkleChain o (Spec.tapLeafHash o ((control.headD 0).toNat - (control.headD 0).toNat % 2) script)
        (Spec.pathNodes m (control.drop 33)))[i]? =
      some (Tce.iterN tc i (Tce.init tc control program script)).k := by
  obtain ⟨f1, f2, f3, _, _, f6⟩ := init_fields tc control program script m hlen
  intro i
  induction i with
  | zero =>
    intro _
    refine ⟨fun j hj => by omega, f3, ?_⟩
    rw [merkleChain_zero]
    simp only [Tce.iterN, f6, init_leaf tc o hag]
  | succ i ih =>
    intro hi
    obtain ⟨ih1, ih2, ih3⟩ := ih (by omega)
    have hfr := iterN_frame tc i (Tce.init tc control program script)
    have hlt : (Tce.iterN tc i (Tce.init tc control program script)).i <
        (Tce.iterN tc i (Tce.init tc control program script)).pathLen := by
      rw [ih2, hfr.2.2.2.1, f2]; omega
    obtain ⟨p1, p2, p3⟩ := iterate_processing tc _ hlt
    refine ⟨?_, ?_, ?_⟩
    · intro j hj
      by_cases hji : j < i
      · exact ih1 j hji
      · have : j = i := by omega
        subst this
        exact p1
    · rw [iterN_succ, p2, ih2]
    · have hnode : (Spec.pathNodes m (control.drop 33))[i]? = some ((control.drop (33 + 32 * i)).take 32) := by
        rw [pathNodes_getElem? m (control.drop 33) i (by simp only [List.length_drop]; omega) (by omega)]
        simp only [List.drop_drop]
      rw [merkleChain_succ o _ _ i _ _ ih3 hnode, iterN_succ, p3]
      simp only [Spec.tapBranchHash, lexLt_eq_bytesLt, hag.1, ih2, hfr.1, f1]

/-- **C05, intermediate values.** For a control block of `33 + 32·m` bytes and every `i ≤ m`: the first `i`
    calls of `Iterate()` all answered `processing`, the path index then is `i`, and the hash on display (`m_k`)
    is the `i`-th element of the BIP341 Merkle chain (leaf hash folded with the first `i` path nodes). -/
theorem C05_intermediate (tc : TapCtx) (o : Spec.TapOracle) (hag : Agree tc o)
    (control program script : Bytes) (m : Nat) (hlen : control.length = 33 + 32 * m) (i : Nat) (hi : i ≤ m) :
    let t0 := Tce.init tc control program script
    let c0 := (control.headD 0).toNat
    let leafVersion := c0 - c0 % 2
    let nodes := Spec.pathNodes m (control.drop 33)
    (∀ j, j < i → ((Tce.iterN tc j t0).iterate tc).1 = .processing) ∧
    (Tce.iterN tc i t0).i = i ∧
    (Spec.merkleChain o (Spec.tapLeafHash o leafVersion script) nodes)[i]? = some (Tce.iterN tc i t0).k :=
  intermediate_aux tc o hag control program script m hlen i hi

/-- the path nodes the chain is folded with are the 32-byte slices of the control block after byte 33 -/
theorem C05_nodes (control : Bytes) (m : Nat) (hlen : control.length = 33 + 32 * m) (i : Nat) (hi : i < m) :
    (Spec.pathNodes m (control.drop 33)).length = m ∧
    (Spec.pathNodes m (control.drop 33))[i]? = some ((control.drop (33 + 32 * i)).take 32) := by
  refine ⟨pathNodes_length m _ (by simp only [List.length_drop]; omega), ?_⟩
  rw [pathNodes_getElem? m (control.drop 33) i (by simp only [List.length_drop]; omega) hi]
  simp only [List.drop_drop]

/-! ### 4. the verdict is the BIP341 rule -/

/-- the size conditions of BIP341 hold exactly for `33 + 32·m` bytes with `m ≤ 128` -/
theorem C05_size_iff (control : Bytes) :
    (33 ≤ control.length ∧ control.length ≤ 33 + 32 * 128 ∧ (control.length - 33) % 32 = 0) ↔
    ∃ m, m ≤ 128 ∧ control.length = 33 + 32 * m := by
  constructor
  · rintro ⟨h1, h2, h3⟩
    exact ⟨(control.length - 33) / 32, by omega, by omega⟩
  · rintro ⟨m, hm, hl⟩
    omega

/-- **C05, verdict.** With `m + 1` calls the check answers `done` if BIP341's rule holds and `failed` if not. -/
theorem C05_run_eq (tc : TapCtx) (o : Spec.TapOracle) (hag : Agree tc o)
    (control program script : Bytes) (m : Nat) (hlen : control.length = 33 + 32 * m) (hm : m ≤ 128) :
    (Tce.run tc (m + 1) (Tce.init tc control program script)).1 =
      if Spec.bip341Valid o control script program = true then .done else .failed := by
  obtain ⟨g1, g2, g3⟩ := intermediate_aux tc o hag control program script m hlen m (Nat.le_refl _)
  obtain ⟨f1, f2, _, f4, f5, _⟩ := init_fields tc control program script m hlen
  have hfr := iterN_frame tc m (Tce.init tc control program script)
  have hge : ¬ (Tce.iterN tc m (Tce.init tc control program script)).i <
      (Tce.iterN tc m (Tce.init tc control program script)).pathLen := by
    rw [g2, hfr.2.2.2.1, f2]; omega
  rw [run_processing_prefix tc m 1 _ g1, run_one_final tc _ hge]
  have hnl : (Spec.pathNodes m (control.drop 33)).length = m :=
    pathNodes_length m _ (by simp only [List.length_drop]; omega)
  have hroot := merkleChain_getLastD o (Spec.pathNodes m (control.drop 33)) _ _ (by rw [hnl]; exact g3)
  have hdiv : (control.length - 33) / 32 = m := by omega
  have hvalid : Spec.bip341Valid o control script program =
      o.tweakCheck program ((control.drop 1).take 32)
        (o.taggedHash "TapTweak" ((control.drop 1).take 32 ++
          (Tce.iterN tc m (Tce.init tc control program script)).k))
        ((control.headD 0).toNat % 2 == 1) := by
    have a1 : 33 ≤ control.length := by omega
    have a2 : control.length ≤ 33 + 32 * 128 := by omega
    have a3 : (control.length - 33) % 32 = 0 := by omega
    simp only [Spec.bip341Valid, hdiv, hroot, a3, decide_eq_true a1, decide_eq_true a2, Bool.true_and,
      BEq.rfl]
  rw [hvalid, hag.2, hfr.2.2.2.2.2.1, hfr.2.2.2.2.1, hfr.1, f1, f4, f5, byteAt_zero]

theorem C05_done_iff (tc : TapCtx) (o : Spec.TapOracle) (hag : Agree tc o)
    (control program script : Bytes) (m : Nat) (hlen : control.length = 33 + 32 * m) (hm : m ≤ 128) :
    ((Tce.run tc (m + 1) (Tce.init tc control program script)).1 = .done ↔
      Spec.bip341Valid o control script program = true) ∧
    ((Tce.run tc (m + 1) (Tce.init tc control program script)).1 = .failed ↔
      Spec.bip341Valid o control script program = false) ∧
    (Tce.run tc (m + 1) (Tce.init tc control program script)).1 ≠ .processing := by
  rw [C05_run_eq tc o hag control program script m hlen hm]
  cases Spec.bip341Valid o control script program <;> simp

/-! ### 5. the leaf hash derived is the one handed to the signature digest -/

/-- the constructor's leaf hash is BIP341's TapLeaf hash (leaf version = control byte without its parity bit),
    and no number of `Iterate()` calls changes it -/
theorem C05_leaf_hash (tc : TapCtx) (o : Spec.TapOracle) (hag : Agree tc o) (control program script : Bytes) :
    let c0 := (control.headD 0).toNat
    (Tce.init tc control program script).leaf = Spec.tapLeafHash o (c0 - c0 % 2) script ∧
    (∀ t : Tce, (t.iterate tc).2.leaf = t.leaf) ∧
    (∀ (n : Nat) (t : Tce), (Tce.iterN tc n t).leaf = t.leaf) :=
  ⟨init_leaf tc o hag control program script, fun t => (iterate_frame tc t).2.2.2.2.2.2,
   fun n t => (iterN_frame tc n t).2.2.2.2.2.2⟩

/-- the session step that finishes the commitment phase stores exactly the environment's leaf hash in the
    execution data (what the BIP342 signature digest later reads), marks it initialised and ends the phase -/
theorem C05_leaf_hash_step (cx : Ctx) (tc : TapCtx) (e : IEnv) (t t' : Tce)
    (he : e.tce = some t) (hit : t.iterate tc = (.done, t')) :
    ∃ e', stepSession cx tc e = .ok e' ∧ e'.tce = none ∧
      e'.see.execdata.tapleafHash = t.leaf ∧ e'.see.execdata.tapleafHashInit = true := by
  have hl : t'.leaf = t.leaf := by
    have := (iterate_frame tc t).2.2.2.2.2.2
    rw [hit] at this
    exact this
  unfold stepSession
  rw [he]
  simp only [hit]
  exact ⟨_, rfl, rfl, hl, rfl⟩

/-- while the commitment phase is running a session step only advances the environment, and a failed
    commitment fails the step -/
theorem C05_step_phase (cx : Ctx) (tc : TapCtx) (e : IEnv) (t t' : Tce) (he : e.tce = some t) :
    (t.iterate tc = (.processing, t') →
      stepSession cx tc e = .ok { e with tce := some t', currOpSeq := e.currOpSeq + 1 }) ∧
    (t.iterate tc = (.failed, t') → stepSession cx tc e = .error (.script .WITNESS_PROGRAM_MISMATCH)) := by
  unfold stepSession
  rw [he]
  constructor
  · intro hit
    simp only [hit]
    rfl
  · intro hit
    simp only [hit]

/-! ### 6. the size gate of `configure_tx_txin` -/

/-- the witness stack with the optional annex removed (instance.cpp) -/
def witnessSansAnnex (w : List Bytes) : List Bytes :=
  match w.getLast? with
  | none => w
  | some wlast =>
    if w.length ≥ 2 && !wlast.isEmpty && byteAt wlast 0 == Gen.ANNEX_TAG then w.dropLast else w

/-- the boolean size condition of `configure_tx_txin` lets through exactly the lengths `33 + 32·m`, `m ≤ 128` -/
theorem C05_gate_bool (n : Nat) :
    (decide (n < Gen.TAPROOT_CONTROL_BASE_SIZE) || decide (n > Gen.TAPROOT_CONTROL_MAX_SIZE) ||
      (n - Gen.TAPROOT_CONTROL_BASE_SIZE) % Gen.TAPROOT_CONTROL_NODE_SIZE != 0) = false ↔
    ∃ m, m ≤ 128 ∧ n = 33 + 32 * m := by
  simp only [Gen.TAPROOT_CONTROL_BASE_SIZE, Gen.TAPROOT_CONTROL_MAX_SIZE, Gen.TAPROOT_CONTROL_NODE_SIZE,
    Bool.or_eq_false_iff, bne_eq_false_iff_eq]
  constructor
  · rintro ⟨⟨h1, h2⟩, h3⟩
    have h1 := of_decide_eq_false h1
    have h2 := of_decide_eq_false h2
    exact ⟨(n - 33) / 32, by omega, by omega⟩
  · rintro ⟨m, hm, hl⟩
    refine ⟨⟨decide_eq_false ?_, decide_eq_false ?_⟩, ?_⟩ <;> omega

/-- what a successful `configure_tx_txin` looked at, by kind of spend -/
private theorem configured_shape (h : HashCtx) (tc : TapCtx) (tx txin : Tx) (idx vout : Nat) (sv : SigVersion)
    (c : Configured) (hc : configureTxTxin h tc tx txin idx vout sv = some c) :
    ∃ (inp : TxIn) (spent : TxOut), tx.vin[idx]? = some inp ∧ txin.vout[vout]? = some spent ∧
    ((inp.witness = [] ∧ c.sigver = .BASE) ∨
     (∃ (validation : Bytes) (v1 : GotOp), (inp.scriptSig = [] → validation = spent.scriptPubKey) ∧
        getOp validation = some v1 ∧ v1.opcode = Op.OP_0 ∧ c.sigver = .WITNESS_V0) ∨
     ((witnessSansAnnex inp.witness).length = 1 ∧ c.sigver = .TAPROOT) ∨
     (∃ (validation : Bytes) (v1 v2 : GotOp) (control leafScript : Bytes) (m : Nat),
        (inp.scriptSig = [] → validation = spent.scriptPubKey) ∧
        validation.length = 34 ∧ getOp validation = some v1 ∧ v1.opcode = Op.OP_1 ∧ getOp v1.rest = some v2 ∧
        v2.data.length = 32 ∧
        (witnessSansAnnex inp.witness).getLast? = some control ∧
        (witnessSansAnnex inp.witness).dropLast.getLast? = some leafScript ∧
        m ≤ 128 ∧ control.length = 33 + 32 * m ∧
        (control.headD 0).toNat - (control.headD 0).toNat % 2 = 0xc0 ∧
        c.sigver = .TAPSCRIPT ∧ c.script = leafScript ∧
        c.tce = some (Tce.init tc control v2.data leafScript) ∧
        c.execdata.tapleafHash = (Tce.init tc control v2.data leafScript).leaf ∧
        c.execdata.tapleafHashInit = true)) := by
  unfold configureTxTxin at hc
  split at hc
  next inp spent hinp hspent =>
    refine ⟨inp, spent, hinp, hspent, ?_⟩
    extract_lets wstack scriptSig scriptPubKey amount validationQ at hc
    split at hc
    next hwl =>
      split at hc
      · cases hc
      · cases hc
        exact Or.inl ⟨List.getLast?_eq_none_iff.1 hwl, rfl⟩
    next wlast hwl =>
      have hwl' : inp.witness.getLast? = some wlast := hwl
      extract_lets hasAnnex stack ed rest at hc
      have hstk : witnessSansAnnex inp.witness = stack := by
        unfold witnessSansAnnex
        rw [hwl']
      generalize hvdef : validationQ = vq at hc
      split at hc
      · cases hc
      next validation =>
        have hvnative : inp.scriptSig = [] → validation = spent.scriptPubKey := by
          intro hss
          have : validationQ = some spent.scriptPubKey := by
            show (if List.length inp.scriptSig > 0 then _ else some spent.scriptPubKey) = _
            rw [hss]
            rfl
          rw [this] at hvdef
          exact (Option.some.inj hvdef).symm
        by_cases hvlen : (validation.length != 22 && validation.length != 34) = true
        · rw [if_pos hvlen] at hc; cases hc
        · rw [if_neg hvlen] at hc
          extract_lets wsh at hc
          split at hc
          · cases hc
          next v1 hv1 =>
            split at hc
            · cases hc
            next hop =>
              extract_lets witprogver at hc
              split at hc
              · cases hc
              next v2 hv2 =>
                extract_lets program hashOk validation' at hc
                by_cases hpl : (List.length program != if wsh = true then 32 else 20) = true
                · rw [if_pos hpl] at hc; cases hc
                · rw [if_neg hpl] at hc
                  by_cases hw : (witprogver == 0) = true
                  · rw [if_pos hw] at hc
                    have hop0 : v1.opcode = Op.OP_0 := by
                      have hw' : ((if (v1.opcode == Op.OP_0) = true then 0 else 1) == 0) = true := hw
                      by_cases h0 : v1.opcode = Op.OP_0
                      · exact h0
                      · simp [h0] at hw'
                    split at hc
                    · cases hc
                    · split at hc
                      split at hc
                      · cases hc
                      · split at hc
                        · cases hc
                        · cases hc
                          exact Or.inr (Or.inl ⟨validation, v1, hvnative, hv1, hop0, rfl⟩)
                  · rw [if_neg hw] at hc
                    by_cases h32 : (List.length program != 32) = true
                    · rw [if_pos h32] at hc; cases hc
                    · rw [if_neg h32] at hc
                      by_cases hst : (stack.length == 1) = true
                      · rw [if_pos hst] at hc
                        split at hc
                        · cases hc
                        · cases hc
                          refine Or.inr (Or.inr (Or.inl ⟨?_, rfl⟩))
                          rw [hstk]
                          simpa using hst
                      · rw [if_neg hst] at hc
                        split at hc
                        next control leafScript hctl hleaf =>
                          split at hc
                          · cases hc
                          next hgate =>
                            extract_lets tce at hc
                            split at hc
                            · cases hc
                            next hlv =>
                              split at hc
                              · cases hc
                              split at hc
                              · cases hc
                              split at hc
                              · cases hc
                              · cases hc
                                obtain ⟨m, hm, hlen⟩ := (C05_gate_bool control.length).1 (by simpa using hgate)
                                have hopc : v1.opcode = Op.OP_1 := by
                                  have hw' : v1.opcode ≠ Op.OP_0 := by
                                    intro he
                                    apply hw
                                    show ((if (v1.opcode == Op.OP_0) = true then 0 else 1) == 0) = true
                                    simp [he]
                                  simp only [Bool.and_eq_true, bne_iff_ne, ne_eq, not_and, Decidable.not_not] at hop
                                  exact hop hw'
                                have hp32 : v2.data.length = 32 := by
                                  simpa using h32
                                have hv34 : validation.length = 34 := by
                                  have hpl' : ¬ (List.length v2.data !=
                                      if (List.length validation == 34) = true then 32 else 20) = true := hpl
                                  rw [hp32] at hpl'
                                  by_cases h34 : validation.length = 34
                                  · exact h34
                                  · simp [h34] at hpl'
                                have hlv' : (control.headD 0).toNat - (control.headD 0).toNat % 2 = 0xc0 := by
                                  rw [← leafVersion_eq]
                                  simpa [Gen.TAPROOT_LEAF_TAPSCRIPT] using hlv
                                exact Or.inr (Or.inr (Or.inr ⟨validation, v1, v2, control, leafScript, m, hvnative,
                                  hv34, hv1, hopc, hv2, hp32, hstk ▸ hctl, hstk ▸ hleaf, hm, hlen, hlv',
                                  rfl, rfl, rfl, rfl, rfl⟩))
                        · cases hc
  · cases hc

/-- **C05, size gate (accepting direction).** Whenever `configure_tx_txin` sets up a tapscript session, the
    commitment environment it hands to the debugger is `Tce.init` of the witness's control block (last element
    after annex removal), the 32-byte witness program (second push of the 34-byte `OP_1 <32 bytes>` script, which
    is the spent scriptPubKey for a native output) and the leaf script (second-to-last element); the control block
    has `33 + 32·m` bytes with `m ≤ 128` and leaf version `0xc0`; and the execution data already carries the
    environment's leaf hash. -/
theorem C05_size_gate (h : HashCtx) (tc : TapCtx) (tx txin : Tx) (idx vout : Nat) (sv : SigVersion)
    (c : Configured) (hc : configureTxTxin h tc tx txin idx vout sv = some c) (hs : c.sigver = .TAPSCRIPT) :
    ∃ (inp : TxIn) (spent : TxOut) (validation : Bytes) (v1 v2 : GotOp) (control leafScript : Bytes) (m : Nat),
      tx.vin[idx]? = some inp ∧ txin.vout[vout]? = some spent ∧
      (inp.scriptSig = [] → validation = spent.scriptPubKey) ∧
      validation.length = 34 ∧ getOp validation = some v1 ∧ v1.opcode = Op.OP_1 ∧ getOp v1.rest = some v2 ∧
      v2.data.length = 32 ∧
      (witnessSansAnnex inp.witness).getLast? = some control ∧
      (witnessSansAnnex inp.witness).dropLast.getLast? = some leafScript ∧
      m ≤ 128 ∧ control.length = 33 + 32 * m ∧
      (control.headD 0).toNat - (control.headD 0).toNat % 2 = 0xc0 ∧
      c.script = leafScript ∧
      c.tce = some (Tce.init tc control v2.data leafScript) ∧
      c.execdata.tapleafHash = (Tce.init tc control v2.data leafScript).leaf ∧
      c.execdata.tapleafHashInit = true := by
  obtain ⟨inp, spent, hinp, hspent, hcases⟩ := configured_shape h tc tx txin idx vout sv c hc
  rcases hcases with ⟨_, h1⟩ | ⟨_, _, _, _, _, h1⟩ | ⟨_, h1⟩ | ⟨validation, v1, v2, control, leafScript, m, a1, a2, a3,
      a4, a5, a6, a7, a8, a9, a10, a11, _, a13, a14, a15, a16⟩
  · rw [hs] at h1; cases h1
  · rw [hs] at h1; cases h1
  · rw [hs] at h1; cases h1
  · exact ⟨inp, spent, validation, v1, v2, control, leafScript, m, hinp, hspent, a1, a2, a3, a4, a5, a6, a7, a8,
      a9, a10, a11, a13, a14, a15, a16⟩

private theorem getOp_p2tr (program : Bytes) (hp : program.length = 32) :
    getOp (0x51 :: 0x20 :: program) = some { opcode := 0x51, data := [], rest := 0x20 :: program } ∧
    getOp (0x20 :: program) = some { opcode := 0x20, data := program, rest := [] } := by
  constructor
  · simp [getOp, Op.OP_PUSHDATA4]
  · simp [getOp, Op.OP_PUSHDATA4, Op.OP_PUSHDATA1, hp]
    exact List.take_of_length_le (by omega)

/-- **C05, size gate (rejecting direction).** For a native taproot output (`OP_1 <32-byte program>`, empty
    scriptSig) spent by the script path (at least two witness elements after annex removal), a control block that
    is shorter than 33 bytes, longer than 4129 bytes or not of the form `33 + 32·m` makes `configure_tx_txin`
    refuse: no session is started. -/
theorem C05_size_gate_reject (h : HashCtx) (tc : TapCtx) (tx txin : Tx) (idx vout : Nat) (sv : SigVersion)
    (inp : TxIn) (spent : TxOut) (program control : Bytes)
    (hinp : tx.vin[idx]? = some inp) (hspent : txin.vout[vout]? = some spent)
    (hsig : inp.scriptSig = []) (hspk : spent.scriptPubKey = 0x51 :: 0x20 :: program) (hp : program.length = 32)
    (hpath : 2 ≤ (witnessSansAnnex inp.witness).length)
    (hctl : (witnessSansAnnex inp.witness).getLast? = some control)
    (hbad : control.length < 33 ∨ 4129 < control.length ∨ (control.length - 33) % 32 ≠ 0) :
    configureTxTxin h tc tx txin idx vout sv = none := by
  cases hr : configureTxTxin h tc tx txin idx vout sv with
  | none => rfl
  | some c =>
    exfalso
    obtain ⟨inp', spent', hinp', hspent', hcases⟩ := configured_shape h tc tx txin idx vout sv c hr
    rw [hinp] at hinp'
    rw [hspent] at hspent'
    cases hinp'
    cases hspent'
    obtain ⟨g1, g2⟩ := getOp_p2tr program hp
    rcases hcases with ⟨h0, _⟩ | ⟨validation, v1, hv, hg, hop, _⟩ | ⟨h1, _⟩ |
      ⟨validation, v1, v2, control', leafScript, m, _, _, _, _, _, _, hctl', _, hm, hlen, _⟩
    · rw [h0] at hpath
      simp [witnessSansAnnex] at hpath
    · rw [hv hsig, hspk, g1] at hg
      cases hg
      simp [Op.OP_0] at hop
    · omega
    · rw [hctl] at hctl'
      cases hctl'
      omega

/-- a control block of a wrong size never yields a tapscript session, whatever the rest of the spend looks like -/
theorem C05_size_gate_never (h : HashCtx) (tc : TapCtx) (tx txin : Tx) (idx vout : Nat) (sv : SigVersion)
    (inp : TxIn) (control : Bytes) (hinp : tx.vin[idx]? = some inp)
    (hctl : (witnessSansAnnex inp.witness).getLast? = some control)
    (hbad : control.length < 33 ∨ 4129 < control.length ∨ (control.length - 33) % 32 ≠ 0)
    (c : Configured) (hc : configureTxTxin h tc tx txin idx vout sv = some c) : c.sigver ≠ .TAPSCRIPT := by
  intro hs
  obtain ⟨inp', _, _, _, _, control', _, m, hinp', _, _, _, _, _, _, _, hctl', _, hm, hlen, _⟩ :=
    C05_size_gate h tc tx txin idx vout sv c hc hs
  rw [hinp] at hinp'
  cases hinp'
  rw [hctl] at hctl'
  cases hctl'
  omega

/-- **C05, end to end.** The commitment phase of a tapscript session set up by `configure_tx_txin` ends in
    `done` exactly when BIP341's rule holds for the witness's control block, leaf script and witness program. -/
theorem C05_session_commitment (h : HashCtx) (tc : TapCtx) (o : Spec.TapOracle) (hag : Agree tc o)
    (tx txin : Tx) (idx vout : Nat) (sv : SigVersion)
    (c : Configured) (hc : configureTxTxin h tc tx txin idx vout sv = some c) (hs : c.sigver = .TAPSCRIPT) :
    ∃ (t : Tce) (m : Nat), c.tce = some t ∧ t.pathLen = m ∧ m ≤ 128 ∧
      c.execdata.tapleafHash = t.leaf ∧
      ((Tce.run tc (m + 1) t).1 = .done ↔ Spec.bip341Valid o t.control t.script t.program = true) ∧
      ((Tce.run tc (m + 1) t).1 = .failed ↔ Spec.bip341Valid o t.control t.script t.program = false) := by
  obtain ⟨_, _, _, _, v2, control, leafScript, m, _, _, _, _, _, _, _, _, _, _, hm, hlen, _, _, htce, hleaf, _⟩ :=
    C05_size_gate h tc tx txin idx vout sv c hc hs
  obtain ⟨d1, d2, _⟩ := C05_done_iff tc o hag control v2.data leafScript m hlen hm
  exact ⟨_, m, htce, (init_fields tc control v2.data leafScript m hlen).2.1, hm, hleaf, d1, d2⟩

/-! ### 7. the hypotheses are satisfiable -/

section Examples

/-- toy hash / tweak functions (cheap enough for the kernel to evaluate): the "hash" keeps its whole input -/
private def toyTc : TapCtx where
  taggedHash := fun _ m => 0xAA :: m
  checkTapTweak := fun q _ k par => q.take 2 == k.take 2 && par

private def toyO : Spec.TapOracle where
  taggedHash := fun _ m => 0xAA :: m
  tweakCheck := fun q p t par => q.take 2 == (((t.drop 1).drop p.length).take 2) && par

/-- one path node, odd parity, leaf version 0xc0: a 65-byte control block -/
private def ctl65 : Bytes := 0xc1 :: (List.replicate 32 7 ++ List.replicate 32 0xBB)
/-- the "tweaked key" the toy check accepts: starts with the first two bytes of the Merkle root -/
private def prog32 : Bytes := 0xAA :: 0xAA :: List.replicate 30 0
private def scr : Bytes := [0x51]

private theorem toy_agree : Agree toyTc toyO := by
  refine ⟨fun _ _ => rfl, fun q p k par => ?_⟩
  simp [toyTc, toyO]

example : ctl65.length = 33 + 32 * 1 ∧ (1 : Nat) ≤ 128 ∧ prog32.length = 32 := by decide
example : (Tce.run toyTc 2 (Tce.init toyTc ctl65 prog32 scr)).1 = .done := by decide
example : Spec.bip341Valid toyO ctl65 scr prog32 = true :=
  ((C05_done_iff toyTc toyO toy_agree ctl65 prog32 scr 1 (by decide) (by decide)).1).1 (by decide)
example : Spec.bip341Valid toyO ctl65 scr (List.replicate 32 8) = false :=
  ((C05_done_iff toyTc toyO toy_agree ctl65 (List.replicate 32 8) scr 1 (by decide) (by decide)).2.1).1 (by decide)
/-- the size hypothesis of `C05_done_iff` is needed: on its own the commitment environment accepts a 34-byte
    control block (it rounds the path length down to 0 and ignores the trailing byte), which BIP341 rejects;
    `configure_tx_txin` never builds such an environment (`C05_size_gate`, `C05_size_gate_reject`) -/
example :
    (Tce.run toyTc 1 (Tce.init toyTc (0xc1 :: (List.replicate 32 7 ++ [0])) (0xAA :: 0xc0 :: List.replicate 30 0) scr)).1
      = .done ∧
    Spec.bip341Valid toyO (0xc1 :: (List.replicate 32 7 ++ [0])) scr (0xAA :: 0xc0 :: List.replicate 30 0) = false := by
  decide
/-- the real instances satisfy `Agree` -/
example : Agree Glue.tapCtx Glue.tapOracle := glue_agree

/-- a native taproot script-path spend whose control block has 34 bytes: refused -/
example (h : HashCtx) (tc : TapCtx) (sv : SigVersion) :
    configureTxTxin h tc
      { version := 2, lockTime := 0, vout := [],
        vin := [{ prevout := { hash := [], n := 0 }, scriptSig := [], sequence := 0,
                  witness := [[0x51], List.replicate 34 0xc0] }] }
      { version := 2, lockTime := 0, vin := [], vout := [{ value := 1000, scriptPubKey := 0x51 :: 0x20 :: prog32 }] }
      0 0 sv = none :=
  C05_size_gate_reject h tc _ _ 0 0 sv _ _ prog32 (List.replicate 34 0xc0) rfl rfl rfl rfl (by decide) (by decide)
    (by decide) (by decide)

end Examples

end Btcdeb.Proofs.C05
