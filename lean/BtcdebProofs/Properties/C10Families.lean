/-
  C10 — closed-form boundary families on the SPECIFICATION (`Btcdeb/Spec/Script.lean`):
  for every k, `k × OP_1` succeeds exactly up to the 1000-element stack limit and `k × OP_NOP`
  exactly up to the 201-operation limit (legacy / segwit v0; no limit under tapscript), and the
  failures are STACK_SIZE resp. OP_COUNT.  Every flag set, every `pos`, every `after` component.
-/
import Btcdeb
namespace Btcdeb.Proofs.C10
open Btcdeb Btcdeb.Spec

/-- the instruction OP_1 (0x51) -/
abbrev iOne : Instr := ⟨0x51, []⟩
/-- the instruction OP_NOP (0x61) -/
abbrev iNop : Instr := ⟨0x61, []⟩

/-- operation counting applies (BASE and WITNESS_V0) -/
def counted (cfg : Cfg) : Bool := cfg.sigversion == .BASE || cfg.sigversion == .WITNESS_V0

/-! ### one instruction -/

private theorem ofNat_one : Opcode.ofNat 0x51 = .OP_1 := rfl
private theorem ofNat_nop : Opcode.ofNat 0x61 = .OP_NOP := rfl

private theorem ok_bind {α β} (a : α) (f : α → R β) : (Except.ok a >>= f) = f a := rfl
private theorem err_bind {α β} (e : ScriptError) (f : α → R β) : ((Except.error e : R α) >>= f) = .error e := rfl

theorem checkSize_ok (st : St) (h : st.stack.length + st.alt.length ≤ 1000) : checkSize st = .ok st := by
  unfold checkSize maxStackSize
  rw [if_neg (by omega)]

theorem checkSize_err (st : St) (h : 1000 < st.stack.length + st.alt.length) :
    checkSize st = .error .STACK_SIZE := by
  unfold checkSize maxStackSize
  rw [if_pos (by omega)]

/-- OP_1 in an executing branch: push `1`, then the stack-size rule; never counted as an operation -/
theorem execInstr_one (cfg : Cfg) (after : Bytes) (pos : Nat) (st : St) (hx : st.cond.all id = true) :
    execInstr cfg iOne after pos st = checkSize { st with stack := encodeNum 1 :: st.stack } := by
  unfold execInstr countOp
  simp [hx, maxElementSize, ofNat_one, disabled, execOp, smallInt]
  rfl

private theorem execOp_nop (cfg : Cfg) (e : Bool) (after : Bytes) (pos : Nat) (st : St) :
    execOp cfg .OP_NOP e after pos st = checkSize st := by
  simp [execOp, disabled, smallInt, isNopN, isUnary, isBinary]

/-- OP_NOP, executed or skipped: the operation-count rule, then the stack-size rule -/
theorem execInstr_nop (cfg : Cfg) (after : Bytes) (pos : Nat) (st : St) :
    execInstr cfg iNop after pos st = countOp cfg 0x61 st >>= checkSize := by
  unfold execInstr
  simp [maxElementSize, ofNat_nop, disabled, execOp_nop]

theorem countOp_counted (cfg : Cfg) (st : St) (hc : counted cfg = true) :
    countOp cfg 0x61 st =
      if st.opCount + 1 ≤ 201 then .ok { st with opCount := st.opCount + 1 } else .error .OP_COUNT := by
  unfold counted at hc
  unfold countOp maxOpsPerScript
  rw [hc]
  by_cases h : st.opCount + 1 ≤ 201
  · simp [h]
  · simp [h]

theorem countOp_uncounted (cfg : Cfg) (op : Nat) (st : St) (hc : counted cfg = false) :
    countOp cfg op st = .ok st := by
  unfold counted at hc
  unfold countOp
  rw [hc]; rfl

/-! ### k instructions (any `after` components, any starting `pos`) -/

/-- closed form for a run of OP_1: all of them succeed while the 1000-element limit (main + alt stack)
    is respected, and the first one beyond it fails with STACK_SIZE -/
theorem eval_ones (cfg : Cfg) (l : List (Instr × Bytes)) (hl : ∀ p ∈ l, p.1 = iOne) (pos : Nat) (st : St)
    (hx : st.cond.all id = true) (hinv : st.stack.length + st.alt.length ≤ 1000) :
    (evalInstrs cfg l pos st).2 =
      if st.stack.length + st.alt.length + l.length ≤ 1000
      then .ok { st with stack := List.replicate l.length (encodeNum 1) ++ st.stack }
      else .error .STACK_SIZE := by
  induction l generalizing pos st with
  | nil => simp [evalInstrs, hinv]
  | cons p rest ih =>
    obtain ⟨i, after⟩ := p
    have hi : i = iOne := hl (i, after) (by simp)
    subst hi
    have hrest : ∀ p ∈ rest, p.1 = iOne := fun p hp => hl p (by simp [hp])
    unfold evalInstrs
    rw [execInstr_one cfg after pos st hx]
    by_cases h1 : st.stack.length + st.alt.length + 1 ≤ 1000
    · rw [checkSize_ok _ (by simp; omega)]
      simp only []
      rw [ih hrest (pos + 1) { st with stack := encodeNum 1 :: st.stack } hx (by simp; omega)]
      simp only [List.length_cons]
      by_cases h2 : st.stack.length + st.alt.length + (rest.length + 1) ≤ 1000
      · rw [if_pos (by omega), if_pos h2, List.replicate_succ', List.append_assoc]; rfl
      · rw [if_neg (by omega), if_neg h2]
    · rw [checkSize_err _ (by simp; omega)]
      simp only [List.length_cons]
      rw [if_neg (by omega)]

/-- closed form for a run of OP_NOP under BASE / WITNESS_V0 -/
theorem eval_nops_counted (cfg : Cfg) (hc : counted cfg = true) (l : List (Instr × Bytes))
    (hl : ∀ p ∈ l, p.1 = iNop) (pos : Nat) (st : St)
    (hinv : st.stack.length + st.alt.length ≤ 1000) (hop : st.opCount ≤ 201) :
    (evalInstrs cfg l pos st).2 =
      if st.opCount + l.length ≤ 201
      then .ok { st with opCount := st.opCount + l.length }
      else .error .OP_COUNT := by
  induction l generalizing pos st with
  | nil => simp [evalInstrs, hop]
  | cons p rest ih =>
    obtain ⟨i, after⟩ := p
    have hi : i = iNop := hl (i, after) (by simp)
    subst hi
    have hrest : ∀ p ∈ rest, p.1 = iNop := fun p hp => hl p (by simp [hp])
    unfold evalInstrs
    rw [execInstr_nop, countOp_counted cfg st hc]
    by_cases h1 : st.opCount + 1 ≤ 201
    · rw [if_pos h1, ok_bind, checkSize_ok _ (by simpa using hinv)]
      simp only []
      rw [ih hrest (pos + 1) { st with opCount := st.opCount + 1 } (by simpa using hinv) (by simpa using h1)]
      simp only [List.length_cons]
      by_cases h2 : st.opCount + (rest.length + 1) ≤ 201
      · rw [if_pos (by omega), if_pos h2]
        have : st.opCount + 1 + rest.length = st.opCount + (rest.length + 1) := by omega
        simp [this]
      · rw [if_neg (by omega), if_neg h2]
    · rw [if_neg h1, err_bind]
      simp only [List.length_cons]
      rw [if_neg (by omega)]

/-- a run of OP_NOP where operations are not counted (TAPSCRIPT): the state does not change -/
theorem eval_nops_uncounted (cfg : Cfg) (hc : counted cfg = false) (l : List (Instr × Bytes))
    (hl : ∀ p ∈ l, p.1 = iNop) (pos : Nat) (st : St)
    (hinv : st.stack.length + st.alt.length ≤ 1000) :
    (evalInstrs cfg l pos st).2 = .ok st := by
  induction l generalizing pos with
  | nil => simp [evalInstrs]
  | cons p rest ih =>
    obtain ⟨i, after⟩ := p
    have hi : i = iNop := hl (i, after) (by simp)
    subst hi
    have hrest : ∀ p ∈ rest, p.1 = iNop := fun p hp => hl p (by simp [hp])
    unfold evalInstrs
    rw [execInstr_nop, countOp_uncounted cfg _ st hc, ok_bind, checkSize_ok _ hinv]
    exact ih hrest (pos + 1)

/-! ### the boundary families, instruction-list form

`ones k` / `nops k`: k copies of the instruction (the `after` component is irrelevant for these opcodes —
the closed forms above hold for every choice). -/

def ones (k : Nat) : List (Instr × Bytes) := List.replicate k (iOne, [])
def nops (k : Nat) : List (Instr × Bytes) := List.replicate k (iNop, [])

private theorem mem_ones (k : Nat) : ∀ p ∈ ones k, p.1 = iOne := by
  intro p hp; rw [(List.mem_replicate.mp hp).2]
private theorem mem_nops (k : Nat) : ∀ p ∈ nops k, p.1 = iNop := by
  intro p hp; rw [(List.mem_replicate.mp hp).2]

/-- k × OP_1 on a stack of n items with m items on the alt stack, in an executing branch:
    succeeds exactly when n + m + k ≤ 1000 -/
theorem ones_succeed_iff (cfg : Cfg) (k pos : Nat) (st : St) (hx : st.cond.all id = true)
    (hinv : st.stack.length + st.alt.length ≤ 1000) :
    (∃ st', (evalInstrs cfg (ones k) pos st).2 = .ok st') ↔ st.stack.length + st.alt.length + k ≤ 1000 := by
  rw [eval_ones cfg (ones k) (mem_ones k) pos st hx hinv]
  simp only [ones, List.length_replicate]
  by_cases h : st.stack.length + st.alt.length + k ≤ 1000
  · simp [h]
  · simp [h]

/-- the final state: k copies of the number 1 on top of the original stack, nothing else changed -/
theorem ones_result (cfg : Cfg) (k pos : Nat) (st : St) (hx : st.cond.all id = true)
    (h : st.stack.length + st.alt.length + k ≤ 1000) :
    (evalInstrs cfg (ones k) pos st).2 =
      .ok { st with stack := List.replicate k (encodeNum 1) ++ st.stack } := by
  rw [eval_ones cfg (ones k) (mem_ones k) pos st hx (by omega)]
  simp only [ones, List.length_replicate]
  rw [if_pos h]

/-- the pushed element is the one-byte string `01` -/
theorem encodeNum_one : encodeNum 1 = [1] := by
  simp [encodeNum, Model.serialize, leBytes]
  decide

/-- exceeding the limit (even by one) fails, and with the right error -/
theorem ones_fail (cfg : Cfg) (k pos : Nat) (st : St) (hx : st.cond.all id = true)
    (hinv : st.stack.length + st.alt.length ≤ 1000) (h : st.stack.length + st.alt.length + k > 1000) :
    (evalInstrs cfg (ones k) pos st).2 = .error .STACK_SIZE := by
  rw [eval_ones cfg (ones k) (mem_ones k) pos st hx hinv]
  simp only [ones, List.length_replicate]
  rw [if_neg (by omega)]

/-- the statement as asked: alt stack empty, no open conditional -/
theorem ones_succeed_iff' (cfg : Cfg) (k pos : Nat) (st : St) (hc : st.cond = []) (ha : st.alt = [])
    (hn : st.stack.length ≤ 1000) :
    (∃ st', (evalInstrs cfg (List.replicate k ((⟨0x51, []⟩ : Instr), ([] : Bytes))) pos st).2 = .ok st') ↔
      st.stack.length + k ≤ 1000 := by
  have := ones_succeed_iff cfg k pos st (by simp [hc]) (by simp [ha]; omega)
  simpa [ha, ones] using this

/-- k × OP_NOP under BASE or WITNESS_V0 with op count c (in any branch, executed or not):
    succeeds exactly when c + k ≤ 201 -/
theorem nops_succeed_iff_legacy (cfg : Cfg) (hv : cfg.sigversion = .BASE ∨ cfg.sigversion = .WITNESS_V0)
    (k pos : Nat) (st : St) (hinv : st.stack.length + st.alt.length ≤ 1000) (hop : st.opCount ≤ 201) :
    (∃ st', (evalInstrs cfg (nops k) pos st).2 = .ok st') ↔ st.opCount + k ≤ 201 := by
  have hc : counted cfg = true := by unfold counted; rcases hv with h | h <;> simp [h]
  rw [eval_nops_counted cfg hc (nops k) (mem_nops k) pos st hinv hop]
  simp only [nops, List.length_replicate]
  by_cases h : st.opCount + k ≤ 201
  · simp [h]
  · simp [h]

theorem nops_result_legacy (cfg : Cfg) (hv : cfg.sigversion = .BASE ∨ cfg.sigversion = .WITNESS_V0)
    (k pos : Nat) (st : St) (hinv : st.stack.length + st.alt.length ≤ 1000) (h : st.opCount + k ≤ 201) :
    (evalInstrs cfg (nops k) pos st).2 = .ok { st with opCount := st.opCount + k } := by
  have hc : counted cfg = true := by unfold counted; rcases hv with h | h <;> simp [h]
  rw [eval_nops_counted cfg hc (nops k) (mem_nops k) pos st hinv (by omega)]
  simp only [nops, List.length_replicate]
  rw [if_pos h]

/-- beyond the count the failure is OP_COUNT -/
theorem nops_fail_legacy (cfg : Cfg) (hv : cfg.sigversion = .BASE ∨ cfg.sigversion = .WITNESS_V0)
    (k pos : Nat) (st : St) (hinv : st.stack.length + st.alt.length ≤ 1000) (hop : st.opCount ≤ 201)
    (h : st.opCount + k > 201) :
    (evalInstrs cfg (nops k) pos st).2 = .error .OP_COUNT := by
  have hc : counted cfg = true := by unfold counted; rcases hv with h | h <;> simp [h]
  rw [eval_nops_counted cfg hc (nops k) (mem_nops k) pos st hinv hop]
  simp only [nops, List.length_replicate]
  rw [if_neg (by omega)]

/-- under TAPSCRIPT there is no operation limit: any number of OP_NOP succeeds and leaves the state alone -/
theorem nops_succeed_tapscript (cfg : Cfg) (hv : cfg.sigversion = .TAPSCRIPT) (k pos : Nat) (st : St)
    (hinv : st.stack.length + st.alt.length ≤ 1000) :
    (evalInstrs cfg (nops k) pos st).2 = .ok st := by
  have hc : counted cfg = false := by unfold counted; simp [hv]
  exact eval_nops_uncounted cfg hc (nops k) (mem_nops k) pos st hinv

/-- the stack-size invariant is needed: on an over-full state even one OP_NOP fails (STACK_SIZE) -/
theorem nop_overfull_tapscript (cfg : Cfg) (hv : cfg.sigversion = .TAPSCRIPT) (pos : Nat) (st : St)
    (h : st.stack.length + st.alt.length > 1000) :
    (evalInstrs cfg (nops 1) pos st).2 = .error .STACK_SIZE := by
  have hc : counted cfg = false := by unfold counted; simp [hv]
  show (evalInstrs cfg [(iNop, [])] pos st).2 = _
  unfold evalInstrs
  rw [execInstr_nop, countOp_uncounted cfg _ st hc, ok_bind, checkSize_err _ h]

/-! ### the same families as byte scripts through `decodePrefix` / `evalScript` -/

/-- a script consisting of k copies of a one-byte non-push opcode decodes completely,
    into k instructions with that opcode -/
theorem decodePrefix_replicate (b : UInt8) (hb : 0x4e < b.toNat) (k fuel : Nat) (hf : k ≤ fuel) :
    (decodePrefix fuel (List.replicate k b)).2 = true ∧
    (decodePrefix fuel (List.replicate k b)).1.length = k ∧
    ∀ p ∈ (decodePrefix fuel (List.replicate k b)).1, p.1 = ⟨b.toNat, []⟩ := by
  induction k generalizing fuel with
  | zero => simp [decodePrefix]
  | succ k ih =>
    obtain ⟨f, rfl⟩ : ∃ f, fuel = f + 1 := ⟨fuel - 1, by omega⟩
    have hd : decodeOne (b :: List.replicate k b) = some (⟨b.toNat, []⟩, List.replicate k b) := by
      unfold decodeOne
      simp only []
      rw [if_neg (by omega)]
    obtain ⟨h1, h2, h3⟩ := ih f (by omega)
    rw [List.replicate_succ]
    unfold decodePrefix
    simp only [hd]
    refine ⟨h1, by simp [h2], ?_⟩
    intro p hp
    rcases List.mem_cons.mp hp with rfl | hp
    · rfl
    · exact h3 p hp

/-- the byte script `51 51 … 51` (k times) on an initial state with no open conditional:
    `evalScript` succeeds exactly when n + m + k ≤ 1000 -/
theorem script_ones_succeed_iff (cfg : Cfg) (k : Nat) (st0 : St) (hc : st0.cond = [])
    (hinv : st0.stack.length + st0.alt.length ≤ 1000) :
    (∃ st', (evalScript cfg (List.replicate k 0x51) st0).result = .ok st') ↔
      st0.stack.length + st0.alt.length + k ≤ 1000 := by
  obtain ⟨h1, h2, h3⟩ := decodePrefix_replicate 0x51 (by decide) k k (Nat.le_refl k)
  have he := eval_ones cfg _ h3 0 { st0 with codeFrom := List.replicate k 0x51 } (by simp [hc]) (by simpa using hinv)
  rw [h2] at he
  simp only [] at he
  unfold evalScript
  simp only [List.length_replicate]
  by_cases hs : ((cfg.sigversion == .BASE || cfg.sigversion == .WITNESS_V0) &&
      decide (k > maxScriptSize)) = true
  · rw [if_pos hs]
    simp [maxScriptSize] at hs
    simp; omega
  · rw [if_neg hs]
    simp only [he, h1]
    by_cases h : st0.stack.length + st0.alt.length + k ≤ 1000
    · simp [h, hc]
    · simp [h]

/-- … and a script of at most 10000 bytes that exceeds the stack limit fails with STACK_SIZE -/
theorem script_ones_fail (cfg : Cfg) (k : Nat) (st0 : St) (hc : st0.cond = [])
    (hinv : st0.stack.length + st0.alt.length ≤ 1000) (hk : k ≤ 10000)
    (h : st0.stack.length + st0.alt.length + k > 1000) :
    (evalScript cfg (List.replicate k 0x51) st0).result = .error .STACK_SIZE := by
  obtain ⟨h1, h2, h3⟩ := decodePrefix_replicate 0x51 (by decide) k k (Nat.le_refl k)
  have he := eval_ones cfg _ h3 0 { st0 with codeFrom := List.replicate k 0x51 } (by simp [hc]) (by simpa using hinv)
  rw [h2] at he
  simp only [] at he
  unfold evalScript
  simp only [List.length_replicate]
  rw [if_neg (by simp [maxScriptSize]; omega)]
  simp only [he]
  rw [if_neg (by omega)]

/-- the byte script `61 61 … 61` (k times) under BASE / WITNESS_V0: succeeds exactly when c + k ≤ 201 -/
theorem script_nops_succeed_iff_legacy (cfg : Cfg) (hv : cfg.sigversion = .BASE ∨ cfg.sigversion = .WITNESS_V0)
    (k : Nat) (st0 : St) (hc : st0.cond = [])
    (hinv : st0.stack.length + st0.alt.length ≤ 1000) (hop : st0.opCount ≤ 201) :
    (∃ st', (evalScript cfg (List.replicate k 0x61) st0).result = .ok st') ↔ st0.opCount + k ≤ 201 := by
  have hcnt : counted cfg = true := by unfold counted; rcases hv with h | h <;> simp [h]
  obtain ⟨h1, h2, h3⟩ := decodePrefix_replicate 0x61 (by decide) k k (Nat.le_refl k)
  have he := eval_nops_counted cfg hcnt _ h3 0 { st0 with codeFrom := List.replicate k 0x61 }
    (by simpa using hinv) (by simpa using hop)
  rw [h2] at he
  simp only [] at he
  unfold evalScript
  simp only [List.length_replicate]
  by_cases hs : ((cfg.sigversion == .BASE || cfg.sigversion == .WITNESS_V0) &&
      decide (k > maxScriptSize)) = true
  · rw [if_pos hs]
    simp [maxScriptSize] at hs
    simp; omega
  · rw [if_neg hs]
    simp only [he, h1]
    by_cases h : st0.opCount + k ≤ 201
    · simp [h, hc]
    · simp [h]

theorem script_nops_fail_legacy (cfg : Cfg) (hv : cfg.sigversion = .BASE ∨ cfg.sigversion = .WITNESS_V0)
    (k : Nat) (st0 : St) (hinv : st0.stack.length + st0.alt.length ≤ 1000) (hop : st0.opCount ≤ 201)
    (hk : k ≤ 10000) (h : st0.opCount + k > 201) :
    (evalScript cfg (List.replicate k 0x61) st0).result = .error .OP_COUNT := by
  have hcnt : counted cfg = true := by unfold counted; rcases hv with h | h <;> simp [h]
  obtain ⟨h1, h2, h3⟩ := decodePrefix_replicate 0x61 (by decide) k k (Nat.le_refl k)
  have he := eval_nops_counted cfg hcnt _ h3 0 { st0 with codeFrom := List.replicate k 0x61 }
    (by simpa using hinv) (by simpa using hop)
  rw [h2] at he
  simp only [] at he
  unfold evalScript
  simp only [List.length_replicate]
  rw [if_neg (by simp [maxScriptSize]; omega)]
  simp only [he]
  rw [if_neg (by omega)]

/-- under TAPSCRIPT a script of any number of OP_NOPs (no script-size limit either) succeeds -/
theorem script_nops_succeed_tapscript (cfg : Cfg) (hv : cfg.sigversion = .TAPSCRIPT) (k : Nat) (st0 : St)
    (hc : st0.cond = []) (hinv : st0.stack.length + st0.alt.length ≤ 1000) :
    (evalScript cfg (List.replicate k 0x61) st0).result =
      .ok { st0 with codeFrom := List.replicate k 0x61 } := by
  have hcnt : counted cfg = false := by unfold counted; simp [hv]
  obtain ⟨h1, h2, h3⟩ := decodePrefix_replicate 0x61 (by decide) k k (Nat.le_refl k)
  have he := eval_nops_uncounted cfg hcnt _ h3 0 { st0 with codeFrom := List.replicate k 0x61 }
    (by simpa using hinv)
  unfold evalScript
  simp only [List.length_replicate]
  rw [if_neg (by simp [hv])]
  simp only [he, h1]
  simp [hc]

/-! ### instances at the limits -/

section Examples
variable (cfg : Cfg)

/-- from the empty state: 1000 × OP_1 succeeds, 1001 × OP_1 fails with STACK_SIZE -/
example : ∃ st', (evalInstrs cfg (ones 1000) 0 {}).2 = .ok st' :=
  (ones_succeed_iff cfg 1000 0 {} rfl (by decide)).mpr (by decide)
example : (evalInstrs cfg (ones 1001) 0 {}).2 = .error .STACK_SIZE :=
  ones_fail cfg 1001 0 {} rfl (by decide) (by decide)
example : ¬ ∃ st', (evalInstrs cfg (ones 1001) 0 {}).2 = .ok st' :=
  fun h => absurd ((ones_succeed_iff cfg 1001 0 {} rfl (by decide)).mp h) (by decide)
/-- three items on the stack and two on the alt stack leave room for exactly 995 -/
example (a b c d e : Bytes) :
    (∃ st', (evalInstrs cfg (ones 995) 7 { stack := [a, b, c], alt := [d, e] }).2 = .ok st') ∧
    (evalInstrs cfg (ones 996) 7 { stack := [a, b, c], alt := [d, e] }).2 = .error .STACK_SIZE :=
  ⟨(ones_succeed_iff cfg 995 7 _ rfl (by simp)).mpr (by simp), ones_fail cfg 996 7 _ rfl (by simp) (by simp)⟩

/-- legacy: 201 × OP_NOP succeeds, 202 × OP_NOP fails with OP_COUNT -/
example (hv : cfg.sigversion = .BASE) : (evalInstrs cfg (nops 201) 0 {}).2 = .ok { opCount := 201 } :=
  nops_result_legacy cfg (.inl hv) 201 0 {} (by decide) (by decide)
example (hv : cfg.sigversion = .WITNESS_V0) : (evalInstrs cfg (nops 202) 0 {}).2 = .error .OP_COUNT :=
  nops_fail_legacy cfg (.inr hv) 202 0 {} (by decide) (by decide) (by decide)
/-- with 200 operations already counted there is room for exactly one more -/
example (hv : cfg.sigversion = .BASE) :
    (∃ st', (evalInstrs cfg (nops 1) 0 { opCount := 200 }).2 = .ok st') ∧
    ¬ (∃ st', (evalInstrs cfg (nops 2) 0 { opCount := 200 }).2 = .ok st') :=
  ⟨(nops_succeed_iff_legacy cfg (.inl hv) 1 0 _ (by decide) (by decide)).mpr (by decide),
   fun h => absurd ((nops_succeed_iff_legacy cfg (.inl hv) 2 0 _ (by decide) (by decide)).mp h) (by decide)⟩
/-- tapscript: 100000 × OP_NOP succeeds -/
example (hv : cfg.sigversion = .TAPSCRIPT) : (evalInstrs cfg (nops 100000) 0 {}).2 = .ok {} :=
  nops_succeed_tapscript cfg hv 100000 0 {} (by decide)

/-- byte scripts -/
example : ∃ st', (evalScript cfg (List.replicate 1000 0x51) {}).result = .ok st' :=
  (script_ones_succeed_iff cfg 1000 {} rfl (by decide)).mpr (by decide)
example : (evalScript cfg (List.replicate 1001 0x51) {}).result = .error .STACK_SIZE :=
  script_ones_fail cfg 1001 {} rfl (by decide) (by decide) (by decide)
example (hv : cfg.sigversion = .BASE) : ∃ st', (evalScript cfg (List.replicate 201 0x61) {}).result = .ok st' :=
  (script_nops_succeed_iff_legacy cfg (.inl hv) 201 {} rfl (by decide) (by decide)).mpr (by decide)
example (hv : cfg.sigversion = .BASE) : (evalScript cfg (List.replicate 202 0x61) {}).result = .error .OP_COUNT :=
  script_nops_fail_legacy cfg (.inl hv) 202 {} (by decide) (by decide) (by decide) (by decide)

end Examples

end Btcdeb.Proofs.C10
