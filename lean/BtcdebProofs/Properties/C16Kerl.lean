/-
  C16 (and C14: `tf name args`), the interactive command-line layer — the command functions receive the words the user typed.

  Model: `Btcdeb/Model/Kerl.lean`; rule: `Btcdeb/Spec/Kerl.lean` (every character of the argument text is a literal, a
  separator or a mark; the words are the non-empty strings of literals between separators); helper lemmas:
  `BtcdebProofs/Lemmas/Kerl.lean`.  All statements are for lines of any content without NUL and of any length the `int`
  indices of kerl.c can hold (the size hypotheses), any escape character, any command table.

  (a) ARGV = THE RULE'S WORDS
      `C16_kerl_argv_single`     without readline (the `btcdeb` of the build directory): `kerl_make_argcv_escape` hands back
                                 exactly `Spec.words` of the argument text (an open quote / pending backslash ends with the line).
      `C16_kerl_argv_continued`  with readline, ALL inputs: exactly the words of the logical text the continuation lines form
                                 (`Spec.logical`): every line break inside a quoted stretch is a newline of the argument, empty
                                 lines included (repaired: /repo 17d18b5; before, `"a⏎⏎b"` was delivered as `a⏎b`); after a
                                 pending backslash the next line continues the word without a newline.
      `C16_kerl_plain_words`     an argument text without quotes and backslashes is its blank-separated words;
      `C16_kerl_exec_words`, `C16_kerl_exec_line`   hence the line `exec a b c` reaches `Instance::eval` (`Model.instEval`) with
                                 `[a, b, c]`: the link to the `exec` model of `Model/Session.lean`, for which `Properties/C16.lean`
                                 proves that it applies the operations exactly as the script would.
  (b) DISPATCH  `C16_kerl_dispatch`: the command word (`Spec.commandWord`) that is EXACTLY the name of a registered command
      reaches that command's function — the first one of that name — with `Spec.argText` of the line; any other word reaches
      the fallback, or "No such command" (`C16_kerl_dispatch_interpret_partial`: this is `Spec.interpret`).  The fallback receives the
      line with the blank that ended the command word turned into a space: the line as typed unless that blank is a tab
      (`…_partial` hypothesis `hsep`; btcdeb registers no fallback).
      `C16_kerl_prepare`: what is executed for a typed line is `Spec.trim (Spec.cutComment '#' line)`.
  (c) HISTORY  `C16_kerl_unescape_escape`: `unescape (escape s) = s` for every `s`; `C16_kerl_escape_no_separator`: the escaped
      text contains no raw newline, tab, carriage return or backspace; `C16_kerl_history_roundtrip`: the same for the C
      functions (`escape`, then `unescape(buf, 1)` in place), without leaving their buffers.
-/
import Btcdeb
import BtcdebProofs.Lemmas.Kerl
namespace Btcdeb.Proofs.C16Kerl
open Btcdeb Btcdeb.Model Btcdeb.Model.Kerl Btcdeb.Proofs.Kerl

theorem resOpt_some {r : ArgRes} {v : List Bytes} (h : resOpt r = some v) : r = .ok v := by
  cases r with
  | ok w => simp only [resOpt, Option.some.injEq] at h; rw [h]
  | abort => cases h

theorem resOpt_none {r : ArgRes} (h : resOpt r = none) : r = .abort := by
  cases r with
  | ok w => cases h
  | abort => rfl

/-- (a) without readline: the argv is the rule's word list (every literal `escape` character with a backslash in front) -/
theorem C16_kerl_argv_single (escape : UInt8) (mf : MoreFinal) (arg : Bytes) (more : List Bytes) (hmf : MfWf mf)
    (hn : (0 : UInt8) ∉ arg) (hsize : 2 * arg.length + 1 + (more.map (fun l => 2 * l.length + 1)).sum + 1 ≤ Kerl.intMax) :
    ∃ o, makeArgcvEscape false escape mf arg more = .ok o ∧
      o.res = .ok ((Spec.Kerl.words arg).map (Spec.Kerl.protect escape)) ∧ o.rest = more := by
  obtain ⟨o, h, r, _⟩ := makeArgcvEscape_rep false escape mf arg more hmf hsize
  rw [aLoop_single escape [] {} arg more hn (abs_empty escape)] at r
  simp only [Prod.mk.injEq] at r
  exact ⟨o, h, resOpt_some r.1, r.2⟩

/-- the outcome of the rule for a command typed over several lines -/
def specResult (escape : UInt8) : Option (List Bytes × List Bytes) → ArgRes × List Bytes
  | none => (.abort, [])
  | some (ws, rest) => (.ok (ws.map (Spec.Kerl.protect escape)), rest)

/-- (a) with readline, ALL inputs: the argv is the word list of the logical text; every line break inside a quoted stretch
    is a newline of the argument -/
theorem C16_kerl_argv_continued (escape : UInt8) (he : escape ≠ 10) (mf : MoreFinal) (arg : Bytes) (more : List Bytes)
    (hmf : MfWf mf) (hn : (0 : UInt8) ∉ arg) (hm : ∀ l ∈ more, (0 : UInt8) ∉ l)
    (hsize : 2 * arg.length + 1 + (more.map (fun l => 2 * l.length + 1)).sum + 1 ≤ Kerl.intMax) :
    ∃ o, makeArgcvEscape true escape mf arg more = .ok o ∧
      (o.res, o.rest) = specResult escape (Spec.Kerl.wordsMulti arg more) := by
  obtain ⟨o, h, r, _⟩ := makeArgcvEscape_rep true escape mf arg more hmf hsize
  have hs := aLoop_spec escape he more arg [] {} hn hm (abs_empty escape)
  rw [hs] at r
  refine ⟨o, h, ?_⟩
  unfold Spec.Kerl.wordsMulti
  have hl : lexOf {} = {} := rfl
  rw [hl] at r
  cases hq : Spec.Kerl.logical {} [] arg more with
  | none =>
    rw [hq] at r
    simp only [specOut, Prod.mk.injEq] at r
    simp only [Option.map_none, specResult]
    rw [resOpt_none r.1, r.2]
  | some p =>
    obtain ⟨roles, rest⟩ := p
    rw [hq] at r
    simp only [specOut, Prod.mk.injEq] at r
    simp only [Option.map_some, specResult]
    rw [resOpt_some r.1, r.2]

/-- (a) blank-separated words without quotes and backslashes are the rule's words -/
theorem C16_kerl_plain_words (ws : List Bytes) (h : ∀ w ∈ ws, w ≠ [] ∧ ∀ c ∈ w, plainChar c = true) :
    Spec.Kerl.words (joinWords ws) = ws :=
  words_joinWords ws h

theorem joinWords_nulfree : ∀ (ws : List Bytes), (∀ w ∈ ws, (0 : UInt8) ∉ w) → (0 : UInt8) ∉ joinWords ws
  | [], _ => by simp [joinWords]
  | [w], h => by simpa [joinWords] using h w List.mem_cons_self
  | w :: w2 :: rest, h => by
    have ih := joinWords_nulfree (w2 :: rest) (fun x hx => h x (List.mem_cons_of_mem _ hx))
    simp only [joinWords]
    intro hm
    rcases List.mem_append.mp hm with hm | hm
    · exact h w List.mem_cons_self hm
    · rcases List.mem_cons.mp hm with hm | hm
      · exact absurd hm (by decide)
      · exact ih hm

/-- (a) `exec a b c`: `fn_exec` hands exactly the words typed to `Instance::eval`, in both configurations -/
theorem C16_kerl_exec_words (cx : Ctx) (e : IEnv) (rl : Bool) (mf : MoreFinal) (ws : List Bytes) (more : List Bytes)
    (hmf : MfWf mf) (hne : ws ≠ []) (hw : ∀ w ∈ ws, w ≠ [] ∧ (0 : UInt8) ∉ w ∧ ∀ c ∈ w, plainChar c = true)
    (hm : ∀ l ∈ more, (0 : UInt8) ∉ l)
    (hsize : 2 * (joinWords ws).length + 1 + (more.map (fun l => 2 * l.length + 1)).sum + 1 ≤ Kerl.intMax) :
    ∃ o, fnExec cx e rl mf (joinWords ws) more = .ok (some (instEval cx e ws), o) ∧ o.rest = more := by
  have hn := joinWords_nulfree ws (fun w hw' => (hw w hw').2.1)
  have hwords := C16_kerl_plain_words ws (fun w hw' => ⟨(hw w hw').1, (hw w hw').2.2⟩)
  have hprot : ws.map (Spec.Kerl.protect 0) = ws := by
    have : ∀ (l : List Bytes), (∀ w ∈ l, (0 : UInt8) ∉ w) → l.map (Spec.Kerl.protect 0) = l := by
      intro l
      induction l with
      | nil => intro _; rfl
      | cons w rest ih =>
        intro h
        rw [List.map_cons, ih (fun x hx => h x (List.mem_cons_of_mem _ hx))]
        congr 1
        have hw0 := h w List.mem_cons_self
        clear ih h
        induction w with
        | nil => rfl
        | cons c cs ihc =>
          have hc : c ≠ 0 := fun hc => hw0 (by rw [hc]; exact List.mem_cons_self)
          have : (c == 0) = false := by simpa using hc
          simp only [Spec.Kerl.protect, List.flatMap_cons, this, Bool.false_eq_true, if_false]
          have := ihc (fun hm => hw0 (List.mem_cons_of_mem _ hm))
          simp only [Spec.Kerl.protect] at this
          rw [this]; rfl
    exact this ws (fun w hw' => (hw w hw').2.1)
  have hlen : ¬ ws.length < 1 := by
    cases ws with
    | nil => exact absurd rfl hne
    | cons _ _ => simp
  unfold fnExec makeArgcv
  cases rl with
  | false =>
    obtain ⟨o, h, r1, r2⟩ := C16_kerl_argv_single 0 mf (joinWords ws) more hmf hn hsize
    rw [h]
    simp only [bind, Except.bind]
    rw [r1, hwords, hprot]
    simp only []
    rw [if_neg hlen]
    exact ⟨o, rfl, r2⟩
  | true =>
    obtain ⟨o, h, r⟩ := C16_kerl_argv_continued 0 (by decide) mf (joinWords ws) more hmf hn hm hsize
    -- a text without quotes and backslashes is complete after its first line
    have hcl : Spec.Kerl.classify {} (joinWords ws) = ((Spec.Kerl.classify {} (joinWords ws)).1, {}) := by
      have key : ∀ (ws : List Bytes), (∀ w ∈ ws, ∀ c ∈ w, plainChar c = true) →
          (Spec.Kerl.classify {} (joinWords ws)).2 = {} := by
        intro ws
        induction ws with
        | nil => intro _; rfl
        | cons w rest ih =>
          intro h
          cases rest with
          | nil => simp only [joinWords]; rw [classify_plain w (h w List.mem_cons_self)]
          | cons w2 rest2 =>
            simp only [joinWords]
            rw [classify_append, classify_plain w (h w List.mem_cons_self), classify_cons]
            have : stepRole {} 32 = (.sep, {}) := by decide
            rw [this]
            exact ih (fun x hx => h x (List.mem_cons_of_mem _ hx))
      exact Prod.ext rfl (key ws (fun w hw' => (hw w hw').2.2))
    have hmulti : Spec.Kerl.wordsMulti (joinWords ws) more = some (Spec.Kerl.words (joinWords ws), more) := by
      unfold Spec.Kerl.wordsMulti Spec.Kerl.logical Spec.Kerl.words
      rw [hcl]
      simp [Spec.Kerl.complete]
    rw [hmulti] at r
    simp only [specResult, Prod.mk.injEq] at r
    rw [h]
    simp only [bind, Except.bind]
    rw [r.1, hwords, hprot]
    simp only []
    rw [if_neg hlen]
    exact ⟨o, rfl, r.2⟩

-- ---------------------------------------------------------------------------------------------
-- (b) dispatch

theorem commandWord_eq (line : Bytes) : Spec.Kerl.commandWord line = (line.dropWhile isWs).takeWhile notWs := rfl
theorem argText_eq (line : Bytes) : Spec.Kerl.argText line = ((line.dropWhile isWs).dropWhile notWs).dropWhile isWs := rfl

/-- the line the fallback receives: the blank that ended the command word has become a space -/
def fallbackLine (line : Bytes) : Bytes :=
  line.takeWhile isWs ++ (line.dropWhile isWs).takeWhile notWs ++
    (match (line.dropWhile isWs).dropWhile notWs with
     | [] => []
     | _ :: ys => 32 :: ys)

/-- (b) `execute_line`: an exact command name reaches its function with the argument text; anything else the fallback or
    "No such command" -/
theorem C16_kerl_dispatch (cfg : Config) (line tail : Bytes) (hn : (0 : UInt8) ∉ line) (hint : line.length + 1 ≤ Kerl.intMax) :
    ∃ mem', executeLine cfg (line ++ 0 :: tail) = .ok
      ((match findCommand cfg.commands (Spec.Kerl.commandWord line) with
        | some (idx, kind) => Dispatch.call idx kind (Spec.Kerl.argText line)
        | none => if cfg.hasFallback then .fallback (fallbackLine line) else .noSuch (Spec.Kerl.commandWord line)), mem') := by
  obtain ⟨mem', h⟩ := executeLine_spec cfg line tail hn hint
  exact ⟨mem', by rw [h]; rfl⟩

/-- the fallback receives the line as typed unless the command word is followed by a tab -/
theorem fallbackLine_partial (line : Bytes)
    (hsep : ∀ y ys, (line.dropWhile isWs).dropWhile notWs = y :: ys → y = 32) : fallbackLine line = line := by
  unfold fallbackLine
  have h1 : line = line.takeWhile isWs ++ ((line.dropWhile isWs).takeWhile notWs ++ (line.dropWhile isWs).dropWhile notWs) := by
    rw [List.takeWhile_append_dropWhile, List.takeWhile_append_dropWhile]
  cases ha : (line.dropWhile isWs).dropWhile notWs with
  | nil => rw [ha] at h1; simp only []; rw [List.append_nil] at h1 ⊢; exact h1.symm
  | cons y ys =>
    rw [ha] at h1
    simp only []
    rw [← hsep y ys ha, List.append_assoc]
    exact h1.symm

/-- the rule's view of a decision -/
def toAction (cfg : Config) : Dispatch → Spec.Kerl.Action
  | .call idx _ arg => .run (((cfg.commands[idx]?).map (·.1)).getD []) arg
  | .fallback l => .fallback l
  | .noSuch w => .unknown w

/-- (b) the decision is `Spec.interpret` (with the `_partial` hypothesis `hsep` for a registered fallback) -/
theorem C16_kerl_dispatch_interpret_partial (cfg : Config) (line tail : Bytes) (hn : (0 : UInt8) ∉ line) (hint : line.length + 1 ≤ Kerl.intMax)
    (hsep : cfg.hasFallback = true → ∀ y ys, (line.dropWhile isWs).dropWhile notWs = y :: ys → y = 32) :
    ∃ d mem', executeLine cfg (line ++ 0 :: tail) = .ok (d, mem') ∧
      toAction cfg d = Spec.Kerl.interpret (cfg.commands.map (·.1)) cfg.hasFallback line := by
  obtain ⟨mem', h⟩ := C16_kerl_dispatch cfg line tail hn hint
  refine ⟨_, mem', h, ?_⟩
  unfold Spec.Kerl.interpret
  obtain ⟨f1, f2⟩ := findCommand_spec (Spec.Kerl.commandWord line) cfg.commands
  cases hf : findCommand cfg.commands (Spec.Kerl.commandWord line) with
  | some p =>
    obtain ⟨idx, kind⟩ := p
    obtain ⟨c, hc, hname, _, _⟩ := f1 idx kind hf
    have hcont : (cfg.commands.map (·.1)).contains (Spec.Kerl.commandWord line) = true := by
      rw [List.contains_iff_mem]
      exact List.mem_map.mpr ⟨c, List.mem_of_getElem? hc, hname⟩
    simp only [toAction, hc, Option.map_some, Option.getD_some, hname, hcont, if_true]
  | none =>
    have hcont : (cfg.commands.map (·.1)).contains (Spec.Kerl.commandWord line) = false := by
      cases hb : (cfg.commands.map (·.1)).contains (Spec.Kerl.commandWord line) with
      | false => rfl
      | true =>
        exfalso
        rw [List.contains_iff_mem] at hb
        obtain ⟨c, hc, hname⟩ := List.mem_map.mp hb
        exact f2 hf c hc hname
    simp only [hcont, Bool.false_eq_true, if_false]
    by_cases hfb : cfg.hasFallback = true
    · simp only [hfb, if_true, toAction]
      rw [fallbackLine_partial line (hsep hfb)]
    · simp only [hfb, if_false, toAction, Bool.false_eq_true]

/-- (b) what `kerl_run` executes for a typed line: the text before the comment character, blanks removed at both ends -/
theorem C16_kerl_prepare (cfg : Config) (line : Bytes) (hn : (0 : UInt8) ∉ line) :
    ∃ m0 s mem, cutCommentMem cfg line = .ok m0 ∧ stripwhite m0 = .ok (s, mem) ∧
      cstrAt mem s = .ok (Spec.Kerl.trim (Spec.Kerl.cutComment cfg.commentChar line)) := by
  obtain ⟨tail0, hcut⟩ := cutCommentMem_spec cfg line
  have hcn : (0 : UInt8) ∉ Spec.Kerl.cutComment cfg.commentChar line := fun h => hn ((cutComment_sub cfg.commentChar line).1 0 h)
  obtain ⟨tail', hs, _⟩ := stripwhite_spec _ tail0 hcn
  refine ⟨_, _, _, hcut, hs, ?_⟩
  have hsub : List.Sublist (rtrim ((Spec.Kerl.cutComment cfg.commentChar line).dropWhile isWs)) (Spec.Kerl.cutComment cfg.commentChar line) :=
    (rtrim_sub _).trans (List.dropWhile_sublist _)
  rw [List.append_assoc, cstrAt_prefix_nulfree _ _ _ (fun h => hcn (hsub.subset h))]
  rfl

/-- (a)+(b) the whole route of `exec a b c`: btcdeb's table sends the line to `fn_exec` (entry 5) with the text `a b c` -/
theorem C16_kerl_exec_line (rl : Bool) (ws : List Bytes) (hne : ws ≠ [])
    (hw : ∀ w ∈ ws, w ≠ [] ∧ (0 : UInt8) ∉ w ∧ ∀ c ∈ w, isWs c = false)
    (hint : (joinWords ws).length + 7 ≤ Kerl.intMax) :
    ∃ mem', executeLine (btcdebConfig rl) (ofStr (tok "exec " ++ joinWords ws)) =
      .ok (.call 5 .splitting (joinWords ws), mem') := by
  have hn := joinWords_nulfree ws (fun w hw' => (hw w hw').2.1)
  -- the first character of the argument text is no blank
  obtain ⟨x, xs, hj, hx⟩ : ∃ x xs, joinWords ws = x :: xs ∧ isWs x = false := by
    cases ws with
    | nil => exact absurd rfl hne
    | cons w rest =>
      obtain ⟨hwne, _, hp⟩ := hw w List.mem_cons_self
      cases w with
      | nil => exact absurd rfl hwne
      | cons x xs =>
        cases rest with
        | nil => exact ⟨x, xs, rfl, hp x List.mem_cons_self⟩
        | cons w2 r2 => exact ⟨x, xs ++ 32 :: joinWords (w2 :: r2), rfl, hp x List.mem_cons_self⟩
  have hparts : Parts (tok "exec " ++ joinWords ws) [] (tok "exec") (32 :: joinWords ws) :=
    ⟨rfl, fun c hc => by simp at hc, by decide, Or.inr ⟨32, joinWords ws, rfl, by decide⟩, fun h => by cases h⟩
  have hnl : (0 : UInt8) ∉ tok "exec " ++ joinWords ws := by
    intro hm
    rcases List.mem_append.mp hm with hm | hm
    · revert hm; decide
    · exact hn hm
  obtain ⟨mem', h⟩ := executeLine_parts (btcdebConfig rl) hparts [] hnl (by
    have : (tok "exec " ++ joinWords ws).length = 5 + (joinWords ws).length := by rw [List.length_append]; rfl
    omega)
  refine ⟨mem', ?_⟩
  unfold ofStr
  rw [h]
  have hf : findCommand (btcdebConfig rl).commands (tok "exec") = some (5, .splitting) := by cases rl <;> decide
  unfold expected
  rw [hf]
  simp only []
  rw [List.dropWhile_cons, if_pos (by decide), hj, List.dropWhile_cons, if_neg (by simp [hx])]

-- ---------------------------------------------------------------------------------------------
-- (c) the history file

/-- (c) `unescape (escape s) = s`, every byte string -/
theorem C16_kerl_unescape_escape (s : Bytes) : Spec.Kerl.unescape (Spec.Kerl.escape s) = s := unescape_escape s

/-- (c) the escaped text contains no raw newline, tab, carriage return or backspace: one command per history line -/
theorem C16_kerl_escape_no_separator (s : Bytes) (x : UInt8) (hx : x = 10 ∨ x = 9 ∨ x = 13 ∨ x = 8) :
    x ∉ Spec.Kerl.escape s := escape_no_separator s x hx

/-- (c) the C functions: what `escape` writes, `unescape(buf, 1)` reads back, both inside their buffers -/
theorem C16_kerl_history_roundtrip (s tail : Bytes) (hn : (0 : UInt8) ∉ s) (hint : 2 * s.length ≤ Kerl.intMax) :
    ∃ written mem', escape s = .ok written ∧ unescape (written.getD s ++ 0 :: tail) true = .ok (some s, mem') := by
  rw [escape_spec s hn (by omega)]
  by_cases ha : s.any Spec.Kerl.special = true
  · rw [if_pos ha]
    have hlen := escape_length s
    have hle : (s.filter needsEscape).length ≤ s.length := List.length_filter_le _ _
    obtain ⟨mem', h⟩ := unescape_reuse_spec (Spec.Kerl.escape s) tail (escape_nulfree s hn) (by omega)
    rw [unescape_escape] at h
    exact ⟨_, mem', rfl, h⟩
  · rw [if_neg ha]
    -- nothing was escaped: the text holds no backslash
    have hnb : (92 : UInt8) ∉ s := by
      intro hm
      apply ha
      rw [List.any_eq_true]
      exact ⟨92, hm, by decide⟩
    obtain ⟨mem', h⟩ := unescape_reuse_spec s tail hn (by omega)
    rw [unescape_no_backslash s hnb] at h
    exact ⟨_, mem', rfl, h⟩

-- ---------------------------------------------------------------------------------------------
-- the hypotheses are satisfiable

/-- `1 "2 3"  'a b'\ c` (the hypotheses of `C16_kerl_argv_single` hold, the words are computed by the rule) -/
example : ∃ o, makeArgcv false {} (tok "1 \"2 3\"  'a b'\\ c") [] = .ok o ∧ o.res = .ok [tok "1", tok "2 3", tok "a b c"] := by
  obtain ⟨o, h, r, _⟩ := C16_kerl_argv_single 0 {} (tok "1 \"2 3\"  'a b'\\ c") [] trivial (by decide) (by decide)
  exact ⟨o, h, by rw [r]; decide⟩
/-- an empty quoted argument is no argument; a tab does not separate -/
example : Spec.Kerl.words (tok "a \"\" b\tc") = [tok "a", tok "b\tc"] := by decide
/-- continuation: `"a` ⏎ `b" c`, one more line left unread -/
example : ∃ o, makeArgcv true {} (tok "\"a") [tok "b\" c", tok "next"] = .ok o ∧
    (o.res, o.rest) = (.ok [tok "a\nb", tok "c"], [tok "next"]) := by
  obtain ⟨o, h, r⟩ := C16_kerl_argv_continued 0 (by decide) {} (tok "\"a") [tok "b\" c", tok "next"] trivial (by decide)
    (by decide) (by decide)
  exact ⟨o, h, by rw [r]; decide⟩
/-- end of input inside a quote: "user abort" -/
example : ∃ o, makeArgcv true {} (tok "\"a") [] = .ok o ∧ o.res = .abort := by
  obtain ⟨o, h, r⟩ := C16_kerl_argv_continued 0 (by decide) {} (tok "\"a") [] trivial (by decide) (by decide) (by decide)
  refine ⟨o, h, ?_⟩
  have : (o.res, o.rest) = (ArgRes.abort, []) := by rw [r]; decide
  exact (Prod.mk.inj this).1
/-- empty lines inside a quoted argument: `"x` ⏎ ⏎ ⏎ `y"` is `x⏎⏎⏎y`, three line breaks (was `x⏎y` before /repo 17d18b5) -/
example : ∃ o, makeArgcv true {} (tok "\"x") [[], [], tok "y\""] = .ok o ∧ o.res = .ok [tok "x\n\n\ny"] := by
  obtain ⟨o, h, r⟩ := C16_kerl_argv_continued 0 (by decide) {} (tok "\"x") [[], [], tok "y\""] trivial (by decide) (by decide) (by decide)
  refine ⟨o, h, ?_⟩
  have : (o.res, o.rest) = (ArgRes.ok [tok "x\n\n\ny"], []) := by rw [r]; decide
  exact (Prod.mk.inj this).1
/-- a pending backslash continues the word on the next line without a newline: `a\` ⏎ `b c` -/
example : Spec.Kerl.wordsMulti (tok "a\\") [tok "b c"] = some ([tok "ab", tok "c"], []) := by decide
/-- `exec 1 2 OP_ADD` reaches `Instance::eval` with the three words -/
example (cx : Ctx) (e : IEnv) : ∃ o, fnExec cx e true {} (tok "1 2 OP_ADD") [] =
    .ok (some (instEval cx e [tok "1", tok "2", tok "OP_ADD"]), o) := by
  obtain ⟨o, h, _⟩ := C16_kerl_exec_words cx e true {} [tok "1", tok "2", tok "OP_ADD"] [] trivial (by decide) (by decide)
    (by decide) (by decide)
  exact ⟨o, h⟩
/-- dispatch -/
example : (executeLine (btcdebConfig true) (ofStr (tok "  exec\t 1  2 "))).toOption.map (·.1) =
    some (.call 5 .splitting (tok "1  2 ")) := by decide
example : (executeLine (btcdebConfig true) (ofStr (tok "execx 1"))).toOption.map (·.1) = some (.noSuch (tok "execx")) := by decide
example : (executeLine (btcdebConfig true) (ofStr (tok "exe 1"))).toOption.map (·.1) = some (.noSuch (tok "exe")) := by decide
/-- the history text of `tf echo "a<tab>b\"` -/
example : (escape (tok "tf echo \"a\tb\\\"")).toOption = some (some (tok "tf echo \\\"a\\tb\\\\\\\"")) := by decide

end Btcdeb.Proofs.C16Kerl
