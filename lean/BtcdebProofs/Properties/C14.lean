/-
  C14 — value transforms compute their defined functions and invert each other.

  Statements are about the model of value.h / value.cpp / functions.cpp / base58.cpp / bech32.cpp
  (`Btcdeb.Model.Encodings`, `Btcdeb.Model.Transforms`) and the specification (`Btcdeb.Spec.Encodings`,
  `Btcdeb.Spec.Transforms`); they hold for all inputs, with the stated hypotheses.  Theorems named `_partial`
  carry a hypothesis that cuts out a region in which the C++ (hence the model) does not meet the specification;
  each of those regions is witnessed by an `example`.
-/
import BtcdebProofs.Lemmas.Base58
import BtcdebProofs.Lemmas.Bech32
import BtcdebProofs.Lemmas.ConvertBits
import BtcdebProofs.Lemmas.Jacobi
import BtcdebProofs.Lemmas.Sha256Length
import BtcdebProofs.Lemmas.InlineText
import BtcdebProofs.Lemmas.Bech32Decode
import BtcdebProofs.Lemmas.Base58Buffer
import BtcdebProofs.Properties.C07
import BtcdebProofs.Refine.Step
import Btcdeb.Model.Glue
namespace Btcdeb.C14
open Btcdeb

-- ---------------------------------------------------------------------------------------------
-- Base58 / Base58Check

/-- `EncodeBase58` produces the specified string: one '1' per leading zero byte, then the base-58 numeral -/
theorem base58_encode_spec (b : Bytes) : Model.encodeBase58 b = Spec.base58Encode b := Base58.encode_eq_spec b

/-- decode ∘ encode = id (the caller's length limit permitting) -/
theorem base58_decode_encode (b : Bytes) (maxRetLen : Nat) (h : b.length ≤ maxRetLen) :
    Model.decodeBase58 (Model.encodeBase58 b) maxRetLen = some b := Base58.decode_encode b maxRetLen h

/-- whatever `DecodeBase58` accepts is the encoding of its result: the run of non-blank characters of the input
    (blanks around it are skipped by the C++) re-encodes from the result -/
theorem base58_decode_sound (s b : Bytes) (maxRetLen : Nat) (h : Model.decodeBase58 s maxRetLen = some b) :
    Model.encodeBase58 b = Base58.core s ∧ b.length ≤ maxRetLen := Base58.decode_sound s b maxRetLen h

/-- the specification's decoder and encoder are mutually inverse -/
theorem base58_spec_roundtrip (b : Bytes) : Spec.base58Decode (Spec.base58Encode b) = some b := Base58.spec_decode_encode b
theorem base58_spec_sound (s b : Bytes) (h : Spec.base58Decode s = some b) : Spec.base58Encode b = s := Base58.spec_decode_sound s b h

/-- the scratch buffers of base58.cpp (modelled by the list of digits in use) are large enough, so `assert(carry == 0)` can
    never fail: after any prefix `p` of the bytes being encoded the digits fit `b58` (`len * 138 / 100 + 1` places, because
    256^100 < 58^138), and after any prefix of the base-58 digits being decoded the bytes fit `b256` (`len * 733 / 1000 + 1`
    places, because 58^1000 < 256^733) -/
theorem base58_encode_buffer_suffices (p q : Bytes) :
    (p.foldl (fun ds ch => Model.mulAdd 58 256 ds ch.toNat) []).length ≤ (p ++ q).length * 138 / 100 + 1 :=
  Base58.encode_loop_fits p q
theorem base58_decode_buffer_suffices (p q : List Nat) (h : ∀ d ∈ p, d < 58) :
    (p.foldl (fun a d => Model.mulAdd 256 58 a d) []).length ≤ (p ++ q).length * 733 / 1000 + 1 :=
  Base58.decode_loop_fits p q h

/-- `DecodeBase58Check(EncodeBase58Check(p)) = p` for payloads within the caller's limit (the transforms pass INT_MAX) whose
    encoding length fits the C++ `int`; `hash` is any function returning at least four bytes (double SHA-256 in the tools) -/
theorem base58check_roundtrip (hash : Bytes → Bytes) (hlen : ∀ m, 4 ≤ (hash m).length) (p : Bytes) (maxRet : Nat)
    (h : p.length ≤ maxRet) (hint : p.length + 4 ≤ 2147483647) :
    Model.decodeBase58Check hash (Model.encodeBase58Check hash p) maxRet = some p :=
  Base58.check_decode_encode hash hlen p maxRet h hint

/-- a string is accepted only if it is the Base58Check encoding of the payload returned -/
theorem base58check_decode_sound (hash : Bytes → Bytes) (s p : Bytes) (maxRet : Nat)
    (h : Model.decodeBase58Check hash s maxRet = some p) :
    Model.encodeBase58Check hash p = Base58.core s ∧ p.length ≤ maxRet := Base58.check_decode_sound hash s p maxRet h

/-- a corrupted string is never accepted as the original payload: if the non-blank run of `s'` is not the encoding
    of `p`, decoding `s'` does not give `p` -/
theorem base58check_corrupted_rejected (hash : Bytes → Bytes) (p s' : Bytes) (maxRet : Nat)
    (hne : Base58.core s' ≠ Model.encodeBase58Check hash p) : Model.decodeBase58Check hash s' maxRet ≠ some p := by
  intro h
  exact hne (base58check_decode_sound hash s' p maxRet h).1.symm

/-- the transform's limit: payloads longer than `maxRet` are refused even though they were encoded -/
theorem base58check_limit (hash : Bytes → Bytes) (s p : Bytes) (maxRet : Nat)
    (h : Model.decodeBase58Check hash s maxRet = some p) : p.length ≤ maxRet := (base58check_decode_sound hash s p maxRet h).2

-- ---------------------------------------------------------------------------------------------
-- Bech32 / Bech32m

/-- `PolyMod` of bech32.cpp is BIP173's `bech32_polymod`, and its register never leaves 30 bits -/
theorem bech32_polymod_spec (v : Bytes) : Model.polyMod v = Spec.bech32Polymod (v.map UInt8.toNat) := Bech32.polyMod_eq_spec v
theorem bech32_polymod_lt (v : Bytes) : Model.polyMod v < 2 ^ 30 := Bech32.polyMod_lt v

/-- the checksum `CreateChecksum` appends makes `VerifyChecksum` answer with the encoding it was created for
    (constant 1 for Bech32, 0x2bc830a3 for Bech32m) -/
theorem bech32_checksum_verifies (enc : Model.Bech32Encoding) (henc : enc ≠ .INVALID) (hrp values : Bytes) :
    Model.verifyChecksum hrp (values ++ Model.createChecksum enc hrp values) = enc := Bech32.verifyChecksum_create enc henc hrp values

/-- `bech32::Encode` returns BIP173 / BIP350's `bech32_encode` (lower-case HRP, 5-bit values: the conditions under which
    the C++ neither asserts nor indexes outside `CHARSET`) -/
theorem bech32_encode_spec (enc : Model.Bech32Encoding) (henc : enc ≠ .INVALID) (hrp values : Bytes)
    (hhrp : ∀ c ∈ hrp, ¬ (65 ≤ c.toNat ∧ c.toNat ≤ 90)) (hvals : ∀ v ∈ values, v.toNat < 32) :
    Model.bech32Encode enc hrp values = some (Spec.bech32Encode (Bech32.variantOf enc) hrp (values.map UInt8.toNat)) :=
  Bech32.encode_spec enc henc hrp values hhrp hvals

/-- `bech32::Decode` is BIP173 / BIP350's `bech32_decode` on every string: same acceptance, variant, human-readable part
    and 5-bit data -/
theorem bech32_decode_spec (s : Bytes) :
    (Model.bech32Decode s).map (fun r => (Bech32.variantOf r.1, r.2.1, r.2.2.map UInt8.toNat)) = Spec.bech32Decode s :=
  Bech32.decode_spec s

/-- `Decode(Encode(enc, hrp, values)) = (enc, hrp, values)` for a non-empty lower-case printable HRP, 5-bit values and
    at most 90 characters in total -/
theorem bech32_decode_encode (enc : Model.Bech32Encoding) (hrp values : Bytes) (henc : enc ≠ .INVALID) (hne : hrp ≠ [])
    (hhrp : ∀ c ∈ hrp, Bech32.PlainChar c) (hvals : ∀ v ∈ values, v.toNat < 32) (hlen : hrp.length + 1 + values.length + 6 ≤ 90) :
    (Model.bech32Encode enc hrp values).bind Model.bech32Decode = some (enc, hrp, values) :=
  Bech32.decode_encode enc hrp values henc hne hhrp hvals hlen

/-- whatever `Decode` accepts is, up to letter case, exactly the string `Encode` produces from the result: the
    decoder accepts nothing but encodings -/
theorem bech32_decode_sound (s hrp data : Bytes) (enc : Model.Bech32Encoding) (h : Model.bech32Decode s = some (enc, hrp, data)) :
    Model.bech32Encode enc hrp data = some (s.map Model.lowerCase) := Bech32.decode_sound s hrp data enc h

/-- two strings that decode to the same result are equal up to letter case -/
theorem bech32_decode_injective (s s' hrp data : Bytes) (enc : Model.Bech32Encoding)
    (h : Model.bech32Decode s = some (enc, hrp, data)) (h' : Model.bech32Decode s' = some (enc, hrp, data)) :
    s.map Model.lowerCase = s'.map Model.lowerCase := by
  have a := bech32_decode_sound s hrp data enc h
  have b := bech32_decode_sound s' hrp data enc h'
  rw [a] at b
  exact Option.some.inj b

/-- one wrong symbol in the data part (checksum included) is always detected: if a symbol string verifies for an
    encoding, the string with one symbol replaced does not verify for that encoding -/
theorem bech32_single_error_detected (hrp l1 l2 : Bytes) (a a' : UInt8) (h : a ≠ a') (enc : Model.Bech32Encoding)
    (henc : enc ≠ .INVALID) (hv : Model.verifyChecksum hrp (l1 ++ a :: l2) = enc) :
    Model.verifyChecksum hrp (l1 ++ a' :: l2) ≠ enc := Bech32.single_error_detected hrp l1 l2 a a' h enc henc hv

-- ---------------------------------------------------------------------------------------------
-- ConvertBits

/-- `ConvertBits<8,5,true>`: 5-bit symbols, ⌈8n/5⌉ of them, denoting the input number shifted left by the padding -/
theorem convertBits_8_5 (xs : List Nat) (hx : ∀ x ∈ xs, x < 256) :
    let r := (Model.convertBits 8 5 true xs).1
    (∀ d ∈ r, d < 32) ∧ r.length = (xs.length * 8 + 4) / 5 ∧
    Spec.numeralValue 32 r = Spec.numeralValue 256 xs * 2 ^ (r.length * 5 - xs.length * 8) := ConvertBits.convert85 xs hx

/-- `ConvertBits<5,8,false>`: ⌊5m/8⌋ bytes denoting the input number without its surplus low bits; it succeeds iff
    there are fewer than five surplus bits and they are all zero -/
theorem convertBits_5_8 (ys : List Nat) (hy : ∀ y ∈ ys, y < 32) :
    let r := Model.convertBits 5 8 false ys
    let b := ys.length * 5 - r.1.length * 8
    (∀ d ∈ r.1, d < 256) ∧ r.1.length = ys.length * 5 / 8 ∧
    Spec.numeralValue 256 r.1 = Spec.numeralValue 32 ys / 2 ^ b ∧
    (r.2 = true ↔ (b < 5 ∧ Spec.numeralValue 32 ys % 2 ^ b = 0)) := ConvertBits.convert58 ys hy

/-- both conversions are the specified regrouping of the bit string (BIP173 "convertbits") -/
theorem convertBits_8_5_spec (xs : List Nat) (hx : ∀ x ∈ xs, x < 256) :
    (Model.convertBits 8 5 true xs).1 = Spec.regroupPad 8 5 xs := ConvertBits.convert85_spec xs hx
theorem convertBits_5_8_spec (ys : List Nat) (hy : ∀ y ∈ ys, y < 32) :
    (Model.convertBits 5 8 false ys).2 = (Spec.regroupNoPad 5 8 ys).isSome ∧
    ∀ o, Spec.regroupNoPad 5 8 ys = some o → (Model.convertBits 5 8 false ys).1 = o := ConvertBits.convert58_spec ys hy

/-- 8 → 5 → 8 round trip -/
theorem convertBits_roundtrip (xs : List Nat) (hx : ∀ x ∈ xs, x < 256) :
    Model.convertBits 5 8 false (Model.convertBits 8 5 true xs).1 = (xs, true) := ConvertBits.roundtrip xs hx

-- ---------------------------------------------------------------------------------------------
-- transforms on values

open Model in
/-- run a transform on a value with empty output streams -/
def runT (f : Value → TM Value) (v : Value) : Except VErr (Value × Log) := f v {}

/-- `data_value()` leaves in `data` the byte string the value denotes -/
theorem dv_data (v : Model.Value) : v.dv.data = v.dataValue := by
  cases v with
  | mk type int64 opcode data str => cases type <;> rfl

/-- the hash transforms are the hash functions applied to the byte string the argument denotes, for any argument -/
theorem sha256_transform (cx : Model.VCtx) (v : Model.Value) :
    ∃ v', runT (Model.doSha256 cx) v = .ok (v', {}) ∧ v'.type = .T_DATA ∧ v'.data = cx.sha256 v.dataValue :=
  ⟨_, rfl, rfl, by rw [← dv_data]⟩
theorem ripemd160_transform (cx : Model.VCtx) (v : Model.Value) :
    ∃ v', runT (Model.doRipemd160 cx) v = .ok (v', {}) ∧ v'.type = .T_DATA ∧ v'.data = cx.ripemd160 v.dataValue :=
  ⟨_, rfl, rfl, by rw [← dv_data]⟩
theorem hash256_transform (cx : Model.VCtx) (v : Model.Value) :
    ∃ v', runT (Model.doHash256 cx) v = .ok (v', {}) ∧ v'.type = .T_DATA ∧ v'.data = cx.sha256 (cx.sha256 v.dataValue) :=
  ⟨_, rfl, rfl, by simp [Model.Value.dv, ← dv_data]⟩
theorem hash160_transform (cx : Model.VCtx) (v : Model.Value) :
    ∃ v', runT (Model.doHash160 cx) v = .ok (v', {}) ∧ v'.type = .T_DATA ∧ v'.data = cx.ripemd160 (cx.sha256 v.dataValue) :=
  ⟨_, rfl, rfl, by simp [Model.Value.dv, ← dv_data]⟩

/-- the instance the tools run with: the transforms are `Crypto.sha256`, `Crypto.ripemd160`, `Crypto.hash256`, `Crypto.hash160` -/
def cryptoCtx : Model.VCtx := { sha256 := Crypto.sha256, ripemd160 := Crypto.ripemd160 }
theorem hash256_is_crypto (b : Bytes) : cryptoCtx.sha256 (cryptoCtx.sha256 b) = Crypto.hash256 b := rfl
theorem hash160_is_crypto (b : Bytes) : cryptoCtx.ripemd160 (cryptoCtx.sha256 b) = Crypto.hash160 b := rfl
theorem tagged_hash_is_crypto (v : Model.Value) (tag m : Bytes) (h : Model.extractValues v.data = some [tag, m]) :
    ∃ v', runT (Model.doTaggedHash cryptoCtx) v = .ok (v', {}) ∧ v'.data = Crypto.taggedHash tag m := by
  refine ⟨{ v with data := Crypto.taggedHash tag m }, ?_, rfl⟩
  simp [runT, Model.doTaggedHash, h, Crypto.taggedHash, cryptoCtx]
  rfl

/-- byte reversal is an involution on data and on strings -/
theorem reverse_involutive (v : Model.Value) (h : v.type = .T_DATA ∨ v.type = .T_STRING) :
    ∃ v', runT Model.doReverse v = .ok (v', {}) ∧ runT Model.doReverse v' = .ok (v, {}) := by
  cases v with
  | mk type int64 opcode data str =>
    rcases h with h | h <;> simp only at h <;> subst h
    · exact ⟨_, rfl, by simp [runT, Model.doReverse]; rfl⟩
    · exact ⟨_, rfl, by simp [runT, Model.doReverse]; rfl⟩
theorem reverse_data (v : Model.Value) (h : v.type = .T_DATA) :
    runT Model.doReverse v = .ok ({ v with data := v.data.reverse }, {}) := by
  simp [runT, Model.doReverse, h]; rfl

/-- the model's `WriteCompactSize` is the specification's compact size -/
theorem compactSize_spec (n : Nat) : Model.compactSize n = Spec.compactSize n := by
  have hfix : ∀ k m, leFixed k m = Spec.leBytesFixed k m := by
    intro k
    induction k with
    | zero => intro m; rfl
    | succ k ih => intro m; simp [leFixed, Spec.leBytesFixed, ih]
  unfold Model.compactSize Spec.compactSize
  simp only [hfix]
  by_cases h1 : n < 253
  · simp [h1]
  · by_cases h2 : n ≤ 0xffff
    · have : n < 2 ^ 16 := by omega
      simp [h1, h2, this]
    · by_cases h3 : n ≤ 0xffffffff
      · have a : ¬ n < 2 ^ 16 := by omega
        have b : n < 2 ^ 32 := by omega
        simp [h1, h2, h3, a, b]
      · have a : ¬ n < 2 ^ 16 := by omega
        have b : ¬ n < 2 ^ 32 := by omega
        simp [h1, h2, h3, a, b]

theorem leBytesFixed_length (k n : Nat) : (Spec.leBytesFixed k n).length = k := by
  induction k generalizing n with
  | zero => rfl
  | succ k ih => simp [Spec.leBytesFixed, ih]

theorem leValue_leBytesFixed (k n : Nat) (h : n < 256 ^ k) : leValue (Spec.leBytesFixed k n) = n := by
  induction k generalizing n with
  | zero => simp [Spec.leBytesFixed, leValue]; omega
  | succ k ih =>
    have hn : n / 256 < 256 ^ k := by
      rw [Nat.pow_succ] at h
      exact Nat.div_lt_of_lt_mul (by rw [Nat.mul_comm]; exact h)
    simp only [Spec.leBytesFixed, leValue, ih (n / 256) hn]
    have : (UInt8.ofNat (n % 256)).toNat = n % 256 := by
      have : n % 256 < 256 := Nat.mod_lt _ (by decide)
      simp [Nat.mod_eq_of_lt this]
    rw [this]; omega

theorem readCompactSize_wide (hdr : UInt8) (w n : Nat) (rest : Bytes) (h253 : ¬ hdr.toNat < 253)
    (hw : w = (if hdr.toNat == 253 then 2 else if hdr.toNat == 254 then 4 else 8)) (hn : n < 256 ^ w) :
    Spec.readCompactSize (hdr :: (Spec.leBytesFixed w n ++ rest)) = some (n, rest) := by
  unfold Spec.readCompactSize
  simp only [h253, ↓reduceIte, ← hw]
  have hl : ¬ ((Spec.leBytesFixed w n ++ rest).length < w) := by simp [leBytesFixed_length]
  simp only [hl, ↓reduceIte]
  have ht : (Spec.leBytesFixed w n ++ rest).take w = Spec.leBytesFixed w n := by
    rw [List.take_left' (leBytesFixed_length w n)]
  have hd : (Spec.leBytesFixed w n ++ rest).drop w = rest := by
    rw [List.drop_left' (leBytesFixed_length w n)]
  rw [ht, hd, leValue_leBytesFixed w n hn]

/-- a compact size prefix reads back: value and the bytes after it -/
theorem compactSize_decodes (n : Nat) (rest : Bytes) (h : n < 2 ^ 64) :
    Spec.readCompactSize (Spec.compactSize n ++ rest) = some (n, rest) := by
  unfold Spec.compactSize
  by_cases h1 : n < 253
  · have : (UInt8.ofNat n).toNat = n := by
      have : n < 256 := by omega
      simp [Nat.mod_eq_of_lt this]
    simp [h1, Spec.readCompactSize, this]
  · by_cases h2 : n < 2 ^ 16
    · simp only [h1, h2, ↓reduceIte, List.cons_append]
      exact readCompactSize_wide 253 2 n rest (by decide) (by decide) (by simpa using h2)
    · by_cases h3 : n < 2 ^ 32
      · simp only [h1, h2, h3, ↓reduceIte, List.cons_append]
        exact readCompactSize_wide 254 4 n rest (by decide) (by decide) (by simpa using h3)
      · simp only [h1, h2, h3, ↓reduceIte, List.cons_append]
        exact readCompactSize_wide 255 8 n rest (by decide) (by decide) (by simpa using h)

/-- `prefix-compact-size`: the result data is the compact size of the byte string followed by the byte string, and
    reading the prefix back gives its length and the byte string itself -/
theorem prefixCompactSize_decodes (v : Model.Value) (h : v.dataValue.length < 2 ^ 64) :
    ∃ v', runT Model.doPrefixCompactSize v = .ok (v', {}) ∧ v'.data = Spec.compactSize v.dataValue.length ++ v.dataValue ∧
      Spec.readCompactSize v'.data = some (v.dataValue.length, v.dataValue) := by
  refine ⟨_, rfl, ?_, ?_⟩
  · simp [dv_data, compactSize_spec]
  · simp only [dv_data, compactSize_spec]
    exact compactSize_decodes _ _ h

/-- whatever the argument was written as (data, number, string, opcode), the result is a data value -/
theorem prefixCompactSize_type (v : Model.Value) :
    ∃ v', runT Model.doPrefixCompactSize v = .ok (v', {}) ∧ v'.type = .T_DATA := ⟨_, rfl, rfl⟩

/-- the former reproducer `tf prefix-compact-size hi`: the result is the data 02 68 69 -/
example : ∃ v', runT Model.doPrefixCompactSize { type := .T_STRING, str := [104, 105] } = .ok (v', {}) ∧
    v'.type = .T_DATA ∧ v'.data = [2, 104, 105] := ⟨_, rfl, rfl, by decide⟩

/-- `len` is the length of the byte string the argument denotes -/
theorem len_transform (v : Model.Value) :
    ∃ v', runT Model.doLen v = .ok (v', {}) ∧ v'.type = .T_INT ∧ v'.int64 = v.dataValue.length :=
  ⟨_, rfl, rfl, by simp [dv_data]⟩

-- ---------------------------------------------------------------------------------------------
-- the encoding transforms invert each other

theorem map_toNat_ofNat_lt (ds : List Nat) (h : ∀ d ∈ ds, d < 256) : (ds.map UInt8.ofNat).map UInt8.toNat = ds :=
  Base58.map_toNat_ofNat ds h

/-- `base58chk-decode` undoes `base58chk-encode` for every argument (whose encoding length fits the C++ `int`) -/
theorem base58chk_transform_roundtrip (cx : Model.VCtx) (hlen : ∀ m, 4 ≤ (cx.sha256 m).length) (v : Model.Value)
    (h : v.dataValue.length + 4 ≤ 2147483647) :
    ∃ v1 v2, runT (Model.doBase58ChkEnc cx) v = .ok (v1, {}) ∧ runT (Model.doBase58ChkDec cx) v1 = .ok (v2, {}) ∧
      v2.type = .T_DATA ∧ v2.data = v.dataValue := by
  have hh : ∀ m, 4 ≤ (cx.hash m).length := fun m => hlen _
  have hrt := base58check_roundtrip cx.hash hh v.dataValue Model.intMaxC (by unfold Model.intMaxC; omega) h
  have hnz : (Model.encodeBase58Check cx.hash v.dataValue).any (· == 0) = false := by
    have := hrt
    unfold Model.decodeBase58Check Model.decodeBase58 at this
    cases hq : (Model.encodeBase58Check cx.hash v.dataValue).any (· == 0) with
    | false => rfl
    | true => simp [hq] at this
  refine ⟨{ v.dv with str := Model.encodeBase58Check cx.hash v.dv.data, type := .T_STRING },
    { v.dv with str := Model.encodeBase58Check cx.hash v.dv.data, data := v.dataValue, type := .T_DATA }, rfl, ?_, rfl, rfl⟩
  simp only [runT, Model.doBase58ChkDec, dv_data, hnz, hrt]
  rfl

theorem bcrt_plain : ∀ c ∈ Model.bech32Hrp, Bech32.PlainChar c := by
  intro c hc
  simp only [Model.bech32Hrp, List.mem_cons, List.not_mem_nil, or_false] at hc
  rcases hc with rfl | rfl | rfl | rfl <;> exact ⟨by decide, by decide, by decide⟩

/-- `bech32-decode` undoes `bech32-encode` / `bech32m-encode` for every argument whose byte string has at most 48 bytes
    (longer ones give strings of more than 90 characters, which `bech32::Decode` refuses) -/
theorem bech32_transform_roundtrip (enc : Model.Bech32Encoding) (henc : enc ≠ .INVALID) (v : Model.Value)
    (h : v.dataValue.length ≤ 48) :
    ∃ v1 v2 l, runT (Model.doBech32Enc enc) v = .ok (v1, {}) ∧ runT Model.doBech32Dec v1 = .ok (v2, l) ∧
      v2.type = .T_DATA ∧ v2.data = v.dataValue ∧ l.err = [] := by
  have hx : ∀ x ∈ v.dataValue.map UInt8.toNat, x < 256 := by
    intro x hx
    obtain ⟨b, _, rfl⟩ := List.mem_map.mp hx
    exact b.toNat_lt
  obtain ⟨c1, c2, _⟩ := convertBits_8_5 _ hx
  have hrt := convertBits_roundtrip _ hx
  generalize hr5 : (Model.convertBits 8 5 true (v.dataValue.map UInt8.toNat)).1 = r5 at c1 c2 hrt
  have hr5' : (r5.map UInt8.ofNat).map UInt8.toNat = r5 := map_toNat_ofNat_lt r5 (fun d hd => by have := c1 d hd; omega)
  have hvals : ∀ x ∈ (1 : UInt8) :: r5.map UInt8.ofNat, x.toNat < 32 := by
    intro x hx
    rcases List.mem_cons.mp hx with e | e
    · subst e; decide
    · have : x.toNat ∈ (r5.map UInt8.ofNat).map UInt8.toNat := List.mem_map.mpr ⟨x, e, rfl⟩
      rw [hr5'] at this
      exact c1 _ this
  have hlen : Model.bech32Hrp.length + 1 + ((1 : UInt8) :: r5.map UInt8.ofNat).length + 6 ≤ 90 := by
    simp only [List.length_cons, List.length_map, c2, Model.bech32Hrp, List.length_nil]
    omega
  have hde := bech32_decode_encode enc Model.bech32Hrp _ henc (by decide) bcrt_plain hvals hlen
  cases hs : Model.bech32Encode enc Model.bech32Hrp ((1 : UInt8) :: r5.map UInt8.ofNat) with
  | none => simp [hs] at hde
  | some s =>
    rw [hs] at hde
    simp only [Option.bind_some] at hde
    refine ⟨{ v.dv with str := s, type := .T_STRING },
      { v.dv with str := s, type := .T_DATA, data := (v.dataValue.map UInt8.toNat).map UInt8.ofNat },
      { out := Model.asc "(bech32" ++ (if enc == .BECH32M then Model.asc "m" else []) ++ Model.asc " HRP = " ++
          Model.cstrOf Model.bech32Hrp ++ Model.asc ")\n" }, ?_, ?_, rfl, Base58.map_ofNat_toNat _, rfl⟩
    · simp only [runT, Model.doBech32Enc, dv_data, hr5, hs]; rfl
    · simp only [runT, Model.doBech32Dec, hde]
      simp only [hr5', hrt]
      rfl

/-- with the real hash function there is no side condition -/
theorem base58chk_transform_roundtrip_crypto (v : Model.Value) (h : v.dataValue.length + 4 ≤ 2147483647) :
    ∃ v1 v2, runT (Model.doBase58ChkEnc cryptoCtx) v = .ok (v1, {}) ∧ runT (Model.doBase58ChkDec cryptoCtx) v1 = .ok (v2, {}) ∧
      v2.type = .T_DATA ∧ v2.data = v.dataValue :=
  base58chk_transform_roundtrip cryptoCtx (fun m => by rw [show cryptoCtx.sha256 m = Crypto.sha256 m from rfl, Crypto.sha256_length]; decide) v h

/-- `addr-to-scriptpubkey` undoes `scriptpubkey-to-addr` on every pay-to-public-key-hash script -/
theorem spk_addr_roundtrip (cx : Model.VCtx) (hlen : ∀ m, 4 ≤ (cx.sha256 m).length) (h20 : Bytes) (hl : h20.length = 20) :
    let spk : Bytes := [0x76, 0xa9, 0x14] ++ h20 ++ [0x88, 0xac]
    ∃ v1 v2, runT (Model.doSpkToAddr cx) { type := .T_DATA, data := spk } = .ok (v1, {}) ∧ v1.type = .T_STRING ∧
      v1.str = Model.encodeBase58Check cx.hash (0 :: h20) ∧
      runT (Model.doAddrToSpk cx) v1 = .ok (v2, {}) ∧ v2.type = .T_DATA ∧ v2.data = spk := by
  intro spk
  have hh : ∀ m, 4 ≤ (cx.hash m).length := fun m => hlen _
  have hsl : spk.length = 25 := by simp [spk, hl]
  have hmid : (spk.drop 3).take 20 = h20 := by
    simp only [spk, List.append_assoc, List.cons_append, List.nil_append, List.drop_succ_cons, List.drop_zero]
    rw [List.take_left' hl]
  have hg : spk.getD 0 0 = 0x76 ∧ spk.getD 1 0 = 0xa9 ∧ spk.getD 2 0 = 0x14 ∧ spk.getD 23 0 = 0x88 ∧ spk.getD 24 0 = 0xac := by
    refine ⟨rfl, rfl, rfl, ?_, ?_⟩
    · simp only [spk, List.append_assoc, List.cons_append, List.nil_append, List.getD_cons_succ]
      rw [List.getD_eq_getElem?_getD, List.getElem?_append_right (by omega), hl]; rfl
    · simp only [spk, List.append_assoc, List.cons_append, List.nil_append, List.getD_cons_succ]
      rw [List.getD_eq_getElem?_getD, List.getElem?_append_right (by omega), hl]; rfl
  have hrt := base58check_roundtrip cx.hash hh (0 :: h20) Model.intMaxC (by simp [hl, Model.intMaxC]) (by simp [hl])
  have hnz : (Model.encodeBase58Check cx.hash (0 :: h20)).any (· == 0) = false := by
    have := hrt
    unfold Model.decodeBase58Check Model.decodeBase58 at this
    cases hq : (Model.encodeBase58Check cx.hash (0 :: h20)).any (· == 0) with
    | false => rfl
    | true => simp [hq] at this
  have hpush : Model.pushData h20 = 0x14 :: h20 := by
    unfold Model.pushData
    simp [hl, Op.OP_PUSHDATA1]
  obtain ⟨g0, g1, g2, g3, g4⟩ := hg
  refine ⟨{ type := .T_STRING, data := 0 :: h20, str := Model.encodeBase58Check cx.hash (0 :: h20) },
    { type := .T_DATA, data := spk, str := Model.encodeBase58Check cx.hash (0 :: h20) }, ?_, rfl, rfl, ?_, rfl, rfl⟩
  · simp only [runT, Model.doSpkToAddr, hsl, g0, g1, g2, g3, g4, hmid]
    rfl
  · simp [runT, Model.doAddrToSpk, Model.doBase58ChkDec, hnz, hrt, bind, StateT.bind, Except.bind, pure, StateT.pure, Except.pure,
      hpush, spk, hl]

-- ---------------------------------------------------------------------------------------------
-- the decoding transforms refuse instead of crashing, and accept nothing but encodings

/-- `base58chk-decode` on any value ends normally -/
theorem base58chkDec_total (cx : Model.VCtx) (v : Model.Value) : ∃ r, runT (Model.doBase58ChkDec cx) v = .ok r := by
  unfold runT Model.doBase58ChkDec
  split
  · exact ⟨_, rfl⟩
  · split
    · exact ⟨_, rfl⟩
    · cases Model.decodeBase58Check cx.hash v.str Model.intMaxC <;> exact ⟨_, rfl⟩

/-- `addr-to-scriptpubkey` on any value (a corrupted address, a number, an opcode, ...) ends normally -/
theorem addrToSpk_total (cx : Model.VCtx) (v : Model.Value) : ∃ r, runT (Model.doAddrToSpk cx) v = .ok r := by
  obtain ⟨⟨v1, l1⟩, h1⟩ := base58chkDec_total cx v
  unfold runT at h1 ⊢
  unfold Model.doAddrToSpk
  simp only [bind, StateT.bind, Except.bind, h1]
  split <;> exact ⟨_, rfl⟩

/-- a string is turned into a script only if it is (up to surrounding blanks) the Base58Check encoding of 0x00 followed by
    twenty bytes, and the script is then the pay-to-public-key-hash script of those twenty bytes (nothing on stderr);
    anything else — in particular every corruption of an address — gives empty data -/
theorem addrToSpk_sound (cx : Model.VCtx) (v v' : Model.Value) (l : Model.Log) (hv : v.type = .T_STRING)
    (hnul : v.str.any (· == 0) = false) (h : runT (Model.doAddrToSpk cx) v = .ok (v', l)) :
    (l.err = [] ∧ ∃ h20 : Bytes, h20.length = 20 ∧ Model.encodeBase58Check cx.hash (0 :: h20) = Base58.core v.str ∧
        v'.data = [0x76, 0xa9, 0x14] ++ h20 ++ [0x88, 0xac]) ∨ v'.data = [] := by
  unfold runT Model.doAddrToSpk Model.doBase58ChkDec at h
  simp only [hv, bne_self_eq_false, Bool.false_eq_true, ↓reduceIte] at h
  by_cases hz : v.str.any (· == 0) = true
  · rw [hnul] at hz; exact absurd hz (by simp)
  · simp only [hz, Bool.false_eq_true, ↓reduceIte] at h
    cases hd : Model.decodeBase58Check cx.hash v.str Model.intMaxC with
    | none =>
      right
      simp only [hd, bind, StateT.bind, Except.bind, Model.sayErr, modify, modifyGet, MonadStateOf.modifyGet,
        StateT.modifyGet, pure, StateT.pure, Except.pure] at h
      split at h
      · simp at h; obtain ⟨rfl, rfl⟩ := h; rfl
      · rename_i hc; simp at hc
    | some d =>
      obtain ⟨hs, _⟩ := base58check_decode_sound cx.hash v.str d Model.intMaxC hd
      simp only [hd, bind, StateT.bind, Except.bind, pure, StateT.pure, Except.pure] at h
      split at h
      · right
        simp only [Model.sayErr, modify, modifyGet, MonadStateOf.modifyGet, StateT.modifyGet, bind, StateT.bind, Except.bind,
          pure, StateT.pure, Except.pure] at h
        simp at h
        obtain ⟨rfl, rfl⟩ := h
        rfl
      · rename_i hc
        left
        simp at h
        obtain ⟨rfl, rfl⟩ := h
        simp only [bne_iff_ne, ne_eq, Bool.or_eq_true, decide_eq_true_eq, not_or, Decidable.not_not] at hc
        obtain ⟨⟨_, hlen⟩, h0⟩ := hc
        match d, hlen, h0 with
        | x :: h20, hlen, h0 =>
          simp only [List.getD_cons_zero] at h0
          subst h0
          refine ⟨rfl, h20, by simpa using hlen, hs, ?_⟩
          have hl : h20.length = 20 := by simpa using hlen
          simp [Model.pushData, hl, Op.OP_PUSHDATA1]

/-- a computation in the transform monad that ends normally from every state of the output streams -/
def Total {α} (m : Model.TM α) : Prop := ∀ l, ∃ r, m l = .ok r

theorem total_pure {α} (a : α) : Total (pure a : Model.TM α) := fun l => ⟨(a, l), rfl⟩
theorem total_sayErr (b : Bytes) : Total (Model.sayErr b) := fun _ => ⟨_, rfl⟩
theorem total_sayOut (b : Bytes) : Total (Model.sayOut b) := fun _ => ⟨_, rfl⟩
theorem total_bind {α β} (m : Model.TM α) (f : α → Model.TM β) (hm : Total m) (hf : ∀ a, Total (f a)) : Total (m >>= f) := by
  intro l
  obtain ⟨⟨a, l'⟩, h⟩ := hm l
  obtain ⟨r, h'⟩ := hf a l'
  exact ⟨r, by simp only [bind, StateT.bind, Except.bind, h, h']⟩
theorem total_abort (v : Model.Value) (msg : String) : Total (Model.abortMsg v msg) :=
  total_bind _ _ (total_sayErr _) (fun _ => total_pure _)
theorem total_ite {α} (c : Prop) [Decidable c] (a b : Model.TM α) (ha : Total a) (hb : Total b) : Total (if c then a else b) := by
  split <;> assumption
theorem total_run {α} (m : Model.TM α) (h : Total m) : ∃ r, m {} = .ok r := h {}

/-- `bech32-decode` on any value ends normally (an empty data part and invalid padding are refused with a diagnostic) -/
theorem bech32Dec_total (v : Model.Value) : ∃ r, runT Model.doBech32Dec v = .ok r := by
  apply total_run
  unfold Model.doBech32Dec
  apply total_ite _ _ _ (total_abort _ _)
  cases Model.bech32Decode v.str with
  | none => exact total_abort _ _
  | some r =>
    obtain ⟨enc, hrp, bech⟩ := r
    cases bech with
    | nil => exact total_abort _ _
    | cons version rest =>
      simp only []
      apply total_bind _ _ (total_sayOut _)
      intro _
      apply total_ite
      · apply total_ite
        · exact total_bind _ _ (total_sayErr _) (fun _ => total_pure _)
        · exact total_pure _
      · exact total_bind _ _ (total_sayErr _) (fun _ => total_pure _)

/-- `bech32-decode` yields data only from a string that `bech32::Decode` accepts (hence, by `bech32_decode_sound`, from an
    encoding), and the data is then the specified regrouping of the symbols after the version symbol — or empty when that
    regrouping is not defined (invalid padding) -/
theorem bech32Dec_sound (v v' : Model.Value) (l : Model.Log) (hv : v.type = .T_STRING)
    (h : runT Model.doBech32Dec v = .ok (v', l)) (hd : v'.type = .T_DATA) :
    ∃ enc hrp version prog5, Model.bech32Decode v.str = some (enc, hrp, version :: prog5) ∧
      (Spec.regroupNoPad 5 8 (prog5.map UInt8.toNat) = some (v'.data.map UInt8.toNat) ∨
       (Spec.regroupNoPad 5 8 (prog5.map UInt8.toNat) = none ∧ v'.data = [])) := by
  unfold runT Model.doBech32Dec at h
  simp only [hv, bne_self_eq_false, Bool.false_eq_true, ↓reduceIte] at h
  cases hdec : Model.bech32Decode v.str with
  | none =>
    simp only [hdec, Model.abortMsg, bind, StateT.bind, Except.bind, Model.sayErr, modify, modifyGet, MonadStateOf.modifyGet,
      StateT.modifyGet, pure, StateT.pure, Except.pure] at h
    simp at h; obtain ⟨rfl, _⟩ := h; rw [hv] at hd; cases hd
  | some r =>
    obtain ⟨enc, hrp, bech⟩ := r
    cases bech with
    | nil =>
      simp only [hdec, Model.abortMsg, bind, StateT.bind, Except.bind, Model.sayErr, modify, modifyGet, MonadStateOf.modifyGet,
        StateT.modifyGet, pure, StateT.pure, Except.pure] at h
      simp at h; obtain ⟨rfl, _⟩ := h; rw [hv] at hd; cases hd
    | cons version rest =>
      refine ⟨enc, hrp, version, rest, rfl, ?_⟩
      have hlt : ∀ y ∈ rest.map UInt8.toNat, y < 32 := by
        intro y hy
        obtain ⟨b, hb, rfl⟩ := List.mem_map.mp hy
        exact Bech32.decode_values_lt v.str hrp (version :: rest) enc hdec b (List.mem_cons_of_mem _ hb)
      obtain ⟨s1, s2⟩ := convertBits_5_8_spec _ hlt
      obtain ⟨a1, _, _, _⟩ := convertBits_5_8 _ hlt
      simp only [hdec] at h
      cases hr : (Model.convertBits 5 8 false (rest.map UInt8.toNat)).2 with
      | false =>
        right
        rw [hr] at s1
        simp only [bind, StateT.bind, Except.bind, Model.sayOut, Model.sayErr, modify, modifyGet, MonadStateOf.modifyGet,
          StateT.modifyGet, hr, Bool.false_eq_true, ↓reduceIte, pure, StateT.pure, Except.pure] at h
        simp at h
        obtain ⟨rfl, _⟩ := h
        refine ⟨?_, rfl⟩
        cases hq : Spec.regroupNoPad 5 8 (rest.map UInt8.toNat) with
        | none => rfl
        | some o => simp [hq] at s1
      | true =>
        left
        rw [hr] at s1
        cases hq : Spec.regroupNoPad 5 8 (rest.map UInt8.toNat) with
        | none => simp [hq] at s1
        | some o =>
          have ho := s2 o hq
          have hdata : v'.data = (Model.convertBits 5 8 false (rest.map UInt8.toNat)).1.map UInt8.ofNat := by
            by_cases hw : (version == 0 && (List.map UInt8.ofNat (Model.convertBits 5 8 false (rest.map UInt8.toNat)).1).length != 20 &&
                (List.map UInt8.ofNat (Model.convertBits 5 8 false (rest.map UInt8.toNat)).1).length != 32) = true
            · simp only [bind, StateT.bind, Except.bind, Model.sayOut, Model.sayErr, modify, modifyGet, MonadStateOf.modifyGet,
                StateT.modifyGet, hr, ↓reduceIte, hw, pure, StateT.pure, Except.pure] at h
              simp at h; obtain ⟨rfl, _⟩ := h; rfl
            · simp only [bind, StateT.bind, Except.bind, Model.sayOut, Model.sayErr, modify, modifyGet, MonadStateOf.modifyGet,
                StateT.modifyGet, hr, ↓reduceIte, hw, pure, StateT.pure, Except.pure, Bool.false_eq_true] at h
              simp at h; obtain ⟨rfl, _⟩ := h; rfl
          rw [hdata, map_toNat_ofNat_lt _ a1, ho]

/-- `verify-sig` / `verify-sig-compact` on any value end normally (a 64-byte sighash and a Schnorr signature that is not 64
    bytes are refused with a diagnostic instead of hitting an assertion) -/
theorem verifySig_total (compact : Bool) (v : Model.Value) : ∃ r, runT (Model.verifySig compact) v = .ok r := by
  apply total_run
  unfold Model.verifySig
  apply total_ite _ _ _ (total_abort _ _)
  cases Model.extractValues v.data with
  | none => exact total_abort _ _
  | some ops =>
    rcases ops with _ | ⟨sighash, _ | ⟨pk, _ | ⟨sig, _ | ⟨x, t⟩⟩⟩⟩
    · exact total_abort _ _
    · exact total_abort _ _
    · exact total_abort _ _
    · simp only []
      apply total_ite _ _ _ (total_abort _ _)
      apply total_ite _ _ _ (total_abort _ _)
      apply total_ite
      · cases Crypto.parseXOnly pk with
        | none => exact total_abort _ _
        | some _ => exact total_bind _ _ (total_sayErr _) (fun _ => total_pure _)
      · apply total_ite _ _ _ (total_abort _ _)
        apply total_ite _ _ _ (total_pure _)
        cases Crypto.parsePubKey pk with
        | none => exact total_pure _
        | some q =>
          simp only []
          apply total_ite
          · exact total_bind _ _ (total_sayErr _) (fun _ => total_pure _)
          · apply total_ite
            · exact total_bind _ _ (total_sayErr _) (fun _ => total_pure _)
            · exact total_pure _
    · exact total_abort _ _

-- ---------------------------------------------------------------------------------------------
-- operands of the transforms that take several

/-- whatever byte strings the arguments denote (the empty string, the numbers −1..16 that assemble to one-byte opcodes,
    anything up to 2^32 bytes), `extract_values` reads back from the assembled script exactly those byte strings -/
theorem extractValues_assemble (ds : List Bytes) (h : ∀ d ∈ ds, d.length < 2 ^ 32) :
    Model.extractValues (ds.map Spec.minimalPushOf).flatten = some ds := by
  induction ds with
  | nil => rw [Model.extractValues]; rfl
  | cons d ds ih =>
    obtain ⟨i, h1, h2, _⟩ := Proofs.C07.minimal_push_decodes d (ds.map Spec.minimalPushOf).flatten (h d (by simp))
    have hg := Refine.getOp_decodeOne (Spec.minimalPushOf d ++ (ds.map Spec.minimalPushOf).flatten)
    rw [h1] at hg
    cases hq : Model.getOp (Spec.minimalPushOf d ++ (ds.map Spec.minimalPushOf).flatten) with
    | none => simp [hq] at hg
    | some g =>
      simp only [hq, Option.map_some, Option.some.injEq, Prod.mk.injEq] at hg
      obtain ⟨hi, hr⟩ := hg
      subst hi
      have hone : Model.extractOne g.opcode g.data = some d := by
        rw [← h2]
        unfold Model.extractOne Proofs.C07.pushedBy
        simp only [Bool.and_eq_true, decide_eq_true_eq, beq_iff_eq]
        by_cases c1 : 0x51 ≤ g.opcode ∧ g.opcode ≤ 0x60
        · rw [if_pos c1, if_neg (by omega), if_neg (by omega), if_pos c1]
        · rw [if_neg c1]
          by_cases c2 : g.opcode = 0x4f
          · rw [if_pos c2, if_neg (by omega), if_pos c2]
          · rw [if_neg c2]
            by_cases c3 : g.opcode ≤ 0x4e
            · rw [if_neg (by omega), if_pos c3]
            · rw [if_pos (by omega), if_neg c3, if_neg c2, if_neg c1]
      simp only [List.map_cons, List.flatten_cons]
      rw [Model.extractValues]
      split
      · rename_i hn; rw [hq] at hn; cases hn
      · rename_i g' hg'
        rw [hq] at hg'
        cases hg'
        simp only [hone, hr, ih (fun x hx => h x (by simp [hx]))]

/-- the former reproducer `tf add 1 2`: the script OP_1 OP_2 now reads back as the operands [1] and [2] -/
example : Model.extractValues [0x51, 0x52] = some [[1], [2]] := by
  have := extractValues_assemble [[1], [2]] (by intro d hd; simp at hd; rcases hd with rfl | rfl <;> decide)
  simpa [Spec.minimalPushOf] using this

-- ---------------------------------------------------------------------------------------------
-- modular addition / subtraction

/-- `add` without modulus: addition modulo 2^256 -/
theorem add_no_modulus (a b : Nat) : Model.arithAdd a b 0 = leFixed 32 ((a + b) % 2 ^ 256) := by
  simp [Model.arithAdd]

/-- the sum and the single conditional subtraction of `add()` on operands already reduced modulo g -/
theorem add_core (a b g : Nat) (hg : g < 2 ^ 256) (ha : a < g) (hb : b < g) :
    (if (decide ((a + b) % 2 ^ 256 ≥ g) || decide ((a + b) % 2 ^ 256 < a)) = true
      then ((a + b) % 2 ^ 256 + 2 ^ 256 - g) % 2 ^ 256 else (a + b) % 2 ^ 256) = (a + b) % g := by
  by_cases hov : a + b < 2 ^ 256
  · rw [Nat.mod_eq_of_lt hov]
    by_cases hc : a + b ≥ g
    · have : (decide (a + b ≥ g) || decide (a + b < a)) = true := by simp [hc]
      rw [if_pos this]
      have e : (a + b + 2 ^ 256 - g) = (a + b - g) + 2 ^ 256 := by omega
      rw [e, Nat.add_mod_right, Nat.mod_eq_of_lt (by omega)]
      rw [Nat.mod_eq_sub_mod hc, Nat.mod_eq_of_lt (by omega)]
    · have : (decide (a + b ≥ g) || decide (a + b < a)) = false := by
        simp only [Bool.or_eq_false_iff, decide_eq_false_iff_not]; omega
      rw [if_neg (by simp [this])]
      rw [Nat.mod_eq_of_lt (by omega)]
  · have hc : (a + b) % 2 ^ 256 = a + b - 2 ^ 256 := by
      rw [Nat.mod_eq_sub_mod (by omega), Nat.mod_eq_of_lt (by omega)]
    rw [hc]
    have : (decide (a + b - 2 ^ 256 ≥ g) || decide (a + b - 2 ^ 256 < a)) = true := by
      have : a + b - 2 ^ 256 < a := by omega
      simp [this]
    rw [if_pos this]
    have e : a + b - 2 ^ 256 + 2 ^ 256 - g = a + b - g := by omega
    rw [e, Nat.mod_eq_of_lt (by omega)]
    rw [Nat.mod_eq_sub_mod (by omega), Nat.mod_eq_of_lt (by omega)]

/-- `add` with a modulus is (a + b) mod g for ALL operands (the C++ reduces them modulo g first) -/
theorem add_modulus (a b g : Nat) (hg0 : g ≠ 0) (hg : g < 2 ^ 256) :
    Model.arithAdd a b g = leFixed 32 ((a + b) % g) := by
  unfold Model.arithAdd
  have hg0' : (g != 0) = true := by simpa using hg0
  simp only [hg0', Bool.true_and, ↓reduceIte]
  congr 1
  have hpos : 0 < g := Nat.pos_of_ne_zero hg0
  rw [add_core (a % g) (b % g) g hg (Nat.mod_lt _ hpos) (Nat.mod_lt _ hpos), ← Nat.add_mod]

/-- the former reproducer `tf add 0x64 0x11 0x17`: 100 + 17 mod 23 = 2 -/
example : Model.arithAdd 100 17 23 = leFixed 32 2 ∧ (100 + 17) % 23 = 2 := by decide

/-- `sub` without modulus: subtraction modulo 2^256 -/
theorem sub_no_modulus (a b : Nat) (ha : a < 2 ^ 256) (hb : b < 2 ^ 256) :
    Model.arithAdd a (Model.arithNeg b 0) 0 = leFixed 32 (Spec.modSub a b 0) := by
  simp only [Model.arithAdd, Model.arithNeg, bne_self_eq_false, Bool.false_and, Bool.false_eq_true, ↓reduceIte, Spec.modSub]
  congr 1
  by_cases hb0 : b = 0
  · subst hb0
    rw [Nat.sub_zero, Nat.mod_self, Nat.add_zero, Nat.mod_eq_of_lt ha]
    have h2 : ((a : Int) - ((0 : Nat) : Int)) % ((2 ^ 256 : Nat) : Int) = (a : Int) := by
      rw [Int.natCast_zero, Int.sub_zero]
      apply Int.emod_eq_of_lt <;> omega
    rw [h2, Int.toNat_natCast]
  · rw [Nat.mod_eq_of_lt (by omega : 2 ^ 256 - b < 2 ^ 256)]
    by_cases hab : b ≤ a
    · have e : a + (2 ^ 256 - b) = (a - b) + 2 ^ 256 := by omega
      rw [e, Nat.add_mod_right, Nat.mod_eq_of_lt (by omega)]
      have : ((a : Int) - (b : Int)) = ((a - b : Nat) : Int) := by omega
      rw [this]
      have h2 : ((a - b : Nat) : Int) % ((2 ^ 256 : Nat) : Int) = ((a - b : Nat) : Int) := by
        apply Int.emod_eq_of_lt <;> omega
      simp only [h2, Int.toNat_natCast]
    · rw [Nat.mod_eq_of_lt (by omega)]
      have : ((a : Int) - (b : Int)) % ((2 ^ 256 : Nat) : Int) = ((a + (2 ^ 256 - b) : Nat) : Int) := by
        have e : ((a : Int) - (b : Int)) = ((a + (2 ^ 256 - b) : Nat) : Int) + ((2 ^ 256 : Nat) : Int) * (-1) := by
          omega
        rw [e, Int.add_mul_emod_self_left]
        apply Int.emod_eq_of_lt <;> omega
      rw [this, Int.toNat_natCast]

/-- `sub` with a modulus is (a − b) mod g on the integers for ALL operands: the subtrahend handed to `add` is the
    additive inverse of b modulo g -/
theorem sub_modulus (a b g : Nat) (hg0 : g ≠ 0) (hg : g < 2 ^ 256) :
    Model.arithAdd a (Model.arithNeg b g) g = leFixed 32 (Spec.modSub a b g) := by
  rw [add_modulus a _ g hg0 hg]
  have hg0' : (g != 0) = true := by simpa using hg0
  simp only [Model.arithNeg, hg0', ↓reduceIte, Spec.modSub, hg0]
  congr 1
  have hpos : 0 < g := Nat.pos_of_ne_zero hg0
  have hr : b % g < g := Nat.mod_lt _ hpos
  have hb : (b : Int) = (g : Int) * ((b / g : Nat) : Int) + ((b % g : Nat) : Int) := by
    have := Nat.div_add_mod b g
    exact_mod_cast this.symm
  have e : ((a : Int) - (b : Int)) = ((a + (g - b % g) : Nat) : Int) + (g : Int) * (-((b / g : Nat) : Int) - 1) := by
    rw [Int.mul_sub, Int.mul_neg, Int.mul_one, hb]
    generalize (g : Int) * ((b / g : Nat) : Int) = t
    omega
  rw [e, Int.add_mul_emod_self_left]
  have : ((a + (g - b % g) : Nat) : Int) % (g : Int) = (((a + (g - b % g)) % g : Nat) : Int) := by simp
  rw [this, Int.toNat_natCast]

/-- the former reproducers: `tf sub 0x20 0x11 0x30` = 0x0f, `tf sub 0x11 0x11 0x30` = 0, `tf sub 0x11 0x20 0x30` = 0x21 -/
example : Model.arithAdd 0x20 (Model.arithNeg 0x11 0x30) 0x30 = leFixed 32 0x0f ∧
    Model.arithAdd 0x11 (Model.arithNeg 0x11 0x30) 0x30 = leFixed 32 0 ∧
    Model.arithAdd 0x11 (Model.arithNeg 0x20 0x30) 0x30 = leFixed 32 0x21 := by decide

-- ---------------------------------------------------------------------------------------------
-- Jacobi symbol

/-- the loop of `do_jacobi_symbol` computes the Jacobi symbol given by the recursive law (quadratic reciprocity with the
    supplements), for every n and every non-zero k -/
theorem jacobi_spec (n k : Nat) (hk : k ≠ 0) :
    runT (fun v => do let j ← Model.jacobiOf n k; pure { v with int64 := j }) {} =
      .ok ({ int64 := Spec.jacobiRec (n % k) k }, {}) := by
  have h := Jacobi.loop_eq (n % k) k false
  simp only [Jacobi.sign, Bool.false_eq_true, ↓reduceIte, Int.one_mul] at h
  have hk' : (k == 0) = false := by simpa using hk
  simp only [runT, Model.jacobiOf, hk', Bool.false_eq_true, ↓reduceIte]
  unfold Jacobi.readOff at h
  simp only [bind, StateT.bind, pure, StateT.pure, Except.bind, Except.pure, h]

/-- for an odd modulus this is the specification's Jacobi symbol -/
theorem jacobi_odd (n k : Nat) (hk : k % 2 = 1) : Spec.jacobi n k = some (Spec.jacobiRec (n % k) k) := by
  have : ¬ k % 2 = 0 := by omega
  simp [Spec.jacobi, this]

-- ---------------------------------------------------------------------------------------------
-- inline form = command form

/-- how the wrapper `_e_name` of a table row shows the value it computed: `_e_hex` prints the characters bare
    (`printf("%s\n", pv.hex_str())`) where the inline `hex(arg)` yields a string value (shown quoted by `println`);
    every other row ends in `pv.println()` -/
def showAs (name : String) (v' : Model.Value) : Model.TM Unit :=
  if name = "hex" then Model.sayOut (v'.str ++ [10]) else v'.println

/-- every row of the tf table has a `DO(...)` name in `do_exec` (none is left without inline form) -/
theorem exec_total : ∀ e ∈ Model.tfTable, e.exec.isSome = true := by decide

private theorem rows {P : Model.TfEntry → Prop} (e : Model.TfEntry) (he : e ∈ Model.tfTable)
    (h : ∀ e' ∈ Model.tfTable, P e') : P e := h e he

/-- EVERY row of the tf table, without exception, has an inline form `nm(arg)` (`e.exec = some nm`, `do_exec` accepts `nm`)
    that runs the same `do_*` method as the command: evaluating it and showing the value the way the row's wrapper does
    writes what the command writes, and fails where the command fails -/
theorem inline_eq_command (cx : Model.VCtx) (v : Model.Value) :
    ∀ e ∈ Model.tfTable, ∃ nm f, e.exec = some nm ∧ v.doExecName cx nm = some f ∧
      (do let v' ← f; showAs e.name v' : Model.TM Unit) = e.run cx v := by
  intro e he
  simp only [Model.tfTable, List.mem_cons, List.not_mem_nil, or_false] at he
  rcases he with rfl | rfl | rfl | rfl | rfl | rfl | rfl | rfl | rfl | rfl | rfl | rfl | rfl | rfl | rfl | rfl | rfl | rfl | rfl | rfl | rfl | rfl | rfl | rfl | rfl | rfl | rfl <;>
    refine ⟨_, _, rfl, (by first | (simp [Model.Value.doExecName]; done) | (simp [Model.Value.doExecName]; rfl)), ?_⟩ <;>
    first
      | rfl
      | (simp [showAs, Model.Value.println, Model.intValueM, Model.Value.printBytes]; done)

/-- every row but `hex` ends in `println` in both forms: the inline form prints exactly the bytes the command prints -/
theorem inline_eq_command_println (cx : Model.VCtx) (v : Model.Value) :
    ∀ e ∈ Model.tfTable, e.name ≠ "hex" → ∃ nm f, e.exec = some nm ∧ v.doExecName cx nm = some f ∧
      (do let v' ← f; v'.println : Model.TM Unit) = e.run cx v := by
  intro e he hhex
  obtain ⟨nm, f, h1, h2, h3⟩ := inline_eq_command cx v e he
  refine ⟨nm, f, h1, h2, ?_⟩
  rw [← h3]; simp [showAs, hhex]

/-- every inline name that `tf -h` prints (`e.inl`: b32d, b32e, b32me, b58cd, b58ce, jacobi_sym, len, verify_sig_compact and
    the names that coincide with the `DO(...)` name) is accepted by `do_exec` and runs the same function as the row's
    `DO(...)` name -/
theorem inline_advertised (cx : Model.VCtx) (v : Model.Value) :
    ∀ e ∈ Model.tfTable, ∃ nm f, e.exec = some nm ∧ v.doExecName cx nm = some f ∧ v.doExecName cx e.inl = some f := by
  intro e he
  simp only [Model.tfTable, List.mem_cons, List.not_mem_nil, or_false] at he
  rcases he with rfl | rfl | rfl | rfl | rfl | rfl | rfl | rfl | rfl | rfl | rfl | rfl | rfl | rfl | rfl | rfl | rfl | rfl | rfl | rfl | rfl | rfl | rfl | rfl | rfl | rfl | rfl <;>
    exact ⟨_, _, rfl, by first | (simp [Model.Value.doExecName]; done) | (simp [Model.Value.doExecName]; rfl),
      by first | (simp [Model.Value.doExecName]; done) | (simp [Model.Value.doExecName]; rfl)⟩

/-- hence the printed inline name yields what the command yields, for every row -/
theorem inline_advertised_eq_command (cx : Model.VCtx) (v : Model.Value) :
    ∀ e ∈ Model.tfTable, ∃ f, v.doExecName cx e.inl = some f ∧
      (do let v' ← f; showAs e.name v' : Model.TM Unit) = e.run cx v := by
  intro e he
  obtain ⟨nm, f, h1, h2, h3⟩ := inline_eq_command cx v e he
  obtain ⟨nm', f', h1', h2', h3'⟩ := inline_advertised cx v e he
  rw [h1] at h1'; cases h1'
  rw [h2] at h2'; cases h2'
  exact ⟨f, h3', h3⟩

/-- both names of a row, in one statement: whichever of the two the text uses -/
theorem inline_either (cx : Model.VCtx) (v : Model.Value) (name : String) :
    ∀ e ∈ Model.tfTable, e.exec = some name ∨ e.inl = name → ∃ f, v.doExecName cx name = some f ∧
      (do let v' ← f; showAs e.name v' : Model.TM Unit) = e.run cx v := by
  intro e he h
  rcases h with h | h
  · obtain ⟨nm, f, h1, h2, h3⟩ := inline_eq_command cx v e he
    rw [h] at h1; cases h1
    exact ⟨f, h2, h3⟩
  · subst h; exact inline_advertised_eq_command cx v e he

/-- text level: the `Value` constructor on the text `name(arg)` parses `arg`, assigns the result into the value under
    construction (`operator=` copies the type and the active field only) and runs `do_exec(name)` on it -/
theorem inline_text (cx : Model.VCtx) (mk : Bytes → Nat → Model.TM Model.Value) (nm arg : Bytes) (hlen : nm.length ≤ 29)
    (hnm : ∀ c ∈ nm, c.toNat ≠ 40 ∧ c.toNat ≠ 0) (hpos : nm.length + arg.length > 1) :
    Model.valueBodyF cx mk (nm ++ [40] ++ arg ++ [41]) (nm.length + arg.length + 2) = (do
      let inner ← mk arg arg.length
      let this := ({ type := .T_STRING, str := nm ++ [40] ++ arg ++ [41] } : Model.Value).assign inner
      match this.doExecF cx nm with
      | some r => r
      | none => do
        Model.sayErr (Model.asc "unknown function " ++ Model.cstrOf nm ++ Model.asc ": expression left as is\n")
        pure (Model.classifyPlainF this (nm ++ [40] ++ arg ++ [41]) (nm.length + arg.length + 2))) :=
  InlineText.inline_text cx mk nm arg hlen hnm hpos

/-- text level, command side: evaluating the text `name(arg)` — `name` being the `DO(...)` name of a table row or the
    inline name `tf -h` prints for it — and showing the value writes what the wrapper `_e_name` of the row writes for the
    assigned inner value, for EVERY row.  (`fn_tf` runs the wrapper on the inner value itself; the two differ only in the
    fields `operator=` does not copy; since bca0002 a failed `TryHex` clears `data`, so a string argument carries no stale bytes.) -/
theorem inline_text_eq_wrapper (cx : Model.VCtx) (mk : Bytes → Nat → Model.TM Model.Value) (nm arg : Bytes) (hlen : nm.length ≤ 29)
    (hnm : ∀ c ∈ nm, c.toNat ≠ 40 ∧ c.toNat ≠ 0) (hpos : nm.length + arg.length > 1) :
    ∀ e ∈ Model.tfTable, e.exec = some (Model.strOfBytes nm) ∨ e.inl = Model.strOfBytes nm →
      (do let v ← Model.valueBodyF cx mk (nm ++ [40] ++ arg ++ [41]) (nm.length + arg.length + 2); showAs e.name v : Model.TM Unit) =
      (do let inner ← mk arg arg.length
          e.run cx (({ type := .T_STRING, str := nm ++ [40] ++ arg ++ [41] } : Model.Value).assign inner)) := by
  intro e he hex
  rw [inline_text cx mk nm arg hlen hnm hpos]
  simp only [bind_assoc]
  congr 1
  funext inner
  obtain ⟨f, h1, h2⟩ := inline_either cx (({ type := .T_STRING, str := nm ++ [40] ++ arg ++ [41] } : Model.Value).assign inner)
    _ e he hex
  simp only [Model.Value.doExecF, h1]
  exact h2

section
open Model
/-- the fields a value shows: type, the three scalar fields and the byte string it denotes -/
def shown (v : Value) : VType × Int × Bytes × Bytes := (v.type, v.int64, v.str, v.dataValue)

/-- the inline functions the assembler model of C07 (`Value.doExec` in Model/Value.lean) knows are the same functions as in the
    full dispatcher: same type, integer, string and denoted byte string of the result, same failure -/
theorem doExec_agrees (cx : VCtx) (v : Value) (fn : Bytes) (name : String) (hfn : strOfBytes fn = name)
    (hk : name ∈ knownInline) :
    ∃ r f, v.doExec cx fn = some r ∧ v.doExecName cx name = some f ∧
      (match r, f {} with
       | .ok a, .ok (b, _) => shown a = shown b
       | .error e, .error e' => e = e'
       | _, _ => False) := by
  simp only [knownInline, List.mem_cons, List.not_mem_nil, or_false] at hk
  rcases hk with rfl | rfl | rfl | rfl | rfl | rfl | rfl | rfl | rfl | rfl
  all_goals simp [Value.doExec, hfn, Value.doExecName]
  all_goals
    cases v with
    | mk type int64 opcode data str =>
      cases type <;> first
        | rfl
        | (simp [shown, Value.dataValue, doPrefixCompactSize, Value.dv, intValueM, Value.intValue, liftVM, bind, StateT.bind,
            Except.bind, pure, StateT.pure, Except.pure, sayErr, modify, modifyGet, MonadStateOf.modifyGet, StateT.modifyGet,
            Functor.map, StateT.map, Except.map]
           try (cases dataIntValue data <;> simp))
end

/-- the names that used to be refused (F-C14-inline-missing, repaired by 7582c10) are accepted, and run the method the
    command of the row runs -/
theorem inline_formerly_missing (cx : Model.VCtx) (v : Model.Value) :
    v.doExecName cx "len" = some (Model.doLen v) ∧
    v.doExecName cx "b32me" = some (Model.doBech32Enc .BECH32M v) ∧ v.doExecName cx "bech32menc" = some (Model.doBech32Enc .BECH32M v) ∧
    v.doExecName cx "verify_sig_compact" = some (Model.verifySig true v) ∧
    v.doExecName cx "b32d" = some (Model.doBech32Dec v) ∧ v.doExecName cx "b32e" = some (Model.doBech32Enc .BECH32 v) ∧
    v.doExecName cx "b58cd" = some (Model.doBase58ChkDec cx v) ∧ v.doExecName cx "b58ce" = some (Model.doBase58ChkEnc cx v) ∧
    v.doExecName cx "jacobi_sym" = some (Model.doJacobiSymbol v) := by
  simp [Model.Value.doExecName]

/-- non-vacuity: the table does contain rows whose printed inline name differs from the `DO(...)` name, and rows that had no
    inline form before; `len` on the two bytes 0x1234 prints the number 2 -/
example : (∃ e ∈ Model.tfTable, e.name = "bech32m-encode" ∧ e.inl = "b32me" ∧ e.exec = some "bech32menc") ∧
    (∃ e ∈ Model.tfTable, e.name = "len" ∧ e.inl = "len" ∧ e.exec = some "len") ∧
    (∃ e ∈ Model.tfTable, e.name = "verify-sig-compact" ∧ e.inl = "verify_sig_compact" ∧ e.exec = some "verify_sig_compact") := by
  decide

example : ∃ f, ({ type := .T_DATA, data := [0x12, 0x34] } : Model.Value).doExecName cryptoCtx "len" = some f ∧
    (do let v' ← f; v'.println : Model.TM Unit) {} = .ok ((), { out := Model.intDecimal 2 ++ [10] }) :=
  ⟨_, (inline_formerly_missing _ _).1, rfl⟩

/-- `hex`: both forms compute the same characters; the inline value is a string -/
theorem inline_hex (cx : Model.VCtx) (v : Model.Value) :
    ∃ f, v.doExecName cx "hex" = some f ∧ ∃ v', f {} = .ok (v', {}) ∧ v'.type = .T_STRING ∧ v'.str = v.hexStr :=
  ⟨_, by simp [Model.Value.doExecName]; rfl, _, rfl, rfl, rfl⟩

-- ---------------------------------------------------------------------------------------------
-- opcode form = command form

/-- executing OP_SHA256 / OP_RIPEMD160 / OP_HASH160 / OP_HASH256 replaces the top stack item `x` by the bytes the
    transform of the same name yields for the data value `x` -/
theorem opcode_eq_transform (cx : Model.Ctx) (vcx : Model.VCtx) (h1 : cx.sha256 = vcx.sha256) (h2 : cx.ripemd160 = vcx.ripemd160)
    (e : Model.SEE) (st : List Bytes) (x : Bytes) (fExec : Bool) (pc : Bytes) (hst : e.stack = st ++ [x])
    (hsz : e.stack.length + e.altstack.length ≤ Gen.MAX_STACK_SIZE) :
    (∃ v, runT (Model.doSha256 vcx) { type := .T_DATA, data := x } = .ok (v, {}) ∧
        Model.execOpcode cx e .OP_SHA256 fExec pc = .ok { e with stack := st ++ [v.data] }) ∧
    (∃ v, runT (Model.doRipemd160 vcx) { type := .T_DATA, data := x } = .ok (v, {}) ∧
        Model.execOpcode cx e .OP_RIPEMD160 fExec pc = .ok { e with stack := st ++ [v.data] }) ∧
    (∃ v, runT (Model.doHash160 vcx) { type := .T_DATA, data := x } = .ok (v, {}) ∧
        Model.execOpcode cx e .OP_HASH160 fExec pc = .ok { e with stack := st ++ [v.data] }) ∧
    (∃ v, runT (Model.doHash256 vcx) { type := .T_DATA, data := x } = .ok (v, {}) ∧
        Model.execOpcode cx e .OP_HASH256 fExec pc = .ok { e with stack := st ++ [v.data] }) := by
  have hlen : (st ++ [x]).length ≥ 1 := by simp
  have htop : Model.top (st ++ [x]) 1 = .ok x := by
    simp [Model.top]
  have hpop : Model.pop (st ++ [x]) = .ok st := by
    simp [Model.pop]
  have hsz' : ¬ ((st ++ [vcx.sha256 x]).length + e.altstack.length > Gen.MAX_STACK_SIZE) := by
    rw [hst] at hsz; simp at hsz ⊢; omega
  refine ⟨⟨_, rfl, ?_⟩, ⟨_, rfl, ?_⟩, ⟨_, rfl, ?_⟩, ⟨_, rfl, ?_⟩⟩ <;>
    · simp only [Model.execOpcode, hst, htop, hpop, h1, h2, bind, Except.bind, pure, Except.pure, Model.sizeCheck]
      rw [hst] at hsz
      simp at hsz ⊢
      split
      · omega
      · rfl

end Btcdeb.C14
