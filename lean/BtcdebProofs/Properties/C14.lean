/-
  C14 — value transforms compute their defined functions and invert each other.

  Statements are about the model of value.h / value.cpp / functions.cpp / base58.cpp / bech32.cpp
  (`Btcdeb.Model.Encodings`, `Btcdeb.Model.Transforms`) and the specification (`Btcdeb.Spec.Encodings`,
  `Btcdeb.Spec.Transforms`); they hold for all inputs, with the stated hypotheses.  Theorems named `_partial`
  carry a hypothesis that cuts out a region in which the C++ (hence the model) does not meet the specification;
  each of those regions is witnessed by an `example`.
-/
import BtcdebProofs.Lemmas.Base58
import BtcdebProofs.Lemmas.Bech32
import BtcdebProofs.Lemmas.ConvertBits
import BtcdebProofs.Lemmas.Jacobi
import BtcdebProofs.Lemmas.Sha256Length
import Btcdeb.Model.Glue
namespace Btcdeb.C14
open Btcdeb

-- ---------------------------------------------------------------------------------------------
-- Base58 / Base58Check

/-- `EncodeBase58` produces the specified string: one '1' per leading zero byte, then the base-58 numeral -/
theorem base58_encode_spec (b : Bytes) : Model.encodeBase58 b = Spec.base58Encode b := Base58.encode_eq_spec b

/-- decode ∘ encode = id (the caller's length limit permitting) -/
theorem base58_decode_encode (b : Bytes) (maxRetLen : Nat) (h : b.length ≤ maxRetLen) :
    Model.decodeBase58 (Model.encodeBase58 b) maxRetLen = some b := Base58.decode_encode b maxRetLen h

/-- whatever `DecodeBase58` accepts is the encoding of its result: the run of non-blank characters of the input
    (blanks around it are skipped by the C++) re-encodes from the result -/
theorem base58_decode_sound (s b : Bytes) (maxRetLen : Nat) (h : Model.decodeBase58 s maxRetLen = some b) :
    Model.encodeBase58 b = Base58.core s ∧ b.length ≤ maxRetLen := Base58.decode_sound s b maxRetLen h

/-- the specification's decoder and encoder are mutually inverse -/
theorem base58_spec_roundtrip (b : Bytes) : Spec.base58Decode (Spec.base58Encode b) = some b := Base58.spec_decode_encode b
theorem base58_spec_sound (s b : Bytes) (h : Spec.base58Decode s = some b) : Spec.base58Encode b = s := Base58.spec_decode_sound s b h

/-- `DecodeBase58Check(EncodeBase58Check(p)) = p` for payloads within the limit the transform passes (200);
    `hash` is any function returning at least four bytes (double SHA-256 in the tools) -/
theorem base58check_roundtrip (hash : Bytes → Bytes) (hlen : ∀ m, 4 ≤ (hash m).length) (p : Bytes) (maxRet : Nat)
    (h : p.length ≤ maxRet) : Model.decodeBase58Check hash (Model.encodeBase58Check hash p) maxRet = some p :=
  Base58.check_decode_encode hash hlen p maxRet h

/-- a string is accepted only if it is the Base58Check encoding of the payload returned -/
theorem base58check_decode_sound (hash : Bytes → Bytes) (s p : Bytes) (maxRet : Nat)
    (h : Model.decodeBase58Check hash s maxRet = some p) :
    Model.encodeBase58Check hash p = Base58.core s ∧ p.length ≤ maxRet := Base58.check_decode_sound hash s p maxRet h

/-- a corrupted string is never accepted as the original payload: if the non-blank run of `s'` is not the encoding
    of `p`, decoding `s'` does not give `p` -/
theorem base58check_corrupted_rejected (hash : Bytes → Bytes) (p s' : Bytes) (maxRet : Nat)
    (hne : Base58.core s' ≠ Model.encodeBase58Check hash p) : Model.decodeBase58Check hash s' maxRet ≠ some p := by
  intro h
  exact hne (base58check_decode_sound hash s' p maxRet h).1.symm

/-- the transform's limit: payloads longer than `maxRet` are refused even though they were encoded -/
theorem base58check_limit (hash : Bytes → Bytes) (s p : Bytes) (maxRet : Nat)
    (h : Model.decodeBase58Check hash s maxRet = some p) : p.length ≤ maxRet := (base58check_decode_sound hash s p maxRet h).2

-- ---------------------------------------------------------------------------------------------
-- Bech32 / Bech32m

/-- `PolyMod` of bech32.cpp is BIP173's `bech32_polymod`, and its register never leaves 30 bits -/
theorem bech32_polymod_spec (v : Bytes) : Model.polyMod v = Spec.bech32Polymod (v.map UInt8.toNat) := Bech32.polyMod_eq_spec v
theorem bech32_polymod_lt (v : Bytes) : Model.polyMod v < 2 ^ 30 := Bech32.polyMod_lt v

/-- the checksum `CreateChecksum` appends makes `VerifyChecksum` answer with the encoding it was created for
    (constant 1 for Bech32, 0x2bc830a3 for Bech32m) -/
theorem bech32_checksum_verifies (enc : Model.Bech32Encoding) (henc : enc ≠ .INVALID) (hrp values : Bytes) :
    Model.verifyChecksum hrp (values ++ Model.createChecksum enc hrp values) = enc := Bech32.verifyChecksum_create enc henc hrp values

/-- `bech32::Encode` returns BIP173 / BIP350's `bech32_encode` (lower-case HRP, 5-bit values: the conditions under which
    the C++ neither asserts nor indexes outside `CHARSET`) -/
theorem bech32_encode_spec (enc : Model.Bech32Encoding) (henc : enc ≠ .INVALID) (hrp values : Bytes)
    (hhrp : ∀ c ∈ hrp, ¬ (65 ≤ c.toNat ∧ c.toNat ≤ 90)) (hvals : ∀ v ∈ values, v.toNat < 32) :
    Model.bech32Encode enc hrp values = some (Spec.bech32Encode (Bech32.variantOf enc) hrp (values.map UInt8.toNat)) :=
  Bech32.encode_spec enc henc hrp values hhrp hvals

/-- `Decode(Encode(enc, hrp, values)) = (enc, hrp, values)` for a non-empty lower-case printable HRP, 5-bit values and
    at most 90 characters in total -/
theorem bech32_decode_encode (enc : Model.Bech32Encoding) (hrp values : Bytes) (henc : enc ≠ .INVALID) (hne : hrp ≠ [])
    (hhrp : ∀ c ∈ hrp, Bech32.PlainChar c) (hvals : ∀ v ∈ values, v.toNat < 32) (hlen : hrp.length + 1 + values.length + 6 ≤ 90) :
    (Model.bech32Encode enc hrp values).bind Model.bech32Decode = some (enc, hrp, values) :=
  Bech32.decode_encode enc hrp values henc hne hhrp hvals hlen

/-- whatever `Decode` accepts is, up to letter case, exactly the string `Encode` produces from the result: the
    decoder accepts nothing but encodings -/
theorem bech32_decode_sound (s hrp data : Bytes) (enc : Model.Bech32Encoding) (h : Model.bech32Decode s = some (enc, hrp, data)) :
    Model.bech32Encode enc hrp data = some (s.map Model.lowerCase) := Bech32.decode_sound s hrp data enc h

/-- two strings that decode to the same result are equal up to letter case -/
theorem bech32_decode_injective (s s' hrp data : Bytes) (enc : Model.Bech32Encoding)
    (h : Model.bech32Decode s = some (enc, hrp, data)) (h' : Model.bech32Decode s' = some (enc, hrp, data)) :
    s.map Model.lowerCase = s'.map Model.lowerCase := by
  have a := bech32_decode_sound s hrp data enc h
  have b := bech32_decode_sound s' hrp data enc h'
  rw [a] at b
  exact Option.some.inj b

/-- one wrong symbol in the data part (checksum included) is always detected: if a symbol string verifies for an
    encoding, the string with one symbol replaced does not verify for that encoding -/
theorem bech32_single_error_detected (hrp l1 l2 : Bytes) (a a' : UInt8) (h : a ≠ a') (enc : Model.Bech32Encoding)
    (henc : enc ≠ .INVALID) (hv : Model.verifyChecksum hrp (l1 ++ a :: l2) = enc) :
    Model.verifyChecksum hrp (l1 ++ a' :: l2) ≠ enc := Bech32.single_error_detected hrp l1 l2 a a' h enc henc hv

-- ---------------------------------------------------------------------------------------------
-- ConvertBits

/-- `ConvertBits<8,5,true>`: 5-bit symbols, ⌈8n/5⌉ of them, denoting the input number shifted left by the padding -/
theorem convertBits_8_5 (xs : List Nat) (hx : ∀ x ∈ xs, x < 256) :
    let r := (Model.convertBits 8 5 true xs).1
    (∀ d ∈ r, d < 32) ∧ r.length = (xs.length * 8 + 4) / 5 ∧
    Spec.numeralValue 32 r = Spec.numeralValue 256 xs * 2 ^ (r.length * 5 - xs.length * 8) := ConvertBits.convert85 xs hx

/-- `ConvertBits<5,8,false>`: ⌊5m/8⌋ bytes denoting the input number without its surplus low bits; it succeeds iff
    there are fewer than five surplus bits and they are all zero -/
theorem convertBits_5_8 (ys : List Nat) (hy : ∀ y ∈ ys, y < 32) :
    let r := Model.convertBits 5 8 false ys
    let b := ys.length * 5 - r.1.length * 8
    (∀ d ∈ r.1, d < 256) ∧ r.1.length = ys.length * 5 / 8 ∧
    Spec.numeralValue 256 r.1 = Spec.numeralValue 32 ys / 2 ^ b ∧
    (r.2 = true ↔ (b < 5 ∧ Spec.numeralValue 32 ys % 2 ^ b = 0)) := ConvertBits.convert58 ys hy

/-- both conversions are the specified regrouping of the bit string (BIP173 "convertbits") -/
theorem convertBits_8_5_spec (xs : List Nat) (hx : ∀ x ∈ xs, x < 256) :
    (Model.convertBits 8 5 true xs).1 = Spec.regroupPad 8 5 xs := ConvertBits.convert85_spec xs hx
theorem convertBits_5_8_spec (ys : List Nat) (hy : ∀ y ∈ ys, y < 32) :
    (Model.convertBits 5 8 false ys).2 = (Spec.regroupNoPad 5 8 ys).isSome ∧
    ∀ o, Spec.regroupNoPad 5 8 ys = some o → (Model.convertBits 5 8 false ys).1 = o := ConvertBits.convert58_spec ys hy

/-- 8 → 5 → 8 round trip -/
theorem convertBits_roundtrip (xs : List Nat) (hx : ∀ x ∈ xs, x < 256) :
    Model.convertBits 5 8 false (Model.convertBits 8 5 true xs).1 = (xs, true) := ConvertBits.roundtrip xs hx

-- ---------------------------------------------------------------------------------------------
-- transforms on values

open Model in
/-- run a transform on a value with empty output streams -/
def runT (f : Value → TM Value) (v : Value) : Except VErr (Value × Log) := f v {}

/-- `data_value()` leaves in `data` the byte string the value denotes -/
theorem dv_data (v : Model.Value) : v.dv.data = v.dataValue := by
  cases v with
  | mk type int64 opcode data str => cases type <;> rfl

/-- the hash transforms are the hash functions applied to the byte string the argument denotes, for any argument -/
theorem sha256_transform (cx : Model.VCtx) (v : Model.Value) :
    ∃ v', runT (Model.doSha256 cx) v = .ok (v', {}) ∧ v'.type = .T_DATA ∧ v'.data = cx.sha256 v.dataValue :=
  ⟨_, rfl, rfl, by rw [← dv_data]⟩
theorem ripemd160_transform (cx : Model.VCtx) (v : Model.Value) :
    ∃ v', runT (Model.doRipemd160 cx) v = .ok (v', {}) ∧ v'.type = .T_DATA ∧ v'.data = cx.ripemd160 v.dataValue :=
  ⟨_, rfl, rfl, by rw [← dv_data]⟩
theorem hash256_transform (cx : Model.VCtx) (v : Model.Value) :
    ∃ v', runT (Model.doHash256 cx) v = .ok (v', {}) ∧ v'.type = .T_DATA ∧ v'.data = cx.sha256 (cx.sha256 v.dataValue) :=
  ⟨_, rfl, rfl, by simp [Model.Value.dv, ← dv_data]⟩
theorem hash160_transform (cx : Model.VCtx) (v : Model.Value) :
    ∃ v', runT (Model.doHash160 cx) v = .ok (v', {}) ∧ v'.type = .T_DATA ∧ v'.data = cx.ripemd160 (cx.sha256 v.dataValue) :=
  ⟨_, rfl, rfl, by simp [Model.Value.dv, ← dv_data]⟩

/-- the instance the tools run with: the transforms are `Crypto.sha256`, `Crypto.ripemd160`, `Crypto.hash256`, `Crypto.hash160` -/
def cryptoCtx : Model.VCtx := { sha256 := Crypto.sha256, ripemd160 := Crypto.ripemd160 }
theorem hash256_is_crypto (b : Bytes) : cryptoCtx.sha256 (cryptoCtx.sha256 b) = Crypto.hash256 b := rfl
theorem hash160_is_crypto (b : Bytes) : cryptoCtx.ripemd160 (cryptoCtx.sha256 b) = Crypto.hash160 b := rfl
theorem tagged_hash_is_crypto (v : Model.Value) (tag m : Bytes) (h : Model.extractValues v.data = some [tag, m]) :
    ∃ v', runT (Model.doTaggedHash cryptoCtx) v = .ok (v', {}) ∧ v'.data = Crypto.taggedHash tag m := by
  refine ⟨{ v with data := Crypto.taggedHash tag m }, ?_, rfl⟩
  simp [runT, Model.doTaggedHash, h, Crypto.taggedHash, cryptoCtx]
  rfl

/-- byte reversal is an involution on data and on strings -/
theorem reverse_involutive (v : Model.Value) (h : v.type = .T_DATA ∨ v.type = .T_STRING) :
    ∃ v', runT Model.doReverse v = .ok (v', {}) ∧ runT Model.doReverse v' = .ok (v, {}) := by
  cases v with
  | mk type int64 opcode data str =>
    rcases h with h | h <;> simp only at h <;> subst h
    · exact ⟨_, rfl, by simp [runT, Model.doReverse]; rfl⟩
    · exact ⟨_, rfl, by simp [runT, Model.doReverse]; rfl⟩
theorem reverse_data (v : Model.Value) (h : v.type = .T_DATA) :
    runT Model.doReverse v = .ok ({ v with data := v.data.reverse }, {}) := by
  simp [runT, Model.doReverse, h]; rfl

/-- the model's `WriteCompactSize` is the specification's compact size -/
theorem compactSize_spec (n : Nat) : Model.compactSize n = Spec.compactSize n := by
  have hfix : ∀ k m, leFixed k m = Spec.leBytesFixed k m := by
    intro k
    induction k with
    | zero => intro m; rfl
    | succ k ih => intro m; simp [leFixed, Spec.leBytesFixed, ih]
  unfold Model.compactSize Spec.compactSize
  simp only [hfix]
  by_cases h1 : n < 253
  · simp [h1]
  · by_cases h2 : n ≤ 0xffff
    · have : n < 2 ^ 16 := by omega
      simp [h1, h2, this]
    · by_cases h3 : n ≤ 0xffffffff
      · have a : ¬ n < 2 ^ 16 := by omega
        have b : n < 2 ^ 32 := by omega
        simp [h1, h2, h3, a, b]
      · have a : ¬ n < 2 ^ 16 := by omega
        have b : ¬ n < 2 ^ 32 := by omega
        simp [h1, h2, h3, a, b]

theorem leBytesFixed_length (k n : Nat) : (Spec.leBytesFixed k n).length = k := by
  induction k generalizing n with
  | zero => rfl
  | succ k ih => simp [Spec.leBytesFixed, ih]

theorem leValue_leBytesFixed (k n : Nat) (h : n < 256 ^ k) : leValue (Spec.leBytesFixed k n) = n := by
  induction k generalizing n with
  | zero => simp [Spec.leBytesFixed, leValue]; omega
  | succ k ih =>
    have hn : n / 256 < 256 ^ k := by
      rw [Nat.pow_succ] at h
      exact Nat.div_lt_of_lt_mul (by rw [Nat.mul_comm]; exact h)
    simp only [Spec.leBytesFixed, leValue, ih (n / 256) hn]
    have : (UInt8.ofNat (n % 256)).toNat = n % 256 := by
      have : n % 256 < 256 := Nat.mod_lt _ (by decide)
      simp [Nat.mod_eq_of_lt this]
    rw [this]; omega

theorem readCompactSize_wide (hdr : UInt8) (w n : Nat) (rest : Bytes) (h253 : ¬ hdr.toNat < 253)
    (hw : w = (if hdr.toNat == 253 then 2 else if hdr.toNat == 254 then 4 else 8)) (hn : n < 256 ^ w) :
    Spec.readCompactSize (hdr :: (Spec.leBytesFixed w n ++ rest)) = some (n, rest) := by
  unfold Spec.readCompactSize
  simp only [h253, ↓reduceIte, ← hw]
  have hl : ¬ ((Spec.leBytesFixed w n ++ rest).length < w) := by simp [leBytesFixed_length]
  simp only [hl, ↓reduceIte]
  have ht : (Spec.leBytesFixed w n ++ rest).take w = Spec.leBytesFixed w n := by
    rw [List.take_left' (leBytesFixed_length w n)]
  have hd : (Spec.leBytesFixed w n ++ rest).drop w = rest := by
    rw [List.drop_left' (leBytesFixed_length w n)]
  rw [ht, hd, leValue_leBytesFixed w n hn]

/-- a compact size prefix reads back: value and the bytes after it -/
theorem compactSize_decodes (n : Nat) (rest : Bytes) (h : n < 2 ^ 64) :
    Spec.readCompactSize (Spec.compactSize n ++ rest) = some (n, rest) := by
  unfold Spec.compactSize
  by_cases h1 : n < 253
  · have : (UInt8.ofNat n).toNat = n := by
      have : n < 256 := by omega
      simp [Nat.mod_eq_of_lt this]
    simp [h1, Spec.readCompactSize, this]
  · by_cases h2 : n < 2 ^ 16
    · simp only [h1, h2, ↓reduceIte, List.cons_append]
      exact readCompactSize_wide 253 2 n rest (by decide) (by decide) (by simpa using h2)
    · by_cases h3 : n < 2 ^ 32
      · simp only [h1, h2, h3, ↓reduceIte, List.cons_append]
        exact readCompactSize_wide 254 4 n rest (by decide) (by decide) (by simpa using h3)
      · simp only [h1, h2, h3, ↓reduceIte, List.cons_append]
        exact readCompactSize_wide 255 8 n rest (by decide) (by decide) (by simpa using h)

/-- `prefix-compact-size`: the result data is the compact size of the byte string followed by the byte string, and
    reading the prefix back gives its length and the byte string itself -/
theorem prefixCompactSize_decodes (v : Model.Value) (h : v.dataValue.length < 2 ^ 64) :
    ∃ v', runT Model.doPrefixCompactSize v = .ok (v', {}) ∧ v'.data = Spec.compactSize v.dataValue.length ++ v.dataValue ∧
      Spec.readCompactSize v'.data = some (v.dataValue.length, v.dataValue) := by
  refine ⟨_, rfl, ?_, ?_⟩
  · simp [dv_data, compactSize_spec]
  · simp only [dv_data, compactSize_spec]
    exact compactSize_decodes _ _ h

/-- the value printed is the prefixed data only if the argument is not a string or an opcode (`data_value()` keeps the
    type): for data and integer arguments the transform's result is data -/
theorem prefixCompactSize_type_partial (v : Model.Value) (h : v.type = .T_DATA ∨ v.type = .T_INT) :
    ∃ v', runT Model.doPrefixCompactSize v = .ok (v', {}) ∧ v'.type = .T_DATA := by
  refine ⟨_, rfl, ?_⟩
  cases v with
  | mk type int64 opcode data str => rcases h with h | h <;> simp only at h <;> subst h <;> rfl

/-- the excluded region: a string argument stays a string, so the command shows it without prefix -/
example : ∃ v', runT Model.doPrefixCompactSize { type := .T_STRING, str := [104, 105] } = .ok (v', {}) ∧
    v'.printBytes = [34, 104, 105, 34] := ⟨_, rfl, by decide⟩

/-- `len` is the length of the byte string the argument denotes -/
theorem len_transform (v : Model.Value) :
    ∃ v', runT Model.doLen v = .ok (v', {}) ∧ v'.type = .T_INT ∧ v'.int64 = v.dataValue.length :=
  ⟨_, rfl, rfl, by simp [dv_data]⟩

-- ---------------------------------------------------------------------------------------------
-- the encoding transforms invert each other

theorem map_toNat_ofNat_lt (ds : List Nat) (h : ∀ d ∈ ds, d < 256) : (ds.map UInt8.ofNat).map UInt8.toNat = ds :=
  Base58.map_toNat_ofNat ds h

/-- `base58chk-decode` undoes `base58chk-encode` for every argument whose byte string has at most 200 bytes -/
theorem base58chk_transform_roundtrip (cx : Model.VCtx) (hlen : ∀ m, 4 ≤ (cx.sha256 m).length) (v : Model.Value)
    (h : v.dataValue.length ≤ 200) :
    ∃ v1 v2, runT (Model.doBase58ChkEnc cx) v = .ok (v1, {}) ∧ runT (Model.doBase58ChkDec cx) v1 = .ok (v2, {}) ∧
      v2.type = .T_DATA ∧ v2.data = v.dataValue := by
  have hh : ∀ m, 4 ≤ (cx.hash m).length := fun m => hlen _
  have hrt := base58check_roundtrip cx.hash hh v.dataValue 200 h
  have hnz : (Model.encodeBase58Check cx.hash v.dataValue).any (· == 0) = false := by
    have := hrt
    unfold Model.decodeBase58Check Model.decodeBase58 at this
    cases hq : (Model.encodeBase58Check cx.hash v.dataValue).any (· == 0) with
    | false => rfl
    | true => simp [hq] at this
  refine ⟨{ v.dv with str := Model.encodeBase58Check cx.hash v.dv.data, type := .T_STRING },
    { v.dv with str := Model.encodeBase58Check cx.hash v.dv.data, data := v.dataValue, type := .T_DATA }, rfl, ?_, rfl, rfl⟩
  simp only [runT, Model.doBase58ChkDec, dv_data, hnz, hrt]
  rfl

theorem bcrt_plain : ∀ c ∈ Model.bech32Hrp, Bech32.PlainChar c := by
  intro c hc
  simp only [Model.bech32Hrp, List.mem_cons, List.not_mem_nil, or_false] at hc
  rcases hc with rfl | rfl | rfl | rfl <;> exact ⟨by decide, by decide, by decide⟩

/-- `bech32-decode` undoes `bech32-encode` / `bech32m-encode` for every argument whose byte string has at most 48 bytes
    (longer ones give strings of more than 90 characters, which `bech32::Decode` refuses) -/
theorem bech32_transform_roundtrip (enc : Model.Bech32Encoding) (henc : enc ≠ .INVALID) (v : Model.Value)
    (h : v.dataValue.length ≤ 48) :
    ∃ v1 v2 l, runT (Model.doBech32Enc enc) v = .ok (v1, {}) ∧ runT Model.doBech32Dec v1 = .ok (v2, l) ∧
      v2.type = .T_DATA ∧ v2.data = v.dataValue ∧ l.err = [] := by
  have hx : ∀ x ∈ v.dataValue.map UInt8.toNat, x < 256 := by
    intro x hx
    obtain ⟨b, _, rfl⟩ := List.mem_map.mp hx
    exact b.toNat_lt
  obtain ⟨c1, c2, _⟩ := convertBits_8_5 _ hx
  have hrt := convertBits_roundtrip _ hx
  generalize hr5 : (Model.convertBits 8 5 true (v.dataValue.map UInt8.toNat)).1 = r5 at c1 c2 hrt
  have hr5' : (r5.map UInt8.ofNat).map UInt8.toNat = r5 := map_toNat_ofNat_lt r5 (fun d hd => by have := c1 d hd; omega)
  have hvals : ∀ x ∈ (1 : UInt8) :: r5.map UInt8.ofNat, x.toNat < 32 := by
    intro x hx
    rcases List.mem_cons.mp hx with e | e
    · subst e; decide
    · have : x.toNat ∈ (r5.map UInt8.ofNat).map UInt8.toNat := List.mem_map.mpr ⟨x, e, rfl⟩
      rw [hr5'] at this
      exact c1 _ this
  have hlen : Model.bech32Hrp.length + 1 + ((1 : UInt8) :: r5.map UInt8.ofNat).length + 6 ≤ 90 := by
    simp only [List.length_cons, List.length_map, c2, Model.bech32Hrp, List.length_nil]
    omega
  have hde := bech32_decode_encode enc Model.bech32Hrp _ henc (by decide) bcrt_plain hvals hlen
  cases hs : Model.bech32Encode enc Model.bech32Hrp ((1 : UInt8) :: r5.map UInt8.ofNat) with
  | none => simp [hs] at hde
  | some s =>
    rw [hs] at hde
    simp only [Option.bind_some] at hde
    refine ⟨{ v.dv with str := s, type := .T_STRING },
      { v.dv with str := s, type := .T_DATA, data := (v.dataValue.map UInt8.toNat).map UInt8.ofNat },
      { out := Model.asc "(bech32" ++ (if enc == .BECH32M then Model.asc "m" else []) ++ Model.asc " HRP = " ++
          Model.cstrOf Model.bech32Hrp ++ Model.asc ")\n" }, ?_, ?_, rfl, Base58.map_ofNat_toNat _, rfl⟩
    · simp only [runT, Model.doBech32Enc, dv_data, hr5, hs]; rfl
    · simp only [runT, Model.doBech32Dec, hde]
      simp only [hr5', hrt]
      rfl

/-- with the real hash function there is no side condition -/
theorem base58chk_transform_roundtrip_crypto (v : Model.Value) (h : v.dataValue.length ≤ 200) :
    ∃ v1 v2, runT (Model.doBase58ChkEnc cryptoCtx) v = .ok (v1, {}) ∧ runT (Model.doBase58ChkDec cryptoCtx) v1 = .ok (v2, {}) ∧
      v2.type = .T_DATA ∧ v2.data = v.dataValue :=
  base58chk_transform_roundtrip cryptoCtx (fun m => by rw [show cryptoCtx.sha256 m = Crypto.sha256 m from rfl, Crypto.sha256_length]; decide) v h

/-- `addr-to-scriptpubkey` undoes `scriptpubkey-to-addr` on every pay-to-public-key-hash script -/
theorem spk_addr_roundtrip (cx : Model.VCtx) (hlen : ∀ m, 4 ≤ (cx.sha256 m).length) (h20 : Bytes) (hl : h20.length = 20) :
    let spk : Bytes := [0x76, 0xa9, 0x14] ++ h20 ++ [0x88, 0xac]
    ∃ v1 v2, runT (Model.doSpkToAddr cx) { type := .T_DATA, data := spk } = .ok (v1, {}) ∧ v1.type = .T_STRING ∧
      v1.str = Model.encodeBase58Check cx.hash (0 :: h20) ∧
      runT (Model.doAddrToSpk cx) v1 = .ok (v2, {}) ∧ v2.type = .T_DATA ∧ v2.data = spk := by
  intro spk
  have hh : ∀ m, 4 ≤ (cx.hash m).length := fun m => hlen _
  have hsl : spk.length = 25 := by simp [spk, hl]
  have hmid : (spk.drop 3).take 20 = h20 := by
    simp only [spk, List.append_assoc, List.cons_append, List.nil_append, List.drop_succ_cons, List.drop_zero]
    rw [List.take_left' hl]
  have hg : spk.getD 0 0 = 0x76 ∧ spk.getD 1 0 = 0xa9 ∧ spk.getD 2 0 = 0x14 ∧ spk.getD 23 0 = 0x88 ∧ spk.getD 24 0 = 0xac := by
    refine ⟨rfl, rfl, rfl, ?_, ?_⟩
    · simp only [spk, List.append_assoc, List.cons_append, List.nil_append, List.getD_cons_succ]
      rw [List.getD_eq_getElem?_getD, List.getElem?_append_right (by omega), hl]; rfl
    · simp only [spk, List.append_assoc, List.cons_append, List.nil_append, List.getD_cons_succ]
      rw [List.getD_eq_getElem?_getD, List.getElem?_append_right (by omega), hl]; rfl
  have hrt := base58check_roundtrip cx.hash hh (0 :: h20) 200 (by simp [hl])
  have hnz : (Model.encodeBase58Check cx.hash (0 :: h20)).any (· == 0) = false := by
    have := hrt
    unfold Model.decodeBase58Check Model.decodeBase58 at this
    cases hq : (Model.encodeBase58Check cx.hash (0 :: h20)).any (· == 0) with
    | false => rfl
    | true => simp [hq] at this
  have hpush : Model.pushData h20 = 0x14 :: h20 := by
    unfold Model.pushData
    simp [hl, Op.OP_PUSHDATA1]
  obtain ⟨g0, g1, g2, g3, g4⟩ := hg
  refine ⟨{ type := .T_STRING, data := 0 :: h20, str := Model.encodeBase58Check cx.hash (0 :: h20) },
    { type := .T_DATA, data := spk, str := Model.encodeBase58Check cx.hash (0 :: h20) }, ?_, rfl, rfl, ?_, rfl, rfl⟩
  · simp only [runT, Model.doSpkToAddr, hsl, g0, g1, g2, g3, g4, hmid]
    rfl
  · simp [runT, Model.doAddrToSpk, Model.doBase58ChkDec, hnz, hrt, bind, StateT.bind, Except.bind, pure, StateT.pure, Except.pure,
      hpush, spk]

-- ---------------------------------------------------------------------------------------------
-- modular addition / subtraction

/-- `add` without modulus: addition modulo 2^256 -/
theorem add_no_modulus (a b : Nat) : Model.arithAdd a b 0 = leFixed 32 ((a + b) % 2 ^ 256) := by
  simp [Model.arithAdd]

/-- `add` with a modulus: (a + b) mod g, in the region where the single conditional subtraction of the C++ suffices -/
theorem add_modulus_partial (a b g : Nat) (ha : a < 2 ^ 256) (hb : b < 2 ^ 256) (hg0 : g ≠ 0) (hg : g < 2 ^ 256)
    (hred : a + b < 2 * g) : Model.arithAdd a b g = leFixed 32 ((a + b) % g) := by
  unfold Model.arithAdd
  have hg0' : (g != 0) = true := by simpa using hg0
  simp only [hg0', Bool.true_and]
  congr 1
  by_cases hov : a + b < 2 ^ 256
  · rw [Nat.mod_eq_of_lt hov]
    by_cases hc : a + b ≥ g
    · have : (decide (a + b ≥ g) || decide (a + b < a)) = true := by simp [hc]
      rw [if_pos this]
      have e : (a + b + 2 ^ 256 - g) = (a + b - g) + 2 ^ 256 := by omega
      rw [e, Nat.add_mod_right, Nat.mod_eq_of_lt (by omega)]
      have : (a + b) % g = a + b - g := by
        rw [Nat.mod_eq_sub_mod hc, Nat.mod_eq_of_lt (by omega)]
      rw [this]
    · have : (decide (a + b ≥ g) || decide (a + b < a)) = false := by
        simp only [Bool.or_eq_false_iff, decide_eq_false_iff_not]; omega
      rw [if_neg (by simp [this])]
      rw [Nat.mod_eq_of_lt (by omega)]
  · have hc : (a + b) % 2 ^ 256 = a + b - 2 ^ 256 := by
      rw [Nat.mod_eq_sub_mod (by omega), Nat.mod_eq_of_lt (by omega)]
    rw [hc]
    have : (decide (a + b - 2 ^ 256 ≥ g) || decide (a + b - 2 ^ 256 < a)) = true := by
      have : a + b - 2 ^ 256 < a := by omega
      simp [this]
    rw [if_pos this]
    have e : a + b - 2 ^ 256 + 2 ^ 256 - g = a + b - g := by omega
    rw [e, Nat.mod_eq_of_lt (by omega)]
    have : (a + b) % g = a + b - g := by
      rw [Nat.mod_eq_sub_mod (by omega), Nat.mod_eq_of_lt (by omega)]
    rw [this]

/-- the excluded region is real: operands that are not reduced modulo g -/
example : Model.arithAdd 100 17 23 = leFixed 32 94 ∧ (100 + 17) % 23 = 2 := by decide

/-- `sub` without modulus: subtraction modulo 2^256 -/
theorem sub_no_modulus (a b : Nat) (ha : a < 2 ^ 256) (hb : b < 2 ^ 256) :
    Model.arithAdd a ((2 ^ 256 - b) % 2 ^ 256) 0 = leFixed 32 (Spec.modSub a b 0) := by
  simp only [Model.arithAdd, bne_self_eq_false, Bool.false_and, Bool.false_eq_true, ↓reduceIte, Spec.modSub]
  congr 1
  by_cases hb0 : b = 0
  · subst hb0
    rw [Nat.sub_zero, Nat.mod_self, Nat.add_zero, Nat.mod_eq_of_lt ha]
    have h2 : ((a : Int) - ((0 : Nat) : Int)) % ((2 ^ 256 : Nat) : Int) = (a : Int) := by
      rw [Int.natCast_zero, Int.sub_zero]
      apply Int.emod_eq_of_lt <;> omega
    rw [h2, Int.toNat_natCast]
  · rw [Nat.mod_eq_of_lt (by omega : 2 ^ 256 - b < 2 ^ 256)]
    by_cases hab : b ≤ a
    · have e : a + (2 ^ 256 - b) = (a - b) + 2 ^ 256 := by omega
      rw [e, Nat.add_mod_right, Nat.mod_eq_of_lt (by omega)]
      have : ((a : Int) - (b : Int)) = ((a - b : Nat) : Int) := by omega
      rw [this]
      have h2 : ((a - b : Nat) : Int) % ((2 ^ 256 : Nat) : Int) = ((a - b : Nat) : Int) := by
        apply Int.emod_eq_of_lt <;> omega
      simp only [h2, Int.toNat_natCast]
    · rw [Nat.mod_eq_of_lt (by omega)]
      have : ((a : Int) - (b : Int)) % ((2 ^ 256 : Nat) : Int) = ((a + (2 ^ 256 - b) : Nat) : Int) := by
        have e : ((a : Int) - (b : Int)) = ((a + (2 ^ 256 - b) : Nat) : Int) + ((2 ^ 256 : Nat) : Int) * (-1) := by
          omega
        rw [e, Int.add_mul_emod_self_left]
        apply Int.emod_eq_of_lt <;> omega
      rw [this, Int.toNat_natCast]

/-- `sub` with a modulus is (a − b) mod g only for b = 0 (and a < 2g): the C++ negates b modulo 2^256, not modulo g -/
theorem sub_modulus_partial (a g : Nat) (ha : a < 2 ^ 256) (hg0 : g ≠ 0) (hg : g < 2 ^ 256) (hred : a < 2 * g) :
    Model.arithAdd a ((2 ^ 256 - 0) % 2 ^ 256) g = leFixed 32 (Spec.modSub a 0 g) := by
  have e : (2 ^ 256 - 0) % 2 ^ 256 = 0 := by simp
  rw [e, add_modulus_partial a 0 g ha (by decide) hg0 hg (by omega)]
  simp only [Spec.modSub, hg0, ↓reduceIte, Nat.add_zero]
  have : ((a : Int) - ((0 : Nat) : Int)) % (g : Int) = ((a % g : Nat) : Int) := by simp
  rw [this, Int.toNat_natCast]

/-- the defect: `tf sub 0x20 0x11 0x30` gives 2^256 − 0x21 where (0x20 − 0x11) mod 0x30 = 0x0f -/
example : Model.arithAdd 0x20 ((2 ^ 256 - 0x11) % 2 ^ 256) 0x30 = leFixed 32 (2 ^ 256 - 0x21) ∧ Spec.modSub 0x20 0x11 0x30 = 0x0f := by
  decide

-- ---------------------------------------------------------------------------------------------
-- Jacobi symbol

/-- the loop of `do_jacobi_symbol` computes the Jacobi symbol given by the recursive law (quadratic reciprocity with the
    supplements), for every n and every non-zero k -/
theorem jacobi_spec (n k : Nat) (hk : k ≠ 0) :
    runT (fun v => do let j ← Model.jacobiOf n k; pure { v with int64 := j }) {} =
      .ok ({ int64 := Spec.jacobiRec (n % k) k }, {}) := by
  have h := Jacobi.loop_eq (n % k) k false
  simp only [Jacobi.sign, Bool.false_eq_true, ↓reduceIte, Int.one_mul] at h
  have hk' : (k == 0) = false := by simpa using hk
  simp only [runT, Model.jacobiOf, hk', Bool.false_eq_true, ↓reduceIte]
  unfold Jacobi.readOff at h
  simp only [bind, StateT.bind, pure, StateT.pure, Except.bind, Except.pure, h]

/-- for an odd modulus this is the specification's Jacobi symbol -/
theorem jacobi_odd (n k : Nat) (hk : k % 2 = 1) : Spec.jacobi n k = some (Spec.jacobiRec (n % k) k) := by
  have : ¬ k % 2 = 0 := by omega
  simp [Spec.jacobi, this]

-- ---------------------------------------------------------------------------------------------
-- inline form = command form

/-- every row of the tf table that `do_exec` knows (under the name recorded in the row) runs the same `do_*` method
    in both forms: evaluating `name(arg)` and printing the value writes what the command writes.  (`hex` is shown bare by
    the command and as a quoted string by the inline form; `echo` and `int` agree.) -/
theorem inline_eq_command (cx : Model.VCtx) (v : Model.Value) :
    ∀ e ∈ Model.tfTable, e.name ≠ "hex" → ∀ nm, e.exec = some nm →
      ∃ f, v.doExecName cx nm = some f ∧ (do let v' ← f; v'.println : Model.TM Unit) = e.run cx v := by
  intro e he hhex nm hnm
  simp only [Model.tfTable, List.mem_cons, List.not_mem_nil, or_false] at he
  rcases he with rfl | rfl | rfl | rfl | rfl | rfl | rfl | rfl | rfl | rfl | rfl | rfl | rfl | rfl | rfl | rfl | rfl | rfl | rfl | rfl | rfl | rfl | rfl | rfl | rfl | rfl | rfl <;>
    simp only [Option.some.injEq, reduceCtorEq] at hnm <;> (try subst hnm) <;>
    first
      | exact absurd rfl hhex
      | exact ⟨_, by simp [Model.Value.doExecName], rfl⟩
      | (refine ⟨_, by simp [Model.Value.doExecName]; rfl, ?_⟩; simp [Model.Value.println, Model.intValueM, Model.Value.printBytes])

/-- the rows without inline form: `do_exec` does not know the names the table advertises for them -/
theorem inline_missing (cx : Model.VCtx) (v : Model.Value) :
    v.doExecName cx "len" = none ∧ v.doExecName cx "b32me" = none ∧ v.doExecName cx "bech32menc" = none ∧
    v.doExecName cx "verify_sig_compact" = none ∧ v.doExecName cx "b32d" = none ∧ v.doExecName cx "b32e" = none ∧
    v.doExecName cx "b58cd" = none ∧ v.doExecName cx "b58ce" = none ∧ v.doExecName cx "jacobi_sym" = none := by
  simp [Model.Value.doExecName]

/-- `hex`: both forms compute the same characters; the inline value is a string -/
theorem inline_hex (cx : Model.VCtx) (v : Model.Value) :
    ∃ f, v.doExecName cx "hex" = some f ∧ ∃ v', f {} = .ok (v', {}) ∧ v'.type = .T_STRING ∧ v'.str = v.hexStr :=
  ⟨_, by simp [Model.Value.doExecName]; rfl, _, rfl, rfl, rfl⟩

-- ---------------------------------------------------------------------------------------------
-- opcode form = command form

/-- executing OP_SHA256 / OP_RIPEMD160 / OP_HASH160 / OP_HASH256 replaces the top stack item `x` by the bytes the
    transform of the same name yields for the data value `x` -/
theorem opcode_eq_transform (cx : Model.Ctx) (vcx : Model.VCtx) (h1 : cx.sha256 = vcx.sha256) (h2 : cx.ripemd160 = vcx.ripemd160)
    (e : Model.SEE) (st : List Bytes) (x : Bytes) (fExec : Bool) (pc : Bytes) (hst : e.stack = st ++ [x])
    (hsz : e.stack.length + e.altstack.length ≤ Gen.MAX_STACK_SIZE) :
    (∃ v, runT (Model.doSha256 vcx) { type := .T_DATA, data := x } = .ok (v, {}) ∧
        Model.execOpcode cx e .OP_SHA256 fExec pc = .ok { e with stack := st ++ [v.data] }) ∧
    (∃ v, runT (Model.doRipemd160 vcx) { type := .T_DATA, data := x } = .ok (v, {}) ∧
        Model.execOpcode cx e .OP_RIPEMD160 fExec pc = .ok { e with stack := st ++ [v.data] }) ∧
    (∃ v, runT (Model.doHash160 vcx) { type := .T_DATA, data := x } = .ok (v, {}) ∧
        Model.execOpcode cx e .OP_HASH160 fExec pc = .ok { e with stack := st ++ [v.data] }) ∧
    (∃ v, runT (Model.doHash256 vcx) { type := .T_DATA, data := x } = .ok (v, {}) ∧
        Model.execOpcode cx e .OP_HASH256 fExec pc = .ok { e with stack := st ++ [v.data] }) := by
  have hlen : (st ++ [x]).length ≥ 1 := by simp
  have htop : Model.top (st ++ [x]) 1 = .ok x := by
    simp [Model.top]
  have hpop : Model.pop (st ++ [x]) = .ok st := by
    simp [Model.pop]
  have hsz' : ¬ ((st ++ [vcx.sha256 x]).length + e.altstack.length > Gen.MAX_STACK_SIZE) := by
    rw [hst] at hsz; simp at hsz ⊢; omega
  refine ⟨⟨_, rfl, ?_⟩, ⟨_, rfl, ?_⟩, ⟨_, rfl, ?_⟩, ⟨_, rfl, ?_⟩⟩ <;>
    · simp only [Model.execOpcode, hst, htop, hpop, h1, h2, bind, Except.bind, pure, Except.pure, Model.sizeCheck]
      rw [hst] at hsz
      simp at hsz ⊢
      split
      · omega
      · rfl

end Btcdeb.C14
