/-
  C03 for the checker btcdeb really installs.

  `Properties/C03.lean` proves "session valid ⇔ `Spec.verifyScript` accepts" under the hypothesis `CheckerAgrees cx sc ..`
  (= `CfgRel cx e cfg` for every environment of the session).  For the model of the real checker,
  `txCheckerWith cr base tx nIn amount txdata`, that hypothesis is FALSE (`C02.no_cfgRel_tx`): `CfgRel` asks for agreement
  on queries no session makes.  This file closes the gap:

    checkerAgrees_oracle   the specification's oracle, presented as a checker (`C02.oracleCtx`), satisfies `CheckerAgrees`
    agreesC_transfer       `Agrees` only looks at `continueScript`; equal sessions give the same verdict
    Lemmas/SigSession.lean `session_congr`: sessions under two checkers that agree on the queries sessions make are EQUAL
    sameOn_spend           the transaction checker and `oracleCtx ((Spec.spendCtx ..).oracleFor sv annex leaf)` agree on
                           those queries (Properties/Sighash.lean via C02)
    C03_*_tx, C03_verdict_tx   the theorems of C03 for `txCheckerWith ..` WITHOUT the hypothesis `CheckerAgrees`

  What is needed of the checker's data, per output type:
    legacy, P2SH, P2WPKH, P2WSH, wrapped   the input exists, `Coherent cr tx txdata` (true of `PrecomputedTransactionData()` and
                                           of what `Init` computes: `coherent_default`, `precomputeInit_coherent`)
    tapscript, key path                    additionally the BIP341 data are ready and hold the spent outputs the specification
                                           is given (`TxReady`); for a single-input transaction that is what
                                           `Instance::setup_environment` establishes (`precomputeInit_single_input_ready`);
                                           for several inputs it does not (F-C03-multi-input-taproot)
  What remains conditional (beyond the exclusions of C03, which are kept verbatim):
    (b) P2SH: the redeem script — the element the scriptSig leaves on top of the stack — decodes (`hredeem`, stated on the
        specification's evaluation of the scriptSig; `redeemDecodes_of_spec` turns it into the statement about the
        session, `RedeemDecodes`).  A redeem script with a truncated push at its end fails in both worlds, but before the
        failure a signature check may hash a script code that does not decode, where Core's serializer and the original
        algorithm differ (`legacySighash_eq_spec_partial`), so the two sessions need not be equal step by step.
    For (a) legacy the same situation (scriptPubKey that does not decode) IS covered: `legacy_undecodable_invalid` shows that
    such a session is invalid whatever the checker answers, and validation rejects.
  How sessions are compared: Lemmas/SigSession.lean, `session_congr` (all phases: commitment, scriptSig, hand-over,
  scriptPubKey, P2SH hand-over, redeem script) and `keypath_congr` (the two-instruction key-path script under TAPROOT).
-/
import Btcdeb
import BtcdebProofs.Lemmas.SigSession
import BtcdebProofs.Properties.C02
import BtcdebProofs.Properties.C03
namespace Btcdeb.Proofs.C03
open Btcdeb Btcdeb.Model Btcdeb.Refine Btcdeb.Proofs.Phases Btcdeb.Proofs.Shapes Btcdeb.Proofs.Sighash
open Btcdeb.Proofs.SigOps Btcdeb.Proofs.C02

set_option linter.unusedSimpArgs false
set_option linter.unusedVariables false

/-! ### 1. the oracle as a checker satisfies `CheckerAgrees` -/

/-- **`CheckerAgrees` for the oracle itself.**  For every spend context: a session whose checker is the specification's
    oracle for (`sv`, `annex`, `leaf`) is in the configuration relation of C01 with the configuration C03 uses. -/
theorem checkerAgrees_oracle (sc : Spec.SpendCtx) (flags : Nat) (sv : SigVersion) (annex leaf : Option Bytes) :
    CheckerAgrees (oracleCtx (sc.oracleFor sv annex leaf)) sc flags sv annex leaf := by
  intro e he
  simp only [conf, Prod.mk.injEq] at he
  obtain ⟨h1, h2, h3, h4, h5, h6⟩ := he
  exact cfgRel_oracle e (specCfg sc flags sv annex leaf)
    { flags := h1.symm, sv := h2.symm, z := h4.symm, rm := by rw [h3, h1],
      pretendKeys := fun key => by rw [h6]; rfl,
      pretendPair := fun sig key hk => by rw [h6] at hk; cases hk }

/-! ### 2. `Agrees` only looks at the session -/

theorem agreesC_transfer {tc : TapCtx} {cx cx' : Ctx} {flags : Nat} {conf : Option Configured} {N : IEnv → Nat}
    {spec : Spec.R Unit}
    (hcong : ∀ c, conf = some c → ∀ e0,
      setupEnvironment c.stack c.script flags c.sigver c.successor false c.execdata c.tce [] [] = .ok e0 →
      ∀ n, continueScript cx tc n e0 = continueScript cx' tc n e0)
    (h : AgreesC tc cx' flags conf N spec) : AgreesC tc cx flags conf N spec := by
  unfold AgreesC at h ⊢
  cases conf with
  | none => exact h
  | some c =>
    simp only at h ⊢
    cases hs : setupEnvironment c.stack c.script flags c.sigver c.successor false c.execdata c.tce [] [] with
    | error x => rw [hs] at h; exact h
    | ok e0 =>
      rw [hs] at h
      simp only at h ⊢
      intro n hn
      rw [hcong c rfl e0 hs n]
      exact h n hn

/-! ### 3. the transaction checker agrees with the oracle of `Spec.spendCtx` on the queries of a session -/

private theorem txc_lock' (cr : SigCrypto) (base : Ctx) (tx : Tx) (nIn : Nat) (amount : Int) (txdata : PrecomputedTxData) :
    (txCheckerWith cr base tx nIn amount txdata).checkLockTime = checkLockTimeTx tx nIn := by
  simp only [txCheckerWith]

private theorem txc_seq' (cr : SigCrypto) (base : Ctx) (tx : Tx) (nIn : Nat) (amount : Int) (txdata : PrecomputedTxData) :
    (txCheckerWith cr base tx nIn amount txdata).checkSequence = checkSequenceTx tx nIn := by
  simp only [txCheckerWith]

/-- `C02.sameOn_tx` for the oracle of `Spec.spendCtx p tx nIn amount spent`: the list of spent outputs given to the
    specification only matters for BIP341, i.e. for tapscript sessions, where it must be the one the checker holds -/
theorem sameOn_spend (cr : SigCrypto) (base : Ctx) (p : Spec.Prims) (hp : PrimsMatch p cr base)
    (tx : Tx) (nIn : Nat) (amount : Int) (txdata : PrecomputedTxData) (spent : List TxOut) (sv : SigVersion)
    (annex leaf : Option Bytes) (ed0 : ExecData) (hin : nIn < tx.vin.length) (hcoh : Coherent cr tx txdata)
    (htap : sv = .TAPSCRIPT → spent = txdata.spentOutputs ∧ TapReady cr tx nIn txdata annex leaf ed0) :
    SameOn (txCheckerWith cr base tx nIn amount txdata)
      (oracleCtx ((Spec.spendCtx p tx nIn amount spent).oracleFor sv annex leaf)) sv (edStatic ed0) := by
  refine ⟨?_, ?_, ?_, ?_, ?_, ?_, ?_, ?_⟩
  · rw [(txChecker_base_fields cr base tx nIn amount txdata).1]; exact hp.sha256Op.symm
  · rw [(txChecker_base_fields cr base tx nIn amount txdata).2.1]; exact hp.ripemd160.symm
  · rw [(txChecker_base_fields cr base tx nIn amount txdata).2.2.1]; exact hp.sha1.symm
  · rw [(txChecker_base_fields cr base tx nIn amount txdata).2.2.2]; exact hp.checkLowS.symm
  · rw [txc_lock']
    simp only [oracleCtx, Spec.spendCtx, Spec.txOracle]
    funext n
    exact checkLockTime_eq_spec tx nIn n hin
  · intro n hn
    rw [txc_seq']
    simp only [oracleCtx, Spec.spendCtx, Spec.txOracle]
    have : n = ((n.toNat : Nat) : Int) := by omega
    rw [this, checkSequence_eq_spec tx nIn n.toNat hin, ← this]
  · intro sig key code hc
    rw [txChecker_checkECDSA cr base tx nIn amount txdata sig key code sv hin hcoh]
    · simp only [oracleCtx, Spec.spendCtx, Spec.txOracle]
      rw [hp.sha256, hp.ecdsaVerify]
    · intro hne
      rcases hc with ⟨_, hd⟩ | hw
      · exact hd
      · exact absurd hw hne
  · intro sig key ed hsv hk hs
    obtain ⟨hsp, h1, h2, l, hl, hpre⟩ := htap hsv
    subst hsv
    rw [txChecker_checkSchnorr cr base tx nIn amount txdata sig key .TAPSCRIPT ed annex (some ⟨l, ed.codesepPos⟩) hin hcoh h1 h2
      (schnorrPre_of_static hpre hs) hk]
    simp only [oracleCtx, Spec.spendCtx, Spec.txOracle, hl, hsp, beq_self_eq_true, if_true, Option.map_some, hp.sha256, hp.schnorrVerify]
    cases Spec.schnorrSigValid cr.sha256 cr.schnorrVerify tx nIn txdata.spentOutputs annex (some ⟨l, ed.codesepPos⟩) sig key <;> rfl

/-- the key-path question: the transaction checker and the oracle answer it alike when the BIP341 data are ready -/
theorem keypath_query (cr : SigCrypto) (base : Ctx) (p : Spec.Prims) (hp : PrimsMatch p cr base)
    (tx : Tx) (nIn : Nat) (amount : Int) (txdata : PrecomputedTxData) (annex : Option Bytes) (ed : ExecData)
    (hin : nIn < tx.vin.length) (hcoh : Coherent cr tx txdata)
    (h1 : txdata.bip341TaprootReady = true) (h2 : txdata.spentOutputsReady = true)
    (hpre : SchnorrPre cr ed tx nIn annex none .TAPROOT) (prog : Bytes) (hk : prog.length = 32) (sig : Bytes) :
    (txCheckerWith cr base tx nIn amount txdata).checkSchnorr sig prog .TAPROOT ed =
      (oracleCtx ((Spec.spendCtx p tx nIn amount txdata.spentOutputs).oracleFor .TAPROOT annex none)).checkSchnorr sig prog .TAPROOT ed := by
  rw [txChecker_checkSchnorr cr base tx nIn amount txdata sig prog .TAPROOT ed annex none hin hcoh h1 h2 hpre hk]
  simp only [oracleCtx, Spec.spendCtx, Spec.txOracle, hp.sha256, hp.schnorrVerify]
  have : (SigVersion.TAPROOT == SigVersion.TAPSCRIPT) = false := by decide
  simp only [this, Bool.false_eq_true, if_false]
  cases Spec.schnorrSigValid cr.sha256 cr.schnorrVerify tx nIn txdata.spentOutputs annex none sig prog <;> rfl

/-! ### 4. the sessions `configure_tx_txin` sets up satisfy the session invariant -/

theorem sessInv_setup (stack : List Bytes) (script : Bytes) (flags : Nat) (sv : SigVersion) (succ : Bytes) (ed : ExecData)
    (tce : Option Tce) (hnk : sv ≠ .TAPROOT) (hscript : Parses script) (hsucc : Parses succ)
    (hlen : sv = .BASE → script.length < 2 ^ 32)
    (htce : ∀ t, tce = some t → t.leaf = ed.tapleafHash ∧ ed.tapleafHashInit = true)
    (hred : (sv == .BASE && p2shPattern flags script) = true → ∀ r, stack.getLast? = some r → ScriptOk r) :
    SessInv (setupEnv stack script flags sv succ ed tce) sv (edStatic ed) := by
  refine ⟨rfl, hnk, rfl, htce, fun hb => ⟨decode_of_parses hscript, hlen hb⟩, hscript, hlen, hsucc, ?_⟩
  intro hp r hr
  have hp' : (sv == .BASE && p2shPattern flags script) = true := hp
  simp only [setupEnv, hp', if_true] at hr
  exact Or.inr (hred hp' r hr)

theorem parses_of_hasValidOps (s : Bytes) (h : hasValidOps s = true) : Parses s :=
  parses_of_decode (decode_of_hasValidOps s h)

/-- witness sessions (segwit v0, tapscript): one script, no successor -/
theorem witness_session_congr (cx cx' : Ctx) (tc : TapCtx) (sv : SigVersion) (hsv : sv = .WITNESS_V0 ∨ sv = .TAPSCRIPT)
    (stack : List Bytes) (script : Bytes) (flags : Nat) (ed : ExecData) (tce : Option Tce)
    (hsame : SameOn cx cx' sv (edStatic ed)) (hvo : hasValidOps script = true)
    (htce : ∀ t, tce = some t → t.leaf = ed.tapleafHash ∧ ed.tapleafHashInit = true) (n : Nat) :
    continueScript cx tc n (setupEnv stack script flags sv [] ed tce) =
      continueScript cx' tc n (setupEnv stack script flags sv [] ed tce) := by
  have hnb : (sv == SigVersion.BASE) = false := by rcases hsv with h | h <;> rw [h] <;> decide
  refine session_congr_single cx cx' tc sv (edStatic ed) hsame n _ ?_ rfl
  refine sessInv_setup stack script flags sv [] ed tce (by rcases hsv with h | h <;> rw [h] <;> decide)
    (parses_of_hasValidOps script hvo) Parses.nil ?_ htce ?_
  · intro hb; rw [hb] at hnb; cases hnb
  · intro hp; rw [hnb] at hp; cases hp

theorem idx_lt {tx : Tx} {idx : Nat} {inp : TxIn} (h : tx.vin[idx]? = some inp) : idx < tx.vin.length := by
  rcases Nat.lt_or_ge idx tx.vin.length with h1 | h1
  · exact h1
  · rw [List.getElem?_eq_none h1] at h; cases h

/-! ### 5. the theorems of C03 for the transaction checker -/

section Tx
variable (cr : SigCrypto) (base : Ctx) (p : Spec.Prims) (hp : PrimsMatch p cr base)
  (h : HashCtx) (tc : TapCtx) (flags : Nat) (tx txin : Tx) (idx vout : Nat) (sv0 : SigVersion)
  (amount : Int) (txdata : PrecomputedTxData) (spentList : List TxOut)
  (inp : TxIn) (spent : TxOut)
  (hinp : tx.vin[idx]? = some inp) (hspent : txin.vout[vout]? = some spent)
  (hcoh : Coherent cr tx txdata)

include hp hinp hcoh in
/-- segwit-v0 sessions: the checker of the session and the oracle of the specification agree on its queries -/
theorem sameOn_v0 :
    SameOn (txCheckerWith cr base tx idx amount txdata)
      (oracleCtx ((Spec.spendCtx p tx idx amount spentList).oracleFor .WITNESS_V0 none none)) .WITNESS_V0
      (edStatic ({} : ExecData)) :=
  sameOn_spend cr base p hp tx idx amount txdata spentList .WITNESS_V0 none none {} (idx_lt hinp) hcoh (fun h => by cases h)

include hp hinp hspent hcoh in
/-- **(c) P2WSH, transaction checker.** -/
theorem C03_p2wsh_tx (prog wlast : Bytes)
    (hsig : inp.scriptSig = []) (hspk : spent.scriptPubKey = 0x00 :: 0x20 :: prog) (hpl : prog.length = 32)
    (hw : inp.witness.getLast? = some wlast)
    (hsha : ∀ b, h.sha256 b = p.sha256 b)
    (hW : hasFlag flags Flag.WITNESS = true) (hnz : Spec.toBool prog = true)
    (hdef : NoUndefinedOpcode wlast) :
    Agrees h tc (txCheckerWith cr base tx idx amount txdata) flags tx txin idx vout sv0 continueFuel
      (Spec.verifyScript (Spec.spendCtx p tx idx amount spentList) flags inp.scriptSig spent.scriptPubKey inp.witness) := by
  refine agreesC_transfer ?_ (C03_p2wsh h tc _ (Spec.spendCtx p tx idx amount spentList) flags tx txin idx vout sv0 inp spent prog wlast
    hinp hspent hsig hspk hpl hw hsha (checkerAgrees_oracle _ flags .WITNESS_V0 none none) hW hnz hdef)
  intro c hc e0 hs n
  rw [configure_p2wsh h tc tx txin idx vout sv0 inp spent prog wlast hinp hspent hsig hspk hpl hw] at hc
  split at hc
  · cases hc
  · split at hc
    · cases hc
    · split at hc
      · cases hc
      · rename_i hvo
        cases hc
        obtain ⟨he0, _⟩ := setup_ok hs
        subst he0
        exact witness_session_congr _ _ tc .WITNESS_V0 (Or.inl rfl) _ _ flags _ _
          (sameOn_v0 cr base p hp tx idx amount txdata spentList inp hinp hcoh) (by simpa using hvo) (fun t ht => by cases ht) n

include hp hinp hspent hcoh in
/-- **(c) P2WPKH, transaction checker.** -/
theorem C03_p2wpkh_tx (prog wlast : Bytes)
    (hsig : inp.scriptSig = []) (hspk : spent.scriptPubKey = 0x00 :: 0x14 :: prog) (hpl : prog.length = 20)
    (hw : inp.witness.getLast? = some wlast)
    (hh160 : ∀ b, h.hash160 b = p.ripemd160 (p.sha256 b))
    (hW : hasFlag flags Flag.WITNESS = true) (hnz : Spec.toBool prog = true) :
    Agrees h tc (txCheckerWith cr base tx idx amount txdata) flags tx txin idx vout sv0 continueFuel
      (Spec.verifyScript (Spec.spendCtx p tx idx amount spentList) flags inp.scriptSig spent.scriptPubKey inp.witness) := by
  refine agreesC_transfer ?_ (C03_p2wpkh h tc _ (Spec.spendCtx p tx idx amount spentList) flags tx txin idx vout sv0 inp spent prog wlast
    hinp hspent hsig hspk hpl hw hh160 (checkerAgrees_oracle _ flags .WITNESS_V0 none none) hW hnz)
  intro c hc e0 hs n
  rw [configure_p2wpkh h tc tx txin idx vout sv0 inp spent prog wlast hinp hspent hsig hspk hpl hw] at hc
  split at hc
  · cases hc
  · split at hc
    · cases hc
    · cases hc
      obtain ⟨he0, _⟩ := setup_ok hs
      subst he0
      exact witness_session_congr _ _ tc .WITNESS_V0 (Or.inl rfl) _ _ flags _ _
        (sameOn_v0 cr base p hp tx idx amount txdata spentList inp hinp hcoh) (hasValidOps_p2pkh prog hpl) (fun t ht => by cases ht) n

include hp hinp hspent hcoh in
/-- **(d) P2SH-wrapped P2WSH, transaction checker.** -/
theorem C03_p2sh_p2wsh_tx (prog hh wlast : Bytes)
    (hsig : inp.scriptSig = Spec.pushOf (0x00 :: 0x20 :: prog)) (hspk : spent.scriptPubKey = 0xa9 :: 0x14 :: (hh ++ [0x87]))
    (hpl : prog.length = 32) (hl : hh.length = 20) (hw : inp.witness.getLast? = some wlast)
    (hsha : ∀ b, h.sha256 b = p.sha256 b) (hh160 : ∀ b, h.hash160 b = p.ripemd160 (p.sha256 b))
    (hP : hasFlag flags Flag.P2SH = true) (hW : hasFlag flags Flag.WITNESS = true) (hnz : Spec.toBool prog = true)
    (hdef : NoUndefinedOpcode wlast) :
    Agrees h tc (txCheckerWith cr base tx idx amount txdata) flags tx txin idx vout sv0 continueFuel
      (Spec.verifyScript (Spec.spendCtx p tx idx amount spentList) flags inp.scriptSig spent.scriptPubKey inp.witness) := by
  refine agreesC_transfer ?_ (C03_p2sh_p2wsh h tc _ (Spec.spendCtx p tx idx amount spentList) flags tx txin idx vout sv0 inp spent prog hh wlast
    hinp hspent hsig hspk hpl hl hw hsha hh160 (checkerAgrees_oracle _ flags .WITNESS_V0 none none) hP hW hnz hdef)
  intro c hc e0 hs n
  rw [configure_wrapped_p2wsh h tc tx txin idx vout sv0 inp spent prog hh wlast hinp hspent hsig hspk hpl hl hw] at hc
  split at hc
  · cases hc
  · split at hc
    · cases hc
    · split at hc
      · cases hc
      · split at hc
        · cases hc
        · rename_i hvo
          cases hc
          obtain ⟨he0, _⟩ := setup_ok hs
          subst he0
          exact witness_session_congr _ _ tc .WITNESS_V0 (Or.inl rfl) _ _ flags _ _
            (sameOn_v0 cr base p hp tx idx amount txdata spentList inp hinp hcoh) (by simpa using hvo) (fun t ht => by cases ht) n

include hp hinp hspent hcoh in
/-- **(d) P2SH-wrapped P2WPKH, transaction checker.** -/
theorem C03_p2sh_p2wpkh_tx (prog hh wlast : Bytes)
    (hsig : inp.scriptSig = Spec.pushOf (0x00 :: 0x14 :: prog)) (hspk : spent.scriptPubKey = 0xa9 :: 0x14 :: (hh ++ [0x87]))
    (hpl : prog.length = 20) (hl : hh.length = 20) (hw : inp.witness.getLast? = some wlast)
    (hh160 : ∀ b, h.hash160 b = p.ripemd160 (p.sha256 b))
    (hP : hasFlag flags Flag.P2SH = true) (hW : hasFlag flags Flag.WITNESS = true) (hnz : Spec.toBool prog = true) :
    Agrees h tc (txCheckerWith cr base tx idx amount txdata) flags tx txin idx vout sv0 continueFuel
      (Spec.verifyScript (Spec.spendCtx p tx idx amount spentList) flags inp.scriptSig spent.scriptPubKey inp.witness) := by
  refine agreesC_transfer ?_ (C03_p2sh_p2wpkh h tc _ (Spec.spendCtx p tx idx amount spentList) flags tx txin idx vout sv0 inp spent prog hh wlast
    hinp hspent hsig hspk hpl hl hw hh160 hh160 (checkerAgrees_oracle _ flags .WITNESS_V0 none none) hP hW hnz)
  intro c hc e0 hs n
  rw [configure_wrapped_p2wpkh h tc tx txin idx vout sv0 inp spent prog hh wlast hinp hspent hsig hspk hpl hl hw] at hc
  split at hc
  · cases hc
  · split at hc
    · cases hc
    · split at hc
      · cases hc
      · cases hc
        obtain ⟨he0, _⟩ := setup_ok hs
        subst he0
        exact witness_session_congr _ _ tc .WITNESS_V0 (Or.inl rfl) _ _ flags _ _
          (sameOn_v0 cr base p hp tx idx amount txdata spentList inp hinp hcoh) (hasValidOps_p2pkh prog hpl) (fun t ht => by cases ht) n

/-- the BIP341 data of the checker are ready and hold the spent outputs the specification is given
    (single-input transactions: `precomputeInit_single_input_ready`) -/
structure TxReady (txdata : PrecomputedTxData) (spentList : List TxOut) : Prop where
  ready341 : txdata.bip341TaprootReady = true
  readySpent : txdata.spentOutputsReady = true
  spentEq : txdata.spentOutputs = spentList

omit hp hinp hspent hcoh in
/-- the execution data `configure_tx_txin` builds describe the annex of the witness -/
theorem schnorrPre_configured (hsha : ∀ b, h.sha256 b = cr.sha256 b) (nIn : Nat) (w : List Bytes) (wlast : Bytes)
    (ed : ExecData) (ext : Option Spec.TapExt) (sv : SigVersion)
    (h1 : ed.annexInit = true) (h2 : ed.annexPresent = hasAnnexM w wlast)
    (h3 : ed.annexHash = if hasAnnexM w wlast then h.sha256 (compactSize wlast.length ++ wlast) else [])
    (hext : match ext with
      | none => sv = .TAPROOT
      | some e => sv = .TAPSCRIPT ∧ ed.tapleafHashInit = true ∧ ed.tapleafHash = e.leafHash
          ∧ ed.codesepPosInit = true ∧ ed.codesepPos = e.codesepPos)
    (hout : ed.outputHash = none) :
    SchnorrPre cr ed tx nIn (if hasAnnexS w wlast then some wlast else none) ext sv := by
  refine ⟨h1, ?_, ?_, hext, Or.inl hout⟩
  · rw [h2, annex_eq]; cases hasAnnexS w wlast <;> rfl
  · intro a ha
    rw [h3, annex_eq]
    cases hs : hasAnnexS w wlast
    · rw [hs] at ha; cases ha
    · rw [hs] at ha
      simp only [if_true, Option.some.injEq] at ha
      subst ha
      simp only [if_true, hsha]; rfl

include hp hinp hspent hcoh in
/-- **(f) tapscript, transaction checker.**  Needs the BIP341 data ready (`TxReady`), the annex hash function of
    `configure_tx_txin` to be the checker's SHA-256, and C05's agreement of the commitment functions (which also makes the
    leaf hash in the execution data the one the specification signs). -/
theorem C03_tapscript_tx (prog wlast control leafScript : Bytes) (stack : List Bytes)
    (hsig : inp.scriptSig = []) (hspk : spent.scriptPubKey = 0x51 :: 0x20 :: prog) (hpl : prog.length = 32)
    (hw : inp.witness.getLast? = some wlast)
    (hstack : stack = if hasAnnexS inp.witness wlast then inp.witness.dropLast else inp.witness)
    (hctl : stack.getLast? = some control) (hleaf : stack.dropLast.getLast? = some leafScript)
    (htap : C05.Agree tc p.tap) (hsha : ∀ b, h.sha256 b = cr.sha256 b) (hready : TxReady txdata spentList)
    (hW : hasFlag flags Flag.WITNESS = true) (hT : hasFlag flags Flag.TAPROOT = true) (hnz : Spec.toBool prog = true)
    (hlv : (control.headD 0).toNat - (control.headD 0).toNat % 2 = 0xc0)
    (hns : Spec.hasOpSuccess false leafScript = false) (hdef : NoUndefinedOpcode leafScript) :
    Agrees h tc (txCheckerWith cr base tx idx amount txdata) flags tx txin idx vout sv0 continueFuel
      (Spec.verifyScript (Spec.spendCtx p tx idx amount spentList) flags inp.scriptSig spent.scriptPubKey inp.witness) := by
  refine agreesC_transfer ?_ (C03_tapscript h tc _ (Spec.spendCtx p tx idx amount spentList) flags tx txin idx vout sv0 inp spent
    prog wlast control leafScript stack hinp hspent hsig hspk hpl hw hstack hctl hleaf htap
    (checkerAgrees_oracle _ flags .TAPSCRIPT _ _) hW hT hnz hlv hns hdef)
  intro c hc e0 hs n
  have hstackM : stack = if hasAnnexM inp.witness wlast then inp.witness.dropLast else inp.witness := by
    rw [annex_eq]; exact hstack
  rw [configure_tapscript h tc tx txin idx vout sv0 inp spent prog wlast control leafScript stack hinp hspent hsig hspk hpl hw
    hstackM hctl hleaf] at hc
  split at hc
  · cases hc
  · split at hc
    · cases hc
    · split at hc
      · cases hc
      · split at hc
        · cases hc
        · split at hc
          · cases hc
          · rename_i hvo
            cases hc
            obtain ⟨he0, _⟩ := setup_ok hs
            subst he0
            have hleafEq : (Tce.init tc control prog leafScript).leaf = Spec.tapLeafHash p.tap 0xc0 leafScript := by
              simp only [Tce.init, Spec.tapLeafHash, htap.1, Btcdeb.Proofs.Tce.leafVersion_eq,
                Btcdeb.Proofs.Tce.compactSize_eq_varint, hlv]
            refine witness_session_congr _ _ tc .TAPSCRIPT (Or.inr rfl) _ _ flags _ _ ?_ (by simpa using hvo)
              (fun t ht => by cases ht; exact ⟨rfl, rfl⟩) n
            refine sameOn_spend cr base p hp tx idx amount txdata spentList .TAPSCRIPT _ _ _ (idx_lt hinp) hcoh
              (fun _ => ⟨hready.spentEq.symm, hready.ready341, hready.readySpent, _, rfl, ?_⟩)
            exact schnorrPre_configured cr h tx hsha idx inp.witness wlast _ _ .TAPSCRIPT rfl rfl rfl
              ⟨rfl, rfl, hleafEq, rfl, rfl⟩ rfl

include hp hinp hspent hcoh in
/-- **(e) taproot key path, transaction checker.**  The session is `<program> OP_CHECKSIG` under `SigVersion::TAPROOT`; its one
    question to the checker is answered as BIP341 prescribes when the BIP341 data are ready. -/
theorem C03_keypath_tx (prog wlast sg : Bytes)
    (hsig : inp.scriptSig = []) (hspk : spent.scriptPubKey = 0x51 :: 0x20 :: prog) (hpl : prog.length = 32)
    (hw : inp.witness.getLast? = some wlast)
    (hstack : (if hasAnnexS inp.witness wlast then inp.witness.dropLast else inp.witness) = [sg])
    (hsha : ∀ b, h.sha256 b = cr.sha256 b) (hready : TxReady txdata spentList)
    (hW : hasFlag flags Flag.WITNESS = true) (hT : hasFlag flags Flag.TAPROOT = true) (hnz : Spec.toBool prog = true) :
    Agrees h tc (txCheckerWith cr base tx idx amount txdata) flags tx txin idx vout sv0 continueFuel
      (Spec.verifyScript (Spec.spendCtx p tx idx amount spentList) flags inp.scriptSig spent.scriptPubKey inp.witness) := by
  refine agreesC_transfer ?_ (C03_keypath h tc _ (Spec.spendCtx p tx idx amount spentList) flags tx txin idx vout sv0 inp spent
    prog wlast sg hinp hspent hsig hspk hpl hw hstack (checkerAgrees_oracle _ flags .TAPROOT _ none) hW hT hnz)
  intro c hc e0 hs n
  have hstackM : (if hasAnnexM inp.witness wlast then inp.witness.dropLast else inp.witness) = [sg] := by
    rw [annex_eq]; exact hstack
  rw [configure_keypath h tc tx txin idx vout sv0 inp spent prog wlast sg hinp hspent hsig hspk hpl hw hstackM] at hc
  cases hc
  obtain ⟨he0, _⟩ := setup_ok hs
  subst he0
  have hg : getOp (0x20 :: (prog ++ [0xac])) = some ⟨0x20, prog, [0xac]⟩ :=
    getOp_push_direct 0x20 prog [0xac] (by decide) (by rw [hpl]; rfl)
  refine keypath_congr _ _ tc prog _ rfl hg _ ?_ _ ⟨rfl, ?_, rfl, rfl, rfl, rfl, rfl⟩ n
  · intro sig
    rw [← hready.spentEq]
    exact keypath_query cr base p hp tx idx amount txdata _ _ (idx_lt hinp) hcoh hready.ready341 hready.readySpent
      (schnorrPre_configured cr h tx hsha idx inp.witness wlast _ none .TAPROOT rfl rfl rfl rfl rfl) prog hpl sig
  · simp [setupEnv]

omit hp hinp hspent hcoh in
theorem parses_p2sh (hh : Bytes) (hl : hh.length = 20) : Parses (0xa9 :: 0x14 :: (hh ++ [0x87])) := by
  refine Parses.step (t := 1) (by simp [instrLen]) ?_
  have h1 : instrLen (0x14 :: (hh ++ [0x87])) = some 21 := by
    have := instrLen_pushOf hh [0x87] (by omega)
    have hpo : Spec.pushOf hh = 0x14 :: hh := by
      simp [Spec.pushOf, hl]
    rw [hpo] at this
    simpa [hl] using this
  refine Parses.step (t := 21) h1 ?_
  have : List.drop 20 (hh ++ [0x87]) = [0x87] := by
    rw [← hl, List.drop_left]
  simp only [List.drop_succ_cons, List.drop_zero]
  rw [this]
  exact Parses.step (t := 1) (by simp [instrLen]) Parses.nil

omit hp hinp hspent hcoh in
/-- a legacy session whose scriptPubKey is not a sequence of complete instructions is invalid whatever its checker says:
    the scriptSig phase fails, or the hand-over fails, or the scriptPubKey phase ends in an error (at the latest
    `BAD_OPCODE` where no instruction decodes) -/
theorem legacy_undecodable_invalid (c : Ctx) (sig spk : Bytes) (hnp : ¬ Parses spk) (n : Nat)
    (hn : sig.length + spk.length + 3 ≤ n) :
    sessionValid flags .BASE (continueScript c tc n (setupEnv [] sig flags .BASE spk {} none)) = false := by
  generalize he0 : setupEnv [] sig flags .BASE spk {} none = e0
  have hspk : spk ≠ [] := by intro h0; rw [h0] at hnp; exact hnp Parses.nil
  have ht0 : e0.tce = none := by rw [← he0]; rfl
  have hpc0 : e0.pc = sig := by rw [← he0]; rfl
  have hsucc0 : e0.successor = spk := by rw [← he0]; rfl
  have hps0 : e0.p2shStack = [] := by rw [← he0]; simp [setupEnv]
  have hd0 : e0.done = false := by
    rw [← he0]
    have : spk.isEmpty = false := by cases spk <;> simp_all
    simp [setupEnv, this]
  suffices hE : ∃ N x, N ≤ sig.length + spk.length + 3 ∧ Ends c tc e0 N (.error x) by
    obtain ⟨N, x, hN, hE⟩ := hE
    exact invalid_of_ends_error flags .BASE hE n (by omega)
  cases hph : phaseResult c tc e0 with
  | error x => exact ⟨_, x, by rw [hpc0]; omega, phase_err ht0 hd0 hph⟩
  | ok e1 =>
    obtain ⟨hout, _, hpc1, hce, hEnds⟩ := phase_ok ht0 hd0 hph
    simp only [outer, Prod.mk.injEq] at hout
    obtain ⟨hd1, hisp1, hps1, hsucc1, _, _, ht1, _⟩ := hout
    rw [hd0] at hd1; rw [ht0] at ht1; rw [hsucc0] at hsucc1; rw [hps0] at hps1
    rw [hpc0] at hEnds
    have fromErr : ∀ x, stepSession c tc e1 = .error x → ∃ N x, N ≤ sig.length + spk.length + 3 ∧ Ends c tc e0 N (.error x) := by
      intro x hs
      exact ⟨_, x, by omega, hEnds _ _ (ends_step_err c tc e1 x hd1 hs)⟩
    by_cases hisp : e1.isP2sh = true
    · have hs := end_p2sh c tc e1 ht1 hpc1 hce hisp
      rw [hps1] at hs
      have : ∃ x, stepSession c tc e1 = .error x := by
        rw [hs]
        repeat' split
        all_goals first | exact ⟨_, rfl⟩ | (rename_i heq; simp at heq)
      obtain ⟨x, hx⟩ := this
      exact fromErr x hx
    · have hisp' : e1.isP2sh = false := by simpa using hisp
      by_cases hsz : e1.successor.length > Gen.MAX_SCRIPT_SIZE
      · exact fromErr _ (end_succ_size c tc e1 ht1 hpc1 hce hisp' hsz)
      · have hs := end_succ c tc e1 ht1 hpc1 hce hisp' (by rw [hsucc1]; exact hspk) (by omega)
        obtain ⟨e2, hs, ht2, hd2, hpc2⟩ : ∃ e2, stepSession c tc e1 = .ok e2 ∧ e2.tce = none ∧ e2.done = false ∧ e2.pc = spk :=
          ⟨_, hs, ht1, hd1, hsucc1⟩
        obtain ⟨y, hy⟩ := runOps_unparsed_err c tc spk.length e2 ht2 (by rw [hpc2]; exact hnp) (by rw [hpc2]; exact Nat.le_refl _)
        have h2 := ends_ops_err ht2 hd2 hy
        rw [hpc2] at h2
        exact ⟨_, y, by omega, hEnds _ _ (ends_step hd1 hs h2)⟩

omit hp hinp hspent hcoh in
theorem agreesC_of_invalid {cx cx' : Ctx} {conf : Option Configured} {N : IEnv → Nat} {spec : Spec.R Unit}
    (hinv : ∀ c, conf = some c → ∀ e0,
      setupEnvironment c.stack c.script flags c.sigver c.successor false c.execdata c.tce [] [] = .ok e0 →
      ∀ n, N e0 ≤ n → sessionValid flags c.sigver (continueScript cx tc n e0) = false ∧
        sessionValid flags c.sigver (continueScript cx' tc n e0) = false)
    (hA : AgreesC tc cx' flags conf N spec) : AgreesC tc cx flags conf N spec := by
  unfold AgreesC at hA ⊢
  cases conf with
  | none => exact hA
  | some c =>
    simp only at hA ⊢
    cases hs : setupEnvironment c.stack c.script flags c.sigver c.successor false c.execdata c.tce [] [] with
    | error x => rw [hs] at hA; exact hA
    | ok e0 =>
      rw [hs] at hA
      simp only at hA ⊢
      intro n hn
      obtain ⟨h1, h2⟩ := hinv c rfl e0 hs n hn
      have := hA n hn
      rw [h2] at this
      rw [h1]; exact this

include hp hinp hspent hcoh in
/-- (a) legacy, transaction checker, for a scriptPubKey that decodes: the two sessions are equal -/
theorem C03_legacy_tx_dec
    (hw : inp.witness = []) (hspk : spent.scriptPubKey ≠ [])
    (hnw : Spec.witnessProgram spent.scriptPubKey = none ∨ hasFlag flags Flag.WITNESS = false)
    (hnp : (hasFlag flags Flag.P2SH && Spec.isP2SH spent.scriptPubKey) = false)
    (hdef : NoUndefinedOpcode inp.scriptSig) (hdec : Spec.decode spent.scriptPubKey ≠ none) :
    Agrees h tc (txCheckerWith cr base tx idx amount txdata) flags tx txin idx vout sv0 sessionFuel
      (Spec.verifyScript (Spec.spendCtx p tx idx amount spentList) flags inp.scriptSig spent.scriptPubKey inp.witness) := by
  refine agreesC_transfer ?_ (legacy_agrees h tc _ (Spec.spendCtx p tx idx amount spentList) flags tx txin idx vout sv0 inp spent
    hinp hspent hw (checkerAgrees_oracle _ flags .BASE none none) hspk hnw hnp hdef)
  intro c hc e0 hs n
  rw [configure_legacy h tc tx txin idx vout sv0 inp spent hinp hspent hw] at hc
  split at hc
  · rename_i hvo
    cases hc
    obtain ⟨he0, hsz, _⟩ := setup_ok hs
    subst he0
    have hlen : inp.scriptSig.length < 2 ^ 32 := by
      have h10k : Gen.MAX_SCRIPT_SIZE = 10000 := by decide
      have : (SigVersion.BASE != SigVersion.TAPSCRIPT) = true := by decide
      simp only [this, Bool.true_and, decide_eq_false_iff_not, h10k] at hsz
      omega
    refine session_congr_nop2sh _ _ tc .BASE (edStatic ({} : ExecData))
      (sameOn_spend cr base p hp tx idx amount txdata spentList .BASE none none {} (idx_lt hinp) hcoh (fun hh => by cases hh)) n _ ?_ ?_
    · exact sessInv_setup [] _ flags .BASE _ {} none (by decide) (parses_of_hasValidOps _ hvo) (parses_of_decode hdec)
        (fun _ => hlen) (fun t ht => by cases ht) (fun _ r hr => by cases hr)
    · show p2shPattern flags spent.scriptPubKey = false
      rw [p2shPattern_eq]; exact hnp
  · cases hc

/-- the redeem script a P2SH session hands over to decodes: at the hand-over to the P2SH-pattern scriptPubKey after a
    push-only scriptSig, the top stack element — the redeem script — decodes.  Stated on the states visited by the
    session whose checker is the oracle (which, up to that point, are those of the real session). -/
def RedeemDecodes (cx' : Ctx) (tc : TapCtx) (e0 : IEnv) : Prop :=
  ∀ e, Reach cx' tc e0 e → e.tce = none → e.pc = [] → e.successor ≠ [] → e.see.cond.empty = true →
    p2shPattern e.see.flags e.successor = true → isPushOnly e.see.script = true →
    ∀ r, e.see.stack.getLast? = some r → Spec.decode r ≠ none ∧ r.length < 2 ^ 32

include hp hinp hspent hcoh in
/-- **(a) legacy, transaction checker.**  No hypothesis beyond those of C03: if the scriptPubKey decodes the session
    equals the oracle's session (`C03_legacy_tx_dec`); if it does not, both sessions are invalid
    (`legacy_undecodable_invalid`) and validation rejects. -/
theorem C03_legacy_tx
    (hw : inp.witness = []) (hspk : spent.scriptPubKey ≠ [])
    (hnw : Spec.witnessProgram spent.scriptPubKey = none ∨ hasFlag flags Flag.WITNESS = false)
    (hnp : (hasFlag flags Flag.P2SH && Spec.isP2SH spent.scriptPubKey) = false)
    (hdef : NoUndefinedOpcode inp.scriptSig) :
    Agrees h tc (txCheckerWith cr base tx idx amount txdata) flags tx txin idx vout sv0 sessionFuel
      (Spec.verifyScript (Spec.spendCtx p tx idx amount spentList) flags inp.scriptSig spent.scriptPubKey inp.witness) := by
  by_cases hpar : Parses spent.scriptPubKey
  · exact C03_legacy_tx_dec cr base p hp h tc flags tx txin idx vout sv0 amount txdata spentList inp spent hinp hspent hcoh
      hw hspk hnw hnp hdef (decode_of_parses hpar)
  · refine agreesC_of_invalid tc flags ?_ (legacy_agrees h tc _ (Spec.spendCtx p tx idx amount spentList) flags tx txin idx vout sv0 inp spent
      hinp hspent hw (checkerAgrees_oracle _ flags .BASE none none) hspk hnw hnp hdef)
    intro c hc e0 hs n hn
    rw [configure_legacy h tc tx txin idx vout sv0 inp spent hinp hspent hw] at hc
    split at hc
    · cases hc
      obtain ⟨he0, _⟩ := setup_ok hs
      subst he0
      have hn' : inp.scriptSig.length + spent.scriptPubKey.length + 3 ≤ n := by
        simp only [sessionFuel, continueFuel, setupEnv] at hn
        simp at hn
        omega
      exact ⟨legacy_undecodable_invalid tc flags _ _ _ hpar n hn', legacy_undecodable_invalid tc flags _ _ _ hpar n hn'⟩
    · cases hc

omit hp hinp hspent hcoh in
/-- `RedeemDecodes` from the specification's side: it suffices that the element the scriptSig leaves on top of the stack
    under the specification's evaluation — the redeem script — decodes.  (The hand-over state of the oracle's session is
    the end of its scriptSig phase, which the phase lemma of C01 relates to `Spec.evalScript`.) -/
theorem redeemDecodes_of_spec (sc : Spec.SpendCtx) (sig spk : Bytes) (hlen : sig.length ≤ Spec.maxScriptSize)
    (hspec : ∀ s1 redeem rest, Spec.runScript sc flags .BASE none none sig {} = .ok s1 → s1.stack = redeem :: rest →
      Spec.decode redeem ≠ none ∧ redeem.length < 2 ^ 32) :
    RedeemDecodes (oracleCtx (sc.oracleFor .BASE none none)) tc (setupEnv [] sig flags .BASE spk {} none) := by
  intro e hreach ht hpc hsucc hce hp2 hpo r hr
  generalize he0 : setupEnv [] sig flags .BASE spk {} none = e0 at hreach
  have ht0 : e0.tce = none := by rw [← he0]; rfl
  have hps0 : e0.p2shStack = [] := by rw [← he0]; simp [setupEnv]
  have hpc0 : e0.pc = sig := by rw [← he0]; rfl
  have hpath := reach_opsPath hreach ht0 hps0 hsucc
  have hrun := hpath.runOps hpc e0.pc.length (Nat.le_refl _)
  have hph : phaseResult (oracleCtx (sc.oracleFor .BASE none none)) tc e0 = .ok e := by
    unfold phaseResult
    rw [hrun]
    simp [hce]
  have hbase := phase_base (oracleCtx (sc.oracleFor .BASE none none)) tc (specCfg sc flags .BASE none none) e0 []
    (Or.inl rfl) ht0 (checkerAgrees_oracle sc flags .BASE none none e0.see (by rw [← he0]; rfl))
    (by rw [← he0]; rfl) (by rw [← he0]; rfl) (by rw [← he0]; rfl) (by rw [← he0]; rfl) (by rw [← he0]; rfl)
    (by rw [hpc0]; exact hlen)
  rw [hph, hpc0] at hbase
  cases hres : (Spec.evalScript (specCfg sc flags .BASE none none) sig { stack := [] }).result with
  | error y => rw [hres] at hbase; exact hbase.elim
  | ok s1 =>
    rw [hres] at hbase
    obtain ⟨hst, _⟩ := hbase
    rw [hst] at hr
    cases hs1 : s1.stack with
    | nil => rw [hs1] at hr; simp at hr
    | cons top rest =>
      rw [hs1] at hr
      simp at hr
      subst hr
      exact hspec s1 top rest hres hs1

include hp hinp hspent hcoh in
/-- **(b) P2SH, transaction checker.**  Additional hypothesis: the redeem script decodes (`RedeemDecodes`). -/
theorem C03_p2sh_tx
    (hw : inp.witness = [])
    (hP : hasFlag flags Flag.P2SH = true) (hpat : Spec.isP2SH spent.scriptPubKey = true)
    (hnw : hasFlag flags Flag.WITNESS = false ∨
      ∀ s1 redeem rest, Spec.runScript (Spec.spendCtx p tx idx amount spentList) flags .BASE none none inp.scriptSig {} = .ok s1 →
        s1.stack = redeem :: rest → Spec.witnessProgram redeem = none)
    (hdef : NoUndefinedOpcode inp.scriptSig)
    (hred : ∀ e0, setupEnvironment [] inp.scriptSig flags .BASE spent.scriptPubKey false {} none [] [] = .ok e0 →
      RedeemDecodes (oracleCtx ((Spec.spendCtx p tx idx amount spentList).oracleFor .BASE none none)) tc e0) :
    Agrees h tc (txCheckerWith cr base tx idx amount txdata) flags tx txin idx vout sv0 sessionFuel
      (Spec.verifyScript (Spec.spendCtx p tx idx amount spentList) flags inp.scriptSig spent.scriptPubKey inp.witness) := by
  refine agreesC_transfer ?_ (p2sh_agrees h tc _ (Spec.spendCtx p tx idx amount spentList) flags tx txin idx vout sv0 inp spent
    hinp hspent hw (checkerAgrees_oracle _ flags .BASE none none) hP hpat hnw hdef)
  intro c hc e0 hs n
  rw [configure_legacy h tc tx txin idx vout sv0 inp spent hinp hspent hw] at hc
  split at hc
  · rename_i hvo
    cases hc
    have hr := hred e0 hs
    obtain ⟨he0, hsz, _⟩ := setup_ok hs
    subst he0
    have hlen : inp.scriptSig.length < 2 ^ 32 := by
      have h10k : Gen.MAX_SCRIPT_SIZE = 10000 := by decide
      have : (SigVersion.BASE != SigVersion.TAPSCRIPT) = true := by decide
      simp only [this, Bool.true_and, decide_eq_false_iff_not, h10k] at hsz
      omega
    obtain ⟨hh, hform, hhl⟩ := isP2SH_form _ hpat
    refine session_congr_reach _ _ tc .BASE (edStatic ({} : ExecData))
      (sameOn_spend cr base p hp tx idx amount txdata spentList .BASE none none {} (idx_lt hinp) hcoh (fun hh => by cases hh)) _ ?_ ?_ n
    · exact sessInv_setup [] _ flags .BASE _ {} none (by decide) (parses_of_hasValidOps _ hvo) (by rw [hform]; exact parses_p2sh hh hhl)
        (fun _ => hlen) (fun t ht => by cases ht) (fun _ r hr => by cases hr)
    · intro e he h1 h2 h3 h4 h5 h6 r hr'
      obtain ⟨a, b⟩ := hr e he h1 h2 h3 h4 h5 h6 r hr'
      exact ⟨parses_of_decode a, b⟩
  · cases hc

include hp hinp hspent hcoh in
/-- **(b) P2SH, transaction checker**, with the condition on the redeem script stated on the specification's side: the
    element that the scriptSig leaves on top of the stack (the redeem script) decodes -/
theorem C03_p2sh_tx_spec
    (hw : inp.witness = [])
    (hP : hasFlag flags Flag.P2SH = true) (hpat : Spec.isP2SH spent.scriptPubKey = true)
    (hnw : hasFlag flags Flag.WITNESS = false ∨
      ∀ s1 redeem rest, Spec.runScript (Spec.spendCtx p tx idx amount spentList) flags .BASE none none inp.scriptSig {} = .ok s1 →
        s1.stack = redeem :: rest → Spec.witnessProgram redeem = none)
    (hdef : NoUndefinedOpcode inp.scriptSig)
    (hredeem : ∀ s1 redeem rest,
      Spec.runScript (Spec.spendCtx p tx idx amount spentList) flags .BASE none none inp.scriptSig {} = .ok s1 →
        s1.stack = redeem :: rest → Spec.decode redeem ≠ none ∧ redeem.length < 2 ^ 32) :
    Agrees h tc (txCheckerWith cr base tx idx amount txdata) flags tx txin idx vout sv0 sessionFuel
      (Spec.verifyScript (Spec.spendCtx p tx idx amount spentList) flags inp.scriptSig spent.scriptPubKey inp.witness) := by
  refine C03_p2sh_tx cr base p hp h tc flags tx txin idx vout sv0 amount txdata spentList inp spent hinp hspent hcoh
    hw hP hpat hnw hdef ?_
  intro e0 hs
  obtain ⟨he0, hsz, _⟩ := setup_ok hs
  subst he0
  have hlen : inp.scriptSig.length ≤ Spec.maxScriptSize := by
    have h10k : Gen.MAX_SCRIPT_SIZE = 10000 := by decide
    have h10k' : Spec.maxScriptSize = 10000 := by decide
    have : (SigVersion.BASE != SigVersion.TAPSCRIPT) = true := by decide
    simp only [this, Bool.true_and, decide_eq_false_iff_not, h10k] at hsz
    omega
  exact redeemDecodes_of_spec tc flags _ _ _ hlen hredeem

include hp hinp hspent hcoh in
/-- **C03, verdict, for the transaction checker.**  `C03_verdict` without the hypothesis `CheckerAgrees`: for every spend of
    one of the output types of the property (`Shape`, all exclusions of C03 unchanged), the session whose checker is the
    model of `TransactionSignatureChecker(tx, idx, amount, txdata, FAIL)` is refused only if validation
    (`Spec.verifyScript` with the BIP oracle `Spec.spendCtx p tx idx amount spentList`) rejects the input, and otherwise is
    valid exactly when validation accepts.
    Needed of the checker: `Coherent` data; for taproot outputs `TxReady`.  Still conditional (`hredeem`): for P2SH, the
    redeem script — what the scriptSig leaves on top of the stack — decodes (and is below 2^32 bytes). -/
theorem C03_verdict_tx
    (hshape : Shape (Spec.spendCtx p tx idx amount spentList) flags inp.scriptSig spent.scriptPubKey inp.witness)
    (hP : hasFlag flags Flag.P2SH = true) (hW : hasFlag flags Flag.WITNESS = true) (hT : hasFlag flags Flag.TAPROOT = true)
    (hsha : ∀ b, h.sha256 b = p.sha256 b) (hh160 : ∀ b, h.hash160 b = p.ripemd160 (p.sha256 b))
    (htap : C05.Agree tc p.tap)
    (hredeem : inp.witness = [] → Spec.isP2SH spent.scriptPubKey = true → ∀ s1 redeem rest,
      Spec.runScript (Spec.spendCtx p tx idx amount spentList) flags .BASE none none inp.scriptSig {} = .ok s1 →
        s1.stack = redeem :: rest → Spec.decode redeem ≠ none ∧ redeem.length < 2 ^ 32)
    (hready : (∃ prog, spent.scriptPubKey = 0x51 :: 0x20 :: prog ∧ prog.length = 32) → inp.witness ≠ [] → TxReady txdata spentList) :
    Agrees h tc (txCheckerWith cr base tx idx amount txdata) flags tx txin idx vout sv0 sessionFuel
      (Spec.verifyScript (Spec.spendCtx p tx idx amount spentList) flags inp.scriptSig spent.scriptPubKey inp.witness) := by
  have hmono : ∀ e, continueFuel e ≤ sessionFuel e := fun e => by unfold sessionFuel; omega
  have hsha' : ∀ b, h.sha256 b = cr.sha256 b := fun b => by rw [hsha, hp.sha256]
  cases hshape with
  | legacy a1 a2 a4 a5 a6 =>
    exact C03_legacy_tx cr base p hp h tc flags tx txin idx vout sv0 amount txdata spentList inp spent hinp hspent hcoh
      a1 a2 (Or.inl a4) a5 a6
  | p2sh a1 a2 a3 a4 =>
    exact C03_p2sh_tx_spec cr base p hp h tc flags tx txin idx vout sv0 amount txdata spentList inp spent hinp hspent hcoh
      a1 hP a2 (Or.inr a3) a4 (hredeem a1 a2)
  | witness_not_p2sh a1 a2 a3 =>
    exact C03_witness_not_p2sh h tc _ _ flags tx txin idx vout sv0 inp spent sessionFuel hinp hspent a1 a2 a3 hW
  | p2wpkh prog wlast a1 a2 a3 a4 a5 =>
    exact agreesC_mono hmono (C03_p2wpkh_tx cr base p hp h tc flags tx txin idx vout sv0 amount txdata spentList inp spent
      hinp hspent hcoh prog wlast a1 a2 a3 a4 hh160 hW a5)
  | p2wsh prog wlast a1 a2 a3 a4 a5 a6 =>
    exact agreesC_mono hmono (C03_p2wsh_tx cr base p hp h tc flags tx txin idx vout sv0 amount txdata spentList inp spent
      hinp hspent hcoh prog wlast a1 a2 a3 a4 hsha hW a5 a6)
  | p2sh_p2wpkh prog hh wlast a1 a2 a3 a4 a5 a6 =>
    exact agreesC_mono hmono (C03_p2sh_p2wpkh_tx cr base p hp h tc flags tx txin idx vout sv0 amount txdata spentList inp spent
      hinp hspent hcoh prog hh wlast a1 a2 a3 a4 a5 hh160 hP hW a6)
  | p2sh_p2wsh prog hh wlast a1 a2 a3 a4 a5 a6 a7 =>
    exact agreesC_mono hmono (C03_p2sh_p2wsh_tx cr base p hp h tc flags tx txin idx vout sv0 amount txdata spentList inp spent
      hinp hspent hcoh prog hh wlast a1 a2 a3 a4 a5 hsha hh160 hP hW a6 a7)
  | keypath prog wlast sg a1 a2 a3 a4 a5 a6 =>
    exact agreesC_mono hmono (C03_keypath_tx cr base p hp h tc flags tx txin idx vout sv0 amount txdata spentList inp spent
      hinp hspent hcoh prog wlast sg a1 a2 a3 a4 a5 hsha' (hready ⟨prog, a2, a3⟩ (by intro hn; rw [hn] at a4; cases a4)) hW hT a6)
  | tapscript prog wlast control leafScript stack a1 a2 a3 a4 a5 a6 a7 a8 a9 a10 a11 =>
    exact agreesC_mono hmono (C03_tapscript_tx cr base p hp h tc flags tx txin idx vout sv0 amount txdata spentList inp spent
      hinp hspent hcoh prog wlast control leafScript stack a1 a2 a3 a4 a5 a6 a7 htap hsha' (hready ⟨prog, a2, a3⟩ (by intro hn; rw [hn] at a4; cases a4)) hW hT a8 a9 a10 a11)

end Tx

/-! ### 6. the checker `Instance::setup_environment` installs -/

/-- for a single-input transaction, the checker that `Glue.checkerBuilder` builds from `init = some ([spent output], force)`
    (what `spendSetup` passes for one input) is the transaction checker with coherent data, and the data are READY and hold
    that spent output when `force` is set or the input carries a witness and spends a taproot-looking output -/
theorem checkerBuilder_single (tx : Tx) (i : TxIn) (o : TxOut) (nIn : Nat) (amount : Int) (force : Bool) (hv : tx.vin = [i]) :
    ∃ d, Glue.checkerBuilder.build tx nIn amount (some ([o], force)) = txCheckerWith stdCrypto stdBaseCtx tx nIn amount d
      ∧ Coherent stdCrypto tx d ∧ ((force = true ∨ (i.witness ≠ [] ∧ looksTaproot o = true)) → TxReady d [o]) := by
  obtain ⟨d, hd⟩ := (precomputeInit_ok stdCrypto tx [o] force).mpr (Or.inr (by simp [hv]))
  refine ⟨d, ?_, precomputeInit_coherent stdCrypto tx [o] force d hd, ?_⟩
  · simp only [Glue.checkerBuilder, hd]; rfl
  · intro hr
    obtain ⟨d', hd', h1, h2, h3, _⟩ := precomputeInit_single_input_ready stdCrypto tx i o force hv hr
    rw [hd] at hd'
    cases hd'
    exact ⟨h1, h2, h3⟩

theorem looksTaproot_p2tr (o : TxOut) (prog : Bytes) (h : o.scriptPubKey = 0x51 :: 0x20 :: prog) (hl : prog.length = 32) :
    looksTaproot o = true := by
  simp [looksTaproot, h, hl, byteAt, Gen.WITNESS_V1_TAPROOT_SIZE, Op.OP_1]

/-- **C03, verdict, for the checker of a real session** (`btcdeb --tx=.. --txin=..`).  `spendSetup` builds the checker with
    `init = if tx.vin.length == 1 then some ([spent output], hasPreamble) else none` and the spent amount.
    For every output type but taproot nothing more is needed; taproot outputs need the transaction to have ONE input
    (`hone`; otherwise `Instance::txdata` is never initialised: F-C03-multi-input-taproot).
    The specification is given the spent output as the list of spent outputs. -/
theorem C03_verdict_session (h : HashCtx) (tc : TapCtx) (flags : Nat) (tx txin : Tx) (idx vout : Nat) (sv0 : SigVersion)
    (inp : TxIn) (spent : TxOut) (force : Bool)
    (hinp : tx.vin[idx]? = some inp) (hspent : txin.vout[vout]? = some spent)
    (hshape : Shape (Spec.spendCtx stdPrims tx idx spent.value [spent]) flags inp.scriptSig spent.scriptPubKey inp.witness)
    (hP : hasFlag flags Flag.P2SH = true) (hW : hasFlag flags Flag.WITNESS = true) (hT : hasFlag flags Flag.TAPROOT = true)
    (hsha : ∀ b, h.sha256 b = Crypto.sha256 b) (hh160 : ∀ b, h.hash160 b = Crypto.ripemd160 (Crypto.sha256 b))
    (htap : C05.Agree tc Glue.tapOracle)
    (hredeem : inp.witness = [] → Spec.isP2SH spent.scriptPubKey = true → ∀ s1 redeem rest,
      Spec.runScript (Spec.spendCtx stdPrims tx idx spent.value [spent]) flags .BASE none none inp.scriptSig {} = .ok s1 →
        s1.stack = redeem :: rest → Spec.decode redeem ≠ none ∧ redeem.length < 2 ^ 32)
    (hone : (∃ prog, spent.scriptPubKey = 0x51 :: 0x20 :: prog) → tx.vin.length = 1) :
    Agrees h tc (Glue.checkerBuilder.build tx idx spent.value (if tx.vin.length == 1 then some ([spent], force) else none))
      flags tx txin idx vout sv0 sessionFuel
      (Spec.verifyScript (Spec.spendCtx stdPrims tx idx spent.value [spent]) flags inp.scriptSig spent.scriptPubKey inp.witness) := by
  by_cases h1 : tx.vin.length = 1
  · -- one input: `Init` was called with the spent output
    have hb : (tx.vin.length == 1) = true := by simp [h1]
    rw [hb, if_pos rfl]
    obtain ⟨i, hv⟩ : ∃ i, tx.vin = [i] := by
      match hvin : tx.vin, h1 with
      | [i], _ => exact ⟨i, rfl⟩
    have hidx : idx = 0 := by have := idx_lt hinp; omega
    have hi : i = inp := by
      rw [hv, hidx] at hinp; simpa using hinp
    obtain ⟨d, hd, hcoh, hready⟩ := checkerBuilder_single tx i spent idx spent.value force hv
    rw [hd]
    refine C03_verdict_tx stdCrypto stdBaseCtx stdPrims stdPrims_match h tc flags tx txin idx vout sv0 spent.value d [spent] inp spent
      hinp hspent hcoh hshape hP hW hT hsha hh160 htap hredeem ?_
    rintro ⟨prog, hprog, hpl⟩ hwne
    exact hready (Or.inr ⟨by rw [hi]; exact hwne, looksTaproot_p2tr spent prog hprog hpl⟩)
  · -- several inputs: `Instance::txdata` stays `PrecomputedTransactionData()`
    have hb : (tx.vin.length == 1) = false := by simp [h1]
    rw [hb]
    simp only [Bool.false_eq_true, if_false]
    have hd : Glue.checkerBuilder.build tx idx spent.value none = txCheckerWith stdCrypto stdBaseCtx tx idx spent.value {} := rfl
    rw [hd]
    refine C03_verdict_tx stdCrypto stdBaseCtx stdPrims stdPrims_match h tc flags tx txin idx vout sv0 spent.value {} [spent] inp spent
      hinp hspent (coherent_default _ _) hshape hP hW hT hsha hh160 htap hredeem ?_
    rintro ⟨prog, hprog, _⟩ _
    exact absurd (hone ⟨prog, hprog⟩) h1

/-! ### 7. the hypotheses are satisfiable -/

section ExamplesTx

/-- a crypto instance / base checker sharing the toy hash of C03's examples; signatures never verify -/
def toyCr : SigCrypto := { sha256 := toyHash 32, ecdsaVerify := fun _ _ _ => false, schnorrVerify := fun _ _ _ => false }
def toyPrims : Spec.Prims := primsOf toyCr toyCx { taggedHash := fun _ m => m, tweakCheck := fun _ _ _ _ => false }
theorem toyPrims_match : PrimsMatch toyPrims toyCr toyCx := primsMatch_primsOf _ _ _ rfl

/-- (c) for the transaction checker: the P2WSH spend of C03's example (witness script `<07> OP_EQUAL`, witness `[07, script]`),
    checker `TransactionSignatureChecker(tx, 0, 1000, PrecomputedTransactionData())` -/
example : Agrees toyH toyTc
    (txCheckerWith toyCr toyCx (spendTx (fundTx (0x00 :: 0x20 :: toyHash 32 [0x01, 0x07, 0x87])) [] [[0x07], [0x01, 0x07, 0x87]]) 0 1000 {})
    2048
    (spendTx (fundTx (0x00 :: 0x20 :: toyHash 32 [0x01, 0x07, 0x87])) [] [[0x07], [0x01, 0x07, 0x87]])
    (fundTx (0x00 :: 0x20 :: toyHash 32 [0x01, 0x07, 0x87])) 0 0 .WITNESS_V0 continueFuel
    (Spec.verifyScript (Spec.spendCtx toyPrims
        (spendTx (fundTx (0x00 :: 0x20 :: toyHash 32 [0x01, 0x07, 0x87])) [] [[0x07], [0x01, 0x07, 0x87]]) 0 1000 [])
      2048 [] (0x00 :: 0x20 :: toyHash 32 [0x01, 0x07, 0x87]) [[0x07], [0x01, 0x07, 0x87]]) :=
  C03_p2wsh_tx toyCr toyCx toyPrims toyPrims_match toyH toyTc 2048 _ _ 0 0 .WITNESS_V0 1000 {} []
    (spendIn (fundTx (0x00 :: 0x20 :: toyHash 32 [0x01, 0x07, 0x87])) [] [[0x07], [0x01, 0x07, 0x87]])
    { value := 1000, scriptPubKey := 0x00 :: 0x20 :: toyHash 32 [0x01, 0x07, 0x87] }
    rfl rfl (coherent_default _ _)
    (toyHash 32 [0x01, 0x07, 0x87]) [0x01, 0x07, 0x87]
    rfl rfl (by decide) rfl (fun _ => rfl) (by decide) (by decide)
    (by unfold NoUndefinedOpcode; decide)

/-- `TxReady` is what `Init` establishes for a one-input taproot spend (here through `Glue.checkerBuilder`) -/
example : ∃ d, Glue.checkerBuilder.build
      (spendTx (fundTx (0x51 :: 0x20 :: List.replicate 32 9)) [] [[0x07]]) 0 1000
      (some ([{ value := 1000, scriptPubKey := 0x51 :: 0x20 :: List.replicate 32 9 }], true)) =
      txCheckerWith stdCrypto stdBaseCtx (spendTx (fundTx (0x51 :: 0x20 :: List.replicate 32 9)) [] [[0x07]]) 0 1000 d
    ∧ TxReady d [{ value := 1000, scriptPubKey := 0x51 :: 0x20 :: List.replicate 32 9 }] := by
  obtain ⟨d, h1, _, h3⟩ := checkerBuilder_single (spendTx (fundTx (0x51 :: 0x20 :: List.replicate 32 9)) [] [[0x07]])
    (spendIn (fundTx (0x51 :: 0x20 :: List.replicate 32 9)) [] [[0x07]])
    { value := 1000, scriptPubKey := 0x51 :: 0x20 :: List.replicate 32 9 } 0 1000 true rfl
  exact ⟨d, h1, h3 (Or.inl rfl)⟩

end ExamplesTx

end Btcdeb.Proofs.C03
