/-
  C01 — stepping a script follows Bitcoin's script rules at every operation.
  Property theorems only.  `Spec.evalScript` is the specification (Bitcoin's rules for one script on
  an initial stack); the model is the debugger session.  All statements are for every script (any
  length), initial stack, flag set (a natural-number bit mask), signature version and checker.
-/
import Btcdeb
import BtcdebProofs.Refine.Run
import BtcdebProofs.Properties.Tables
namespace Btcdeb.Proofs.C01
open Btcdeb Btcdeb.Model Btcdeb.Refine

/-- the specification state a session starts from -/
def initSt (stack : List Bytes) (script : Bytes) (ed : ExecData) : Spec.St :=
  { stack := stack.reverse, codeFrom := script, codesepPos := ed.codesepPos, weightLeft := ed.weightLeft, weightInit := ed.weightInit }

/-- `HasValidOps`, the gate every script passes before a session exists, is exactly the domain of the
    property: every byte decodes, opcodes are defined, pushes are at most 520 bytes -/
theorem gate_is_domain (s : Bytes) : hasValidOps s = Spec.inDomain Gen.MAX_OPCODE s := by
  have key : ∀ (fuel : Nat) (s : Bytes), s.length ≤ fuel →
      hasValidOps s = ((Spec.decodePrefix fuel s).2 &&
        (Spec.decodePrefix fuel s).1.all (fun p => decide (p.1.opcode ≤ Gen.MAX_OPCODE) && decide (p.1.data.length ≤ Spec.maxElementSize))) := by
    intro fuel
    induction fuel with
    | zero =>
      intro s hs
      have : s = [] := List.length_eq_zero_iff.mp (by omega)
      subst this
      rw [hasValidOps]; simp [getOp, Spec.decodePrefix]
    | succ fuel ih =>
      intro s hs
      cases hs' : s with
      | nil => rw [hasValidOps]; simp [getOp, Spec.decodePrefix]
      | cons b rest =>
        rw [← hs']
        have hgo := getOp_decodeOne s
        rw [hasValidOps]
        have hdp : Spec.decodePrefix (fuel + 1) s =
            match Spec.decodeOne s with
            | none => ([], false)
            | some (i, after) => ((i, after) :: (Spec.decodePrefix fuel after).1, (Spec.decodePrefix fuel after).2) := by
          rw [hs']; simp only [Spec.decodePrefix]
          cases Spec.decodeOne (b :: rest) with
          | none => rfl
          | some p => rfl
        rw [hdp]
        cases hg : getOp s with
        | none =>
          rw [hg] at hgo
          simp only [Option.map_none] at hgo
          rw [← hgo]; simp [hs']
        | some g =>
          rw [hg] at hgo
          simp only [Option.map_some] at hgo
          rw [← hgo]
          have hlt := getOp_rest_lt hg
          have h520 : Gen.MAX_SCRIPT_ELEMENT_SIZE = Spec.maxElementSize := by decide
          simp only [h520, List.all_cons]
          rw [ih g.rest (by omega)]
          by_cases h1 : g.opcode > Gen.MAX_OPCODE
          · have : ¬ g.opcode ≤ Gen.MAX_OPCODE := by omega
            simp [h1, this]
          · by_cases h2 : g.data.length > Spec.maxElementSize
            · have : ¬ g.data.length ≤ Spec.maxElementSize := by omega
              simp [h2, this]
            · have h1' : g.opcode ≤ Gen.MAX_OPCODE := by omega
              have h2' : g.data.length ≤ Spec.maxElementSize := by omega
              simp [h1, h2, h1', h2']
  unfold Spec.inDomain Spec.decode Spec.decodeWithRest
  rw [key s.length s (Nat.le_refl _)]
  cases hd : (Spec.decodePrefix s.length s).2
  · simp only [Bool.false_and, hd, Bool.false_eq_true, if_false, Option.map_none]
  · simp only [Bool.true_and, hd, if_true, Option.map_some, List.all_map]; rfl

/-- a script outside the domain is refused before execution (`Instance::parse_script` returns false) -/
theorem C01_refused (s : Bytes) (h : Spec.inDomain Gen.MAX_OPCODE s = false) : hasValidOps s = false := by
  rw [gate_is_domain]; exact h

/-- legacy and segwit-v0 scripts above 10,000 bytes are refused by the session constructor and by the
    specification alike; tapscript is exempt -/
theorem C01_script_size (stack : List Bytes) (script : Bytes) (flags : Nat) (sv : SigVersion) (succ : Bytes) (z : Bool)
    (ed : ExecData) (tce : Option Tce) (pm : List (Bytes × Bytes)) (pk : List Bytes) :
    (sv ≠ .TAPSCRIPT ∧ script.length > Spec.maxScriptSize) ↔
      setupEnvironment stack script flags sv succ z ed tce pm pk = .error .SCRIPT_SIZE := by
  have h10k : Gen.MAX_SCRIPT_SIZE = Spec.maxScriptSize := by decide
  unfold setupEnvironment IEnv.init
  rw [h10k]
  constructor
  · rintro ⟨h1, h2⟩
    have : (sv != SigVersion.TAPSCRIPT && decide (script.length > Spec.maxScriptSize)) = true := by
      simp [h1, h2]
    simp [this]
  · intro h
    by_cases hc : (sv != SigVersion.TAPSCRIPT && decide (script.length > Spec.maxScriptSize)) = true
    · simp at hc; exact ⟨hc.1, hc.2⟩
    · simp only [hc, Bool.false_eq_true, if_false] at h
      split at h
      · simp at h
      · split at h <;> simp at h

/-- MAIN THEOREM (stepping).  For a session set up on one script (no scriptPubKey successor, no taproot
    commitment phase, not a P2SH hand-over), stepping operation by operation visits exactly the states
    Bitcoin's rules prescribe — main stack, alt stack, conditional nesting, operation count, code-separator
    bookkeeping, signature budget, after every operation — and stops with the same outcome: the same
    error at the same operation (a C++ exception being SCRIPT_ERR_UNKNOWN_ERROR), never abnormally. -/
theorem C01_trace (cx : Ctx) (tc : TapCtx) (cfg : Spec.Cfg)
    (stack : List Bytes) (script : Bytes) (flags : Nat) (sv : SigVersion) (z : Bool) (ed : ExecData)
    (pm : List (Bytes × Bytes)) (e0 : IEnv)
    (hsetup : setupEnvironment stack script flags sv [] z ed none pm (pm.map (·.2)) = .ok e0)
    (hc : CfgRel cx e0.see cfg)
    (hw : sv = .TAPSCRIPT → ed.weightInit = true) :
    RelRun (runOps cx tc script.length e0)
      (Spec.evalInstrs cfg (Spec.decodePrefix script.length script).1 0 (initSt stack script ed))
      (Spec.decodePrefix script.length script).2 := by
  -- what `setup_environment` produced
  unfold setupEnvironment IEnv.init at hsetup
  split at hsetup
  · cases hsetup
  · rename_i e hinit
    split at hinit
    · cases hinit
    · cases hinit
      simp only [List.isEmpty_nil, Bool.not_true, Bool.false_and, Bool.false_eq_true, if_false] at hsetup
      split at hsetup
      · cases hsetup
      · cases hsetup
        refine runOps_refines cx tc cfg script.length _ (initSt stack script ed) rfl (Nat.le_refl _) hc ?_ hw
        constructor <;> simp [initSt, condRel_empty]

/-- after the last operation, the end-of-script step succeeds exactly when no conditional is open;
    it changes nothing but the `done` flag -/
theorem C01_end_step (cx : Ctx) (tc : TapCtx) (e : IEnv) (st : Spec.St) (h : Rel e.see st)
    (hpc : e.pc = []) (ht : e.tce = none) (hp : e.isP2sh = false) (hs : e.successor = []) :
    (st.cond.isEmpty = true → stepSession cx tc e = .ok { e with done := true }) ∧
    (st.cond.isEmpty = false → stepSession cx tc e = fail .UNBALANCED_CONDITIONAL) := by
  have hce := condRel_isEmpty h.cond
  unfold stepSession
  simp only [ht, hpc, List.isEmpty_nil, Bool.not_true, Bool.false_eq_true, if_false, hp, hs]
  constructor
  · intro hemp; simp [hce, hemp]; rfl
  · intro hne; simp [hce, hne]

/-- **The checker of a session without a transaction.**  `Glue.baseCtx` (`BaseSignatureChecker` with the real hash
    functions: no signature verifies, no lock time is satisfied) is in the configuration relation with the oracle
    `Glue.baseOracle` that the specification side of the correspondence check uses for plain scripts — for every
    environment with the configuration's flags, signature version and `--allow-disabled-opcodes` setting, `requireMinimal`
    as `setup_environment` sets it, and no mock signatures. -/
theorem cfgRel_base (e : SEE) (flags : Nat) (sv : SigVersion) (z : Bool)
    (hf : e.flags = flags) (hsv : e.sigversion = sv) (hz : e.allowDisabled = z)
    (hrm : e.requireMinimal = hasFlag e.flags Flag.MINIMALDATA) (hpk : e.pretendKeys = []) :
    CfgRel Glue.baseCtx e { flags := flags, sigversion := sv, allowDisabled := z, oracle := Glue.baseOracle, pretend := [] } where
  flags := hf.symm
  sv := hsv.symm
  z := hz.symm
  rm := hrm
  sha256 := rfl
  ripemd160 := rfl
  sha1 := rfl
  checkLowS := rfl
  checkLockTime := rfl
  checkSequence := rfl
  ecdsa := rfl
  schnorr := fun _ _ _ _ => ⟨rfl, rfl⟩
  pretendKeys := fun key => by rw [hpk]; rfl
  pretendPair := fun sig key hk => by rw [hpk] at hk; cases hk

/-- `C01_trace` for the sessions the check of C01 runs (plain scripts, no transaction, no mock signatures): the
    hypothesis `CfgRel` is discharged by `cfgRel_base` -/
theorem C01_trace_base (tc : TapCtx) (stack : List Bytes) (script : Bytes) (flags : Nat) (sv : SigVersion) (z : Bool)
    (ed : ExecData) (e0 : IEnv)
    (hsetup : setupEnvironment stack script flags sv [] z ed none [] [] = .ok e0)
    (hw : sv = .TAPSCRIPT → ed.weightInit = true) :
    RelRun (runOps Glue.baseCtx tc script.length e0)
      (Spec.evalInstrs { flags := flags, sigversion := sv, allowDisabled := z, oracle := Glue.baseOracle, pretend := [] }
        (Spec.decodePrefix script.length script).1 0 (initSt stack script ed))
      (Spec.decodePrefix script.length script).2 := by
  refine C01_trace Glue.baseCtx tc _ stack script flags sv z ed [] e0 hsetup ?_ hw
  have hsee : e0.see.flags = flags ∧ e0.see.sigversion = sv ∧ e0.see.allowDisabled = z ∧
      e0.see.requireMinimal = hasFlag e0.see.flags Flag.MINIMALDATA ∧ e0.see.pretendKeys = [] := by
    unfold setupEnvironment IEnv.init at hsetup
    split at hsetup
    · cases hsetup
    · rename_i e hinit
      split at hinit
      · cases hinit
      · cases hinit
        simp only [List.isEmpty_nil, Bool.not_true, Bool.false_and, Bool.false_eq_true, if_false] at hsetup
        split at hsetup
        · cases hsetup
        · cases hsetup
          exact ⟨rfl, rfl, rfl, rfl, rfl⟩
  exact cfgRel_base e0.see flags sv z hsee.1 hsee.2.1 hsee.2.2.1 hsee.2.2.2.1 hsee.2.2.2.2

end Btcdeb.Proofs.C01
