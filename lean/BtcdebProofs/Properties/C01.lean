import Btcdeb
namespace Btcdeb.Proofs.C01
end Btcdeb.Proofs.C01
