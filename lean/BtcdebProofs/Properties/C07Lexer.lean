/-
  C07 — the lexical layer of the assembler equals the grammar.
  (1) `tokenize_eq_splitWords`: the tokenizer of `parse_args(const char*, size_t)` = `Spec.splitWords` on every
      bracket body the specification accepts (balanced brackets), no further side condition;
  (2) `classify_eq_readTok`: number / opcode / hex classification of a plain word;
  (3) `btcc_eq_compile` (nesting up to the 200 levels of `Value::DepthGuard`) and `btcc_refuses_deep` (beyond);
  (4) `btcc_opx`, `btcc_opx_byte`: the escapes `OP_xNN` / `xNN` assemble to the single byte NN, for EVERY byte (ff included:
      finding F-C07-opxff, repaired in /repo a4419d3);
  witnesses: `btcc_opxff`, `btcc_glued_out_of_grammar`, `btcc_comment_after_group`.
-/
import Btcdeb
import BtcdebProofs.Properties.C07
import BtcdebProofs.Lemmas.C07Tokenize
import BtcdebProofs.Lemmas.C07Int
import BtcdebProofs.Lemmas.C07Opcode
namespace Btcdeb.Proofs.C07Lexer
open Btcdeb Btcdeb.Model Btcdeb.Proofs.C07Int Btcdeb.Proofs.C07Opcode

/-! ### 1. the tokenizer -/

/-- JOB B.1 — on a non-empty bracket body, whenever `Spec.splitWords` yields words (that is: the brackets of the
    body balance — the specification answers `none` exactly for an unclosed `[` or a `]` at depth 0), the
    tokenizer of `Value::parse_args(const char*, size_t)` yields exactly those words: maximal runs of non-separator
    characters at depth 0, a bracket group (whatever it contains) being part of the word it occurs in, blanks as
    separators, `#` at depth 0 starting a comment to the end of the line. No further side condition.
    `tail` is whatever follows the body in memory (the closing `]`, the NUL); any fuel above the length works. -/
theorem tokenize_eq_splitWords (body tail : Bytes) (hne : body ≠ []) (k' : Nat) (hk' : k' > body.length)
    (ws : List Bytes) (hs : Spec.splitWords k' body [] 0 [] = some ws) :
    tokenize (body ++ tail) body.length (body.length + 2) 0 0 [] = .ok ws :=
  tokenize_eq_splitWords_aux body tail hne k' hk' ws hs

/-- … and `parse_args` then constructs one value per word (no re-grouping: every word is balanced); this also
    holds for the empty body -/
theorem parseArgsString_eq (mk : Bytes → Nat → VM Value) (body : Bytes) (k' : Nat) (hk' : k' > body.length)
    (ws : List Bytes) (hs : Spec.splitWords k' body [] 0 [] = some ws) :
    parseArgsStringWith mk (body ++ [93]) body.length = ws.mapM (fun w => mk w w.length) := by
  by_cases hne : body = []
  · subst hne
    obtain ⟨k0, rfl⟩ : ∃ k0, k' = k0 + 1 := ⟨k' - 1, by simp at hk'; omega⟩
    rw [Spec.splitWords] at hs; simp at hs; subst hs
    rfl
  · have h2 := tokenize_eq_splitWords body [93] hne k' hk' ws hs
    have hwords := splitWords_words _ body [] 0 [] ws hs rfl
    have hgood : ∀ w' ∈ ws, GoodWord w' := by
      intro w' hw'
      rcases hwords w' hw' with h | h
      · cases h
      · exact h.1
    unfold parseArgsStringWith
    have : (body.length == 0) = false := by
      have := List.length_pos_iff.mpr hne
      simp; omega
    simp only [this, Bool.false_eq_true, if_false, h2, bind, Except.bind]
    rw [parseArgsListWith_good _ ws [] [] hgood]
    cases ws.mapM (fun w => mk w w.length) <;> rfl

/-- examples of the word rule (these were differences before the fix d463b4a of value.h and the matching
    change of the grammar): a word glued to a group is ONE word … -/
theorem lexer_glued :
    tokenize ([79, 80, 95, 49, 91, 79, 80, 95, 50, 93] ++ [93]) 10 12 0 0 [] = .ok [[79, 80, 95, 49, 91, 79, 80, 95, 50, 93]] ∧ Spec.splitWords 13 [79, 80, 95, 49, 91, 79, 80, 95, 50, 93] [] 0 [] = some [[79, 80, 95, 49, 91, 79, 80, 95, 50, 93]] ∧
    tokenize ([91, 79, 80, 95, 50, 93, 79, 80, 95, 49] ++ [93]) 10 12 0 0 [] = .ok [[91, 79, 80, 95, 50, 93, 79, 80, 95, 49]] ∧ Spec.splitWords 13 [91, 79, 80, 95, 50, 93, 79, 80, 95, 49] [] 0 [] = some [[91, 79, 80, 95, 50, 93, 79, 80, 95, 49]] := by
  refine ⟨rfl, rfl, rfl, rfl⟩

/-- … and a `#` directly behind a group starts a comment -/
theorem lexer_comment_after_group :
    tokenize ([91, 79, 80, 95, 50, 93, 35, 99, 10, 79, 80, 95, 49] ++ [93]) 13 15 0 0 [] = .ok [[91, 79, 80, 95, 50, 93], [79, 80, 95, 49]] ∧
    Spec.splitWords 16 [91, 79, 80, 95, 50, 93, 35, 99, 10, 79, 80, 95, 49] [] 0 [] = some [[91, 79, 80, 95, 50, 93], [79, 80, 95, 49]] := by
  refine ⟨rfl, rfl⟩

/-! ### 2. classification of a plain word -/

/-- the text behind an optional `0x` -/
def hexPart (w : Bytes) : Bytes := match w with
  | 48 :: 120 :: r => r
  | r => r

/-- the specification's reading of a word that is neither `0x` nor a bracket -/
theorem readTok_plain (f : Nat) (w : Bytes) (h0x : w ≠ [48, 120]) (hb : w.head? ≠ some 91) :
    Spec.readTok (f + 1) w =
      match Spec.readInt w with
      | some n => some (.int n)
      | none =>
        match Spec.readOpcode w with
        | some c => some (.op c)
        | none =>
          if !(hexPart w).isEmpty && (hexPart w).length % 2 == 0 && (hexPart w).all Spec.isHexDigit
          then some (.hex (Spec.unhexPairs (hexPart w))) else none := by
  rw [Spec.readTok.eq_def]
  simp only
  split
  · exact absurd rfl h0x
  · simp at hb
  · rfl

theorem hexPart_model (w : Bytes) (h0x : w ≠ [48, 120]) :
    (if (decide (w.length > 2) && w.getD 0 0 == 48 && w.getD 1 0 == 120) = true then w.drop 2 else w) = hexPart w ∧
    (hexPart w).length % 2 = w.length % 2 ∧ (w ≠ [] → hexPart w ≠ []) ∧ (∀ c ∈ hexPart w, c ∈ w) := by
  match w with
  | [] => simp [hexPart]
  | [a] => simp [hexPart]
  | [a, b] =>
    have : hexPart [a, b] = [a, b] := by
      unfold hexPart; split
      · rename_i r heq; simp at heq; exact absurd (by rw [heq.1, heq.2.1]) h0x
      · rfl
    rw [this]; simp
  | a :: b :: c :: r =>
    by_cases h : a = 48 ∧ b = 120
    · obtain ⟨rfl, rfl⟩ := h
      have : hexPart (48 :: 120 :: c :: r) = c :: r := rfl
      rw [this]
      refine ⟨by simp, by simp; omega, by simp, ?_⟩
      intro x hx; simp at hx ⊢; rcases hx with h | h <;> simp [h]
    · have : hexPart (a :: b :: c :: r) = a :: b :: c :: r := by
        unfold hexPart; split
        · rename_i r' heq; simp at heq; exact absurd ⟨heq.1, heq.2.1⟩ h
        · rfl
      rw [this]
      refine ⟨?_, rfl, by simp, fun _ h => h⟩
      have : (a == 48 && b == 120) = false := by
        cases h1 : (a == 48 && b == 120)
        · rfl
        · simp at h1; exact absurd h1 h
      simp only [List.getD_cons_zero, List.getD_cons_succ, Bool.and_assoc, this, Bool.and_false, Bool.false_eq_true, if_false]


/-- the hexadecimal branch of `Value(const char*)` against the specification's hex test -/
theorem hex_branch (w : Bytes) (hne : w ≠ []) (h0x : w ≠ [48, 120]) (hsp : ∀ c ∈ w, isSpaceC c = false) :
    (if w.length % 2 == 0 then
      tryHex (if (decide (w.length > 2) && w.getD 0 0 == 48 && w.getD 1 0 == 120) = true then w.drop 2 else w)
     else none) =
    (if !(hexPart w).isEmpty && (hexPart w).length % 2 == 0 && (hexPart w).all Spec.isHexDigit
     then some (Spec.unhexPairs (hexPart w)) else none) := by
  obtain ⟨hm, hpar, hnn, hsub⟩ := hexPart_model w h0x
  rw [hm]
  have hne' : (hexPart w).isEmpty = false := by
    cases h : hexPart w with
    | nil => exact absurd h (hnn hne)
    | cons _ _ => rfl
  simp only [hne', Bool.not_false, Bool.true_and, hpar]
  by_cases hev : w.length % 2 = 0
  · simp only [hev, beq_self_eq_true, if_true, Bool.true_and]
    by_cases hall : (hexPart w).all Spec.isHexDigit = true
    · rw [if_pos hall]; exact tryHex_of_allHex _ hall (by omega)
    · rw [if_neg hall]
      cases ht : tryHex (hexPart w) with
      | none => rfl
      | some d => exact absurd (tryHex_some_allHex _ d (fun c hc => hsp c (hsub c hc)) ht).1 hall
  · have : (w.length % 2 == 0) = false := by simpa using hev
    simp [this]

/-- what the hex test leaves: data, or the value as it was (a string) -/
def hexResult (cur : Value) (n : Int) : Option Bytes → Value
  | some d => { cur with int64 := n, opcode := 0xff, data := d, type := .T_DATA }
  | none => { cur with int64 := n, opcode := 0xff }

/-- `classifyPlain` with its three tests named -/
theorem classifyPlain_eq (cur : Value) (w : Bytes) :
    classifyPlain cur w w.length =
      if isIntWord w = true then .ok { cur with int64 := cAtoi 64 w, type := .T_INT }
      else match parseOpCode w with
        | some c => .ok { cur with int64 := cAtoi 64 w, opcode := c, type := .T_OPCODE }
        | none => .ok (hexResult cur (cAtoi 64 w) (if w.length % 2 == 0 then
            tryHex (if (decide (w.length > 2) && w.getD 0 0 == 48 && w.getD 1 0 == 120) = true then w.drop 2 else w)
            else none)) := by
  unfold classifyPlain
  have hint : ((cAtoi 64 w != 0 || w == [48]) && intDecimal (cAtoi 64 w) == w) = isIntWord w := rfl
  simp only [hint]
  split
  · rfl
  · cases parseOpCode w with
    | some c => rfl
    | none =>
      simp only
      split
      · split <;> rename_i heq <;> simp only [heq, hexResult]
      · rfl

/-- JOB B.2 — the tail of `Value(const char*, vlen)` (number, opcode, hex, else string; `classifyPlain`)
    agrees with the specification's reading of the word (`Spec.readInt`, `Spec.readOpcode`, hex literal), for
    every word that is not `0x`, does not start a bracket, and contains no C white space (none can: the tokenizer
    and the shell split at blanks; `\v`/`\f` would be skipped by TryHex):
    decimal integers in canonical form within int64 ↦ T_INT, opcode names with or without OP_ and OP_xNN for every
    byte NN ↦ T_OPCODE, hex with or without 0x ↦ T_DATA, anything else stays a string. No word is excepted. -/
theorem classify_eq_readTok (cur : Value) (w : Bytes) (f : Nat) (hne : w ≠ []) (h0x : w ≠ [48, 120])
    (hb : w.head? ≠ some 91) (hsp : ∀ c ∈ w, isSpaceC c = false) :
    classifyPlain cur w w.length = .ok (match Spec.readTok (f + 1) w with
      | some (.int n) => { cur with int64 := n, type := .T_INT }
      | some (.op c) => { cur with int64 := cAtoi 64 w, opcode := c, type := .T_OPCODE }
      | some (.hex d) => { cur with int64 := cAtoi 64 w, opcode := 0xff, data := d, type := .T_DATA }
      | _ => { cur with int64 := cAtoi 64 w, opcode := 0xff }) := by
  rw [readTok_plain f w h0x hb, classifyPlain_eq, hex_branch w hne h0x hsp]
  cases hri : Spec.readInt w with
  | some n =>
    have h1 : isIntWord w = true := (int_word_iff w).mpr ⟨n, hri⟩
    have h2 := readInt_eq_cAtoi w n hri
    simp [h1, h2]
  | none =>
    have h1 : isIntWord w = false := by
      cases h : isIntWord w
      · rfl
      · obtain ⟨n, hn⟩ := (int_word_iff w).mp h; rw [hn] at hri; cases hri
    simp only [h1, Bool.false_eq_true, if_false]
    rw [parseOpCode_eq_readOpcode]
    cases hro : Spec.readOpcode w with
    | some c => rfl
    | none =>
      simp only
      split <;> rename_i heq <;> simp [hexResult]


/-! ### 3. whole programs -/

mutual
/-- how many `Value` constructors are active at once while the token is read (`Value::DepthGuard` counts
    them): 1 for a plain token, 1 + the deepest token of the body for a sub-script (1 for `[]`) -/
def tokNeed : Spec.Tok → Nat
  | .sub b => toksNeed b + 1
  | _ => 1
def toksNeed : List Spec.Tok → Nat
  | [] => 0
  | t :: ts => max (tokNeed t) (toksNeed ts)
end

theorem toksNeed_mem : ∀ (ts : List Spec.Tok) (t : Spec.Tok), t ∈ ts → tokNeed t ≤ toksNeed ts := by
  intro ts
  induction ts with
  | nil => intro t ht; cases ht
  | cons a ts ih =>
    intro t ht
    rw [toksNeed]
    rcases List.mem_cons.mp ht with rfl | ht
    · exact Nat.le_max_left _ _
    · exact Nat.le_trans (ih t ht) (Nat.le_max_right _ _)

/-- appending the value to a script emits exactly what the token must compile to -/
def Emits (v : Value) (t : Spec.Tok) : Prop := ∀ s, v.appendTo s = .ok (s ++ Spec.compileTok t)

def EmitsAll : List Value → List Spec.Tok → Prop
  | [], [] => True
  | v :: vs, t :: ts => Emits v t ∧ EmitsAll vs ts
  | _, _ => False

theorem appendAll_emits : ∀ (vs : List Value) (ts : List Spec.Tok), EmitsAll vs ts →
    ∀ s, appendAll vs s = .ok (s ++ Spec.compileToks ts) := by
  intro vs
  induction vs with
  | nil =>
    intro ts h s
    cases ts with
    | nil => simp [appendAll, Spec.compileToks]
    | cons _ _ => exact h.elim
  | cons v vs ih =>
    intro ts h s
    cases ts with
    | nil => exact h.elim
    | cons t ts =>
      obtain ⟨h1, h2⟩ := h
      rw [appendAll]
      simp only [h1 s, bind, Except.bind]
      rw [ih ts h2, Spec.compileToks, List.append_assoc]

theorem mapM_corr (rd : Bytes → Option Spec.Tok) (mk' : Bytes → VM Value) : ∀ (ws : List Bytes) (toks : List Spec.Tok),
    ws.mapM rd = some toks → (∀ w ∈ ws, ∀ t ∈ toks, rd w = some t → ∃ v, mk' w = .ok v ∧ Emits v t) →
    ∃ vs, ws.mapM mk' = .ok vs ∧ EmitsAll vs toks := by
  intro ws
  induction ws with
  | nil =>
    intro toks h _
    simp at h; subst h
    exact ⟨[], by simp [pure, Except.pure], trivial⟩
  | cons w rest ih =>
    intro toks h hc
    rw [List.mapM_cons] at h
    cases hw : rd w with
    | none => rw [hw] at h; simp at h
    | some t =>
      rw [hw] at h
      cases hr : rest.mapM rd with
      | none => rw [hr] at h; simp at h
      | some ts =>
        rw [hr] at h
        simp at h; subst h
        obtain ⟨v, hv, he⟩ := hc w (by simp) t (by simp) hw
        obtain ⟨vs, hvs, hes⟩ := ih ts hr (fun w' hw' t' ht' => hc w' (by simp [hw']) t' (by simp [ht']))
        refine ⟨v :: vs, ?_, he, hes⟩
        rw [List.mapM_cons, hv, hvs]; rfl

/-! #### plain words -/

theorem isDigit_chars {c : UInt8} (h : isDigit c = true) : isSpaceC c = false ∧ c ≠ 41 := by
  unfold isDigit at h; unfold isSpaceC
  simp at h ⊢
  refine ⟨⟨by omega, by omega⟩, ?_⟩
  intro hc; rw [hc] at h; simp at h

/-- a word the specification reads as a plain token has no white space and no `)` -/
theorem plain_chars (f : Nat) (w : Bytes) (t : Spec.Tok) (h0x : w ≠ [48, 120]) (hb : w.head? ≠ some 91)
    (h : Spec.readTok (f + 1) w = some t) : w ≠ [] ∧ ∀ c ∈ w, isSpaceC c = false ∧ c ≠ 41 := by
  rw [readTok_plain f w h0x hb] at h
  cases hri : Spec.readInt w with
  | some n =>
    rcases readInt_some w n hri with ⟨rfl, _⟩ | ⟨d, rest, rfl, hall, _⟩ | ⟨d, rest, rfl, hall, _⟩
    · refine ⟨by simp, ?_⟩; intro c hc; simp at hc; subst hc; decide
    · refine ⟨by simp, ?_⟩
      intro c hc; exact isDigit_chars (List.all_eq_true.mp hall c hc)
    · refine ⟨by simp, ?_⟩
      intro c hc
      rcases List.mem_cons.mp hc with rfl | hc
      · decide
      · exact isDigit_chars (List.all_eq_true.mp hall c hc)
  | none =>
    rw [hri] at h
    cases hro : Spec.readOpcode w with
    | some c =>
      obtain ⟨hne, hch⟩ := readOpcode_chars w c hro
      refine ⟨hne, ?_⟩
      intro b hb'
      have := hch b hb'
      unfold isSpaceC
      refine ⟨by simp; omega, ?_⟩
      intro hc; rw [hc] at this; simp at this
    | none =>
      rw [hro] at h
      simp only at h
      split at h
      · rename_i hcond
        simp only [Bool.and_eq_true, Bool.not_eq_true', beq_iff_eq] at hcond
        obtain ⟨⟨hne, _⟩, hall⟩ := hcond
        have hhex : ∀ c ∈ hexPart w, isSpaceC c = false ∧ c ≠ 41 := by
          intro c hc
          have h1 := List.all_eq_true.mp hall c hc
          refine ⟨(hexDigitVal_of_isHexDigit c h1).2, ?_⟩
          intro hcc; rw [hcc] at h1; simp [Spec.isHexDigit] at h1
        have hwne : w ≠ [] := by
          intro hw; rw [hw] at hne; simp [hexPart] at hne
        refine ⟨hwne, ?_⟩
        -- w is its hex part, possibly behind `0x`
        match w, hhex with
        | [], _ => intro c hc; cases hc
        | [a], hhex =>
          have : hexPart [a] = [a] := by
            unfold hexPart; split
            · rename_i r' heq; simp at heq
            · rfl
          rw [this] at hhex; exact hhex
        | a :: b :: r, hhex =>
          by_cases hab : a = 48 ∧ b = 120
          · obtain ⟨rfl, rfl⟩ := hab
            have : hexPart (48 :: 120 :: r) = r := rfl
            rw [this] at hhex
            intro c hc
            rcases List.mem_cons.mp hc with rfl | hc
            · decide
            · rcases List.mem_cons.mp hc with rfl | hc
              · decide
              · exact hhex c hc
          · have : hexPart (a :: b :: r) = a :: b :: r := by
              unfold hexPart; split
              · rename_i r' heq; simp at heq; exact absurd ⟨heq.1, heq.2.1⟩ hab
              · rfl
            rw [this] at hhex; exact hhex
      · cases h


theorem getD_mem (w : Bytes) (i : Nat) (h : i < w.length) : w.getD i 0 ∈ w := by
  rw [List.getD_eq_getElem?_getD, List.getElem?_eq_getElem h]
  exact List.getElem_mem h

/-- a plain word goes straight to the classification (it is not `0x`, not a bracket, not `name(arg)`) -/
theorem valueBody_plain (cx : VCtx) (mk : Bytes → Nat → VM Value) (w : Bytes) (hne : w ≠ []) (h0x : w ≠ [48, 120])
    (hb : w.head? ≠ some 91) (h41 : ∀ c ∈ w, c ≠ 41) :
    valueBody cx mk w w.length = classifyPlain { type := .T_STRING, str := w } w w.length := by
  have hlen : 0 < w.length := List.length_pos_iff.mpr hne
  unfold valueBody
  have c1 : (w.length == 0) = false := by simp; omega
  simp only [c1, Bool.false_eq_true, if_false]
  have c2 : (w.length == 2 && w.getD 0 0 == 48 && w.getD 1 0 == 120) = false := by
    cases hc : (w.length == 2 && w.getD 0 0 == 48 && w.getD 1 0 == 120)
    · rfl
    · exfalso; apply h0x
      simp only [Bool.and_eq_true, beq_iff_eq] at hc
      obtain ⟨⟨h1, h2⟩, h3⟩ := hc
      match w, h1 with
      | [a, b], _ => simp at h2 h3; rw [h2, h3]
  have c3 : (decide (w.length > 1) && w.getD 0 0 == 91 && w.getD (w.length - 1) 0 == 93) = false := by
    have : (w.getD 0 0 == 91) = false := by
      cases w with
      | nil => exact absurd rfl hne
      | cons a r =>
        simp at hb ⊢; exact hb
    simp only [this, Bool.and_false, Bool.false_and]
  have c4 : ∀ i, (decide (w.length > 3) && w.getD (w.length - 1) 0 == 41 && w.getD i 0 == 40) = false := by
    intro i
    have : (w.getD (w.length - 1) 0 == 41) = false := by
      have := h41 _ (getD_mem w (w.length - 1) (by omega))
      simpa using this
    simp only [this, Bool.and_false, Bool.false_and]
  simp only [c2, c3, c4, Bool.false_eq_true, if_false]

theorem valueBody_bracket (cx : VCtx) (mk : Bytes → Nat → VM Value) (body : Bytes) :
    valueBody cx mk (91 :: (body ++ [93])) (91 :: (body ++ [93])).length =
      (parseArgsStringWith mk (body ++ [93]) body.length).bind fun vs =>
        (appendAll vs []).bind fun s =>
          .ok { type := .T_DATA, str := 91 :: (body ++ [93]), data := s } := by
  unfold valueBody
  have c1 : ((91 :: (body ++ [93])).length == 0) = false := by simp
  simp only [c1, Bool.false_eq_true, if_false]
  have c2 : ((91 :: (body ++ [93])).length == 2 && (91 :: (body ++ [93])).getD 0 0 == 48 && (91 :: (body ++ [93])).getD 1 0 == 120) = false := by
    simp
  have hlast : (91 :: (body ++ [93])).getD ((91 :: (body ++ [93])).length - 1) 0 = 93 := by
    have : (91 :: (body ++ [93])).length - 1 = body.length + 1 := by simp
    rw [this, List.getD_cons_succ, List.getD_eq_getElem?_getD, List.getElem?_append_right (Nat.le_refl _)]
    simp
  have c3 : (decide ((91 :: (body ++ [93])).length > 1) && (91 :: (body ++ [93])).getD 0 0 == 91 &&
      (91 :: (body ++ [93])).getD ((91 :: (body ++ [93])).length - 1) 0 == 93) = true := by
    rw [hlast]; simp
  simp only [c2, Bool.false_eq_true, if_false, c3, if_true]
  have hd : (91 :: (body ++ [93])).drop 1 = body ++ [93] := rfl
  have hl : (91 :: (body ++ [93])).length - 2 = body.length := by simp
  rw [hd, hl]
  rfl

/-- the specification's reading of a bracket word, taken apart -/
theorem readTok_bracket (fs : Nat) (rest : Bytes) (t : Spec.Tok) (h : Spec.readTok (fs + 1) (91 :: rest) = some t) :
    ∃ body ws toks, rest = body ++ [93] ∧ Spec.splitWords (rest.length + 2) body [] 0 [] = some ws ∧
      ws.mapM (Spec.readTok fs) = some toks ∧ t = .sub toks := by
  rw [Spec.readTok] at h
  cases hlast : (rest.getLast? == some 93)
  · rw [hlast] at h; simp at h
  · rw [hlast] at h
    simp only [if_true] at h
    obtain ⟨body, rfl⟩ := List.getLast?_eq_some_iff.mp (by simpa using hlast)
    have hdl : (body ++ [93]).dropLast = body := by simp
    rw [hdl] at h
    cases hsw : Spec.splitWords ((body ++ [93]).length + 2) body [] 0 [] with
    | none => rw [hsw] at h; simp at h
    | some ws =>
      rw [hsw] at h
      simp only at h
      cases hm : ws.mapM (Spec.readTok fs) with
      | none => rw [hm] at h; simp at h
      | some toks =>
        rw [hm] at h
        simp only [Option.map_some, Option.some.injEq] at h
        exact ⟨body, ws, toks, rfl, hsw, hm, h.symm⟩

/-- a plain word is never read as a sub-script -/
theorem readTok_plain_not_sub (fs : Nat) (w : Bytes) (b : List Spec.Tok) (h0x : w ≠ [48, 120]) (hb : w.head? ≠ some 91)
    (hread : Spec.readTok (fs + 1) w = some (.sub b)) : False := by
  rw [readTok_plain fs w h0x hb] at hread
  cases hri : Spec.readInt w with
  | some n => rw [hri] at hread; cases hread
  | none =>
    rw [hri] at hread
    cases hro : Spec.readOpcode w with
    | some c => rw [hro] at hread; cases hread
    | none =>
      rw [hro] at hread
      simp only at hread
      split at hread <;> cases hread

/-- THE RECURSION (nesting), inside the limit: whenever the specification reads a word as a token that needs
    at most `fm` levels, the `Value` constructor with `fm` levels left (`DepthGuard`: 200 at the top) yields a
    value that emits exactly the token's compilation -/
theorem valueOf_readTok (cx : VCtx) : ∀ (fm : Nat) (w : Bytes) (fs : Nat) (t : Spec.Tok),
    tokNeed t ≤ fm → Spec.readTok fs w = some t →
    ∃ v, valueOf cx fm w w.length = .ok v ∧ Emits v t := by
  intro fm
  induction fm with
  | zero => intro w fs t h; cases t <;> simp [tokNeed] at h
  | succ fm ih =>
    intro w fs t hneed hread
    cases fs with
    | zero => simp [Spec.readTok] at hread
    | succ fs =>
    rw [valueOf]
    show ∃ v, valueBody cx (valueOf cx fm) w w.length = .ok v ∧ Emits v t
    by_cases h0x : w = [48, 120]
    · -- `0x`: the empty push
      subst h0x
      rw [Spec.readTok] at hread
      simp only [Option.some.injEq] at hread; subst hread
      refine ⟨{ type := .T_DATA, data := [] }, rfl, ?_⟩
      intro s
      exact C07.data_emits_minimal { type := .T_DATA, data := [] } rfl s
    · by_cases hb : w.head? = some 91
      · -- a bracketed sub-script
        obtain ⟨rest, rfl⟩ : ∃ rest, w = 91 :: rest := by
          cases w with
          | nil => simp at hb
          | cons a r => simp at hb; exact ⟨r, by rw [hb]⟩
        obtain ⟨body, ws, toks, rfl, hsw, hm, rfl⟩ := readTok_bracket fs rest t hread
        rw [tokNeed] at hneed
        have htok := parseArgsString_eq (valueOf cx fm) body _ (by simp; omega) ws hsw
        obtain ⟨vs, hvs, hes⟩ := mapM_corr (Spec.readTok fs) (fun w' => valueOf cx fm w' w'.length) ws toks hm
          (by
            intro w' hw' t' ht' hr'
            exact ih w' fs t' (by have := toksNeed_mem toks t' ht'; omega) hr')
        rw [valueBody_bracket, htok, hvs]
        simp only [Except.bind]
        rw [appendAll_emits vs toks hes []]
        simp only [List.nil_append]
        refine ⟨_, rfl, ?_⟩
        intro s
        rw [C07.data_emits_minimal _ rfl s]
        rfl
      · -- a plain word
        obtain ⟨hne, hch⟩ := plain_chars fs w t h0x hb hread
        rw [valueBody_plain cx _ w hne h0x hb (fun c hc => (hch c hc).2)]
        rw [classify_eq_readTok _ w fs hne h0x hb (fun c hc => (hch c hc).1), hread]
        cases t with
        | int n =>
          refine ⟨_, rfl, ?_⟩
          intro s
          show Except.ok (s ++ pushInt64 n) = _
          rw [C07.int_emits_minimal]; rfl
        | op c =>
          refine ⟨_, rfl, ?_⟩
          intro s; rfl
        | hex d =>
          refine ⟨_, rfl, ?_⟩
          intro s
          rw [C07.data_emits_minimal _ rfl s]; rfl
        | sub b => exact (readTok_plain_not_sub fs w b h0x hb hread).elim

theorem mapM_deep (rd : Bytes → Option Spec.Tok) (mk' : Bytes → VM Value) (E : VErr) (n : Nat) :
    ∀ (ws : List Bytes) (toks : List Spec.Tok), ws.mapM rd = some toks →
    (∀ w ∈ ws, ∀ t ∈ toks, rd w = some t →
      (tokNeed t ≤ n → ∃ v, mk' w = .ok v) ∧ (tokNeed t > n → mk' w = .error E)) →
    toksNeed toks > n → ws.mapM mk' = .error E := by
  intro ws
  induction ws with
  | nil =>
    intro toks h _ hd
    simp at h; subst h; simp [toksNeed] at hd
  | cons w rest ih =>
    intro toks h hc hd
    rw [List.mapM_cons] at h
    cases hw : rd w with
    | none => rw [hw] at h; simp at h
    | some t =>
      rw [hw] at h
      cases hr : rest.mapM rd with
      | none => rw [hr] at h; simp at h
      | some ts =>
        rw [hr] at h
        simp at h; subst h
        rw [List.mapM_cons]
        have hc1 := hc w (by simp) t (by simp) hw
        by_cases hdt : tokNeed t > n
        · rw [hc1.2 hdt]; rfl
        · obtain ⟨v, hv⟩ := hc1.1 (by omega)
          rw [hv]
          rw [toksNeed] at hd
          have hd' : toksNeed ts > n := by
            rcases Nat.le_total (tokNeed t) (toksNeed ts) with h | h
            · rw [Nat.max_eq_right h] at hd; exact hd
            · rw [Nat.max_eq_left h] at hd; omega
          have := ih ts hr (fun w' hw' t' ht' => hc w' (by simp [hw']) t' (by simp [ht'])) hd'
          simp only [bind, Except.bind, this]

/-- THE RECURSION, beyond the limit: a token of the grammar that needs more levels than are left is refused
    with the nesting diagnostic (`exit(1)`), whatever else the program contains -/
theorem valueOf_deep (cx : VCtx) : ∀ (fm : Nat) (w : Bytes) (fs : Nat) (t : Spec.Tok),
    tokNeed t > fm → Spec.readTok fs w = some t →
    valueOf cx fm w w.length = .error (.exit1 depthMsg) := by
  intro fm
  induction fm with
  | zero => intro w fs t _ _; rfl
  | succ fm ih =>
    intro w fs t hneed hread
    cases fs with
    | zero => simp [Spec.readTok] at hread
    | succ fs =>
    rw [valueOf]
    show valueBody cx (valueOf cx fm) w w.length = _
    by_cases h0x : w = [48, 120]
    · subst h0x
      rw [Spec.readTok] at hread
      simp only [Option.some.injEq] at hread; subst hread
      simp [tokNeed] at hneed
    · by_cases hb : w.head? = some 91
      · obtain ⟨rest, rfl⟩ : ∃ rest, w = 91 :: rest := by
          cases w with
          | nil => simp at hb
          | cons a r => simp at hb; exact ⟨r, by rw [hb]⟩
        obtain ⟨body, ws, toks, rfl, hsw, hm, rfl⟩ := readTok_bracket fs rest t hread
        rw [tokNeed] at hneed
        have htok := parseArgsString_eq (valueOf cx fm) body _ (by simp; omega) ws hsw
        have hdeep := mapM_deep (Spec.readTok fs) (fun w' => valueOf cx fm w' w'.length) (.exit1 depthMsg) fm ws toks hm
          (by
            intro w' hw' t' ht' hr'
            refine ⟨fun hle => ?_, fun hgt => ih w' fs t' hgt hr'⟩
            obtain ⟨v, hv, _⟩ := valueOf_readTok cx fm w' fs t' hle hr'
            exact ⟨v, hv⟩)
          (by omega)
        rw [valueBody_bracket, htok, hdeep]
        rfl
      · exfalso
        cases t with
        | sub b => exact readTok_plain_not_sub fs w b h0x hb hread
        | int n => simp [tokNeed] at hneed
        | op c => simp [tokNeed] at hneed
        | hex d => simp [tokNeed] at hneed

/-- JOB B.3 — for every program inside the grammar (`Spec.readProgram` reads the command-line words as
    tokens) and nested at most 200 levels
    (`Value::DepthGuard`; a plain token is level 1, each enclosing bracket adds one), `btcc` outputs exactly the
    specified compilation: opcode byte / minimal push of the number / minimal push of the hex bytes / minimal push
    of the compiled body, in order. No lexical side condition is left. -/
theorem btcc_eq_compile (cx : VCtx) (ws : List Bytes) (toks : List Spec.Tok)
    (hread : Spec.readProgram ws = some toks) (hdepth : toksNeed toks ≤ 200) :
    Model.btcc cx ws = .ok (Spec.compileToks toks) := by
  unfold btcc parseArgsList
  rw [parseArgsListWith_group]
  unfold Spec.readProgram at hread
  obtain ⟨vs, hvs, hes⟩ := mapM_corr (fun w => Spec.readTok (w.length + 2) w)
    (fun w => valueOf cx valueDepthLimit w w.length) _ toks hread
    (by
      intro w hw t ht hr
      exact valueOf_readTok cx _ w (w.length + 2) t
        (by have := toksNeed_mem toks t ht; show tokNeed t ≤ 200; omega) hr)
  simp only [hvs, bind, Except.bind, List.reverse_nil, List.nil_append]
  rw [appendAll_emits vs toks hes []]
  rfl

/-- … and beyond 200 levels the program is refused with the nesting diagnostic and exit status 1 -/
theorem btcc_refuses_deep (cx : VCtx) (ws : List Bytes) (toks : List Spec.Tok)
    (hread : Spec.readProgram ws = some toks) (hdepth : toksNeed toks > 200) :
    Model.btcc cx ws = .error (.exit1 depthMsg) := by
  unfold btcc parseArgsList
  rw [parseArgsListWith_group]
  unfold Spec.readProgram at hread
  have hdeep := mapM_deep (fun w => Spec.readTok (w.length + 2) w)
    (fun w => valueOf cx valueDepthLimit w w.length) (.exit1 depthMsg) 200 _ toks hread
    (by
      intro w hw t ht hr
      refine ⟨fun hle => ?_, fun hgt => valueOf_deep cx _ w (w.length + 2) t hgt hr⟩
      obtain ⟨v, hv, _⟩ := valueOf_readTok cx valueDepthLimit w (w.length + 2) t hle hr
      exact ⟨v, hv⟩)
    hdepth
  simp only [hdeep, bind, Except.bind]
  rfl

/-! ### witnesses (all run on the real `btcc` of the fixed tree) -/

/-- the specification's reading of the two spellings of the escape: `OP_xNN` and `xNN` (N any hex digit of either
    case) are one-token programs, the opcode NN -/
theorem readProgram_opx (a b : UInt8) (ha : Spec.isHexDigit a = true) (hb : Spec.isHexDigit b = true) :
    Spec.readProgram [[79, 80, 95, 120, a, b]] = some [.op (Spec.hexNibble a * 16 + Spec.hexNibble b)] ∧
    Spec.readProgram [[120, a, b]] = some [.op (Spec.hexNibble a * 16 + Spec.hexNibble b)] := by
  have hro : ∀ w : Bytes, bare w = [120, a, b] →
      Spec.readOpcode w = some (Spec.hexNibble a * 16 + Spec.hexNibble b) := by
    intro w hw
    rw [readOpcode_eq, hw, look_specTab_x]
    simp [xesc, ha, hb]
  have hint : ∀ r : Bytes, Spec.readInt (79 :: r) = none ∧ Spec.readInt (120 :: r) = none := by
    intro r
    constructor <;>
    · unfold Spec.readInt
      simp [Spec.isDec]
  constructor
  · show (do let t ← Spec.readTok 8 [79, 80, 95, 120, a, b]; let ts ← pure []; pure (t :: ts)) = _
    rw [readTok_plain 7 _ (by simp) (by simp), (hint _).1, hro _ rfl]
    rfl
  · show (do let t ← Spec.readTok 5 [120, a, b]; let ts ← pure []; pure (t :: ts)) = _
    have hbare : bare [120, a, b] = [120, a, b] := by
      rcases bare_cases [120, a, b] with h | ⟨h, _⟩
      · simp at h
      · exact h
    rw [readTok_plain 4 _ (by simp) (by simp), (hint _).2, hro _ hbare]
    rfl

/-- THE ESCAPE, for every byte: `btcc OP_xNN` and `btcc xNN` output the single byte NN — whatever the two hex digits
    are (either letter case), ff included (before /repo a4419d3 `OP_xff`/`xff` were pushed as text: finding
    F-C07-opxff, now repaired) -/
theorem btcc_opx (cx : VCtx) (a b : UInt8) (ha : Spec.isHexDigit a = true) (hb : Spec.isHexDigit b = true) :
    Model.btcc cx [[79, 80, 95, 120, a, b]] = .ok [UInt8.ofNat (Spec.hexNibble a * 16 + Spec.hexNibble b)] ∧
    Model.btcc cx [[120, a, b]] = .ok [UInt8.ofNat (Spec.hexNibble a * 16 + Spec.hexNibble b)] := by
  obtain ⟨h1, h2⟩ := readProgram_opx a b ha hb
  have hn : ∀ c, toksNeed [Spec.Tok.op c] ≤ 200 := by intro c; simp [toksNeed, tokNeed]
  exact ⟨btcc_eq_compile cx _ _ h1 (hn _), btcc_eq_compile cx _ _ h2 (hn _)⟩

/-- the lower-case hex digit of a nibble -/
def hexDigitOf (n : Nat) : UInt8 := UInt8.ofNat (if n < 10 then 48 + n else 87 + n)

theorem hexDigitOf_spec : ∀ n, n < 16 → Spec.isHexDigit (hexDigitOf n) = true ∧ Spec.hexNibble (hexDigitOf n) = n := by
  decide

/-- … said by value: for EVERY byte v the words `OP_x<hex v>` and `x<hex v>` (two lower-case hex digits) assemble to
    exactly the byte v -/
theorem btcc_opx_byte (cx : VCtx) (v : UInt8) :
    Model.btcc cx [[79, 80, 95, 120, hexDigitOf (v.toNat / 16), hexDigitOf (v.toNat % 16)]] = .ok [v] ∧
    Model.btcc cx [[120, hexDigitOf (v.toNat / 16), hexDigitOf (v.toNat % 16)]] = .ok [v] := by
  have hv := UInt8.toNat_lt v
  obtain ⟨h1, h2⟩ := hexDigitOf_spec (v.toNat / 16) (by omega)
  obtain ⟨h3, h4⟩ := hexDigitOf_spec (v.toNat % 16) (by omega)
  have := btcc_opx cx _ _ h1 h3
  rw [h2, h4] at this
  have hval : UInt8.ofNat (v.toNat / 16 * 16 + v.toNat % 16) = v := by
    rw [Nat.div_add_mod']
    exact UInt8.ofNat_toNat
  rw [hval] at this
  exact this

/-- REPAIRED FINDING F-C07-opxff (/repo a4419d3): `btcc OP_xff`, `btcc xff` and `btcc OP_xFF` output the byte ff, and a
    bracketed `[OP_xff]` is the one-byte push 01 ff of it, as the specification says; the malformed spellings
    `OP_xf` / `OP_xfff` are outside the grammar (and stay text) -/
theorem btcc_opxff (cx : VCtx) :
    Model.btcc cx [[79, 80, 95, 120, 102, 102]] = .ok [255] ∧
    (Spec.readProgram [[79, 80, 95, 120, 102, 102]]).map Spec.compileToks = some [255] ∧
    Model.btcc cx [[120, 102, 102]] = .ok [255] ∧ Model.btcc cx [[79, 80, 95, 120, 70, 70]] = .ok [255] ∧
    Model.btcc cx [[91, 79, 80, 95, 120, 102, 102, 93]] = .ok [1, 255] ∧
    (Spec.readProgram [[91, 79, 80, 95, 120, 102, 102, 93]]).map Spec.compileToks = some [1, 255] ∧
    Spec.readProgram [[79, 80, 95, 120, 102]] = none ∧ Spec.readProgram [[79, 80, 95, 120, 102, 102, 102]] = none ∧
    Model.btcc cx [[79, 80, 95, 120, 102]] = .ok [5, 79, 80, 95, 120, 102] := by
  have e : ∀ (x : Option (List Spec.Tok)), x.isNone = true → x = none := by
    intro x h; cases x with | none => rfl | some _ => cases h
  refine ⟨(btcc_opx cx 102 102 (by decide) (by decide)).1, by decide +kernel, (btcc_opx cx 102 102 (by decide) (by decide)).2,
    (btcc_opx cx 70 70 (by decide) (by decide)).1, by with_unfolding_all rfl, by decide +kernel,
    e _ (by decide +kernel), e _ (by decide +kernel), by with_unfolding_all rfl⟩

/-- words glued to a group are single words OUTSIDE the grammar — it is the token reader that rejects them
    (`Spec.readProgram` = none: `OP_1[OP_2]` and `[]5` are neither number, opcode, hex nor a bracket) — and the
    implementation assembles them as text: `btcc '[OP_1[OP_2]]'` = 0b0a4f505f315b4f505f325d,
    `btcc '[[]5]'` = 04035b5d35, `btcc '[[OP_2]OP_1]'` = 0b0a5b4f505f325d4f505f31 -/
theorem btcc_glued_out_of_grammar (cx : VCtx) :
    Model.btcc cx [[91, 79, 80, 95, 49, 91, 79, 80, 95, 50, 93, 93]] = .ok [11, 10, 79, 80, 95, 49, 91, 79, 80, 95, 50, 93] ∧ Spec.readProgram [[91, 79, 80, 95, 49, 91, 79, 80, 95, 50, 93, 93]] = none ∧
    Model.btcc cx [[91, 91, 93, 53, 93]] = .ok [4, 3, 91, 93, 53] ∧ Spec.readProgram [[91, 91, 93, 53, 93]] = none ∧
    Model.btcc cx [[91, 91, 79, 80, 95, 50, 93, 79, 80, 95, 49, 93]] = .ok [11, 10, 91, 79, 80, 95, 50, 93, 79, 80, 95, 49] ∧ Spec.readProgram [[91, 91, 79, 80, 95, 50, 93, 79, 80, 95, 49, 93]] = none := by
  have e : ∀ (x : Option (List Spec.Tok)), x.isNone = true → x = none := by
    intro x h; cases x with | none => rfl | some _ => cases h
  refine ⟨by rfl, e _ (by decide +kernel), by with_unfolding_all rfl, e _ (by decide +kernel), by rfl, e _ (by decide +kernel)⟩

/-- a comment directly behind a group (a difference before the fix): `btcc '[[OP_2]#c⏎OP_1]'` = 03015251 -/
theorem btcc_comment_after_group (cx : VCtx) :
    Model.btcc cx [[91, 91, 79, 80, 95, 50, 93, 35, 99, 10, 79, 80, 95, 49, 93]] = .ok [3, 1, 82, 81] ∧
    (Spec.readProgram [[91, 91, 79, 80, 95, 50, 93, 35, 99, 10, 79, 80, 95, 49, 93]]).map Spec.compileToks = some [3, 1, 82, 81] := by
  refine ⟨by with_unfolding_all rfl, by decide +kernel⟩

/-- the hypotheses of `btcc_eq_compile` are satisfiable by a non-trivial program: four command-line words,
    `[OP_1 [ 0x0102 -5 ]#x⏎ 16 [] ]` (nesting, a comment glued to a group, hex, negative and small integers, an
    empty group), `DUP`, and the escapes `OP_xff` and `x00` -/
def exampleProgram : List Bytes := [[91, 79, 80, 95, 49, 32, 91, 32, 48, 120, 48, 49, 48, 50, 32, 45, 53, 32, 93, 35, 120, 10, 32, 49, 54, 32, 91, 93, 32, 93], [68, 85, 80], [79, 80, 95, 120, 102, 102], [120, 48, 48]]

example : ∃ toks, Spec.readProgram exampleProgram = some toks ∧ toksNeed toks ≤ 200 ∧
    ∀ cx, Model.btcc cx exampleProgram = .ok (Spec.compileToks toks) ∧
      Spec.compileToks toks = [9, 81, 5, 2, 1, 2, 1, 133, 96, 0, 118, 255, 0] := by
  have h2 : (Spec.readProgram exampleProgram).map (fun t => decide (toksNeed t ≤ 200)) = some true := by decide +kernel
  have h3 : (Spec.readProgram exampleProgram).map Spec.compileToks = some [9, 81, 5, 2, 1, 2, 1, 133, 96, 0, 118, 255, 0] := by decide +kernel
  cases h : Spec.readProgram exampleProgram with
  | none => rw [h] at h2; cases h2
  | some toks =>
    rw [h] at h2 h3
    simp only [Option.map_some, Option.some.injEq, decide_eq_true_eq] at h2 h3
    exact ⟨toks, rfl, h2, fun cx => ⟨btcc_eq_compile cx exampleProgram toks h h2, h3⟩⟩

end Btcdeb.Proofs.C07Lexer
