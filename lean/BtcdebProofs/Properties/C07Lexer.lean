/-
  C07 — the lexical layer of the assembler equals the grammar.
  (1) `tokenize_eq_splitWords` (Lemmas/C07Tokenize.lean, restated here), (2) `classify_eq_readTok`,
  (3) `btcc_eq_compile`, with the exact side conditions and `rfl`-checked witnesses of the differences.
-/
import Btcdeb
import BtcdebProofs.Properties.C07
import BtcdebProofs.Lemmas.C07Tokenize
import BtcdebProofs.Lemmas.C07Int
import BtcdebProofs.Lemmas.C07Opcode
namespace Btcdeb.Proofs.C07Lexer
open Btcdeb Btcdeb.Model Btcdeb.Proofs.C07Int Btcdeb.Proofs.C07Opcode

/-! ### 1. the tokenizer -/

/-- JOB B.1 — on a non-empty bracket body that satisfies the lexical side condition `Spaced` (every nested
    `[`…`]` group starts where no word is in progress and is followed by a blank or the end; no stray `]`;
    see `spacedGo`), the tokenizer of `Value::parse_args(const char*, size_t)` yields exactly the words of
    `Spec.splitWords`: same separators, `#` comments to the end of the line (brackets inside them ignored at
    depth 0, counted inside a nested group — by both), nested groups kept as one word. `tail` is whatever follows
    the body in memory (the closing `]`, the NUL); any specification fuel above the length works.
    The side condition is needed: see `lexer_differs_glued`, `lexer_differs_after_close`. -/
theorem tokenize_eq_splitWords (body tail : Bytes) (hne : body ≠ []) (hs : Spaced body) (k' : Nat) (hk' : k' > body.length) :
    ∃ ws, Spec.splitWords k' body [] 0 [] = some ws ∧
      tokenize (body ++ tail) body.length (body.length + 2) 0 0 [] = .ok ws :=
  tokenize_eq_splitWords_aux body tail hne hs k' hk'

/-- … and `parse_args` then constructs one value per word (no re-grouping happens: the words are balanced) -/
theorem parseArgsString_eq (mk : Bytes → Nat → VM Value) (body : Bytes) (hne : body ≠ []) (hs : Spaced body) :
    ∃ ws, Spec.splitWords (body.length + 3) body [] 0 [] = some ws ∧
      parseArgsStringWith mk (body ++ [93]) body.length = ws.mapM (fun w => mk w w.length) := by
  obtain ⟨ws, h1, h2⟩ := tokenize_eq_splitWords body [93] hne hs (body.length + 3) (by omega)
  refine ⟨ws, h1, ?_⟩
  have hwords := splitWords_words _ body [] 0 [] ws h1 (by intro _; simp) (by intro h; omega)
  have hgood : ∀ w' ∈ ws, GoodWord w' := by
    intro w' hw'
    rcases hwords w' hw' with h | h
    · cases h
    · exact h.1
  unfold parseArgsStringWith
  have : (body.length == 0) = false := by
    have := List.length_pos_iff.mpr hne
    simp; omega
  simp only [this, Bool.false_eq_true, if_false, h2, bind, Except.bind]
  rw [parseArgsListWith_good _ ws [] [] hgood]
  cases ws.mapM (fun w => mk w w.length) <;> rfl

/-- the two clauses of `Spaced` are needed, at the level of the tokenizer: a word glued in front of a group
    stays glued in the implementation (`OP_1[OP_2]` is ONE word there, two in the specification) … -/
theorem lexer_differs_glued :
    tokenize ([79, 80, 95, 49, 91, 79, 80, 95, 50, 93] ++ [93]) 10 12 0 0 [] = .ok [[79, 80, 95, 49, 91, 79, 80, 95, 50, 93]] ∧
    Spec.splitWords 13 [79, 80, 95, 49, 91, 79, 80, 95, 50, 93] [] 0 [] = some [[79, 80, 95, 49], [91, 79, 80, 95, 50, 93]] ∧
    ¬ Spaced [79, 80, 95, 49, 91, 79, 80, 95, 50, 93] := by
  refine ⟨rfl, rfl, by decide⟩

/-- … and the character directly behind the `]` of a nested group is never looked at by the implementation
    (`[OP_2]OP_1` yields the words `[OP_2]`, `P_1`; the specification reads `[OP_2]`, `OP_1`) -/
theorem lexer_differs_after_close :
    tokenize ([91, 79, 80, 95, 50, 93, 79, 80, 95, 49] ++ [93]) 10 12 0 0 [] = .ok [[91, 79, 80, 95, 50, 93], [80, 95, 49]] ∧
    Spec.splitWords 13 [91, 79, 80, 95, 50, 93, 79, 80, 95, 49] [] 0 [] = some [[91, 79, 80, 95, 50, 93], [79, 80, 95, 49]] ∧
    ¬ Spaced [91, 79, 80, 95, 50, 93, 79, 80, 95, 49] := by
  refine ⟨rfl, rfl, by decide⟩

/-! ### 2. classification of a plain word -/

/-- the text behind an optional `0x` -/
def hexPart (w : Bytes) : Bytes := match w with
  | 48 :: 120 :: r => r
  | r => r

/-- the specification's reading of a word that is neither `0x` nor a bracket -/
theorem readTok_plain (f : Nat) (w : Bytes) (h0x : w ≠ [48, 120]) (hb : w.head? ≠ some 91) :
    Spec.readTok (f + 1) w =
      match Spec.readInt w with
      | some n => some (.int n)
      | none =>
        match Spec.readOpcode w with
        | some c => some (.op c)
        | none =>
          if !(hexPart w).isEmpty && (hexPart w).length % 2 == 0 && (hexPart w).all Spec.isHexDigit
          then some (.hex (Spec.unhexPairs (hexPart w))) else none := by
  rw [Spec.readTok.eq_def]
  simp only
  split
  · exact absurd rfl h0x
  · simp at hb
  · rfl

theorem hexPart_model (w : Bytes) (h0x : w ≠ [48, 120]) :
    (if (decide (w.length > 2) && w.getD 0 0 == 48 && w.getD 1 0 == 120) = true then w.drop 2 else w) = hexPart w ∧
    (hexPart w).length % 2 = w.length % 2 ∧ (w ≠ [] → hexPart w ≠ []) ∧ (∀ c ∈ hexPart w, c ∈ w) := by
  match w with
  | [] => simp [hexPart]
  | [a] => simp [hexPart]
  | [a, b] =>
    have : hexPart [a, b] = [a, b] := by
      unfold hexPart; split
      · rename_i r heq; simp at heq; exact absurd (by rw [heq.1, heq.2.1]) h0x
      · rfl
    rw [this]; simp
  | a :: b :: c :: r =>
    by_cases h : a = 48 ∧ b = 120
    · obtain ⟨rfl, rfl⟩ := h
      have : hexPart (48 :: 120 :: c :: r) = c :: r := rfl
      rw [this]
      refine ⟨by simp, by simp; omega, by simp, ?_⟩
      intro x hx; simp at hx ⊢; rcases hx with h | h <;> simp [h]
    · have : hexPart (a :: b :: c :: r) = a :: b :: c :: r := by
        unfold hexPart; split
        · rename_i r' heq; simp at heq; exact absurd ⟨heq.1, heq.2.1⟩ h
        · rfl
      rw [this]
      refine ⟨?_, rfl, by simp, fun _ h => h⟩
      have : (a == 48 && b == 120) = false := by
        cases h1 : (a == 48 && b == 120)
        · rfl
        · simp at h1; exact absurd h1 h
      simp only [List.getD_cons_zero, List.getD_cons_succ, Bool.and_assoc, this, Bool.and_false, Bool.false_eq_true, if_false]


/-- the hexadecimal branch of `Value(const char*)` against the specification's hex test -/
theorem hex_branch (w : Bytes) (hne : w ≠ []) (h0x : w ≠ [48, 120]) (hsp : ∀ c ∈ w, isSpaceC c = false) :
    (if w.length % 2 == 0 then
      tryHex (if (decide (w.length > 2) && w.getD 0 0 == 48 && w.getD 1 0 == 120) = true then w.drop 2 else w)
     else none) =
    (if !(hexPart w).isEmpty && (hexPart w).length % 2 == 0 && (hexPart w).all Spec.isHexDigit
     then some (Spec.unhexPairs (hexPart w)) else none) := by
  obtain ⟨hm, hpar, hnn, hsub⟩ := hexPart_model w h0x
  rw [hm]
  have hne' : (hexPart w).isEmpty = false := by
    cases h : hexPart w with
    | nil => exact absurd h (hnn hne)
    | cons _ _ => rfl
  simp only [hne', Bool.not_false, Bool.true_and, hpar]
  by_cases hev : w.length % 2 = 0
  · simp only [hev, beq_self_eq_true, if_true, Bool.true_and]
    by_cases hall : (hexPart w).all Spec.isHexDigit = true
    · rw [if_pos hall]; exact tryHex_of_allHex _ hall (by omega)
    · rw [if_neg hall]
      cases ht : tryHex (hexPart w) with
      | none => rfl
      | some d => exact absurd (tryHex_some_allHex _ d (fun c hc => hsp c (hsub c hc)) ht).1 hall
  · have : (w.length % 2 == 0) = false := by simpa using hev
    simp [this]

/-- what the hex test leaves: data, or the value as it was (a string) -/
def hexResult (cur : Value) (n : Int) : Option Bytes → Value
  | some d => { cur with int64 := n, opcode := 0xff, data := d, type := .T_DATA }
  | none => { cur with int64 := n, opcode := 0xff }

/-- `classifyPlain` with its three tests named -/
theorem classifyPlain_eq (cur : Value) (w : Bytes) :
    classifyPlain cur w w.length =
      if isIntWord w = true then .ok { cur with int64 := cAtoi 64 w, type := .T_INT }
      else if (getOpCode w != 0xff) = true then .ok { cur with int64 := cAtoi 64 w, opcode := getOpCode w, type := .T_OPCODE }
      else .ok (hexResult cur (cAtoi 64 w) (if w.length % 2 == 0 then
        tryHex (if (decide (w.length > 2) && w.getD 0 0 == 48 && w.getD 1 0 == 120) = true then w.drop 2 else w)
        else none)) := by
  unfold classifyPlain
  have hint : ((cAtoi 64 w != 0 || w == [48]) && intDecimal (cAtoi 64 w) == w) = isIntWord w := rfl
  simp only [hint]
  split
  · rfl
  · split
    · rfl
    · split
      · split <;> rename_i heq <;> simp only [heq, hexResult]
      · rfl

/-- JOB B.2 — the tail of `Value(const char*, vlen)` (number, opcode, hex, else string; `classifyPlain`)
    agrees with the specification's reading of the word (`Spec.readInt`, `Spec.readOpcode`, hex literal), for
    every word that is not `0x`, does not start a bracket, and contains no C white space (none can: the tokenizer
    and the shell split at blanks; `\v`/`\f` would be skipped by TryHex):
    decimal integers in canonical form within int64 ↦ T_INT, opcode names with or without OP_ and OP_xNN ↦ T_OPCODE,
    hex with or without 0x ↦ T_DATA, anything else stays a string — EXCEPT the word(s) the specification reads
    as opcode 255 (`xff`, `OP_xff`), which the implementation leaves a string (known finding F-C07-opxff). -/
theorem classify_eq_readTok (cur : Value) (w : Bytes) (f : Nat) (hne : w ≠ []) (h0x : w ≠ [48, 120])
    (hb : w.head? ≠ some 91) (hsp : ∀ c ∈ w, isSpaceC c = false) :
    classifyPlain cur w w.length = .ok (match Spec.readTok (f + 1) w with
      | some (.int n) => { cur with int64 := n, type := .T_INT }
      | some (.op c) => if c = 255 then { cur with int64 := cAtoi 64 w, opcode := 0xff }
                        else { cur with int64 := cAtoi 64 w, opcode := c, type := .T_OPCODE }
      | some (.hex d) => { cur with int64 := cAtoi 64 w, opcode := 0xff, data := d, type := .T_DATA }
      | _ => { cur with int64 := cAtoi 64 w, opcode := 0xff }) := by
  rw [readTok_plain f w h0x hb, classifyPlain_eq, hex_branch w hne h0x hsp]
  cases hri : Spec.readInt w with
  | some n =>
    have h1 : isIntWord w = true := (int_word_iff w).mpr ⟨n, hri⟩
    have h2 := readInt_eq_cAtoi w n hri
    simp [h1, h2]
  | none =>
    have h1 : isIntWord w = false := by
      cases h : isIntWord w
      · rfl
      · obtain ⟨n, hn⟩ := (int_word_iff w).mp h; rw [hn] at hri; cases hri
    simp only [h1, Bool.false_eq_true, if_false]
    rw [getOpCode_eq_readOpcode]
    cases hro : Spec.readOpcode w with
    | some c =>
      simp only [Option.getD_some]
      by_cases hc : c = 255
      · subst hc
        simp only [bne_self_eq_false, Bool.false_eq_true, if_false, if_true]
        -- `xff` has odd length, `OP_xff` starts with a character that is no hex digit
        obtain ⟨a, b, hw, _, _, _, _⟩ := (readOpcode_255 w).mp hro
        rcases hw with rfl | rfl
        · have : hexPart [120, a, b] = [120, a, b] := rfl
          rw [this]; simp [hexResult]
        · have : hexPart [79, 80, 95, 120, a, b] = [79, 80, 95, 120, a, b] := rfl
          rw [this]
          have : ([79, 80, 95, 120, a, b] : Bytes).all Spec.isHexDigit = false := by
            simp [Spec.isHexDigit]
          simp [this, hexResult]
      · have : (c != 255) = true := by simpa using hc
        simp [this, hc]
    | none =>
      simp only [Option.getD_none, bne_self_eq_false, Bool.false_eq_true, if_false]
      split <;> rename_i heq <;> simp [hexResult]


/-! ### 3. whole programs -/

mutual
/-- no token is the escape for opcode byte 0xff (known finding F-C07-opxff) -/
def tokOk : Spec.Tok → Bool
  | .op c => c != 255
  | .sub b => toksOk b
  | _ => true
def toksOk : List Spec.Tok → Bool
  | [] => true
  | t :: ts => tokOk t && toksOk ts
end

theorem toksOk_mem : ∀ (ts : List Spec.Tok), toksOk ts = true → ∀ t ∈ ts, tokOk t = true := by
  intro ts
  induction ts with
  | nil => intro _ t ht; cases ht
  | cons a ts ih =>
    intro h t ht
    rw [toksOk] at h
    simp only [Bool.and_eq_true] at h
    rcases List.mem_cons.mp ht with rfl | ht
    · exact h.1
    · exact ih h.2 t ht

/-- the lexical side condition of `Spaced`, for a word and, recursively, for the words of every nested
    bracket body (`f` = the fuel `Spec.readTok` is run with) -/
def spacedWord : Nat → Bytes → Bool
  | 0, _ => true
  | f + 1, w =>
    match w with
    | 91 :: rest =>
      spacedGo (.plain true) rest.dropLast &&
        (match Spec.splitWords (rest.length + 2) rest.dropLast [] 0 [] with
         | some ws => ws.all (spacedWord f)
         | none => true)
    | _ => true

/-- appending the value to a script emits exactly what the token must compile to -/
def Emits (v : Value) (t : Spec.Tok) : Prop := ∀ s, v.appendTo s = .ok (s ++ Spec.compileTok t)

def EmitsAll : List Value → List Spec.Tok → Prop
  | [], [] => True
  | v :: vs, t :: ts => Emits v t ∧ EmitsAll vs ts
  | _, _ => False

theorem appendAll_emits : ∀ (vs : List Value) (ts : List Spec.Tok), EmitsAll vs ts →
    ∀ s, appendAll vs s = .ok (s ++ Spec.compileToks ts) := by
  intro vs
  induction vs with
  | nil =>
    intro ts h s
    cases ts with
    | nil => simp [appendAll, Spec.compileToks]
    | cons _ _ => exact h.elim
  | cons v vs ih =>
    intro ts h s
    cases ts with
    | nil => exact h.elim
    | cons t ts =>
      obtain ⟨h1, h2⟩ := h
      rw [appendAll]
      simp only [h1 s, bind, Except.bind]
      rw [ih ts h2, Spec.compileToks, List.append_assoc]

theorem mapM_corr (rd : Bytes → Option Spec.Tok) (mk' : Bytes → VM Value) : ∀ (ws : List Bytes) (toks : List Spec.Tok),
    ws.mapM rd = some toks → (∀ w ∈ ws, ∀ t ∈ toks, rd w = some t → ∃ v, mk' w = .ok v ∧ Emits v t) →
    ∃ vs, ws.mapM mk' = .ok vs ∧ EmitsAll vs toks := by
  intro ws
  induction ws with
  | nil =>
    intro toks h _
    simp at h; subst h
    exact ⟨[], by simp [pure, Except.pure], trivial⟩
  | cons w rest ih =>
    intro toks h hc
    rw [List.mapM_cons] at h
    cases hw : rd w with
    | none => rw [hw] at h; simp at h
    | some t =>
      rw [hw] at h
      cases hr : rest.mapM rd with
      | none => rw [hr] at h; simp at h
      | some ts =>
        rw [hr] at h
        simp at h; subst h
        obtain ⟨v, hv, he⟩ := hc w (by simp) t (by simp) hw
        obtain ⟨vs, hvs, hes⟩ := ih ts hr (fun w' hw' t' ht' => hc w' (by simp [hw']) t' (by simp [ht']))
        refine ⟨v :: vs, ?_, he, hes⟩
        rw [List.mapM_cons, hv, hvs]; rfl

/-! #### plain words -/

theorem isDigit_chars {c : UInt8} (h : isDigit c = true) : isSpaceC c = false ∧ c ≠ 41 := by
  unfold isDigit at h; unfold isSpaceC
  simp at h ⊢
  refine ⟨⟨by omega, by omega⟩, ?_⟩
  intro hc; rw [hc] at h; simp at h

/-- a word the specification reads as a plain token has no white space and no `)` -/
theorem plain_chars (f : Nat) (w : Bytes) (t : Spec.Tok) (h0x : w ≠ [48, 120]) (hb : w.head? ≠ some 91)
    (h : Spec.readTok (f + 1) w = some t) : w ≠ [] ∧ ∀ c ∈ w, isSpaceC c = false ∧ c ≠ 41 := by
  rw [readTok_plain f w h0x hb] at h
  cases hri : Spec.readInt w with
  | some n =>
    rcases readInt_some w n hri with ⟨rfl, _⟩ | ⟨d, rest, rfl, hall, _⟩ | ⟨d, rest, rfl, hall, _⟩
    · refine ⟨by simp, ?_⟩; intro c hc; simp at hc; subst hc; decide
    · refine ⟨by simp, ?_⟩
      intro c hc; exact isDigit_chars (List.all_eq_true.mp hall c hc)
    · refine ⟨by simp, ?_⟩
      intro c hc
      rcases List.mem_cons.mp hc with rfl | hc
      · decide
      · exact isDigit_chars (List.all_eq_true.mp hall c hc)
  | none =>
    rw [hri] at h
    cases hro : Spec.readOpcode w with
    | some c =>
      obtain ⟨hne, hch⟩ := readOpcode_chars w c hro
      refine ⟨hne, ?_⟩
      intro b hb'
      have := hch b hb'
      unfold isSpaceC
      refine ⟨by simp; omega, ?_⟩
      intro hc; rw [hc] at this; simp at this
    | none =>
      rw [hro] at h
      simp only at h
      split at h
      · rename_i hcond
        simp only [Bool.and_eq_true, Bool.not_eq_true', beq_iff_eq] at hcond
        obtain ⟨⟨hne, _⟩, hall⟩ := hcond
        have hhex : ∀ c ∈ hexPart w, isSpaceC c = false ∧ c ≠ 41 := by
          intro c hc
          have h1 := List.all_eq_true.mp hall c hc
          refine ⟨(hexDigitVal_of_isHexDigit c h1).2, ?_⟩
          intro hcc; rw [hcc] at h1; simp [Spec.isHexDigit] at h1
        have hwne : w ≠ [] := by
          intro hw; rw [hw] at hne; simp [hexPart] at hne
        refine ⟨hwne, ?_⟩
        -- w is its hex part, possibly behind `0x`
        match w, hhex with
        | [], _ => intro c hc; cases hc
        | [a], hhex =>
          have : hexPart [a] = [a] := by
            unfold hexPart; split
            · rename_i r' heq; simp at heq
            · rfl
          rw [this] at hhex; exact hhex
        | a :: b :: r, hhex =>
          by_cases hab : a = 48 ∧ b = 120
          · obtain ⟨rfl, rfl⟩ := hab
            have : hexPart (48 :: 120 :: r) = r := rfl
            rw [this] at hhex
            intro c hc
            rcases List.mem_cons.mp hc with rfl | hc
            · decide
            · rcases List.mem_cons.mp hc with rfl | hc
              · decide
              · exact hhex c hc
          · have : hexPart (a :: b :: r) = a :: b :: r := by
              unfold hexPart; split
              · rename_i r' heq; simp at heq; exact absurd ⟨heq.1, heq.2.1⟩ hab
              · rfl
            rw [this] at hhex; exact hhex
      · cases h


theorem getD_mem (w : Bytes) (i : Nat) (h : i < w.length) : w.getD i 0 ∈ w := by
  rw [List.getD_eq_getElem?_getD, List.getElem?_eq_getElem h]
  exact List.getElem_mem h

/-- a plain word goes straight to the classification (it is not `0x`, not a bracket, not `name(arg)`) -/
theorem valueBody_plain (cx : VCtx) (mk : Bytes → Nat → VM Value) (w : Bytes) (hne : w ≠ []) (h0x : w ≠ [48, 120])
    (hb : w.head? ≠ some 91) (h41 : ∀ c ∈ w, c ≠ 41) :
    valueBody cx mk w w.length = classifyPlain { type := .T_STRING, str := w } w w.length := by
  have hlen : 0 < w.length := List.length_pos_iff.mpr hne
  unfold valueBody
  have c1 : (w.length == 0) = false := by simp; omega
  simp only [c1, Bool.false_eq_true, if_false]
  have c2 : (w.length == 2 && w.getD 0 0 == 48 && w.getD 1 0 == 120) = false := by
    cases hc : (w.length == 2 && w.getD 0 0 == 48 && w.getD 1 0 == 120)
    · rfl
    · exfalso; apply h0x
      simp only [Bool.and_eq_true, beq_iff_eq] at hc
      obtain ⟨⟨h1, h2⟩, h3⟩ := hc
      match w, h1 with
      | [a, b], _ => simp at h2 h3; rw [h2, h3]
  have c3 : (decide (w.length > 1) && w.getD 0 0 == 91 && w.getD (w.length - 1) 0 == 93) = false := by
    have : (w.getD 0 0 == 91) = false := by
      cases w with
      | nil => exact absurd rfl hne
      | cons a r =>
        simp at hb ⊢; exact hb
    simp only [this, Bool.and_false, Bool.false_and]
  have c4 : ∀ i, (decide (w.length > 3) && w.getD (w.length - 1) 0 == 41 && w.getD i 0 == 40) = false := by
    intro i
    have : (w.getD (w.length - 1) 0 == 41) = false := by
      have := h41 _ (getD_mem w (w.length - 1) (by omega))
      simpa using this
    simp only [this, Bool.and_false, Bool.false_and]
  simp only [c2, c3, c4, Bool.false_eq_true, if_false]

theorem valueBody_bracket (cx : VCtx) (mk : Bytes → Nat → VM Value) (body : Bytes) :
    valueBody cx mk (91 :: (body ++ [93])) (91 :: (body ++ [93])).length =
      (parseArgsStringWith mk (body ++ [93]) body.length).bind fun vs =>
        (appendAll vs []).bind fun s =>
          .ok { type := .T_DATA, str := 91 :: (body ++ [93]), data := s } := by
  unfold valueBody
  have c1 : ((91 :: (body ++ [93])).length == 0) = false := by simp
  simp only [c1, Bool.false_eq_true, if_false]
  have c2 : ((91 :: (body ++ [93])).length == 2 && (91 :: (body ++ [93])).getD 0 0 == 48 && (91 :: (body ++ [93])).getD 1 0 == 120) = false := by
    simp
  have hlast : (91 :: (body ++ [93])).getD ((91 :: (body ++ [93])).length - 1) 0 = 93 := by
    have : (91 :: (body ++ [93])).length - 1 = body.length + 1 := by simp
    rw [this, List.getD_cons_succ, List.getD_eq_getElem?_getD, List.getElem?_append_right (Nat.le_refl _)]
    simp
  have c3 : (decide ((91 :: (body ++ [93])).length > 1) && (91 :: (body ++ [93])).getD 0 0 == 91 &&
      (91 :: (body ++ [93])).getD ((91 :: (body ++ [93])).length - 1) 0 == 93) = true := by
    rw [hlast]; simp
  simp only [c2, Bool.false_eq_true, if_false, c3, if_true]
  have hd : (91 :: (body ++ [93])).drop 1 = body ++ [93] := rfl
  have hl : (91 :: (body ++ [93])).length - 2 = body.length := by simp
  rw [hd, hl]
  rfl

theorem count91_bracket (body : Bytes) : count91 (91 :: (body ++ [93])) = count91 body + 1 := by
  unfold count91
  rw [List.count_cons, List.count_append]
  simp

/-- THE RECURSION (nesting): whenever the specification reads a word as a token — with whatever fuel — the
    `Value` constructor run with more fuel than the word has `[` characters yields a value that emits
    exactly the token's compilation. The fuel `btcc` provides is enough (see `btcc_eq_compile`). -/
theorem valueOf_readTok (cx : VCtx) : ∀ (fm : Nat) (w : Bytes) (fs : Nat) (t : Spec.Tok),
    count91 w < fm → Spec.readTok fs w = some t → tokOk t = true → spacedWord fs w = true →
    ∃ v, valueOf cx fm w w.length = .ok v ∧ Emits v t := by
  intro fm
  induction fm with
  | zero => intro w fs t h; omega
  | succ fm ih =>
    intro w fs t hcnt hread hok hsp
    cases fs with
    | zero => simp [Spec.readTok] at hread
    | succ fs =>
    rw [valueOf]
    show ∃ v, valueBody cx (valueOf cx fm) w w.length = .ok v ∧ Emits v t
    by_cases h0x : w = [48, 120]
    · -- `0x`: the empty push
      subst h0x
      rw [Spec.readTok] at hread
      simp only [Option.some.injEq] at hread; subst hread
      refine ⟨{ type := .T_DATA, data := [] }, rfl, ?_⟩
      intro s
      exact C07.data_emits_minimal { type := .T_DATA, data := [] } rfl s
    · by_cases hb : w.head? = some 91
      · -- a bracketed sub-script
        obtain ⟨rest, rfl⟩ : ∃ rest, w = 91 :: rest := by
          cases w with
          | nil => simp at hb
          | cons a r => simp at hb; exact ⟨r, by rw [hb]⟩
        rw [Spec.readTok] at hread
        cases hlast : (rest.getLast? == some 93)
        · rw [hlast] at hread; simp at hread
        · rw [hlast] at hread
          simp only [if_true] at hread
          obtain ⟨body, rfl⟩ := List.getLast?_eq_some_iff.mp (by simpa using hlast)
          have hdl : (body ++ [93]).dropLast = body := by simp
          rw [hdl] at hread
          rw [spacedWord] at hsp
          simp only [hdl, Bool.and_eq_true] at hsp
          obtain ⟨hspb, hspw⟩ := hsp
          cases hsw : Spec.splitWords ((body ++ [93]).length + 2) body [] 0 [] with
          | none => rw [hsw] at hread; simp at hread
          | some ws =>
            rw [hsw] at hread hspw
            simp only at hread hspw
            cases hm : ws.mapM (Spec.readTok fs) with
            | none => rw [hm] at hread; simp at hread
            | some toks =>
              rw [hm] at hread
              simp only [Option.map_some, Option.some.injEq] at hread
              subst hread
              rw [tokOk] at hok
              -- the words of the body
              have hwords := splitWords_words _ body [] 0 [] ws hsw (by intro _; simp) (by intro h; omega)
              have hgood : ∀ w' ∈ ws, GoodWord w' := by
                intro w' hw'
                rcases hwords w' hw' with h | h
                · cases h
                · exact h.1
              have hcnt' : ∀ w' ∈ ws, count91 w' < fm := by
                intro w' hw'
                rcases hwords w' hw' with h | h
                · cases h
                · have := h.2; rw [count91_bracket] at hcnt
                  have h0 : count91 ([] : Bytes) = 0 := rfl
                  omega
              -- the tokenizer yields these words
              have htok : parseArgsStringWith (valueOf cx fm) (body ++ [93]) body.length =
                  (ws.mapM (fun w' => valueOf cx fm w' w'.length)).bind (fun xs => .ok xs) := by
                by_cases hbe : body = []
                · subst hbe
                  have : ws = [] := by
                    rw [Spec.splitWords] at hsw; simp at hsw; exact hsw
                  subst this
                  rfl
                · obtain ⟨ws', h1, h2⟩ := tokenize_eq_splitWords_aux body [93] hbe hspb ((body ++ [93]).length + 2)
                    (by simp; omega)
                  rw [hsw] at h1; cases h1
                  unfold parseArgsStringWith
                  have : (body.length == 0) = false := by
                    have := List.length_pos_iff.mpr hbe
                    simp; omega
                  simp only [this, Bool.false_eq_true, if_false, h2, bind, Except.bind]
                  rw [parseArgsListWith_good _ ws [] [] hgood]
                  cases ws.mapM (fun w => valueOf cx fm w w.length) <;> rfl
              -- every word is read correctly (induction hypothesis)
              obtain ⟨vs, hvs, hes⟩ := mapM_corr (Spec.readTok fs) (fun w' => valueOf cx fm w' w'.length) ws toks hm
                (by
                  intro w' hw' t' ht' hr'
                  exact ih w' fs t' (hcnt' w' hw') hr' (toksOk_mem toks hok t' ht')
                    (List.all_eq_true.mp hspw w' hw'))
              rw [valueBody_bracket, htok, hvs]
              simp only [Except.bind]
              rw [appendAll_emits vs toks hes []]
              simp only [List.nil_append]
              refine ⟨_, rfl, ?_⟩
              intro s
              rw [C07.data_emits_minimal _ rfl s]
              rfl
      · -- a plain word
        obtain ⟨hne, hch⟩ := plain_chars fs w t h0x hb hread
        rw [valueBody_plain cx _ w hne h0x hb (fun c hc => (hch c hc).2)]
        rw [classify_eq_readTok _ w fs hne h0x hb (fun c hc => (hch c hc).1), hread]
        cases t with
        | int n =>
          refine ⟨_, rfl, ?_⟩
          intro s
          show Except.ok (s ++ pushInt64 n) = _
          rw [C07.int_emits_minimal]; rfl
        | op c =>
          rw [tokOk] at hok
          have hc : c ≠ 255 := by simpa using hok
          simp only [hc, if_false]
          refine ⟨_, rfl, ?_⟩
          intro s; rfl
        | hex d =>
          refine ⟨_, rfl, ?_⟩
          intro s
          rw [C07.data_emits_minimal _ rfl s]; rfl
        | sub b =>
          -- a plain word is never read as a sub-script
          exfalso
          rw [readTok_plain fs w h0x hb] at hread
          cases hri : Spec.readInt w with
          | some n => rw [hri] at hread; cases hread
          | none =>
            rw [hri] at hread
            cases hro : Spec.readOpcode w with
            | some c => rw [hro] at hread; cases hread
            | none =>
              rw [hro] at hread
              simp only at hread
              split at hread <;> cases hread


theorem foldl_len : ∀ (ws : List Bytes) (n : Nat),
    ws.foldl (fun n a => n + a.length) n = n + (ws.map List.length).sum := by
  intro ws
  induction ws with
  | nil => intro n; simp
  | cons a ws ih => intro n; simp only [List.foldl_cons, ih, List.map_cons, List.sum_cons]; omega

theorem count91_le (w : Bytes) : count91 w ≤ w.length := List.count_le_length

theorem groupWords_count : ∀ (ws : List Bytes) (cur : Bytes) (d : Int) (acc : List Bytes),
    ∀ w ∈ Spec.groupWords ws cur d acc, w ∈ acc ∨ count91 w ≤ count91 cur + (ws.map List.length).sum := by
  intro ws
  induction ws with
  | nil => intro cur d acc w hw; rw [Spec.groupWords] at hw; exact Or.inl (by simpa using hw)
  | cons v rest ih =>
    intro cur d acc w hw
    rw [Spec.groupWords] at hw
    have hv := count91_le v
    have hcur' : count91 (cur ++ [32] ++ v) = count91 cur + count91 v := by
      unfold count91; simp [List.count_append]
    simp only [List.map_cons, List.sum_cons]
    dsimp only at hw
    split at hw
    · split at hw
      · rcases ih _ _ _ w hw with h | h
        · rcases List.mem_cons.mp h with rfl | h
          · exact Or.inr (by rw [hcur']; omega)
          · exact Or.inl h
        · have h0 : count91 ([] : Bytes) = 0 := rfl
          exact Or.inr (by omega)
      · rcases ih _ _ _ w hw with h | h
        · exact Or.inl h
        · exact Or.inr (by rw [hcur'] at h; omega)
    · split at hw
      · rcases ih _ _ _ w hw with h | h
        · exact Or.inl h
        · exact Or.inr (by omega)
      · split at hw
        · rcases ih _ _ _ w hw with h | h
          · exact Or.inl h
          · exact Or.inr (by omega)
        · rcases ih _ _ _ w hw with h | h
          · rcases List.mem_cons.mp h with rfl | h
            · exact Or.inr (by omega)
            · exact Or.inl h
          · exact Or.inr (by omega)

/-- JOB B.3 — for every program inside the grammar (`Spec.readProgram` reads the command-line words as
    tokens), without the escape for byte 0xff (known finding) and with nested bracket groups delimited by
    blanks at every nesting level (`spacedWord`; see `lexer_differs_*` for what happens otherwise),
    `btcc` outputs exactly the specified compilation: opcode byte / minimal push of the number / minimal push of
    the hex bytes / minimal push of the compiled body, in order, to any nesting depth. In particular the nesting
    fuel of the model (`valueOf`) never runs out. -/
theorem btcc_eq_compile (cx : VCtx) (ws : List Bytes) (toks : List Spec.Tok)
    (hread : Spec.readProgram ws = some toks) (hok : toksOk toks = true)
    (hsp : ∀ w ∈ Spec.groupWords ws [] 0 [], spacedWord (w.length + 2) w = true) :
    Model.btcc cx ws = .ok (Spec.compileToks toks) := by
  unfold btcc parseArgsList
  simp only [bind, Except.bind]
  rw [parseArgsListWith_group]
  unfold Spec.readProgram at hread
  obtain ⟨vs, hvs, hes⟩ := mapM_corr (fun w => Spec.readTok (w.length + 2) w)
    (fun w => valueOf cx (ws.foldl (fun n a => n + a.length) 0 + 4) w w.length) _ toks hread
    (by
      intro w hw t ht hr
      apply valueOf_readTok cx _ w (w.length + 2) t ?_ hr (toksOk_mem toks hok t ht) (hsp w hw)
      rcases groupWords_count ws [] 0 [] w hw with h | h
      · cases h
      · rw [foldl_len]
        have h0 : count91 ([] : Bytes) = 0 := rfl
        omega)
  rw [hvs]
  simp only [Except.bind, List.reverse_nil, List.nil_append]
  rw [appendAll_emits vs toks hes []]
  simp

theorem spacedWord_plain (f : Nat) (w : Bytes) (hb : w.head? ≠ some 91) : spacedWord f w = true := by
  cases f with
  | zero => rfl
  | succ f =>
    rw [spacedWord.eq_def]
    simp only
    split
    · simp at hb
    · rfl

theorem groupWords_flat : ∀ (ws : List Bytes) (cur : Bytes) (acc : List Bytes), (∀ w ∈ ws, w.head? ≠ some 91) →
    ∀ w ∈ Spec.groupWords ws cur 0 acc, w ∈ acc ∨ w ∈ ws := by
  intro ws
  induction ws with
  | nil => intro cur acc _ w hw; rw [Spec.groupWords] at hw; exact Or.inl (by simpa using hw)
  | cons v rest ih =>
    intro cur acc hws w hw
    rw [Spec.groupWords] at hw
    have h1 : ¬ ((0 : Int) > 0) := by decide
    have h3 : (v.head? == some 91 && decide (Spec.bracketBalance v > 0)) = false := by
      have : (v.head? == some 91) = false := by simpa using hws v (by simp)
      simp [this]
    simp only [h1, if_false, h3, Bool.false_eq_true] at hw
    split at hw
    · rcases ih _ _ (fun w hw => hws w (by simp [hw])) w hw with h | h
      · exact Or.inl h
      · exact Or.inr (by simp [h])
    · rcases ih _ _ (fun w hw => hws w (by simp [hw])) w hw with h | h
      · rcases List.mem_cons.mp h with rfl | h
        · exact Or.inr (by simp)
        · exact Or.inl h
      · exact Or.inr (by simp [h])

/-- the flat case: a program without bracket groups needs no lexical side condition at all -/
theorem btcc_eq_compile_flat (cx : VCtx) (ws : List Bytes) (toks : List Spec.Tok)
    (hread : Spec.readProgram ws = some toks) (hok : toksOk toks = true) (hflat : ∀ w ∈ ws, w.head? ≠ some 91) :
    Model.btcc cx ws = .ok (Spec.compileToks toks) := by
  apply btcc_eq_compile cx ws toks hread hok
  intro w hw
  rcases groupWords_flat ws [] [] hflat w hw with h | h
  · cases h
  · exact spacedWord_plain _ w (hflat w h)

/-! ### the differences, as checked witnesses (all reproduced on the real `btcc`, see the report) -/

/-- KNOWN FINDING F-C07-opxff: `btcc OP_xff` pushes the six ASCII characters instead of emitting byte ff,
    while the specification reads the word as opcode 255 -/
theorem btcc_opxff (cx : VCtx) :
    Model.btcc cx [[79, 80, 95, 120, 102, 102]] = .ok [6, 79, 80, 95, 120, 102, 102] ∧
    (Spec.readProgram [[79, 80, 95, 120, 102, 102]]).map Spec.compileToks = some [255] := by
  refine ⟨rfl, by decide +kernel⟩


/-- SPEC/IMPLEMENTATION DIFFERENCE 1 (reproduced on btcc): a word directly in front of a nested group.
    `btcc '[OP_1[OP_2]]'` prints 0b0a4f505f315b4f505f325d (push of the ASCII text `OP_1[OP_2]`);
    the grammar reads OP_1 followed by the sub-script [OP_2]: 03510152 -/
theorem btcc_differs_glued (cx : VCtx) :
    Model.btcc cx [[91, 79, 80, 95, 49, 91, 79, 80, 95, 50, 93, 93]] = .ok [11, 10, 79, 80, 95, 49, 91, 79, 80, 95, 50, 93] ∧
    (Spec.readProgram [[91, 79, 80, 95, 49, 91, 79, 80, 95, 50, 93, 93]]).map Spec.compileToks = some [3, 81, 1, 82] := by
  refine ⟨rfl, by decide +kernel⟩

/-- SPEC/IMPLEMENTATION DIFFERENCE 2 (reproduced on btcc): the character behind a nested group's `]` is lost.
    `btcc '[[]5]'` prints 0100 (the 5 is dropped silently); the grammar reads the sub-script [] and the number 5: 020055.
    `btcc '[[OP_2]#c\nOP_1]'` prints 050152016351 (the `#` is dropped, so `c` is assembled as a string);
    the grammar skips the comment: 03015251 -/
theorem btcc_differs_after_close (cx : VCtx) :
    Model.btcc cx [[91, 91, 93, 53, 93]] = .ok [1, 0] ∧
    (Spec.readProgram [[91, 91, 93, 53, 93]]).map Spec.compileToks = some [2, 0, 85] ∧
    Model.btcc cx [[91, 91, 79, 80, 95, 50, 93, 35, 99, 10, 79, 80, 95, 49, 93]] = .ok [5, 1, 82, 1, 99, 81] ∧
    (Spec.readProgram [[91, 91, 79, 80, 95, 50, 93, 35, 99, 10, 79, 80, 95, 49, 93]]).map Spec.compileToks = some [3, 1, 82, 81] := by
  refine ⟨by rfl, by decide +kernel, by with_unfolding_all rfl, by decide +kernel⟩

/-- the hypotheses of `btcc_eq_compile` are satisfiable by a non-trivial program: two command-line words,
    `[OP_1 [ 0x0102 -5 ] #x⏎ 16 [] ]` (nesting, a comment, hex, negative and small integers, an empty group)
    and `DUP` -/
def exampleProgram : List Bytes := [[91, 79, 80, 95, 49, 32, 91, 32, 48, 120, 48, 49, 48, 50, 32, 45, 53, 32, 93, 32, 35, 120, 10, 32, 49, 54, 32, 91, 93, 32, 93], [68, 85, 80]]

example : ∃ toks, Spec.readProgram exampleProgram = some toks ∧ toksOk toks = true ∧
    (∀ w ∈ Spec.groupWords exampleProgram [] 0 [], spacedWord (w.length + 2) w = true) ∧
    ∀ cx, Model.btcc cx exampleProgram = .ok (Spec.compileToks toks) ∧
      Spec.compileToks toks = [9, 81, 5, 2, 1, 2, 1, 133, 96, 0, 118] := by
  have h1 : (Spec.readProgram exampleProgram).map toksOk = some true := by decide +kernel
  have h2 : (Spec.groupWords exampleProgram [] 0 []).all (fun w => spacedWord (w.length + 2) w) = true := by decide +kernel
  have h3 : (Spec.readProgram exampleProgram).map Spec.compileToks = some [9, 81, 5, 2, 1, 2, 1, 133, 96, 0, 118] := by decide +kernel
  cases h : Spec.readProgram exampleProgram with
  | none => rw [h] at h1; cases h1
  | some toks =>
    rw [h] at h1 h3
    simp only [Option.map_some, Option.some.injEq] at h1 h3
    have hsp := fun w hw => List.all_eq_true.mp h2 w hw
    exact ⟨toks, rfl, h1, hsp, fun cx => ⟨btcc_eq_compile cx exampleProgram toks h h1 hsp, h3⟩⟩

end Btcdeb.Proofs.C07Lexer
