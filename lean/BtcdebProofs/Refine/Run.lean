/-
  Whole-script refinement: stepping the debugger through a script, operation by operation, against the
  specification's evaluation of the decoded instruction list.  Unbounded script length.
-/
import BtcdebProofs.Refine.Step
import BtcdebProofs.Lemmas.Weight
import BtcdebProofs.Lemmas.Session
namespace Btcdeb.Refine
open Btcdeb Model

/-- the debugger stepped until the end of the current script (or the first failure): the states after
    each successful operation, and the outcome -/
def runOps (cx : Ctx) (tc : TapCtx) : Nat → IEnv → List IEnv × Except StepErr IEnv
  | 0, e => ([], .ok e)
  | n + 1, e =>
    if e.pc.isEmpty then ([], .ok e)
    else match stepSession cx tc e with
      | .ok e' => let r := runOps cx tc n e'; (e' :: r.1, r.2)
      | .error x => ([], .error x)

theorem rel_opcodePos {e : SEE} {st : Spec.St} (h : Rel e st) (n : Nat) : Rel { e with opcodePos := n } st := by
  obtain ⟨hs, ha, hcond, hop, hcf, hcs, hwl, hwi⟩ := h
  constructor <;> simp_all

theorem cfgRel_opcodePos {cx : Ctx} {e : SEE} {cfg : Spec.Cfg} (hc : CfgRel cx e cfg) (n : Nat) :
    CfgRel cx { e with opcodePos := n } cfg :=
  { flags := hc.flags, sv := hc.sv, z := hc.z, rm := hc.rm, sha256 := hc.sha256, ripemd160 := hc.ripemd160, sha1 := hc.sha1,
    checkLowS := hc.checkLowS, checkLockTime := hc.checkLockTime, checkSequence := hc.checkSequence,
    ecdsa := hc.ecdsa, schnorr := hc.schnorr, pretendKeys := hc.pretendKeys, pretendPair := hc.pretendPair }

/-- an operation step of a session (no pending taproot commitment, position inside the script) -/
theorem stepSession_op (cx : Ctx) (tc : TapCtx) (e : IEnv) (ht : e.tce = none) (hp : e.pc.isEmpty = false) :
    stepSession cx tc e =
      (step cx e.see e.pc >>= fun r =>
        pure { e with see := { r.1 with opcodePos := r.1.opcodePos + 1 }, pc := r.2,
                      history := e.snapshot :: e.history, currOpSeq := e.currOpSeq + 1 }) := by
  unfold stepSession
  simp only [ht, hp, Bool.not_false, if_true]

theorem decodeOne_rest_lt {pc : Bytes} {i : Spec.Instr} {after : Bytes} (h : Spec.decodeOne pc = some (i, after)) :
    after.length < pc.length := by
  have hgo := getOp_decodeOne pc
  rw [h] at hgo
  cases hg : getOp pc with
  | none => rw [hg] at hgo; cases hgo
  | some g =>
    rw [hg] at hgo
    simp only [Option.map_some, Option.some.injEq, Prod.mk.injEq] at hgo
    rw [← hgo.2]; exact getOp_rest_lt hg

/-- element-wise relation of two lists of the same length -/
inductive Forall2 {α β} (R : α → β → Prop) : List α → List β → Prop
  | nil : Forall2 R [] []
  | cons {a b as bs} : R a b → Forall2 R as bs → Forall2 R (a :: as) (b :: bs)

/-- outcomes of a whole run correspond -/
def RelRun (mr : List IEnv × Except StepErr IEnv) (sr : List Spec.St × Spec.R Spec.St) (complete : Bool) : Prop :=
  Forall2 (fun (e' : IEnv) st' => Rel e'.see st') mr.1 sr.1 ∧
  match mr.2, sr.2 with
  | .ok e', .ok st' => complete = true ∧ Rel e'.see st' ∧ e'.pc = [] ∧ e'.tce = none
  | .error x, .ok _ => complete = false ∧ x = .script .BAD_OPCODE
  | .error x, .error y => errAbs x = y ∧ isAbnormal x = false
  | .ok _, .error _ => False

/-- WHOLE SCRIPT: stepping operation by operation through the rest of the script refines the
    specification's evaluation of the instructions decoded from it, state by state -/
theorem runOps_refines (cx : Ctx) (tc : TapCtx) (cfg : Spec.Cfg) :
    ∀ (fuel : Nat) (e : IEnv) (st : Spec.St),
      e.tce = none → e.pc.length ≤ fuel → CfgRel cx e.see cfg → Rel e.see st →
      (e.see.sigversion = .TAPSCRIPT → e.see.execdata.weightInit = true) →
      RelRun (runOps cx tc fuel e)
        (Spec.evalInstrs cfg (Spec.decodePrefix fuel e.pc).1 e.see.opcodePos st) (Spec.decodePrefix fuel e.pc).2 := by
  intro fuel
  induction fuel with
  | zero =>
    intro e st ht hlen hc h hw
    have hpc : e.pc = [] := List.length_eq_zero_iff.mp (by omega)
    simp [runOps, hpc, Spec.decodePrefix, Spec.evalInstrs, RelRun, h, ht, Forall2.nil]
  | succ fuel ih =>
    intro e st ht hlen hc h hw
    by_cases hpc : e.pc = []
    · simp [runOps, hpc, Spec.decodePrefix, Spec.evalInstrs, RelRun, h, ht, Forall2.nil]
    · have hne : e.pc.isEmpty = false := by simpa using hpc
      have hdp : Spec.decodePrefix (fuel + 1) e.pc =
          match Spec.decodeOne e.pc with
          | none => ([], false)
          | some (i, after) => ((i, after) :: (Spec.decodePrefix fuel after).1, (Spec.decodePrefix fuel after).2) := by
        cases hx : e.pc with
        | nil => exact absurd hx hpc
        | cons b rest =>
          simp only [Spec.decodePrefix]
          cases Spec.decodeOne (b :: rest) with
          | none => rfl
          | some p => rfl
      rw [hdp]
      simp only [runOps, hne, Bool.false_eq_true, if_false]
      rw [stepSession_op cx tc e ht hne]
      cases hdec : Spec.decodeOne e.pc with
      | none =>
        rw [step_undecodable cx e.see e.pc hdec]
        simp [Spec.evalInstrs, RelRun, fail, Forall2.nil]
      | some p =>
        obtain ⟨i, after⟩ := p
        have hsr := step_refines cx cfg e.see st e.pc i after hc h hw hdec
        simp only [Spec.evalInstrs]
        cases hm : step cx e.see e.pc with
        | error x =>
          cases hs : Spec.execInstr cfg i after e.see.opcodePos st with
          | error y => rw [hm, hs] at hsr; simpa [RelRun, RelStep, Forall2.nil] using hsr
          | ok st' => rw [hm, hs] at hsr; simp [RelStep] at hsr
        | ok r =>
          obtain ⟨see', pc'⟩ := r
          cases hs : Spec.execInstr cfg i after e.see.opcodePos st with
          | error y => rw [hm, hs] at hsr; simp [RelStep] at hsr
          | ok st' =>
            rw [hm, hs] at hsr
            obtain ⟨hrel', hpc'⟩ := hsr
            subst hpc'
            have hfr := step_frame cx e.see see' e.pc pc' hm
            have hwi := step_weightInit cx e.see e.pc (see', pc') hm
            have hlt := decodeOne_rest_lt hdec
            simp only [ok_bind]
            -- the next session state
            let e' : IEnv := { e with see := { see' with opcodePos := see'.opcodePos + 1 }, pc := pc',
                                      history := e.snapshot :: e.history, currOpSeq := e.currOpSeq + 1 }
            have hc' : CfgRel cx e'.see cfg := cfgRel_opcodePos (cfgRel_of_frame hc hfr) _
            have hr' : Rel e'.see st' := rel_opcodePos hrel' _
            have hfr' := hfr
            simp only [SEE.frame, Prod.mk.injEq] at hfr'
            have hpos : e'.see.opcodePos = e.see.opcodePos + 1 := by
              show see'.opcodePos + 1 = _; rw [hfr'.2.2.2.2.2.2.2]
            have hw' : e'.see.sigversion = .TAPSCRIPT → e'.see.execdata.weightInit = true := by
              show see'.sigversion = _ → see'.execdata.weightInit = true
              rw [hfr'.2.2.1, hwi]; exact hw
            have hih := ih e' st' ht (by show pc'.length ≤ fuel; omega) hc' hr' hw'
            rw [hpos] at hih
            show RelRun (e' :: (runOps cx tc fuel e').1, (runOps cx tc fuel e').2) _ _
            obtain ⟨hf2, hout⟩ := hih
            exact ⟨Forall2.cons hr' hf2, hout⟩

end Btcdeb.Refine
