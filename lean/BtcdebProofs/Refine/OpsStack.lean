/-
  Refinement Model ≈ Spec for constants, NOPs, stack-manipulation opcodes, OP_EQUAL(VERIFY) and the
  opcodes of the `default: BAD_OPCODE` branch.
-/
import BtcdebProofs.Refine.Basic
namespace Btcdeb.Refine
open Btcdeb Model

set_option linter.unusedSimpArgs false
set_option linter.unusedVariables false

set_option hygiene false in
/-- introduce, destructure `Rel`, unfold both sides and remove the specification's classification prefix -/
local macro "op_start" : tactic =>
  `(tactic| (intro cx cfg e st fExec pc hc h hw
             obtain ⟨hs, ha, hcond, hop, hcf, hcs, hwl, hwi⟩ := h
             unfold execOpcode Spec.execOp
             simp [Spec.disabled, Spec.smallInt, Spec.isNopN, Spec.isUnary, Spec.isBinary]))

/-- close a successful branch -/
local macro "op_ok" : tactic =>
  `(tactic| (apply sizeCheck_rel; constructor <;> simp_all [Spec.encodeNum, Spec.ofBool, vchTrue, vchFalse]))


-- helper lemmas on the `xs ++ [.., b, a]` normal form ------------------------------------------

@[simp] private theorem add_lt_self_false (n k : Nat) : (n + k < k) ↔ False := by
  constructor
  · intro h; omega
  · intro h; exact h.elim

@[simp] private theorem top1_2 (xs : List Bytes) (a b : Bytes) : top (xs ++ [b, a]) 1 = .ok a := by
  simp [top]
@[simp] private theorem top2_2 (xs : List Bytes) (a b : Bytes) : top (xs ++ [b, a]) 2 = .ok b := by
  simp [top]
@[simp] private theorem pop_2 (xs : List Bytes) (a b : Bytes) : pop (xs ++ [b, a]) = .ok (xs ++ [b]) := by
  simp [pop, List.dropLast_append_cons]

@[simp] private theorem top1_3 (xs : List Bytes) (a b c : Bytes) : top (xs ++ [c, b, a]) 1 = .ok a := by
  simp [top]
@[simp] private theorem top2_3 (xs : List Bytes) (a b c : Bytes) : top (xs ++ [c, b, a]) 2 = .ok b := by
  simp [top]
@[simp] private theorem top3_3 (xs : List Bytes) (a b c : Bytes) : top (xs ++ [c, b, a]) 3 = .ok c := by
  simp [top]

@[simp] private theorem top1_4 (xs : List Bytes) (a b c d : Bytes) : top (xs ++ [d, c, b, a]) 1 = .ok a := by
  simp [top]
@[simp] private theorem top2_4 (xs : List Bytes) (a b c d : Bytes) : top (xs ++ [d, c, b, a]) 2 = .ok b := by
  simp [top]
@[simp] private theorem top3_4 (xs : List Bytes) (a b c d : Bytes) : top (xs ++ [d, c, b, a]) 3 = .ok c := by
  simp [top]
@[simp] private theorem top4_4 (xs : List Bytes) (a b c d : Bytes) : top (xs ++ [d, c, b, a]) 4 = .ok d := by
  simp [top]

@[simp] private theorem top5_6 (xs : List Bytes) (a b c d x y : Bytes) : top (xs ++ [y, x, d, c, b, a]) 5 = .ok x := by
  simp [top]
@[simp] private theorem top6_6 (xs : List Bytes) (a b c d x y : Bytes) : top (xs ++ [y, x, d, c, b, a]) 6 = .ok y := by
  simp [top]


private theorem eraseIdx_rev_append (s ys : List Bytes) :
    (s.reverse ++ ys).eraseIdx s.length = s.reverse ++ ys.eraseIdx 0 := by
  rw [List.eraseIdx_append_of_length_le (by simp)]; simp

private theorem drop_rev_append (s ys : List Bytes) (k : Nat) :
    List.drop (s.length + k) (s.reverse ++ ys) = ys.drop k := by
  rw [List.drop_append]
  have h1 : List.drop (s.length + k) s.reverse = [] := by
    apply List.drop_of_length_le; simp
  have h2 : s.length + k - s.reverse.length = k := by simp
  rw [h1, h2]; rfl

-- constants -----------------------------------------------------------------------------------

theorem refines_OP_1NEGATE : OpRefines .OP_1NEGATE := by op_start; op_ok
theorem refines_OP_1 : OpRefines .OP_1 := by op_start; op_ok
theorem refines_OP_2 : OpRefines .OP_2 := by op_start; op_ok
theorem refines_OP_3 : OpRefines .OP_3 := by op_start; op_ok
theorem refines_OP_4 : OpRefines .OP_4 := by op_start; op_ok
theorem refines_OP_5 : OpRefines .OP_5 := by op_start; op_ok
theorem refines_OP_6 : OpRefines .OP_6 := by op_start; op_ok
theorem refines_OP_7 : OpRefines .OP_7 := by op_start; op_ok
theorem refines_OP_8 : OpRefines .OP_8 := by op_start; op_ok
theorem refines_OP_9 : OpRefines .OP_9 := by op_start; op_ok
theorem refines_OP_10 : OpRefines .OP_10 := by op_start; op_ok
theorem refines_OP_11 : OpRefines .OP_11 := by op_start; op_ok
theorem refines_OP_12 : OpRefines .OP_12 := by op_start; op_ok
theorem refines_OP_13 : OpRefines .OP_13 := by op_start; op_ok
theorem refines_OP_14 : OpRefines .OP_14 := by op_start; op_ok
theorem refines_OP_15 : OpRefines .OP_15 := by op_start; op_ok
theorem refines_OP_16 : OpRefines .OP_16 := by op_start; op_ok

-- NOPs ----------------------------------------------------------------------------------------

theorem refines_OP_NOP : OpRefines .OP_NOP := by op_start; op_ok

set_option hygiene false in
local macro "op_nopn" : tactic =>
  `(tactic| (op_start; rw [hc.flags]; split
             · simp
             · op_ok))

theorem refines_OP_NOP1 : OpRefines .OP_NOP1 := by op_nopn
theorem refines_OP_NOP4 : OpRefines .OP_NOP4 := by op_nopn
theorem refines_OP_NOP5 : OpRefines .OP_NOP5 := by op_nopn
theorem refines_OP_NOP6 : OpRefines .OP_NOP6 := by op_nopn
theorem refines_OP_NOP7 : OpRefines .OP_NOP7 := by op_nopn
theorem refines_OP_NOP8 : OpRefines .OP_NOP8 := by op_nopn
theorem refines_OP_NOP9 : OpRefines .OP_NOP9 := by op_nopn
theorem refines_OP_NOP10 : OpRefines .OP_NOP10 := by op_nopn

-- BAD_OPCODE ----------------------------------------------------------------------------------

theorem refines_OP_0 : OpRefines .OP_0 := by op_start
theorem refines_OP_PUSHDATA1 : OpRefines .OP_PUSHDATA1 := by op_start
theorem refines_OP_PUSHDATA2 : OpRefines .OP_PUSHDATA2 := by op_start
theorem refines_OP_PUSHDATA4 : OpRefines .OP_PUSHDATA4 := by op_start
theorem refines_OP_RESERVED : OpRefines .OP_RESERVED := by op_start
theorem refines_OP_VER : OpRefines .OP_VER := by op_start
theorem refines_OP_VERIF : OpRefines .OP_VERIF := by op_start
theorem refines_OP_VERNOTIF : OpRefines .OP_VERNOTIF := by op_start
theorem refines_OP_RESERVED1 : OpRefines .OP_RESERVED1 := by op_start
theorem refines_OP_RESERVED2 : OpRefines .OP_RESERVED2 := by op_start
theorem refines_PUSHN (n : Nat) : OpRefines (.PUSHN n) := by op_start
theorem refines_UNKNOWN (n : Nat) : OpRefines (.UNKNOWN n) := by op_start

-- simple stack opcodes ------------------------------------------------------------------------

theorem refines_OP_RETURN : OpRefines .OP_RETURN := by op_start

theorem refines_OP_VERIFY : OpRefines .OP_VERIFY := by
  op_start
  rcases hst : st.stack with _ | ⟨a, s⟩
  · simp [hs, hst]
  · simp [hs, hst, castToBool_eq_toBool]
    split
    · op_ok
    · simp

theorem refines_OP_TOALTSTACK : OpRefines .OP_TOALTSTACK := by
  op_start
  rcases hst : st.stack with _ | ⟨a, s⟩
  · simp [hs, hst]
  · simp [hs, hst]
    op_ok

theorem refines_OP_FROMALTSTACK : OpRefines .OP_FROMALTSTACK := by
  op_start
  rcases hst : st.alt with _ | ⟨a, s⟩
  · simp [ha, hst]
  · simp [ha, hst]
    op_ok

theorem refines_OP_2DROP : OpRefines .OP_2DROP := by
  op_start
  rcases hst : st.stack with _ | ⟨a, _ | ⟨b, s⟩⟩
  · simp [hs, hst]
  · simp [hs, hst]
  · simp [hs, hst]
    op_ok

theorem refines_OP_2DUP : OpRefines .OP_2DUP := by
  op_start
  rcases hst : st.stack with _ | ⟨a, _ | ⟨b, s⟩⟩
  · simp [hs, hst]
  · simp [hs, hst]
  · simp [hs, hst]
    op_ok

theorem refines_OP_3DUP : OpRefines .OP_3DUP := by
  op_start
  rcases hst : st.stack with _ | ⟨a, _ | ⟨b, _ | ⟨c, s⟩⟩⟩
  · simp [hs, hst]
  · simp [hs, hst]
  · simp [hs, hst]
  · simp [hs, hst]
    op_ok

theorem refines_OP_IFDUP : OpRefines .OP_IFDUP := by
  op_start
  rcases hst : st.stack with _ | ⟨a, s⟩
  · simp [hs, hst]
  · simp [hs, hst, castToBool_eq_toBool]
    apply sizeCheck_rel
    constructor <;> simp_all
    split <;> simp

theorem refines_OP_DEPTH : OpRefines .OP_DEPTH := by
  op_start; op_ok

theorem refines_OP_DROP : OpRefines .OP_DROP := by
  op_start
  rcases hst : st.stack with _ | ⟨a, s⟩
  · simp [hs, hst]
  · simp [hs, hst]
    op_ok

theorem refines_OP_DUP : OpRefines .OP_DUP := by
  op_start
  rcases hst : st.stack with _ | ⟨a, s⟩
  · simp [hs, hst]
  · simp [hs, hst]
    op_ok

theorem refines_OP_OVER : OpRefines .OP_OVER := by
  op_start
  rcases hst : st.stack with _ | ⟨a, _ | ⟨b, s⟩⟩
  · simp [hs, hst]
  · simp [hs, hst]
  · simp [hs, hst]
    op_ok

theorem refines_OP_SIZE : OpRefines .OP_SIZE := by
  op_start
  rcases hst : st.stack with _ | ⟨a, s⟩
  · simp [hs, hst]
  · simp [hs, hst]
    op_ok

theorem refines_OP_EQUAL : OpRefines .OP_EQUAL := by
  op_start
  rcases hst : st.stack with _ | ⟨a, _ | ⟨b, s⟩⟩
  · simp [hs, hst]
  · simp [hs, hst]
  · simp [hs, hst]
    op_ok

theorem refines_OP_EQUALVERIFY : OpRefines .OP_EQUALVERIFY := by
  op_start
  rcases hst : st.stack with _ | ⟨a, _ | ⟨b, s⟩⟩
  · simp [hs, hst]
  · simp [hs, hst]
  · simp [hs, hst]
    split
    · op_ok
    · simp

theorem refines_OP_NIP : OpRefines .OP_NIP := by
  op_start
  rcases hst : st.stack with _ | ⟨a, _ | ⟨b, s⟩⟩
  · simp [hs, hst]
  · simp [hs, hst]
  · simp [hs, hst, eraseFromEnd, eraseIdx_rev_append]
    op_ok

theorem refines_OP_2OVER : OpRefines .OP_2OVER := by
  op_start
  rcases hst : st.stack with _ | ⟨a, _ | ⟨b, _ | ⟨c, _ | ⟨d, s⟩⟩⟩⟩
  · simp [hs, hst]
  · simp [hs, hst]
  · simp [hs, hst]
  · simp [hs, hst]
  · simp [hs, hst]
    op_ok

theorem refines_OP_2ROT : OpRefines .OP_2ROT := by
  op_start
  rcases hst : st.stack with _ | ⟨a, _ | ⟨b, _ | ⟨c, _ | ⟨d, _ | ⟨x, _ | ⟨y, s⟩⟩⟩⟩⟩⟩
  · simp [hs, hst]
  · simp [hs, hst]
  · simp [hs, hst]
  · simp [hs, hst]
  · simp [hs, hst]
  · simp [hs, hst]
  · simp [hs, hst, drop_rev_append]
    op_ok

theorem refines_OP_2SWAP : OpRefines .OP_2SWAP := by
  op_start
  rcases hst : st.stack with _ | ⟨a, _ | ⟨b, _ | ⟨c, _ | ⟨d, s⟩⟩⟩⟩
  · simp [hs, hst]
  · simp [hs, hst]
  · simp [hs, hst]
  · simp [hs, hst]
  · simp [hs, hst]
    op_ok

theorem refines_OP_ROT : OpRefines .OP_ROT := by
  op_start
  rcases hst : st.stack with _ | ⟨a, _ | ⟨b, _ | ⟨c, s⟩⟩⟩
  · simp [hs, hst]
  · simp [hs, hst]
  · simp [hs, hst]
  · simp [hs, hst]
    op_ok

theorem refines_OP_SWAP : OpRefines .OP_SWAP := by
  op_start
  rcases hst : st.stack with _ | ⟨a, _ | ⟨b, s⟩⟩
  · simp [hs, hst]
  · simp [hs, hst]
  · simp [hs, hst]
    op_ok

theorem refines_OP_TUCK : OpRefines .OP_TUCK := by
  op_start
  rcases hst : st.stack with _ | ⟨a, _ | ⟨b, s⟩⟩
  · simp [hs, hst]
  · simp [hs, hst]
  · simp [hs, hst]
    op_ok

-- OP_PICK / OP_ROLL ---------------------------------------------------------------------------

private theorem top_reverse (l : List Bytes) (k : Nat) (h : k < l.length) :
    top l.reverse (k + 1) = .ok l[k] := by
  unfold top
  have h1 : ¬ (k + 1 = 0 ∨ k + 1 > l.reverse.length) := by simp; omega
  rw [if_neg h1]
  have h2 : l.reverse.length - (k + 1) < l.reverse.length := by simp; omega
  rw [List.getElem?_eq_getElem h2]
  simp only [List.getElem_reverse]
  congr 2
  simp; omega

private theorem eraseFromEnd_reverse (l : List Bytes) (k : Nat) (h : k < l.length) :
    eraseFromEnd l.reverse (k + 1) = (l.eraseIdx k).reverse := by
  unfold eraseFromEnd
  rw [List.eraseIdx_eq_take_drop_succ, List.eraseIdx_eq_take_drop_succ, List.reverse_append,
    List.take_reverse, List.drop_reverse]
  have h1 : l.length - (l.reverse.length - (k + 1)) = k + 1 := by simp; omega
  have h2 : l.length - (l.reverse.length - (k + 1) + 1) = k := by simp; omega
  rw [h1, h2]

theorem refines_OP_PICK : OpRefines .OP_PICK := by
  op_start
  rcases hst : st.stack with _ | ⟨nb, _ | ⟨x0, s⟩⟩
  · simp [hs, hst]
  · simp [hs, hst]
  · have hs' : e.stack = (x0 :: s).reverse ++ [nb] := by simp [hs, hst]
    have hlen : ((s.length : Int) + 1) = ((x0 :: s).length : Int) := by simp
    obtain ⟨body, hb⟩ : ∃ body, body = x0 :: s := ⟨_, rfl⟩
    simp only [hs']
    rw [hlen, ← hb]
    have hbl : ¬ ((body.reverse ++ [nb]).length < 2) := by simp [hb]
    rw [if_neg hbl]
    simp only [top1, pop_snoc, ok_bind, List.length_reverse]
    rw [hc.rm, hc.flags, default_num_size]
    rcases num_cases nb (hasFlag e.flags Flag.MINIMALDATA) 4 with ⟨n, h1, h2⟩ | ⟨w, h1, h2⟩
    · simp only [h1, h2, ok_bind, specOk_bind]
      by_cases hn : getint n < 0 ∨ (body.length : Int) ≤ getint n
      · simp [hn]
      · rw [if_neg hn, if_neg hn]
        have hk : (getint n).toNat < body.length := by omega
        rw [top_reverse _ _ hk, List.getElem?_eq_getElem hk]
        simp only [ok_bind]
        op_ok
    · simp [h1, h2, errAbs, isAbnormal]

theorem refines_OP_ROLL : OpRefines .OP_ROLL := by
  op_start
  rcases hst : st.stack with _ | ⟨nb, _ | ⟨x0, s⟩⟩
  · simp [hs, hst]
  · simp [hs, hst]
  · have hs' : e.stack = (x0 :: s).reverse ++ [nb] := by simp [hs, hst]
    have hlen : ((s.length : Int) + 1) = ((x0 :: s).length : Int) := by simp
    obtain ⟨body, hb⟩ : ∃ body, body = x0 :: s := ⟨_, rfl⟩
    simp only [hs']
    rw [hlen, ← hb]
    have hbl : ¬ ((body.reverse ++ [nb]).length < 2) := by simp [hb]
    rw [if_neg hbl]
    simp only [top1, pop_snoc, ok_bind, List.length_reverse]
    rw [hc.rm, hc.flags, default_num_size]
    rcases num_cases nb (hasFlag e.flags Flag.MINIMALDATA) 4 with ⟨n, h1, h2⟩ | ⟨w, h1, h2⟩
    · simp only [h1, h2, ok_bind, specOk_bind]
      by_cases hn : getint n < 0 ∨ (body.length : Int) ≤ getint n
      · simp [hn]
      · rw [if_neg hn, if_neg hn]
        have hk : (getint n).toNat < body.length := by omega
        rw [top_reverse _ _ hk, List.getElem?_eq_getElem hk, eraseFromEnd_reverse _ _ hk]
        simp only [ok_bind]
        op_ok
    · simp [h1, h2, errAbs, isAbnormal]

end Btcdeb.Refine
