/-
  One whole `StepScript(env, pc)` of the model against one instruction of the specification.
-/
import BtcdebProofs.Refine.All
import BtcdebProofs.Lemmas.Frame
namespace Btcdeb.Refine
open Btcdeb Model

/-- `GetScriptOp` decodes exactly the specification's next instruction -/
theorem getOp_decodeOne (pc : Bytes) :
    (getOp pc).map (fun g => ((⟨g.opcode, g.data⟩ : Spec.Instr), g.rest)) = Spec.decodeOne pc := by
  cases pc with
  | nil => rfl
  | cons b rest =>
    simp only [getOp, Spec.decodeOne, Spec.pushLenBytes]
    by_cases h1 : b.toNat ≤ 78
    · simp only [show b.toNat ≤ Op.OP_PUSHDATA4 from h1, show b.toNat ≤ 0x4e from h1, if_true]
      by_cases h2 : b.toNat < 76
      · simp [show b.toNat < Op.OP_PUSHDATA1 from h2, h2]
        split <;> simp_all
      · by_cases h3 : b.toNat = 76
        · simp only [h3, Op.OP_PUSHDATA1, Op.OP_PUSHDATA2]
          by_cases hl : rest.length < 1
          · simp [hl]
          · simp only [hl, if_false, Nat.lt_irrefl, show ¬ (76 < 76) by omega, show (76 = 76) by rfl, if_true]
            simp
            split <;> rfl
        · by_cases h4 : b.toNat = 77
          · simp only [h4, Op.OP_PUSHDATA1, Op.OP_PUSHDATA2]
            by_cases hl : rest.length < 2
            · simp [hl]
            · simp only [hl, if_false, show ¬ (77 < 76) by omega, show ¬ (77 = 76) by omega, show (77 = 77) by rfl, if_true]
              simp
              split <;> rfl
          · have h5 : b.toNat = 78 := by omega
            simp only [h5, Op.OP_PUSHDATA1, Op.OP_PUSHDATA2]
            by_cases hl : rest.length < 4
            · simp [hl]
            · simp only [hl, if_false, show ¬ (78 < 76) by omega, show ¬ (78 = 76) by omega, show ¬ (78 = 77) by omega, if_true]
              simp
              split <;> rfl
    · simp [show ¬ b.toNat ≤ Op.OP_PUSHDATA4 from h1, show ¬ b.toNat ≤ 0x4e from h1]

theorem isDisabled_eq (op : Opcode) : isDisabledOpcode op = Spec.disabled op := by
  cases op <;> rfl

theorem nat_beq_decide (a b : Nat) : (a == b) = decide (a = b) := by
  by_cases h : a = b <;> simp [h]

theorem checkMinimalPush_eq (data : Bytes) (opcode : Nat) : checkMinimalPush data opcode = Spec.minimalPush opcode data := by
  unfold checkMinimalPush Spec.minimalPush
  cases data with
  | nil => simp [Op.OP_0, nat_beq_decide]
  | cons b rest =>
    cases rest with
    | nil =>
      simp only [List.length_cons, List.length_nil, List.headD_cons]
      by_cases h1 : 1 ≤ b.toNat ∧ b.toNat ≤ 16
      · simp [h1]
      · by_cases h2 : b.toNat = 0x81
        · simp [h2]
        · simp only [Nat.reduceAdd] at *
          have : ¬ (1 ≤ b.toNat ∧ b.toNat ≤ 16) := h1
          simp [h2]
          by_cases h3 : 1 ≤ b.toNat <;> by_cases h4 : b.toNat ≤ 16 <;> simp_all [nat_beq_decide]
    | cons c rest2 =>
      simp only [List.length_cons]
      have : ¬ (rest2.length + 1 + 1 = 0) := by omega
      have h2 : ¬ (rest2.length + 1 + 1 = 1) := by omega
      simp [this, h2, Op.OP_PUSHDATA1, Op.OP_PUSHDATA2, nat_beq_decide]

theorem countOp_rel {cx : Ctx} {e : SEE} {cfg : Spec.Cfg} {st : Spec.St} (hc : CfgRel cx e cfg) (h : Rel e st) (n : Nat) :
    RelOut (Model.countOp e n) (Spec.countOp cfg n st) := by
  unfold Model.countOp Spec.countOp
  rw [hc.sv, ← h.opCount]
  have h201 : Gen.MAX_OPS_PER_SCRIPT = Spec.maxOpsPerScript := by decide
  rw [h201]
  by_cases h1 : (e.sigversion == SigVersion.BASE || e.sigversion == SigVersion.WITNESS_V0) = true
  · by_cases h2 : n > 0x60
    · have h2' : n > Op.OP_16 := h2
      simp only [h1, h2, h2', if_true, Bool.true_and, decide_true]
      split
      · simp
      · simp
        obtain ⟨hs, ha, hcond, hop, hcf, hcs, hwl, hwi⟩ := h
        constructor <;> simp_all
    · have h2' : ¬ n > Op.OP_16 := h2
      simp only [h1, h2, h2', if_false, if_true, Bool.true_and, decide_false, Bool.false_eq_true]
      simpa using h
  · simp only [h1, Bool.false_eq_true, if_false, Bool.false_and]
    simpa using h

/-- the configuration relation only depends on the frame of the environment -/
theorem cfgRel_of_frame {cx : Ctx} {e e' : SEE} {cfg : Spec.Cfg} (hc : CfgRel cx e cfg) (hf : e'.frame = e.frame) :
    CfgRel cx e' cfg := by
  simp only [SEE.frame, Prod.mk.injEq] at hf
  obtain ⟨h1, h2, h3, h4, h5, h6, h7, h8⟩ := hf
  exact { flags := by rw [h2]; exact hc.flags, sv := by rw [h3]; exact hc.sv, z := by rw [h5]; exact hc.z,
          rm := by rw [h4, h2]; exact hc.rm, sha256 := hc.sha256, ripemd160 := hc.ripemd160, sha1 := hc.sha1,
          checkLowS := hc.checkLowS, checkLockTime := hc.checkLockTime, checkSequence := hc.checkSequence,
          ecdsa := hc.ecdsa, schnorr := hc.schnorr, pretendKeys := by rw [h7]; exact hc.pretendKeys,
          pretendPair := by rw [h7, h6]; exact hc.pretendPair }

theorem countOp_ok_cases {e e1 : SEE} {n : Nat} (h : Model.countOp e n = .ok e1) :
    e1 = e ∨ e1 = { e with nOpCount := e.nOpCount + 1 } := by
  unfold Model.countOp at h
  split at h
  · split at h
    · split at h
      · cases h
      · cases h; exact Or.inr rfl
    · cases h; exact Or.inl rfl
  · cases h; exact Or.inl rfl

/-- outcome relation for a whole step: related states and the same next position, or the same error -/
def RelStep (m : M (SEE × Bytes)) (s : Spec.R Spec.St) (after : Bytes) : Prop :=
  match m, s with
  | .ok (e', pc'), .ok st' => Rel e' st' ∧ pc' = after
  | .error x, .error y => errAbs x = y ∧ isAbnormal x = false
  | _, _ => False

theorem relStep_of_relOut {m : M SEE} {s : Spec.R Spec.St} (after : Bytes) (h : RelOut m s) :
    RelStep (m >>= fun e' => pure (e', after)) s after := by
  cases m with
  | error x => cases s with
    | error y => simpa [RelStep, RelOut] using h
    | ok st => simp [RelOut] at h
  | ok e' => cases s with
    | error y => simp [RelOut] at h
    | ok st => exact ⟨by simpa [RelOut] using h, rfl⟩

/-- ONE STEP: `StepScript(env, pc)` on a position where the specification decodes instruction `i`
    refines the specification's execution of `i` -/
theorem step_refines (cx : Ctx) (cfg : Spec.Cfg) (e : SEE) (st : Spec.St) (pc : Bytes) (i : Spec.Instr) (after : Bytes)
    (hc : CfgRel cx e cfg) (h : Rel e st) (hw : e.sigversion = .TAPSCRIPT → e.execdata.weightInit = true)
    (hdec : Spec.decodeOne pc = some (i, after)) :
    RelStep (step cx e pc) (Spec.execInstr cfg i after e.opcodePos st) after := by
  have hgo := getOp_decodeOne pc
  rw [hdec] at hgo
  cases hg : getOp pc with
  | none => rw [hg] at hgo; cases hgo
  | some g =>
    rw [hg] at hgo
    simp only [Option.map_some, Option.some.injEq, Prod.mk.injEq] at hgo
    obtain ⟨rfl, rfl⟩ := hgo
    unfold step Spec.execInstr
    simp only [hg]
    have h520 : Gen.MAX_SCRIPT_ELEMENT_SIZE = Spec.maxElementSize := by decide
    rw [h520]
    by_cases hsz : g.data.length > Spec.maxElementSize
    · simp [hsz, RelStep, fail, errAbs, isAbnormal]
    · simp only [hsz, if_false]
      have hco := countOp_rel hc h g.opcode
      cases hm : Model.countOp e g.opcode with
      | error x =>
        cases hs : Spec.countOp cfg g.opcode st with
        | error y => rw [hm, hs] at hco; simpa [RelStep, RelOut] using hco
        | ok st1 => rw [hm, hs] at hco; simp [RelOut] at hco
      | ok e1 =>
        cases hs : Spec.countOp cfg g.opcode st with
        | error y => rw [hm, hs] at hco; simp [RelOut] at hco
        | ok st1 =>
          rw [hm, hs] at hco
          have hrel1 : Rel e1 st1 := by simpa [RelOut] using hco
          have hfr : e1.frame = e.frame := countOp_preserves e g.opcode e1 hm
          have hc1 : CfgRel cx e1 cfg := cfgRel_of_frame hc hfr
          have hpos : e1.opcodePos = e.opcodePos := by
            simp only [SEE.frame, Prod.mk.injEq] at hfr; exact hfr.2.2.2.2.2.2.2
          have hcond : e1.cond = e.cond ∧ e1.execdata = e.execdata ∧ e1.sigversion = e.sigversion := by
            rcases countOp_ok_cases hm with rfl | rfl <;> simp
          have hw1 : e1.sigversion = .TAPSCRIPT → e1.execdata.weightInit = true := by
            rw [hcond.2.1, hcond.2.2]; exact hw
          have hexec : e.cond.allTrue = st.cond.all id := condRel_allTrue h.cond
          simp only [ok_bind, specOk_bind]
          rw [hc1.rm, ← hc1.z, ← hc1.sv, ← hc1.flags, ← isDisabled_eq, hexec]
          by_cases hd : (!cfg.allowDisabled && isDisabledOpcode (Opcode.ofNat g.opcode)) = true
          · simp [hd, RelStep, fail, errAbs, isAbnormal]
          · simp only [hd, Bool.false_eq_true, if_false]
            by_cases hcs : (Opcode.ofNat g.opcode == Opcode.OP_CODESEPARATOR && cfg.sigversion == SigVersion.BASE &&
                hasFlag cfg.flags Flag.CONST_SCRIPTCODE) = true
            · simp [hcs, RelStep, fail, errAbs, isAbnormal]
            · simp only [hcs, Bool.false_eq_true, if_false]
              have hpd : Op.OP_PUSHDATA4 = 0x4e := rfl
              by_cases hp : (st.cond.all id && decide (g.opcode ≤ 0x4e)) = true
              · simp only [hpd, hp, if_true]
                rw [checkMinimalPush_eq]
                by_cases hmin : (hasFlag cfg.flags Flag.MINIMALDATA && !Spec.minimalPush g.opcode g.data) = true
                · simp [hmin, RelStep, fail, errAbs, isAbnormal]
                · simp only [hmin, Bool.false_eq_true, if_false]
                  apply relStep_of_relOut
                  apply sizeCheck_rel
                  obtain ⟨hs', ha, hcd, hop, hcf, hcs', hwl, hwi⟩ := hrel1
                  constructor <;> simp_all
              · simp only [hpd, hp, Bool.false_eq_true, if_false]
                have hif : (Op.OP_IF = 0x63) ∧ (Op.OP_ENDIF = 0x68) := ⟨rfl, rfl⟩
                rw [hif.1, hif.2]
                by_cases hx : (st.cond.all id || decide (0x63 ≤ g.opcode) && decide (g.opcode ≤ 0x68)) = true
                · simp only [hx, if_true]
                  apply relStep_of_relOut
                  have := execOpcode_refines (Opcode.ofNat g.opcode) cx cfg e1 st1 (st.cond.all id) g.rest hc1 hrel1 hw1
                  rw [hpos] at this
                  exact this
                · simp only [hx, Bool.false_eq_true, if_false]
                  apply relStep_of_relOut
                  exact sizeCheck_rel hrel1

/-- where the specification cannot decode an instruction (truncated push), the step fails with BAD_OPCODE -/
theorem step_undecodable (cx : Ctx) (e : SEE) (pc : Bytes) (hdec : Spec.decodeOne pc = none) :
    step cx e pc = fail .BAD_OPCODE := by
  have hgo := getOp_decodeOne pc
  rw [hdec] at hgo
  cases hg : getOp pc with
  | none => simp [step, hg]
  | some g => rw [hg] at hgo; cases hgo

end Btcdeb.Refine
