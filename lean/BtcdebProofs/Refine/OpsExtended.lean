/-
  Refinement Model ≈ Spec for the fifteen re-enabled ("disabled") opcodes (`StepExtended`).
-/
import BtcdebProofs.Refine.Basic
namespace Btcdeb.Refine
open Btcdeb Model

@[simp] private theorem top1_2 (xs : List Bytes) (a b : Bytes) : top (xs ++ [b, a]) 1 = .ok a := by
  have := top1 (xs ++ [b]) a
  simpa using this
@[simp] private theorem top2_2 (xs : List Bytes) (a b : Bytes) : top (xs ++ [b, a]) 2 = .ok b := by
  have := top2 xs a b
  simpa using this
@[simp] private theorem top1_3 (xs : List Bytes) (a b c : Bytes) : top (xs ++ [c, b, a]) 1 = .ok a := by
  have := top1 (xs ++ [c, b]) a
  simpa using this
@[simp] private theorem top2_3 (xs : List Bytes) (a b c : Bytes) : top (xs ++ [c, b, a]) 2 = .ok b := by
  have := top2 (xs ++ [c]) a b
  simpa using this
@[simp] private theorem top3_3 (xs : List Bytes) (a b c : Bytes) : top (xs ++ [c, b, a]) 3 = .ok c := by
  have := top3 xs a b c
  simpa using this
@[simp] private theorem pop_2 (xs : List Bytes) (a b : Bytes) : pop (xs ++ [b, a]) = .ok (xs ++ [b]) := by
  have := pop_snoc (xs ++ [b]) a
  simpa using this
@[simp] private theorem pop_3 (xs : List Bytes) (a b c : Bytes) : pop (xs ++ [c, b, a]) = .ok (xs ++ [c, b]) := by
  have := pop_snoc (xs ++ [c, b]) a
  simpa using this
@[simp] private theorem ok_map {α β} (f : α → β) (a : α) : f <$> (Except.ok a : M α) = .ok (f a) := rfl
@[simp] private theorem err_map {α β} (f : α → β) (x : StepErr) : f <$> (Except.error x : M α) = .error x := rfl

@[simp] private theorem add_lt_self_iff (n k : Nat) : (n + k < k) ↔ False := by
  constructor
  · intro h; omega
  · intro h; exact h.elim

theorem refines_OP_CAT : OpRefines .OP_CAT := by
  intro cx cfg e st fExec pc hc h hw
  obtain ⟨hs, ha, hcond, hop, hcf, hcs, hwl, hwi⟩ := h
  unfold execOpcode Spec.execOp
  simp [Spec.disabled, stepExtended, Spec.execExtended]
  rcases hst : st.stack with _ | ⟨a, _ | ⟨b, s⟩⟩
  · simp [hs, hst]
  · simp [hs, hst]
  · simp [hs, hst]
    by_cases hb : 520 < b.length + a.length
    · simp [hb]
    · simp [hb]
      constructor <;> simp_all

theorem refines_OP_INVERT : OpRefines .OP_INVERT := by
  intro cx cfg e st fExec pc hc h hw
  obtain ⟨hs, ha, hcond, hop, hcf, hcs, hwl, hwi⟩ := h
  unfold execOpcode Spec.execOp
  simp [Spec.disabled, stepExtended, Spec.execExtended]
  rcases hst : st.stack with _ | ⟨a, s⟩
  · simp [hs, hst]
  · simp [hs, hst]
    constructor <;> simp_all

private theorem bytewise_eq_zipWith (f : UInt8 → UInt8 → UInt8) (a b : Bytes) :
    bytewise f a b = List.zipWith f a b := by
  induction a generalizing b with
  | nil => simp [bytewise]
  | cons x xs ih =>
    cases b with
    | nil => simp [bytewise]
    | cons y ys => simp [bytewise, ih]

theorem refines_OP_AND : OpRefines .OP_AND := by
  intro cx cfg e st fExec pc hc h hw
  obtain ⟨hs, ha, hcond, hop, hcf, hcs, hwl, hwi⟩ := h
  unfold execOpcode Spec.execOp
  simp [Spec.disabled, stepExtended, Spec.execExtended, bytewise_eq_zipWith]
  rcases hst : st.stack with _ | ⟨a, _ | ⟨b, s⟩⟩
  · simp [hs, hst]
  · simp [hs, hst]
  · simp [hs, hst]
    by_cases hl : b.length = a.length
    · simp [hl]
      constructor <;> simp_all
    · simp [hl]

theorem refines_OP_OR : OpRefines .OP_OR := by
  intro cx cfg e st fExec pc hc h hw
  obtain ⟨hs, ha, hcond, hop, hcf, hcs, hwl, hwi⟩ := h
  unfold execOpcode Spec.execOp
  simp [Spec.disabled, stepExtended, Spec.execExtended, bytewise_eq_zipWith]
  rcases hst : st.stack with _ | ⟨a, _ | ⟨b, s⟩⟩
  · simp [hs, hst]
  · simp [hs, hst]
  · simp [hs, hst]
    by_cases hl : b.length = a.length
    · simp [hl]
      constructor <;> simp_all
    · simp [hl]

theorem refines_OP_XOR : OpRefines .OP_XOR := by
  intro cx cfg e st fExec pc hc h hw
  obtain ⟨hs, ha, hcond, hop, hcf, hcs, hwl, hwi⟩ := h
  unfold execOpcode Spec.execOp
  simp [Spec.disabled, stepExtended, Spec.execExtended, bytewise_eq_zipWith]
  rcases hst : st.stack with _ | ⟨a, _ | ⟨b, s⟩⟩
  · simp [hs, hst]
  · simp [hs, hst]
  · simp [hs, hst]
    by_cases hl : b.length = a.length
    · simp [hl]
      constructor <;> simp_all
    · simp [hl]

theorem refines_OP_2MUL : OpRefines .OP_2MUL := by
  intro cx cfg e st fExec pc hc h hw
  obtain ⟨hs, ha, hcond, hop, hcf, hcs, hwl, hwi⟩ := h
  unfold execOpcode Spec.execOp
  simp [Spec.disabled, stepExtended, Spec.execExtended]
  rcases hst : st.stack with _ | ⟨a, s⟩
  · simp [hs, hst]
  · simp [hs, hst, hc.rm, hc.flags]
    rcases num_cases a (hasFlag e.flags Flag.MINIMALDATA) 5 with ⟨n, h1, h2⟩ | ⟨w, h1, h2⟩
    · simp [h1, h2, Spec.encodeNum, Int.mul_comm]
      constructor <;> simp_all
    · simp [h1, h2, errAbs, isAbnormal]

theorem refines_OP_2DIV : OpRefines .OP_2DIV := by
  intro cx cfg e st fExec pc hc h hw
  obtain ⟨hs, ha, hcond, hop, hcf, hcs, hwl, hwi⟩ := h
  unfold execOpcode Spec.execOp
  simp [Spec.disabled, stepExtended, Spec.execExtended]
  rcases hst : st.stack with _ | ⟨a, s⟩
  · simp [hs, hst]
  · simp [hs, hst, hc.rm, hc.flags]
    rcases num_cases a (hasFlag e.flags Flag.MINIMALDATA) 5 with ⟨n, h1, h2⟩ | ⟨w, h1, h2⟩
    · simp [h1, h2, Spec.encodeNum]
      constructor <;> simp_all
    · simp [h1, h2, errAbs, isAbnormal]

private theorem left_eq (b : Bytes) (n : Int) (h0 : ¬ n < 0) (h1 : ¬ (b.length : Int) < n) :
    (if n < (b.length : Int) then b.take n.toNat else b) = b.take n.toNat := by
  split
  · rfl
  · rw [List.take_of_length_le]; omega

private theorem right_eq (b : Bytes) (n : Int) (h0 : ¬ n < 0) (h1 : ¬ (b.length : Int) < n) :
    (if n < (b.length : Int) then b.drop (b.length - n.toNat) else b) = b.drop (b.length - n.toNat) := by
  split
  · rfl
  · have : b.length - n.toNat = 0 := by omega
    rw [this]; simp

private theorem substr_eq (x : Bytes) (b n : Int) (hb : ¬ b < 0) (hn : ¬ n < 0) :
    (if n < ((if 0 < b then x.drop b.toNat else x).length : Int)
      then (if 0 < b then x.drop b.toNat else x).take n.toNat else (if 0 < b then x.drop b.toNat else x))
    = (x.drop b.toNat).take n.toNat := by
  have hd : (if 0 < b then x.drop b.toNat else x) = x.drop b.toNat := by
    split
    · rfl
    · have : b.toNat = 0 := by omega
      rw [this]; simp
  rw [hd]
  split
  · rfl
  · rename_i hlt
    rw [List.take_of_length_le]
    simp only [List.length_drop] at hlt ⊢
    omega

theorem refines_OP_LEFT : OpRefines .OP_LEFT := by
  intro cx cfg e st fExec pc hc h hw
  obtain ⟨hs, ha, hcond, hop, hcf, hcs, hwl, hwi⟩ := h
  unfold execOpcode Spec.execOp
  simp [Spec.disabled, stepExtended, Spec.execExtended]
  rcases hst : st.stack with _ | ⟨a, _ | ⟨b, s⟩⟩
  · simp [hs, hst]
  · simp [hs, hst]
  · simp [hs, hst, hc.rm, hc.flags]
    rcases num_cases a (hasFlag e.flags Flag.MINIMALDATA) 2 with ⟨n, h1, h2⟩ | ⟨w, h1, h2⟩
    · simp [h1, h2]
      by_cases hg : n < 0 ∨ (b.length : Int) < n
      · simp [hg]
      · simp [hg]
        rw [left_eq b n (fun h => hg (Or.inl h)) (fun h => hg (Or.inr h))]
        constructor <;> simp_all
    · simp [h1, h2, errAbs, isAbnormal]

theorem refines_OP_RIGHT : OpRefines .OP_RIGHT := by
  intro cx cfg e st fExec pc hc h hw
  obtain ⟨hs, ha, hcond, hop, hcf, hcs, hwl, hwi⟩ := h
  unfold execOpcode Spec.execOp
  simp [Spec.disabled, stepExtended, Spec.execExtended]
  rcases hst : st.stack with _ | ⟨a, _ | ⟨b, s⟩⟩
  · simp [hs, hst]
  · simp [hs, hst]
  · simp [hs, hst, hc.rm, hc.flags]
    rcases num_cases a (hasFlag e.flags Flag.MINIMALDATA) 2 with ⟨n, h1, h2⟩ | ⟨w, h1, h2⟩
    · simp [h1, h2]
      by_cases hg : n < 0 ∨ (b.length : Int) < n
      · simp [hg]
      · simp [hg]
        rw [right_eq b n (fun h => hg (Or.inl h)) (fun h => hg (Or.inr h))]
        constructor <;> simp_all
    · simp [h1, h2, errAbs, isAbnormal]

theorem refines_OP_SUBSTR : OpRefines .OP_SUBSTR := by
  intro cx cfg e st fExec pc hc h hw
  obtain ⟨hs, ha, hcond, hop, hcf, hcs, hwl, hwi⟩ := h
  unfold execOpcode Spec.execOp
  simp [Spec.disabled, stepExtended, Spec.execExtended]
  rcases hst : st.stack with _ | ⟨a, _ | ⟨b, _ | ⟨c, s⟩⟩⟩
  · simp [hs, hst]
  · simp [hs, hst]
  · simp [hs, hst]
  · simp [hs, hst, hc.rm, hc.flags]
    rcases num_cases b (hasFlag e.flags Flag.MINIMALDATA) 2 with ⟨nb, h1, h2⟩ | ⟨w, h1, h2⟩
    · simp [h1, h2]
      by_cases hb : nb < 0
      · simp [hb]
      · simp [hb]
        rcases num_cases a (hasFlag e.flags Flag.MINIMALDATA) 2 with ⟨n, h3, h4⟩ | ⟨w, h3, h4⟩
        · simp [h3, h4]
          by_cases hg : n < 0 ∨ (c.length : Int) < nb + n
          · simp [hg]
          · simp [hg]
            rw [substr_eq c nb n hb (fun h => hg (Or.inl h))]
            constructor <;> simp_all
        · simp [h3, h4, errAbs, isAbnormal]
    · simp [h1, h2, errAbs, isAbnormal]

private theorem inInt64_eq (v : Int) : Model.inInt64 v = Spec.inInt64 v := by
  unfold Model.inInt64 Spec.inInt64 int64Min int64Max; rfl

private theorem num_bound {v : Bytes} {rm : Bool} {a : Int} (h : num v rm 5 = .ok a) : a.natAbs < 2 ^ 39 := by
  unfold num scriptNum at h
  by_cases hl : v.length > 5
  · simp [hl] at h
  · simp only [hl, if_false] at h
    split at h
    · rename_i v' hv
      split at hv
      · cases hv
      · cases hv; cases h
        have := Proofs.C18.decode_bound v 5 (by omega) (by omega)
        simpa using this
    · cases h

private theorem inInt64_small {r : Int} (h : r.natAbs < 2 ^ 39) : Model.inInt64 r = true := by
  unfold Model.inInt64 int64Min int64Max
  simp only [Bool.and_eq_true, decide_eq_true_eq]
  omega

theorem refines_OP_MUL : OpRefines .OP_MUL := by
  intro cx cfg e st fExec pc hc h hw
  obtain ⟨hs, ha, hcond, hop, hcf, hcs, hwl, hwi⟩ := h
  unfold execOpcode Spec.execOp
  simp [Spec.disabled, stepExtended, Spec.execExtended]
  rcases hst : st.stack with _ | ⟨y, _ | ⟨x, s⟩⟩
  · simp [hs, hst]
  · simp [hs, hst]
  · simp [hs, hst, hc.rm, hc.flags]
    rcases num_cases x (hasFlag e.flags Flag.MINIMALDATA) 5 with ⟨a, h1, h2⟩ | ⟨w, h1, h2⟩
    · simp [h1, h2]
      rcases num_cases y (hasFlag e.flags Flag.MINIMALDATA) 5 with ⟨b, h3, h4⟩ | ⟨w, h3, h4⟩
      · simp [h3, h4]
        rw [inInt64_eq]
        cases hi : Spec.inInt64 (a * b)
        · simp
        · simp [Spec.encodeNum]
          constructor <;> simp_all
      · simp [h3, h4, errAbs, isAbnormal]
    · simp [h1, h2, errAbs, isAbnormal]

theorem refines_OP_DIV : OpRefines .OP_DIV := by
  intro cx cfg e st fExec pc hc h hw
  obtain ⟨hs, ha, hcond, hop, hcf, hcs, hwl, hwi⟩ := h
  unfold execOpcode Spec.execOp
  simp [Spec.disabled, stepExtended, Spec.execExtended]
  rcases hst : st.stack with _ | ⟨y, _ | ⟨x, s⟩⟩
  · simp [hs, hst]
  · simp [hs, hst]
  · simp [hs, hst, hc.rm, hc.flags]
    rcases num_cases x (hasFlag e.flags Flag.MINIMALDATA) 5 with ⟨a, h1, h2⟩ | ⟨w, h1, h2⟩
    · simp [h1, h2]
      rcases num_cases y (hasFlag e.flags Flag.MINIMALDATA) 5 with ⟨b, h3, h4⟩ | ⟨w, h3, h4⟩
      · simp [h3, h4]
        have hba := num_bound h1
        have hbb := num_bound h3
        by_cases hz : b = 0
        · simp [hz]
        · simp [hz]
          have hr : Model.inInt64 (a.tdiv b) = true :=
            inInt64_small (Nat.lt_of_le_of_lt (Int.natAbs_tdiv_le_natAbs a b) hba)
          simp [hr, Spec.encodeNum]
          constructor <;> simp_all
      · simp [h3, h4, errAbs, isAbnormal]
    · simp [h1, h2, errAbs, isAbnormal]

theorem refines_OP_MOD : OpRefines .OP_MOD := by
  intro cx cfg e st fExec pc hc h hw
  obtain ⟨hs, ha, hcond, hop, hcf, hcs, hwl, hwi⟩ := h
  unfold execOpcode Spec.execOp
  simp [Spec.disabled, stepExtended, Spec.execExtended]
  rcases hst : st.stack with _ | ⟨y, _ | ⟨x, s⟩⟩
  · simp [hs, hst]
  · simp [hs, hst]
  · simp [hs, hst, hc.rm, hc.flags]
    rcases num_cases x (hasFlag e.flags Flag.MINIMALDATA) 5 with ⟨a, h1, h2⟩ | ⟨w, h1, h2⟩
    · simp [h1, h2]
      rcases num_cases y (hasFlag e.flags Flag.MINIMALDATA) 5 with ⟨b, h3, h4⟩ | ⟨w, h3, h4⟩
      · simp [h3, h4]
        have hba := num_bound h1
        have hbb := num_bound h3
        by_cases hz : b = 0
        · simp [hz]
        · simp [hz]
          have hr : Model.inInt64 (a.tmod b) = true := by
            apply inInt64_small
            rw [Int.natAbs_tmod]
            exact Nat.lt_of_le_of_lt (Nat.mod_le _ _) hba
          simp [hr, Spec.encodeNum]
          constructor <;> simp_all
      · simp [h3, h4, errAbs, isAbnormal]
    · simp [h1, h2, errAbs, isAbnormal]

theorem refines_OP_LSHIFT : OpRefines .OP_LSHIFT := by
  intro cx cfg e st fExec pc hc h hw
  obtain ⟨hs, ha, hcond, hop, hcf, hcs, hwl, hwi⟩ := h
  unfold execOpcode Spec.execOp
  simp [Spec.disabled, stepExtended, Spec.execExtended]
  rcases hst : st.stack with _ | ⟨y, _ | ⟨x, s⟩⟩
  · simp [hs, hst]
  · simp [hs, hst]
  · simp [hs, hst, hc.rm, hc.flags]
    rcases num_cases x (hasFlag e.flags Flag.MINIMALDATA) 5 with ⟨a, h1, h2⟩ | ⟨w, h1, h2⟩
    · simp [h1, h2]
      rcases num_cases y (hasFlag e.flags Flag.MINIMALDATA) 5 with ⟨b, h3, h4⟩ | ⟨w, h3, h4⟩
      · simp [h3, h4]
        have hba := num_bound h1
        have hbb := num_bound h3
        by_cases hn : b < 0
        · simp [hn]
        · simp [hn]
          by_cases h64 : 64 ≤ b
          · simp [h64]
            by_cases ha0 : a = 0
            · have hr : Model.inInt64 0 = true := by decide
              simp [ha0, hr, Spec.encodeNum]
              constructor <;> simp_all
            · simp [ha0]
          · simp [h64]
            rw [inInt64_eq]
            cases hi : Spec.inInt64 (a * 2 ^ b.toNat)
            · simp
            · simp [Spec.encodeNum]
              constructor <;> simp_all
      · simp [h3, h4, errAbs, isAbnormal]
    · simp [h1, h2, errAbs, isAbnormal]

theorem refines_OP_RSHIFT : OpRefines .OP_RSHIFT := by
  intro cx cfg e st fExec pc hc h hw
  obtain ⟨hs, ha, hcond, hop, hcf, hcs, hwl, hwi⟩ := h
  unfold execOpcode Spec.execOp
  simp [Spec.disabled, stepExtended, Spec.execExtended]
  rcases hst : st.stack with _ | ⟨y, _ | ⟨x, s⟩⟩
  · simp [hs, hst]
  · simp [hs, hst]
  · simp [hs, hst, hc.rm, hc.flags]
    rcases num_cases x (hasFlag e.flags Flag.MINIMALDATA) 5 with ⟨a, h1, h2⟩ | ⟨w, h1, h2⟩
    · simp [h1, h2]
      rcases num_cases y (hasFlag e.flags Flag.MINIMALDATA) 5 with ⟨b, h3, h4⟩ | ⟨w, h3, h4⟩
      · simp [h3, h4]
        have hba := num_bound h1
        have hbb := num_bound h3
        by_cases hn : b < 0
        · simp [hn]
        · simp [hn]
          by_cases h64 : 64 ≤ b
          · simp [h64]
            have hr : Model.inInt64 (if a < 0 then -1 else 0) = true := by
              split <;> decide
            simp [hr, Spec.encodeNum]
            constructor <;> simp_all
          · simp [h64]
            have hr : Model.inInt64 (a / 2 ^ b.toNat) = true :=
              inInt64_small (Nat.lt_of_le_of_lt (Int.natAbs_ediv_le_natAbs a _) hba)
            simp [hr, Spec.encodeNum]
            constructor <;> simp_all
      · simp [h3, h4, errAbs, isAbnormal]
    · simp [h1, h2, errAbs, isAbnormal]

end Btcdeb.Refine
