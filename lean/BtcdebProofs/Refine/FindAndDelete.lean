/-
  `Model.findAndDelete` (transcription of Bitcoin Core's `FindAndDelete` loop) computes the same
  function as the structural specification `Spec.findAndDelete`.
-/
import BtcdebProofs.Refine.Basic
namespace Btcdeb.Refine
open Btcdeb Model

/-- length of the instruction at the head of `s` in the spec's vocabulary
    (`none`: empty script or truncated instruction) -/
def instrLen (s : Bytes) : Option Nat :=
  match s with
  | [] => none
  | b :: rest =>
    let opc := b.toNat
    let lb := Spec.pushLenBytes opc
    if opc ≤ 0x4e then
      if rest.length < lb then none
      else
        let n := if lb = 0 then opc else leValue (rest.take lb)
        let total := 1 + lb + n
        if s.length < total then none else some total
    else some 1

/-- one-step characterisation of `Model.getOp` in the spec's vocabulary -/
theorem getOp_rest_eq (s : Bytes) : (getOp s).map (·.rest) = (instrLen s).map (s.drop ·) := by
  cases s with
  | nil => simp [getOp, instrLen]
  | cons b rest =>
    simp only [getOp, instrLen, Spec.pushLenBytes, Op.OP_PUSHDATA1, Op.OP_PUSHDATA2, Op.OP_PUSHDATA4]
    generalize b.toNat = o
    by_cases h1 : o ≤ 78
    · by_cases h2 : o < 76
      · simp [h1, h2]
        by_cases h : rest.length < o
        · have h' : rest.length + 1 < 1 + o := by omega
          simp [h, h']
        · have h' : ¬ rest.length + 1 < 1 + o := by omega
          simp [h, Nat.add_comm 1 o]
      · by_cases h3 : o = 76
        · subst h3
          simp
          generalize leValue (List.take 1 rest) = n
          by_cases h : rest = []
          · simp [h]
          · have hl : 1 ≤ rest.length := by
              cases rest with
              | nil => simp at h
              | cons => simp
            simp [h]
            by_cases h4 : rest.length - 1 < n
            · have h' : rest.length + 1 < 2 + n := by omega
              simp [h4, h']
            · have h' : ¬ rest.length + 1 < 2 + n := by omega
              simp [h4, h']
              rw [show 2 + n = (n + 1) + 1 by omega, List.drop_succ_cons]
        · by_cases h5 : o = 77
          · subst h5
            simp
            generalize leValue (List.take 2 rest) = n
            by_cases h : rest.length < 2
            · simp [h]
            · simp [h]
              by_cases h4 : rest.length - 2 < n
              · have h' : rest.length + 1 < 3 + n := by omega
                simp [h4, h']
              · have h' : ¬ rest.length + 1 < 3 + n := by omega
                simp [h4, h']
                rw [show 3 + n = (2 + n) + 1 by omega, List.drop_succ_cons]
          · have h6 : o = 78 := by omega
            subst h6
            simp
            generalize leValue (List.take 4 rest) = n
            by_cases h : rest.length < 4
            · simp [h]
            · simp [h]
              by_cases h4 : rest.length - 4 < n
              · have h' : rest.length + 1 < 5 + n := by omega
                simp [h4, h']
              · have h' : ¬ rest.length + 1 < 5 + n := by omega
                simp [h4, h']
                rw [show 5 + n = (4 + n) + 1 by omega, List.drop_succ_cons]
    · simp [h1]

/-- bounds on the instruction length -/
theorem instrLen_bounds {s : Bytes} {t : Nat} (h : instrLen s = some t) : 0 < t ∧ t ≤ s.length := by
  cases s with
  | nil => simp [instrLen] at h
  | cons b rest =>
    simp only [instrLen] at h
    repeat' split at h
    all_goals simp at h
    all_goals subst h
    all_goals simp at *
    all_goals omega

theorem getOp_none_iff (s : Bytes) : getOp s = none ↔ instrLen s = none := by
  have := getOp_rest_eq s
  cases h1 : getOp s <;> cases h2 : instrLen s <;> simp [h1, h2] at this ⊢

theorem getOp_some {s : Bytes} {g : GotOp} (h : getOp s = some g) :
    ∃ t, instrLen s = some t ∧ 0 < t ∧ t ≤ s.length ∧ g.rest = s.drop t := by
  have := getOp_rest_eq s
  cases h2 : instrLen s with
  | none => simp [h, h2] at this
  | some t =>
    simp [h, h2] at this
    exact ⟨t, rfl, (instrLen_bounds h2).1, (instrLen_bounds h2).2, this⟩

/-- the spec's `deleteAt`, one step, in terms of `instrLen` -/
theorem deleteAt_succ_noprefix (fuel : Nat) (pat s : Bytes) (hp : pat ≠ []) (hn : pat.isPrefixOf s = false) :
    Spec.deleteAt (fuel + 1) pat s =
      match instrLen s with
      | none => (s, 0)
      | some t => (s.take t ++ (Spec.deleteAt fuel pat (s.drop t)).1, (Spec.deleteAt fuel pat (s.drop t)).2) := by
  have hp' : pat.isEmpty = false := by cases pat <;> simp at hp ⊢
  cases s with
  | nil => simp [Spec.deleteAt, instrLen, hp', hn]
  | cons b rest =>
    simp only [Spec.deleteAt, instrLen, hp', hn]
    repeat' split
    all_goals first | rfl | contradiction | (rename_i heq; simp at heq; try subst heq; simp_all)

/-- the spec's `deleteAt`, one step, when the pattern matches -/
theorem deleteAt_succ_prefix (fuel : Nat) (pat s : Bytes) (hp : pat ≠ []) (hn : pat.isPrefixOf s = true) :
    Spec.deleteAt (fuel + 1) pat s =
      ((Spec.deleteAt fuel pat (s.drop pat.length)).1, (Spec.deleteAt fuel pat (s.drop pat.length)).2 + 1) := by
  have hp' : pat.isEmpty = false := by cases pat <;> simp at hp ⊢
  simp [Spec.deleteAt, hp', hn]

/-- unfolding of the model's loop body without the dependent `match h :` -/
theorem findAndDeleteGo_eq (b pc acc : Bytes) (found : Nat) :
    findAndDeleteGo b pc acc found =
      match getOp (skipMatches b pc found).1 with
      | none => (acc ++ (skipMatches b pc found).1, (skipMatches b pc found).2)
      | some g => findAndDeleteGo b g.rest
          (acc ++ (skipMatches b pc found).1.take ((skipMatches b pc found).1.length - g.rest.length))
          (skipMatches b pc found).2 := by
  rw [findAndDeleteGo]
  split <;> rename_i h <;> simp [h]

/-- loop invariant: the model's loop started at an instruction boundary `pc` with accumulated output `acc` and
    count `n` appends exactly what the spec produces for `pc` (any sufficient fuel). -/
theorem findAndDeleteGo_spec (b : Bytes) (hb : b ≠ []) :
    ∀ (k : Nat) (pc : Bytes), pc.length = k → ∀ (fuel : Nat), pc.length < fuel → ∀ (acc : Bytes) (n : Nat),
      findAndDeleteGo b pc acc n = (acc ++ (Spec.deleteAt fuel b pc).1, n + (Spec.deleteAt fuel b pc).2) := by
  intro k
  induction k using Nat.strongRecOn with
  | _ k ih =>
    intro pc hk fuel hf acc n
    obtain ⟨f, rfl⟩ : ∃ f, fuel = f + 1 := ⟨fuel - 1, by omega⟩
    have hpos : 0 < b.length := List.length_pos_iff.mpr hb
    by_cases hpre : b.isPrefixOf pc = true
    · -- one occurrence of the pattern is skipped
      have hle : b.length ≤ pc.length := (List.isPrefixOf_iff_prefix.mp hpre).length_le
      have hsk : skipMatches b pc n = skipMatches b (pc.drop b.length) (n + 1) := by
        rw [skipMatches]; simp [hpre, hb]
      have hgo : findAndDeleteGo b pc acc n = findAndDeleteGo b (pc.drop b.length) acc (n + 1) := by
        rw [findAndDeleteGo_eq, findAndDeleteGo_eq b (pc.drop b.length), hsk]
      rw [hgo, deleteAt_succ_prefix f b pc hb hpre]
      have hlen : (pc.drop b.length).length < k := by simp only [List.length_drop]; omega
      rw [ih _ hlen (pc.drop b.length) rfl f (by simp only [List.length_drop] at hlen ⊢; omega) acc (n + 1)]
      simp only [Prod.mk.injEq, true_and]; omega
    · -- no occurrence here: parse one instruction
      have hpre' : b.isPrefixOf pc = false := Bool.eq_false_iff.mpr hpre
      have hsk : skipMatches b pc n = (pc, n) := by
        rw [skipMatches]; simp [hpre']
      rw [findAndDeleteGo_eq, hsk, deleteAt_succ_noprefix f b pc hb hpre']
      simp only
      cases hg : getOp pc with
      | none =>
        rw [(getOp_none_iff pc).mp hg]
        simp
      | some g =>
        obtain ⟨t, ht, ht0, htl, hrest⟩ := getOp_some hg
        rw [ht]
        simp only
        have hlen : g.rest.length < k := by rw [hrest]; simp only [List.length_drop]; omega
        rw [ih _ hlen g.rest rfl f (by omega)]
        have ht' : pc.length - g.rest.length = t := by rw [hrest]; simp only [List.length_drop]; omega
        rw [ht', hrest, List.append_assoc]

/-- `Model.findAndDelete` (Bitcoin Core's loop) and `Spec.findAndDelete` are the same function. -/
theorem findAndDelete_eq (s b : Bytes) : Model.findAndDelete s b = Spec.findAndDelete s b := by
  unfold Model.findAndDelete Spec.findAndDelete
  cases b with
  | nil => simp [Spec.deleteAt]
  | cons x xs =>
    simp only [List.isEmpty_cons, Bool.false_eq_true, if_false]
    rw [findAndDeleteGo_spec (x :: xs) (by simp) s.length s rfl (s.length + 1) (by omega) [] 0]
    simp

end Btcdeb.Refine
