/-
  Refinement Model ≈ Spec for OP_CHECKMULTISIG / OP_CHECKMULTISIGVERIFY, relative to the auxiliary
  equalities bundled in `SigLemmas`.

  Structure: the model branch is cut in two local copies (`msModel` = the argument checks, `msTail` = FindAndDelete
  loop, matching loop, clean-up; `model_eq1/2` show by `rfl` that they are the `execOpcode` branch).
  `fadLoop`: the `for k in [0:nSigs]` loop = `Spec.deleteAll`; `msLoop`: `multisigLoop` = `Spec.matchSigs`;
  `shape_*`: indices / NULLFAIL region / remaining stack on `(nk :: keys ++ ns :: sigs ++ dummy :: s4).reverse`.
  Depends on `Spec.execMultisig` requiring the dummy element before any signature work
  (`if s2.length < nSigs + 1`), as Bitcoin Core and the model do.
-/
import BtcdebProofs.Refine.Basic
namespace Btcdeb.Refine
open Btcdeb Model

set_option linter.unusedSimpArgs false
set_option linter.unusedVariables false

-- value-level outcome relation ----------------------------------------------------------------

/-- outcomes of a sub-computation correspond: equal values, or the same script error -/
private def RelVal {α} (m : M α) (s : Spec.R α) : Prop :=
  match m, s with
  | .ok a, .ok b => a = b
  | .error x, .error y => errAbs x = y ∧ isAbnormal x = false
  | _, _ => False

private theorem relVal_ok {α} (a : α) : RelVal (.ok a : M α) (.ok a) := rfl

private theorem relVal_bind_out {α} {m : M α} {s : Spec.R α} {f : α → M SEE} {g : α → Spec.R Spec.St}
    (h : RelVal m s) (hf : ∀ a, RelOut (f a) (g a)) : RelOut (m >>= f) (s >>= g) := by
  cases m <;> cases s <;> simp [RelVal] at h
  · simpa using h
  · subst h; simpa using hf _

private theorem relVal_bind {α β} {m : M α} {s : Spec.R α} {f : α → M β} {g : α → Spec.R β}
    (h : RelVal m s) (hf : ∀ a, RelVal (f a) (g a)) : RelVal (m >>= f) (s >>= g) := by
  cases m <;> cases s <;> simp [RelVal] at h
  · simpa [RelVal] using h
  · subst h; simpa using hf _

private theorem relUnit_bind {β} {m : M Unit} {s : Spec.R Unit} {f : M β} {g : Spec.R β}
    (h : RelUnit m s) (hf : RelVal f g) : RelVal (m >>= fun _ => f) (s >>= fun _ => g) := by
  cases m <;> cases s <;> simp [RelUnit] at h
  · simpa [RelVal] using h
  · simpa using hf

-- index lemmas on the reversed stack ------------------------------------------------------------

private theorem top_reverse_of_getElem? {l : List Bytes} {k : Nat} {v : Bytes} (h : l[k]? = some v) :
    top l.reverse (k + 1) = .ok v := by
  have hk : k < l.length := by
    rcases Nat.lt_or_ge k l.length with h1 | h1
    · exact h1
    · rw [List.getElem?_eq_none h1] at h; cases h
  unfold top
  have h1 : ¬ (k + 1 = 0 ∨ k + 1 > l.reverse.length) := by simp; omega
  rw [if_neg h1]
  have h2 : l.reverse.length - (k + 1) < l.reverse.length := by simp; omega
  rw [List.getElem?_eq_getElem h2]
  simp only [List.getElem_reverse, List.length_reverse]
  have h3 : l.length - 1 - (l.length - (k + 1)) = k := by omega
  simp only [h3]
  rw [List.getElem?_eq_getElem hk] at h
  cases h; rfl

-- the FindAndDelete loop -------------------------------------------------------------------------

/-- body of the FindAndDelete `for` loop of OP_CHECKMULTISIG -/
private def fadBody (e : SEE) (E : List Bytes) (base : Nat) (k : Nat) (s : Bytes) : M (ForInStep Bytes) := do
  let sig ← top E (base + k)
  if (e.sigversion == SigVersion.BASE) = true then
    if (decide ((findAndDelete s (pushData sig)).snd > 0) && hasFlag e.flags Flag.CONST_SCRIPTCODE) = true then do
      fail ScriptError.SIG_FINDANDDELETE
      pure (ForInStep.yield (findAndDelete s (pushData sig)).fst)
    else pure (ForInStep.yield (findAndDelete s (pushData sig)).fst)
  else pure (ForInStep.yield s)

private theorem fadLoop (L : SigLemmas) {cx : Ctx} {e : SEE} {cfg : Spec.Cfg} (hc : CfgRel cx e cfg)
    (E : List Bytes) (base : Nat) :
    ∀ (sigs : List Bytes) (s0 : Nat) (code : Bytes),
      (∀ k (h : k < sigs.length), top E (base + (s0 + k)) = .ok sigs[k]) →
      RelVal (forIn (List.range' s0 sigs.length 1) code (fadBody e E base)) (Spec.deleteAll cfg sigs code) := by
  intro sigs
  induction sigs with
  | nil => intro s0 code _; simp [Spec.deleteAll, RelVal, pure, Except.pure]
  | cons sig sigs ih =>
    intro s0 code hidx
    have h0 : top E (base + s0) = .ok sig := by
      have := hidx 0 (by simp)
      simpa using this
    have hrest : ∀ k (h : k < sigs.length), top E (base + (s0 + 1 + k)) = .ok sigs[k] := by
      intro k hk
      have := hidx (k + 1) (by simp; omega)
      simp only [List.getElem_cons_succ] at this
      rw [← this]; congr 2; omega
    rw [List.length_cons, List.range'_succ, List.forIn_cons]
    have hsv : (cfg.sigversion == SigVersion.BASE) = (e.sigversion == SigVersion.BASE) := by rw [hc.sv]
    have hbody : fadBody e E base s0 code =
        (if (e.sigversion == SigVersion.BASE) = true then
          if (decide ((Spec.findAndDelete code (Spec.pushOf sig)).snd > 0) && hasFlag e.flags Flag.CONST_SCRIPTCODE) = true
          then fail ScriptError.SIG_FINDANDDELETE
          else .ok (ForInStep.yield (Spec.findAndDelete code (Spec.pushOf sig)).fst)
        else .ok (ForInStep.yield code)) := by
      unfold fadBody
      rw [h0]
      simp only [ok_bind, L.fad, L.pushData, fail_bind]
      rfl
    rw [hbody]
    simp only [Spec.deleteAll, hsv, hc.flags]
    by_cases hb : (e.sigversion == SigVersion.BASE) = true
    · rw [if_pos hb, if_pos hb]
      by_cases hf : (decide ((Spec.findAndDelete code (Spec.pushOf sig)).snd > 0) && hasFlag e.flags Flag.CONST_SCRIPTCODE) = true
      · rw [if_pos hf, if_pos hf]; simp [RelVal, fail, errAbs, isAbnormal]
      · rw [if_neg hf, if_neg hf]; exact ih _ _ hrest
    · rw [if_neg hb, if_neg hb]; exact ih _ _ hrest
-- the signature-matching loop ----------------------------------------------------------------

private theorem contains_map_snd (l : List (Bytes × Bytes)) (key : Bytes) :
    (l.map (·.2)).contains key = l.any (fun p => p.2 == key) := by
  induction l with
  | nil => rfl
  | cons p l ih =>
    simp only [List.map_cons, List.contains_cons, List.any_cons, ih]
    congr 1
    rw [Bool.eq_iff_iff]; simp only [beq_iff_eq]; exact eq_comm

private theorem msLoop (L : SigLemmas) {cx : Ctx} {e : SEE} {cfg : Spec.Cfg} (hc : CfgRel cx e cfg)
    (code : Bytes) (E : List Bytes) :
    ∀ (keys sigs : List Bytes) (isig ikey : Nat),
      (∀ k (h : k < sigs.length), top E (isig + k) = .ok sigs[k]) →
      (∀ k (h : k < keys.length), top E (ikey + k) = .ok keys[k]) →
      RelVal (multisigLoop cx e code E sigs.length keys.length isig ikey) (Spec.matchSigs cfg code sigs keys) := by
  intro keys
  induction keys with
  | nil =>
    intro sigs isig ikey _ _
    cases sigs with
    | nil => simp [multisigLoop, Spec.matchSigs, RelVal, pure, Except.pure]
    | cons s ss => simp [multisigLoop, Spec.matchSigs, RelVal, pure, Except.pure]
  | cons key keys ih =>
    intro sigs isig ikey hsig hkey
    cases sigs with
    | nil => simp [multisigLoop, Spec.matchSigs, RelVal, pure, Except.pure]
    | cons sig sigs =>
      have h0 : top E isig = .ok sig := by
        have := hsig 0 (by simp)
        simpa using this
      have hk0 : top E ikey = .ok key := by
        have := hkey 0 (by simp)
        simpa using this
      have hkrest : ∀ k (h : k < keys.length), top E (ikey + 1 + k) = .ok keys[k] := by
        intro k hk
        have := hkey (k + 1) (by simp; omega)
        simp only [List.getElem_cons_succ] at this
        rw [← this]; congr 1; omega
      have hsrest : ∀ k (h : k < sigs.length), top E (isig + 1 + k) = .ok sigs[k] := by
        intro k hk
        have := hsig (k + 1) (by simp; omega)
        simp only [List.getElem_cons_succ] at this
        rw [← this]; congr 1; omega
      simp only [List.length_cons, multisigLoop, Spec.matchSigs, h0, hk0, ok_bind]
      have hK : ∀ ok : Bool, RelVal
          (if (if ok = true then sigs.length else sigs.length + 1) > keys.length then pure false
           else multisigLoop cx e code E (if ok = true then sigs.length else sigs.length + 1) keys.length
             (if ok = true then isig + 1 else isig) (ikey + 1))
          (if (if ok = true then sigs else sig :: sigs).length > keys.length then Except.ok false
           else Spec.matchSigs cfg code (if ok = true then sigs else sig :: sigs) keys) := by
        intro ok
        cases ok
        · simp only [Bool.false_eq_true, if_false, List.length_cons]
          by_cases hgt : sigs.length + 1 > keys.length
          · rw [if_pos hgt, if_pos hgt]; exact relVal_ok _
          · rw [if_neg hgt, if_neg hgt]
            exact ih (sig :: sigs) isig (ikey + 1) hsig hkrest
        · simp only [if_true]
          by_cases hgt : sigs.length > keys.length
          · rw [if_pos hgt, if_pos hgt]; exact relVal_ok _
          · rw [if_neg hgt, if_neg hgt]
            exact ih sigs (isig + 1) (ikey + 1) hsrest hkrest
      by_cases hp : e.pretendKeys.contains key = true
      · rw [if_pos hp, if_pos (by rw [← hc.pretendKeys key]; exact hp), hc.pretendPair sig key hp]
        exact relVal_bind (relVal_ok _) hK
      · rw [if_neg hp, if_neg (by rw [← hc.pretendKeys key]; exact hp)]
        refine relUnit_bind (L.sigEnc cx e cfg hc sig) (relUnit_bind (L.keyEnc cx e cfg hc key) ?_)
        refine relVal_bind ?_ hK
        rw [hc.ecdsa, hc.sv]; exact relVal_ok _
-- the shape of the stack ----------------------------------------------------------------------

private theorem shape_len (nk ns dummy : Bytes) (keys sigs s4 : List Bytes) :
    (nk :: (keys ++ ns :: (sigs ++ dummy :: s4))).reverse.length = keys.length + sigs.length + s4.length + 3 := by
  simp; omega

private theorem shape_key (nk ns dummy : Bytes) (keys sigs s4 : List Bytes) (k : Nat) (h : k < keys.length) :
    top (nk :: (keys ++ ns :: (sigs ++ dummy :: s4))).reverse (2 + k) = .ok keys[k] := by
  have : 2 + k = (k + 1) + 1 := by omega
  rw [this]
  apply top_reverse_of_getElem?
  rw [List.getElem?_cons_succ, List.getElem?_append_left h, List.getElem?_eq_getElem h]

private theorem shape_sig (nk ns dummy : Bytes) (keys sigs s4 : List Bytes) (k : Nat) (h : k < sigs.length) :
    top (nk :: (keys ++ ns :: (sigs ++ dummy :: s4))).reverse (2 + keys.length + 1 + k) = .ok sigs[k] := by
  have : 2 + keys.length + 1 + k = ((keys.length + (k + 1)) + 1) + 1 := by omega
  rw [this]
  apply top_reverse_of_getElem?
  rw [List.getElem?_cons_succ, List.getElem?_append_right (by omega)]
  have : keys.length + (k + 1) - keys.length = k + 1 := by omega
  rw [this, List.getElem?_cons_succ, List.getElem?_append_left h, List.getElem?_eq_getElem h]

private theorem shape_take (nk ns dummy : Bytes) (keys sigs s4 : List Bytes) (E : List Bytes)
    (hE : E = (nk :: (keys ++ ns :: (sigs ++ dummy :: s4))).reverse) :
    E.take (E.length - (2 + keys.length + 1 + sigs.length - 1)) = s4.reverse ++ [dummy] := by
  subst hE
  rw [List.length_reverse, ← List.reverse_drop]
  have : 2 + keys.length + 1 + sigs.length - 1 = (keys.length + (sigs.length + 1)) + 1 := by omega
  rw [this, List.drop_succ_cons, ← List.drop_drop, List.drop_left, ← List.drop_drop]
  simp

private theorem shape_sigs (nk ns dummy : Bytes) (keys sigs s4 : List Bytes) (E : List Bytes)
    (hE : E = (nk :: (keys ++ ns :: (sigs ++ dummy :: s4))).reverse) :
    (E.take (E.length - (2 + keys.length))).drop (E.length - (2 + keys.length + 1 + sigs.length - 1)) = sigs.reverse := by
  have hlen : E.length = keys.length + sigs.length + s4.length + 3 := by rw [hE]; exact shape_len ..
  rw [hlen]
  have hlen2 : (nk :: (keys ++ ns :: (sigs ++ dummy :: s4))).length = keys.length + sigs.length + s4.length + 3 := by
    simp; omega
  subst hE
  rw [← hlen2, ← List.reverse_drop, hlen2]
  have : 2 + keys.length = (keys.length + 1) + 1 := by omega
  rw [this, List.drop_succ_cons, ← List.drop_drop, List.drop_left]
  simp only [List.drop_succ_cons, List.drop_zero, List.reverse_append, List.reverse_cons]
  have h2 : keys.length + sigs.length + s4.length + 3 - (keys.length + 1 + 1 + 1 + sigs.length - 1)
      = (s4.reverse ++ [dummy]).length := by
    simp; omega
  rw [h2, List.drop_left]
-- the model, cut in two -----------------------------------------------------------------------

/-- the model after the three stack-size checks -/
private def msTail (cx : Ctx) (e : SEE) (verify : Bool) (nKeys nSigs : Nat) : M SEE := do
  let st := e.stack
  let nOpCount := e.nOpCount + nKeys
  let isig := 2 + nKeys + 1
  let i := 2 + nKeys + 1 + nSigs
  let mut scriptCode := e.pbegincodehash
  for k in [0:nSigs] do
    let sig ← top st (isig + k)
    if e.sigversion == .BASE then
      let (sc, found) := findAndDelete scriptCode (pushData sig)
      scriptCode := sc
      if found > 0 && hasFlag e.flags Flag.CONST_SCRIPTCODE then fail .SIG_FINDANDDELETE
  let fSuccess ← multisigLoop cx e scriptCode st nSigs nKeys isig 2
  let sigs := (st.take (st.length - (2 + nKeys))).drop (st.length - (i - 1))
  if !fSuccess && hasFlag e.flags Flag.NULLFAIL && sigs.any (fun s => s.length != 0) then fail .SIG_NULLFAIL
  let st := st.take (st.length - (i - 1))
  if st.length < 1 then fail .INVALID_STACK_OPERATION
  let dummy ← top st 1
  if hasFlag e.flags Flag.NULLDUMMY && dummy.length != 0 then fail .SIG_NULLDUMMY
  let st ← pop st
  if verify then
    if fSuccess then sizeCheck { e with stack := st, nOpCount := nOpCount } else fail .CHECKMULTISIGVERIFY
  else sizeCheck { e with stack := st ++ [if fSuccess then vchTrue else vchFalse], nOpCount := nOpCount }

private def msModel (cx : Ctx) (e : SEE) (verify : Bool) : M SEE := do
  let st := e.stack
  if e.sigversion == .TAPSCRIPT then fail .TAPSCRIPT_CHECKMULTISIG
  if st.length < 1 then fail .INVALID_STACK_OPERATION
  let nKeys := getint (← num (← top st 1) e.requireMinimal)
  if nKeys < 0 || nKeys > (Gen.MAX_PUBKEYS_PER_MULTISIG : Int) then fail .PUBKEY_COUNT
  let nKeys := nKeys.toNat
  let nOpCount := e.nOpCount + nKeys
  if nOpCount > Gen.MAX_OPS_PER_SCRIPT then fail .OP_COUNT
  let i := 2 + nKeys
  if st.length < i then fail .INVALID_STACK_OPERATION
  let nSigs := getint (← num (← top st i) e.requireMinimal)
  if nSigs < 0 || nSigs > (nKeys : Int) then fail .SIG_COUNT
  let nSigs := nSigs.toNat
  let i := i + 1 + nSigs
  if st.length < i then fail .INVALID_STACK_OPERATION
  msTail cx e verify nKeys nSigs

private theorem model_eq1 (cx e fExec pc) : execOpcode cx e .OP_CHECKMULTISIG fExec pc = msModel cx e false := rfl
private theorem model_eq2 (cx e fExec pc) : execOpcode cx e .OP_CHECKMULTISIGVERIFY fExec pc = msModel cx e true := rfl

/-- the specification after its stack checks -/
private def specTail (cfg : Spec.Cfg) (verify : Bool) (st : Spec.St) (keys sigs s3 : List Bytes) (opCount : Nat) :
    Spec.R Spec.St := do
  let code ← Spec.deleteAll cfg sigs st.codeFrom
  let ok ← Spec.matchSigs cfg code sigs keys
  if !ok && hasFlag cfg.flags Flag.NULLFAIL && sigs.any (fun s => !s.isEmpty) then .error .SIG_NULLFAIL
  match s3 with
  | [] => .error .INVALID_STACK_OPERATION
  | dummy :: s4 =>
    if hasFlag cfg.flags Flag.NULLDUMMY && !dummy.isEmpty then .error .SIG_NULLDUMMY
    if verify then
      if ok then Spec.checkSize { st with stack := s4, opCount := opCount } else .error .CHECKMULTISIGVERIFY
    else Spec.checkSize { st with stack := Spec.ofBool ok :: s4, opCount := opCount }

private theorem tail_rel (L : SigLemmas) {cx : Ctx} {e : SEE} {cfg : Spec.Cfg} {st : Spec.St}
    (hc : CfgRel cx e cfg) (h : Rel e st) (verify : Bool) (nk ns dummy : Bytes) (keys sigs s3 s4 : List Bytes)
    (K N : Nat) (hK : keys.length = K) (hN : sigs.length = N) (hs3 : s3 = dummy :: s4)
    (hst : st.stack = nk :: (keys ++ ns :: (sigs ++ s3))) :
    RelOut (msTail cx e verify K N) (specTail cfg verify st keys sigs s3 (st.opCount + K)) := by
  subst hK hN hs3
  have hE : e.stack = (nk :: (keys ++ ns :: (sigs ++ dummy :: s4))).reverse := by rw [h.stack, hst]
  unfold msTail specTail
  simp only [Std.Legacy.Range.forIn_eq_forIn_range', Std.Legacy.Range.size, Nat.sub_zero, Nat.add_sub_cancel, Nat.div_one]
  have hsig : ∀ k (hk : k < sigs.length), top e.stack (2 + keys.length + 1 + k) = .ok sigs[k] := by
    intro k hk; rw [hE]; exact shape_sig nk ns dummy keys sigs s4 k hk
  have hkey : ∀ k (hk : k < keys.length), top e.stack (2 + k) = .ok keys[k] := by
    intro k hk; rw [hE]; exact shape_key nk ns dummy keys sigs s4 k hk
  have hsig0 : ∀ k (hk : k < sigs.length), top e.stack (2 + keys.length + 1 + (0 + k)) = .ok sigs[k] := by
    intro k hk; rw [Nat.zero_add]; exact hsig k hk
  refine relVal_bind_out
    (m := forIn (List.range' 0 sigs.length) e.pbegincodehash (fadBody e e.stack (2 + keys.length + 1))) ?_ ?_
  · rw [h.codeFrom]; exact fadLoop L hc e.stack _ sigs 0 _ hsig0
  · intro code
    refine relVal_bind_out (msLoop L hc code e.stack keys sigs _ 2 hsig hkey) ?_
    intro ok
    rw [shape_sigs nk ns dummy keys sigs s4 e.stack hE, shape_take nk ns dummy keys sigs s4 e.stack hE]
    simp only [List.any_reverse, hc.flags, top1, pop_snoc, ok_bind]
    have hany : (fun s : Bytes => s.length != 0) = (fun s => !s.isEmpty) := by
      funext s; cases s <;> rfl
    have hd : (dummy.length != 0) = !dummy.isEmpty := by cases dummy <;> rfl
    have c2 : ¬ ((s4.reverse ++ [dummy]).length < 1) := by simp
    rw [hany, hd, if_neg c2]
    by_cases c1 : (!ok && hasFlag e.flags Flag.NULLFAIL && sigs.any fun s => !s.isEmpty) = true
    · rw [if_pos c1, if_pos c1]; simp
    · rw [if_neg c1, if_neg c1]
      by_cases c3 : (hasFlag e.flags Flag.NULLDUMMY && !dummy.isEmpty) = true
      · simp only [if_pos c3]; simp
      · simp only [if_neg c3]
        obtain ⟨hs, ha, hcond, hop, hcf, hcs, hwl, hwi⟩ := h
        cases verify <;> cases ok <;> simp only [Bool.false_eq_true, if_false, if_true]
        · apply sizeCheck_rel; constructor <;> simp_all [Spec.ofBool, vchTrue, vchFalse]
        · apply sizeCheck_rel; constructor <;> simp_all [Spec.ofBool, vchTrue, vchFalse]
        · simp
        · apply sizeCheck_rel; constructor <;> simp_all [Spec.ofBool, vchTrue, vchFalse]


private theorem ms_refines (L : SigLemmas) {cx : Ctx} {e : SEE} {cfg : Spec.Cfg} {st : Spec.St}
    (hc : CfgRel cx e cfg) (h : Rel e st) (verify : Bool) :
    RelOut (msModel cx e verify) (Spec.execMultisig cfg (hasFlag cfg.flags Flag.MINIMALDATA) verify st) := by
  unfold msModel Spec.execMultisig
  have hsv : (cfg.sigversion == .TAPSCRIPT) = (e.sigversion == .TAPSCRIPT) := by rw [hc.sv]
  have hmp : Gen.MAX_PUBKEYS_PER_MULTISIG = Spec.maxPubkeysPerMultisig := by decide
  have hmo : Gen.MAX_OPS_PER_SCRIPT = Spec.maxOpsPerScript := by decide
  rw [hsv]
  by_cases ht : (e.sigversion == SigVersion.TAPSCRIPT) = true
  · rw [if_pos ht, if_pos ht]; simp
  · rw [if_neg ht, if_neg ht]
    have hs := h.stack
    rcases hst : st.stack with _ | ⟨nk, s1⟩
    · simp [hs, hst]
    · have hlen : e.stack.length = s1.length + 1 := by rw [hs, hst]; simp
      have c1 : ¬ (e.stack.length < 1) := by omega
      have htop1 : top e.stack 1 = .ok nk := by rw [hs, hst]; simp
      rw [if_neg c1, htop1, hc.rm, ← hc.flags, ← h.opCount, hmp, hmo]
      simp only [ok_bind]
      rcases num_cases nk (hasFlag cfg.flags Flag.MINIMALDATA) Gen.DEFAULT_MAX_NUM_SIZE with ⟨n, h1, h2⟩ | ⟨w, h1, h2⟩
      · rw [h1]; rw [default_num_size] at h2; rw [h2]
        simp only [ok_bind, specOk_bind]
        generalize hKdef : (getint n).toNat = K
        by_cases c2 : (decide (getint n < 0) || decide (getint n > ↑Spec.maxPubkeysPerMultisig)) = true
        · rw [if_pos c2, if_pos c2]; simp
        · rw [if_neg c2, if_neg c2]
          by_cases c3 : st.opCount + K > Spec.maxOpsPerScript
          · rw [if_pos c3, if_pos c3]; simp
          · rw [if_neg c3, if_neg c3]
            by_cases c4 : s1.length < K + 1
            · rw [if_pos (by omega : e.stack.length < 2 + K), if_pos c4]; simp
            · rw [if_neg (by omega : ¬ e.stack.length < 2 + K), if_neg c4]
              rcases hdrop : List.drop K s1 with _ | ⟨ns, s2⟩
              · have := congrArg List.length hdrop
                simp at this; omega
              · simp only []
                have hs2len : s1.length = K + 1 + s2.length := by
                  have := congrArg List.length hdrop
                  simp at this; omega
                have hns : (nk :: s1)[K + 1]? = some ns := by
                  rw [List.getElem?_cons_succ]
                  have := congrArg (fun l => l[0]?) hdrop
                  simpa [List.getElem?_drop] using this
                have htop2 : top e.stack (2 + K) = .ok ns := by
                  rw [hs, hst, show 2 + K = (K + 1) + 1 by omega]
                  exact top_reverse_of_getElem? hns
                rw [htop2]
                simp only [ok_bind]
                rcases num_cases ns (hasFlag cfg.flags Flag.MINIMALDATA) Gen.DEFAULT_MAX_NUM_SIZE with ⟨m, h3, h4⟩ | ⟨w, h3, h4⟩
                · rw [h3]; rw [default_num_size] at h4; rw [h4]
                  simp only [ok_bind, specOk_bind]
                  generalize hNdef : (getint m).toNat = N
                  by_cases c5 : (decide (getint m < 0) || decide (getint m > ↑K)) = true
                  · rw [if_pos c5, if_pos c5]; simp
                  · rw [if_neg c5, if_neg c5]
                    by_cases c6 : s2.length < N + 1
                    · rw [if_pos (by omega : e.stack.length < 2 + K + 1 + N), if_pos c6]; simp
                    · rw [if_neg (by omega : ¬ e.stack.length < 2 + K + 1 + N), if_neg c6]
                      rcases hd3 : List.drop N s2 with _ | ⟨dummy, s4⟩
                      · have := congrArg List.length hd3
                        simp at this; omega
                      · have hst' : st.stack = nk :: (List.take K s1 ++ ns :: (List.take N s2 ++ List.drop N s2)) := by
                          rw [List.take_append_drop, ← hdrop, List.take_append_drop, hst]
                        have := tail_rel L hc h verify nk ns dummy (List.take K s1) (List.take N s2)
                          (List.drop N s2) s4 K N (by simp; omega) (by simp; omega) hd3 hst'
                        rw [hd3] at this
                        exact this
                · rw [h3]; rw [default_num_size] at h4; rw [h4]; simp [errAbs, isAbnormal]
      · rw [h1]; rw [default_num_size] at h2; rw [h2]; simp [errAbs, isAbnormal]

-- the two opcodes ------------------------------------------------------------------------------

theorem refines_OP_CHECKMULTISIG_of (L : SigLemmas) : OpRefines .OP_CHECKMULTISIG := by
  intro cx cfg e st fExec pc hc h hw
  rw [model_eq1]
  exact ms_refines L hc h false

theorem refines_OP_CHECKMULTISIGVERIFY_of (L : SigLemmas) : OpRefines .OP_CHECKMULTISIGVERIFY := by
  intro cx cfg e st fExec pc hc h hw
  rw [model_eq2]
  exact ms_refines L hc h true

end Btcdeb.Refine
