import BtcdebProofs.Refine.Basic
set_option linter.unusedSimpArgs false
set_option linter.unusedVariables false
namespace Btcdeb.Refine
open Btcdeb Model

@[simp] private theorem top1_2 (xs : List Bytes) (a b : Bytes) : top (xs ++ [a, b]) 1 = .ok b := by
  simp [top]
@[simp] private theorem top2_2 (xs : List Bytes) (a b : Bytes) : top (xs ++ [a, b]) 2 = .ok a := by
  simp [top]
@[simp] private theorem pop_2 (xs : List Bytes) (a b : Bytes) : pop (xs ++ [a, b]) = .ok (xs ++ [a]) := by
  simp [pop]
@[simp] private theorem top1_3 (xs : List Bytes) (a b c : Bytes) : top (xs ++ [a, b, c]) 1 = .ok c := by
  simp [top]
@[simp] private theorem top2_3 (xs : List Bytes) (a b c : Bytes) : top (xs ++ [a, b, c]) 2 = .ok b := by
  simp [top]
@[simp] private theorem top3_3 (xs : List Bytes) (a b c : Bytes) : top (xs ++ [a, b, c]) 3 = .ok a := by
  simp [top]
@[simp] private theorem pop_3 (xs : List Bytes) (a b c : Bytes) : pop (xs ++ [a, b, c]) = .ok (xs ++ [a, b]) := by
  simp [pop]
@[simp] private theorem ok_map {α β} (f : α → β) (a : α) : f <$> (Except.ok a : M α) = .ok (f a) := rfl
@[simp] private theorem err_map {α β} (f : α → β) (x : StepErr) : f <$> (Except.error x : M α) = .error x := rfl

@[simp] private theorem isAbnormal_script (x : ScriptError) : isAbnormal (.script x) = false := rfl
@[simp] private theorem errAbs_script (x : ScriptError) : errAbs (.script x) = x := rfl
@[simp] private theorem isAbnormal_exc (x : String) : isAbnormal (.exc x) = false := rfl
@[simp] private theorem errAbs_exc (x : String) : errAbs (.exc x) = .UNKNOWN_ERROR := rfl

/-- outcomes of one signature check correspond -/
def RelChecksigOut (e : SEE) (m : M (Bool × ExecData)) (s : Spec.R (Bool × Spec.St)) : Prop :=
  match m, s with
  | .ok (ok, ed), .ok (ok', st') => ok = ok' ∧ Rel { e with execdata := ed } st'
  | .error x, .error y => errAbs x = y ∧ isAbnormal x = false
  | _, _ => False

private theorem relUnit_cases {m : M Unit} {s : Spec.R Unit} (h : RelUnit m s) :
    (m = .ok () ∧ s = .ok ()) ∨
    (∃ x, m = .error x ∧ s = .error (errAbs x) ∧ isAbnormal x = false) := by
  unfold RelUnit at h
  split at h
  · left; exact ⟨rfl, rfl⟩
  · right; rename_i x y; exact ⟨x, rfl, by rw [h.1], h.2⟩
  · exact h.elim

private theorem pairListed_keyListed (cfg : Spec.Cfg) (sig key : Bytes) (h : Spec.pairListed cfg sig key = true) :
    Spec.keyListed cfg key = true := by
  unfold Spec.pairListed at h
  unfold Spec.keyListed
  rw [List.any_eq_true]
  have := List.contains_iff_mem.mp h
  exact ⟨(sig, key), this, by simp⟩

private theorem mock_eq {cx : Ctx} {e : SEE} {cfg : Spec.Cfg} (hc : CfgRel cx e cfg) (sig key : Bytes) :
    (e.pretendKeys.contains key && pretendHas e.pretendMap sig key) = Spec.mockHit cfg sig key := by
  unfold Spec.mockHit
  by_cases hk : e.pretendKeys.contains key = true
  · rw [hk, Bool.true_and]; exact hc.pretendPair sig key hk
  · have hk' : e.pretendKeys.contains key = false := by simpa using hk
    rw [hk', Bool.false_and]
    cases hp : Spec.pairListed cfg sig key
    · rfl
    · have := pairListed_keyListed cfg sig key hp
      rw [← hc.pretendKeys key, hk'] at this
      cases this

private theorem rel_execdata {e : SEE} {st : Spec.St} (h : Rel e st) (ed : ExecData) (w : Int)
    (hcs : ed.codesepPos = st.codesepPos) (hwl : ed.weightLeft = w) (hwi : ed.weightInit = st.weightInit) :
    Rel { e with execdata := ed } { st with weightLeft := w } := by
  obtain ⟨hs, ha, hcond, hop, hcf, _, _, _⟩ := h
  constructor <;> simp_all

private theorem weight_const : (Gen.VALIDATION_WEIGHT_PER_SIGOP_PASSED : Int) = 50 := by decide

private theorem pretap_tail {e : SEE} {st : Spec.St} (h : Rel e st) {m1 m2 : M Unit} {s1 s2 : Spec.R Unit}
    (r1 : RelUnit m1 s1) (r2 : RelUnit m2 s2) (ok nf : Bool) (sig : Bytes) :
    RelChecksigOut e
      (do
        let ok ← (do
          m1
          m2
          if !ok && nf && sig.length != 0 then fail .SIG_NULLFAIL
          pure ok : M Bool)
        pure (ok, e.execdata))
      (do
        s1
        s2
        if !ok && nf && !sig.isEmpty then .error .SIG_NULLFAIL
        .ok (ok, st)) := by
  have hne : (sig.length != 0) = !sig.isEmpty := by cases sig <;> simp
  rw [hne]
  rcases relUnit_cases r1 with ⟨h1, h2⟩ | ⟨x, h1, h2, h3⟩ <;>
  rcases relUnit_cases r2 with ⟨k1, k2⟩ | ⟨y, k1, k2, k3⟩ <;>
  simp only [h1, h2, k1, k2]
  · cases ok <;> cases nf <;> cases hs : sig.isEmpty <;>
      simp [RelChecksigOut, fail, pure, Except.pure] <;> exact h
  all_goals simp [RelChecksigOut, fail, pure, Except.pure, *]

theorem evalChecksig_rel (L : SigLemmas) {cx : Ctx} {e : SEE} {cfg : Spec.Cfg} {st : Spec.St}
    (hc : CfgRel cx e cfg) (h : Rel e st)
    (hw : e.sigversion = .TAPSCRIPT → e.execdata.weightInit = true) (sig key : Bytes) :
    RelChecksigOut e (evalChecksig cx e sig key) (Spec.checkSig cfg st sig key) := by
  unfold evalChecksig Spec.checkSig
  rw [mock_eq hc, hc.sv]
  by_cases hm : Spec.mockHit cfg sig key = true
  · simp only [hm, if_true]
    exact ⟨rfl, h⟩
  · simp only [hm]
    have hse := L.sigEnc cx e cfg hc sig
    have hke := L.keyEnc cx e cfg hc key
    cases hsv : e.sigversion
    · simp only [Bool.false_eq_true, if_false]
      unfold evalChecksigPreTapscript
      simp only [hsv, ← L.fad, ← L.pushData, hc.flags, h.codeFrom, hc.ecdsa, beq_self_eq_true, if_true] at hke ⊢
      by_cases hf : (decide ((findAndDelete e.pbegincodehash (pushData sig)).snd > 0) &&
                  hasFlag e.flags Flag.CONST_SCRIPTCODE) = true
      · simp only [hf, if_true]
        simp [RelChecksigOut, fail]
      · simp only [hf]
        exact pretap_tail h hse hke _ _ sig
    · simp only [Bool.false_eq_true, if_false]
      unfold evalChecksigPreTapscript
      have hwb : (SigVersion.WITNESS_V0 == SigVersion.BASE) = false := by decide
      simp only [hsv, hc.flags, h.codeFrom, hc.ecdsa, hwb, Bool.false_eq_true, if_false] at hke ⊢
      exact pretap_tail h hse hke _ _ sig
    · simp only [Bool.false_eq_true, if_false]
      have hs := hc.schnorr sig key .TAPROOT e.execdata
      rw [← h.codesep] at hs
      rcases relUnit_cases hs with ⟨h1, h2⟩ | ⟨x, h1, h2, h3⟩
      · rw [h1, h2]; exact ⟨rfl, h⟩
      · rw [h1, h2]
        cases x <;> simp [RelChecksigOut, fail, isAbnormal] at h3 ⊢
    · simp only [Bool.false_eq_true, if_false]
      unfold evalChecksigTapscript
      have hwi := hw hsv
      have hkl : (key.length == 0) = key.isEmpty := by cases key <;> simp
      simp only [hsv, hc.flags, weight_const, h.weight, hkl]
      generalize hed : ({ e.execdata with weightLeft := e.execdata.weightLeft - 50 } : ExecData) = ed
      have hcs : ed.codesepPos = st.codesepPos := by rw [← hed, h.codesep]
      have hwl : ed.weightLeft = e.execdata.weightLeft - 50 := by rw [← hed]
      have hwi' : ed.weightInit = st.weightInit := by rw [← hed, h.weightInit]
      have hs := hc.schnorr sig key .TAPSCRIPT ed
      rw [hcs] at hs
      have hs0 := hc.schnorr sig key .TAPSCRIPT e.execdata
      rw [← h.codesep] at hs0
      simp only [hwi, Bool.not_true, Bool.false_eq_true, if_false]
      cases hsig : sig.isEmpty
      · simp only [Bool.not_false, if_true]
        by_cases hlt : e.execdata.weightLeft - 50 < 0
        · simp [hlt, RelChecksigOut, fail]
        · simp only [hlt, if_false]
          cases hk : key.isEmpty
          · by_cases h32 : key.length = 32
            · rcases relUnit_cases hs with ⟨h1, h2⟩ | ⟨x, h1, h2, h3⟩
              · simp [h32, pure, Except.pure, h1, h2, RelChecksigOut]
                exact rel_execdata h ed _ hcs hwl hwi'
              · simp [h32, pure, Except.pure, h1, h2, h3, RelChecksigOut]
            · simp [h32, pure, Except.pure, RelChecksigOut]
              cases hasFlag e.flags Flag.DISCOURAGE_UPGRADABLE_PUBKEYTYPE
              · simp
                exact rel_execdata h ed _ hcs hwl hwi'
              · simp [fail]
          · simp [RelChecksigOut, fail, pure, Except.pure]
      · simp only [Bool.not_true, Bool.false_eq_true, if_false]
        cases hk : key.isEmpty
        · by_cases h32 : key.length = 32
          · simp [h32, pure, Except.pure, RelChecksigOut]
            exact h
          · simp [h32, pure, Except.pure, RelChecksigOut]
            cases hasFlag e.flags Flag.DISCOURAGE_UPGRADABLE_PUBKEYTYPE
            · simp
              exact h
            · simp [fail]
        · simp [RelChecksigOut, fail, pure, Except.pure]

private theorem relSig_cases {e : SEE} {m : M (Bool × ExecData)} {s : Spec.R (Bool × Spec.St)}
    (h : RelChecksigOut e m s) :
    (∃ ok ed st', m = .ok (ok, ed) ∧ s = .ok (ok, st') ∧ Rel { e with execdata := ed } st') ∨
    (∃ x, m = .error x ∧ s = .error (errAbs x) ∧ isAbnormal x = false) := by
  unfold RelChecksigOut at h
  split at h
  · left; rename_i ok ed ok' st'; exact ⟨ok, ed, st', rfl, by rw [h.1], h.2⟩
  · right; rename_i x y; exact ⟨x, rfl, by rw [h.1], h.2⟩
  · exact h.elim

theorem refines_OP_CHECKSIG_of (L : SigLemmas) : OpRefines .OP_CHECKSIG := by
  intro cx cfg e st fExec pc hc h hw
  have hs := h.stack
  unfold execOpcode Spec.execOp
  simp [Spec.disabled, Spec.smallInt, Spec.isNopN, Spec.isUnary, Spec.isBinary]
  rcases hst : st.stack with _ | ⟨key, _ | ⟨sig, s⟩⟩
  · simp [hs, hst]
  · simp [hs, hst]
  · simp [hs, hst]
    rcases relSig_cases (evalChecksig_rel L hc h hw sig key) with ⟨ok, ed, st', h1, h2, h3⟩ | ⟨x, h1, h2, h3⟩
    · rw [h1, h2]
      have hlen : ¬ (s.length + 2 < 2) := by omega
      simp [hlen]
      apply sizeCheck_rel
      obtain ⟨_, ha', hcond', hop', hcf', hcs', hwl', hwi'⟩ := h3
      constructor <;> simp_all [Spec.ofBool, vchTrue, vchFalse]
    · rw [h1, h2]
      have hlen : ¬ (s.length + 2 < 2) := by omega
      simp [hlen, h3]

theorem refines_OP_CHECKSIGVERIFY_of (L : SigLemmas) : OpRefines .OP_CHECKSIGVERIFY := by
  intro cx cfg e st fExec pc hc h hw
  have hs := h.stack
  unfold execOpcode Spec.execOp
  simp [Spec.disabled, Spec.smallInt, Spec.isNopN, Spec.isUnary, Spec.isBinary]
  rcases hst : st.stack with _ | ⟨key, _ | ⟨sig, s⟩⟩
  · simp [hs, hst]
  · simp [hs, hst]
  · simp [hs, hst]
    have hlen : ¬ (s.length + 2 < 2) := by omega
    rcases relSig_cases (evalChecksig_rel L hc h hw sig key) with ⟨ok, ed, st', h1, h2, h3⟩ | ⟨x, h1, h2, h3⟩
    · rw [h1, h2]
      cases ok
      · simp [hlen]
      · simp [hlen]
        apply sizeCheck_rel
        obtain ⟨_, ha', hcond', hop', hcf', hcs', hwl', hwi'⟩ := h3
        constructor <;> simp_all
    · rw [h1, h2]
      simp [hlen, h3]

theorem refines_OP_CHECKSIGADD_of (L : SigLemmas) : OpRefines .OP_CHECKSIGADD := by
  intro cx cfg e st fExec pc hc h hw
  have hs := h.stack
  unfold execOpcode Spec.execOp
  simp [Spec.disabled, Spec.smallInt, Spec.isNopN, Spec.isUnary, Spec.isBinary]
  rw [hc.sv]
  by_cases hsv : e.sigversion = .BASE ∨ e.sigversion = .WITNESS_V0
  · simp [hsv]
  · simp [hsv]
    rcases hst : st.stack with _ | ⟨key, _ | ⟨nb, _ | ⟨sig, s⟩⟩⟩
    · simp [hs, hst]
    · simp [hs, hst]
    · simp [hs, hst]
    · simp [hs, hst]
      have hlen : ¬ (s.length + 3 < 3) := by omega
      simp only [hlen, if_false]
      rw [hc.rm, hc.flags]
      rcases num_cases nb (hasFlag e.flags Flag.MINIMALDATA) 4 with ⟨n, n1, n2⟩ | ⟨w, n1, n2⟩
      · rw [default_num_size, n1, n2]
        rcases relSig_cases (evalChecksig_rel L hc h hw sig key) with ⟨ok, ed, st', h1, h2, h3⟩ | ⟨x, h1, h2, h3⟩
        · rw [h1, h2]
          simp
          apply sizeCheck_rel
          obtain ⟨_, ha', hcond', hop', hcf', hcs', hwl', hwi'⟩ := h3
          constructor <;> simp_all [Spec.encodeNum, boolNum]
        · rw [h1, h2]
          simp [h3]
      · rw [default_num_size, n1, n2]
        simp

end Btcdeb.Refine
