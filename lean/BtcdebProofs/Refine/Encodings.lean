/-
  Refinement Model ≈ Spec for the signature / public-key encoding checks and the push encoding.
-/
import BtcdebProofs.Refine.Basic
namespace Btcdeb.Refine
open Btcdeb Model

-- byteAt ----------------------------------------------------------------------------------------

private theorem byteAt_nil (i : Nat) : byteAt [] i = 0 := by simp [byteAt]
private theorem byteAt_cons_zero (a : UInt8) (s : Bytes) : byteAt (a :: s) 0 = a.toNat := by simp [byteAt]
private theorem byteAt_cons_succ (a : UInt8) (s : Bytes) (i : Nat) : byteAt (a :: s) (i + 1) = byteAt s i := by
  simp [byteAt]
private theorem byteAt_append_left (r s : Bytes) (i : Nat) (h : i < r.length) : byteAt (r ++ s) i = byteAt r i := by
  simp [byteAt, List.getElem?_append_left h]
private theorem byteAt_append_right (r s : Bytes) (i : Nat) : byteAt (r ++ s) (r.length + i) = byteAt s i := by
  simp [byteAt, List.getElem?_append_right]
private theorem byteAt_take (l : Bytes) (k i : Nat) (h : i < k) : byteAt (l.take k) i = byteAt l i := by
  simp [byteAt, h]

theorem isCompressedOrUncompressed_eq (k : Bytes) :
    isCompressedOrUncompressedPubKey k = Spec.isCompressedOrUncompressed k := by
  unfold isCompressedOrUncompressedPubKey Spec.isCompressedOrUncompressed
  rcases k with _ | ⟨h, t⟩
  · simp
  · simp only [byteAt_cons_zero, List.length_cons]
    rw [Bool.eq_iff_iff]
    by_cases h4 : h.toNat = 4 <;> by_cases h2 : h.toNat = 2 <;> by_cases h3 : h.toNat = 3 <;>
      simp [h4, h2, h3] <;> omega

theorem isCompressed_eq (k : Bytes) : isCompressedPubKey k = Spec.isCompressed k := by
  unfold isCompressedPubKey Spec.isCompressed
  rcases k with _ | ⟨h, t⟩
  · simp
  · simp only [byteAt_cons_zero, List.length_cons]
    rw [Bool.eq_iff_iff]
    simp
    constructor <;> intro h <;> simp [h]

theorem pushData_eq (b : Bytes) : pushData b = Spec.pushOf b := by
  unfold pushData Spec.pushOf
  have : Op.OP_PUSHDATA1 = 0x4c := by decide
  rw [this]

theorem isDefinedHashtype_eq (sig : Bytes) : isDefinedHashtypeSignature sig = Spec.definedHashtype sig := by
  unfold isDefinedHashtypeSignature Spec.definedHashtype
  have h1 : Gen.SIGHASH_ALL = 1 := by decide
  have h3 : Gen.SIGHASH_SINGLE = 3 := by decide
  rw [h1, h3]
  cases sig.getLast? with
  | none => rfl
  | some h =>
    simp only
    rw [Bool.eq_iff_iff]
    simp
    omega

-- BIP66 ------------------------------------------------------------------------------------------

/-- the integer rule of BIP66, as the index checks of the C++ -/
private theorem derInt_eq (b : Bytes) :
    Spec.derInt b = (b.length != 0 && decide (byteAt b 0 < 0x80) &&
      !(decide (b.length > 1) && byteAt b 0 == 0 && decide (byteAt b 1 < 0x80))) := by
  rcases b with _ | ⟨h, _ | ⟨h2, t⟩⟩
  · simp [Spec.derInt]
  · simp [Spec.derInt, byteAt_cons_zero]
  · rw [Bool.eq_iff_iff]; simp [Spec.derInt, byteAt_cons_zero, byteAt_cons_succ]

private theorem split_at (rest : Bytes) (n : Nat) (h : n + 2 ≤ rest.length) :
    ∃ r t2 ls rest3, rest = r ++ t2 :: ls :: rest3 ∧ r.length = n := by
  refine ⟨rest.take n, ?_⟩
  rcases hd : rest.drop n with _ | ⟨t2, _ | ⟨ls, rest3⟩⟩
  · have := congrArg List.length hd; simp at this; omega
  · have := congrArg List.length hd; simp at this; omega
  · refine ⟨t2, ls, rest3, ?_, ?_⟩
    · rw [← hd]; simp
    · simp; omega

theorem isValidSignatureEncoding_eq (sig : Bytes) : isValidSignatureEncoding sig = Spec.strictDer sig := by
  rcases sig with _ | ⟨t, _ | ⟨l, _ | ⟨t1, _ | ⟨lr, rest⟩⟩⟩⟩
  · simp [isValidSignatureEncoding, Spec.strictDer]
  · simp [isValidSignatureEncoding, Spec.strictDer]
  · simp [isValidSignatureEncoding, Spec.strictDer]
  · simp [isValidSignatureEncoding, Spec.strictDer]
  · by_cases hlen : lr.toNat + 2 ≤ rest.length
    · obtain ⟨r, t2, ls, rest3, rfl, hr⟩ := split_at rest lr.toNat hlen
      have hidx : ∀ i, byteAt (t :: l :: t1 :: lr :: (r ++ t2 :: ls :: rest3)) (i + 4)
          = byteAt (r ++ t2 :: ls :: rest3) i := by
        intro i; exact byteAt_cons_succ _ _ _ |>.trans (byteAt_cons_succ _ _ _ |>.trans
          (byteAt_cons_succ _ _ _ |>.trans (byteAt_cons_succ _ _ _)))
      have hR : ∀ i, byteAt (r ++ t2 :: ls :: rest3) (r.length + i) = byteAt (t2 :: ls :: rest3) i :=
        byteAt_append_right r _
      have b0 : byteAt (t :: l :: t1 :: lr :: (r ++ t2 :: ls :: rest3)) 0 = t.toNat := byteAt_cons_zero _ _
      have b1 : byteAt (t :: l :: t1 :: lr :: (r ++ t2 :: ls :: rest3)) 1 = l.toNat := by simp [byteAt]
      have b2 : byteAt (t :: l :: t1 :: lr :: (r ++ t2 :: ls :: rest3)) 2 = t1.toNat := by simp [byteAt]
      have b3 : byteAt (t :: l :: t1 :: lr :: (r ++ t2 :: ls :: rest3)) 3 = r.length := by simp [byteAt, hr]
      have b4 : byteAt (t :: l :: t1 :: lr :: (r ++ t2 :: ls :: rest3)) 4
          = byteAt (r ++ t2 :: ls :: rest3) 0 := hidx 0
      have b5 : byteAt (t :: l :: t1 :: lr :: (r ++ t2 :: ls :: rest3)) 5
          = byteAt (r ++ t2 :: ls :: rest3) 1 := hidx 1
      have e5 : byteAt (t :: l :: t1 :: lr :: (r ++ t2 :: ls :: rest3)) (5 + r.length) = ls.toNat := by
        rw [show 5 + r.length = (r.length + 1) + 4 by omega, hidx, hR]; simp [byteAt]
      have e4 : byteAt (t :: l :: t1 :: lr :: (r ++ t2 :: ls :: rest3)) (r.length + 4) = t2.toNat := by
        rw [hidx, ← Nat.add_zero r.length, hR]; simp [byteAt]
      have e6 : byteAt (t :: l :: t1 :: lr :: (r ++ t2 :: ls :: rest3)) (r.length + 6) = byteAt rest3 0 := by
        rw [show r.length + 6 = (r.length + 2) + 4 by omega, hidx, hR]; simp [byteAt]
      have e7 : byteAt (t :: l :: t1 :: lr :: (r ++ t2 :: ls :: rest3)) (r.length + 7) = byteAt rest3 1 := by
        rw [show r.length + 7 = (r.length + 3) + 4 by omega, hidx, hR]; simp [byteAt]
      have htake : (r ++ t2 :: ls :: rest3).take lr.toNat = r := by rw [← hr]; simp
      have hdrop : (r ++ t2 :: ls :: rest3).drop lr.toNat = t2 :: ls :: rest3 := by rw [← hr]; simp
      unfold isValidSignatureEncoding Spec.strictDer
      simp only [b0, b1, b2, b3, b4, b5, e4, e5, e6, e7, htake, hdrop, derInt_eq]
      have f0 : 0 < r.length → byteAt (r ++ t2 :: ls :: rest3) 0 = byteAt r 0 := byteAt_append_left _ _ _
      have f1 : 1 < r.length → byteAt (r ++ t2 :: ls :: rest3) 1 = byteAt r 1 := byteAt_append_left _ _ _
      have g0 : 0 < ls.toNat → byteAt (rest3.take ls.toNat) 0 = byteAt rest3 0 := byteAt_take _ _ _
      have g1 : 1 < ls.toNat → byteAt (rest3.take ls.toNat) 1 = byteAt rest3 1 := byteAt_take _ _ _
      simp only [List.length_cons, List.length_append, List.length_take]
      generalize byteAt (r ++ t2 :: ls :: rest3) 0 = a0 at *
      generalize byteAt (r ++ t2 :: ls :: rest3) 1 = a1 at *
      generalize byteAt (rest3.take ls.toNat) 0 = c0 at *
      generalize byteAt (rest3.take ls.toNat) 1 = c1 at *
      generalize byteAt r 0 = x0 at *
      generalize byteAt r 1 = x1 at *
      generalize byteAt rest3 0 = y0 at *
      generalize byteAt rest3 1 = y1 at *
      clear hidx hR b0 b1 b2 b3 b4 b5 e4 e5 e6 e7 htake hdrop hlen
      generalize r.length = n at *
      generalize rest3.length = m at *
      rw [Bool.eq_iff_iff]
      simp
      omega
    · have b3 : byteAt (t :: l :: t1 :: lr :: rest) 3 = lr.toNat := by simp [byteAt]
      have hm : isValidSignatureEncoding (t :: l :: t1 :: lr :: rest) = false := by
        unfold isValidSignatureEncoding
        simp only [b3, List.length_cons]
        have h5 : 5 + lr.toNat ≥ rest.length + 1 + 1 + 1 + 1 := by omega
        simp only [h5, if_true, ite_self]
      rw [hm]; symm
      unfold Spec.strictDer
      simp only
      rcases hd : rest.drop lr.toNat with _ | ⟨t2, _ | ⟨ls, rest3⟩⟩
      · simp
      · simp
      · have := congrArg List.length hd
        simp at this; omega

-- the two checks -----------------------------------------------------------------------------------

theorem checkSignatureEncoding_rel (cx : Ctx) (e : SEE) (cfg : Spec.Cfg) (hc : CfgRel cx e cfg) (sig : Bytes) :
    RelUnit (checkSignatureEncoding cx sig e.flags) (Spec.sigEncodingOk cfg sig) := by
  unfold checkSignatureEncoding Spec.sigEncodingOk
  rw [hc.flags, hc.checkLowS, isValidSignatureEncoding_eq, isDefinedHashtype_eq]
  by_cases hs : sig = []
  · subst hs; simp [RelUnit]
  · have h1 : (sig.length == 0) = false := by simpa using hs
    have h2 : sig.isEmpty = false := by simpa using hs
    simp only [h1, h2]
    cases hD : (hasFlag e.flags Flag.DERSIG || hasFlag e.flags Flag.LOW_S || hasFlag e.flags Flag.STRICTENC)
      <;> cases hL : hasFlag e.flags Flag.LOW_S <;> cases hS : hasFlag e.flags Flag.STRICTENC
      <;> cases hV : Spec.strictDer sig <;> cases hW : cx.checkLowS sig.dropLast
      <;> cases hH : Spec.definedHashtype sig
      <;> simp_all [RelUnit, fail, errAbs, isAbnormal]

theorem checkPubKeyEncoding_rel (cx : Ctx) (e : SEE) (cfg : Spec.Cfg) (hc : CfgRel cx e cfg) (key : Bytes) :
    RelUnit (checkPubKeyEncoding key e.flags e.sigversion) (Spec.keyEncodingOk cfg key) := by
  unfold checkPubKeyEncoding Spec.keyEncodingOk
  rw [hc.flags, hc.sv, isCompressedOrUncompressed_eq, isCompressed_eq]
  split
  · simp [RelUnit, fail, errAbs, isAbnormal]
  · split
    · simp [RelUnit, fail, errAbs, isAbnormal]
    · simp [RelUnit]

end Btcdeb.Refine
